(* CompilerNames.v - property C09 at the level of the whole compiler (model/Compiler.v).
   Part 1 (Section Rename): alpha_invariance, alpha_invariance_compile_ast, compile_alpha, eval_alpha,
     compile_deterministic_in_names, compile_swap: renaming the identifiers of a program consistently
     (injectively, never onto a builtin name or onto the empty anonymous name) leaves the emitted bytecode
     identical BYTE FOR BYTE, hence the eval result.  Later: compile_rename_fresh / eval_rename_fresh
     (one variable renamed to a name that does not occur in the program).
   Part 2: compile_scoped / compile_statements_scoped / accepted_scoped: a program the compiler accepts
     passes the static scoping pass of spec/Sem.v (every identifier resolves lexically, stop/volgende inside
     a loop of the same function, antwoord inside a function), by a simulation between the compiler's symbol
     table and Sem's static context; undeclared_rejected, undeclared_rejected_err, undeclared_never_runs
     (Pipeline.eval reports a front-end error without running anything), compile_never_out_of_fuel;
     conversely compile_error_scoped / reference_error_exact: a ReferenceError of the compiler is a
     ReferenceError of the static pass.
   Hypothesis of Part 2: fn_ok_block (NAMED function literals only as whole statements) - necessary as
   Sem.v stands, see Example ex_named_fn_expr.
   The strong induction principle for the nested expr/stmt is cn_ast_ind (own copy; AstInduction.v did not
   exist when this was written). *)
From Coq Require Import List ZArith Lia Bool.
From NL.Model Require Import Compiler Pipeline.
From NL.Spec Require Import ScopeSpec Sem.
From NL.Proofs Require Import SymbolsProofs.
Import ListNotations.

Definition on_opt {A} (R : A -> Prop) (o : option A) : Prop := match o with Some a => R a | None => True end.
Definition on_index (P : expr -> Prop) (l : expr) : Prop := match l with EIndex l' i => P l' /\ P i | _ => True end.

Section AstInd.
  Variables (P : expr -> Prop) (Q : stmt -> Prop).
  Hypothesis HInfix : forall l o r, P l -> P r -> P (EInfix l o r).
  Hypothesis HPrefix : forall o r, P r -> P (EPrefix o r).
  Hypothesis HInt : forall z, P (EInt z).
  Hypothesis HFloat : forall f, P (EFloat f).
  Hypothesis HBool : forall b, P (EBool b).
  Hypothesis HIf : forall c t e, P c -> Forall Q t -> on_opt (Forall Q) e -> P (EIf c t e).
  Hypothesis HIdent : forall s, P (EIdent s).
  Hypothesis HFunction : forall n ps b, Forall Q b -> P (EFunction n ps b).
  Hypothesis HCall : forall f args, P f -> Forall P args -> P (ECall f args).
  Hypothesis HAssign : forall l r, P l -> on_index P l -> P r -> P (EAssign l r).
  Hypothesis HString : forall s, P (EString s).
  Hypothesis HArray : forall vs, Forall P vs -> P (EArray vs).
  Hypothesis HIndex : forall l i, P l -> P i -> P (EIndex l i).
  Hypothesis HWhile : forall c b, P c -> Forall Q b -> P (EWhile c b).
  Hypothesis HLet : forall n e, P e -> Q (SLet n e).
  Hypothesis HReturn : forall e, P e -> Q (SReturn e).
  Hypothesis HExpr : forall e, P e -> Q (SExpr e).
  Hypothesis HBlock : forall b, Forall Q b -> Q (SBlock b).
  Hypothesis HBreak : Q SBreak.
  Hypothesis HContinue : Q SContinue.

  Fixpoint cn_expr_ind (e : expr) : P e :=
    let stmts := fix stmts (l : list stmt) : Forall Q l :=
      match l with [] => Forall_nil Q | s :: r => Forall_cons s (cn_stmt_ind s) (stmts r) end in
    let exprs := fix exprs (l : list expr) : Forall P l :=
      match l with [] => Forall_nil P | s :: r => Forall_cons s (cn_expr_ind s) (exprs r) end in
    match e with
    | EInfix l o r => HInfix l o r (cn_expr_ind l) (cn_expr_ind r)
    | EPrefix o r => HPrefix o r (cn_expr_ind r)
    | EInt z => HInt z
    | EFloat f => HFloat f
    | EBool b => HBool b
    | EIf c t alt => HIf c t alt (cn_expr_ind c) (stmts t)
         (match alt as a0 return on_opt (Forall Q) a0 with Some b0 => stmts b0 | None => I end)
    | EIdent s => HIdent s
    | EFunction n ps b => HFunction n ps b (stmts b)
    | ECall f args => HCall f args (cn_expr_ind f) (exprs args)
    | EAssign l r => HAssign l r (cn_expr_ind l)
        (match l as l0 return on_index P l0 with
         | EIndex l' i => conj (cn_expr_ind l') (cn_expr_ind i)
         | _ => I
         end) (cn_expr_ind r)
    | EString s => HString s
    | EArray vs => HArray vs (exprs vs)
    | EIndex l i => HIndex l i (cn_expr_ind l) (cn_expr_ind i)
    | EWhile c b => HWhile c b (cn_expr_ind c) (stmts b)
    end
  with cn_stmt_ind (s : stmt) : Q s :=
    match s with
    | SLet n e => HLet n e (cn_expr_ind e)
    | SReturn e => HReturn e (cn_expr_ind e)
    | SExpr e => HExpr e (cn_expr_ind e)
    | SBlock b => HBlock b ((fix stmts (l : list stmt) : Forall Q l :=
      match l with [] => Forall_nil Q | s :: r => Forall_cons s (cn_stmt_ind s) (stmts r) end) b)
    | SBreak => HBreak
    | SContinue => HContinue
    end.

  Lemma cn_ast_ind : (forall e, P e) /\ (forall s, Q s).
  Proof. split; [exact cn_expr_ind | exact cn_stmt_ind]. Qed.
End AstInd.

(** * Outcome helpers *)
Definition map_outcome {A B} (f : A -> B) (o : outcome A) : outcome B :=
  match o with Ok a => Ok (f a) | Err k => Err k | Fault x => Fault x | OutOfFuel => OutOfFuel end.

(** * The compiler's local fixes, named *)
Fixpoint compile_exprs (l : list expr) (st : cstate) : outcome cstate :=
  match l with
  | [] => Ok st
  | x :: r => do st' <- compile_expression x st; compile_exprs r st'
  end.

Definition block_statement (b : list stmt) (st : cstate) : outcome cstate :=
  if is_nil b then Ok (emit_opcode ONull st)
  else do st1 <- compile_statements b (set_symbols st (enter_scope (c_symbols st)));
       Ok (set_symbols st1 (leave_scope (c_symbols st1))).

Definition block_value (b : list stmt) (st : cstate) : outcome cstate :=
  do st1 <- block_statement b st;
  if is_nil b then Ok st1
  else if last_instruction_is OPop st1 then Ok (remove_last_instruction st1)
  else Ok (emit_opcode ONull st1).

Definition patch_breaks (bs : list Z) (acc : outcome cstate) : outcome cstate :=
  fold_left (fun acc ip => do s <- acc; do tg <- operand 16 (code_len s); change_jump_operand_at ip tg s) bs acc.

Definition generic_infix (l : expr) (op : operator) (r : expr) (st0 : cstate) : outcome cstate :=
  do st1 <- compile_expression l st0;
  do st2 <- compile_expression r st1;
  match assoc operator_eqb op compile_operator_table with
  | Some opc => Ok (emit_opcode opc st2)
  | None => Fault FUnwrap
  end.

Lemma ce_bool : forall b st, compile_expression (EBool b) st = Ok (emit_opcode (if b then OTrue else OFalse) st).
Proof. reflexivity. Qed.
Lemma ce_float : forall f st, compile_expression (EFloat f) st = emit_const (KFloat f) (count_alloc st).
Proof. reflexivity. Qed.
Lemma ce_int : forall z st, compile_expression (EInt z) st = emit_const (KInt z) st.
Proof. reflexivity. Qed.
Lemma ce_string : forall s st, compile_expression (EString s) st = emit_const (KStr s) (count_alloc st).
Proof. reflexivity. Qed.
Lemma ce_ident : forall x st, compile_expression (EIdent x) st =
  match resolve (c_symbols st) x with
  | Some s => emit_sym (scoped s OGetGlobal OGetLocal) s st
  | None => Err EReferenceError
  end.
Proof. reflexivity. Qed.
Lemma ce_prefix : forall op r st, compile_expression (EPrefix op r) st =
  do st1 <- compile_expression r st;
  match op with
  | OpNegate | OpSubtract => Ok (emit_opcode ONegate st1)
  | OpNot => Ok (emit_opcode ONot st1)
  | _ => Err ETypeError
  end.
Proof. reflexivity. Qed.
Lemma ce_assign : forall l r st, compile_expression (EAssign l r) st =
  match l with
  | EIdent name =>
      match resolve (c_symbols st) name with
      | Some s =>
          do st1 <- compile_expression r st;
          do st2 <- emit_sym (scoped s OSetGlobal OSetLocal) s st1;
          emit_sym (scoped s OGetGlobal OGetLocal) s st2
      | None => Err EReferenceError
      end
  | EIndex l' i =>
      do st1 <- compile_expression l' st;
      do st2 <- compile_expression i st1;
      do st3 <- compile_expression r st2;
      Ok (emit_opcode OIndexSet st3)
  | _ => Err ETypeError
  end.
Proof. intros. destruct l; reflexivity. Qed.
Lemma ce_infix : forall l op r st, compile_expression (EInfix l op r) st =
  match fused_candidate l r op with
  | Some (name, v, op') =>
      let '(st1, done) := compile_const_var_infix name v op' st in
      if done : bool then Ok st1 else generic_infix l op r st1
  | None => generic_infix l op r st
  end.
Proof. reflexivity. Qed.
Lemma ce_if : forall c t alt st, compile_expression (EIf c t alt) st =
  do st1 <- compile_expression c st;
  let pos_jif := code_len st1 in
  let st2 := emit_u16 JUMP_PLACEHOLDER (emit_opcode OJumpIfFalse st1) in
  do st3 <- block_value t st2;
  let pos_jump := code_len st3 in
  let st4 := emit_u16 JUMP_PLACEHOLDER (emit_opcode OJump st3) in
  do target <- operand 16 (code_len st4);
  do st5 <- change_jump_operand_at pos_jif target st4;
  do st6 <- match alt with
            | Some b => block_value b st5
            | None => Ok (emit_opcode ONull st5)
            end;
  do target2 <- operand 16 (code_len st6);
  change_jump_operand_at pos_jump target2 st6.
Proof. reflexivity. Qed.
Lemma ce_while : forall c body st, compile_expression (EWhile c body) st =
  let st1 := emit_opcode ONull st in
  let start := code_len st1 in
  let st2 := set_loops st1 (c_loops st1 ++ [mkLoop start []]) in
  do st3 <- compile_expression c st2;
  let pos_jif := code_len st3 in
  let st4 := emit_opcode OPop (emit_u16 JUMP_PLACEHOLDER (emit_opcode OJumpIfFalse st3)) in
  do st5 <- block_value body st4;
  let st6 := emit_opcode OJump st5 in
  do back <- operand 16 start;
  let st7 := emit_u16 back st6 in
  do target <- operand 16 (code_len st7);
  do st8 <- change_jump_operand_at pos_jif target st7;
  match rev (c_loops st8) with
  | [] => Fault FUnwrap
  | ctx :: rest => patch_breaks (l_breaks ctx) (Ok (set_loops st8 (rev rest)))
  end.
Proof. reflexivity. Qed.
Lemma ce_function : forall name params body st, compile_expression (EFunction name params body) st =
  let '(st1, sym) :=
    if is_nil name then (st, None)
    else let '(t, s) := define (c_symbols st) name in (set_symbols st t, Some s) in
  let pos_jump := code_len st1 in
  let st2 := emit_u16 JUMP_PLACEHOLDER (emit_opcode OJump st1) in
  let t3 := fold_left (fun t p => fst (define t p)) params (new_context (c_symbols st2)) in
  let st3 := set_symbols st2 t3 in
  let pos_start := code_len st3 in
  let outer_loops := c_loops st3 in
  do st4 <- block_statement body (set_loops st3 []);
  let st5 := set_loops st4 outer_loops in
  let st6 := if last_instruction_is OPop st5 then emit_opcode OReturnValue (remove_last_instruction st5)
             else if last_instruction_is OReturnValue st5 then st5
             else emit_opcode OReturn st5 in
  do target <- operand 16 (code_len st6);
  do st7 <- change_jump_operand_at pos_jump target st6;
  let '(t8, num_locals) := leave_context (c_symbols st7) in
  let st8 := set_symbols st7 t8 in
  do ip <- operand 32 pos_start;
  do nl <- operand 16 (Z.of_nat num_locals);
  let '(st9, r) := add_constant (KFun ip nl) st8 in
  do idx <- r;
  let st10 := emit_u16 idx (emit_opcode OConst st9) in
  match sym with
  | Some s =>
      do st11 <- emit_sym (scoped s OSetGlobal OSetLocal) s st10;
      Ok (emit_u16 idx (emit_opcode OConst st11))
  | None => Ok st10
  end.
Proof. reflexivity. Qed.
Lemma ce_call : forall f args st, compile_expression (ECall f args) st =
  do st1 <- compile_exprs args st;
  let builtin := match f with
                 | EIdent name => assoc_text name builtin_names
                 | _ => None
                 end in
  match builtin with
  | Some b =>
      let st2 := emit_u8 (byte_of_builtin b) (emit_opcode OCallBuiltin st1) in
      do n <- operand 8 (zlength args);
      Ok (emit_u8 n st2)
  | None =>
      do st2 <- compile_expression f st1;
      let st3 := emit_opcode OCall st2 in
      do n <- operand 8 (zlength args);
      Ok (emit_u8 n st3)
  end.
Proof. reflexivity. Qed.
Lemma ce_array : forall vs st, compile_expression (EArray vs) st =
  do st1 <- compile_exprs vs st;
  let st2 := emit_opcode OArray st1 in
  do n <- operand 16 (zlength vs);
  Ok (emit_u16 n st2).
Proof. reflexivity. Qed.
Lemma ce_index : forall l i st, compile_expression (EIndex l i) st =
  do st1 <- compile_expression l st;
  do st2 <- compile_expression i st1;
  Ok (emit_opcode OIndexGet st2).
Proof. reflexivity. Qed.

Lemma cs_expr : forall e st, compile_statement (SExpr e) st = do st1 <- compile_expression e st; Ok (emit_opcode OPop st1).
Proof. reflexivity. Qed.
Lemma cs_block : forall b st, compile_statement (SBlock b) st =
  if is_nil b then Ok (emit_opcode OPop (emit_opcode ONull st))
  else do st1 <- compile_statements b (set_symbols st (enter_scope (c_symbols st)));
       Ok (set_symbols st1 (leave_scope (c_symbols st1))).
Proof. reflexivity. Qed.
Lemma cs_let : forall name v st, compile_statement (SLet name v) st =
  let '(t, sym) := define (c_symbols st) name in
  do st1 <- compile_expression v (set_symbols st t);
  emit_sym (scoped sym OSetGlobal OSetLocal) sym st1.
Proof. reflexivity. Qed.
Lemma cs_return : forall e st, compile_statement (SReturn e) st =
  if in_global_context (c_symbols st) then Err ESyntaxError
  else do st1 <- compile_expression e st; Ok (emit_opcode OReturnValue st1).
Proof. reflexivity. Qed.
Lemma cs_break : forall st, compile_statement SBreak st =
  let st1 := emit_opcode ONull st in
  let pos := code_len st1 in
  let st2 := emit_u16 JUMP_PLACEHOLDER (emit_opcode OJump st1) in
  match rev (c_loops st2) with
  | [] => Err ESyntaxError
  | ctx :: rest => Ok (set_loops st2 (rev (mkLoop (l_start ctx) (l_breaks ctx ++ [pos]) :: rest)))
  end.
Proof. reflexivity. Qed.
Lemma cs_continue : forall st, compile_statement SContinue st =
  let st1 := emit_opcode ONull st in
  match rev (c_loops st1) with
  | [] => Err ESyntaxError
  | ctx :: _ =>
      let st2 := emit_opcode OJump st1 in
      do pos <- operand 16 (l_start ctx);
      Ok (emit_u16 pos st2)
  end.
Proof. reflexivity. Qed.

(** * Renaming *)
Lemma map_removelast : forall A B (f : A -> B) l, removelast (map f l) = map f (removelast l).
Proof.
  intros A B f l. induction l as [|a l IH]; [reflexivity|]. cbn [map removelast].
  destruct l as [|b l]; [reflexivity|]. cbn [map] in *. now rewrite IH.
Qed.

Lemma update_last_map : forall A B (f : A -> B) (g : B -> B) (h : A -> A) l,
  (forall x, g (f x) = f (h x)) -> update_last g (map f l) = map f (update_last h l).
Proof.
  intros A B f g h l H. induction l as [|a l IH]; [reflexivity|]. cbn [map update_last].
  destruct l as [|b l]; [cbn [map]; now rewrite H|]. cbn [map] in *. now rewrite IH.
Qed.

Section Rename.
  Variable r : text -> text.

  Definition rename_fname (n : text) : text := if is_nil n then [] else r n.

  Fixpoint rename_expr (e : expr) : expr :=
    match e with
    | EInfix l o r0 => EInfix (rename_expr l) o (rename_expr r0)
    | EPrefix o r0 => EPrefix o (rename_expr r0)
    | EInt z => EInt z
    | EFloat f => EFloat f
    | EBool b => EBool b
    | EIf c t alt => EIf (rename_expr c) (map rename_stmt t) (option_map (map rename_stmt) alt)
    | EIdent s => EIdent (r s)
    | EFunction n ps b => EFunction (rename_fname n) (map r ps) (map rename_stmt b)
    | ECall f args =>
        ECall (match f with
               | EIdent x => if is_builtin_name x then EIdent x else EIdent (r x)
               | _ => rename_expr f
               end) (map rename_expr args)
    | EAssign l r0 => EAssign (rename_expr l) (rename_expr r0)
    | EString s => EString s
    | EArray vs => EArray (map rename_expr vs)
    | EIndex l i => EIndex (rename_expr l) (rename_expr i)
    | EWhile c b => EWhile (rename_expr c) (map rename_stmt b)
    end
  with rename_stmt (s : stmt) : stmt :=
    match s with
    | SLet n e => SLet (r n) (rename_expr e)
    | SReturn e => SReturn (rename_expr e)
    | SExpr e => SExpr (rename_expr e)
    | SBlock b => SBlock (map rename_stmt b)
    | SBreak => SBreak
    | SContinue => SContinue
    end.

  Definition rename_block (b : block) : block := map rename_stmt b.

  Definition rename_state (st : cstate) : cstate := set_symbols st (map_tab r (c_symbols st)).
  Notation rs := rename_state.

  (* state primitives commute with the renaming of the table *)
  Lemma rs_emit_opcode : forall op st, emit_opcode op (rs st) = rs (emit_opcode op st).
  Proof. reflexivity. Qed.
  Lemma rs_emit_u8 : forall v st, emit_u8 v (rs st) = rs (emit_u8 v st).
  Proof. reflexivity. Qed.
  Lemma rs_emit_u16 : forall v st, emit_u16 v (rs st) = rs (emit_u16 v st).
  Proof. reflexivity. Qed.
  Lemma rs_set_loops : forall st l, set_loops (rs st) l = rs (set_loops st l).
  Proof. reflexivity. Qed.
  Lemma rs_count_alloc : forall st, count_alloc (rs st) = rs (count_alloc st).
  Proof. reflexivity. Qed.
  Lemma rs_remove_last : forall st, remove_last_instruction (rs st) = rs (remove_last_instruction st).
  Proof. reflexivity. Qed.
  Lemma rs_code_len : forall st, code_len (rs st) = code_len st.
  Proof. reflexivity. Qed.
  Lemma rs_loops : forall st, c_loops (rs st) = c_loops st.
  Proof. reflexivity. Qed.
  Lemma rs_last_is : forall op st, last_instruction_is op (rs st) = last_instruction_is op st.
  Proof. reflexivity. Qed.
  Lemma rs_symbols : forall st, c_symbols (rs st) = map_tab r (c_symbols st).
  Proof. reflexivity. Qed.
  Lemma rs_set_symbols : forall st t, set_symbols (rs st) (map_tab r t) = rs (set_symbols st t).
  Proof. reflexivity. Qed.

  Lemma rs_add_constant : forall k st,
    add_constant k (rs st) = (rs (fst (add_constant k st)), snd (add_constant k st)).
  Proof.
    intros k st. unfold add_constant. cbn [rename_state set_symbols c_constants].
    destruct (const_position k (c_constants st)); reflexivity.
  Qed.
  Lemma rs_emit_const : forall k st, emit_const k (rs st) = map_outcome rs (emit_const k st).
  Proof.
    intros k st. unfold emit_const. rewrite rs_add_constant. destruct (add_constant k st) as [st1 o].
    cbn [fst snd]. destruct o; reflexivity.
  Qed.
  Lemma rs_emit_sym : forall op s st, emit_sym op s (rs st) = map_outcome rs (emit_sym op s st).
  Proof. intros. unfold emit_sym. destruct (operand 16 (Z.of_nat (s_index s))); reflexivity. Qed.
  Lemma rs_change_jump : forall i v st,
    change_jump_operand_at i v (rs st) = map_outcome rs (change_jump_operand_at i v st).
  Proof.
    intros. unfold change_jump_operand_at. cbn [rename_state set_symbols c_code].
    destruct (nth_error (c_code st) (Z.to_nat i)) as [b|]; [|reflexivity].
    destruct ((b =? byte_of_opcode OJump)%Z || (b =? byte_of_opcode OJumpIfFalse)%Z); reflexivity.
  Qed.

  Lemma bind_rs : forall (x : outcome cstate) (k k' : cstate -> outcome cstate),
    (forall a, k' (rs a) = map_outcome rs (k a)) ->
    bind (map_outcome rs x) k' = map_outcome rs (bind x k).
  Proof. intros x k k' H; destruct x; cbn [bind map_outcome]; auto. Qed.
  Lemma bind_rs0 : forall A (x : outcome A) (k k' : A -> outcome cstate),
    (forall a, k' a = map_outcome rs (k a)) -> bind x k' = map_outcome rs (bind x k).
  Proof. intros A x k k' H; destruct x; cbn [bind map_outcome]; auto. Qed.

  Lemma rs_patch_breaks : forall bs acc,
    patch_breaks bs (map_outcome rs acc) = map_outcome rs (patch_breaks bs acc).
  Proof.
    induction bs as [|ip bs IH]; intros acc; [reflexivity|]. unfold patch_breaks in *. cbn [fold_left].
    rewrite <- IH. f_equal. apply bind_rs. intros a. rewrite rs_code_len. apply bind_rs0. intros tg.
    apply rs_change_jump.
  Qed.

  (* symbol-table operations commute with the renaming *)
  Lemma map_tab_enter_scope : forall t, enter_scope (map_tab r t) = map_tab r (enter_scope t).
  Proof.
    intros t. unfold enter_scope, map_tab. apply update_last_map. intros c. unfold map_ctx.
    cbn [c_scope c_max c_syms]. now rewrite map_app.
  Qed.
  Lemma map_tab_leave_scope : forall t, leave_scope (map_tab r t) = map_tab r (leave_scope t).
  Proof.
    intros t. unfold leave_scope, map_tab. apply update_last_map. intros c. unfold map_ctx.
    cbn [c_scope c_max c_syms]. now rewrite map_removelast.
  Qed.
  Lemma map_tab_new_context : forall t, new_context (map_tab r t) = map_tab r (new_context t).
  Proof. intros t. unfold new_context, map_tab. now rewrite map_app. Qed.
  Lemma map_tab_leave_context : forall t,
    leave_context (map_tab r t) = (map_tab r (fst (leave_context t)), snd (leave_context t)).
  Proof.
    intros t. unfold leave_context. cbn [fst snd]. f_equal.
    - apply map_removelast.
    - change (current_context (map_tab r t)) with (current (map_tab r t)). now rewrite current_map_tab.
  Qed.
  Lemma map_tab_in_global : forall t, in_global_context (map_tab r t) = in_global_context t.
  Proof. intros. unfold in_global_context, map_tab. now rewrite map_length. Qed.
  Lemma map_tab_define : forall t x,
    define (map_tab r t) (r x) = (map_tab r (fst (define t x)), snd (define t x)).
  Proof. intros t x. destruct (define t x) as [t' s] eqn:D. now apply define_rename. Qed.
  Lemma map_tab_defines : forall ps t,
    fold_left (fun t p => fst (define t p)) (map r ps) (map_tab r t) =
    map_tab r (fold_left (fun t p => fst (define t p)) ps t).
  Proof.
    induction ps as [|p ps IH]; intros t; [reflexivity|]. cbn [map fold_left].
    rewrite map_tab_define. cbn [fst]. apply IH.
  Qed.

  Hypothesis r_inj : forall a b, r a = r b -> a = b.
  Hypothesis r_nonempty : forall x, x <> [] -> r x <> [].
  Hypothesis r_builtin : forall x, is_builtin_name x = false -> is_builtin_name (r x) = false.

  Lemma map_tab_resolve : forall t x, resolve (map_tab r t) (r x) = resolve t x.
  Proof. intros. now apply resolve_rename_injective. Qed.

  Lemma is_nil_rename_fname : forall n, is_nil (rename_fname n) = is_nil n.
  Proof.
    intros [|c n]; [reflexivity|]. unfold rename_fname. cbn [is_nil].
    destruct (r (c :: n)) eqn:E; [|reflexivity]. exfalso. eapply r_nonempty; [|exact E]. discriminate.
  Qed.

  Lemma rs_const_var_infix : forall name v op st,
    compile_const_var_infix (r name) v op (rs st) =
    (rs (fst (compile_const_var_infix name v op st)), snd (compile_const_var_infix name v op st)).
  Proof.
    intros. unfold compile_const_var_infix. rewrite rs_add_constant.
    destruct (add_constant (KInt v) st) as [st1 o]. cbn [fst snd].
    destruct o as [idx| | |]; try reflexivity.
    rewrite rs_symbols, map_tab_resolve. destruct (resolve (c_symbols st1) name) as [s|]; [|reflexivity].
    destruct (s_scope s); [|reflexivity].
    destruct (assoc operator_eqb op fused_table); [|reflexivity].
    destruct (operand 16 (Z.of_nat (s_index s))); reflexivity.
  Qed.

  Lemma fused_candidate_rename : forall l r0 op,
    fused_candidate (rename_expr l) (rename_expr r0) op =
    option_map (fun '(n, v, o) => (r n, v, o)) (fused_candidate l r0 op).
  Proof.
    intros l r0 op. destruct l; try reflexivity; destruct r0; try reflexivity.
    cbn [rename_expr fused_candidate]. destruct (assoc operator_eqb op mirror_table); reflexivity.
  Qed.

  Definition Pe (e : expr) : Prop :=
    forall st, compile_expression (rename_expr e) (rs st) = map_outcome rs (compile_expression e st).
  Definition Qs (s : stmt) : Prop :=
    forall st, compile_statement (rename_stmt s) (rs st) = map_outcome rs (compile_statement s st).

  Lemma stmts_rs : forall b, Forall Qs b -> forall st,
    compile_statements (map rename_stmt b) (rs st) = map_outcome rs (compile_statements b st).
  Proof.
    induction 1 as [|s b Hs _ IH]; intros st; [reflexivity|]. cbn [map compile_statements].
    rewrite Hs. apply bind_rs. exact IH.
  Qed.
  Lemma exprs_rs : forall l, Forall Pe l -> forall st,
    compile_exprs (map rename_expr l) (rs st) = map_outcome rs (compile_exprs l st).
  Proof.
    induction 1 as [|e l He _ IH]; intros st; [reflexivity|]. cbn [map compile_exprs].
    rewrite He. apply bind_rs. exact IH.
  Qed.
  Lemma map_length' : forall A B (f : A -> B) l, zlength (map f l) = zlength l.
  Proof. intros. unfold zlength. now rewrite map_length. Qed.
  Lemma is_nil_map : forall A B (f : A -> B) l, is_nil (map f l) = is_nil l.
  Proof. intros A B f [|a l]; reflexivity. Qed.
  Lemma block_statement_rs : forall b, Forall Qs b -> forall st,
    block_statement (map rename_stmt b) (rs st) = map_outcome rs (block_statement b st).
  Proof.
    intros b Hb st. unfold block_statement. rewrite is_nil_map. destruct (is_nil b); [reflexivity|].
    rewrite rs_symbols, map_tab_enter_scope, rs_set_symbols, (stmts_rs b Hb). apply bind_rs.
    intros st1. rewrite rs_symbols, map_tab_leave_scope, rs_set_symbols. reflexivity.
  Qed.
  Lemma block_value_rs : forall b, Forall Qs b -> forall st,
    block_value (map rename_stmt b) (rs st) = map_outcome rs (block_value b st).
  Proof.
    intros b Hb st. unfold block_value. rewrite (block_statement_rs b Hb). apply bind_rs. intros st1.
    rewrite is_nil_map, rs_last_is. destruct (is_nil b); [reflexivity|].
    destruct (last_instruction_is OPop st1); reflexivity.
  Qed.

  Lemma rename_all : (forall e, Pe e) /\ (forall s, Qs s).
  Proof.
    apply cn_ast_ind; unfold Pe, Qs.
    - (* EInfix *)
      intros l o r0 IHl IHr st. cbn [rename_expr]. rewrite !ce_infix, fused_candidate_rename.
      assert (G : forall st0, generic_infix (rename_expr l) o (rename_expr r0) (rs st0) =
                              map_outcome rs (generic_infix l o r0 st0)).
      { intros st0. unfold generic_infix. rewrite IHl. apply bind_rs. intros st1. rewrite IHr.
        apply bind_rs. intros st2. destruct (assoc operator_eqb o compile_operator_table); reflexivity. }
      destruct (fused_candidate l r0 o) as [[[n v] o']|]; cbn [option_map]; [|apply G].
      rewrite rs_const_var_infix. destruct (compile_const_var_infix n v o' st) as [st1 [|]]; cbn [fst snd];
        [reflexivity|apply G].
    - (* EPrefix *)
      intros o r0 IH st. cbn [rename_expr]. rewrite !ce_prefix, IH. apply bind_rs. intros st1.
      destruct o; reflexivity.
    - intros z st. cbn [rename_expr]. rewrite !ce_int. apply rs_emit_const.
    - intros f st. cbn [rename_expr]. rewrite !ce_float, rs_count_alloc. apply rs_emit_const.
    - intros b st. reflexivity.
    - (* EIf *)
      intros c t alt IHc IHt IHalt st. cbn [rename_expr]. rewrite !ce_if. cbv zeta.
      rewrite IHc. apply bind_rs. intros st1.
      rewrite rs_emit_opcode, rs_emit_u16, (block_value_rs t IHt), rs_code_len. apply bind_rs. intros st3.
      rewrite rs_emit_opcode, rs_emit_u16, !rs_code_len. apply bind_rs0. intros target.
      rewrite rs_change_jump. apply bind_rs. intros st5.
      assert (A : match option_map (map rename_stmt) alt with
                  | Some b => block_value b (rs st5)
                  | None => Ok (emit_opcode ONull (rs st5))
                  end = map_outcome rs match alt with
                                       | Some b => block_value b st5
                                       | None => Ok (emit_opcode ONull st5)
                                       end).
      { destruct alt as [b|]; cbn [option_map on_opt] in *; [apply (block_value_rs b IHalt)|reflexivity]. }
      rewrite A. apply bind_rs. intros st6. rewrite rs_code_len. apply bind_rs0. intros target2.
      apply rs_change_jump.
    - (* EIdent *)
      intros x st. cbn [rename_expr]. rewrite !ce_ident, rs_symbols, map_tab_resolve.
      destruct (resolve (c_symbols st) x); [apply rs_emit_sym|reflexivity].
    - (* EFunction *)
      intros n ps b IHb st. cbn [rename_expr]. rewrite !ce_function, is_nil_rename_fname.
      assert (A : (if is_nil n then (rs st, @None symbol)
                   else let '(t, s) := define (c_symbols (rs st)) (rename_fname n) in (set_symbols (rs st) t, Some s)) =
                  let p := (if is_nil n then (st, None)
                            else let '(t, s) := define (c_symbols st) n in (set_symbols st t, Some s)) in
                  (rs (fst p), snd p)).
      { unfold rename_fname. destruct (is_nil n); [reflexivity|]. rewrite rs_symbols, map_tab_define.
        destruct (define (c_symbols st) n) as [t s]. reflexivity. }
      rewrite A. clear A. cbv zeta.
      destruct (if is_nil n then (st, None) else let '(t, s) := define (c_symbols st) n in (set_symbols st t, Some s))
        as [st1 sym]. cbn [fst snd].
      rewrite rs_emit_opcode, rs_emit_u16, rs_symbols, map_tab_new_context, map_tab_defines, rs_set_symbols,
        rs_set_loops, (block_statement_rs b IHb), !rs_code_len, rs_loops.
      apply bind_rs. intros st4. rewrite rs_set_loops, !rs_last_is, rs_remove_last, !rs_emit_opcode.
      set (st5 := set_loops st4 _).
      assert (A : (if last_instruction_is OPop st5 then rs (emit_opcode OReturnValue (remove_last_instruction st5))
                   else if last_instruction_is OReturnValue st5 then rs st5 else rs (emit_opcode OReturn st5)) =
                  rs (if last_instruction_is OPop st5 then emit_opcode OReturnValue (remove_last_instruction st5)
                      else if last_instruction_is OReturnValue st5 then st5 else emit_opcode OReturn st5)).
      { destruct (last_instruction_is OPop st5); [reflexivity|]. destruct (last_instruction_is OReturnValue st5); reflexivity. }
      rewrite A. clear A. rewrite rs_code_len. apply bind_rs0. intros target. rewrite rs_change_jump.
      apply bind_rs. intros st7. rewrite rs_symbols, map_tab_leave_context.
      destruct (leave_context (c_symbols st7)) as [t8 nl]. cbn [fst snd]. rewrite rs_set_symbols.
      apply bind_rs0. intros ip. apply bind_rs0. intros nlz. rewrite rs_add_constant.
      destruct (add_constant (KFun ip nlz) (set_symbols st7 t8)) as [st9 o]. cbn [fst snd].
      apply bind_rs0. intros idx. rewrite rs_emit_opcode, rs_emit_u16.
      destruct sym as [s|]; [|reflexivity]. rewrite rs_emit_sym. apply bind_rs. intros st11. reflexivity.
    - (* ECall *)
      intros f args IHf IHargs st. cbn [rename_expr]. rewrite !ce_call. cbv zeta.
      rewrite (exprs_rs args IHargs). apply bind_rs. intros st1. rewrite map_length'.
      assert (C : forall f', (match f' with EIdent name => assoc_text name builtin_names | _ => None end) = None ->
                  compile_expression f' (rs st1) = map_outcome rs (compile_expression f st1) ->
                  match match f' with EIdent name => assoc_text name builtin_names | _ => None end with
                  | Some b => do n <- operand 8 (zlength args); Ok (emit_u8 n (emit_u8 (byte_of_builtin b) (emit_opcode OCallBuiltin (rs st1))))
                  | None => do st2 <- compile_expression f' (rs st1); do n <- operand 8 (zlength args); Ok (emit_u8 n (emit_opcode OCall st2))
                  end = map_outcome rs (do st2 <- compile_expression f st1; do n <- operand 8 (zlength args); Ok (emit_u8 n (emit_opcode OCall st2)))).
      { intros f' E1 E2. rewrite E1, E2. apply bind_rs. intros st2. apply bind_rs0. intros nn. reflexivity. }
      destruct f; try (apply C; [reflexivity|apply IHf]).
      unfold is_builtin_name. destruct (assoc_text s builtin_names) as [bi|] eqn:EB.
      + rewrite EB. apply bind_rs0. intros nn. reflexivity.
      + cbv iota beta. apply (C (EIdent (r s))); [|apply IHf]. specialize (r_builtin s). unfold is_builtin_name in r_builtin. rewrite EB in r_builtin.
        destruct (assoc_text (r s) builtin_names); [discriminate (r_builtin eq_refl)|reflexivity].
    - (* EAssign *)
      intros l r0 IHl IHli IHr st. cbn [rename_expr]. rewrite !ce_assign.
      destruct l; try reflexivity.
      + cbn [rename_expr]. rewrite rs_symbols, map_tab_resolve.
        destruct (resolve (c_symbols st) s) as [sy|]; [|reflexivity].
        rewrite IHr. apply bind_rs. intros st1. rewrite rs_emit_sym. apply bind_rs. intros st2. apply rs_emit_sym.
      + cbn [rename_expr]. destruct IHli as [IH1 IH2]. rewrite IH1. apply bind_rs. intros st1.
        rewrite IH2. apply bind_rs. intros st2. rewrite IHr. apply bind_rs. intros st3. reflexivity.
    - intros s st. cbn [rename_expr]. rewrite !ce_string, rs_count_alloc. apply rs_emit_const.
    - (* EArray *)
      intros vs IH st. cbn [rename_expr]. rewrite !ce_array. cbv zeta. rewrite (exprs_rs vs IH). apply bind_rs.
      intros st1. rewrite map_length'. apply bind_rs0. intros nn. reflexivity.
    - (* EIndex *)
      intros l i IHl IHi st. cbn [rename_expr]. rewrite !ce_index, IHl. apply bind_rs. intros st1. rewrite IHi.
      apply bind_rs. intros st2. reflexivity.
    - (* EWhile *)
      intros c b IHc IHb st. cbn [rename_expr]. rewrite !ce_while. cbv zeta.
      rewrite rs_emit_opcode, rs_loops, rs_code_len, rs_set_loops, IHc. apply bind_rs. intros st3.
      rewrite !rs_emit_opcode, rs_emit_u16, rs_emit_opcode, (block_value_rs b IHb), rs_code_len. apply bind_rs. intros st5.
      apply bind_rs0. intros back. rewrite rs_emit_opcode, rs_emit_u16, rs_code_len. apply bind_rs0. intros target.
      rewrite rs_change_jump. apply bind_rs. intros st8. rewrite rs_loops.
      destruct (rev (c_loops st8)) as [|ctx rest]; [reflexivity|]. rewrite rs_set_loops.
      apply (rs_patch_breaks (l_breaks ctx) (Ok (set_loops st8 (rev rest)))).
    - (* SLet *)
      intros n e IH st. cbn [rename_stmt]. rewrite !cs_let, rs_symbols, map_tab_define.
      destruct (define (c_symbols st) n) as [t sy]. rewrite rs_set_symbols, IH. apply bind_rs. intros st1.
      apply rs_emit_sym.
    - (* SReturn *)
      intros e IH st. cbn [rename_stmt]. rewrite !cs_return, rs_symbols, map_tab_in_global.
      destruct (in_global_context (c_symbols st)); [reflexivity|]. rewrite IH. apply bind_rs. intros st1. reflexivity.
    - (* SExpr *)
      intros e IH st. cbn [rename_stmt]. rewrite !cs_expr, IH. apply bind_rs. intros st1. reflexivity.
    - (* SBlock *)
      intros b IH st. cbn [rename_stmt]. rewrite !cs_block, is_nil_map. destruct (is_nil b); [reflexivity|].
      rewrite rs_symbols, map_tab_enter_scope, rs_set_symbols, (stmts_rs b IH). apply bind_rs. intros st1.
      rewrite rs_symbols, map_tab_leave_scope, rs_set_symbols. reflexivity.
    - (* SBreak *)
      intros st. cbn [rename_stmt]. rewrite !cs_break. cbv zeta. rewrite rs_emit_opcode, rs_emit_opcode, rs_emit_u16, rs_loops.
      destruct (rev (c_loops _)); reflexivity.
    - (* SContinue *)
      intros st. cbn [rename_stmt]. rewrite !cs_continue. cbv zeta. rewrite rs_emit_opcode, rs_loops.
      destruct (rev (c_loops _)) as [|ctx rest]; [reflexivity|]. apply bind_rs0. intros pos. reflexivity.
  Qed.

  (* Theorem 1 *)
  Theorem alpha_invariance : forall b st,
    compile_statements (rename_block b) (rename_state st) =
    map_outcome rename_state (compile_statements b st).
  Proof.
    intros b st. apply stmts_rs. apply Forall_forall. intros s _. apply (proj2 rename_all).
  Qed.

  Theorem alpha_invariance_expr : forall e st,
    compile_expression (rename_expr e) (rename_state st) =
    map_outcome rename_state (compile_expression e st).
  Proof. exact (proj1 rename_all). Qed.

  Lemma map_tab_checkpoint : forall t, checkpoint (map_tab r t) = checkpoint t.
  Proof.
    intros [|c0 t]; [reflexivity|]. cbn [map_tab map checkpoint map_ctx c_syms].
    destruct (c_syms c0) as [|s0 ss]; [reflexivity|]. cbn [map]. apply map_length.
  Qed.
  Lemma map_tab_rollback : forall t n, rollback (map_tab r t) n = map_tab r (rollback t n).
  Proof.
    intros [|c0 t] n; [reflexivity|]. cbn [map_tab map rollback map_ctx c_syms c_scope c_max].
    destruct (c_syms c0) as [|s0 ss]; [reflexivity|]. cbn [map]. now rewrite firstn_map.
  Qed.

  (* the retained compiler differs only by the renaming of its table; the result is the same *)
  Theorem alpha_invariance_compile_ast : forall b st,
    compile_ast (rename_block b) (rename_state st) =
    (rename_state (fst (compile_ast b st)), snd (compile_ast b st)).
  Proof.
    intros b st. unfold compile_ast. rewrite alpha_invariance.
    destruct (compile_statements b st) as [st1|k|f|]; cbn [map_outcome fst snd]; try reflexivity.
    rewrite rs_symbols, map_tab_checkpoint, map_tab_rollback. reflexivity.
  Qed.

  Lemma rename_compiler_new : rename_state compiler_new = compiler_new.
  Proof. reflexivity. Qed.

  (* the bytecode contains no names: identical constants, identical code, same error kind *)
  Theorem compile_alpha : forall b, compile (rename_block b) = compile b.
  Proof.
    intros b. unfold compile. rewrite <- rename_compiler_new at 1.
    now rewrite alpha_invariance_compile_ast.
  Qed.

  (* Theorem 3 *)
  Theorem eval_alpha : forall u orc src1 src2 ast budget,
    parse u (parse_float orc) src1 = Ok ast ->
    parse u (parse_float orc) src2 = Ok (rename_block ast) ->
    eval u orc src2 budget = eval u orc src1 budget.
  Proof.
    intros u orc src1 src2 ast budget P1 P2. unfold eval. rewrite P1, P2.
    rewrite <- rename_compiler_new at 1. rewrite alpha_invariance_compile_ast.
    destruct (compile_ast ast compiler_new) as [st o]. cbn [fst snd]. destruct o; reflexivity.
  Qed.

  (* Theorem 3, both halves together *)
  Corollary compile_deterministic_in_names : forall u orc src1 src2 ast budget,
    parse u (parse_float orc) src1 = Ok ast ->
    parse u (parse_float orc) src2 = Ok (rename_block ast) ->
    front u orc src2 = front u orc src1 /\ eval u orc src2 budget = eval u orc src1 budget.
  Proof.
    intros u orc src1 src2 ast budget P1 P2. split; [|eapply eval_alpha; eauto].
    unfold front. rewrite P1, P2. cbn [bind]. apply compile_alpha.
  Qed.
End Rename.

(** ** Renaming one variable to a fresh name: the transposition of two names *)
Definition swap_name (a b x : text) : text :=
  if text_eqb x a then b else if text_eqb x b then a else x.

Lemma swap_name_inj : forall a b x y, swap_name a b x = swap_name a b y -> x = y.
Proof.
  intros a b x y. unfold swap_name.
  destruct (text_eqb x a) eqn:Xa; destruct (text_eqb y a) eqn:Ya;
  destruct (text_eqb x b) eqn:Xb; destruct (text_eqb y b) eqn:Yb;
  repeat match goal with
         | H : text_eqb _ _ = true |- _ => apply text_eqb_eq in H
         | H : text_eqb _ _ = false |- _ => apply text_eqb_neq in H
         end; congruence.
Qed.

Lemma swap_name_nonempty : forall a b, a <> [] -> b <> [] -> forall x, x <> [] -> swap_name a b x <> [].
Proof. intros a b Ha Hb x Hx. unfold swap_name. destruct (text_eqb x a); [exact Hb|]. now destruct (text_eqb x b). Qed.

Lemma swap_name_builtin : forall a b, is_builtin_name a = false -> is_builtin_name b = false ->
  forall x, is_builtin_name x = false -> is_builtin_name (swap_name a b x) = false.
Proof. intros a b Ha Hb x Hx. unfold swap_name. destruct (text_eqb x a); [exact Hb|]. now destruct (text_eqb x b). Qed.

Corollary compile_swap : forall a b p, a <> [] -> b <> [] ->
  is_builtin_name a = false -> is_builtin_name b = false ->
  compile (rename_block (swap_name a b) p) = compile p.
Proof.
  intros a b p Ha Hb Ba Bb. apply compile_alpha.
  - apply swap_name_inj.
  - now apply swap_name_nonempty.
  - now apply swap_name_builtin.
Qed.

Local Open Scope nat_scope.

(** * Part 2: accepted programs are lexically scoped *)

(** ** Sizes (the fuel the static pass needs) *)
Fixpoint esize (e : expr) : nat :=
  let bs := fix bs (l : list stmt) : nat := match l with [] => 1 | s :: r => S (ssize s + bs r) end in
  let es := fix es (l : list expr) : nat := match l with [] => 0 | x :: r => esize x + es r end in
  match e with
  | EInfix l _ r => S (esize l + esize r)
  | EPrefix _ r => S (esize r)
  | EInt _ | EFloat _ | EBool _ | EString _ | EIdent _ => 1
  | EIf c t alt => S (esize c + bs t + match alt with Some b => bs b | None => 0 end)
  | EFunction _ _ b => S (bs b)
  | ECall f args => S (es args + esize f)
  | EAssign l r => S (esize l + esize r)
  | EArray vs => S (es vs)
  | EIndex l i => S (esize l + esize i)
  | EWhile c b => S (esize c + bs b)
  end
with ssize (s : stmt) : nat :=
  match s with
  | SLet _ e | SReturn e | SExpr e => S (esize e)
  | SBlock b => S ((fix bs (l : list stmt) : nat := match l with [] => 1 | s :: r => S (ssize s + bs r) end) b)
  | SBreak | SContinue => 1
  end.
Fixpoint bsize (l : list stmt) : nat := match l with [] => 1 | s :: r => S (ssize s + bsize r) end.
Fixpoint essize (l : list expr) : nat := match l with [] => 0 | x :: r => esize x + essize r end.

Lemma esize_if : forall c t alt, esize (EIf c t alt) = S (esize c + bsize t + match alt with Some b => bsize b | None => 0 end).
Proof. reflexivity. Qed.
Lemma esize_function : forall n ps b, esize (EFunction n ps b) = S (bsize b).
Proof. reflexivity. Qed.
Lemma esize_call : forall f args, esize (ECall f args) = S (essize args + esize f).
Proof. reflexivity. Qed.
Lemma esize_array : forall vs, esize (EArray vs) = S (essize vs).
Proof. reflexivity. Qed.
Lemma esize_while : forall c b, esize (EWhile c b) = S (esize c + bsize b).
Proof. reflexivity. Qed.
Lemma ssize_block : forall b, ssize (SBlock b) = S (bsize b).
Proof. reflexivity. Qed.

(** ** Named function literals only as whole statements *)
Fixpoint fn_ok (named_ok : bool) (e : expr) : bool :=
  match e with
  | EInfix l _ r => fn_ok false l && fn_ok false r
  | EPrefix _ r => fn_ok false r
  | EInt _ | EFloat _ | EBool _ | EString _ | EIdent _ => true
  | EIf c t alt => fn_ok false c && forallb fn_ok_stmt t &&
                   match alt with Some b => forallb fn_ok_stmt b | None => true end
  | EFunction n _ b => (named_ok || is_nil n) && forallb fn_ok_stmt b
  | ECall f args => forallb (fn_ok false) args && fn_ok false f
  | EAssign l r => fn_ok false l && fn_ok false r
  | EArray vs => forallb (fn_ok false) vs
  | EIndex l i => fn_ok false l && fn_ok false i
  | EWhile c b => fn_ok false c && forallb fn_ok_stmt b
  end
with fn_ok_stmt (s : stmt) : bool :=
  match s with
  | SLet _ e | SReturn e => fn_ok false e
  | SExpr e => fn_ok true e
  | SBlock b => forallb fn_ok_stmt b
  | SBreak | SContinue => true
  end.
Definition fn_ok_block (b : block) : bool := forallb fn_ok_stmt b.

(** ** The static pass, unfolded *)
Definition check_exprs (f : nat) : sctx -> list expr -> option errkind :=
  fix go (c : sctx) (l : list expr) : option errkind :=
    match l with
    | [] => None
    | x :: r => first_err (check_expr f c x) (fun _ => go c r)
    end.
Lemma check_exprs_cons : forall f c x r,
  check_exprs f c (x :: r) = first_err (check_expr f c x) (fun _ => check_exprs f c r).
Proof. reflexivity. Qed.

Lemma ck_lit : forall f c e, match e with EInt _ | EFloat _ | EBool _ | EString _ => True | _ => False end ->
  check_expr (S f) c e = None.
Proof. intros f c e H. destruct e; try contradiction; reflexivity. Qed.
Lemma ck_ident : forall f c x, check_expr (S f) c (EIdent x) = if s_visible c x then None else Some EReferenceError.
Proof. reflexivity. Qed.
Lemma ck_prefix : forall f c o r, check_expr (S f) c (EPrefix o r) = check_expr f c r.
Proof. reflexivity. Qed.
Lemma ck_infix : forall f c l o r, check_expr (S f) c (EInfix l o r) =
  first_err (check_expr f c l) (fun _ => check_expr f c r).
Proof. reflexivity. Qed.
Lemma ck_assign_ident : forall f c x r, check_expr (S f) c (EAssign (EIdent x) r) =
  if s_visible c x then check_expr f c r else Some EReferenceError.
Proof. reflexivity. Qed.
Lemma ck_assign_index : forall f c l i r, check_expr (S f) c (EAssign (EIndex l i) r) =
  first_err (check_expr f c l) (fun _ => first_err (check_expr f c i) (fun _ => check_expr f c r)).
Proof. reflexivity. Qed.
Lemma ck_if : forall f c cnd t alt, check_expr (S f) c (EIf cnd t alt) =
  first_err (check_expr f c cnd) (fun _ =>
  first_err (check_block f (s_push c) t) (fun _ =>
  match alt with Some b => check_block f (s_push c) b | None => None end)).
Proof. reflexivity. Qed.
Lemma ck_while : forall f c cnd body, check_expr (S f) c (EWhile cnd body) =
  let c' := mkS (s_local c) (s_global c) (S (s_loops c)) in
  first_err (check_expr f c' cnd) (fun _ => check_block f (s_push c') body).
Proof. reflexivity. Qed.
Lemma ck_function : forall f c name params body, check_expr (S f) c (EFunction name params body) =
  let c1 := match name with [] => c | _ => s_declare c name end in
  let g := match s_global c1 with Some g => g | None => s_local c1 end in
  check_block f (mkS [rev params] (Some g) 0) body.
Proof. reflexivity. Qed.
Lemma ck_call : forall f c fn args, check_expr (S f) c (ECall fn args) =
  first_err (check_exprs f c args) (fun _ =>
    match fn with
    | EIdent x => if is_builtin_name x then None else check_expr f c fn
    | _ => check_expr f c fn
    end).
Proof. reflexivity. Qed.
Lemma ck_array : forall f c vs, check_expr (S f) c (EArray vs) = check_exprs f c vs.
Proof. reflexivity. Qed.
Lemma ck_index : forall f c l i, check_expr (S f) c (EIndex l i) =
  first_err (check_expr f c l) (fun _ => check_expr f c i).
Proof. reflexivity. Qed.

Definition root_decl (e : expr) : list text :=
  match e with EFunction (x :: n) _ _ => [x :: n] | _ => [] end.
Definition stmt_decl (s : stmt) : list text :=
  match s with SLet x _ => [x] | SExpr e => root_decl e | _ => [] end.

Definition check_stmt1 (f : nat) (c : sctx) (s : stmt) : option errkind :=
  match s with
  | SLet x e => check_expr f (s_declare c x) e
  | SExpr e => check_expr f c e
  | SBlock b => check_block f (s_push c) b
  | SReturn e => match s_global c with None => Some ESyntaxError | Some _ => check_expr f c e end
  | SBreak | SContinue => match s_loops c with O => Some ESyntaxError | S _ => None end
  end.

Lemma ck_block_nil : forall f c, check_block (S f) c [] = None.
Proof. reflexivity. Qed.
Lemma ck_block_cons : forall f c s r, check_block (S f) c (s :: r) =
  first_err (check_stmt1 f c s) (fun _ => check_block f (fold_left s_declare (stmt_decl s) c) r).
Proof.
  intros f c s r. destruct s as [x e|e|e|b| |]; try reflexivity.
  - cbn [check_stmt1 stmt_decl fold_left]. change (check_block (S f) c (SReturn e :: r)) with
      (match s_global c with None => Some ESyntaxError
       | Some _ => first_err (check_expr f c e) (fun _ => check_block f c r) end).
    destruct (s_global c); reflexivity.
  - destruct e; try reflexivity. destruct name; reflexivity.
  - cbn [check_stmt1 stmt_decl fold_left]. change (check_block (S f) c (SBreak :: r)) with
      (match s_loops c with O => Some ESyntaxError | S _ => check_block f c r end).
    destruct (s_loops c); reflexivity.
  - cbn [check_stmt1 stmt_decl fold_left]. change (check_block (S f) c (SContinue :: r)) with
      (match s_loops c with O => Some ESyntaxError | S _ => check_block f c r end).
    destruct (s_loops c); reflexivity.
Qed.

(** ** How the compiler's table evolves *)
Definition grows (names : list text) (t t' : symtab) : Prop :=
  exists tp k m sp s n, length names <= n /\
    t = tp ++ [mkContext k m (sp ++ [s])] /\ t' = tp ++ [mkContext k (m + n) (sp ++ [s ++ names])].

Lemma grows_extends_by : forall names t t', grows names t t' ->
  exists n, length names <= n /\ extends_by names n t t'.
Proof.
  intros names t t' (tp & k & m & sp & s & n & L & -> & ->). exists n. split; [exact L|].
  now apply <- extends_by_snoc.
Qed.

Lemma grows_refl : forall t, wf_tab t -> grows [] t t.
Proof.
  intros t W. destruct (wf_tab_shape _ W) as (tp & k & m & sp & s & ->).
  exists tp, k, m, sp, s, 0. split; [cbn; lia|]. split; [reflexivity|]. now rewrite Nat.add_0_r, app_nil_r.
Qed.

Lemma grows_trans : forall a b t t1 t2, grows a t t1 -> grows b t1 t2 -> grows (a ++ b) t t2.
Proof.
  intros a b t t1 t2 (tp & k & m & sp & s & n & L & -> & ->) (tp' & k' & m' & sp' & s' & n' & L' & E & ->).
  apply app_inj_tail in E. destruct E as [<- E]. injection E as <- <- E.
  apply app_inj_tail in E. destruct E as [<- <-].
  exists tp, k, m, sp, s, (n + n'). split; [rewrite app_length; lia|]. split; [reflexivity|].
  now rewrite Nat.add_assoc, app_assoc.
Qed.

Lemma grows_wf : forall ns t t', wf_tab t -> grows ns t t' -> wf_tab t'.
Proof.
  intros ns t t' W G. destruct (grows_extends_by _ _ _ G) as (n & L & E). eapply extends_by_wf; eauto.
Qed.

Lemma grows_define : forall t x, wf_tab t -> grows [x] t (fst (define t x)).
Proof.
  intros t x W. destruct (wf_tab_shape _ W) as (tp & k & m & sp & s & ->).
  rewrite define_snoc, context_define_snoc. cbn [fst].
  exists tp, k, m, sp, s, 1. split; [cbn; lia|]. split; [reflexivity|]. now rewrite Nat.add_1_r.
Qed.

Lemma grows_block : forall ns t t1, wf_tab t -> grows ns (enter_scope t) t1 -> grows [] t (leave_scope t1).
Proof.
  intros ns t t1 W G. destruct (wf_tab_shape _ W) as (tp & k & m & sp & s & ->).
  rewrite enter_scope_snoc in G. cbn [c_scope c_max c_syms] in G.
  destruct G as (tp' & k' & m' & sp' & s' & n & L & E & ->).
  apply app_inj_tail in E. destruct E as [<- E]. injection E as <- <- E.
  apply app_inj_tail in E. destruct E as [<- <-].
  rewrite leave_scope_snoc. cbn [c_scope c_max c_syms]. rewrite removelast_last.
  exists tp, k, m, sp, s, n. split; [cbn; lia|]. split; [reflexivity|]. now rewrite app_nil_r.
Qed.

Lemma defines_new_context : forall t params,
  fold_left (fun t p => fst (define t p)) params (new_context t) =
  t ++ [mkContext SLocal (length params) [params]].
Proof.
  intros t params. unfold new_context. change (context_new SLocal) with (mkContext SLocal 0 ([] ++ [[]])).
  rewrite defines_snoc. reflexivity.
Qed.

Lemma grows_function : forall ns t params t4,
  grows ns (fold_left (fun t p => fst (define t p)) params (new_context t)) t4 ->
  fst (leave_context t4) = t.
Proof.
  intros ns t params t4 G. rewrite defines_new_context in G.
  destruct G as (tp' & k' & m' & sp' & s' & n & L & E & ->).
  apply app_inj_tail in E. destruct E as [<- _]. now rewrite leave_context_snoc.
Qed.

Lemma grows_facts : forall ns t t', grows ns t t' ->
  flat (current t') = flat (current t) ++ ns /\ length t' = length t /\
  (2 <= length t -> global t' = global t).
Proof.
  intros ns t t' (tp & k & m & sp & s & n & L & -> & ->). rewrite !current_snoc. unfold flat.
  cbn [c_syms]. rewrite !concat_snoc, !app_length, app_assoc. cbn [length]. repeat split; auto.
  intros H. rewrite !global_snoc. destruct tp; [cbn in H; lia|reflexivity].
Qed.

(** ** The simulation relation: the compiler's table and Sem's static context show the same names *)
Lemma in_scope_In : forall x s, in_scope x s = true <-> In x s.
Proof.
  intros x s. induction s as [|y s IH]; cbn [in_scope In]; [split; [discriminate|tauto]|].
  rewrite orb_true_iff, IH, text_eqb_eq. split; intros [H|H]; auto.
Qed.

Definition names_agree (e : senv) (c : context) : Prop :=
  forall x, in_senv x e = true <-> In x (flat c).

Record simt (t : symtab) (nl : nat) (c : sctx) : Prop := mkSim {
  sim_wf : wf_tab t;
  sim_local : names_agree (s_local c) (current t);
  sim_global : match s_global c with
               | None => length t = 1
               | Some g => 2 <= length t /\ names_agree g (global t)
               end;
  sim_loops : s_loops c = nl
}.
Definition sim (st : cstate) (c : sctx) : Prop := simt (c_symbols st) (length (c_loops st)) c.

Lemma in_senv_declare : forall c x y,
  in_senv y (s_local (s_declare c x)) = true <-> y = x \/ in_senv y (s_local c) = true.
Proof.
  intros c x y. unfold s_declare. destruct (s_local c) as [|s r]; cbn [s_local in_senv existsb in_scope].
  - rewrite orb_false_r, orb_true_iff, text_eqb_eq. split; [intros [H|H]; [auto|discriminate]|intros [H|H]; [auto|discriminate]].
  - rewrite !orb_true_iff, text_eqb_eq. tauto.
Qed.

Lemma s_global_declare : forall c x, s_global (s_declare c x) = s_global c.
Proof. intros c x. unfold s_declare. destruct (s_local c); reflexivity. Qed.
Lemma s_loops_declare : forall c x, s_loops (s_declare c x) = s_loops c.
Proof. intros c x. unfold s_declare. destruct (s_local c); reflexivity. Qed.

Lemma declares_facts : forall ns c,
  (forall y, in_senv y (s_local (fold_left s_declare ns c)) = true <-> in_senv y (s_local c) = true \/ In y ns) /\
  s_global (fold_left s_declare ns c) = s_global c /\ s_loops (fold_left s_declare ns c) = s_loops c.
Proof.
  induction ns as [|x ns IH]; intros c; cbn [fold_left In]; [repeat split; tauto|].
  destruct (IH (s_declare c x)) as (A & B & C). rewrite B, C, s_global_declare, s_loops_declare.
  repeat split; auto; rewrite A, in_senv_declare; intuition auto.
Qed.

Lemma simt_grows : forall t t' nl c ns, simt t nl c -> grows ns t t' -> simt t' nl (fold_left s_declare ns c).
Proof.
  intros t t' nl c ns [W L G N] Gr. destruct (grows_facts _ _ _ Gr) as (F1 & F2 & F3).
  destruct (declares_facts ns c) as (A & B & C). split.
  - eapply grows_wf; eauto.
  - intros x. rewrite A, F1, in_app_iff, (L x). tauto.
  - rewrite B. destruct (s_global c) as [g|]; [|lia]. destruct G as [G1 G2]. split; [lia|].
    rewrite (F3 G1). exact G2.
  - now rewrite C.
Qed.

Lemma simt_enter : forall t nl c, simt t nl c -> simt (enter_scope t) nl c.
Proof.
  intros t nl c [W L G N]. destruct (wf_tab_shape _ W) as (tp & k & m & sp & s & E).
  assert (F : flat (current (enter_scope t)) = flat (current t) /\ length (enter_scope t) = length t /\
              flat (global (enter_scope t)) = flat (global t)).
  { subst t. rewrite enter_scope_snoc, !current_snoc, !app_length, !global_snoc. unfold flat. cbn [c_syms c_scope c_max].
    rewrite concat_snoc, app_nil_r. repeat split. destruct tp; [cbn [c_syms]|reflexivity].
    now rewrite concat_snoc, app_nil_r. }
  destruct F as (F1 & F2 & F3). split.
  - now apply enter_scope_wf.
  - intros x. rewrite F1. apply L.
  - rewrite F2. destruct (s_global c) as [g|]; [|exact G]. destruct G as [G1 G2]. split; [exact G1|].
    intros x. rewrite F3. apply G2.
  - exact N.
Qed.

Lemma simt_push : forall t nl c, simt t nl c -> simt t nl (s_push c).
Proof. intros t nl c [W L G N]. split; auto. Qed.

Lemma in_senv_single : forall x s, in_senv x [s] = true <-> In x s.
Proof. intros. cbn [in_senv existsb]. rewrite orb_false_r. apply in_scope_In. Qed.

Lemma simt_function : forall t nl c params,
  simt t nl c ->
  simt (fold_left (fun t p => fst (define t p)) params (new_context t)) 0
       (mkS [rev params] (Some (match s_global c with Some g => g | None => s_local c end)) 0).
Proof.
  intros t nl c params [W L G N]. rewrite defines_new_context.
  assert (HN : t <> []) by apply W. split; cbn [s_local s_global s_loops].
  - rewrite <- defines_new_context. clear -W. assert (W' := new_context_wf _ W). revert W'.
    generalize (new_context t). induction params as [|p ps IH]; intros t0 W0; cbn [fold_left]; [exact W0|].
    apply IH. now apply define_wf.
  - intros x. rewrite current_snoc, in_senv_single, <- in_rev. unfold flat. cbn [c_syms concat]. now rewrite app_nil_r.
  - rewrite app_length. cbn [length]. split; [destruct t; [contradiction|cbn; lia]|].
    rewrite global_snoc. destruct (s_global c) as [g|].
    + destruct G as [G1 G2]. destruct t as [|c0 r]; [contradiction|]. exact G2.
    + destruct t as [|c0 [|c1 r]]; [contradiction| |cbn in G; lia]. exact L.
  - reflexivity.
Qed.

Lemma In_last_occ : forall x l i, last_occ x l = Some i -> In x l.
Proof. intros x l i H. apply last_occ_Some in H. destruct H as [H _]. eapply nth_error_In; eauto. Qed.

Lemma simt_visible : forall t nl c x s, simt t nl c -> resolve t x = Some s -> s_visible c x = true.
Proof.
  intros t nl c x s [W L G N] R. rewrite resolve_refines_lookup_all in R. unfold spec_resolve in R.
  unfold s_visible. apply orb_true_iff.
  destruct (spec_lookup (current t) x) as [s1|] eqn:E1.
  - left. apply L. unfold spec_lookup in E1. destruct (last_occ x (flat (current t))) eqn:E; [|discriminate].
    eapply In_last_occ; eauto.
  - right. destruct (Nat.ltb 1 (length t)) eqn:E2; [|discriminate]. apply Nat.ltb_lt in E2.
    destruct (s_global c) as [g|]; [|lia]. destruct G as [_ G2]. apply G2.
    unfold spec_lookup in R. destruct (last_occ x (flat (global t))) eqn:E; [|discriminate].
    eapply In_last_occ; eauto.
Qed.

(** ** Primitives that leave table and loop depth alone *)
Definition pres (st st' : cstate) : Prop :=
  c_symbols st' = c_symbols st /\ length (c_loops st') = length (c_loops st).
Definition step (ns : list text) (st st' : cstate) : Prop :=
  grows ns (c_symbols st) (c_symbols st') /\ length (c_loops st') = length (c_loops st).

Lemma pres_refl : forall st, pres st st.
Proof. split; reflexivity. Qed.
Lemma pres_trans : forall a b c, pres a b -> pres b c -> pres a c.
Proof. intros a b c [A1 A2] [B1 B2]. split; congruence. Qed.
Lemma step_pres_r : forall ns a b c, step ns a b -> pres b c -> step ns a c.
Proof. intros ns a b c [A1 A2] [B1 B2]. split; [rewrite B1; exact A1|congruence]. Qed.
Lemma step_pres_l : forall ns a b c, pres a b -> step ns b c -> step ns a c.
Proof. intros ns a b c [A1 A2] [B1 B2]. split; [rewrite <- A1; exact B1|congruence]. Qed.
Lemma step_refl : forall st c, sim st c -> step [] st st.
Proof. intros st c S. split; [apply grows_refl, S|reflexivity]. Qed.
Lemma step_trans : forall a b s0 s1 s2, step a s0 s1 -> step b s1 s2 -> step (a ++ b) s0 s2.
Proof. intros a b s0 s1 s2 [A1 A2] [B1 B2]. split; [eapply grows_trans; eauto|congruence]. Qed.
Lemma step_sim : forall ns st st' c, sim st c -> step ns st st' -> sim st' (fold_left s_declare ns c).
Proof. intros ns st st' c S [G L]. unfold sim. rewrite L. eapply simt_grows; eauto. Qed.
Lemma pres_sim : forall st st' c, sim st c -> pres st st' -> sim st' c.
Proof. intros st st' c S [A B]. unfold sim. now rewrite A, B. Qed.

Lemma bind_ok : forall A B (e : outcome A) (k : A -> outcome B) r,
  bind e k = Ok r -> exists a, e = Ok a /\ k a = Ok r.
Proof. intros A B e k r H. destruct e; try discriminate. eauto. Qed.

Lemma add_constant_pres : forall k st, pres st (fst (add_constant k st)).
Proof. intros. unfold add_constant. destruct (const_position k (c_constants st)); split; reflexivity. Qed.
Lemma emit_const_pres : forall k st st', emit_const k st = Ok st' -> pres st st'.
Proof.
  intros k st st' H. unfold emit_const in H. pose proof (add_constant_pres k st) as P.
  destruct (add_constant k st) as [st1 o]. apply bind_ok in H. destruct H as (idx & _ & H). injection H as <-.
  exact P.
Qed.
Lemma emit_sym_pres : forall op s st st', emit_sym op s st = Ok st' -> pres st st'.
Proof.
  intros op s st st' H. unfold emit_sym in H. apply bind_ok in H. destruct H as (idx & _ & H). injection H as <-.
  split; reflexivity.
Qed.
Lemma change_jump_pres : forall i v st st', change_jump_operand_at i v st = Ok st' -> pres st st'.
Proof.
  intros i v st st' H. unfold change_jump_operand_at in H.
  destruct (nth_error (c_code st) (Z.to_nat i)) as [b|]; [|discriminate].
  destruct ((b =? byte_of_opcode OJump)%Z || (b =? byte_of_opcode OJumpIfFalse)%Z); [|discriminate].
  injection H as <-. split; reflexivity.
Qed.
Lemma patch_breaks_pres : forall bs acc st', patch_breaks bs acc = Ok st' -> exists s0, acc = Ok s0 /\ pres s0 st'.
Proof.
  induction bs as [|ip bs IH]; intros acc st' H.
  - exists st'. split; [exact H|apply pres_refl].
  - unfold patch_breaks in *. cbn [fold_left] in H. apply IH in H. destruct H as (s1 & H & P1).
    apply bind_ok in H. destruct H as (s0 & -> & H). apply bind_ok in H. destruct H as (tg & _ & H).
    apply change_jump_pres in H. exists s0. split; [reflexivity|eapply pres_trans; eauto].
Qed.
Lemma const_var_infix_pres : forall name v op st, pres st (fst (compile_const_var_infix name v op st)).
Proof.
  intros. unfold compile_const_var_infix. pose proof (add_constant_pres (KInt v) st) as P.
  destruct (add_constant (KInt v) st) as [st1 o]. cbn [fst] in P.
  destruct o; try exact P. destruct (resolve (c_symbols st1) name) as [s|]; [|exact P].
  destruct (s_scope s); [|exact P]. destruct (assoc operator_eqb op fused_table); [|exact P].
  destruct (operand 16 (Z.of_nat (s_index s))); exact P.
Qed.

(** ** The main induction *)
Ltac bok H a Ha := apply bind_ok in H; destruct H as (a & Ha & H).

Lemma root_decl_false : forall e, fn_ok false e = true -> root_decl e = [].
Proof.
  intros e H. destruct e; try reflexivity. cbn [fn_ok orb] in H. destruct name; [reflexivity|discriminate].
Qed.

Lemma esize_pos : forall e, 1 <= esize e.
Proof. destruct e; cbn [esize]; lia. Qed.
Lemma bsize_pos : forall b, 1 <= bsize b.
Proof. destruct b; cbn [bsize]; lia. Qed.

Definition Pc (e : expr) : Prop := forall flag st st' c fuel,
  compile_expression e st = Ok st' -> sim st c -> fn_ok flag e = true -> esize e <= fuel ->
  check_expr fuel c e = None /\ step (root_decl e) st st'.
Definition Qc (s : stmt) : Prop := forall st st' c f,
  compile_statement s st = Ok st' -> sim st c -> fn_ok_stmt s = true -> ssize s <= f ->
  check_stmt1 f c s = None /\ step (stmt_decl s) st st'.

Lemma use_child : forall e, Pc e -> forall st st' c f,
  compile_expression e st = Ok st' -> sim st c -> fn_ok false e = true -> esize e <= f ->
  check_expr f c e = None /\ step [] st st' /\ sim st' c.
Proof.
  intros e P st st' c f HC HS HF HZ. destruct (P false st st' c f HC HS HF HZ) as [K T].
  rewrite (root_decl_false _ HF) in T. split; [exact K|]. split; [exact T|]. exact (step_sim [] _ _ _ HS T).
Qed.

Lemma step_nil_trans : forall s0 s1 s2, step [] s0 s1 -> step [] s1 s2 -> step [] s0 s2.
Proof. intros s0 s1 s2 A B. exact (step_trans [] [] _ _ _ A B). Qed.

Lemma exprs_ok : forall l, Forall Pc l -> forall st st' c f,
  compile_exprs l st = Ok st' -> sim st c -> forallb (fn_ok false) l = true -> essize l <= f ->
  check_exprs f c l = None /\ step [] st st' /\ sim st' c.
Proof.
  induction 1 as [|e l He _ IH]; intros st st' c f HC HS HF HZ.
  - injection HC as <-. split; [reflexivity|]. split; [eapply step_refl; eauto|exact HS].
  - cbn [compile_exprs] in HC. bok HC st1 H1. cbn [forallb] in HF. apply andb_true_iff in HF. destruct HF as [HF1 HF2].
    cbn [essize] in HZ. destruct (use_child e He st st1 c f H1 HS HF1 ltac:(lia)) as (K1 & T1 & S1).
    destruct (IH st1 st' c f HC S1 HF2 ltac:(lia)) as (K2 & T2 & S2).
    rewrite check_exprs_cons, K1. cbn [first_err]. split; [exact K2|]. split; [eapply step_nil_trans; eauto|exact S2].
Qed.

Lemma stmts_ok : forall b, Forall Qc b -> forall st st' c fuel,
  compile_statements b st = Ok st' -> sim st c -> forallb fn_ok_stmt b = true -> bsize b <= fuel ->
  check_block fuel c b = None /\ step (flat_map stmt_decl b) st st'.
Proof.
  induction 1 as [|s b Hs _ IH]; intros st st' c fuel HC HS HF HZ.
  - injection HC as <-. cbn [bsize] in HZ. destruct fuel as [|f]; [lia|]. split; [reflexivity|]. eapply step_refl; eauto.
  - cbn [compile_statements] in HC. bok HC st1 H1. cbn [forallb] in HF. apply andb_true_iff in HF. destruct HF as [HF1 HF2].
    cbn [bsize] in HZ. destruct fuel as [|f]; [lia|].
    destruct (Hs st st1 c f H1 HS HF1 ltac:(lia)) as (K1 & T1).
    pose proof (step_sim _ _ _ _ HS T1) as S1.
    destruct (IH st1 st' _ f HC S1 HF2 ltac:(lia)) as (K2 & T2).
    rewrite ck_block_cons, K1. cbn [first_err flat_map]. split; [exact K2|]. eapply step_trans; eauto.
Qed.

Lemma sim_enter : forall st c, sim st c -> sim (set_symbols st (enter_scope (c_symbols st))) c.
Proof. intros st c S. unfold sim. cbn [set_symbols c_symbols c_loops]. now apply simt_enter. Qed.

Lemma block_statement_ok : forall b, Forall Qc b -> forall st st' c fuel,
  block_statement b st = Ok st' -> sim st c -> forallb fn_ok_stmt b = true -> bsize b <= fuel ->
  check_block fuel c b = None /\ step [] st st'.
Proof.
  intros b Hb st st' c fuel HC HS HF HZ. unfold block_statement in HC. destruct (is_nil b) eqn:EN.
  - destruct b; [|discriminate]. injection HC as <-. cbn [bsize] in HZ. destruct fuel as [|f]; [lia|].
    split; [reflexivity|]. eapply step_pres_r; [eapply step_refl; eauto|split; reflexivity].
  - bok HC st1 H1. injection HC as <-.
    destruct (stmts_ok b Hb _ st1 c fuel H1 (sim_enter _ _ HS) HF HZ) as (K & [G L]). split; [exact K|].
    cbn [set_symbols c_symbols c_loops] in G, L. split; cbn [set_symbols c_symbols c_loops]; [|exact L].
    eapply grows_block; [apply HS|exact G].
Qed.

Lemma block_value_ok : forall b, Forall Qc b -> forall st st' c fuel,
  block_value b st = Ok st' -> sim st c -> forallb fn_ok_stmt b = true -> bsize b <= fuel ->
  check_block fuel c b = None /\ step [] st st'.
Proof.
  intros b Hb st st' c fuel HC HS HF HZ. unfold block_value in HC. bok HC st1 H1.
  destruct (block_statement_ok b Hb st st1 c fuel H1 HS HF HZ) as (K & T). split; [exact K|].
  eapply step_pres_r; [exact T|]. destruct (is_nil b); [injection HC as <-; apply pres_refl|].
  destruct (last_instruction_is OPop st1); injection HC as <-; split; reflexivity.
Qed.

Lemma sim_push : forall st c, sim st c -> sim st (s_push c).
Proof. intros st c S. now apply simt_push. Qed.

Lemma fused_candidate_shape : forall l r o n v o', fused_candidate l r o = Some (n, v, o') ->
  (l = EIdent n /\ r = EInt v) \/ (l = EInt v /\ r = EIdent n).
Proof.
  intros l r o n v o' H. destruct l; try discriminate; destruct r; try discriminate; cbn [fused_candidate] in H.
  - right. destruct (assoc operator_eqb o mirror_table); [|discriminate]. injection H as <- <- _. auto.
  - left. injection H as <- <- _. auto.
Qed.

Lemma const_var_infix_true : forall name v op st,
  snd (compile_const_var_infix name v op st) = true -> exists s, resolve (c_symbols st) name = Some s.
Proof.
  intros name v op st H. unfold compile_const_var_infix in H.
  pose proof (add_constant_pres (KInt v) st) as [P _].
  destruct (add_constant (KInt v) st) as [st1 o]. cbn [fst] in P. rewrite <- P.
  destruct o; try discriminate. destruct (resolve (c_symbols st1) name) as [s|]; [eauto|discriminate].
Qed.

Lemma generic_infix_ok : forall l o r, Pc l -> Pc r -> forall st st' c f,
  generic_infix l o r st = Ok st' -> sim st c -> fn_ok false l = true -> fn_ok false r = true ->
  esize l + esize r <= f ->
  check_expr f c l = None /\ check_expr f c r = None /\ step [] st st'.
Proof.
  intros l o r Pl Pr st st' c f HC HS HFl HFr HZ. unfold generic_infix in HC. bok HC st1 H1. bok HC st2 H2.
  pose proof (esize_pos l). pose proof (esize_pos r).
  destruct (use_child l Pl st st1 c f H1 HS HFl ltac:(lia)) as (K1 & T1 & S1).
  destruct (use_child r Pr st1 st2 c f H2 S1 HFr ltac:(lia)) as (K2 & T2 & S2).
  split; [exact K1|]. split; [exact K2|]. destruct (assoc operator_eqb o compile_operator_table); [|discriminate].
  injection HC as <-. eapply step_nil_trans; [exact T1|]. eapply step_pres_r; [exact T2|split; reflexivity].
Qed.

Lemma loops_snoc_length : forall st x, length (c_loops st ++ [x]) = S (length (c_loops st)).
Proof. intros. rewrite app_length. cbn. lia. Qed.

Lemma compile_scoped : (forall e, Pc e) /\ (forall s, Qc s).
Proof.
  apply cn_ast_ind; unfold Pc, Qc.
  - (* EInfix *)
    intros l o r Pl Pr flag st st' c fuel HC HS HF HZ. cbn [esize] in HZ. destruct fuel as [|f]; [lia|].
    cbn [fn_ok] in HF. apply andb_true_iff in HF. destruct HF as [HFl HFr].
    rewrite ce_infix in HC. rewrite ck_infix. cbn [root_decl].
    assert (G : forall st0, generic_infix l o r st0 = Ok st' -> sim st0 c -> pres st st0 ->
                first_err (check_expr f c l) (fun _ => check_expr f c r) = None /\ step [] st st').
    { intros st0 HG HS0 P0. destruct (generic_infix_ok l o r Pl Pr st0 st' c f HG HS0 HFl HFr ltac:(lia)) as (K1 & K2 & T).
      rewrite K1. cbn [first_err]. split; [exact K2|]. eapply step_pres_l; eauto. }
    destruct (fused_candidate l r o) as [[[n v] o']|] eqn:EF; [|apply (G st); [exact HC|exact HS|apply pres_refl]].
    pose proof (const_var_infix_pres n v o' st) as P. pose proof (const_var_infix_true n v o' st) as TR.
    destruct (compile_const_var_infix n v o' st) as [st1 d]. cbn [fst snd] in P, TR.
    destruct d; [|apply (G st1); [exact HC|eapply pres_sim; eauto|exact P]].
    injection HC as <-. destruct (TR eq_refl) as [s Rs]. pose proof (simt_visible _ _ _ _ _ HS Rs) as V.
    pose proof (esize_pos l). pose proof (esize_pos r). destruct f as [|f']; [lia|].
    split; [|eapply step_pres_r; [eapply step_refl; eauto|exact P]].
    destruct (fused_candidate_shape _ _ _ _ _ _ EF) as [[-> ->]|[-> ->]]; rewrite ck_ident, V; reflexivity.
  - (* EPrefix *)
    intros o r Pr flag st st' c fuel HC HS HF HZ. cbn [esize] in HZ. destruct fuel as [|f]; [lia|].
    cbn [fn_ok] in HF. rewrite ce_prefix in HC. bok HC st1 H1.
    destruct (use_child r Pr st st1 c f H1 HS HF ltac:(lia)) as (K1 & T1 & S1).
    rewrite ck_prefix. split; [exact K1|]. cbn [root_decl]. eapply step_pres_r; [exact T1|].
    destruct o; try discriminate; injection HC as <-; split; reflexivity.
  - (* EInt *)
    intros z flag st st' c fuel HC HS HF HZ. cbn [esize] in HZ. destruct fuel as [|f]; [lia|].
    split; [reflexivity|]. rewrite ce_int in HC. apply emit_const_pres in HC.
    eapply step_pres_r; [eapply step_refl; eauto|exact HC].
  - (* EFloat *)
    intros x flag st st' c fuel HC HS HF HZ. cbn [esize] in HZ. destruct fuel as [|f]; [lia|].
    split; [reflexivity|]. rewrite ce_float in HC. apply emit_const_pres in HC.
    eapply step_pres_r; [eapply step_refl; eauto|]. eapply pres_trans; [|exact HC]. split; reflexivity.
  - (* EBool *)
    intros b flag st st' c fuel HC HS HF HZ. cbn [esize] in HZ. destruct fuel as [|f]; [lia|].
    split; [reflexivity|]. rewrite ce_bool in HC. injection HC as <-.
    eapply step_pres_r; [eapply step_refl; eauto|split; reflexivity].
  - (* EIf *)
    intros cnd t alt Pcnd Pt Palt flag st st' c fuel HC HS HF HZ. rewrite esize_if in HZ. destruct fuel as [|f]; [lia|].
    cbn [fn_ok] in HF. apply andb_true_iff in HF. destruct HF as [HF HFa]. apply andb_true_iff in HF. destruct HF as [HFc HFt].
    rewrite ce_if in HC. cbv zeta in HC. bok HC st1 H1. bok HC st3 H3. bok HC target Ht. bok HC st5 H5. bok HC st6 H6.
    bok HC target2 Ht2.
    destruct (use_child cnd Pcnd st st1 c f H1 HS HFc ltac:(lia)) as (K1 & T1 & S1).
    assert (S2 : sim (emit_u16 JUMP_PLACEHOLDER (emit_opcode OJumpIfFalse st1)) (s_push c)).
    { apply sim_push. eapply pres_sim; [exact S1|split; reflexivity]. }
    destruct (block_value_ok t Pt _ st3 _ f H3 S2 HFt ltac:(lia)) as (K3 & T3).
    pose proof (step_sim [] _ _ _ S2 T3) as S3. cbn [fold_left] in S3.
    apply change_jump_pres in H5. apply change_jump_pres in HC.
    assert (S5 : sim st5 (s_push c)).
    { eapply pres_sim; [|exact H5]. eapply pres_sim; [exact S3|split; reflexivity]. }
    assert (A : match alt with Some b => check_block f (s_push c) b | None => None end = None /\ step [] st5 st6).
    { destruct alt as [b|].
      - cbn [on_opt] in Palt. apply (block_value_ok b Palt st5 st6 _ f H6 S5 HFa). lia.
      - injection H6 as <-. split; [reflexivity|]. eapply step_pres_r; [eapply step_refl; eauto|split; reflexivity]. }
    destruct A as [K6 T6]. rewrite ck_if, K1. cbn [first_err]. rewrite K3. cbn [first_err]. split; [exact K6|].
    cbn [root_decl]. eapply step_nil_trans; [exact T1|]. eapply step_pres_l; [|eapply step_nil_trans; [exact T3|]].
    + split; reflexivity.
    + eapply step_pres_l; [|eapply step_pres_r; [exact T6|exact HC]].
      eapply pres_trans; [|exact H5]. split; reflexivity.
  - (* EIdent *)
    intros x flag st st' c fuel HC HS HF HZ. cbn [esize] in HZ. destruct fuel as [|f]; [lia|].
    rewrite ce_ident in HC. destruct (resolve (c_symbols st) x) as [s|] eqn:R; [|discriminate].
    rewrite ck_ident, (simt_visible _ _ _ _ _ HS R). split; [reflexivity|]. apply emit_sym_pres in HC.
    eapply step_pres_r; [eapply step_refl; eauto|exact HC].
  - (* EFunction *)
    intros n ps b Pb flag st st' c fuel HC HS HF HZ. rewrite esize_function in HZ. destruct fuel as [|f]; [lia|].
    cbn [fn_ok] in HF. apply andb_true_iff in HF. destruct HF as [_ HFb].
    rewrite ce_function in HC. rewrite ck_function. cbv zeta.
    set (c1 := match n with [] => c | _ :: _ => s_declare c n end).
    (* the state after the optional declaration of the name *)
    assert (D : exists st1 sym, (if is_nil n then (st, None)
                  else let '(t, s) := define (c_symbols st) n in (set_symbols st t, Some s)) = (st1, sym) /\
                sim st1 c1 /\ step (root_decl (EFunction n ps b)) st st1 /\ c_loops st1 = c_loops st).
    { destruct n as [|x n']; cbn [is_nil root_decl]; subst c1.
      - exists st, None. split; [reflexivity|]. split; [exact HS|]. split; [eapply step_refl; eauto|reflexivity].
      - pose proof (grows_define (c_symbols st) (x :: n') (sim_wf _ _ _ HS)) as G.
        destruct (define (c_symbols st) (x :: n')) as [t1 sy]. cbn [fst] in G. exists (set_symbols st t1), (Some sy).
        assert (T : step [x :: n'] st (set_symbols st t1)) by (split; [exact G|reflexivity]).
        split; [reflexivity|]. split; [exact (step_sim _ _ _ _ HS T)|]. split; [exact T|reflexivity]. }
    destruct D as (st1 & sym & ED & S1 & T1 & L1). rewrite ED in HC. clear ED. cbv zeta in HC.
    bok HC st4 H4. bok HC target Ht. bok HC st7 H7.
    set (t3 := fold_left (fun t p => fst (define t p)) ps (new_context (c_symbols st1))) in *.
    assert (S3 : sim (set_loops (set_symbols (emit_u16 JUMP_PLACEHOLDER (emit_opcode OJump st1)) t3) [])
                     (mkS [rev ps] (Some (match s_global c1 with Some g => g | None => s_local c1 end)) 0)).
    { unfold sim. cbn [set_loops set_symbols c_symbols c_loops length]. subst t3. eapply simt_function. exact S1. }
    destruct (block_statement_ok b Pb _ st4 _ f H4 S3 HFb ltac:(lia)) as (K4 & [G4 L4]).
    split; [exact K4|]. cbn [set_loops set_symbols c_symbols c_loops emit_u16 emit_opcode] in G4.
    apply change_jump_pres in H7. destruct H7 as [Y7 Z7].
    assert (Y4 : c_symbols st7 = c_symbols st4).
    { rewrite Y7. destruct (last_instruction_is OPop _); [reflexivity|]. destruct (last_instruction_is OReturnValue _); reflexivity. }
    assert (Z4 : length (c_loops st7) = length (c_loops st1)).
    { rewrite Z7. destruct (last_instruction_is OPop _); [reflexivity|]. destruct (last_instruction_is OReturnValue _); reflexivity. }
    pose proof (grows_function _ _ _ _ G4) as R8. rewrite <- Y4 in R8.
    destruct (leave_context (c_symbols st7)) as [t8 nl]. cbn [fst] in R8. subst t8.
    bok HC ip Hip. bok HC nlz Hnl.
    pose proof (add_constant_pres (KFun ip nlz) (set_symbols st7 (c_symbols st1))) as [Y9 Z9].
    destruct (add_constant (KFun ip nlz) (set_symbols st7 (c_symbols st1))) as [st9 o]. cbn [fst] in Y9, Z9.
    cbn [set_symbols c_symbols c_loops] in Y9, Z9. bok HC idx Hidx.
    eapply step_pres_r; [exact T1|].
    destruct sym as [sy|].
    + bok HC st11 H11. injection HC as <-. apply emit_sym_pres in H11. destruct H11 as [Y11 Z11].
      split; cbn [emit_u16 emit_opcode c_symbols c_loops] in *; congruence.
    + injection HC as <-. split; cbn [emit_u16 emit_opcode c_symbols c_loops] in *; congruence.
  - (* ECall *)
    intros fn args Pfn Pargs flag st st' c fuel HC HS HF HZ. rewrite esize_call in HZ. destruct fuel as [|f]; [lia|].
    cbn [fn_ok] in HF. apply andb_true_iff in HF. destruct HF as [HFa HFf].
    rewrite ce_call in HC. cbv zeta in HC. bok HC st1 H1.
    destruct (exprs_ok args Pargs st st1 c f H1 HS HFa ltac:(lia)) as (K1 & T1 & S1).
    rewrite ck_call, K1. cbn [first_err root_decl].
    assert (G : (do st2 <- compile_expression fn st1; do n <- operand 8 (zlength args); Ok (emit_u8 n (emit_opcode OCall st2))) = Ok st' ->
                check_expr f c fn = None /\ step [] st st').
    { intros HG. bok HG st2 H2. bok HG nn Hn. injection HG as <-.
      destruct (use_child fn Pfn st1 st2 c f H2 S1 HFf ltac:(lia)) as (K2 & T2 & S2). split; [exact K2|].
      eapply step_nil_trans; [exact T1|]. eapply step_pres_r; [exact T2|split; reflexivity]. }
    destruct fn; try (apply G; exact HC).
    unfold is_builtin_name. destruct (assoc_text s builtin_names) as [bi|]; [|apply G; exact HC].
    bok HC nn Hn. injection HC as <-. split; [reflexivity|]. eapply step_pres_r; [exact T1|split; reflexivity].
  - (* EAssign *)
    intros l r Pl Pli Pr flag st st' c fuel HC HS HF HZ. cbn [esize] in HZ. destruct fuel as [|f]; [lia|].
    cbn [fn_ok] in HF. apply andb_true_iff in HF. destruct HF as [HFl HFr].
    rewrite ce_assign in HC. cbn [root_decl]. destruct l; try discriminate.
    + destruct (resolve (c_symbols st) s) as [sy|] eqn:R; [|discriminate]. bok HC st1 H1. bok HC st2 H2.
      apply emit_sym_pres in H2. apply emit_sym_pres in HC.
      destruct (use_child r Pr st st1 c f H1 HS HFr ltac:(lia)) as (K1 & T1 & S1).
      rewrite ck_assign_ident, (simt_visible _ _ _ _ _ HS R). split; [exact K1|].
      eapply step_pres_r; [exact T1|eapply pres_trans; eauto].
    + destruct Pli as [Pl1 Pl2]. cbn [fn_ok] in HFl. apply andb_true_iff in HFl. destruct HFl as [HF1 HF2].
      cbn [esize] in HZ. bok HC st1 H1. bok HC st2 H2. bok HC st3 H3. injection HC as <-.
      destruct (use_child l1 Pl1 st st1 c f H1 HS HF1 ltac:(lia)) as (K1 & T1 & S1).
      destruct (use_child l2 Pl2 st1 st2 c f H2 S1 HF2 ltac:(lia)) as (K2 & T2 & S2).
      destruct (use_child r Pr st2 st3 c f H3 S2 HFr ltac:(lia)) as (K3 & T3 & S3).
      rewrite ck_assign_index, K1. cbn [first_err]. rewrite K2. cbn [first_err]. split; [exact K3|].
      eapply step_nil_trans; [exact T1|]. eapply step_nil_trans; [exact T2|].
      eapply step_pres_r; [exact T3|split; reflexivity].
  - (* EString *)
    intros x flag st st' c fuel HC HS HF HZ. cbn [esize] in HZ. destruct fuel as [|f]; [lia|].
    split; [reflexivity|]. rewrite ce_string in HC. apply emit_const_pres in HC.
    eapply step_pres_r; [eapply step_refl; eauto|]. eapply pres_trans; [|exact HC]. split; reflexivity.
  - (* EArray *)
    intros vs Pvs flag st st' c fuel HC HS HF HZ. rewrite esize_array in HZ. destruct fuel as [|f]; [lia|].
    cbn [fn_ok] in HF. rewrite ce_array in HC. cbv zeta in HC. bok HC st1 H1. bok HC nn Hn. injection HC as <-.
    destruct (exprs_ok vs Pvs st st1 c f H1 HS HF ltac:(lia)) as (K1 & T1 & S1).
    rewrite ck_array. split; [exact K1|]. cbn [root_decl]. eapply step_pres_r; [exact T1|split; reflexivity].
  - (* EIndex *)
    intros l i Pl Pi flag st st' c fuel HC HS HF HZ. cbn [esize] in HZ. destruct fuel as [|f]; [lia|].
    cbn [fn_ok] in HF. apply andb_true_iff in HF. destruct HF as [HFl HFi].
    rewrite ce_index in HC. bok HC st1 H1. bok HC st2 H2. injection HC as <-.
    destruct (use_child l Pl st st1 c f H1 HS HFl ltac:(lia)) as (K1 & T1 & S1).
    destruct (use_child i Pi st1 st2 c f H2 S1 HFi ltac:(lia)) as (K2 & T2 & S2).
    rewrite ck_index, K1. cbn [first_err]. split; [exact K2|]. cbn [root_decl].
    eapply step_nil_trans; [exact T1|]. eapply step_pres_r; [exact T2|split; reflexivity].
  - (* EWhile *)
    intros cnd b Pcnd Pb flag st st' c fuel HC HS HF HZ. rewrite esize_while in HZ. destruct fuel as [|f]; [lia|].
    cbn [fn_ok] in HF. apply andb_true_iff in HF. destruct HF as [HFc HFb].
    rewrite ce_while in HC. cbv zeta in HC. bok HC st3 H3. bok HC st5 H5. bok HC back Hb. bok HC target Ht. bok HC st8 H8.
    rewrite ck_while. cbv zeta. set (c' := mkS (s_local c) (s_global c) (S (s_loops c))).
    set (st2 := set_loops (emit_opcode ONull st) _) in H3.
    assert (S2 : sim st2 c').
    { destruct HS as [W L G N]. subst st2 c'. unfold sim. cbn [set_loops emit_opcode c_symbols c_loops].
      rewrite loops_snoc_length. split; cbn [s_local s_global s_loops]; auto. }
    destruct (use_child cnd Pcnd st2 st3 c' f H3 S2 HFc ltac:(lia)) as (K3 & T3 & S3).
    assert (S4 : sim (emit_opcode OPop (emit_u16 JUMP_PLACEHOLDER (emit_opcode OJumpIfFalse st3))) (s_push c')).
    { apply sim_push. eapply pres_sim; [exact S3|split; reflexivity]. }
    destruct (block_value_ok b Pb _ st5 _ f H5 S4 HFb ltac:(lia)) as (K5 & T5).
    rewrite K3. cbn [first_err]. split; [exact K5|]. cbn [root_decl].
    apply change_jump_pres in H8.
    assert (T8 : step [] st2 st8).
    { eapply step_nil_trans; [exact T3|]. eapply step_pres_l; [|eapply step_pres_r; [exact T5|]].
      - split; reflexivity.
      - eapply pres_trans; [|exact H8]. split; reflexivity. }
    destruct T8 as [G8 L8]. subst st2. cbn [set_loops emit_opcode c_symbols c_loops] in G8, L8.
    rewrite loops_snoc_length in L8.
    destruct (rev (c_loops st8)) as [|ctx rest] eqn:ER; [discriminate|].
    apply patch_breaks_pres in HC. destruct HC as (s0 & E0 & [Y0 Z0]). injection E0 as <-.
    cbn [set_loops c_symbols c_loops] in Y0, Z0. split; [rewrite Y0; exact G8|].
    rewrite Z0, rev_length. apply (f_equal (@length _)) in ER. rewrite rev_length in ER. cbn [length] in ER. lia.
  - (* SLet *)
    intros n e Pe st st' c f HC HS HF HZ. cbn [ssize] in HZ. cbn [fn_ok_stmt] in HF.
    rewrite cs_let in HC. pose proof (grows_define (c_symbols st) n (sim_wf _ _ _ HS)) as G.
    destruct (define (c_symbols st) n) as [t1 sy]. cbn [fst] in G. bok HC st1 H1. apply emit_sym_pres in HC.
    assert (T : step [n] st (set_symbols st t1)) by (split; [exact G|reflexivity]).
    pose proof (step_sim _ _ _ _ HS T) as S0. cbn [fold_left] in S0.
    destruct (use_child e Pe _ st1 _ f H1 S0 HF ltac:(lia)) as (K1 & T1 & S1).
    cbn [check_stmt1 stmt_decl]. split; [exact K1|].
    eapply step_pres_r; [exact (step_trans [n] [] _ _ _ T T1)|exact HC].
  - (* SReturn *)
    intros e Pe st st' c f HC HS HF HZ. cbn [ssize] in HZ. cbn [fn_ok_stmt] in HF.
    rewrite cs_return in HC. destruct (in_global_context (c_symbols st)) eqn:EG; [discriminate|].
    bok HC st1 H1. injection HC as <-.
    destruct (use_child e Pe st st1 c f H1 HS HF ltac:(lia)) as (K1 & T1 & S1).
    cbn [check_stmt1 stmt_decl]. pose proof (sim_global _ _ _ HS) as G. destruct (s_global c).
    + split; [exact K1|]. eapply step_pres_r; [exact T1|split; reflexivity].
    + unfold in_global_context in EG. rewrite G in EG. discriminate.
  - (* SExpr *)
    intros e Pe st st' c f HC HS HF HZ. cbn [ssize] in HZ. cbn [fn_ok_stmt] in HF.
    rewrite cs_expr in HC. bok HC st1 H1. injection HC as <-.
    destruct (Pe true st st1 c f H1 HS HF ltac:(lia)) as (K1 & T1).
    cbn [check_stmt1 stmt_decl]. split; [exact K1|]. eapply step_pres_r; [exact T1|split; reflexivity].
  - (* SBlock *)
    intros b Pb st st' c f HC HS HF HZ. rewrite ssize_block in HZ. cbn [fn_ok_stmt] in HF.
    cbn [check_stmt1 stmt_decl].
    destruct b as [|s0 b0].
    + rewrite cs_block in HC. cbn [is_nil] in HC. injection HC as <-. cbn [bsize] in HZ. destruct f as [|f']; [lia|].
      split; [reflexivity|]. eapply step_pres_r; [eapply step_refl; eauto|split; reflexivity].
    + assert (HB : block_statement (s0 :: b0) st = Ok st') by exact HC.
      apply (block_statement_ok _ Pb st st' (s_push c) f HB (sim_push _ _ HS) HF). lia.
  - (* SBreak *)
    intros st st' c f HC HS HF HZ. rewrite cs_break in HC. cbv zeta in HC.
    cbn [emit_u16 emit_opcode c_loops] in HC. destruct (rev (c_loops st)) as [|ctx rest] eqn:ER; [discriminate|].
    injection HC as <-. apply (f_equal (@length _)) in ER. rewrite rev_length in ER. cbn [length] in ER.
    cbn [check_stmt1 stmt_decl]. rewrite (sim_loops _ _ _ HS), ER. split; [reflexivity|].
    split; [cbn [set_loops emit_u16 emit_opcode c_symbols]; apply grows_refl, HS|].
    cbn [set_loops c_loops]. rewrite app_length, rev_length. cbn [length]. lia.
  - (* SContinue *)
    intros st st' c f HC HS HF HZ. rewrite cs_continue in HC. cbv zeta in HC.
    cbn [emit_opcode c_loops] in HC. destruct (rev (c_loops st)) as [|ctx rest] eqn:ER; [discriminate|].
    bok HC pos Hp. injection HC as <-. apply (f_equal (@length _)) in ER. rewrite rev_length in ER. cbn [length] in ER.
    cbn [check_stmt1 stmt_decl]. rewrite (sim_loops _ _ _ HS), ER. split; [reflexivity|].
    eapply step_pres_r; [eapply step_refl; eauto|split; reflexivity].
Qed.

(** ** Theorem 2 *)
Lemma sim_new : sim compiler_new (mkS [[]] None 0).
Proof.
  unfold sim. cbn [compiler_new c_symbols c_loops length]. split; cbn [s_local s_global s_loops].
  - exact wf_symtab_new.
  - intros x. cbn. split; [discriminate|tauto].
  - reflexivity.
  - reflexivity.
Qed.

Lemma all_Qc : forall b, Forall Qc b.
Proof. intros b. apply Forall_forall. intros s _. apply (proj2 compile_scoped). Qed.

(* from any state whose table shows the same names as the static context: an accepted statement list
   passes the static pass, and the table has only grown by the names the list declares in its own scope *)
Theorem compile_statements_scoped : forall b st st' c fuel,
  compile_statements b st = Ok st' -> sim st c -> fn_ok_block b = true -> bsize b <= fuel ->
  check_block fuel c b = None /\
  (exists n, length (flat_map stmt_decl b) <= n /\
             extends_by (flat_map stmt_decl b) n (c_symbols st) (c_symbols st')) /\
  length (c_loops st') = length (c_loops st).
Proof.
  intros b st st' c fuel HC HS HF HZ. destruct (stmts_ok b (all_Qc b) st st' c fuel HC HS HF HZ) as (K & G & L).
  split; [exact K|]. split; [now apply grows_extends_by|exact L].
Qed.

Lemma compile_ok_statements : forall b bc, compile b = Ok bc ->
  exists st1, compile_statements b compiler_new = Ok st1.
Proof.
  intros b bc H. unfold compile, compile_ast in H.
  destruct (compile_statements b compiler_new) as [st1| | |]; try discriminate. eauto.
Qed.

(* EVERY identifier of an accepted program resolves lexically, every stop/volgende is inside a loop of the
   same function, every antwoord inside a function *)
Theorem accepted_scoped : forall b bc fuel,
  fn_ok_block b = true -> bsize b <= fuel -> compile b = Ok bc -> static_check fuel b = None.
Proof.
  intros b bc fuel HF HZ HC. destruct (compile_ok_statements _ _ HC) as [st1 H1].
  exact (proj1 (compile_statements_scoped b _ st1 _ fuel H1 sim_new HF HZ)).
Qed.

Theorem undeclared_rejected : forall b fuel k,
  fn_ok_block b = true -> bsize b <= fuel -> static_check fuel b = Some k ->
  forall bc, compile b <> Ok bc.
Proof.
  intros b fuel k HF HZ HS bc HC. rewrite (accepted_scoped b bc fuel HF HZ HC) in HS. discriminate.
Qed.

(* "before it produces any output": eval does not run a program the compiler rejects *)
Theorem eval_front_error : forall u orc src budget ast,
  parse u (parse_float orc) src = Ok ast -> (forall bc, compile ast <> Ok bc) ->
  eval u orc src budget = FrontError (compile ast).
Proof.
  intros u orc src budget ast HP HN. unfold eval. rewrite HP. unfold compile in *.
  destruct (compile_ast ast compiler_new) as [st o]. cbn [snd] in *. destruct o as [bc| | |]; try reflexivity.
  now destruct (HN bc).
Qed.

Corollary undeclared_never_runs : forall u orc src budget ast fuel k,
  parse u (parse_float orc) src = Ok ast ->
  fn_ok_block ast = true -> bsize ast <= fuel -> static_check fuel ast = Some k ->
  eval u orc src budget = FrontError (compile ast) /\ forall bc, compile ast <> Ok bc.
Proof.
  intros u orc src budget ast fuel k HP HF HZ HS.
  pose proof (undeclared_rejected ast fuel k HF HZ HS) as HN. split; [|exact HN]. now apply eval_front_error.
Qed.

(** ** The compiler is structural: it never runs out of fuel *)
Definition noof {A} (o : outcome A) : Prop := o <> OutOfFuel.
Lemma noof_bind : forall A B (x : outcome A) (k : A -> outcome B),
  noof x -> (forall a, noof (k a)) -> noof (bind x k).
Proof. intros A B x k Hx Hk. destruct x; cbn [bind]; [apply Hk|unfold noof; discriminate|unfold noof; discriminate|now destruct Hx]. Qed.
Lemma noof_operand : forall b v, noof (operand b v).
Proof. intros. unfold operand. destruct (v <? 2 ^ b)%Z; discriminate. Qed.
Lemma noof_add_constant : forall k st, noof (snd (add_constant k st)).
Proof. intros. unfold add_constant. destruct (const_position k (c_constants st)); apply noof_operand. Qed.
Lemma noof_emit_const : forall k st, noof (emit_const k st).
Proof.
  intros. unfold emit_const. pose proof (noof_add_constant k st) as H. destruct (add_constant k st) as [st1 o].
  apply noof_bind; [exact H|discriminate].
Qed.
Lemma noof_emit_sym : forall op s st, noof (emit_sym op s st).
Proof. intros. unfold emit_sym. apply noof_bind; [apply noof_operand|discriminate]. Qed.
Lemma noof_change_jump : forall i v st, noof (change_jump_operand_at i v st).
Proof.
  intros. unfold change_jump_operand_at. destruct (nth_error (c_code st) (Z.to_nat i)) as [b|]; [|discriminate].
  destruct ((b =? byte_of_opcode OJump)%Z || (b =? byte_of_opcode OJumpIfFalse)%Z); discriminate.
Qed.
Lemma noof_patch_breaks : forall bs acc, noof acc -> noof (patch_breaks bs acc).
Proof.
  induction bs as [|ip bs IH]; intros acc H; [exact H|]. unfold patch_breaks in *. cbn [fold_left]. apply IH.
  apply noof_bind; [exact H|]. intros s. apply noof_bind; [apply noof_operand|]. intros tg. apply noof_change_jump.
Qed.

Ltac noof_step :=
  match goal with
  | |- noof (bind _ _) => apply noof_bind; [|intros ?]
  | |- noof (Ok _) => discriminate
  | |- noof (Err _) => discriminate
  | |- noof (Fault _) => discriminate
  | |- noof (operand _ _) => apply noof_operand
  | |- noof (emit_const _ _) => apply noof_emit_const
  | |- noof (emit_sym _ _ _) => apply noof_emit_sym
  | |- noof (change_jump_operand_at _ _ _) => apply noof_change_jump
  | |- noof (patch_breaks _ _) => apply noof_patch_breaks
  | H : forall st, noof (compile_expression ?e st) |- noof (compile_expression ?e _) => apply H
  end.
Ltac noof_tac := repeat noof_step.

Lemma noof_stmts : forall b, Forall (fun s => forall st, noof (compile_statement s st)) b ->
  forall st, noof (compile_statements b st).
Proof. induction 1 as [|s b Hs _ IH]; intros st; cbn [compile_statements]; [discriminate|]. apply noof_bind; auto. Qed.
Lemma noof_exprs : forall l, Forall (fun e => forall st, noof (compile_expression e st)) l ->
  forall st, noof (compile_exprs l st).
Proof. induction 1 as [|e l He _ IH]; intros st; cbn [compile_exprs]; [discriminate|]. apply noof_bind; auto. Qed.
Lemma noof_block_statement : forall b, Forall (fun s => forall st, noof (compile_statement s st)) b ->
  forall st, noof (block_statement b st).
Proof.
  intros b Hb st. unfold block_statement. destruct (is_nil b); [discriminate|].
  apply noof_bind; [now apply noof_stmts|discriminate].
Qed.
Lemma noof_block_value : forall b, Forall (fun s => forall st, noof (compile_statement s st)) b ->
  forall st, noof (block_value b st).
Proof.
  intros b Hb st. unfold block_value. apply noof_bind; [now apply noof_block_statement|]. intros st1.
  destruct (is_nil b); [discriminate|]. destruct (last_instruction_is OPop st1); discriminate.
Qed.

Lemma compile_no_oof : (forall e st, noof (compile_expression e st)) /\ (forall s st, noof (compile_statement s st)).
Proof.
  apply cn_ast_ind.
  - intros l o r Hl Hr st. rewrite ce_infix.
    assert (G : forall st0, noof (generic_infix l o r st0)).
    { intros st0. unfold generic_infix. noof_tac. destruct (assoc operator_eqb o compile_operator_table); discriminate. }
    destruct (fused_candidate l r o) as [[[n v] o']|]; [|apply G].
    destruct (compile_const_var_infix n v o' st) as [st1 [|]]; [discriminate|apply G].
  - intros o r Hr st. rewrite ce_prefix. noof_tac. destruct o; discriminate.
  - intros z st. rewrite ce_int. noof_tac.
  - intros f st. rewrite ce_float. noof_tac.
  - intros b st. rewrite ce_bool. noof_tac.
  - intros c t alt Hc Ht Ha st. rewrite ce_if. cbv zeta. noof_tac.
    + now apply noof_block_value.
    + destruct alt; [now apply noof_block_value|discriminate].
  - intros x st. rewrite ce_ident. destruct (resolve (c_symbols st) x); noof_tac.
  - intros n ps b Hb st. rewrite ce_function.
    destruct (if is_nil n then _ else _) as [st1 sym]. cbv zeta. noof_tac.
    + now apply noof_block_statement.
    + match goal with |- context [leave_context ?t] => destruct (leave_context t) as [t8 nl] end. noof_tac.
      match goal with |- context [add_constant ?k ?s] =>
        pose proof (noof_add_constant k s) as H; destruct (add_constant k s) as [st9 o] end.
      apply noof_bind; [exact H|]. intros idx. destruct sym; noof_tac.
  - intros f args Hf Ha st. rewrite ce_call. cbv zeta. noof_tac; [now apply noof_exprs|].
    destruct (match f with EIdent name => assoc_text name builtin_names | _ => None end); noof_tac.
  - intros l r Hl Hli Hr st. rewrite ce_assign. destruct l; try discriminate.
    + destruct (resolve (c_symbols st) s); noof_tac.
    + destruct Hli as [H1 H2]. noof_tac.
  - intros s st. rewrite ce_string. noof_tac.
  - intros vs Hvs st. rewrite ce_array. cbv zeta. noof_tac. now apply noof_exprs.
  - intros l i Hl Hi st. rewrite ce_index. noof_tac.
  - intros c b Hc Hb st. rewrite ce_while. cbv zeta. noof_tac; [now apply noof_block_value|].
    match goal with |- context [rev ?l] => destruct (rev l) end; noof_tac.
  - intros n e He st. rewrite cs_let. destruct (define (c_symbols st) n) as [t sy]. noof_tac.
  - intros e He st. rewrite cs_return. destruct (in_global_context (c_symbols st)); noof_tac.
  - intros e He st. rewrite cs_expr. noof_tac.
  - intros b Hb st. rewrite cs_block. destruct (is_nil b); [discriminate|]. apply noof_bind; [now apply noof_stmts|discriminate].
  - intros st. rewrite cs_break. cbv zeta. destruct (rev _); discriminate.
  - intros st. rewrite cs_continue. cbv zeta. destruct (rev _); noof_tac.
Qed.

Theorem compile_never_out_of_fuel : forall b, compile b <> OutOfFuel.
Proof.
  intros b. unfold compile, compile_ast.
  assert (H : noof (compile_statements b compiler_new)).
  { apply noof_stmts. apply Forall_forall. intros s _. apply (proj2 compile_no_oof). }
  destruct (compile_statements b compiler_new); cbn [snd]; try discriminate. now destruct H.
Qed.

(* with the compiler's internal assertions excluded (they are the subject of the totality theorem), the
   rejection is a documented error *)
Theorem undeclared_rejected_err : forall b fuel k,
  fn_ok_block b = true -> bsize b <= fuel -> static_check fuel b = Some k ->
  (forall f, compile b <> Fault f) -> exists k', compile b = Err k'.
Proof.
  intros b fuel k HF HZ HS HN. pose proof (undeclared_rejected b fuel k HF HZ HS) as H1.
  pose proof (compile_never_out_of_fuel b) as H2. destruct (compile b) as [bc|k'|f|].
  - now destruct (H1 bc).
  - eauto.
  - now destruct (HN f).
  - now destruct H2.
Qed.

(** ** The converse for error kinds: an error of the compiler is the error of the static pass, unless it
    is one of the compiler's own (operand "te groot": SyntaxError; operator that is no prefix: TypeError) *)
Definition err_ok (k : errkind) (r : option errkind) : Prop :=
  r = Some k \/ k = ESyntaxError \/ k = ETypeError.

Lemma bind_err : forall A B (e : outcome A) (f : A -> outcome B) k,
  bind e f = Err k -> e = Err k \/ exists a, e = Ok a /\ f a = Err k.
Proof. intros A B e f k H. destruct e; try discriminate; [right; eauto|left; cbn [bind] in H; congruence]. Qed.
Ltac berr H a Ha := apply bind_err in H; destruct H as [H | (a & Ha & H)].

Lemma err_first : forall k a b, err_ok k a -> err_ok k (first_err a b).
Proof. intros k a b [->|H]; [left; reflexivity|right; exact H]. Qed.
Lemma err_syntax : forall r, err_ok ESyntaxError r.
Proof. intros. right. left. reflexivity. Qed.

Lemma operand_err : forall b v k, operand b v = Err k -> k = ESyntaxError.
Proof. intros b v k H. unfold operand in H. destruct (v <? 2 ^ b)%Z; congruence. Qed.
Lemma add_constant_err : forall c st k, snd (add_constant c st) = Err k -> k = ESyntaxError.
Proof.
  intros c st k H. unfold add_constant in H. destruct (const_position c (c_constants st)); eapply operand_err; exact H.
Qed.
Lemma emit_const_err : forall c st k, emit_const c st = Err k -> k = ESyntaxError.
Proof.
  intros c st k H. unfold emit_const in H. pose proof (add_constant_err c st k) as A.
  destruct (add_constant c st) as [st1 o]. cbn [snd] in A. berr H idx Hi; [auto|discriminate].
Qed.
Lemma emit_sym_err : forall op s st k, emit_sym op s st = Err k -> k = ESyntaxError.
Proof. intros op s st k H. unfold emit_sym in H. berr H idx Hi; [eapply operand_err; eauto|discriminate]. Qed.
Lemma change_jump_err : forall i v st k, change_jump_operand_at i v st = Err k -> False.
Proof.
  intros i v st k H. unfold change_jump_operand_at in H.
  destruct (nth_error (c_code st) (Z.to_nat i)) as [b|]; [|discriminate].
  destruct ((b =? byte_of_opcode OJump)%Z || (b =? byte_of_opcode OJumpIfFalse)%Z); discriminate.
Qed.
Lemma patch_breaks_err : forall bs acc k, patch_breaks bs acc = Err k -> acc = Err k \/ k = ESyntaxError.
Proof.
  induction bs as [|ip bs IH]; intros acc k H; [left; exact H|]. unfold patch_breaks in *. cbn [fold_left] in H.
  apply IH in H. destruct H as [H|H]; [|right; exact H]. berr H s Hs; [left; exact H|]. right.
  berr H tg Ht; [eapply operand_err; eauto|]. now apply change_jump_err in H.
Qed.

Lemma simt_invisible : forall t nl c x, simt t nl c -> resolve t x = None -> s_visible c x = false.
Proof.
  intros t nl c x [W L G N] R. apply (resolve_None _ _ W) in R. destruct R as [R1 R2].
  unfold s_visible. apply orb_false_iff. split.
  - destruct (in_senv x (s_local c)) eqn:E; [|reflexivity]. apply L in E. contradiction.
  - destruct (s_global c) as [g|]; [|reflexivity]. destruct G as [_ G].
    destruct (in_senv x g) eqn:E; [|reflexivity]. apply G in E. contradiction.
Qed.

Definition Pr (e : expr) : Prop := forall flag st c fuel k,
  compile_expression e st = Err k -> sim st c -> fn_ok flag e = true -> esize e <= fuel ->
  err_ok k (check_expr fuel c e).
Definition Qr (s : stmt) : Prop := forall st c f k,
  compile_statement s st = Err k -> sim st c -> fn_ok_stmt s = true -> ssize s <= f ->
  err_ok k (check_stmt1 f c s).

Lemma all_Pc : forall e, Pc e. Proof. exact (proj1 compile_scoped). Qed.

Lemma exprs_err : forall l, Forall Pr l -> forall st c f k,
  compile_exprs l st = Err k -> sim st c -> forallb (fn_ok false) l = true -> essize l <= f ->
  err_ok k (check_exprs f c l).
Proof.
  induction 1 as [|e l He _ IH]; intros st c f k HC HS HF HZ; [discriminate|].
  cbn [compile_exprs] in HC. cbn [forallb] in HF. apply andb_true_iff in HF. destruct HF as [HF1 HF2].
  cbn [essize] in HZ. rewrite check_exprs_cons. berr HC st1 H1.
  - apply err_first. eapply He; eauto. lia.
  - destruct (use_child e (all_Pc e) st st1 c f H1 HS HF1 ltac:(lia)) as (K1 & T1 & S1).
    rewrite K1. cbn [first_err]. eapply IH; eauto. lia.
Qed.

Lemma stmts_err : forall b, Forall Qr b -> forall st c fuel k,
  compile_statements b st = Err k -> sim st c -> forallb fn_ok_stmt b = true -> bsize b <= fuel ->
  err_ok k (check_block fuel c b).
Proof.
  induction 1 as [|s b Hs _ IH]; intros st c fuel k HC HS HF HZ; [discriminate|].
  cbn [compile_statements] in HC. cbn [forallb] in HF. apply andb_true_iff in HF. destruct HF as [HF1 HF2].
  cbn [bsize] in HZ. destruct fuel as [|f]; [lia|]. rewrite ck_block_cons. berr HC st1 H1.
  - apply err_first. eapply Hs; eauto. lia.
  - destruct (proj2 compile_scoped s st st1 c f H1 HS HF1 ltac:(lia)) as (K1 & T1).
    pose proof (step_sim _ _ _ _ HS T1) as S1. rewrite K1. cbn [first_err]. eapply IH; eauto. lia.
Qed.

Lemma block_statement_err : forall b, Forall Qr b -> forall st c fuel k,
  block_statement b st = Err k -> sim st c -> forallb fn_ok_stmt b = true -> bsize b <= fuel ->
  err_ok k (check_block fuel c b).
Proof.
  intros b Hb st c fuel k HC HS HF HZ. unfold block_statement in HC. destruct (is_nil b); [discriminate|].
  berr HC st1 H1; [|discriminate]. eapply stmts_err; eauto. now apply sim_enter.
Qed.

Lemma block_value_err : forall b, Forall Qr b -> forall st c fuel k,
  block_value b st = Err k -> sim st c -> forallb fn_ok_stmt b = true -> bsize b <= fuel ->
  err_ok k (check_block fuel c b).
Proof.
  intros b Hb st c fuel k HC HS HF HZ. unfold block_value in HC. berr HC st1 H1.
  - eapply block_statement_err; eauto.
  - destruct (is_nil b); [discriminate|]. destruct (last_instruction_is OPop st1); discriminate.
Qed.

Lemma generic_infix_err : forall l o r, Pr l -> Pr r -> forall st c f k,
  generic_infix l o r st = Err k -> sim st c -> fn_ok false l = true -> fn_ok false r = true ->
  esize l + esize r <= f ->
  err_ok k (first_err (check_expr f c l) (fun _ => check_expr f c r)).
Proof.
  intros l o r Pl Pr0 st c f k HC HS HFl HFr HZ. unfold generic_infix in HC.
  pose proof (esize_pos l). pose proof (esize_pos r). berr HC st1 H1.
  - apply err_first. eapply Pl; eauto. lia.
  - destruct (use_child l (all_Pc l) st st1 c f H1 HS HFl ltac:(lia)) as (K1 & T1 & S1).
    rewrite K1. cbn [first_err]. berr HC st2 H2.
    + eapply Pr0; eauto. lia.
    + destruct (assoc operator_eqb o compile_operator_table); discriminate.
Qed.

Lemma all_Pc_list : forall l, Forall Pc l.
Proof. intros l. apply Forall_forall. intros e _. apply all_Pc. Qed.

Lemma compile_errors : (forall e, Pr e) /\ (forall s, Qr s).
Proof.
  apply cn_ast_ind; unfold Pr, Qr.
  - (* EInfix *)
    intros l o r Pl Pr0 flag st c fuel k HC HS HF HZ. cbn [esize] in HZ. destruct fuel as [|f]; [lia|].
    cbn [fn_ok] in HF. apply andb_true_iff in HF. destruct HF as [HFl HFr].
    rewrite ce_infix in HC. rewrite ck_infix.
    destruct (fused_candidate l r o) as [[[n v] o']|] eqn:EF.
    + pose proof (const_var_infix_pres n v o' st) as P.
      destruct (compile_const_var_infix n v o' st) as [st1 d]. cbn [fst] in P. destruct d; [discriminate|].
      eapply generic_infix_err; eauto; [eapply pres_sim; eauto|lia].
    + eapply generic_infix_err; eauto. lia.
  - (* EPrefix *)
    intros o r Pr0 flag st c fuel k HC HS HF HZ. cbn [esize] in HZ. destruct fuel as [|f]; [lia|].
    cbn [fn_ok] in HF. rewrite ce_prefix in HC. rewrite ck_prefix. berr HC st1 H1.
    + eapply Pr0; eauto. lia.
    + right. right. destruct o; congruence.
  - intros z flag st c fuel k HC _ _ _. rewrite ce_int in HC. apply emit_const_err in HC. subst. apply err_syntax.
  - intros x flag st c fuel k HC _ _ _. rewrite ce_float in HC. apply emit_const_err in HC. subst. apply err_syntax.
  - intros b flag st c fuel k HC _ _ _. discriminate.
  - (* EIf *)
    intros cnd t alt Pcnd Pt Palt flag st c fuel k HC HS HF HZ. rewrite esize_if in HZ. destruct fuel as [|f]; [lia|].
    cbn [fn_ok] in HF. apply andb_true_iff in HF. destruct HF as [HF HFa]. apply andb_true_iff in HF. destruct HF as [HFc HFt].
    rewrite ce_if in HC. cbv zeta in HC. rewrite ck_if. berr HC st1 H1.
    { apply err_first. eapply Pcnd; eauto. lia. }
    destruct (use_child cnd (all_Pc cnd) st st1 c f H1 HS HFc ltac:(lia)) as (K1 & T1 & S1).
    rewrite K1. cbn [first_err].
    assert (S2 : sim (emit_u16 JUMP_PLACEHOLDER (emit_opcode OJumpIfFalse st1)) (s_push c)).
    { apply sim_push. eapply pres_sim; [exact S1|split; reflexivity]. }
    berr HC st3 H3.
    { apply err_first. eapply block_value_err; eauto. lia. }
    destruct (block_value_ok t (all_Qc t) _ st3 _ f H3 S2 HFt ltac:(lia)) as (K3 & T3).
    pose proof (step_sim [] _ _ _ S2 T3) as S3. cbn [fold_left] in S3. rewrite K3. cbn [first_err].
    berr HC target Ht. { apply operand_err in HC. subst. apply err_syntax. }
    berr HC st5 H5. { now apply change_jump_err in HC. }
    apply change_jump_pres in H5.
    assert (S5 : sim st5 (s_push c)).
    { eapply pres_sim; [|exact H5]. eapply pres_sim; [exact S3|split; reflexivity]. }
    berr HC st6 H6.
    { destruct alt as [b|]; [|discriminate]. cbn [on_opt] in Palt. eapply block_value_err; eauto. lia. }
    berr HC target2 Ht2. { apply operand_err in HC. subst. apply err_syntax. }
    now apply change_jump_err in HC.
  - (* EIdent *)
    intros x flag st c fuel k HC HS HF HZ. cbn [esize] in HZ. destruct fuel as [|f]; [lia|].
    rewrite ce_ident in HC. rewrite ck_ident. destruct (resolve (c_symbols st) x) as [s|] eqn:R.
    + apply emit_sym_err in HC. subst. apply err_syntax.
    + rewrite (simt_invisible _ _ _ _ HS R). left. congruence.
  - (* EFunction *)
    intros n ps b Pb flag st c fuel k HC HS HF HZ. rewrite esize_function in HZ. destruct fuel as [|f]; [lia|].
    cbn [fn_ok] in HF. apply andb_true_iff in HF. destruct HF as [_ HFb].
    rewrite ce_function in HC. rewrite ck_function. cbv zeta.
    set (c1 := match n with [] => c | _ :: _ => s_declare c n end).
    assert (D : exists st1 sym, (if is_nil n then (st, None)
                  else let '(t, s) := define (c_symbols st) n in (set_symbols st t, Some s)) = (st1, sym) /\
                sim st1 c1).
    { destruct n as [|x n']; cbn [is_nil]; subst c1.
      - exists st, None. split; [reflexivity|exact HS].
      - pose proof (grows_define (c_symbols st) (x :: n') (sim_wf _ _ _ HS)) as G.
        destruct (define (c_symbols st) (x :: n')) as [t1 sy]. cbn [fst] in G. exists (set_symbols st t1), (Some sy).
        assert (T : step [x :: n'] st (set_symbols st t1)) by (split; [exact G|reflexivity]).
        split; [reflexivity|exact (step_sim _ _ _ _ HS T)]. }
    destruct D as (st1 & sym & ED & S1). rewrite ED in HC. clear ED. cbv zeta in HC.
    set (t3 := fold_left (fun t p => fst (define t p)) ps (new_context (c_symbols st1))) in *.
    assert (S3 : sim (set_loops (set_symbols (emit_u16 JUMP_PLACEHOLDER (emit_opcode OJump st1)) t3) [])
                     (mkS [rev ps] (Some (match s_global c1 with Some g => g | None => s_local c1 end)) 0)).
    { unfold sim. cbn [set_loops set_symbols c_symbols c_loops length]. subst t3. eapply simt_function. exact S1. }
    berr HC st4 H4. { eapply block_statement_err; eauto. lia. }
    berr HC target Ht. { apply operand_err in HC. subst. apply err_syntax. }
    berr HC st7 H7. { now apply change_jump_err in HC. }
    destruct (leave_context (c_symbols st7)) as [t8 nl].
    berr HC ip Hip. { apply operand_err in HC. subst. apply err_syntax. }
    berr HC nlz Hnl. { apply operand_err in HC. subst. apply err_syntax. }
    pose proof (add_constant_err (KFun ip nlz) (set_symbols st7 t8) k) as A.
    destruct (add_constant (KFun ip nlz) (set_symbols st7 t8)) as [st9 o]. cbn [snd] in A.
    berr HC idx Hidx. { rewrite (A HC). apply err_syntax. }
    destruct sym as [sy|]; [|discriminate]. berr HC st11 H11; [|discriminate].
    apply emit_sym_err in HC. subst. apply err_syntax.
  - (* ECall *)
    intros fn args Pfn Pargs flag st c fuel k HC HS HF HZ. rewrite esize_call in HZ. destruct fuel as [|f]; [lia|].
    cbn [fn_ok] in HF. apply andb_true_iff in HF. destruct HF as [HFa HFf].
    rewrite ce_call in HC. cbv zeta in HC. rewrite ck_call. berr HC st1 H1.
    { apply err_first. eapply exprs_err; eauto. lia. }
    destruct (exprs_ok args (all_Pc_list args) st st1 c f H1 HS HFa ltac:(lia)) as (K1 & T1 & S1).
    rewrite K1. cbn [first_err].
    assert (G : (do st2 <- compile_expression fn st1; do n <- operand 8 (zlength args); Ok (emit_u8 n (emit_opcode OCall st2))) = Err k ->
                err_ok k (check_expr f c fn)).
    { intros HG. berr HG st2 H2; [eapply Pfn; eauto; lia|].
      berr HG nn Hn; [|discriminate]. apply operand_err in HG. subst. apply err_syntax. }
    destruct fn; try (apply G; exact HC).
    unfold is_builtin_name. destruct (assoc_text s builtin_names) as [bi|]; [|apply G; exact HC].
    berr HC nn Hn; [|discriminate]. apply operand_err in HC. subst. apply err_syntax.
  - (* EAssign *)
    intros l r Pl Pli Pr0 flag st c fuel k HC HS HF HZ. cbn [esize] in HZ. destruct fuel as [|f]; [lia|].
    cbn [fn_ok] in HF. apply andb_true_iff in HF. destruct HF as [HFl HFr].
    rewrite ce_assign in HC.
    destruct l; try (injection HC as <-; left; reflexivity).
    + rewrite ck_assign_ident. destruct (resolve (c_symbols st) s) as [sy|] eqn:R.
      * rewrite (simt_visible _ _ _ _ _ HS R). berr HC st1 H1; [eapply Pr0; eauto; lia|].
        berr HC st2 H2; [apply emit_sym_err in HC; subst; apply err_syntax|].
        apply emit_sym_err in HC. subst. apply err_syntax.
      * rewrite (simt_invisible _ _ _ _ HS R). left. congruence.
    + destruct Pli as [Pl1 Pl2]. cbn [fn_ok] in HFl. apply andb_true_iff in HFl. destruct HFl as [HF1 HF2].
      cbn [esize] in HZ. rewrite ck_assign_index. berr HC st1 H1.
      { apply err_first. eapply Pl1; eauto. lia. }
      destruct (use_child l1 (all_Pc l1) st st1 c f H1 HS HF1 ltac:(lia)) as (K1 & T1 & S1).
      rewrite K1. cbn [first_err]. berr HC st2 H2.
      { apply err_first. eapply Pl2; eauto. lia. }
      destruct (use_child l2 (all_Pc l2) st1 st2 c f H2 S1 HF2 ltac:(lia)) as (K2 & T2 & S2).
      rewrite K2. cbn [first_err]. berr HC st3 H3; [|discriminate]. eapply Pr0; eauto. lia.
  - intros x flag st c fuel k HC _ _ _. rewrite ce_string in HC. apply emit_const_err in HC. subst. apply err_syntax.
  - (* EArray *)
    intros vs Pvs flag st c fuel k HC HS HF HZ. rewrite esize_array in HZ. destruct fuel as [|f]; [lia|].
    cbn [fn_ok] in HF. rewrite ce_array in HC. cbv zeta in HC. rewrite ck_array. berr HC st1 H1.
    + eapply exprs_err; eauto. lia.
    + berr HC nn Hn; [|discriminate]. apply operand_err in HC. subst. apply err_syntax.
  - (* EIndex *)
    intros l i Pl Pi flag st c fuel k HC HS HF HZ. cbn [esize] in HZ. destruct fuel as [|f]; [lia|].
    cbn [fn_ok] in HF. apply andb_true_iff in HF. destruct HF as [HFl HFi].
    rewrite ce_index in HC. rewrite ck_index. berr HC st1 H1.
    { apply err_first. eapply Pl; eauto. lia. }
    destruct (use_child l (all_Pc l) st st1 c f H1 HS HFl ltac:(lia)) as (K1 & T1 & S1).
    rewrite K1. cbn [first_err]. berr HC st2 H2; [|discriminate]. eapply Pi; eauto. lia.
  - (* EWhile *)
    intros cnd b Pcnd Pb flag st c fuel k HC HS HF HZ. rewrite esize_while in HZ. destruct fuel as [|f]; [lia|].
    cbn [fn_ok] in HF. apply andb_true_iff in HF. destruct HF as [HFc HFb].
    rewrite ce_while in HC. cbv zeta in HC. rewrite ck_while. cbv zeta.
    set (c' := mkS (s_local c) (s_global c) (S (s_loops c))).
    set (st2 := set_loops (emit_opcode ONull st) _) in HC.
    assert (S2 : sim st2 c').
    { destruct HS as [W L G N]. subst st2 c'. unfold sim. cbn [set_loops emit_opcode c_symbols c_loops].
      rewrite loops_snoc_length. split; cbn [s_local s_global s_loops]; auto. }
    berr HC st3 H3.
    { apply err_first. eapply Pcnd; eauto. lia. }
    destruct (use_child cnd (all_Pc cnd) st2 st3 c' f H3 S2 HFc ltac:(lia)) as (K3 & T3 & S3).
    rewrite K3. cbn [first_err].
    assert (S4 : sim (emit_opcode OPop (emit_u16 JUMP_PLACEHOLDER (emit_opcode OJumpIfFalse st3))) (s_push c')).
    { apply sim_push. eapply pres_sim; [exact S3|split; reflexivity]. }
    berr HC st5 H5. { eapply block_value_err; eauto. lia. }
    berr HC back Hb. { apply operand_err in HC. subst. apply err_syntax. }
    berr HC target Ht. { apply operand_err in HC. subst. apply err_syntax. }
    berr HC st8 H8. { now apply change_jump_err in HC. }
    destruct (rev (c_loops st8)); [discriminate|]. apply patch_breaks_err in HC. destruct HC as [HC|HC]; [discriminate|].
    subst. apply err_syntax.
  - (* SLet *)
    intros n e Pe st c f k HC HS HF HZ. cbn [ssize] in HZ. cbn [fn_ok_stmt] in HF.
    rewrite cs_let in HC. pose proof (grows_define (c_symbols st) n (sim_wf _ _ _ HS)) as G.
    destruct (define (c_symbols st) n) as [t1 sy]. cbn [fst] in G.
    assert (T : step [n] st (set_symbols st t1)) by (split; [exact G|reflexivity]).
    pose proof (step_sim _ _ _ _ HS T) as S0. cbn [fold_left] in S0. cbn [check_stmt1].
    berr HC st1 H1; [eapply Pe; eauto; lia|]. apply emit_sym_err in HC. subst. apply err_syntax.
  - (* SReturn *)
    intros e Pe st c f k HC HS HF HZ. cbn [ssize] in HZ. cbn [fn_ok_stmt] in HF.
    rewrite cs_return in HC. cbn [check_stmt1]. pose proof (sim_global _ _ _ HS) as G.
    destruct (in_global_context (c_symbols st)) eqn:EG.
    + injection HC as <-. apply err_syntax.
    + destruct (s_global c); [|unfold in_global_context in EG; rewrite G in EG; discriminate].
      berr HC st1 H1; [|discriminate]. eapply Pe; eauto. lia.
  - (* SExpr *)
    intros e Pe st c f k HC HS HF HZ. cbn [ssize] in HZ. cbn [fn_ok_stmt] in HF.
    rewrite cs_expr in HC. cbn [check_stmt1]. berr HC st1 H1; [|discriminate]. eapply Pe; eauto. lia.
  - (* SBlock *)
    intros b Pb st c f k HC HS HF HZ. rewrite ssize_block in HZ. cbn [fn_ok_stmt] in HF. cbn [check_stmt1].
    destruct b as [|s0 b0]; [discriminate|].
    assert (HB : block_statement (s0 :: b0) st = Err k) by exact HC.
    eapply block_statement_err; eauto; [now apply sim_push|lia].
  - (* SBreak *)
    intros st c f k HC HS HF HZ. rewrite cs_break in HC. cbv zeta in HC.
    destruct (rev _); [|discriminate]. injection HC as <-. apply err_syntax.
  - (* SContinue *)
    intros st c f k HC HS HF HZ. rewrite cs_continue in HC. cbv zeta in HC.
    destruct (rev _); [injection HC as <-; apply err_syntax|].
    berr HC pos Hp; [|discriminate]. apply operand_err in HC. subst. apply err_syntax.
Qed.

(* an error of the compiler is the error of the static pass, unless it is one of the compiler's own:
   SyntaxError (an operand "te groot") or TypeError (an operator that is no prefix operator) *)
Theorem compile_error_scoped : forall b fuel k,
  fn_ok_block b = true -> bsize b <= fuel -> compile b = Err k ->
  static_check fuel b = Some k \/ k = ESyntaxError \/ k = ETypeError.
Proof.
  intros b fuel k HF HZ HC. unfold compile, compile_ast in HC.
  destruct (compile_statements b compiler_new) as [st1|k'|f|] eqn:E; try discriminate.
  cbn [snd] in HC. injection HC as ->.
  apply (stmts_err b) with (st := compiler_new); auto; [|exact sim_new].
  apply Forall_forall. intros s _. apply (proj2 compile_errors).
Qed.

(* reference errors correspond exactly: the compiler reports one only where the static pass does *)
Corollary reference_error_exact : forall b fuel,
  fn_ok_block b = true -> bsize b <= fuel -> compile b = Err EReferenceError ->
  static_check fuel b = Some EReferenceError.
Proof.
  intros b fuel HF HZ HC. destruct (compile_error_scoped b fuel _ HF HZ HC) as [H|[H|H]]; [exact H|discriminate|discriminate].
Qed.

(* a program with an undeclared name: whatever documented error the compiler gives, it is the reference
   error or one of the compiler's own two *)
Corollary undeclared_error_kind : forall b fuel k,
  fn_ok_block b = true -> bsize b <= fuel -> static_check fuel b = Some EReferenceError ->
  compile b = Err k -> k = EReferenceError \/ k = ESyntaxError \/ k = ETypeError.
Proof.
  intros b fuel k HF HZ HS HC. destruct (compile_error_scoped b fuel k HF HZ HC) as [H|H]; [|right; exact H].
  left. congruence.
Qed.

(** ** Renaming ONE variable to a FRESH name (the literal reading of the property) *)
Fixpoint names_expr (e : expr) : list text :=
  match e with
  | EInfix l _ r => names_expr l ++ names_expr r
  | EPrefix _ r => names_expr r
  | EInt _ | EFloat _ | EBool _ | EString _ => []
  | EIf c t alt => names_expr c ++ flat_map names_stmt t ++
                   match alt with Some b => flat_map names_stmt b | None => [] end
  | EIdent x => [x]
  | EFunction n ps b => n :: ps ++ flat_map names_stmt b
  | ECall f args => names_expr f ++ flat_map names_expr args
  | EAssign l r => names_expr l ++ names_expr r
  | EArray vs => flat_map names_expr vs
  | EIndex l i => names_expr l ++ names_expr i
  | EWhile c b => names_expr c ++ flat_map names_stmt b
  end
with names_stmt (s : stmt) : list text :=
  match s with
  | SLet n e => n :: names_expr e
  | SReturn e | SExpr e => names_expr e
  | SBlock b => flat_map names_stmt b
  | SBreak | SContinue => []
  end.
Definition names_block (b : block) : list text := flat_map names_stmt b.

Section RenameExt.
  Variables r1 r2 : text -> text.

  Lemma map_ext_names : forall A (nm : A -> list text) (f g : A -> A) l,
    Forall (fun a => (forall x, In x (nm a) -> r1 x = r2 x) -> f a = g a) l ->
    (forall x, In x (flat_map nm l) -> r1 x = r2 x) -> map f l = map g l.
  Proof.
    intros A nm f g l H. induction H as [|a l Ha _ IH]; intros Hx; [reflexivity|]. cbn [map flat_map] in *.
    f_equal; [apply Ha|apply IH]; intros x Hi; apply Hx; apply in_or_app; auto.
  Qed.

  Lemma rename_ext_all :
    (forall e, (forall x, In x (names_expr e) -> r1 x = r2 x) -> rename_expr r1 e = rename_expr r2 e) /\
    (forall s, (forall x, In x (names_stmt s) -> r1 x = r2 x) -> rename_stmt r1 s = rename_stmt r2 s).
  Proof.
    apply cn_ast_ind.
    - intros l o r Hl Hr Hx. cbn [rename_expr names_expr] in *. f_equal; [apply Hl|apply Hr]; intros x Hi; apply Hx, in_or_app; auto.
    - intros o r Hr Hx. cbn [rename_expr names_expr] in *. f_equal. auto.
    - reflexivity.
    - reflexivity.
    - reflexivity.
    - intros c t alt Hc Ht Ha Hx. cbn [rename_expr names_expr] in *. f_equal.
      + apply Hc. intros x Hi. apply Hx, in_or_app; auto.
      + apply (map_ext_names _ names_stmt _ _ t Ht). intros x Hi. apply Hx, in_or_app. right. apply in_or_app; auto.
      + destruct alt as [b|]; [|reflexivity]. cbn [option_map on_opt] in *. f_equal.
        apply (map_ext_names _ names_stmt _ _ b Ha). intros x Hi. apply Hx, in_or_app. right. apply in_or_app; auto.
    - intros x Hx. cbn [rename_expr names_expr] in *. f_equal. apply Hx. now left.
    - intros n ps b Hb Hx. cbn [rename_expr names_expr] in *. f_equal.
      + unfold rename_fname. destruct (is_nil n); [reflexivity|]. apply Hx. now left.
      + apply map_ext_in. intros p Hp. apply Hx. right. apply in_or_app; auto.
      + apply (map_ext_names _ names_stmt _ _ b Hb). intros x Hi. apply Hx. right. apply in_or_app; auto.
    - intros f args Hf Ha Hx. cbn [rename_expr names_expr] in *. f_equal.
      + assert (E : rename_expr r1 f = rename_expr r2 f) by (apply Hf; intros x Hi; apply Hx, in_or_app; auto).
        destruct f; try exact E. destruct (is_builtin_name s); [reflexivity|exact E].
      + apply (map_ext_names _ names_expr _ _ args Ha). intros x Hi. apply Hx, in_or_app; auto.
    - intros l r Hl _ Hr Hx. cbn [rename_expr names_expr] in *. f_equal; [apply Hl|apply Hr]; intros x Hi; apply Hx, in_or_app; auto.
    - reflexivity.
    - intros vs Hvs Hx. cbn [rename_expr names_expr] in *. f_equal. apply (map_ext_names _ names_expr _ _ vs Hvs Hx).
    - intros l i Hl Hi Hx. cbn [rename_expr names_expr] in *. f_equal; [apply Hl|apply Hi]; intros x Hin; apply Hx, in_or_app; auto.
    - intros c b Hc Hb Hx. cbn [rename_expr names_expr] in *. f_equal.
      + apply Hc. intros x Hi. apply Hx, in_or_app; auto.
      + apply (map_ext_names _ names_stmt _ _ b Hb). intros x Hi. apply Hx, in_or_app; auto.
    - intros n e He Hx. cbn [rename_stmt names_stmt] in *. f_equal; [apply Hx; now left|apply He; intros x Hi; apply Hx; now right].
    - intros e He Hx. cbn [rename_stmt names_stmt] in *. f_equal. auto.
    - intros e He Hx. cbn [rename_stmt names_stmt] in *. f_equal. auto.
    - intros b Hb Hx. cbn [rename_stmt names_stmt] in *. f_equal. apply (map_ext_names _ names_stmt _ _ b Hb Hx).
    - reflexivity.
    - reflexivity.
  Qed.

  Theorem rename_block_ext : forall b,
    (forall x, In x (names_block b) -> r1 x = r2 x) -> rename_block r1 b = rename_block r2 b.
  Proof.
    intros b Hx. unfold rename_block. apply (map_ext_names _ names_stmt _ _ b); [|exact Hx].
    apply Forall_forall. intros s _. apply (proj2 rename_ext_all).
  Qed.
End RenameExt.

(* replace every occurrence of the name a by b *)
Definition subst_name (a b x : text) : text := if text_eqb x a then b else x.

(* renaming the variable a to a name b that does not occur in the program: identical bytecode *)
Theorem compile_rename_fresh : forall a b p,
  a <> [] -> b <> [] -> is_builtin_name a = false -> is_builtin_name b = false ->
  ~ In b (names_block p) ->
  compile (rename_block (subst_name a b) p) = compile p.
Proof.
  intros a b p Ha Hb Ba Bb Hf. rewrite <- (compile_swap a b p Ha Hb Ba Bb). f_equal.
  apply rename_block_ext. intros x Hx. unfold subst_name, swap_name.
  destruct (text_eqb x a); [reflexivity|]. destruct (text_eqb x b) eqn:E; [|reflexivity].
  apply text_eqb_eq in E. subst. contradiction.
Qed.

Theorem eval_rename_fresh : forall u orc src1 src2 ast budget a b,
  a <> [] -> b <> [] -> is_builtin_name a = false -> is_builtin_name b = false ->
  ~ In b (names_block ast) ->
  parse u (parse_float orc) src1 = Ok ast ->
  parse u (parse_float orc) src2 = Ok (rename_block (subst_name a b) ast) ->
  eval u orc src2 budget = eval u orc src1 budget.
Proof.
  intros u orc src1 src2 ast budget a b Ha Hb Ba Bb Hf P1 P2.
  assert (E : rename_block (subst_name a b) ast = rename_block (swap_name a b) ast).
  { apply rename_block_ext. intros x Hx. unfold subst_name, swap_name.
    destruct (text_eqb x a); [reflexivity|]. destruct (text_eqb x b) eqn:E; [|reflexivity].
    apply text_eqb_eq in E. subst. contradiction. }
  rewrite E in P2. eapply (eval_alpha (swap_name a b)); eauto.
  - apply swap_name_inj.
  - now apply swap_name_nonempty.
  - now apply swap_name_builtin.
Qed.

(** * Examples (non-vacuity, and why each hypothesis is there) *)
Definition ex_u : unicode := mkUnicode (fun _ => false) (fun _ => false).
Definition ex_orc : oracle := mkOracle (fun _ => []) (fun _ => None) (fun x _ => x).
Definition ex_parse (s : string) : outcome block := parse ex_u (parse_float ex_orc) (str_cps s).
Definition ex_ast (s : string) : block := match ex_parse s with Ok b => b | _ => [] end.

(* shadowing in a function (parameter and inner block), a loop with a nested block and stop, a call *)
Definition ex_src (a : string) : string :=
  ("stel " ++ a ++ " = 1; stel b = 0; " ++
   "functie f(" ++ a ++ ", n) { stel c = " ++ a ++ " + n; als c > 2 { stel " ++ a ++ " = c * 2; antwoord " ++ a ++ " } anders { antwoord n } } " ++
   "zolang " ++ a ++ " < 10 { " ++ a ++ " = " ++ a ++ " + 1; { stel " ++ a ++ " = 5; b = b + " ++ a ++ " } als " ++ a ++ " == 7 { stop } } " ++
   "print(f(" ++ a ++ ", 2), b)")%string.

Definition ex_r : text -> text := swap_name (str_cps "a") (str_cps "hernoemd_a").

Example ex_alpha :
  let p := ex_ast (ex_src "a") in
  ex_parse (ex_src "a") = Ok p /\
  ex_parse (ex_src "hernoemd_a") = Ok (rename_block ex_r p) /\
  compile (rename_block ex_r p) = compile p /\
  (exists bc, compile p = Ok bc /\ (100 <? length (b_code bc)) = true) /\
  fn_ok_block p = true /\ (bsize p <=? 200) = true /\ static_check 200 p = None.
Proof. vm_compute. repeat split; try reflexivity. eexists. split; reflexivity. Qed.

(* the same by the theorem, with its hypotheses discharged for the transposition *)
Example ex_alpha_by_theorem :
  compile (rename_block ex_r (ex_ast (ex_src "a"))) = compile (ex_ast (ex_src "a")).
Proof. apply compile_swap; (discriminate || reflexivity). Qed.


Lemma notin_by_eqb : forall (b : text) l, forallb (fun y => negb (text_eqb y b)) l = true -> ~ In b l.
Proof.
  intros b l H Hi. rewrite forallb_forall in H. specialize (H b Hi). now rewrite text_eqb_refl in H.
Qed.

(* the literal statement: the variable a renamed to the fresh name hernoemd_a *)
Example ex_fresh_is_subst :
  rename_block (subst_name (str_cps "a") (str_cps "hernoemd_a")) (ex_ast (ex_src "a")) = ex_ast (ex_src "hernoemd_a").
Proof. vm_compute. reflexivity. Qed.
Example ex_fresh_notin : forallb (fun y => negb (text_eqb y (str_cps "hernoemd_a"))) (names_block (ex_ast (ex_src "a"))) = true.
Proof. vm_compute. reflexivity. Qed.
Example ex_fresh :
  compile (rename_block (subst_name (str_cps "a") (str_cps "hernoemd_a")) (ex_ast (ex_src "a"))) = compile (ex_ast (ex_src "a")).
Proof.
  apply compile_rename_fresh.
  - discriminate.
  - discriminate.
  - reflexivity.
  - reflexivity.
  - apply notin_by_eqb. exact ex_fresh_notin.
Qed.

(* WHY r must not map a variable onto a builtin's name: the call head then resolves to the builtin *)
Definition ex_r_builtin : text -> text := swap_name (str_cps "a") (str_cps "print").
Example ex_builtin_capture :
  let p := ex_ast "stel a = functie(x) { x }; a(1)" in
  compile (rename_block ex_r_builtin p) <> compile p /\
  (exists bc, compile p = Ok bc) /\ (exists bc, compile (rename_block ex_r_builtin p) = Ok bc).
Proof. vm_compute. split; [discriminate|]. split; eexists; reflexivity. Qed.

(* WHY r must be injective: merging two names changes which slot is read *)
Definition ex_r_merge (x : text) : text := if text_eqb x (str_cps "b") then str_cps "a" else x.
Example ex_merge :
  let p := ex_ast "stel a = 1; stel b = 2; print(a)" in
  compile (rename_block ex_r_merge p) <> compile p.
Proof. vm_compute. discriminate. Qed.

(* WHY r must not map a name to the empty (anonymous) name: the function is then no longer declared *)
Definition ex_r_anon (x : text) : text := if text_eqb x (str_cps "f") then [] else x.
Example ex_anon :
  let p := ex_ast "functie f() { 1 }" in
  compile (rename_block ex_r_anon p) <> compile p.
Proof. vm_compute. discriminate. Qed.

(* an undeclared name: rejected by the static pass, by the compiler, and eval runs nothing *)
Example ex_undeclared :
  let src := "print(1); stel x = 2; print(x + y)"%string in
  let p := ex_ast src in
  ex_parse src = Ok p /\ fn_ok_block p = true /\ (bsize p <=? 50) = true /\
  static_check 50 p = Some EReferenceError /\ compile p = Err EReferenceError /\
  eval ex_u ex_orc (str_cps src) 1000 = FrontError (Err EReferenceError).
Proof. vm_compute. repeat split; reflexivity. Qed.

(* stop outside a loop of the same function; antwoord outside a function *)
Example ex_misplaced :
  let p1 := ex_ast "zolang ja { functie g() { stop } }" in
  let p2 := ex_ast "antwoord 1" in
  static_check 50 p1 = Some ESyntaxError /\ compile p1 = Err ESyntaxError /\
  static_check 50 p2 = Some ESyntaxError /\ compile p2 = Err ESyntaxError.
Proof. vm_compute. repeat split; reflexivity. Qed.

(* COUNTEREXAMPLE to accepted_scoped without fn_ok_block: a NAMED function literal in expression position
   (the parser accepts it) is declared by the compiler in the enclosing scope, but not by Sem.check_block *)
Example ex_named_fn_expr :
  let src := "stel x = functie g() { 1 }; g()"%string in
  let p := ex_ast src in
  ex_parse src = Ok p /\ fn_ok_block p = false /\
  (exists bc, compile p = Ok bc) /\ static_check 100 p = Some EReferenceError.
Proof. vm_compute. repeat split; try reflexivity. eexists; reflexivity. Qed.

Print Assumptions alpha_invariance.
Print Assumptions compile_alpha.
Print Assumptions eval_alpha.
Print Assumptions compile_deterministic_in_names.
Print Assumptions compile_swap.
Print Assumptions compile_statements_scoped.
Print Assumptions accepted_scoped.
Print Assumptions undeclared_rejected.
Print Assumptions undeclared_rejected_err.
Print Assumptions undeclared_never_runs.
Print Assumptions compile_never_out_of_fuel.
Print Assumptions compile_error_scoped.
Print Assumptions reference_error_exact.
Print Assumptions compile_rename_fresh.
Print Assumptions eval_rename_fresh.
