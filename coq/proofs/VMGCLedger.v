(* VMGCLedger.v - heap-level half of the lifting of C03 / C04 to the VM: the invariant relating a
   heap (with its ledger) to the collector that manages it, and its preservation by allocation,
   in-place update, collection; counting alive boxes.  Used by VMGCProofs.v. *)
From NL.Spec Require Import VMInv.
From NL.Proofs Require Import GCListLemmas GCProofs WordProofs OpsProofs.
From Coq Require Import Permutation Lia SetoidList.
Open Scope Z_scope.

(** * The heap/collector invariant (ledger in the form used by the proofs) *)

Record HeapInv (h : heap) (g : gc) : Prop := {
  hi_gc : GCInv h g;
  hi_am : forall l, h_alive h l = true -> managed g l;
  hi_fresh : forall l, (next_loc h <= l)%positive -> PM.find l (cells h) = None;
  hi_next : Zpos (next_loc h) = n_alloc h + 1;
  hi_ledger : n_alloc h - n_freed h = Z.of_nat (length (objects g))
}.

Definition oks (h : heap) (vs : list val) : Prop := forall v, In v vs -> val_ok h v = true.

Lemma oks_nil : forall h, oks h [].
Proof. intros h v []. Qed.

Lemma oks_cons : forall h v vs, val_ok h v = true -> oks h vs -> oks h (v :: vs).
Proof. intros h v vs Hv Hvs x [<-|Hx]; [exact Hv|apply Hvs; exact Hx]. Qed.

Lemma oks_app : forall h a b, oks h a -> oks h b -> oks h (a ++ b).
Proof. intros h a b Ha Hb v Hin. apply in_app_or in Hin. destruct Hin; [apply Ha|apply Hb]; assumption. Qed.

Lemma oks_incl : forall h a b, incl a b -> oks h b -> oks h a.
Proof. intros h a b Hi Hb v Hin. apply Hb, Hi, Hin. Qed.

Lemma ok_managed : forall h g v l, HeapInv h g -> val_ok h v = true -> val_loc v = Some l -> managed g l.
Proof. intros h g v l Hi Hok Hl. apply (hi_am h g Hi). eapply val_ok_alive; eassumption. Qed.

Lemma oks_roots_managed : forall h g vs, HeapInv h g -> oks h vs -> roots_managed g vs.
Proof. intros h g vs Hi Hok v l Hin Hl. eapply ok_managed; [exact Hi|apply Hok; exact Hin|exact Hl]. Qed.

Lemma managed_alive : forall h g l, GCInv h g -> managed g l -> h_alive h l = true.
Proof.
  intros h g l Hg [v [Hin Hl]]. eapply val_ok_alive; [apply (inv_ok h g Hg v Hin)|exact Hl].
Qed.

Lemma alive_not_none : forall h l, h_alive h l = true -> PM.find l (cells h) <> None.
Proof. intros h l H. destruct (h_alive_find h l H) as [o Ho]. rewrite Ho. discriminate. Qed.

Lemma fresh_not_alive : forall h g, HeapInv h g -> h_alive h (next_loc h) = false.
Proof.
  intros h g Hi. unfold h_alive. rewrite (hi_fresh h g Hi (next_loc h)); [reflexivity|apply Pos.le_refl].
Qed.

Lemma fresh_not_managed : forall h g, HeapInv h g -> ~ managed g (next_loc h).
Proof.
  intros h g Hi Hm. pose proof (managed_alive h g _ (hi_gc h g Hi) Hm) as Ha.
  rewrite (fresh_not_alive h g Hi) in Ha. discriminate.
Qed.

Lemma val_ok_find : forall h v l, val_ok h v = true -> val_loc v = Some l ->
  exists o, PM.find l (cells h) = Some (true, o).
Proof. intros h v l Hok Hl. apply h_alive_find. eapply val_ok_alive; eassumption. Qed.

(** * The empty heap *)

Lemma heapinv_empty : HeapInv empty_heap gc_new.
Proof.
  constructor.
  - constructor; simpl.
    + intros v [].
    + constructor.
    + intros v [].
    + intros la a vs v l [x [[] _]].
    + intros la a vs v [x [[] _]].
  - intros l H. unfold h_alive, empty_heap in H. simpl in H. rewrite PM.gempty in H. discriminate.
  - intros l _. simpl. apply PM.gempty.
  - reflexivity.
  - reflexivity.
Qed.

(** * Allocation *)

Lemma NoDup_app_intro : forall A (a b : list A), NoDup a -> NoDup b ->
  (forall x, In x a -> In x b -> False) -> NoDup (a ++ b).
Proof.
  induction a as [|x a IH]; intros b Ha Hb Hd; simpl; [exact Hb|].
  inversion Ha as [|y ys Hnin Ha']; subst. constructor.
  - intros Hin. apply in_app_or in Hin. destruct Hin as [Hin|Hin]; [exact (Hnin Hin)|].
    exact (Hd x (or_introl eq_refl) Hin).
  - apply IH; [exact Ha'|exact Hb|]. intros z Hz Hzb. exact (Hd z (or_intror Hz) Hzb).
Qed.

Definition tagged (o : obj) (l : positive) : val :=
  match o with OFloat _ => VFloat l | OStr _ => VStr l | OArr _ => VArr l end.

Definition obj_ok (h : heap) (o : obj) : Prop :=
  match o with OArr vs => oks h vs | _ => True end.

Lemma tagged_loc : forall o l, val_loc (tagged o l) = Some l.
Proof. intros [f|s|vs] l; reflexivity. Qed.

Lemma val_ok_tagged : forall h o l, PM.find l (cells h) = Some (true, o) -> val_ok h (tagged o l) = true.
Proof. intros h o l H. destruct o; cbn [tagged val_ok]; rewrite H; reflexivity. Qed.

Lemma managed_trace : forall g v l, managed (trace g v) l <-> managed g l \/ val_loc v = Some l.
Proof.
  intros g v l. unfold managed, trace. simpl. split.
  - intros [x [Hin Hl]]. apply in_app_or in Hin. destruct Hin as [Hin|[<-|[]]].
    + left. exists x. split; assumption.
    + right. exact Hl.
  - intros [[x [Hin Hl]]|Hl].
    + exists x. split; [apply in_or_app; left; exact Hin|exact Hl].
    + exists v. split; [apply in_or_app; right; left; reflexivity|exact Hl].
Qed.

Lemma alloc_find_other : forall h o l, l <> next_loc h ->
  PM.find l (cells (snd (h_alloc h o))) = PM.find l (cells h).
Proof. intros h o l Hne. simpl. apply PM.gso. exact Hne. Qed.

Lemma alloc_find_new : forall h o,
  PM.find (next_loc h) (cells (snd (h_alloc h o))) = Some (true, o).
Proof. intros h o. simpl. apply PM.gss. Qed.

Lemma alloc_ok_mono : forall h g o v, HeapInv h g -> val_ok h v = true ->
  val_ok (snd (h_alloc h o)) v = true.
Proof.
  intros h g o v Hi Hok. rewrite <- Hok. apply val_ok_cells_eq. intros l Hl.
  apply alloc_find_other. intros ->.
  pose proof (val_ok_alive h v _ Hok Hl) as Ha. rewrite (fresh_not_alive h g Hi) in Ha. discriminate.
Qed.

Lemma alloc_inv : forall h g o, HeapInv h g -> obj_ok h o ->
  HeapInv (snd (h_alloc h o)) (trace g (tagged o (next_loc h)))
  /\ val_ok (snd (h_alloc h o)) (tagged o (next_loc h)) = true.
Proof.
  intros h g o Hi Hobj.
  set (l := next_loc h). set (h' := snd (h_alloc h o)).
  pose proof (hi_gc h g Hi) as Hg.
  assert (Hnew : PM.find l (cells h') = Some (true, o)) by apply alloc_find_new.
  assert (Hoth : forall k, k <> l -> PM.find k (cells h') = PM.find k (cells h))
    by (intros k Hk; apply alloc_find_other; exact Hk).
  assert (Hmne : forall k, managed g k -> k <> l).
  { intros k Hm ->. exact (fresh_not_managed h g Hi Hm). }
  assert (Hoknew : val_ok h' (tagged o l) = true).
  { apply val_ok_tagged. exact Hnew. }
  assert (Hmono : forall v, val_ok h v = true -> val_ok h' v = true)
    by (intros v Hv; apply (alloc_ok_mono h g o v Hi Hv)).
  assert (Helems : forall la a vs v, managed (trace g (tagged o l)) la ->
            PM.find la (cells h') = Some (a, OArr vs) -> In v vs -> val_ok h' v = true).
  { intros la a vs v Hm Hf Hin. apply managed_trace in Hm. destruct Hm as [Hm|Hm].
    - rewrite (Hoth la (Hmne la Hm)) in Hf. apply Hmono.
      eapply (inv_elems_ok h g Hg); eassumption.
    - rewrite tagged_loc in Hm. inversion Hm; subst la. rewrite Hnew in Hf. inversion Hf; subst o.
      apply Hmono. apply Hobj. exact Hin. }
  assert (Ham : forall k, h_alive h' k = true -> managed (trace g (tagged o l)) k).
  { intros k Hk. apply managed_trace. destruct (Pos.eq_dec k l) as [->|Hne].
    - right. apply tagged_loc.
    - left. apply (hi_am h g Hi). unfold h_alive in *. rewrite (Hoth k Hne) in Hk. exact Hk. }
  split; [|exact Hoknew].
  constructor.
  - constructor.
    + intros v Hin. unfold trace in Hin; simpl in Hin. apply in_app_or in Hin.
      destruct Hin as [Hin|[<-|[]]]; [apply (inv_heap_vals h g Hg v Hin)|].
      unfold is_heap_val. rewrite tagged_loc. reflexivity.
    + unfold trace; simpl. rewrite map_app. simpl. rewrite tagged_loc.
      apply NoDup_app_intro.
      * apply (inv_nodup h g Hg).
      * constructor; [intros []|constructor].
      * intros x Hx [<-|[]]. apply managed_iff in Hx. exact (fresh_not_managed h g Hi Hx).
    + intros v Hin. unfold trace in Hin; simpl in Hin. apply in_app_or in Hin.
      destruct Hin as [Hin|[<-|[]]]; [|exact Hoknew].
      apply Hmono. apply (inv_ok h g Hg v Hin).
    + intros la a vs v k Hm Hf Hin Hk. apply Ham.
      eapply val_ok_alive; [eapply Helems; eassumption|exact Hk].
    + exact Helems.
  - exact Ham.
  - intros k Hk. simpl in Hk. simpl. rewrite PM.gso.
    + apply (hi_fresh h g Hi). apply Pos.le_trans with (Pos.succ (next_loc h)); [|exact Hk].
      apply Pos.lt_le_incl, Pos.lt_succ_diag_r.
    + intros ->. apply Pos.le_succ_l in Hk. exact (Pos.lt_irrefl _ Hk).
  - simpl. rewrite Pos2Z.inj_succ. pose proof (hi_next h g Hi). lia.
  - unfold trace; simpl. rewrite app_length. simpl. pose proof (hi_ledger h g Hi).
    rewrite Nat2Z.inj_add. simpl. lia.
Qed.

(** * In-place update of a box by an object of the same kind *)

Definition same_kind (o o' : obj) : bool :=
  match o, o' with
  | OFloat _, OFloat _ | OStr _, OStr _ | OArr _, OArr _ => true
  | _, _ => false
  end.

Lemma h_set_ok : forall h l o0 o, PM.find l (cells h) = Some (true, o0) ->
  h_set h l o = Ok (mkHeap (PM.add l (true, o) (cells h)) (next_loc h) (n_alloc h) (n_freed h)).
Proof. intros h l o0 o H. unfold h_set. rewrite H. reflexivity. Qed.

Lemma set_ok_eq : forall h l o0 o v, PM.find l (cells h) = Some (true, o0) -> same_kind o0 o = true ->
  val_ok (mkHeap (PM.add l (true, o) (cells h)) (next_loc h) (n_alloc h) (n_freed h)) v = val_ok h v.
Proof.
  intros h l o0 o v Hf Hk.
  destruct v as [| | | |k|k|k]; try reflexivity; cbn [val_ok cells];
    (destruct (Pos.eq_dec k l) as [->|Hne];
     [rewrite PM.gss, Hf; destruct o0, o; try discriminate Hk; reflexivity
     |rewrite PM.gso by exact Hne; reflexivity]).
Qed.

Lemma set_inv : forall h g l o0 o, HeapInv h g -> PM.find l (cells h) = Some (true, o0) ->
  same_kind o0 o = true -> obj_ok h o ->
  HeapInv (mkHeap (PM.add l (true, o) (cells h)) (next_loc h) (n_alloc h) (n_freed h)) g.
Proof.
  intros h g l o0 o Hi Hf Hk Hobj.
  set (h' := mkHeap (PM.add l (true, o) (cells h)) (next_loc h) (n_alloc h) (n_freed h)).
  pose proof (hi_gc h g Hi) as Hg.
  assert (Heq : forall v, val_ok h' v = val_ok h v) by (intros v; apply (set_ok_eq h l o0 o v Hf Hk)).
  assert (Hal : forall k, h_alive h' k = h_alive h k).
  { intros k. unfold h_alive, h'. cbn [cells]. destruct (Pos.eq_dec k l) as [->|Hne].
    - rewrite PM.gss, Hf. reflexivity.
    - rewrite PM.gso by exact Hne. reflexivity. }
  assert (Helems : forall la a vs v, managed g la ->
            PM.find la (cells h') = Some (a, OArr vs) -> In v vs -> val_ok h' v = true).
  { intros la a vs v Hm Hfa Hin. rewrite Heq. unfold h' in Hfa. cbn [cells] in Hfa.
    destruct (Pos.eq_dec la l) as [->|Hne].
    - rewrite PM.gss in Hfa. inversion Hfa; subst o. apply Hobj. exact Hin.
    - rewrite PM.gso in Hfa by exact Hne. eapply (inv_elems_ok h g Hg); eassumption. }
  constructor.
  - constructor.
    + apply (inv_heap_vals h g Hg).
    + apply (inv_nodup h g Hg).
    + intros v Hin. rewrite Heq. apply (inv_ok h g Hg v Hin).
    + intros la a vs v k Hm Hfa Hin Hk'. apply (hi_am h g Hi). rewrite <- Hal.
      eapply val_ok_alive; [eapply Helems; eassumption|exact Hk'].
    + exact Helems.
  - intros k Hk'. rewrite Hal in Hk'. apply (hi_am h g Hi k Hk').
  - intros k Hk'. unfold h' in *. cbn [cells next_loc] in *. rewrite PM.gso.
    + apply (hi_fresh h g Hi k Hk').
    + intros ->. rewrite (hi_fresh h g Hi l Hk') in Hf. discriminate.
  - exact (hi_next h g Hi).
  - exact (hi_ledger h g Hi).
Qed.

(** * Reachability: monotone in the roots, insensitive to cells outside the reachable part *)

Lemma reach_incl : forall h r1 r2 l, incl r1 r2 -> reach h r1 l -> reach h r2 l.
Proof.
  intros h r1 r2 l Hi Hr. induction Hr as [v l Hin Hl | la a vs v l Hr IH Hf Hin Hl].
  - eapply reach_root; [apply Hi; exact Hin|exact Hl].
  - eapply reach_elem; eassumption.
Qed.

Lemma reach_same_cells : forall h h' r,
  (forall l, reach h r l -> PM.find l (cells h') = PM.find l (cells h)) ->
  forall l, reach h r l <-> reach h' r l.
Proof.
  intros h h' r Hsame l. split.
  - intros Hr. induction Hr as [v l Hin Hl | la a vs v l Hr IH Hf Hin Hl].
    + eapply reach_root; eassumption.
    + eapply reach_elem; [exact IH| |exact Hin|exact Hl]. rewrite (Hsame la Hr). exact Hf.
  - intros Hr. induction Hr as [v l Hin Hl | la a vs v l Hr IH Hf Hin Hl].
    + eapply reach_root; eassumption.
    + eapply reach_elem; [exact IH| |exact Hin|exact Hl]. rewrite <- (Hsame la IH). exact Hf.
Qed.

(** * Collection *)

Lemma free_all_next_loc : forall vs h h', free_all h vs = Ok h' -> next_loc h' = next_loc h.
Proof.
  intros vs h h' H. unfold free_all in H.
  apply (foldM_inv free_val (fun hh => next_loc hh = next_loc h) vs) in H; [exact H| |reflexivity].
  intros a v a' _ Ha Hf. rewrite <- Ha. unfold free_val in Hf.
  destruct (val_loc v) as [l|]; [|inversion Hf; reflexivity].
  unfold h_free in Hf. destruct (PM.find l (cells a)) as [[[|] o]|]; try discriminate.
  inversion Hf; reflexivity.
Qed.

Lemma run_next_loc : forall h g roots g' h', GCInv h g -> gc_run h g roots = Ok (g', h') ->
  next_loc h' = next_loc h.
Proof.
  intros h g roots g' h' Hg Hrun. rewrite gc_run_unfold in Hrun.
  destruct (objects g) as [|o0 os] eqn:Eobjs; [inversion Hrun; reflexivity|].
  rewrite <- Eobjs in Hrun. clear Eobjs o0 os.
  destruct (mark_phase h g roots) as [bits| | |] eqn:Emark; simpl in Hrun; try discriminate.
  pose proof (mark_phase_length h g Hg roots bits Emark) as Hlen.
  destruct (sweep_eq h (objects g) bits Hlen) as [objs' [_ Hs]]. rewrite Hs in Hrun.
  destruct (free_all h (dead_rev (objects g) bits)) as [h1| | |] eqn:Efree; simpl in Hrun; try discriminate.
  inversion Hrun; subst. eapply free_all_next_loc; exact Efree.
Qed.

Lemma managed_dec : forall g l, {managed g l} + {~ managed g l}.
Proof.
  intros g l.
  destruct (in_dec (fun a b : option positive => ltac:(decide equality; apply Pos.eq_dec))
                   (Some l) (map val_loc (objects g))) as [Hi|Hni].
  - left. apply managed_iff. exact Hi.
  - right. intros Hm. apply Hni. apply managed_iff. exact Hm.
Qed.

Theorem run_inv : forall h g roots g' h', HeapInv h g -> oks h roots -> gc_run h g roots = Ok (g', h') ->
  HeapInv h' g'
  /\ (forall l, reach h roots l -> PM.find l (cells h') = PM.find l (cells h) /\ h_alive h' l = true)
  /\ (forall v, In v roots -> val_ok h' v = true)
  /\ (forall l, managed g' l <-> reach h roots l)
  /\ (forall l, h_alive h' l = true <-> reach h roots l).
Proof.
  intros h g roots g' h' Hi Hok Hrun.
  pose proof (hi_gc h g Hi) as Hg.
  pose proof (oks_roots_managed h g roots Hi Hok) as Hrm.
  assert (Hro : roots_ok h roots) by exact Hok.
  pose proof (run_preserves_reachable h g roots g' h' Hg Hrm Hro Hrun) as Hpres.
  pose proof (run_collects h g roots g' h' Hg Hrm Hro Hrun) as Hcol.
  pose proof (run_keeps_invariant h g roots g' h' Hg Hrm Hro Hrun) as Hg'.
  pose proof (run_leaves_unmanaged h g roots g' h' Hg Hrm Hrun) as Hunm.
  destruct (run_frees_garbage_once h g roots g' h' Hg Hrm Hrun) as [Hfreed [Hnf Hna]].
  pose proof (run_next_loc h g roots g' h' Hg Hrun) as Hnl.
  assert (Hman : forall l, managed g' l <-> reach h roots l).
  { intros l. split.
    - intros [v [Hin Hl]]. apply Hcol in Hin. destruct Hin as [_ [l0 [Hl0 Hr]]].
      rewrite Hl in Hl0. inversion Hl0; subst. exact Hr.
    - intros Hr. destruct (reach_managed h g Hg roots Hrm l Hr) as [v [Hin Hl]].
      exists v. split; [|exact Hl]. apply Hcol. split; [exact Hin|]. exists l. split; assumption. }
  assert (Ham : forall l, h_alive h' l = true -> managed g' l).
  { intros l Ha. destruct (managed_dec g l) as [Hm|Hnm].
    - destruct Hm as [v [Hin Hl]].
      destruct (in_dec val_eq_dec v (objects g')) as [Hin'|Hnin'].
      + exists v. split; assumption.
      + exfalso. assert (Hnr : ~ reach h roots l).
        { intros Hr. apply Hnin'. apply Hcol. split; [exact Hin|]. exists l; split; assumption. }
        rewrite (Hfreed l (ex_intro _ v (conj Hin Hl)) Hnr) in Ha. discriminate.
    - exfalso. apply Hnm. apply (hi_am h g Hi). unfold h_alive in *. rewrite <- (Hunm l Hnm). exact Ha. }
  split; [|split; [exact Hpres|split; [|split; [exact Hman|]]]].
  - constructor.
    + exact Hg'.
    + exact Ham.
    + intros l Hl. rewrite Hnl in Hl. rewrite Hunm.
      * apply (hi_fresh h g Hi l Hl).
      * intros Hm. apply (managed_alive h g l Hg) in Hm. apply alive_not_none in Hm.
        apply Hm. apply (hi_fresh h g Hi l Hl).
    + rewrite Hnl, Hna. exact (hi_next h g Hi).
    + pose proof (hi_ledger h g Hi). rewrite Hna, Hnf. lia.
  - intros v Hin. rewrite (val_ok_cells_eq h h' v); [apply Hok; exact Hin|].
    intros l Hl. apply (Hpres l). eapply reach_root; eassumption.
  - intros l. split.
    + intros Ha. apply Hman. apply Ham. exact Ha.
    + intros Hr. apply (Hpres l Hr).
Qed.

Lemma run_succeeds : forall h g roots, HeapInv h g -> oks h roots ->
  exists g' h', gc_run h g roots = Ok (g', h').
Proof.
  intros h g roots Hi Hok. apply run_no_fault; [exact (hi_gc h g Hi)| |exact Hok].
  eapply oks_roots_managed; eassumption.
Qed.

(** * Dropping a collector whose set is not closed any more (after untrace) *)

Definition holds (objs : list val) (l : positive) : Prop := exists v, In v objs /\ val_loc v = Some l.

Lemma destroy_weak : forall h objs bm,
  (forall v, In v objs -> is_heap_val v = true) -> NoDup (map val_loc objs) -> oks h objs ->
  exists g' h', gc_destroy h (mkGC objs bm) = Ok (g', h')
    /\ (forall l, holds objs l -> h_alive h' l = false)
    /\ (forall l, ~ holds objs l -> PM.find l (cells h') = PM.find l (cells h))
    /\ n_freed h' = n_freed h + Z.of_nat (length objs)
    /\ n_alloc h' = n_alloc h.
Proof.
  intros h objs bm Hhv Hnd Hok.
  set (bits := repeat_val false (length objs)).
  assert (Hlen : length bits = length objs) by apply repeat_val_length.
  destruct (sweep_eq h objs bits Hlen) as [objs' [Hp Hs]].
  pose proof (keep_dead_perm val objs bits Hlen) as Hkd.
  unfold bits in Hkd, Hp. rewrite keep_all_false in Hkd, Hp. simpl in Hkd. fold bits in Hkd.
  assert (Hnd' : NoDup (map val_loc (dead_rev objs bits))).
  { eapply Permutation_NoDup; [apply Permutation_map, Permutation_sym, Hkd|exact Hnd]. }
  assert (Hal : forall v, In v (dead_rev objs bits) -> exists l, val_loc v = Some l /\ h_alive h l = true).
  { intros v Hin. apply (Permutation_in _ Hkd) in Hin.
    pose proof (Hhv v Hin) as Hv. unfold is_heap_val in Hv.
    destruct (val_loc v) as [l|] eqn:El; [|discriminate].
    exists l. split; [reflexivity|]. eapply val_ok_alive; [apply Hok; exact Hin|exact El]. }
  destruct (free_all_spec _ h Hnd' Hal) as [h' [Hf [Hn [Hna [Hdead Hsame]]]]].
  unfold gc_destroy. cbn [objects]. fold bits. rewrite Hs, Hf. cbn [bind].
  eexists; exists h'. split; [reflexivity|]. split; [|split; [|split]].
  - intros l [v [Hin Hl]]. apply Hdead. rewrite <- Hl. apply in_map.
    apply (Permutation_in _ (Permutation_sym Hkd)). exact Hin.
  - intros l Hnh. apply Hsame. intros Hin. apply in_map_iff in Hin. destruct Hin as [v [Hl Hin]].
    apply Hnh. exists v. split; [apply (Permutation_in _ Hkd); exact Hin|exact Hl].
  - rewrite Hn. rewrite (Permutation_length Hkd). reflexivity.
  - exact Hna.
Qed.

(** * untrace, with the direction that untrace_spec leaves classical: what it removes is reachable *)

Theorem untrace_strong : forall h g o, GCInv h g -> roots_managed g [o] -> roots_ok h [o] ->
  exists g', untrace h g o = Ok g'
    /\ NoDup (map val_loc (objects g'))
    /\ incl (objects g') (objects g)
    /\ (forall v l, In v (objects g') -> val_loc v = Some l -> ~ reach h [o] l)
    /\ (forall v l, In v (objects g) -> ~ In v (objects g') -> val_loc v = Some l -> reach h [o] l).
Proof.
  intros h g o Hinv Hrm Hro.
  assert (Hok : val_ok h o = true) by (apply Hro; left; reflexivity).
  assert (Hsub : sub g (objects g)) by (split; [apply (inv_nodup h g Hinv)|apply incl_refl]).
  destruct (untrace_spec h g o Hinv Hrm Hro) as [g' [Hg' [Hnd Hiff]]].
  exists g'. split; [exact Hg'|]. split; [exact Hnd|].
  unfold untrace in Hg'.
  destruct (untrace_fuel_spec h g Hinv (reach h [o]) (reach_elem h [o]) _ g o g' Hsub Hok Hg')
    as [_ [_ [Hsound _]]].
  split; [|split].
  - intros v Hin. apply Hiff in Hin. exact (proj1 Hin).
  - intros v l Hin Hl. apply Hiff in Hin. exact (proj2 Hin l Hl).
  - intros v l Hin Hnin Hl.
    apply (Hsound (fun l0 Hl0 => reach_root h [o] o l0 (or_introl eq_refl) Hl0) v l Hin Hnin Hl).
Qed.

(** * Counting the boxes that are alive *)

Lemma NoDupA_eqkey_fst : forall (A : Type) (l : list (positive * A)),
  NoDupA (@PM.eq_key A) l -> NoDup (map fst l).
Proof.
  intros A l H. induction H as [|x l Hnin Hnd IH]; simpl; constructor; [|exact IH].
  intros Hin. apply Hnin. apply in_map_iff in Hin. destruct Hin as [y [Hy Hiny]].
  apply InA_alt. exists y. split; [|exact Hiny]. unfold PM.eq_key. symmetry. exact Hy.
Qed.

Lemma NoDup_map_filter : forall (A B : Type) (f : A -> B) (p : A -> bool) (l : list A),
  NoDup (map f l) -> NoDup (map f (filter p l)).
Proof.
  intros A B f p l. induction l as [|x l IH]; simpl; intros H; [constructor|].
  inversion H as [|y ys Hnin Hnd]; subst. destruct (p x); simpl.
  - constructor; [|apply IH; exact Hnd]. intros Hin. apply Hnin.
    apply in_map_iff in Hin. destruct Hin as [z [Hz Hinz]]. apply filter_In in Hinz.
    apply in_map_iff. exists z. split; [exact Hz|exact (proj1 Hinz)].
  - apply IH; exact Hnd.
Qed.

Definition alive_locs (h : heap) : list positive :=
  map fst (filter (fun c : positive * (bool * obj) => fst (snd c)) (PM.elements (cells h))).

Lemma alive_count_locs : forall h, alive_count h = length (alive_locs h).
Proof. intros h. unfold alive_count, alive_locs. rewrite map_length. reflexivity. Qed.

Lemma alive_locs_nodup : forall h, NoDup (alive_locs h).
Proof.
  intros h. unfold alive_locs. apply NoDup_map_filter. apply NoDupA_eqkey_fst. apply PM.elements_3w.
Qed.

Lemma alive_locs_in : forall h l, In l (alive_locs h) <-> h_alive h l = true.
Proof.
  intros h l. unfold alive_locs, h_alive. rewrite in_map_iff. split.
  - intros [[k [a o]] [Hk Hin]]. simpl in Hk. subst k. apply filter_In in Hin. destruct Hin as [Hin Ha].
    simpl in Ha. subst a. apply PM.elements_complete in Hin. rewrite Hin. reflexivity.
  - intros H. destruct (PM.find l (cells h)) as [[[|] o]|] eqn:Ef; try discriminate.
    exists (l, (true, o)). split; [reflexivity|]. apply filter_In. split; [|reflexivity].
    apply PM.elements_correct. exact Ef.
Qed.

(* a duplicate-free list of heap values that covers exactly the alive boxes has their number *)
Lemma alive_count_objs : forall h (objs : list val),
  NoDup (map val_loc objs) -> (forall v, In v objs -> is_heap_val v = true) ->
  (forall l, h_alive h l = true <-> holds objs l) ->
  alive_count h = length objs.
Proof.
  intros h objs Hnd Hhv Hiff. rewrite alive_count_locs.
  rewrite <- (map_length val_loc objs). rewrite <- (map_length (@Some positive) (alive_locs h)).
  apply Permutation_length. apply NoDup_Permutation.
  - apply FinFun.Injective_map_NoDup; [intros a b E; inversion E; reflexivity|apply alive_locs_nodup].
  - exact Hnd.
  - intros x. split.
    + intros Hin. apply in_map_iff in Hin. destruct Hin as [l [<- Hl]].
      apply alive_locs_in in Hl. apply Hiff in Hl. destruct Hl as [v [Hin Hl]].
      rewrite <- Hl. apply in_map. exact Hin.
    + intros Hin. apply in_map_iff in Hin. destruct Hin as [v [Hv Hin]].
      pose proof (Hhv v Hin) as Hh. unfold is_heap_val in Hh.
      destruct (val_loc v) as [l|] eqn:El; [|discriminate]. subst x.
      apply in_map. apply alive_locs_in. apply Hiff. exists v. split; assumption.
Qed.

Lemma heapinv_count : forall h g, HeapInv h g -> alive_count h = length (objects g).
Proof.
  intros h g Hi. pose proof (hi_gc h g Hi) as Hg.
  apply alive_count_objs.
  - apply (inv_nodup h g Hg).
  - apply (inv_heap_vals h g Hg).
  - intros l. split; [apply (hi_am h g Hi)|apply (managed_alive h g l Hg)].
Qed.

(** * What an operation hands to [with_new]: an old value, or a fresh float / string box *)

Inductive new_res (h : heap) : val * heap -> Prop :=
| nr_same : forall v, val_ok h v = true -> new_res h (v, h)
| nr_float : forall f, new_res h (VFloat (next_loc h), snd (h_alloc h (OFloat f)))
| nr_str : forall t, new_res h (VStr (next_loc h), snd (h_alloc h (OStr t))).

Definition loc_small (v : val) : Prop := forall l, val_loc v = Some l -> Zpos l <? 2 ^ 60 = true.

Lemma tag_encode_all : forall v, w_tag (encode v) = Some (val_tag v).
Proof.
  intros [|b|z|ip n|l|l|l]; cbn [encode val_tag].
  - reflexivity.
  - apply bool_roundtrip.
  - apply w_tag_w_int.
  - unfold w_function. rewrite shiftl3. apply w_tag_with_type. apply wrap8_mod.
  - unfold w_heap, addr_of_loc. apply w_tag_with_type. rewrite Z.mul_comm. apply Z_mod_mult.
  - unfold w_heap, addr_of_loc. apply w_tag_with_type. rewrite Z.mul_comm. apply Z_mod_mult.
  - unfold w_heap, addr_of_loc. apply w_tag_with_type. rewrite Z.mul_comm. apply Z_mod_mult.
Qed.

Lemma deref_small : forall h v l, loc_small v -> val_loc v = Some l ->
  deref_heap h (encode v) = match h_get h l with Ok o => Some o | _ => None end.
Proof.
  intros h v l Hs Hl. apply deref_heap_encode; [|exact Hl].
  destruct v; simpl in Hl; try discriminate Hl; simpl; apply Hs; reflexivity.
Qed.

Lemma get_float_ok : forall h l, val_ok h (VFloat l) = true -> exists x, PM.find l (cells h) = Some (true, OFloat x).
Proof.
  intros h l H. simpl in H. destruct (PM.find l (cells h)) as [[[|] [x|s|vs]]|]; try discriminate.
  exists x; reflexivity.
Qed.
Lemma get_str_ok : forall h l, val_ok h (VStr l) = true -> exists x, PM.find l (cells h) = Some (true, OStr x).
Proof.
  intros h l H. simpl in H. destruct (PM.find l (cells h)) as [[[|] [x|s|vs]]|]; try discriminate.
  exists s; reflexivity.
Qed.
Lemma get_arr_ok' : forall h l, val_ok h (VArr l) = true -> exists x, PM.find l (cells h) = Some (true, OArr x).
Proof.
  intros h l H. simpl in H. destruct (PM.find l (cells h)) as [[[|] [x|s|vs]]|]; try discriminate.
  exists vs; reflexivity.
Qed.

Lemma get_float_eq : forall h l x, PM.find l (cells h) = Some (true, OFloat x) -> get_float h l = Ok x.
Proof. intros h l x H. unfold get_float, h_get. rewrite H. reflexivity. Qed.
Lemma get_str_eq : forall h l x, PM.find l (cells h) = Some (true, OStr x) -> get_str h l = Ok x.
Proof. intros h l x H. unfold get_str, h_get. rewrite H. reflexivity. Qed.
Lemma get_arr_eq : forall h l x, PM.find l (cells h) = Some (true, OArr x) -> get_arr h l = Ok x.
Proof. intros h l x H. unfold get_arr, h_get. rewrite H. reflexivity. Qed.

Lemma h_get_eq : forall h l o, PM.find l (cells h) = Some (true, o) -> h_get h l = Ok o.
Proof. intros h l o H. unfold h_get. rewrite H. reflexivity. Qed.

Lemma checked_int_some : forall r w, checked_int r = Some w ->
  exists z, in_int_range z = true /\ w = w_int z.
Proof.
  intros [z|] w H; simpl in H; [|discriminate].
  destruct (in_int_range z) eqn:E; [|discriminate]. inversion H. exists z. split; [exact E|reflexivity].
Qed.

Lemma cmp_table : forall m sym ord, assoc3 m cmp_methods = Some (sym, ord) ->
  In (sym, ord) [(">", true); (">=", true); ("<", true); ("<=", true); ("==", false); ("!=", false)]%string.
Proof.
  intros m sym ord H. unfold cmp_methods in H. cbn [assoc3] in H.
  repeat match type of H with (if ?c then _ else _) = _ => destruct c end;
    inversion H; subst; simpl; tauto.
Qed.

Lemma non_heap_unwrap : non_heap_fault FUnwrap.
Proof. repeat split; discriminate. Qed.

Section BinopSpec.
  Variable orc : oracle.
  Variable h : heap.

  Lemma lift_new_float : forall f, lift_wres h (WNewFloat f) = Ok (VFloat (next_loc h), snd (h_alloc h (OFloat f))).
  Proof. reflexivity. Qed.

  (* equality answers on two well-typed operands of the same non-array type *)
  Lemma w_eq_some : forall a b, val_ok h a = true -> val_ok h b = true -> loc_small a -> loc_small b ->
    val_tag a = val_tag b -> val_tag a <> TArray ->
    w_eq (deref_heap h) (val_tag a) (encode a) (encode b) <> None.
  Proof.
    intros a b Ha Hb Sa Sb Ht Hna.
    destruct a as [|x|x|i n|l|l|l]; destruct b as [|y|y|j k|l'|l'|l']; simpl in Ht; try discriminate Ht;
      cbn [val_tag w_eq]; try discriminate.
    - rewrite (deref_small h (VFloat l) l Sa eq_refl), (deref_small h (VFloat l') l' Sb eq_refl).
      destruct (get_float_ok h l Ha) as [x Hx]. destruct (get_float_ok h l' Hb) as [y Hy].
      rewrite (h_get_eq _ _ _ Hx), (h_get_eq _ _ _ Hy). discriminate.
    - rewrite (deref_small h (VStr l) l Sa eq_refl), (deref_small h (VStr l') l' Sb eq_refl).
      destruct (get_str_ok h l Ha) as [x Hx]. destruct (get_str_ok h l' Hb) as [y Hy].
      rewrite (h_get_eq _ _ _ Hx), (h_get_eq _ _ _ Hy). discriminate.
    - exfalso. apply Hna. reflexivity.
  Qed.

  Lemma w_pcmp_some : forall a b, val_ok h a = true -> val_ok h b = true -> loc_small a -> loc_small b ->
    val_tag a = val_tag b -> val_tag a <> TArray -> val_tag a <> TFunction ->
    w_partial_cmp (deref_heap h) (val_tag a) (encode a) (encode b) <> None.
  Proof.
    intros a b Ha Hb Sa Sb Ht Hna Hnf.
    destruct a as [|x|x|i n|l|l|l]; destruct b as [|y|y|j k|l'|l'|l']; simpl in Ht; try discriminate Ht;
      cbn [val_tag w_partial_cmp]; try discriminate.
    - exfalso. apply Hnf. reflexivity.
    - rewrite (deref_small h (VFloat l) l Sa eq_refl), (deref_small h (VFloat l') l' Sb eq_refl).
      destruct (get_float_ok h l Ha) as [x Hx]. destruct (get_float_ok h l' Hb) as [y Hy].
      rewrite (h_get_eq _ _ _ Hx), (h_get_eq _ _ _ Hy). discriminate.
    - rewrite (deref_small h (VStr l) l Sa eq_refl), (deref_small h (VStr l') l' Sb eq_refl).
      destruct (get_str_ok h l Ha) as [x Hx]. destruct (get_str_ok h l' Hb) as [y Hy].
      rewrite (h_get_eq _ _ _ Hx), (h_get_eq _ _ _ Hy). discriminate.
    - exfalso. apply Hna. reflexivity.
  Qed.

  Lemma cmp_sym_some : forall sym ord a b, 
    In (sym, ord) [(">", true); (">=", true); ("<", true); ("<=", true); ("==", false); ("!=", false)]%string ->
    val_ok h a = true -> val_ok h b = true -> loc_small a -> loc_small b ->
    val_tag a = val_tag b ->
    (tag_eqb (val_tag a) TArray || (ord && tag_eqb (val_tag a) TFunction)) = false ->
    cmp_sym (deref_heap h) sym (val_tag a) (encode a) (encode b) <> None.
  Proof.
    intros sym ord a b Hin Ha Hb Sa Sb Ht Hex.
    apply Bool.orb_false_iff in Hex. destruct Hex as [Hna Hnf].
    assert (Hna' : val_tag a <> TArray) by (intros E; rewrite E in Hna; discriminate).
    pose proof (w_eq_some a b Ha Hb Sa Sb Ht Hna') as He.
    simpl in Hin.
    destruct Hin as [E|[E|[E|[E|[E|[E|[]]]]]]]; inversion E; subst sym ord; unfold cmp_sym; cbn [String.eqb Ascii.eqb Bool.eqb];
      try (assert (Hnf' : val_tag a <> TFunction) by (intros E'; rewrite E' in Hnf; discriminate);
           pose proof (w_pcmp_some a b Ha Hb Sa Sb Ht Hna' Hnf') as Hp;
           destruct (w_partial_cmp (deref_heap h) (val_tag a) (encode a) (encode b)); [discriminate|exfalso; apply Hp; reflexivity]).
    - destruct (w_eq (deref_heap h) (val_tag a) (encode a) (encode b)); [discriminate|exfalso; apply He; reflexivity].
    - destruct (w_eq (deref_heap h) (val_tag a) (encode a) (encode b)); [discriminate|exfalso; apply He; reflexivity].
  Qed.

  Theorem binop_spec : forall m a b, val_ok h a = true -> val_ok h b = true ->
    match binop orc m h a b with
    | Ok r => new_res h r
    | Fault f => loc_small a -> loc_small b -> non_heap_fault f
    | _ => True
    end.
  Proof.
    intros m a b Ha Hb. unfold binop, w_method.
    destruct (assoc3 m arith_methods) as [[sym chk]|] eqn:Ear.
    { unfold w_arith. rewrite !tag_encode_all.
      destruct (tag_eqb (val_tag a) (val_tag b)) eqn:Et; cbn [negb]; [|exact I].
      apply tag_eqb_iff in Et.
      destruct a as [|x|x|i n|l|l|l]; cbn [val_tag]; try exact I.
      - destruct (checked_int _) as [w|] eqn:Ec; [|exact I].
        apply checked_int_some in Ec. destruct Ec as [z [Hz ->]]. rewrite (lift_int h z Hz).
        apply nr_same. reflexivity.
      - destruct b as [|y|y|j k|l'|l'|l']; simpl in Et; try discriminate Et.
        destruct (deref_heap h (encode (VFloat l))) as [[x|s|vs]|] eqn:Ea;
          destruct (deref_heap h (encode (VFloat l'))) as [[y|s'|vs']|] eqn:Eb;
          try (cbn [lift_wres]; intros Sa Sb;
               rewrite (deref_small h (VFloat l) l Sa eq_refl) in Ea;
               rewrite (deref_small h (VFloat l') l' Sb eq_refl) in Eb;
               destruct (get_float_ok h l Ha) as [x0 Hx]; destruct (get_float_ok h l' Hb) as [y0 Hy];
               rewrite (h_get_eq _ _ _ Hx) in Ea; rewrite (h_get_eq _ _ _ Hy) in Eb; discriminate).
        destruct (float_arith orc sym x y) as [f|].
        + rewrite lift_new_float. apply nr_float.
        + cbn [lift_wres]. intros _ _. exact non_heap_unwrap. }
    destruct (assoc3 m cmp_methods) as [[sym ord]|] eqn:Ecm.
    { apply cmp_table in Ecm. unfold w_cmp. rewrite !tag_encode_all.
      destruct (tag_eqb (val_tag a) (val_tag b)) eqn:Et; cbn [negb]; [|exact I].
      apply tag_eqb_iff in Et.
      destruct (tag_eqb (val_tag a) TArray || (ord && tag_eqb (val_tag a) TFunction)) eqn:Eex; [exact I|].
      destruct (cmp_sym (deref_heap h) sym (val_tag a) (encode a) (encode b)) as [r|] eqn:Ecs.
      - rewrite lift_bool. apply nr_same. reflexivity.
      - cbn [lift_wres]. intros Sa Sb. exfalso.
        exact (cmp_sym_some sym ord a b Ecm Ha Hb Sa Sb Et Eex Ecs). }
    destruct (assoc2 m logical_methods) as [sym|] eqn:Elg.
    { unfold w_logical. rewrite !tag_encode_all.
      destruct (val_tag a); destruct (val_tag b); try exact I.
      destruct (String.eqb sym "&&"); [rewrite lift_bool; apply nr_same; reflexivity|].
      destruct (String.eqb sym "||"); [rewrite lift_bool; apply nr_same; reflexivity|].
      cbn [lift_wres]. intros _ _. exact non_heap_unwrap. }
    cbn [lift_wres]. intros _ _. exact non_heap_unwrap.
  Qed.
End BinopSpec.

Lemma negate_spec : forall h v, val_ok h v = true ->
  match negate h v with
  | Ok r => new_res h r
  | Fault f => non_heap_fault f
  | _ => True
  end.
Proof.
  intros h v Hv. destruct v as [|x|z|i n|l|l|l]; cbn [negate]; try exact I.
  - destruct (checked_int _) as [w|] eqn:Ec; [|exact I].
    apply checked_int_some in Ec. destruct Ec as [z' [Hz ->]].
    rewrite <- encode_int. rewrite (decode_encode (VInt z') Hz). apply nr_same. reflexivity.
  - destruct (get_float_ok h l Hv) as [x Hx]. rewrite (get_float_eq _ _ _ Hx). cbn [bind h_alloc].
    apply nr_float.
Qed.

(** * Builtins *)

Section BuiltinSpec.
  Variable orc : oracle.
  Variable h : heap.
  Variable g : gc.
  Hypothesis Hi : HeapInv h g.

  Lemma arr_elems_ok : forall l vs, PM.find l (cells h) = Some (true, OArr vs) -> oks h vs.
  Proof.
    intros l vs Hf v Hin.
    assert (Hm : managed g l).
    { apply (hi_am h g Hi). unfold h_alive. rewrite Hf. reflexivity. }
    eapply (inv_elems_ok h g (hi_gc h g Hi)); eassumption.
  Qed.

  Lemma show_val_no_fault : forall fuel v, val_ok h v = true -> forall f, show_val orc fuel h v <> Fault f.
  Proof.
    induction fuel as [|fuel IH]; intros v Hv f; [discriminate|].
    destruct v as [|x|z|i n|l|l|l]; cbn [show_val]; try discriminate.
    - destruct (get_float_ok h l Hv) as [x Hx]. rewrite (get_float_eq _ _ _ Hx). discriminate.
    - destruct (get_str_ok h l Hv) as [x Hx]. rewrite (get_str_eq _ _ _ Hx). discriminate.
    - destruct (get_arr_ok' h l Hv) as [vs Hx]. rewrite (get_arr_eq _ _ _ Hx). cbn [bind].
      pose proof (arr_elems_ok l vs Hx) as Hel.
      match goal with |- bind (?go vs true) _ <> _ => 
        assert (Hgo : forall ws first, oks h ws -> forall f', go ws first <> Fault f') end.
      { induction ws as [|w ws IHws]; intros first Hws f'; [discriminate|].
        cbn beta iota. 
        destruct (show_val orc fuel h w) as [t| | |] eqn:Ew; cbn [bind]; try discriminate.
        - specialize (IHws false (fun x Hx' => Hws x (or_intror Hx')) f').
          match goal with |- bind ?e _ <> _ => destruct e eqn:Er end; cbn [bind]; try discriminate.
          exact IHws.
        - exfalso. exact (IH w (Hws w (or_introl eq_refl)) _ Ew). }
      specialize (Hgo vs true Hel f).
      match goal with |- bind ?e _ <> _ => destruct e eqn:Er end; cbn [bind]; try discriminate.
      exact Hgo.
  Qed.

  Lemma display_no_fault : forall v, val_ok h v = true -> forall f, display orc h v <> Fault f.
  Proof. intros v Hv f. apply show_val_no_fault. exact Hv. Qed.

  Lemma fill_no_fault : forall args rest, oks h args -> forall f, fill orc h rest args <> Fault f.
  Proof.
    induction args as [|a more IH]; intros rest Hok f; [discriminate|].
    cbn [fill]. destruct (find_placeholder rest) as [[before after]|]; [|discriminate].
    destruct (display orc h a) as [t| | |] eqn:Ed; cbn [bind]; try discriminate.
    - specialize (IH after (fun x Hx => Hok x (or_intror Hx)) f).
      destruct (fill orc h after more); cbn [bind]; try discriminate. exact IH.
    - exfalso. exact (display_no_fault a (Hok a (or_introl eq_refl)) _ Ed).
  Qed.

  Lemma call_print_no_fault : forall args, oks h args -> forall f, call_print orc h args <> Fault f.
  Proof.
    intros [|a0 rest] Hok f; cbn [call_print]; [discriminate|].
    destruct (display orc h a0) as [t| | |] eqn:Ed; cbn [bind]; try discriminate.
    - pose proof (fill_no_fault rest t (fun x Hx => Hok x (or_intror Hx)) f) as Hf.
      destruct (fill orc h t rest); cbn [bind]; try discriminate. exact Hf.
    - exfalso. exact (display_no_fault a0 (Hok a0 (or_introl eq_refl)) _ Ed).
  Qed.

  Lemma alloc_str_eq : forall s, alloc_str h s = (VStr (next_loc h), snd (h_alloc h (OStr s))).
  Proof. reflexivity. Qed.
  Lemma alloc_float_eq : forall x, alloc_float h x = (VFloat (next_loc h), snd (h_alloc h (OFloat x))).
  Proof. reflexivity. Qed.

  Definition res_spec (r : outcome (val * heap)) : Prop :=
    match r with Ok r => new_res h r | Fault f => non_heap_fault f | _ => True end.

  Ltac one_arg_tac args Hok a Ha :=
    destruct args as [|a [|? ?]]; cbn [one_arg]; try exact I;
    pose proof (Hok a (or_introl eq_refl)) as Ha.

  Lemma ranged_spec : forall z, res_spec (ranged_int h z).
  Proof. intros z. unfold ranged_int. destruct (in_int_range z); [apply nr_same; reflexivity|exact I]. Qed.

  Lemma call_type_spec : forall args, oks h args -> res_spec (call_type h args).
  Proof.
    intros args Hok. unfold call_type. one_arg_tac args Hok a Ha.
    rewrite alloc_str_eq. apply nr_str.
  Qed.

  Lemma call_string_spec : forall args, oks h args -> res_spec (call_string orc h args).
  Proof.
    intros args Hok. unfold call_string. one_arg_tac args Hok a Ha.
    destruct a as [|x|z|i n|l|l|l]; try exact I; try (rewrite alloc_str_eq; apply nr_str).
    - destruct (get_float_ok h l Ha) as [x Hx]. rewrite (get_float_eq _ _ _ Hx). cbn [bind].
      rewrite alloc_str_eq. apply nr_str.
    - apply nr_same. exact Ha.
  Qed.

  Lemma call_bool_spec : forall args, oks h args -> res_spec (call_bool h args).
  Proof.
    intros args Hok. unfold call_bool. one_arg_tac args Hok a Ha.
    destruct a as [|x|z|i n|l|l|l]; try exact I; try (apply nr_same; reflexivity).
    - destruct (get_float_ok h l Ha) as [x Hx]. rewrite (get_float_eq _ _ _ Hx). apply nr_same; reflexivity.
    - destruct (get_str_ok h l Ha) as [x Hx]. rewrite (get_str_eq _ _ _ Hx). apply nr_same; reflexivity.
    - destruct (get_arr_ok' h l Ha) as [x Hx]. rewrite (get_arr_eq _ _ _ Hx). apply nr_same; reflexivity.
  Qed.

  Lemma call_int_spec : forall args, oks h args -> res_spec (call_int h args).
  Proof.
    intros args Hok. unfold call_int. one_arg_tac args Hok a Ha.
    destruct a as [|x|z|i n|l|l|l]; try exact I; try apply ranged_spec; try (apply nr_same; reflexivity).
    - destruct (get_float_ok h l Ha) as [x Hx]. rewrite (get_float_eq _ _ _ Hx). apply ranged_spec.
    - destruct (get_str_ok h l Ha) as [x Hx]. rewrite (get_str_eq _ _ _ Hx). cbn [bind].
      destruct (parse_isize (trim x)); [apply ranged_spec|exact I].
  Qed.

  Lemma call_float_spec : forall args, oks h args -> res_spec (call_float orc h args).
  Proof.
    intros args Hok. unfold call_float. one_arg_tac args Hok a Ha.
    destruct a as [|x|z|i n|l|l|l]; try exact I; try (rewrite alloc_float_eq; apply nr_float).
    - apply nr_same. exact Ha.
    - destruct (get_str_ok h l Ha) as [x Hx]. rewrite (get_str_eq _ _ _ Hx). cbn [bind].
      destruct (parse_float orc x); [rewrite alloc_float_eq; apply nr_float|exact I].
  Qed.

  Lemma call_length_spec : forall args, oks h args -> res_spec (call_length h args).
  Proof.
    intros args Hok. unfold call_length. one_arg_tac args Hok a Ha.
    destruct a as [|x|z|i n|l|l|l]; try exact I.
    - destruct (get_str_ok h l Ha) as [x Hx]. rewrite (get_str_eq _ _ _ Hx). apply nr_same; reflexivity.
    - destruct (get_arr_ok' h l Ha) as [x Hx]. rewrite (get_arr_eq _ _ _ Hx). apply nr_same; reflexivity.
  Qed.

  Theorem call_builtin_spec : forall bi args, oks h args ->
    match call_builtin orc bi h args with
    | Ok (r, printed) => new_res h r
    | Fault f => non_heap_fault f
    | _ => True
    end.
  Proof.
    intros bi args Hok. destruct bi; cbn [call_builtin].
    - pose proof (call_print_no_fault args Hok) as Hp.
      destruct (call_print orc h args) as [t| |f|]; cbn [bind]; try exact I.
      + apply nr_same. reflexivity.
      + exfalso. exact (Hp f eq_refl).
    - pose proof (call_type_spec args Hok) as H. destruct (call_type h args) as [r| | |]; exact H.
    - pose proof (call_bool_spec args Hok) as H. destruct (call_bool h args) as [r| | |]; exact H.
    - pose proof (call_float_spec args Hok) as H. destruct (call_float orc h args) as [r| | |]; exact H.
    - pose proof (call_int_spec args Hok) as H. destruct (call_int h args) as [r| | |]; exact H.
    - pose proof (call_string_spec args Hok) as H. destruct (call_string orc h args) as [r| | |]; exact H.
    - pose proof (call_length_spec args Hok) as H. destruct (call_length h args) as [r| | |]; exact H.
  Qed.
End BuiltinSpec.

(* roots that only differ in non-heap values and order reach the same boxes *)
Lemma reach_incl_heap : forall h r1 r2 l,
  (forall v k, In v r1 -> val_loc v = Some k -> In v r2) -> reach h r1 l -> reach h r2 l.
Proof.
  intros h r1 r2 l Hi Hr. induction Hr as [v l Hin Hl | la a vs v l Hr IH Hf Hin Hl].
  - eapply reach_root; [eapply Hi; eassumption|exact Hl].
  - eapply reach_elem; eassumption.
Qed.
