(* VMGCLedger.v - heap-level half of the lifting of C03 / C04 to the VM: the invariant relating a
   heap (with its ledger) to the collector that manages it, and its preservation by allocation,
   in-place update, collection; counting alive boxes.  Used by VMGCProofs.v. *)
From NL.Spec Require Import VMInv.
From NL.Proofs Require Import GCListLemmas GCProofs.
From Coq Require Import Permutation Lia SetoidList.
Open Scope Z_scope.

(** * The heap/collector invariant (ledger in the form used by the proofs) *)

Record HeapInv (h : heap) (g : gc) : Prop := {
  hi_gc : GCInv h g;
  hi_am : forall l, h_alive h l = true -> managed g l;
  hi_fresh : forall l, (next_loc h <= l)%positive -> PM.find l (cells h) = None;
  hi_next : Zpos (next_loc h) = n_alloc h + 1;
  hi_ledger : n_alloc h - n_freed h = Z.of_nat (length (objects g))
}.

Definition oks (h : heap) (vs : list val) : Prop := forall v, In v vs -> val_ok h v = true.

Lemma oks_nil : forall h, oks h [].
Proof. intros h v []. Qed.

Lemma oks_cons : forall h v vs, val_ok h v = true -> oks h vs -> oks h (v :: vs).
Proof. intros h v vs Hv Hvs x [<-|Hx]; [exact Hv|apply Hvs; exact Hx]. Qed.

Lemma oks_app : forall h a b, oks h a -> oks h b -> oks h (a ++ b).
Proof. intros h a b Ha Hb v Hin. apply in_app_or in Hin. destruct Hin; [apply Ha|apply Hb]; assumption. Qed.

Lemma oks_incl : forall h a b, incl a b -> oks h b -> oks h a.
Proof. intros h a b Hi Hb v Hin. apply Hb, Hi, Hin. Qed.

Lemma ok_managed : forall h g v l, HeapInv h g -> val_ok h v = true -> val_loc v = Some l -> managed g l.
Proof. intros h g v l Hi Hok Hl. apply (hi_am h g Hi). eapply val_ok_alive; eassumption. Qed.

Lemma oks_roots_managed : forall h g vs, HeapInv h g -> oks h vs -> roots_managed g vs.
Proof. intros h g vs Hi Hok v l Hin Hl. eapply ok_managed; [exact Hi|apply Hok; exact Hin|exact Hl]. Qed.

Lemma managed_alive : forall h g l, GCInv h g -> managed g l -> h_alive h l = true.
Proof.
  intros h g l Hg [v [Hin Hl]]. eapply val_ok_alive; [apply (inv_ok h g Hg v Hin)|exact Hl].
Qed.

Lemma alive_not_none : forall h l, h_alive h l = true -> PM.find l (cells h) <> None.
Proof. intros h l H. destruct (h_alive_find h l H) as [o Ho]. rewrite Ho. discriminate. Qed.

Lemma fresh_not_alive : forall h g, HeapInv h g -> h_alive h (next_loc h) = false.
Proof.
  intros h g Hi. unfold h_alive. rewrite (hi_fresh h g Hi (next_loc h)); [reflexivity|apply Pos.le_refl].
Qed.

Lemma fresh_not_managed : forall h g, HeapInv h g -> ~ managed g (next_loc h).
Proof.
  intros h g Hi Hm. pose proof (managed_alive h g _ (hi_gc h g Hi) Hm) as Ha.
  rewrite (fresh_not_alive h g Hi) in Ha. discriminate.
Qed.

Lemma val_ok_find : forall h v l, val_ok h v = true -> val_loc v = Some l ->
  exists o, PM.find l (cells h) = Some (true, o).
Proof. intros h v l Hok Hl. apply h_alive_find. eapply val_ok_alive; eassumption. Qed.

(** * The empty heap *)

Lemma heapinv_empty : HeapInv empty_heap gc_new.
Proof.
  constructor.
  - constructor; simpl.
    + intros v [].
    + constructor.
    + intros v [].
    + intros la a vs v l [x [[] _]].
    + intros la a vs v [x [[] _]].
  - intros l H. unfold h_alive, empty_heap in H. simpl in H. rewrite PM.gempty in H. discriminate.
  - intros l _. simpl. apply PM.gempty.
  - reflexivity.
  - reflexivity.
Qed.

(** * Allocation *)

Lemma NoDup_app_intro : forall A (a b : list A), NoDup a -> NoDup b ->
  (forall x, In x a -> In x b -> False) -> NoDup (a ++ b).
Proof.
  induction a as [|x a IH]; intros b Ha Hb Hd; simpl; [exact Hb|].
  inversion Ha as [|y ys Hnin Ha']; subst. constructor.
  - intros Hin. apply in_app_or in Hin. destruct Hin as [Hin|Hin]; [exact (Hnin Hin)|].
    exact (Hd x (or_introl eq_refl) Hin).
  - apply IH; [exact Ha'|exact Hb|]. intros z Hz Hzb. exact (Hd z (or_intror Hz) Hzb).
Qed.

Definition tagged (o : obj) (l : positive) : val :=
  match o with OFloat _ => VFloat l | OStr _ => VStr l | OArr _ => VArr l end.

Definition obj_ok (h : heap) (o : obj) : Prop :=
  match o with OArr vs => oks h vs | _ => True end.

Lemma tagged_loc : forall o l, val_loc (tagged o l) = Some l.
Proof. intros [f|s|vs] l; reflexivity. Qed.

Lemma val_ok_tagged : forall h o l, PM.find l (cells h) = Some (true, o) -> val_ok h (tagged o l) = true.
Proof. intros h o l H. destruct o; cbn [tagged val_ok]; rewrite H; reflexivity. Qed.

Lemma managed_trace : forall g v l, managed (trace g v) l <-> managed g l \/ val_loc v = Some l.
Proof.
  intros g v l. unfold managed, trace. simpl. split.
  - intros [x [Hin Hl]]. apply in_app_or in Hin. destruct Hin as [Hin|[<-|[]]].
    + left. exists x. split; assumption.
    + right. exact Hl.
  - intros [[x [Hin Hl]]|Hl].
    + exists x. split; [apply in_or_app; left; exact Hin|exact Hl].
    + exists v. split; [apply in_or_app; right; left; reflexivity|exact Hl].
Qed.

Lemma alloc_find_other : forall h o l, l <> next_loc h ->
  PM.find l (cells (snd (h_alloc h o))) = PM.find l (cells h).
Proof. intros h o l Hne. simpl. apply PM.gso. exact Hne. Qed.

Lemma alloc_find_new : forall h o,
  PM.find (next_loc h) (cells (snd (h_alloc h o))) = Some (true, o).
Proof. intros h o. simpl. apply PM.gss. Qed.

Lemma alloc_ok_mono : forall h g o v, HeapInv h g -> val_ok h v = true ->
  val_ok (snd (h_alloc h o)) v = true.
Proof.
  intros h g o v Hi Hok. rewrite <- Hok. apply val_ok_cells_eq. intros l Hl.
  apply alloc_find_other. intros ->.
  pose proof (val_ok_alive h v _ Hok Hl) as Ha. rewrite (fresh_not_alive h g Hi) in Ha. discriminate.
Qed.

Lemma alloc_inv : forall h g o, HeapInv h g -> obj_ok h o ->
  HeapInv (snd (h_alloc h o)) (trace g (tagged o (next_loc h)))
  /\ val_ok (snd (h_alloc h o)) (tagged o (next_loc h)) = true.
Proof.
  intros h g o Hi Hobj.
  set (l := next_loc h). set (h' := snd (h_alloc h o)).
  pose proof (hi_gc h g Hi) as Hg.
  assert (Hnew : PM.find l (cells h') = Some (true, o)) by apply alloc_find_new.
  assert (Hoth : forall k, k <> l -> PM.find k (cells h') = PM.find k (cells h))
    by (intros k Hk; apply alloc_find_other; exact Hk).
  assert (Hmne : forall k, managed g k -> k <> l).
  { intros k Hm ->. exact (fresh_not_managed h g Hi Hm). }
  assert (Hoknew : val_ok h' (tagged o l) = true).
  { apply val_ok_tagged. exact Hnew. }
  assert (Hmono : forall v, val_ok h v = true -> val_ok h' v = true)
    by (intros v Hv; apply (alloc_ok_mono h g o v Hi Hv)).
  assert (Helems : forall la a vs v, managed (trace g (tagged o l)) la ->
            PM.find la (cells h') = Some (a, OArr vs) -> In v vs -> val_ok h' v = true).
  { intros la a vs v Hm Hf Hin. apply managed_trace in Hm. destruct Hm as [Hm|Hm].
    - rewrite (Hoth la (Hmne la Hm)) in Hf. apply Hmono.
      eapply (inv_elems_ok h g Hg); eassumption.
    - rewrite tagged_loc in Hm. inversion Hm; subst la. rewrite Hnew in Hf. inversion Hf; subst o.
      apply Hmono. apply Hobj. exact Hin. }
  assert (Ham : forall k, h_alive h' k = true -> managed (trace g (tagged o l)) k).
  { intros k Hk. apply managed_trace. destruct (Pos.eq_dec k l) as [->|Hne].
    - right. apply tagged_loc.
    - left. apply (hi_am h g Hi). unfold h_alive in *. rewrite (Hoth k Hne) in Hk. exact Hk. }
  split; [|exact Hoknew].
  constructor.
  - constructor.
    + intros v Hin. unfold trace in Hin; simpl in Hin. apply in_app_or in Hin.
      destruct Hin as [Hin|[<-|[]]]; [apply (inv_heap_vals h g Hg v Hin)|].
      unfold is_heap_val. rewrite tagged_loc. reflexivity.
    + unfold trace; simpl. rewrite map_app. simpl. rewrite tagged_loc.
      apply NoDup_app_intro.
      * apply (inv_nodup h g Hg).
      * constructor; [intros []|constructor].
      * intros x Hx [<-|[]]. apply managed_iff in Hx. exact (fresh_not_managed h g Hi Hx).
    + intros v Hin. unfold trace in Hin; simpl in Hin. apply in_app_or in Hin.
      destruct Hin as [Hin|[<-|[]]]; [|exact Hoknew].
      apply Hmono. apply (inv_ok h g Hg v Hin).
    + intros la a vs v k Hm Hf Hin Hk. apply Ham.
      eapply val_ok_alive; [eapply Helems; eassumption|exact Hk].
    + exact Helems.
  - exact Ham.
  - intros k Hk. simpl in Hk. simpl. rewrite PM.gso.
    + apply (hi_fresh h g Hi). apply Pos.le_trans with (Pos.succ (next_loc h)); [|exact Hk].
      apply Pos.lt_le_incl, Pos.lt_succ_diag_r.
    + intros ->. apply Pos.le_succ_l in Hk. exact (Pos.lt_irrefl _ Hk).
  - simpl. rewrite Pos2Z.inj_succ. pose proof (hi_next h g Hi). lia.
  - unfold trace; simpl. rewrite app_length. simpl. pose proof (hi_ledger h g Hi).
    rewrite Nat2Z.inj_add. simpl. lia.
Qed.

(** * In-place update of a box by an object of the same kind *)

Definition same_kind (o o' : obj) : bool :=
  match o, o' with
  | OFloat _, OFloat _ | OStr _, OStr _ | OArr _, OArr _ => true
  | _, _ => false
  end.

Lemma h_set_ok : forall h l o0 o, PM.find l (cells h) = Some (true, o0) ->
  h_set h l o = Ok (mkHeap (PM.add l (true, o) (cells h)) (next_loc h) (n_alloc h) (n_freed h)).
Proof. intros h l o0 o H. unfold h_set. rewrite H. reflexivity. Qed.

Lemma set_ok_eq : forall h l o0 o v, PM.find l (cells h) = Some (true, o0) -> same_kind o0 o = true ->
  val_ok (mkHeap (PM.add l (true, o) (cells h)) (next_loc h) (n_alloc h) (n_freed h)) v = val_ok h v.
Proof.
  intros h l o0 o v Hf Hk.
  destruct v as [| | | |k|k|k]; try reflexivity; cbn [val_ok cells];
    (destruct (Pos.eq_dec k l) as [->|Hne];
     [rewrite PM.gss, Hf; destruct o0, o; try discriminate Hk; reflexivity
     |rewrite PM.gso by exact Hne; reflexivity]).
Qed.

Lemma set_inv : forall h g l o0 o, HeapInv h g -> PM.find l (cells h) = Some (true, o0) ->
  same_kind o0 o = true -> obj_ok h o ->
  HeapInv (mkHeap (PM.add l (true, o) (cells h)) (next_loc h) (n_alloc h) (n_freed h)) g.
Proof.
  intros h g l o0 o Hi Hf Hk Hobj.
  set (h' := mkHeap (PM.add l (true, o) (cells h)) (next_loc h) (n_alloc h) (n_freed h)).
  pose proof (hi_gc h g Hi) as Hg.
  assert (Heq : forall v, val_ok h' v = val_ok h v) by (intros v; apply (set_ok_eq h l o0 o v Hf Hk)).
  assert (Hal : forall k, h_alive h' k = h_alive h k).
  { intros k. unfold h_alive, h'. cbn [cells]. destruct (Pos.eq_dec k l) as [->|Hne].
    - rewrite PM.gss, Hf. reflexivity.
    - rewrite PM.gso by exact Hne. reflexivity. }
  assert (Helems : forall la a vs v, managed g la ->
            PM.find la (cells h') = Some (a, OArr vs) -> In v vs -> val_ok h' v = true).
  { intros la a vs v Hm Hfa Hin. rewrite Heq. unfold h' in Hfa. cbn [cells] in Hfa.
    destruct (Pos.eq_dec la l) as [->|Hne].
    - rewrite PM.gss in Hfa. inversion Hfa; subst o. apply Hobj. exact Hin.
    - rewrite PM.gso in Hfa by exact Hne. eapply (inv_elems_ok h g Hg); eassumption. }
  constructor.
  - constructor.
    + apply (inv_heap_vals h g Hg).
    + apply (inv_nodup h g Hg).
    + intros v Hin. rewrite Heq. apply (inv_ok h g Hg v Hin).
    + intros la a vs v k Hm Hfa Hin Hk'. apply (hi_am h g Hi). rewrite <- Hal.
      eapply val_ok_alive; [eapply Helems; eassumption|exact Hk'].
    + exact Helems.
  - intros k Hk'. rewrite Hal in Hk'. apply (hi_am h g Hi k Hk').
  - intros k Hk'. unfold h' in *. cbn [cells next_loc] in *. rewrite PM.gso.
    + apply (hi_fresh h g Hi k Hk').
    + intros ->. rewrite (hi_fresh h g Hi l Hk') in Hf. discriminate.
  - exact (hi_next h g Hi).
  - exact (hi_ledger h g Hi).
Qed.

(** * Reachability: monotone in the roots, insensitive to cells outside the reachable part *)

Lemma reach_incl : forall h r1 r2 l, incl r1 r2 -> reach h r1 l -> reach h r2 l.
Proof.
  intros h r1 r2 l Hi Hr. induction Hr as [v l Hin Hl | la a vs v l Hr IH Hf Hin Hl].
  - eapply reach_root; [apply Hi; exact Hin|exact Hl].
  - eapply reach_elem; eassumption.
Qed.

Lemma reach_same_cells : forall h h' r,
  (forall l, reach h r l -> PM.find l (cells h') = PM.find l (cells h)) ->
  forall l, reach h r l <-> reach h' r l.
Proof.
  intros h h' r Hsame l. split.
  - intros Hr. induction Hr as [v l Hin Hl | la a vs v l Hr IH Hf Hin Hl].
    + eapply reach_root; eassumption.
    + eapply reach_elem; [exact IH| |exact Hin|exact Hl]. rewrite (Hsame la Hr). exact Hf.
  - intros Hr. induction Hr as [v l Hin Hl | la a vs v l Hr IH Hf Hin Hl].
    + eapply reach_root; eassumption.
    + eapply reach_elem; [exact IH| |exact Hin|exact Hl]. rewrite <- (Hsame la IH). exact Hf.
Qed.

(** * Collection *)

Lemma free_all_next_loc : forall vs h h', free_all h vs = Ok h' -> next_loc h' = next_loc h.
Proof.
  intros vs h h' H. unfold free_all in H.
  apply (foldM_inv free_val (fun hh => next_loc hh = next_loc h) vs) in H; [exact H| |reflexivity].
  intros a v a' _ Ha Hf. rewrite <- Ha. unfold free_val in Hf.
  destruct (val_loc v) as [l|]; [|inversion Hf; reflexivity].
  unfold h_free in Hf. destruct (PM.find l (cells a)) as [[[|] o]|]; try discriminate.
  inversion Hf; reflexivity.
Qed.

Lemma run_next_loc : forall h g roots g' h', GCInv h g -> gc_run h g roots = Ok (g', h') ->
  next_loc h' = next_loc h.
Proof.
  intros h g roots g' h' Hg Hrun. rewrite gc_run_unfold in Hrun.
  destruct (objects g) as [|o0 os] eqn:Eobjs; [inversion Hrun; reflexivity|].
  rewrite <- Eobjs in Hrun. clear Eobjs o0 os.
  destruct (mark_phase h g roots) as [bits| | |] eqn:Emark; simpl in Hrun; try discriminate.
  pose proof (mark_phase_length h g Hg roots bits Emark) as Hlen.
  destruct (sweep_eq h (objects g) bits Hlen) as [objs' [_ Hs]]. rewrite Hs in Hrun.
  destruct (free_all h (dead_rev (objects g) bits)) as [h1| | |] eqn:Efree; simpl in Hrun; try discriminate.
  inversion Hrun; subst. eapply free_all_next_loc; exact Efree.
Qed.

Lemma managed_dec : forall g l, {managed g l} + {~ managed g l}.
Proof.
  intros g l.
  destruct (in_dec (fun a b : option positive => ltac:(decide equality; apply Pos.eq_dec))
                   (Some l) (map val_loc (objects g))) as [Hi|Hni].
  - left. apply managed_iff. exact Hi.
  - right. intros Hm. apply Hni. apply managed_iff. exact Hm.
Qed.

Theorem run_inv : forall h g roots g' h', HeapInv h g -> oks h roots -> gc_run h g roots = Ok (g', h') ->
  HeapInv h' g'
  /\ (forall l, reach h roots l -> PM.find l (cells h') = PM.find l (cells h) /\ h_alive h' l = true)
  /\ (forall v, In v roots -> val_ok h' v = true)
  /\ (forall l, managed g' l <-> reach h roots l)
  /\ (forall l, h_alive h' l = true <-> reach h roots l).
Proof.
  intros h g roots g' h' Hi Hok Hrun.
  pose proof (hi_gc h g Hi) as Hg.
  pose proof (oks_roots_managed h g roots Hi Hok) as Hrm.
  assert (Hro : roots_ok h roots) by exact Hok.
  pose proof (run_preserves_reachable h g roots g' h' Hg Hrm Hro Hrun) as Hpres.
  pose proof (run_collects h g roots g' h' Hg Hrm Hro Hrun) as Hcol.
  pose proof (run_keeps_invariant h g roots g' h' Hg Hrm Hro Hrun) as Hg'.
  pose proof (run_leaves_unmanaged h g roots g' h' Hg Hrm Hrun) as Hunm.
  destruct (run_frees_garbage_once h g roots g' h' Hg Hrm Hrun) as [Hfreed [Hnf Hna]].
  pose proof (run_next_loc h g roots g' h' Hg Hrun) as Hnl.
  assert (Hman : forall l, managed g' l <-> reach h roots l).
  { intros l. split.
    - intros [v [Hin Hl]]. apply Hcol in Hin. destruct Hin as [_ [l0 [Hl0 Hr]]].
      rewrite Hl in Hl0. inversion Hl0; subst. exact Hr.
    - intros Hr. destruct (reach_managed h g Hg roots Hrm l Hr) as [v [Hin Hl]].
      exists v. split; [|exact Hl]. apply Hcol. split; [exact Hin|]. exists l. split; assumption. }
  assert (Ham : forall l, h_alive h' l = true -> managed g' l).
  { intros l Ha. destruct (managed_dec g l) as [Hm|Hnm].
    - destruct Hm as [v [Hin Hl]].
      destruct (in_dec val_eq_dec v (objects g')) as [Hin'|Hnin'].
      + exists v. split; assumption.
      + exfalso. assert (Hnr : ~ reach h roots l).
        { intros Hr. apply Hnin'. apply Hcol. split; [exact Hin|]. exists l; split; assumption. }
        rewrite (Hfreed l (ex_intro _ v (conj Hin Hl)) Hnr) in Ha. discriminate.
    - exfalso. apply Hnm. apply (hi_am h g Hi). unfold h_alive in *. rewrite <- (Hunm l Hnm). exact Ha. }
  split; [|split; [exact Hpres|split; [|split; [exact Hman|]]]].
  - constructor.
    + exact Hg'.
    + exact Ham.
    + intros l Hl. rewrite Hnl in Hl. rewrite Hunm.
      * apply (hi_fresh h g Hi l Hl).
      * intros Hm. apply (managed_alive h g l Hg) in Hm. apply alive_not_none in Hm.
        apply Hm. apply (hi_fresh h g Hi l Hl).
    + rewrite Hnl, Hna. exact (hi_next h g Hi).
    + pose proof (hi_ledger h g Hi). rewrite Hna, Hnf. lia.
  - intros v Hin. rewrite (val_ok_cells_eq h h' v); [apply Hok; exact Hin|].
    intros l Hl. apply (Hpres l). eapply reach_root; eassumption.
  - intros l. split.
    + intros Ha. apply Hman. apply Ham. exact Ha.
    + intros Hr. apply (Hpres l Hr).
Qed.

Lemma run_succeeds : forall h g roots, HeapInv h g -> oks h roots ->
  exists g' h', gc_run h g roots = Ok (g', h').
Proof.
  intros h g roots Hi Hok. apply run_no_fault; [exact (hi_gc h g Hi)| |exact Hok].
  eapply oks_roots_managed; eassumption.
Qed.

(** * Dropping a collector whose set is not closed any more (after untrace) *)

Definition holds (objs : list val) (l : positive) : Prop := exists v, In v objs /\ val_loc v = Some l.

Lemma destroy_weak : forall h objs bm,
  (forall v, In v objs -> is_heap_val v = true) -> NoDup (map val_loc objs) -> oks h objs ->
  exists g' h', gc_destroy h (mkGC objs bm) = Ok (g', h')
    /\ (forall l, holds objs l -> h_alive h' l = false)
    /\ (forall l, ~ holds objs l -> PM.find l (cells h') = PM.find l (cells h))
    /\ n_freed h' = n_freed h + Z.of_nat (length objs)
    /\ n_alloc h' = n_alloc h.
Proof.
  intros h objs bm Hhv Hnd Hok.
  set (bits := repeat_val false (length objs)).
  assert (Hlen : length bits = length objs) by apply repeat_val_length.
  destruct (sweep_eq h objs bits Hlen) as [objs' [Hp Hs]].
  pose proof (keep_dead_perm val objs bits Hlen) as Hkd.
  unfold bits in Hkd, Hp. rewrite keep_all_false in Hkd, Hp. simpl in Hkd. fold bits in Hkd.
  assert (Hnd' : NoDup (map val_loc (dead_rev objs bits))).
  { eapply Permutation_NoDup; [apply Permutation_map, Permutation_sym, Hkd|exact Hnd]. }
  assert (Hal : forall v, In v (dead_rev objs bits) -> exists l, val_loc v = Some l /\ h_alive h l = true).
  { intros v Hin. apply (Permutation_in _ Hkd) in Hin.
    pose proof (Hhv v Hin) as Hv. unfold is_heap_val in Hv.
    destruct (val_loc v) as [l|] eqn:El; [|discriminate].
    exists l. split; [reflexivity|]. eapply val_ok_alive; [apply Hok; exact Hin|exact El]. }
  destruct (free_all_spec _ h Hnd' Hal) as [h' [Hf [Hn [Hna [Hdead Hsame]]]]].
  unfold gc_destroy. cbn [objects]. fold bits. rewrite Hs, Hf. cbn [bind].
  eexists; exists h'. split; [reflexivity|]. split; [|split; [|split]].
  - intros l [v [Hin Hl]]. apply Hdead. rewrite <- Hl. apply in_map.
    apply (Permutation_in _ (Permutation_sym Hkd)). exact Hin.
  - intros l Hnh. apply Hsame. intros Hin. apply in_map_iff in Hin. destruct Hin as [v [Hl Hin]].
    apply Hnh. exists v. split; [apply (Permutation_in _ Hkd); exact Hin|exact Hl].
  - rewrite Hn. rewrite (Permutation_length Hkd). reflexivity.
  - exact Hna.
Qed.

(** * untrace, with the direction that untrace_spec leaves classical: what it removes is reachable *)

Theorem untrace_strong : forall h g o, GCInv h g -> roots_managed g [o] -> roots_ok h [o] ->
  exists g', untrace h g o = Ok g'
    /\ NoDup (map val_loc (objects g'))
    /\ incl (objects g') (objects g)
    /\ (forall v l, In v (objects g') -> val_loc v = Some l -> ~ reach h [o] l)
    /\ (forall v l, In v (objects g) -> ~ In v (objects g') -> val_loc v = Some l -> reach h [o] l).
Proof.
  intros h g o Hinv Hrm Hro.
  assert (Hok : val_ok h o = true) by (apply Hro; left; reflexivity).
  assert (Hsub : sub g (objects g)) by (split; [apply (inv_nodup h g Hinv)|apply incl_refl]).
  destruct (untrace_spec h g o Hinv Hrm Hro) as [g' [Hg' [Hnd Hiff]]].
  exists g'. split; [exact Hg'|]. split; [exact Hnd|].
  unfold untrace in Hg'.
  destruct (untrace_fuel_spec h g Hinv (reach h [o]) (reach_elem h [o]) _ g o g' Hsub Hok Hg')
    as [_ [_ [Hsound _]]].
  split; [|split].
  - intros v Hin. apply Hiff in Hin. exact (proj1 Hin).
  - intros v l Hin Hl. apply Hiff in Hin. exact (proj2 Hin l Hl).
  - intros v l Hin Hnin Hl.
    apply (Hsound (fun l0 Hl0 => reach_root h [o] o l0 (or_introl eq_refl) Hl0) v l Hin Hnin Hl).
Qed.

(** * Counting the boxes that are alive *)

Lemma NoDupA_eqkey_fst : forall (A : Type) (l : list (positive * A)),
  NoDupA (@PM.eq_key A) l -> NoDup (map fst l).
Proof.
  intros A l H. induction H as [|x l Hnin Hnd IH]; simpl; constructor; [|exact IH].
  intros Hin. apply Hnin. apply in_map_iff in Hin. destruct Hin as [y [Hy Hiny]].
  apply InA_alt. exists y. split; [|exact Hiny]. unfold PM.eq_key. symmetry. exact Hy.
Qed.

Lemma NoDup_map_filter : forall (A B : Type) (f : A -> B) (p : A -> bool) (l : list A),
  NoDup (map f l) -> NoDup (map f (filter p l)).
Proof.
  intros A B f p l. induction l as [|x l IH]; simpl; intros H; [constructor|].
  inversion H as [|y ys Hnin Hnd]; subst. destruct (p x); simpl.
  - constructor; [|apply IH; exact Hnd]. intros Hin. apply Hnin.
    apply in_map_iff in Hin. destruct Hin as [z [Hz Hinz]]. apply filter_In in Hinz.
    apply in_map_iff. exists z. split; [exact Hz|exact (proj1 Hinz)].
  - apply IH; exact Hnd.
Qed.

Definition alive_locs (h : heap) : list positive :=
  map fst (filter (fun c : positive * (bool * obj) => fst (snd c)) (PM.elements (cells h))).

Lemma alive_count_locs : forall h, alive_count h = length (alive_locs h).
Proof. intros h. unfold alive_count, alive_locs. rewrite map_length. reflexivity. Qed.

Lemma alive_locs_nodup : forall h, NoDup (alive_locs h).
Proof.
  intros h. unfold alive_locs. apply NoDup_map_filter. apply NoDupA_eqkey_fst. apply PM.elements_3w.
Qed.

Lemma alive_locs_in : forall h l, In l (alive_locs h) <-> h_alive h l = true.
Proof.
  intros h l. unfold alive_locs, h_alive. rewrite in_map_iff. split.
  - intros [[k [a o]] [Hk Hin]]. simpl in Hk. subst k. apply filter_In in Hin. destruct Hin as [Hin Ha].
    simpl in Ha. subst a. apply PM.elements_complete in Hin. rewrite Hin. reflexivity.
  - intros H. destruct (PM.find l (cells h)) as [[[|] o]|] eqn:Ef; try discriminate.
    exists (l, (true, o)). split; [reflexivity|]. apply filter_In. split; [|reflexivity].
    apply PM.elements_correct. exact Ef.
Qed.

(* a duplicate-free list of heap values that covers exactly the alive boxes has their number *)
Lemma alive_count_objs : forall h (objs : list val),
  NoDup (map val_loc objs) -> (forall v, In v objs -> is_heap_val v = true) ->
  (forall l, h_alive h l = true <-> holds objs l) ->
  alive_count h = length objs.
Proof.
  intros h objs Hnd Hhv Hiff. rewrite alive_count_locs.
  rewrite <- (map_length val_loc objs). rewrite <- (map_length (@Some positive) (alive_locs h)).
  apply Permutation_length. apply NoDup_Permutation.
  - apply FinFun.Injective_map_NoDup; [intros a b E; inversion E; reflexivity|apply alive_locs_nodup].
  - exact Hnd.
  - intros x. split.
    + intros Hin. apply in_map_iff in Hin. destruct Hin as [l [<- Hl]].
      apply alive_locs_in in Hl. apply Hiff in Hl. destruct Hl as [v [Hin Hl]].
      rewrite <- Hl. apply in_map. exact Hin.
    + intros Hin. apply in_map_iff in Hin. destruct Hin as [v [Hv Hin]].
      pose proof (Hhv v Hin) as Hh. unfold is_heap_val in Hh.
      destruct (val_loc v) as [l|] eqn:El; [|discriminate]. subst x.
      apply in_map. apply alive_locs_in. apply Hiff. exists v. split; assumption.
Qed.

Lemma heapinv_count : forall h g, HeapInv h g -> alive_count h = length (objects g).
Proof.
  intros h g Hi. pose proof (hi_gc h g Hi) as Hg.
  apply alive_count_objs.
  - apply (inv_nodup h g Hg).
  - apply (inv_heap_vals h g Hg).
  - intros l. split; [apply (hi_am h g Hi)|apply (managed_alive h g l Hg)].
Qed.
