(* CompileCorrectText.v - property C01 stated on SOURCE TEXT: `Pipeline.eval` is the model of lib.rs::eval
   (parse, compile with a fresh compiler, run on a fresh machine).  A corollary of
   CompileCorrectJ9.compile_correct_F4; nothing new is proved about the compiler here. *)
From Coq Require Import ZArith Lia Bool List String.
From NL.Model Require Import Pipeline.
From NL.Spec Require Import Sem Fragment Fragment2 Fragment2h Fragment3 Fragment4.
From NL.Proofs Require CompileCorrectJ5 CompileCorrectJ9.
Open Scope Z_scope.

(* For every source text that parses to a tree outside the exclusions of DESIGN 4.3: evaluating the TEXT on the model of
   the interpreter gives the observation that the definitional semantics assigns to the tree (value graph, output,
   error kind), unless the run hits one of the three excluded run-time events.  A text that does not parse, or whose
   tree the compiler rejects, is a front-end error before anything runs (second theorem). *)
Theorem eval_text_correct : forall u orc src p,
  parse u (parse_float orc) src = Ok p ->
  in_F4 p = true -> ends_expr p = true -> lits_exact (lits_b p) ->
  forall bc, compile p = Ok bc ->
  forall fuel, (size3_b p <= fuel)%nat -> sem_program orc fuel p <> SemFuel ->
  sem_small orc fuel p (length (b_constants bc)) ->
  (exists budget extra o, eval u orc src budget = Ran extra o /\ obs_eq4 o (sem_program orc fuel p)) \/
  hits_excluded4 (CompileCorrectJ5.fun_table p) orc bc.
Proof.
  intros u orc src p Hp HF HE Hl bc Hc fuel Hsz Hnf Hs.
  destruct (CompileCorrectJ9.compile_correct_F4 orc p HF HE Hl bc Hc fuel Hsz Hnf Hs) as [[budget Ho]|Hx]; [left|right; exact Hx].
  unfold compile in Hc. unfold eval. rewrite Hp.
  destruct (compile_ast p compiler_new) as [st r] eqn:E. cbn [snd] in Hc. subst r.
  exists budget. eexists. eexists. split; [reflexivity|exact Ho].
Qed.

Theorem eval_text_front_error : forall u orc src budget,
  (forall p, parse u (parse_float orc) src <> Ok p) \/
  (exists p, parse u (parse_float orc) src = Ok p /\ forall bc, compile p <> Ok bc) ->
  exists r, eval u orc src budget = FrontError r.
Proof.
  intros u orc src budget [Hn|[p [Hp Hc]]]; unfold eval.
  - destruct (parse u (parse_float orc) src) as [a| | |] eqn:E; [exfalso; exact (Hn a eq_refl)| | |]; eexists; reflexivity.
  - rewrite Hp. unfold compile in Hc. destruct (compile_ast p compiler_new) as [st r] eqn:E. cbn [snd] in Hc.
    destruct r as [bc| | |]; [exfalso; exact (Hc bc eq_refl)| | |]; eexists; reflexivity.
Qed.

Print Assumptions eval_text_correct.
Print Assumptions eval_text_front_error.
