(* VMGCProofs.v - properties C03 / C04 lifted from the collector (GCProofs.v) to the whole VM model:
   the machine invariant VMInv (spec/VMInv.v) holds initially and is kept by every instruction,
   no instruction ever touches a released box, the two collection points keep exactly what the
   machine can still reach, and when a run ends - normally, with an error, or aborted at any point -
   every box it allocated has been released exactly once, except the returned result graph.
   Heap-level lemmas are in VMGCLedger.v. *)
From NL.Spec Require Import VMInv.
From NL.Proofs Require Import GCListLemmas GCProofs VMGCLedger.
From NL.Model Require Import Pipeline.
From Coq Require Import Lia.
Open Scope Z_scope.

Record SInv (prog : program) (s : vm) : Prop := {
  si_heap : HeapInv (v_heap s) (v_gc s);
  si_stack : oks (v_heap s) (v_stack s);
  si_globals : oks (v_heap s) (v_globals s);
  si_consts : oks (v_heap s) (p_consts prog);
  si_final : val_ok (v_heap s) (v_final s) = true
}.

Lemma vminv_sinv : forall prog s, VMInv prog s <-> SInv prog s.
Proof.
  intros prog s. split.
  - intros H. destruct H as [Hg Hok Hmg Ham Hfr Hnx Hled].
    constructor.
    + constructor; try assumption.
      unfold h_live_count in Hled. rewrite Hled. f_equal.
      apply alive_count_objs.
      * apply (inv_nodup _ _ Hg).
      * apply (inv_heap_vals _ _ Hg).
      * intros l. split; [apply Ham|apply (managed_alive _ _ l Hg)].
    + intros v Hin. apply Hok. left. exact Hin.
    + intros v Hin. apply Hok. right; left. exact Hin.
    + intros v Hin. apply Hok. right; right; left. exact Hin.
    + apply Hok. right; right; right. reflexivity.
  - intros [Hh Hst Hgl Hco Hfi].
    assert (Hheld : forall v, held prog s v -> val_ok (v_heap s) v = true).
    { intros v [H|[H|[H|H]]]; [apply Hst|apply Hgl|apply Hco|subst v; exact Hfi]; exact H. }
    constructor.
    + exact (hi_gc _ _ Hh).
    + exact Hheld.
    + intros v l Hv Hl. eapply ok_managed; [exact Hh|apply Hheld; exact Hv|exact Hl].
    + exact (hi_am _ _ Hh).
    + exact (hi_fresh _ _ Hh).
    + exact (hi_next _ _ Hh).
    + unfold h_live_count. rewrite (hi_ledger _ _ Hh). f_equal. symmetry. apply heapinv_count. exact Hh.
Qed.

(** * Small list facts *)

Lemma in_replace_nth : forall A n (v : A) l x, In x (replace_nth n v l) -> x = v \/ In x l.
Proof.
  intros A n v l. revert n. induction l as [|y l IH]; intros n x H; destruct n as [|n]; simpl in H;
    try contradiction.
  - destruct H as [<-|H]; [left; reflexivity|right; right; exact H].
  - destruct H as [<-|H]; [right; left; reflexivity|].
    destruct (IH n x H) as [E|E]; [left; exact E|right; right; exact E].
Qed.

Lemma in_repeat_val : forall A (v : A) n x, In x (repeat_val v n) -> x = v.
Proof. intros A v n x. induction n as [|n IH]; simpl; intros H; [contradiction|]. destruct H as [<-|H]; auto. Qed.

Lemma in_skipn : forall A n (l : list A) x, In x (skipn n l) -> In x l.
Proof. intros A n l x H. rewrite <- (firstn_skipn n l). apply in_or_app. right. exact H. Qed.

Lemma oks_replace : forall h n v l, val_ok h v = true -> oks h l -> oks h (replace_nth n v l).
Proof. intros h n v l Hv Hl x Hx. apply in_replace_nth in Hx. destruct Hx as [->|Hx]; [exact Hv|apply Hl; exact Hx]. Qed.

Lemma oks_repeat_null : forall h n, oks h (repeat_val VNull n).
Proof. intros h n x Hx. apply in_repeat_val in Hx. subst x. reflexivity. Qed.

Lemma succ_eqb_false : forall p, (Pos.succ p =? p)%positive = false.
Proof. intros p. apply Pos.eqb_neq. intros E. exact (Pos.succ_discr p (eq_sym E)). Qed.

Lemma nhf : forall f, f <> FUseAfterFree -> f <> FDoubleFree -> f <> FBadTag -> non_heap_fault f.
Proof. intros f a b c. repeat split; assumption. Qed.

Ltac nh := apply nhf; discriminate.

(** * The machine's helpers keep the invariant *)

Section Step.
  Variable orc : oracle.
  Variable prog : program.

  Local Notation SI := (SInv prog).

  (* s' is s with another stack and other control registers *)
  Lemma sinv_restack : forall s st n fr ip bp out, SI s -> oks (v_heap s) st ->
    SI (mkVM st n (v_globals s) fr ip bp (v_final s) (v_heap s) (v_gc s) out).
  Proof. intros s st n fr ip bp out [H1 H2 H3 H4 H5] Hst. constructor; assumption. Qed.

  Lemma sinv_upd_ip : forall s ip, SI s -> SI (upd_ip s ip).
  Proof. intros s ip H. apply sinv_restack; [exact H|apply (si_stack _ _ H)]. Qed.

  Lemma sinv_upd_out : forall s o, SI s -> SI (upd_out s o).
  Proof. intros s o H. apply sinv_restack; [exact H|apply (si_stack _ _ H)]. Qed.

  Lemma sinv_upd_stack : forall s st n, SI s -> oks (v_heap s) st -> SI (upd_stack s st n).
  Proof. intros s st n H Hst. apply sinv_restack; assumption. Qed.

  Lemma push_inv : forall s v, SI s -> val_ok (v_heap s) v = true -> SI (push v s).
  Proof.
    intros s v H Hv. apply sinv_upd_stack; [exact H|]. apply oks_cons; [exact Hv|apply (si_stack _ _ H)].
  Qed.

  Lemma read_u8_inv : forall s b s', SI s -> read_u8 prog s = Ok (b, s') -> SI s' /\ v_heap s' = v_heap s.
  Proof.
    intros s b s' H E. unfold read_u8 in E. destruct (byte_at prog (v_ip s)); [|discriminate].
    inversion E; subst. split; [apply sinv_upd_ip; exact H|reflexivity].
  Qed.

  Lemma read_u8_fault : forall s f, read_u8 prog s = Fault f -> non_heap_fault f.
  Proof.
    intros s f E. unfold read_u8 in E. destruct (byte_at prog (v_ip s)); [discriminate|].
    inversion E. nh.
  Qed.

  Lemma read_u16_inv : forall s b s', SI s -> read_u16 prog s = Ok (b, s') -> SI s' /\ v_heap s' = v_heap s.
  Proof.
    intros s b s' H E. unfold read_u16 in E.
    destruct (byte_at prog (v_ip s)); [|discriminate]. destruct (byte_at prog (v_ip s + 1)); [|discriminate].
    inversion E; subst. split; [apply sinv_upd_ip; exact H|reflexivity].
  Qed.

  Lemma read_u16_fault : forall s f, read_u16 prog s = Fault f -> non_heap_fault f.
  Proof.
    intros s f E. unfold read_u16 in E.
    destruct (byte_at prog (v_ip s)); [|inversion E; nh].
    destruct (byte_at prog (v_ip s + 1)); [discriminate|inversion E; nh].
  Qed.

  Lemma pop_inv : forall s v s', SI s -> pop s = Ok (v, s') ->
    SI s' /\ v_heap s' = v_heap s /\ val_ok (v_heap s) v = true.
  Proof.
    intros s v s' H E. unfold pop in E. destruct (v_stack s) as [|x r] eqn:Es; [discriminate|].
    inversion E; subst. pose proof (si_stack _ _ H) as Hst. rewrite Es in Hst.
    split; [|split; [reflexivity|apply Hst; left; reflexivity]].
    apply sinv_upd_stack; [exact H|]. intros y Hy. apply Hst. right. exact Hy.
  Qed.

  Lemma pop_fault : forall s f, pop s = Fault f -> non_heap_fault f.
  Proof. intros s f E. unfold pop in E. destruct (v_stack s); [inversion E; nh|discriminate]. Qed.

  Lemma pop_n_inv : forall k s acc vs s', SI s -> oks (v_heap s) acc -> pop_n k s acc = Ok (vs, s') ->
    SI s' /\ v_heap s' = v_heap s /\ oks (v_heap s) vs.
  Proof.
    induction k as [|k IH]; intros s acc vs s' H Hacc E; simpl in E.
    - inversion E; subst. split; [exact H|split; [reflexivity|exact Hacc]].
    - destruct (pop s) as [[v s1]| | |] eqn:Ep; simpl in E; try discriminate.
      destruct (pop_inv s v s1 H Ep) as [H1 [Hh Hv]].
      assert (Hacc1 : oks (v_heap s1) (v :: acc)) by (rewrite Hh; apply oks_cons; assumption).
      destruct (IH s1 (v :: acc) vs s' H1 Hacc1 E) as [H' [Hh' Hvs]].
      split; [exact H'|]. split; [congruence|]. rewrite <- Hh. exact Hvs.
  Qed.

  Lemma pop_n_fault : forall k s acc f, pop_n k s acc = Fault f -> non_heap_fault f.
  Proof.
    induction k as [|k IH]; intros s acc f E; simpl in E; [discriminate|].
    destruct (pop s) as [[v s1]| | |] eqn:Ep; simpl in E; try discriminate.
    - eapply IH; exact E.
    - inversion E; subst. eapply pop_fault; exact Ep.
  Qed.

  Lemma get_local_inv : forall s i v, SI s -> get_local i s = Ok v -> val_ok (v_heap s) v = true.
  Proof.
    intros s i v H E. unfold get_local in E. destruct (v_bp s + i <? v_slen s); [|discriminate].
    destruct (nth_error (v_stack s) _) as [x|] eqn:En; [|discriminate]. inversion E; subst.
    apply (si_stack _ _ H). eapply nth_error_In; exact En.
  Qed.

  Lemma get_local_fault : forall s i f, get_local i s = Fault f -> non_heap_fault f.
  Proof.
    intros s i f E. unfold get_local in E. destruct (v_bp s + i <? v_slen s); [|inversion E; nh].
    destruct (nth_error (v_stack s) _); [discriminate|inversion E; nh].
  Qed.

  Lemma set_local_inv : forall s i v s', SI s -> val_ok (v_heap s) v = true -> set_local i v s = Ok s' -> SI s'.
  Proof.
    intros s i v s' H Hv E. unfold set_local in E. destruct (v_bp s + i <? v_slen s); [|discriminate].
    inversion E; subst. apply sinv_upd_stack; [exact H|]. apply oks_replace; [exact Hv|apply (si_stack _ _ H)].
  Qed.

  Lemma set_local_fault : forall s i v f, set_local i v s = Fault f -> non_heap_fault f.
  Proof.
    intros s i v f E. unfold set_local in E. destruct (v_bp s + i <? v_slen s); [discriminate|inversion E; nh].
  Qed.

  Lemma get_const_inv : forall s i v, SI s -> get_const prog i = Ok v -> val_ok (v_heap s) v = true.
  Proof.
    intros s i v H E. unfold get_const in E. destruct (nth_error (p_consts prog) _) as [x|] eqn:En; [|discriminate].
    inversion E; subst. apply (si_consts _ _ H). eapply nth_error_In; exact En.
  Qed.

  Lemma get_const_fault : forall i f, get_const prog i = Fault f -> non_heap_fault f.
  Proof.
    intros i f E. unfold get_const in E. destruct (nth_error (p_consts prog) _); [discriminate|inversion E; nh].
  Qed.

  Lemma popframe_inv : forall s s', SI s -> popframe s = Ok s' ->
    SI s' /\ v_heap s' = v_heap s /\ v_gc s' = v_gc s /\ v_globals s' = v_globals s
    /\ v_final s' = v_final s /\ incl (v_stack s') (v_stack s).
  Proof.
    intros s s' H E. unfold popframe in E. destruct (v_frames s) as [|fr rest]; [discriminate|].
    destruct rest as [|cur rest']; [discriminate|]. inversion E; subst. clear E.
    assert (Hincl : incl (if f_bp fr <? v_slen s then skipn (Z.to_nat (v_slen s - f_bp fr)) (v_stack s) else v_stack s)
                         (v_stack s)).
    { destruct (f_bp fr <? v_slen s); [intros x Hx; eapply in_skipn; exact Hx|apply incl_refl]. }
    split; [|repeat split; exact Hincl].
    apply sinv_restack; [exact H|]. eapply oks_incl; [exact Hincl|apply (si_stack _ _ H)].
  Qed.

  Lemma popframe_fault : forall s f, popframe s = Fault f -> non_heap_fault f.
  Proof.
    intros s f E. unfold popframe in E. destruct (v_frames s) as [|fr rest]; [inversion E; nh|].
    destruct rest; [inversion E; nh|discriminate].
  Qed.

  Lemma pushframe_inv : forall s ip bp s', SI s -> pushframe ip bp s = Ok s' -> SI s'.
  Proof.
    intros s ip bp s' H E. unfold pushframe in E. destruct (v_frames s) as [|cur rest]; [discriminate|].
    inversion E; subst. apply sinv_restack; [exact H|apply (si_stack _ _ H)].
  Qed.

  Lemma pushframe_fault : forall s ip bp f, pushframe ip bp s = Fault f -> non_heap_fault f.
  Proof.
    intros s ip bp f E. unfold pushframe in E. destruct (v_frames s); [inversion E; nh|discriminate].
  Qed.

  (** allocation results *)

  Lemma sinv_alloc : forall s o, SI s -> obj_ok (v_heap s) o ->
    SI (push (tagged o (next_loc (v_heap s)))
             (upd_heap s (snd (h_alloc (v_heap s) o)) (trace (v_gc s) (tagged o (next_loc (v_heap s)))))).
  Proof.
    intros s o H Hobj. destruct (alloc_inv _ _ o (si_heap _ _ H) Hobj) as [Hh' Hnew].
    pose proof (fun v => alloc_ok_mono _ _ o v (si_heap _ _ H)) as Hmono.
    destruct H as [H1 H2 H3 H4 H5].
    constructor; cbn [push upd_stack upd_heap v_heap v_gc v_stack v_globals v_final].
    - exact Hh'.
    - apply oks_cons; [exact Hnew|]. intros v Hv. apply Hmono. apply H2. exact Hv.
    - intros v Hv. apply Hmono. apply H3. exact Hv.
    - intros v Hv. apply Hmono. apply H4. exact Hv.
    - apply Hmono. exact H5.
  Qed.

  Lemma upd_heap_same : forall s, upd_heap s (v_heap s) (v_gc s) = s.
  Proof. intros []; reflexivity. Qed.

  Lemma with_new_inv : forall s r, SI s -> new_res (v_heap s) r -> SI (push (fst r) (with_new s r)).
  Proof.
    intros s r H Hr. destruct Hr as [v Hv|f|t]; unfold with_new; cbn [fst].
    - rewrite Pos.eqb_refl. rewrite upd_heap_same. apply push_inv; assumption.
    - cbn [h_alloc snd next_loc]. 
      rewrite succ_eqb_false.
      apply (sinv_alloc s (OFloat f) H I).
    - cbn [h_alloc snd next_loc].
      rewrite succ_eqb_false.
      apply (sinv_alloc s (OStr t) H I).
  Qed.

  (** collection *)

  Lemma roots_oks : forall s extra, SI s -> oks (v_heap s) extra -> oks (v_heap s) (roots prog s extra).
  Proof.
    intros s extra H He. unfold roots. apply oks_app.
    - intros v Hv. apply in_rev in Hv. apply (si_stack _ _ H v Hv).
    - apply oks_app; [apply (si_consts _ _ H)|]. apply oks_app; [apply (si_globals _ _ H)|exact He].
  Qed.

  Lemma collect_ok : forall s extra, SI s -> oks (v_heap s) extra -> exists s', collect prog s extra = Ok s'.
  Proof.
    intros s extra H He. unfold collect.
    destruct (run_succeeds _ _ _ (si_heap _ _ H) (roots_oks s extra H He)) as [g' [h' E]].
    rewrite E. eexists; reflexivity.
  Qed.

  Lemma collect_inv : forall s extra s', SI s -> oks (v_heap s) extra -> In (v_final s) extra ->
    collect prog s extra = Ok s' ->
    SI s' /\ oks (v_heap s') extra /\ n_alloc (v_heap s') = n_alloc (v_heap s).
  Proof.
    intros s extra s' H He Hfin E. unfold collect in E.
    destruct (gc_run (v_heap s) (v_gc s) (roots prog s extra)) as [[g' h']| | |] eqn:Er; simpl in E; try discriminate.
    inversion E; subst s'. clear E.
    destruct (run_inv _ _ _ _ _ (si_heap _ _ H) (roots_oks s extra H He) Er) as [Hh' [_ [Hok' _]]].
    assert (Hr : forall v, In v (roots prog s extra) -> val_ok h' v = true) by exact Hok'.
    unfold roots in Hr.
    assert (Hex : oks h' extra).
    { intros v Hv. apply Hr. apply in_or_app. right. apply in_or_app. right. apply in_or_app. right. exact Hv. }
    split; [|split; [exact Hex|]].
    2:{ cbn [upd_heap v_heap].
        pose proof (si_heap _ _ H) as Hh.
        exact (proj2 (proj2 (run_frees_garbage_once _ _ _ _ _ (hi_gc _ _ Hh)
                 (oks_roots_managed _ _ _ Hh (roots_oks s extra H He)) Er))). }
    constructor; cbn [upd_heap v_heap v_gc v_stack v_globals v_final].
    - exact Hh'.
    - intros v Hv. apply Hr. apply in_or_app. left. apply in_rev in Hv. exact Hv.
    - intros v Hv. apply Hr. apply in_or_app. right. apply in_or_app. right. apply in_or_app. left. exact Hv.
    - intros v Hv. apply Hr. apply in_or_app. right. apply in_or_app. left. exact Hv.
    - apply Hex. exact Hfin.
  Qed.

  (** the outcome of a straight-line piece of an instruction *)

  (* a step allocates at most one box *)
  Definition nal (h0 : heap) (s' : vm) : Prop :=
    n_alloc h0 <= n_alloc (v_heap s') <= n_alloc h0 + 1.

  Definition good (h0 : heap) (r : outcome vm) : Prop :=
    match r with
    | Ok s' => SI s' /\ nal h0 s'
    | Fault f => n_alloc h0 + 1 < 2 ^ 60 -> non_heap_fault f
    | _ => True
    end.

  Lemma good_ok : forall h0 s', SI s' -> nal h0 s' -> good h0 (Ok s').
  Proof. intros h0 s' H1 H2. split; assumption. Qed.

  Lemma nal_same : forall h0 s', v_heap s' = h0 -> nal h0 s'.
  Proof. intros h0 s' <-. unfold nal. lia. Qed.

  Lemma nal_eq_alloc : forall h0 s', n_alloc (v_heap s') = n_alloc h0 -> nal h0 s'.
  Proof. intros h0 s' E. unfold nal. lia. Qed.

  Lemma with_new_nal : forall s r, new_res (v_heap s) r -> nal (v_heap s) (push (fst r) (with_new s r)).
  Proof.
    intros s r Hr. destruct Hr as [v Hv|f|t]; unfold with_new, nal; cbn [fst].
    - rewrite Pos.eqb_refl. simpl. lia.
    - cbn [h_alloc snd next_loc]. rewrite succ_eqb_false. simpl. lia.
    - cbn [h_alloc snd next_loc]. rewrite succ_eqb_false. simpl. lia.
  Qed.

  Lemma good_bind : forall h0 A (e : outcome A) (k : A -> outcome vm),
    (forall f, e = Fault f -> non_heap_fault f) ->
    (forall a, e = Ok a -> good h0 (k a)) -> good h0 (bind e k).
  Proof.
    intros h0 A e k Hf Hk. destruct e as [a|er|f|]; cbn [bind good]; try exact I.
    - apply Hk. reflexivity.
    - intros _. apply Hf. reflexivity.
  Qed.

  Lemma good_heap : forall h0 h1 r, h0 = h1 -> good h1 r -> good h0 r.
  Proof. intros h0 h1 r -> H. exact H. Qed.

  Lemma ok_small : forall h g v, HeapInv h g -> n_alloc h + 1 < 2 ^ 60 -> val_ok h v = true -> loc_small v.
  Proof.
    intros h g v Hi Hb Hv l Hl. destruct (val_ok_find h v l Hv Hl) as [o Ho].
    apply Z.ltb_lt. pose proof (hi_next h g Hi) as Hn.
    destruct (Pos.ltb_spec l (next_loc h)) as [Hlt|Hge].
    - lia.
    - rewrite (hi_fresh h g Hi l Hge) in Ho. discriminate.
  Qed.

  Lemma binop_good : forall s m a b, SI s -> val_ok (v_heap s) a = true -> val_ok (v_heap s) b = true ->
    good (v_heap s) (do r <- binop orc m (v_heap s) a b; Ok (push (fst r) (with_new s r))).
  Proof.
    intros s m a b H Ha Hb. pose proof (binop_spec orc (v_heap s) m a b Ha Hb) as Hsp.
    destruct (binop orc m (v_heap s) a b) as [r| |f|]; cbn [bind good]; try exact I.
    - split; [apply with_new_inv; assumption|apply with_new_nal; exact Hsp].
    - intros Hbd. apply Hsp; eapply ok_small; try eassumption; apply (si_heap _ _ H).
  Qed.

  Lemma binary_good : forall s m, SI s -> good (v_heap s) (binary orc m s).
  Proof.
    intros s m H. unfold binary.
    apply good_bind; [apply pop_fault|]. intros [rhs s1] E1.
    destruct (pop_inv s rhs s1 H E1) as [H1 [Hh1 Hr]].
    apply good_bind; [apply pop_fault|]. intros [lhs s2] E2.
    destruct (pop_inv s1 lhs s2 H1 E2) as [H2 [Hh2 Hl]].
    apply (good_heap _ (v_heap s2)); [congruence|].
    apply binop_good; [exact H2|congruence|congruence].
  Qed.

  Lemma fused_good : forall s m, SI s -> good (v_heap s) (fused orc prog m s).
  Proof.
    intros s m H. unfold fused.
    apply good_bind; [apply read_u16_fault|]. intros [li s1] E1.
    destruct (read_u16_inv s li s1 H E1) as [H1 Hh1].
    apply good_bind; [apply get_local_fault|]. intros lhs El.
    pose proof (get_local_inv s1 li lhs H1 El) as Hl.
    apply good_bind; [apply read_u16_fault|]. intros [ci s2] E2.
    destruct (read_u16_inv s1 ci s2 H1 E2) as [H2 Hh2].
    apply good_bind; [apply get_const_fault|]. intros rhs Ec.
    pose proof (get_const_inv s2 ci rhs H2 Ec) as Hr.
    apply (good_heap _ (v_heap s2)); [congruence|].
    apply binop_good; [exact H2|congruence|exact Hr].
  Qed.

  (** indexing *)

  Lemma norm_index_fault : forall z len f, norm_index z len <> Fault f.
  Proof. intros z len f. unfold norm_index. destruct (len <=? _); discriminate. Qed.

  Lemma index_get_good : forall s lhs index, SI s -> val_ok (v_heap s) lhs = true ->
    good (v_heap s) (index_get s lhs index).
  Proof.
    intros s lhs index H Hl. unfold index_get.
    destruct index as [| |z| | | |]; try exact I.
    destruct lhs as [| | | |l|l|l]; try exact I.
    - destruct (get_str_ok _ l Hl) as [t Ht]. rewrite (get_str_eq _ _ _ Ht). cbn [bind].
      apply good_bind; [intros f E; exfalso; exact (norm_index_fault _ _ _ E)|]. intros i Ei.
      destruct (nth_error t (Z.to_nat i)) as [c|]; [|intros _; nh].
      apply good_ok; [apply with_new_inv; [exact H|]; apply nr_str|apply with_new_nal; apply nr_str].
    - destruct (get_arr_ok' _ l Hl) as [vs Hvs]. rewrite (get_arr_eq _ _ _ Hvs). cbn [bind].
      apply good_bind; [intros f E; exfalso; exact (norm_index_fault _ _ _ E)|]. intros i Ei.
      destruct (nth_error vs (Z.to_nat i)) as [v|] eqn:En; [|intros _; nh].
      apply good_ok; [|apply nal_same; reflexivity]. apply push_inv; [exact H|].
      apply (arr_elems_ok _ _ (si_heap _ _ H) l vs Hvs). eapply nth_error_In; exact En.
  Qed.

  Lemma sinv_set : forall s l o0 o value, SI s -> PM.find l (cells (v_heap s)) = Some (true, o0) ->
    same_kind o0 o = true -> obj_ok (v_heap s) o -> val_ok (v_heap s) value = true ->
    SI (push value (upd_heap s (mkHeap (PM.add l (true, o) (cells (v_heap s))) (next_loc (v_heap s))
                                       (n_alloc (v_heap s)) (n_freed (v_heap s))) (v_gc s))).
  Proof.
    intros s l o0 o value H Hf Hk Hobj Hv.
    pose proof (set_inv _ _ l o0 o (si_heap _ _ H) Hf Hk Hobj) as Hh'.
    pose proof (fun v => set_ok_eq (v_heap s) l o0 o v Hf Hk) as Heq.
    destruct H as [H1 H2 H3 H4 H5].
    constructor; cbn [push upd_stack upd_heap v_heap v_gc v_stack v_globals v_final].
    - exact Hh'.
    - apply oks_cons; [rewrite Heq; exact Hv|]. intros v Hin. rewrite Heq. apply H2. exact Hin.
    - intros v Hin. rewrite Heq. apply H3. exact Hin.
    - intros v Hin. rewrite Heq. apply H4. exact Hin.
    - rewrite Heq. exact H5.
  Qed.

  Lemma index_set_good : forall s lhs index value, SI s -> val_ok (v_heap s) lhs = true ->
    val_ok (v_heap s) value = true -> good (v_heap s) (index_set s lhs index value).
  Proof.
    intros s lhs index value H Hl Hv. unfold index_set.
    destruct index as [| |z| | | |]; try exact I.
    destruct lhs as [| | | |l|l|l]; try exact I.
    - destruct (get_str_ok _ l Hl) as [t Ht]. rewrite (get_str_eq _ _ _ Ht). cbn [bind].
      apply good_bind; [intros f E; exfalso; exact (norm_index_fault _ _ _ E)|]. intros i Ei.
      destruct value as [| | | |k|k|k]; try exact I.
      destruct (get_str_ok _ k Hv) as [rp Hrp]. rewrite (get_str_eq _ _ _ Hrp). cbn [bind].
      rewrite (h_set_ok _ l (OStr t) _ Ht). cbn [bind].
      apply good_ok; [|apply nal_eq_alloc; reflexivity].
      apply (sinv_set s l (OStr t)); try assumption; reflexivity.
    - destruct (get_arr_ok' _ l Hl) as [vs Hvs]. rewrite (get_arr_eq _ _ _ Hvs). cbn [bind].
      apply good_bind; [intros f E; exfalso; exact (norm_index_fault _ _ _ E)|]. intros i Ei.
      rewrite (h_set_ok _ l (OArr vs) _ Hvs). cbn [bind].
      apply good_ok; [|apply nal_eq_alloc; reflexivity].
      apply (sinv_set s l (OArr vs)); try assumption; try reflexivity.
      cbn [obj_ok]. apply oks_replace; [exact Hv|].
      apply (arr_elems_ok _ _ (si_heap _ _ H) l vs Hvs).
  Qed.

  (** * One instruction *)

  Lemma sinv_ext : forall s s', SI s -> v_heap s' = v_heap s -> v_gc s' = v_gc s ->
    v_stack s' = v_stack s -> v_globals s' = v_globals s -> v_final s' = v_final s -> SI s'.
  Proof.
    intros s s' [H1 H2 H3 H4 H5] E1 E2 E3 E4 E5.
    constructor; rewrite ?E1, ?E2, ?E3, ?E4, ?E5; assumption.
  Qed.

  Lemma sinv_upd_globals : forall s gl, SI s -> oks (v_heap s) gl -> SI (upd_globals s gl).
  Proof. intros s gl [H1 H2 H3 H4 H5] Hgl. constructor; assumption. Qed.

  Lemma sinv_upd_final : forall s v, SI s -> val_ok (v_heap s) v = true -> SI (upd_final s v).
  Proof. intros s v [H1 H2 H3 H4 H5] Hv. constructor; assumption. Qed.

  Lemma good_of : forall h0 (e : outcome vm), (forall f, e = Fault f -> non_heap_fault f) ->
    (forall s', e = Ok s' -> SI s' /\ nal h0 s') -> good h0 e.
  Proof.
    intros h0 [s'| |f|] Hf Hs; cbn [good]; try exact I; [apply Hs; reflexivity|intros _; apply Hf; reflexivity].
  Qed.

  Definition step_post (h0 : heap) (r : outcome stepres) : Prop :=
    match r with
    | Ok (Continue s') => SI s' /\ nal h0 s'
    | Ok (Halted v s') => exists sp, SI sp /\ v_heap sp = h0 /\ v = v_final sp /\ v_heap s' = v_heap sp
                                     /\ untrace (v_heap sp) (v_gc sp) v = Ok (v_gc s')
    | Fault f => n_alloc h0 + 1 < 2 ^ 60 -> non_heap_fault f
    | _ => True
    end.

  Lemma cont_post : forall h0 r, good h0 r -> step_post h0 (do s' <- r; Ok (Continue s')).
  Proof. intros h0 [s'| |f|] H; exact H. Qed.

  Lemma fallthrough_post : forall s op, SI s ->
    step_post (v_heap s)
      match assoc opcode_eqb op binary_dispatch with
      | Some m => do s' <- binary orc m s; Ok (Continue s')
      | None => match assoc opcode_eqb op fused_dispatch with
                | Some m => do s' <- fused orc prog m s; Ok (Continue s')
                | None => Fault FBadOpcode
                end
      end.
  Proof.
    intros s op H. destruct (assoc opcode_eqb op binary_dispatch) as [m|].
    - apply cont_post. apply binary_good. exact H.
    - destruct (assoc opcode_eqb op fused_dispatch) as [m|].
      + apply cont_post. apply fused_good. exact H.
      + intros _. nh.
  Qed.

  Ltac rd16 H idx s1 H1 Hh1 :=
    apply good_bind; [apply read_u16_fault|];
    let E := fresh "E" in intros [idx s1] E; destruct (read_u16_inv _ idx s1 H E) as [H1 Hh1].
  Ltac rd8 H idx s1 H1 Hh1 :=
    apply good_bind; [apply read_u8_fault|];
    let E := fresh "E" in intros [idx s1] E; destruct (read_u8_inv _ idx s1 H E) as [H1 Hh1].
  Ltac pp H v s1 H1 Hh1 Hv :=
    apply good_bind; [apply pop_fault|];
    let E := fresh "E" in intros [v s1] E; destruct (pop_inv _ v s1 H E) as [H1 [Hh1 Hv]].

  Lemma case_const : forall s, SI s -> step_post (v_heap s)
    (do s' <-
     (do (idx, s1) <- read_u16 prog s;
      do v <- get_const prog idx;
      match v with
      | VStr l =>
          do t <- get_str (v_heap s1) l;
          Ok (push (fst (alloc_str (v_heap s1) t)) (with_new s1 (alloc_str (v_heap s1) t)))
      | _ => Ok (push v s1)
      end); Ok (Continue s')).
  Proof.
    intros s H. apply cont_post. rd16 H idx s1 H1 Hh1.
    apply good_bind; [apply get_const_fault|]. intros v Ev.
    pose proof (get_const_inv s1 idx v H1 Ev) as Hv.
    destruct v as [| | | |l|l|l];
      try (apply good_ok; [apply push_inv; assumption|apply nal_same; simpl; congruence]).
    destruct (get_str_ok _ l Hv) as [t Ht]. rewrite (get_str_eq _ _ _ Ht). cbn [bind].
    apply (good_heap _ (v_heap s1)); [congruence|].
    apply good_ok; [apply with_new_inv; [exact H1|apply nr_str]|apply with_new_nal; apply nr_str].
  Qed.

  Lemma case_pop : forall s, SI s -> step_post (v_heap s)
    (do s' <- (do (v, s1) <- pop s; Ok (upd_final s1 v)); Ok (Continue s')).
  Proof.
    intros s H. apply cont_post. pp H v s1 H1 Hh1 Hv.
    apply good_ok; [|apply nal_same; simpl; congruence].
    apply sinv_upd_final; [exact H1|congruence].
  Qed.

  Lemma case_push : forall s v, SI s -> is_heap_val v = false ->
    step_post (v_heap s) (do s' <- Ok (push v s); Ok (Continue s')).
  Proof.
    intros s v H Hv. apply cont_post. apply good_ok; [|apply nal_same; reflexivity].
    apply push_inv; [exact H|].
    destruct v; try reflexivity; discriminate Hv.
  Qed.

  Lemma case_not : forall s, SI s -> step_post (v_heap s)
    (do s' <- (do (v, s1) <- pop s; do r <- lognot v; Ok (push r s1)); Ok (Continue s')).
  Proof.
    intros s H. apply cont_post. pp H v s1 H1 Hh1 Hv.
    destruct v; try exact I. cbn [lognot bind].
    apply good_ok; [apply push_inv; [exact H1|reflexivity]|apply nal_same; simpl; congruence].
  Qed.

  Lemma case_negate : forall s, SI s -> step_post (v_heap s)
    (do s' <-
     (do (v, s1) <- pop s;
      do r <- negate (v_heap s1) v; Ok (push (fst r) (with_new s1 r)));
     Ok (Continue s')).
  Proof.
    intros s H. apply cont_post. pp H v s1 H1 Hh1 Hv.
    assert (Hv1 : val_ok (v_heap s1) v = true) by congruence.
    pose proof (negate_spec (v_heap s1) v Hv1) as Hsp.
    apply (good_heap _ (v_heap s1)); [congruence|].
    destruct (negate (v_heap s1) v) as [r| |f|]; cbn [bind good]; try exact I.
    - split; [apply with_new_inv; assumption|apply with_new_nal; exact Hsp].
    - intros _. exact Hsp.
  Qed.

  Lemma case_jump : forall s, SI s -> step_post (v_heap s)
    (do s' <- (do (pos, s1) <- read_u16 prog s; Ok (upd_ip s1 pos)); Ok (Continue s')).
  Proof.
    intros s H. apply cont_post. rd16 H pos s1 H1 Hh1.
    apply good_ok; [apply sinv_upd_ip; exact H1|apply nal_same; simpl; congruence].
  Qed.

  Lemma case_jif : forall s, SI s -> step_post (v_heap s)
    (do s' <-
     (do pat <- pop s;
      match pat with
      | (VBool b0, s1) =>
          do (pos, s2) <- read_u16 prog s1;
          Ok (if b0 then s2 else upd_ip s2 pos)
      | _ => Err ETypeError
      end); Ok (Continue s')).
  Proof.
    intros s H. apply cont_post. pp H c s1 H1 Hh1 Hv.
    destruct c; try exact I. rd16 H1 pos s2 H2 Hh2.
    apply good_ok; [destruct b; [exact H2|apply sinv_upd_ip; exact H2]|].
    apply nal_same. destruct b; simpl; congruence.
  Qed.

  Lemma case_return : forall s, SI s -> step_post (v_heap s)
    (do s' <-
     (do s1 <- popframe s;
      do s2 <- collect prog s1 [v_final s1]; Ok (push VNull s2));
     Ok (Continue s')).
  Proof.
    intros s H. apply cont_post.
    apply good_bind; [apply popframe_fault|]. intros s1 E1.
    destruct (popframe_inv s s1 H E1) as [H1 [Hh1 _]].
    assert (Hex : oks (v_heap s1) [v_final s1]).
    { intros v [<-|[]]. apply (si_final _ _ H1). }
    destruct (collect_ok s1 _ H1 Hex) as [s2 E2]. rewrite E2. cbn [bind].
    destruct (collect_inv s1 _ s2 H1 Hex (or_introl eq_refl) E2) as [H2 [_ Hna]].
    apply good_ok; [apply push_inv; [exact H2|reflexivity]|].
    apply nal_eq_alloc. simpl. congruence.
  Qed.

  Lemma case_return_value : forall s, SI s -> step_post (v_heap s)
    (do s' <-
     (do (result, s1) <- pop s;
      do s2 <- popframe s1;
      do s3 <- collect prog s2 [v_final s2; result]; Ok (push result s3));
     Ok (Continue s')).
  Proof.
    intros s H. apply cont_post. pp H result s1 H1 Hh1 Hv.
    apply good_bind; [apply popframe_fault|]. intros s2 E2.
    destruct (popframe_inv s1 s2 H1 E2) as [H2 [Hh2 _]].
    assert (Hex : oks (v_heap s2) [v_final s2; result]).
    { intros v [<-|[<-|[]]]; [apply (si_final _ _ H2)|congruence]. }
    destruct (collect_ok s2 _ H2 Hex) as [s3 E3]. rewrite E3. cbn [bind].
    destruct (collect_inv s2 _ s3 H2 Hex (or_introl eq_refl) E3) as [H3 [Hex3 Hna]].
    apply good_ok; [apply push_inv; [exact H3|]; apply Hex3; right; left; reflexivity|].
    apply nal_eq_alloc. simpl. congruence.
  Qed.

  Lemma case_call : forall s, SI s -> step_post (v_heap s)
    (do s' <-
     (do (argc, s1) <- read_u8 prog s;
      do pat0 <- pop s1;
      match pat0 with
      | (VFun ip n, s2) =>
          if n <? argc
          then Err EArgumentError
          else
           if (MAX_STACK_SIZE <? v_slen s2 + n) || (MAX_FRAMES <=? zlength (v_frames s2))
           then Err ETypeError
           else
            if v_slen s2 <? argc
            then Fault FCallUnderflow
            else
             pushframe ip (v_slen s2 - argc)
               (upd_stack s2 (repeat_val VNull (Z.to_nat (n - argc)) ++ v_stack s2)
                  (v_slen s2 + (n - argc)))
      | _ => Err ETypeError
      end); Ok (Continue s')).
  Proof.
    intros s H. apply cont_post. rd8 H argc s1 H1 Hh1. pp H1 f s2 H2 Hh2 Hv.
    destruct f; try exact I.
    destruct (n <? argc); [exact I|].
    destruct ((MAX_STACK_SIZE <? v_slen s2 + n) || (MAX_FRAMES <=? zlength (v_frames s2))); [exact I|].
    destruct (v_slen s2 <? argc); [intros _; nh|].
    apply good_of; [intros f; apply pushframe_fault|]. intros s' Epf.
    split.
    - eapply pushframe_inv; [|exact Epf]. apply sinv_upd_stack; [exact H2|].
      apply oks_app; [apply oks_repeat_null|apply (si_stack _ _ H2)].
    - apply nal_same. unfold pushframe in Epf. destruct (v_frames _) in Epf; [discriminate|].
      inversion Epf; subst s'. simpl. congruence.
  Qed.

  Lemma case_builtin : forall s, SI s -> step_post (v_heap s)
    (do s' <-
     (do (bb, s1) <- read_u8 prog s;
      do (argc, s2) <- read_u8 prog s1;
      do (args, s3) <- pop_n (Z.to_nat argc) s2 [];
      match builtin_of_byte bb with
      | Some bi =>
          do (r, printed) <- call_builtin orc bi (v_heap s3) args;
          Ok (push (fst r) (upd_out (with_new s3 r) (v_out (with_new s3 r) ++ printed)))
      | None => Fault FBadBuiltin
      end); Ok (Continue s')).
  Proof.
    intros s H. apply cont_post. rd8 H bb s1 H1 Hh1. rd8 H1 argc s2 H2 Hh2.
    apply good_bind; [apply pop_n_fault|]. intros [args s3] E3.
    destruct (pop_n_inv _ s2 [] args s3 H2 (oks_nil _) E3) as [H3 [Hh3 Hargs]].
    destruct (builtin_of_byte bb) as [bi|]; [|intros _; nh].
    rewrite <- Hh3 in Hargs.
    pose proof (call_builtin_spec orc _ _ (si_heap _ _ H3) bi args Hargs) as Hsp.
    apply (good_heap _ (v_heap s3)); [congruence|].
    destruct (call_builtin orc bi (v_heap s3) args) as [[r printed]| |f|]; cbn [bind good]; try exact I.
    - split.
      + apply (sinv_ext (push (fst r) (with_new s3 r))); try reflexivity.
        apply with_new_inv; assumption.
      + exact (with_new_nal s3 r Hsp).
    - intros _. exact Hsp.
  Qed.

  Lemma case_get_local : forall s, SI s -> step_post (v_heap s)
    (do s' <-
     (do (idx, s1) <- read_u16 prog s;
      do v <- get_local idx s1; Ok (push v s1)); Ok (Continue s')).
  Proof.
    intros s H. apply cont_post. rd16 H idx s1 H1 Hh1.
    apply good_bind; [apply get_local_fault|]. intros v Ev.
    apply good_ok; [|apply nal_same; simpl; congruence].
    apply push_inv; [exact H1|]. eapply get_local_inv; eassumption.
  Qed.

  Lemma case_set_local : forall s, SI s -> step_post (v_heap s)
    (do s' <-
     (do (idx, s1) <- read_u16 prog s;
      do (v, s2) <- pop s1; set_local idx v s2); Ok (Continue s')).
  Proof.
    intros s H. apply cont_post. rd16 H idx s1 H1 Hh1. pp H1 v s2 H2 Hh2 Hv.
    apply good_of; [intros f; apply set_local_fault|]. intros s' Esl.
    split; [eapply set_local_inv; [exact H2| |exact Esl]; congruence|].
    apply nal_same. unfold set_local in Esl. destruct (_ <? _) in Esl; [|discriminate].
    inversion Esl; subst s'. simpl. congruence.
  Qed.

  Lemma case_get_global : forall s, SI s -> step_post (v_heap s)
    (do s' <-
     (do (idx, s1) <- read_u16 prog s;
      Ok (push (nth (Z.to_nat idx) (v_globals s1) VNull) s1));
     Ok (Continue s')).
  Proof.
    intros s H. apply cont_post. rd16 H idx s1 H1 Hh1.
    apply good_ok; [|apply nal_same; simpl; congruence].
    apply push_inv; [exact H1|].
    destruct (nth_in_or_default (Z.to_nat idx) (v_globals s1) VNull) as [Hin | Heq]; [|rewrite Heq; reflexivity].
    apply (si_globals _ _ H1). exact Hin.
  Qed.

  Lemma case_set_global : forall s, SI s -> step_post (v_heap s)
    (do s' <-
     (do (idx, s1) <- read_u16 prog s;
      do (v, s2) <- pop s1;
      Ok
        (upd_globals s2
           (replace_nth (Z.to_nat idx) v
              (if (Z.to_nat idx <? length (v_globals s2))%nat
               then v_globals s2
               else v_globals s2 ++ repeat_val VNull (S (Z.to_nat idx) - length (v_globals s2))))));
     Ok (Continue s')).
  Proof.
    intros s H. apply cont_post. rd16 H idx s1 H1 Hh1. pp H1 v s2 H2 Hh2 Hv.
    apply good_ok; [|apply nal_same; simpl; congruence].
    apply sinv_upd_globals; [exact H2|]. apply oks_replace; [congruence|].
    destruct (Z.to_nat idx <? length (v_globals s2))%nat; [apply (si_globals _ _ H2)|].
    apply oks_app; [apply (si_globals _ _ H2)|apply oks_repeat_null].
  Qed.

  Lemma case_array : forall s, SI s -> step_post (v_heap s)
    (do s' <-
     (do (n, s1) <- read_u16 prog s;
      do (vs, s2) <- pop_n (Z.to_nat n) s1 [];
      let '(l, h') := h_alloc (v_heap s2) (OArr vs) in
      Ok (push (VArr l) (upd_heap s2 h' (trace (v_gc s2) (VArr l)))));
     Ok (Continue s')).
  Proof.
    intros s H. apply cont_post. rd16 H n s1 H1 Hh1.
    apply good_bind; [apply pop_n_fault|]. intros [vs s2] E2.
    destruct (pop_n_inv _ s1 [] vs s2 H1 (oks_nil _) E2) as [H2 [Hh2 Hvs]].
    rewrite <- Hh2 in Hvs. cbn [h_alloc].
    apply good_ok; [apply (sinv_alloc s2 (OArr vs) H2 Hvs)|].
    unfold nal. simpl. rewrite Hh2, Hh1. lia.
  Qed.

  Lemma case_index_get : forall s, SI s -> step_post (v_heap s)
    (do s' <-
     (do (index, s1) <- pop s; do (lhs, s2) <- pop s1; index_get s2 lhs index);
     Ok (Continue s')).
  Proof.
    intros s H. apply cont_post. pp H ix s1 H1 Hh1 Hi. pp H1 lhs s2 H2 Hh2 Hl.
    apply (good_heap _ (v_heap s2)); [congruence|].
    apply index_get_good; [exact H2|congruence].
  Qed.

  Lemma case_index_set : forall s, SI s -> step_post (v_heap s)
    (do s' <-
     (do (value, s1) <- pop s; do (index, s2) <- pop s1; do (lhs, s3) <- pop s2;
      index_set s3 lhs index value);
     Ok (Continue s')).
  Proof.
    intros s H. apply cont_post. pp H vv s1 H1 Hh1 Hv. pp H1 ix s2 H2 Hh2 Hi.
    pp H2 lhs s3 H3 Hh3 Hl.
    apply (good_heap _ (v_heap s3)); [congruence|].
    apply index_set_good; [exact H3|congruence|congruence].
  Qed.

  Lemma case_halt : forall s, SI s -> step_post (v_heap s)
    (do g' <- untrace (v_heap s) (v_gc s) (v_final s);
     Ok (Halted (v_final s) (upd_heap s (v_heap s) g'))).
  Proof.
    intros s H.
    assert (Hok : roots_ok (v_heap s) [v_final s]).
    { intros v [<-|[]]. apply (si_final _ _ H). }
    destruct (untrace_strong _ _ (v_final s) (hi_gc _ _ (si_heap _ _ H))
                (oks_roots_managed _ _ _ (si_heap _ _ H) Hok) Hok) as [g' [E _]].
    rewrite E. cbn [bind step_post]. exists s. split; [exact H|]. split; [reflexivity|]. split; [reflexivity|]. split; [reflexivity|exact E].
  Qed.

  Theorem step_spec : forall s, SI s -> step_post (v_heap s) (step orc prog s).
  Proof.
    intros s0 H0. unfold step.
    destruct (byte_at prog (v_ip s0)) as [b|]; [|intros _; nh].
    destruct (opcode_of_byte b) as [op|]; [|intros _; nh].
    pose proof (sinv_upd_ip s0 (v_ip s0 + 1) H0) as H.
    change (v_heap s0) with (v_heap (upd_ip s0 (v_ip s0 + 1))).
    generalize dependent (upd_ip s0 (v_ip s0 + 1)). clear s0 H0. intros s H.
    destruct op; cbv beta zeta iota;
      first [ apply fallthrough_post | apply case_const | apply case_pop
            | apply case_push; [|reflexivity] | apply case_not | apply case_negate | apply case_jump
            | apply case_jif | apply case_return | apply case_return_value | apply case_call
            | apply case_builtin | apply case_get_local | apply case_set_local
            | apply case_get_global | apply case_set_global | apply case_array
            | apply case_index_get | apply case_index_set | apply case_halt ]; exact H.
  Qed.
End Step.

(** * The initial state of a run *)

Lemma load_consts_inv : forall ks h g vs h', HeapInv h g -> load_consts ks h = (vs, h') ->
  HeapInv h' (fold_left maybe_trace vs g) /\ oks h' vs
  /\ (forall v, val_ok h v = true -> val_ok h' v = true)
  /\ n_alloc h <= n_alloc h' <= n_alloc h + Z.of_nat (length ks).
Proof.
  induction ks as [|k ks IH]; intros h g vs h' Hi E.
  - simpl in E. inversion E; subst. simpl.
    split; [exact Hi|]. split; [apply oks_nil|]. split; [auto|lia].
  - cbn [load_consts] in E. cbn [length]. rewrite Nat2Z.inj_succ.
    destruct k as [z|f|t|ip n]; cbn [h_alloc] in E.
    + destruct (load_consts ks h) as [vs0 h2] eqn:El. inversion E; subst vs h'. clear E.
      destruct (IH h g vs0 h2 Hi El) as [Hh [Hok [Hmono Hna]]].
      split; [exact Hh|]. split; [apply oks_cons; [reflexivity|exact Hok]|]. split; [exact Hmono|lia].
    + match type of E with (let '(vs, h2) := load_consts ks ?h1 in _) = _ =>
        destruct (load_consts ks h1) as [vs0 h2] eqn:El end.
      inversion E; subst vs h'. clear E.
      destruct (alloc_inv h g (OFloat f) Hi I) as [Hi1 Hnew].
      destruct (IH _ _ vs0 h2 Hi1 El) as [Hh [Hok [Hmono Hna]]].
      cbn [h_alloc snd n_alloc] in Hna.
      split; [exact Hh|]. split; [apply oks_cons; [apply Hmono; exact Hnew|exact Hok]|].
      split; [|lia]. intros v Hv. apply Hmono. apply (alloc_ok_mono h g (OFloat f) v Hi Hv).
    + match type of E with (let '(vs, h2) := load_consts ks ?h1 in _) = _ =>
        destruct (load_consts ks h1) as [vs0 h2] eqn:El end.
      inversion E; subst vs h'. clear E.
      destruct (alloc_inv h g (OStr t) Hi I) as [Hi1 Hnew].
      destruct (IH _ _ vs0 h2 Hi1 El) as [Hh [Hok [Hmono Hna]]].
      cbn [h_alloc snd n_alloc] in Hna.
      split; [exact Hh|]. split; [apply oks_cons; [apply Hmono; exact Hnew|exact Hok]|].
      split; [|lia]. intros v Hv. apply Hmono. apply (alloc_ok_mono h g (OStr t) v Hi Hv).
    + destruct (load_consts ks h) as [vs0 h2] eqn:El. inversion E; subst vs h'. clear E.
      destruct (IH h g vs0 h2 Hi El) as [Hh [Hok [Hmono Hna]]].
      split; [exact Hh|]. split; [apply oks_cons; [reflexivity|exact Hok]|]. split; [exact Hmono|lia].
Qed.

Lemma sinv_initial : forall code ks consts h0, load_consts ks empty_heap = (consts, h0) ->
  SInv (mkProgram code consts) (vm_start vm_new consts h0)
  /\ n_alloc h0 <= Z.of_nat (length ks).
Proof.
  intros code ks consts h0 E.
  destruct (load_consts_inv ks empty_heap gc_new consts h0 heapinv_empty E) as [Hh [Hok [_ Hna]]].
  split; [|simpl in Hna; lia].
  constructor; cbn [vm_start vm_new v_heap v_gc v_stack v_globals v_final p_consts].
  - exact Hh.
  - apply oks_nil.
  - apply oks_nil.
  - exact Hok.
  - reflexivity.
Qed.

Theorem vm_inv_initial : forall code ks consts h0, load_consts ks empty_heap = (consts, h0) ->
  VMInv (mkProgram code consts) (vm_start vm_new consts h0).
Proof. intros code ks consts h0 E. apply vminv_sinv. exact (proj1 (sinv_initial code ks consts h0 E)). Qed.

(** * One step: the invariant is kept, no heap fault is possible *)

Theorem vm_inv_step : forall orc prog s s', VMInv prog s -> step orc prog s = Ok (Continue s') ->
  VMInv prog s'.
Proof.
  intros orc prog s s' H E. apply vminv_sinv in H. apply vminv_sinv.
  pose proof (step_spec orc prog s H) as Hsp. rewrite E in Hsp. exact (proj1 Hsp).
Qed.

(* no program ever observes a released or recycled box, nothing is released twice; the marker's
   fuel never runs out (a collection never yields OutOfFuel: collect_ok) *)
Theorem vm_no_heap_fault : forall orc prog s, VMInv prog s -> addr_bounded s ->
  forall f, step orc prog s = Fault f -> non_heap_fault f.
Proof.
  intros orc prog s H Hb f E. apply vminv_sinv in H.
  pose proof (step_spec orc prog s H) as Hsp. rewrite E in Hsp. exact (Hsp Hb).
Qed.

(* a step allocates at most one box *)
Theorem vm_step_alloc : forall orc prog s s', VMInv prog s -> step orc prog s = Ok (Continue s') ->
  n_alloc (v_heap s) <= n_alloc (v_heap s') <= n_alloc (v_heap s) + 1.
Proof.
  intros orc prog s s' H E. apply vminv_sinv in H.
  pose proof (step_spec orc prog s H) as Hsp. rewrite E in Hsp. exact (proj2 Hsp).
Qed.

(* the reason for [addr_bounded]: a float box at location 2^61 is not the box its word points to *)
Definition far : positive := 2305843009213693952%positive.
Definition far_heap : heap := mkHeap (PM.add far (true, OFloat 1%float) (PM.empty _)) (Pos.succ far) 1 0.
Example addr_bound_needed : forall orc,
  val_ok far_heap (VFloat far) = true /\
  binop orc "add" far_heap (VFloat far) (VFloat far) = Fault FUseAfterFree.
Proof. intros orc. split; vm_compute; reflexivity. Qed.

(** * Runs *)

Section Runs.
  Variable orc : oracle.
  Variable prog : program.

  Definition halted_at (v : val) (s' : vm) : Prop :=
    exists sp, SInv prog sp /\ v = v_final sp /\ v_heap s' = v_heap sp
               /\ untrace (v_heap sp) (v_gc sp) v = Ok (v_gc s').

  Lemma run_loop_spec : forall n s r s' k, SInv prog s -> run_loop orc prog n s = (r, s', k) ->
    n_alloc (v_heap s') <= n_alloc (v_heap s) + Z.of_nat n
    /\ match r with
       | Ok v => halted_at v s'
       | Fault f => SInv prog s' /\ step orc prog s' = Fault f
       | _ => SInv prog s'
       end.
  Proof.
    induction n as [|n IH]; intros s r s' k H E.
    - simpl in E. inversion E; subst. split; [simpl; lia|exact H].
    - cbn [run_loop] in E. rewrite Nat2Z.inj_succ.
      pose proof (step_spec orc prog s H) as Hsp.
      destruct (step orc prog s) as [[s1|v s1]|er|f|] eqn:Es.
      + destruct Hsp as [H1 Hna]. destruct (IH s1 r s' k H1 E) as [Hb Hr].
        unfold nal in Hna. split; [lia|exact Hr].
      + inversion E; subst. destruct Hsp as [sp [Hsp1 [Hh0 [Hv [Hh Hu]]]]].
        split; [rewrite Hh, Hh0; lia|].
        exists sp. split; [exact Hsp1|]. split; [exact Hv|]. split; [exact Hh|exact Hu].
      + inversion E; subst. split; [lia|exact H].
      + inversion E; subst. split; [lia|]. split; [exact H|exact Es].
      + inversion E; subst. split; [lia|exact H].
  Qed.
End Runs.

(** * The two collection points *)

Section Collect.
  Variable orc : oracle.
  Variable prog : program.

  Lemma return_step : forall s s', SInv prog s -> at_return prog s -> step orc prog s = Ok (Continue s') ->
    exists s2 extra g' h' result,
      SInv prog s2 /\ v_heap s2 = v_heap s /\ v_gc s2 = v_gc s
      /\ oks (v_heap s) extra /\ In (v_final s2) extra /\ (result = VNull \/ In result extra)
      /\ (forall v, In v extra -> v = v_final s2 \/ v = result)
      /\ gc_run (v_heap s) (v_gc s) (roots prog s2 extra) = Ok (g', h')
      /\ s' = push result (upd_heap s2 h' g').
  Proof.
    intros s s' H [b [Hb Hop]] E. unfold step in E. rewrite Hb in E.
    pose proof (sinv_upd_ip prog s (v_ip s + 1) H) as H0.
    destruct Hop as [Hop|Hop]; rewrite Hop in E; cbv beta zeta iota in E.
    - destruct (popframe (upd_ip s (v_ip s + 1))) as [s1| | |] eqn:E1; cbn [bind] in E; try discriminate.
      destruct (popframe_inv prog _ s1 H0 E1) as [H1 [Hh1 [Hg1 _]]].
      cbn [upd_ip v_heap v_gc] in Hh1, Hg1.
      unfold collect in E. rewrite Hh1, Hg1 in E.
      destruct (gc_run (v_heap s) (v_gc s) (roots prog s1 [v_final s1])) as [[g' h']| | |] eqn:Er;
        cbn [bind] in E; try discriminate.
      inversion E; subst s'. exists s1, [v_final s1], g', h', VNull.
      split; [exact H1|]. split; [exact Hh1|]. split; [exact Hg1|].
      split; [intros v [<-|[]]; rewrite <- Hh1; apply (si_final _ _ H1)|].
      split; [left; reflexivity|]. split; [left; reflexivity|].
      split; [intros v [<-|[]]; left; reflexivity|]. split; [exact Er|reflexivity].
    - destruct (pop (upd_ip s (v_ip s + 1))) as [[result s1]| | |] eqn:Ep; cbn [bind] in E; try discriminate.
      destruct (pop_inv prog _ result s1 H0 Ep) as [H1 [Hh1 Hres]].
      assert (Hg1 : v_gc s1 = v_gc s).
      { unfold pop in Ep. destruct (v_stack _) in Ep; [discriminate|]. inversion Ep; reflexivity. }
      cbn [upd_ip v_heap] in Hh1, Hres.
      destruct (popframe s1) as [s2| | |] eqn:E2; cbn [bind] in E; try discriminate.
      destruct (popframe_inv prog _ s2 H1 E2) as [H2 [Hh2 [Hg2 _]]].
      unfold collect in E. rewrite Hh2, Hg2, Hh1, Hg1 in E.
      destruct (gc_run (v_heap s) (v_gc s) (roots prog s2 [v_final s2; result])) as [[g' h']| | |] eqn:Er;
        cbn [bind] in E; try discriminate.
      inversion E; subst s'. exists s2, [v_final s2; result], g', h', result.
      split; [exact H2|]. split; [congruence|]. split; [congruence|].
      split.
      { intros v [<-|[<-|[]]]; [|exact Hres]. replace (v_heap s) with (v_heap s2) by congruence.
        apply (si_final _ _ H2). }
      split; [left; reflexivity|]. split; [right; right; left; reflexivity|].
      split; [intros v [<-|[<-|[]]]; [left|right]; reflexivity|]. split; [exact Er|reflexivity].
  Qed.

  (* the values kept after the instruction and the root list handed to the collector reach the same boxes *)
  Lemma kept_roots : forall h s2 extra result hh gg,
    In (v_final s2) extra -> (result = VNull \/ In result extra) ->
    (forall v, In v extra -> v = v_final s2 \/ v = result) ->
    forall l, reach h (vm_vals prog (push result (upd_heap s2 hh gg))) l <-> reach h (roots prog s2 extra) l.
  Proof.
    intros h s2 extra result hh gg Hfin Hres Hex l.
    unfold vm_vals, roots. cbn [push upd_stack upd_heap v_final v_stack v_globals].
    split; apply reach_incl_heap; intros v k Hin Hk.
    - destruct Hin as [<-|Hin].
      { apply in_or_app; right. apply in_or_app; right. apply in_or_app; right. exact Hfin. }
      apply in_app_or in Hin. destruct Hin as [[<-|Hin]|Hin].
      + destruct Hres as [->|Hr]; [discriminate Hk|].
        apply in_or_app; right. apply in_or_app; right. apply in_or_app; right. exact Hr.
      + apply in_or_app; left. apply in_rev. rewrite rev_involutive. exact Hin.
      + apply in_app_or in Hin. destruct Hin as [Hin|Hin].
        * apply in_or_app; right. apply in_or_app; right. apply in_or_app; left. exact Hin.
        * apply in_or_app; right. apply in_or_app; left. exact Hin.
    - apply in_app_or in Hin. destruct Hin as [Hin|Hin].
      { right. apply in_or_app; left. right. apply in_rev. exact Hin. }
      apply in_app_or in Hin. destruct Hin as [Hin|Hin].
      { right. apply in_or_app; right. apply in_or_app; right. exact Hin. }
      apply in_app_or in Hin. destruct Hin as [Hin|Hin].
      { right. apply in_or_app; right. apply in_or_app; left. exact Hin. }
      destruct (Hex v Hin) as [->| ->]; [left; reflexivity|].
      right. apply in_or_app; left. left. reflexivity.
  Qed.

  (* C03 at the machine level: whatever the machine can still reach after a return keeps its box,
     alive and unchanged, through the collection *)
  Theorem vm_collect_preserves : forall s s', VMInv prog s -> at_return prog s ->
    step orc prog s = Ok (Continue s') ->
    forall l, reach (v_heap s) (vm_vals prog s') l ->
      PM.find l (cells (v_heap s')) = PM.find l (cells (v_heap s)) /\ h_alive (v_heap s') l = true.
  Proof.
    intros s s' H Har E l Hr. apply vminv_sinv in H.
    destruct (return_step s s' H Har E)
      as [s2 [extra [g' [h' [result [H2 [Hh2 [Hg2 [Hex [Hfin [Hres [Hex2 [Er ->]]]]]]]]]]]]].
    apply (proj1 (kept_roots (v_heap s) s2 extra result h' g' Hfin Hres Hex2 l)) in Hr.
    assert (Hro : oks (v_heap s) (roots prog s2 extra)).
    { rewrite <- Hh2. apply roots_oks; [exact H2|rewrite Hh2; exact Hex]. }
    destruct (run_inv _ _ _ _ _ (si_heap _ _ H) Hro Er) as [_ [Hpres _]].
    cbn [push upd_stack upd_heap v_heap]. apply Hpres. exact Hr.
  Qed.

  (* C04 at the machine level: after the collection the collector manages exactly the boxes reachable
     from what the machine keeps; these are exactly the boxes alive; every other box was released
     (once: the ledger counts them) *)
  Theorem vm_collect_exact : forall s s', VMInv prog s -> at_return prog s ->
    step orc prog s = Ok (Continue s') ->
    (forall l, managed (v_gc s') l <-> reach (v_heap s) (vm_vals prog s') l)
    /\ (forall l, h_alive (v_heap s') l = true <-> reach (v_heap s) (vm_vals prog s') l)
    /\ (forall l, reach (v_heap s') (vm_vals prog s') l <-> reach (v_heap s) (vm_vals prog s') l)
    /\ n_alloc (v_heap s') = n_alloc (v_heap s)
    /\ n_freed (v_heap s') = n_freed (v_heap s) + Z.of_nat (length (objects (v_gc s)))
                             - Z.of_nat (length (objects (v_gc s'))).
  Proof.
    intros s s' H Har E. apply vminv_sinv in H.
    destruct (return_step s s' H Har E)
      as [s2 [extra [g' [h' [result [H2 [Hh2 [Hg2 [Hex [Hfin [Hres [Hex2 [Er ->]]]]]]]]]]]]].
    pose proof (fun l => kept_roots (v_heap s) s2 extra result h' g' Hfin Hres Hex2 l) as Hk.
    assert (Hro : oks (v_heap s) (roots prog s2 extra)).
    { rewrite <- Hh2. apply roots_oks; [exact H2|rewrite Hh2; exact Hex]. }
    destruct (run_inv _ _ _ _ _ (si_heap _ _ H) Hro Er) as [_ [Hpres [_ [Hman Hal]]]].
    pose proof (hi_gc _ _ (si_heap _ _ H)) as Hg.
    destruct (run_frees_garbage_once _ _ _ _ _ Hg (oks_roots_managed _ _ _ (si_heap _ _ H) Hro) Er)
      as [_ [Hnf Hna]].
    cbn [push upd_stack upd_heap v_heap v_gc] in *.
    split; [intros l; rewrite Hk; apply Hman|]. split; [intros l; rewrite Hk; apply Hal|].
    split; [|split; [exact Hna|exact Hnf]].
    intros l. symmetry. apply reach_same_cells. intros k Hr. apply Hk in Hr. apply (Hpres k Hr).
  Qed.
  (* a collection point never runs out of the marker's fuel and never raises an error: the step is
     either taken or stopped by a frame/stack fault (which C02's verifier excludes) *)
  Theorem vm_return_total : forall s, VMInv prog s -> at_return prog s ->
    (exists s', step orc prog s = Ok (Continue s')) \/ (exists f, step orc prog s = Fault f /\ non_heap_fault f).
  Proof.
    intros s H [b [Hb Hop]]. apply vminv_sinv in H. unfold step. rewrite Hb.
    pose proof (sinv_upd_ip prog s (v_ip s + 1) H) as H0.
    destruct Hop as [Hop|Hop]; rewrite Hop; cbv beta zeta iota.
    - destruct (popframe (upd_ip s (v_ip s + 1))) as [s1| |f|] eqn:E1; cbn [bind].
      + destruct (popframe_inv prog _ s1 H0 E1) as [H1 _].
        assert (Hex : oks (v_heap s1) [v_final s1]) by (intros v [<-|[]]; apply (si_final _ _ H1)).
        destruct (collect_ok prog s1 _ H1 Hex) as [s2 E2]. rewrite E2. left. eexists; reflexivity.
      + exfalso. unfold popframe in E1. destruct (v_frames _) as [|? [|? ?]] in E1; discriminate.
      + right. exists f. split; [reflexivity|]. eapply popframe_fault; exact E1.
      + exfalso. unfold popframe in E1. destruct (v_frames _) as [|? [|? ?]] in E1; discriminate.
    - destruct (pop (upd_ip s (v_ip s + 1))) as [[result s1]| |f|] eqn:Ep; cbn [bind].
      + destruct (pop_inv prog _ result s1 H0 Ep) as [H1 [Hh1 Hres]].
        destruct (popframe s1) as [s2| |f|] eqn:E2; cbn [bind].
        * destruct (popframe_inv prog _ s2 H1 E2) as [H2 [Hh2 _]].
          assert (Hex : oks (v_heap s2) [v_final s2; result]).
          { intros v [<-|[<-|[]]]; [apply (si_final _ _ H2)|congruence]. }
          destruct (collect_ok prog s2 _ H2 Hex) as [s3 E3]. rewrite E3. left. eexists; reflexivity.
        * exfalso. unfold popframe in E2. destruct (v_frames _) as [|? [|? ?]] in E2; discriminate.
        * right. exists f. split; [reflexivity|]. eapply popframe_fault; exact E2.
        * exfalso. unfold popframe in E2. destruct (v_frames _) as [|? [|? ?]] in E2; discriminate.
      + exfalso. unfold pop in Ep. destruct (v_stack _) in Ep; discriminate.
      + right. exists f. split; [reflexivity|]. eapply pop_fault; exact Ep.
      + exfalso. unfold pop in Ep. destruct (v_stack _) in Ep; discriminate.
  Qed.
End Collect.

(** * The end of a run *)

Lemma destroy_weak_g : forall h g,
  (forall v, In v (objects g) -> is_heap_val v = true) -> NoDup (map val_loc (objects g)) ->
  oks h (objects g) ->
  exists g' h', gc_destroy h g = Ok (g', h')
    /\ (forall l, holds (objects g) l -> h_alive h' l = false)
    /\ (forall l, ~ holds (objects g) l -> PM.find l (cells h') = PM.find l (cells h))
    /\ n_freed h' = n_freed h + Z.of_nat (length (objects g))
    /\ n_alloc h' = n_alloc h.
Proof. intros h g H1 H2 H3. exact (destroy_weak h (objects g) (bitmap g) H1 H2 H3). Qed.

Lemma filter_split_length : forall A (p : A -> bool) (l : list A),
  (length (filter p l) + length (filter (fun x => negb (p x)) l) = length l)%nat.
Proof. intros A p l. induction l as [|x l IH]; simpl; [reflexivity|]. destruct (p x); simpl; lia. Qed.

Definition notin (a : list val) (v : val) : bool := if in_dec val_eq_dec v a then false else true.

Lemma length_removed : forall a b : list val, NoDup a -> NoDup b -> incl a b ->
  (length (filter (notin a) b) + length a = length b)%nat.
Proof.
  intros a b Ha Hb Hi.
  rewrite <- (filter_split_length val (notin a) b).
  f_equal. apply Permutation.Permutation_length. apply Permutation.NoDup_Permutation.
  - exact Ha.
  - apply NoDup_filter. exact Hb.
  - intros x. rewrite filter_In. unfold notin. split.
    + intros Hx. split; [apply Hi; exact Hx|]. destruct (in_dec val_eq_dec x a); [reflexivity|contradiction].
    + intros [_ Hx]. destruct (in_dec val_eq_dec x a); [assumption|discriminate].
Qed.

(* a run that did not halt normally: dropping the collector releases every box *)
Lemma drop_all : forall prog s, SInv prog s ->
  exists g' h, gc_destroy (v_heap s) (v_gc s) = Ok (g', h)
    /\ (forall l, h_alive h l = false) /\ n_alloc h = n_freed h
    /\ h_live_count h = Z.of_nat (alive_count h).
Proof.
  intros prog s H. pose proof (si_heap _ _ H) as Hh. pose proof (hi_gc _ _ Hh) as Hg.
  destruct (destroy_weak_g (v_heap s) (v_gc s) (inv_heap_vals _ _ Hg) (inv_nodup _ _ Hg) (inv_ok _ _ Hg))
    as [g' [h [E [Hdead [Hsame [Hnf Hna]]]]]].
  exists g', h. split; [exact E|].
  assert (Hall : forall l, h_alive h l = false).
  { intros l. destruct (managed_dec (v_gc s) l) as [Hm|Hnm]; [apply Hdead; exact Hm|].
    destruct (h_alive h l) eqn:Ea; [|reflexivity]. exfalso. apply Hnm. apply (hi_am _ _ Hh).
    unfold h_alive in *. rewrite <- (Hsame l Hnm). exact Ea. }
  pose proof (hi_ledger _ _ Hh) as Hled.
  split; [exact Hall|]. split; [lia|].
  unfold h_live_count. rewrite (alive_count_objs h []).
  - simpl. lia.
  - constructor.
  - intros v [].
  - intros l. rewrite Hall. split; [discriminate|intros [v [[] _]]].
Qed.

(* a run that halted: dropping the collector releases every box except the result graph *)
Lemma drop_keeps_result : forall prog v s', halted_at prog v s' ->
  exists g' h, gc_destroy (v_heap s') (v_gc s') = Ok (g', h)
    /\ val_ok h v = true
    /\ (forall l, reach (v_heap s') [v] l ->
          PM.find l (cells h) = PM.find l (cells (v_heap s')) /\ h_alive h l = true)
    /\ (forall l, reach h [v] l <-> reach (v_heap s') [v] l)
    /\ (forall l, h_alive h l = true <-> reach h [v] l)
    /\ (forall la a vs x, reach h [v] la -> PM.find la (cells h) = Some (a, OArr vs) -> In x vs ->
          val_ok h x = true)
    /\ h_live_count h = Z.of_nat (alive_count h).
Proof.
  intros prog v s' [sp [H [Hv [Hh Hu]]]]. rewrite Hh. set (hp := v_heap sp) in *. set (g := v_gc sp) in *.
  pose proof (si_heap _ _ H) as Hhi. fold hp g in Hhi. pose proof (hi_gc _ _ Hhi) as Hg.
  assert (Hvok : val_ok hp v = true) by (subst v; apply (si_final _ _ H)).
  assert (Hro : roots_ok hp [v]) by (intros x [<-|[]]; exact Hvok).
  pose proof (oks_roots_managed hp g [v] Hhi Hro) as Hrm.
  destruct (untrace_strong hp g v Hg Hrm Hro) as [g1 [Hu1 [Hnd [Hincl [Hkept Hrem]]]]].
  rewrite Hu in Hu1. inversion Hu1; subst g1. clear Hu1. set (g' := v_gc s') in *.
  assert (Hhv' : forall x, In x (objects g') -> is_heap_val x = true)
    by (intros x Hx; apply (inv_heap_vals _ _ Hg), Hincl, Hx).
  assert (Hok' : oks hp (objects g')) by (intros x Hx; apply (inv_ok _ _ Hg), Hincl, Hx).
  destruct (destroy_weak_g hp g' Hhv' Hnd Hok') as [g2 [h [E [Hdead [Hsame [Hnf Hna]]]]]].
  exists g2, h. split; [exact E|].
  (* a reachable box is not held by what is left of the collector *)
  assert (Hnh : forall l, reach hp [v] l -> ~ holds (objects g') l).
  { intros l Hr [x [Hx Hl]]. exact (Hkept x l Hx Hl Hr). }
  assert (Hcell : forall l, reach hp [v] l -> PM.find l (cells h) = PM.find l (cells hp)).
  { intros l Hr. apply Hsame. apply Hnh. exact Hr. }
  assert (Hral : forall l, reach hp [v] l -> h_alive hp l = true).
  { intros l Hr. apply (managed_alive hp g l Hg). apply (reach_managed hp g Hg [v] Hrm l Hr). }
  assert (Hreach : forall l, reach h [v] l <-> reach hp [v] l).
  { intros l. symmetry. apply reach_same_cells. exact Hcell. }
  assert (Halive : forall l, h_alive h l = true <-> reach hp [v] l).
  { intros l. split.
    - intros Ha.
      assert (Hnhl : ~ holds (objects g') l).
      { intros Hc. rewrite (Hdead l Hc) in Ha. discriminate. }
      assert (Hap : h_alive hp l = true) by (unfold h_alive in *; rewrite <- (Hsame l Hnhl); exact Ha).
      destruct (hi_am _ _ Hhi l Hap) as [x [Hx Hl]].
      apply (Hrem x l Hx); [|exact Hl]. intros Hx'. apply Hnhl. exists x. split; assumption.
    - intros Hr. unfold h_alive. rewrite (Hcell l Hr). exact (Hral l Hr). }
  assert (Hokh : forall x, val_ok hp x = true -> (forall l, val_loc x = Some l -> reach hp [v] l) ->
                           val_ok h x = true).
  { intros x Hx Hl. rewrite <- Hx. apply val_ok_cells_eq. intros l El. apply Hcell. apply Hl. exact El. }
  split.
  { apply Hokh; [exact Hvok|]. intros l El. eapply reach_root; [left; reflexivity|exact El]. }
  split.
  { intros l Hr. split; [apply Hcell; exact Hr|]. apply Halive. exact Hr. }
  split; [exact Hreach|].
  split; [intros l; rewrite Hreach; apply Halive|].
  split.
  { intros la a vs x Hr Hf Hin. apply Hreach in Hr. rewrite (Hcell la Hr) in Hf.
    apply Hokh.
    - eapply (inv_elems_ok _ _ Hg); [apply (reach_managed hp g Hg [v] Hrm la Hr)|exact Hf|exact Hin].
    - intros l El. eapply reach_elem; eassumption. }
  (* the ledger: what is still counted alive are the boxes untrace took out of the collector *)
  set (removed := filter (notin (objects g')) (objects g)).
  assert (Hholds : forall l, holds removed l <-> reach hp [v] l).
  { intros l. unfold removed, holds. split.
    - intros [x [Hx Hl]]. apply filter_In in Hx. destruct Hx as [Hx Hn]. unfold notin in Hn.
      destruct (in_dec val_eq_dec x (objects g')) as [Hi|Hni]; [discriminate|].
      exact (Hrem x l Hx Hni Hl).
    - intros Hr. destruct (reach_managed hp g Hg [v] Hrm l Hr) as [x [Hx Hl]].
      exists x. split; [|exact Hl]. apply filter_In. split; [exact Hx|]. unfold notin.
      destruct (in_dec val_eq_dec x (objects g')) as [Hi|Hni]; [|reflexivity].
      exfalso. exact (Hkept x l Hi Hl Hr). }
  assert (Hcount : alive_count h = length removed).
  { apply alive_count_objs.
    - unfold removed. apply NoDup_map_filter. apply (inv_nodup _ _ Hg).
    - intros x Hx. apply filter_In in Hx. apply (inv_heap_vals _ _ Hg). exact (proj1 Hx).
    - intros l. rewrite Hholds. apply Halive. }
  pose proof (length_removed (objects g') (objects g)
                (NoDup_map_inv _ _ Hnd) (NoDup_map_inv _ _ (inv_nodup _ _ Hg)) Hincl) as Hlen.
  fold removed in Hlen.
  pose proof (hi_ledger _ _ Hhi) as Hled.
  unfold h_live_count. rewrite Hcount, Hna, Hnf. lia.
Qed.

(** * Whole runs *)

(* the invariant along the dispatch loop (induction on the budget): at every exit other than Halt
   - a run-time error, a fault, the budget - the state at the exit satisfies it *)
Theorem vm_inv_run_loop : forall orc prog n s r s' k, VMInv prog s ->
  run_loop orc prog n s = (r, s', k) ->
  match r with Ok v => halted_at prog v s' | _ => VMInv prog s' end.
Proof.
  intros orc prog n s r s' k H E. apply vminv_sinv in H.
  destruct (run_loop_spec orc prog n s r s' k H E) as [_ Hr].
  destruct r as [v|er|f|]; [exact Hr|apply vminv_sinv; exact Hr|apply vminv_sinv; exact (proj1 Hr)
                            |apply vminv_sinv; exact Hr].
Qed.

Lemma run_program_unfold : forall orc bc n r out steps oh,
  run_program orc bc n = mkObs r out steps oh ->
  exists consts h0 s k,
    load_consts (b_constants bc) empty_heap = (consts, h0)
    /\ run_loop orc (mkProgram (b_code bc) consts) n (vm_start vm_new consts h0) = (r, s, k)
    /\ oh = (do (g, h) <- gc_destroy (v_heap s) (v_gc s); Ok h).
Proof.
  intros orc bc n r out steps oh E. unfold run_program in E.
  destruct (load_consts (b_constants bc) empty_heap) as [consts h0] eqn:El.
  cbv zeta in E.
  destruct (run_loop orc (mkProgram (b_code bc) consts) n (vm_start vm_new consts h0)) as [[r0 s] k] eqn:Er.
  inversion E; subst. exists consts, h0, s, k. split; [reflexivity|]. split; [exact Er|reflexivity].
Qed.

(* C04, the headline.  Every bytecode, every budget (the budget exit takes the path of a run-time
   error, so this covers an abort after any number of instructions): dropping the collector never
   faults, the ledger then counts exactly the boxes still alive, and
   - after an error, a fault or an abort no box is alive: everything allocated was released once;
   - after a normal end the boxes alive are exactly those reachable from the result, the result
     graph is well formed (every value in it points to a live box of its kind), so the caller
     can release it, each box once, and nothing remains. *)
Theorem ledger_balanced : forall orc bc n r out steps oh,
  run_program orc bc n = mkObs r out steps oh ->
  exists h, oh = Ok h
    /\ h_live_count h = Z.of_nat (alive_count h)
    /\ match r with
       | Ok v =>
           val_ok h v = true
           /\ (forall l, h_alive h l = true <-> reach h [v] l)
           /\ (forall la a vs x, reach h [v] la -> PM.find la (cells h) = Some (a, OArr vs) ->
                                 In x vs -> val_ok h x = true)
       | _ => (forall l, h_alive h l = false) /\ n_alloc h = n_freed h
       end.
Proof.
  intros orc bc n r out steps oh E.
  destruct (run_program_unfold orc bc n r out steps oh E) as [consts [h0 [s [k [El [Er ->]]]]]].
  destruct (sinv_initial (b_code bc) (b_constants bc) consts h0 El) as [H0 _].
  destruct (run_loop_spec orc _ n _ r s k H0 Er) as [_ Hr].
  assert (Hbad : SInv (mkProgram (b_code bc) consts) s ->
            exists h, (do (g, h) <- gc_destroy (v_heap s) (v_gc s); Ok h) = Ok h
              /\ h_live_count h = Z.of_nat (alive_count h)
              /\ (forall l, h_alive h l = false) /\ n_alloc h = n_freed h).
  { intros Hs. destruct (drop_all _ s Hs) as [g' [h [Ed [Hall [Hbal Hcnt]]]]].
    exists h. rewrite Ed. repeat split; assumption. }
  destruct r as [v|er|f|].
  - destruct (drop_keeps_result _ v s Hr) as [g' [h [Ed [Hv [_ [_ [Hal [Hel Hcnt]]]]]]]].
    exists h. rewrite Ed. repeat split; try assumption; apply Hal.
  - exact (Hbad Hr).
  - exact (Hbad (proj1 Hr)).
  - exact (Hbad Hr).
Qed.

(* ... and the result graph the caller receives is the one the program built: dropping the
   collector does not touch a box reachable from the result *)
Theorem result_survives_drop : forall orc prog n s v s' k, VMInv prog s ->
  run_loop orc prog n s = (Ok v, s', k) ->
  exists g' h, gc_destroy (v_heap s') (v_gc s') = Ok (g', h)
    /\ (forall l, reach (v_heap s') [v] l ->
          PM.find l (cells h) = PM.find l (cells (v_heap s')) /\ h_alive h l = true)
    /\ (forall l, reach h [v] l <-> reach (v_heap s') [v] l).
Proof.
  intros orc prog n s v s' k H E.
  pose proof (vm_inv_run_loop orc prog n s (Ok v) s' k H E) as Hh. cbn in Hh.
  destruct (drop_keeps_result prog v s' Hh) as [g' [h [Ed [_ [Hpres [Hre _]]]]]].
  exists g', h. split; [exact Ed|]. split; [exact Hpres|exact Hre].
Qed.

(* C03 for whole runs: a run never ends in a use-after-free, a double free or a mistagged box
   (for runs of fewer than 2^60 instructions: see [addr_bounded]) *)
Theorem run_no_heap_fault : forall orc bc n r out steps oh,
  run_program orc bc n = mkObs r out steps oh ->
  Z.of_nat (length (b_constants bc)) + Z.of_nat n + 1 < 2 ^ 60 ->
  forall f, r = Fault f -> non_heap_fault f.
Proof.
  intros orc bc n r out steps oh E Hb f ->.
  destruct (run_program_unfold orc bc n _ out steps oh E) as [consts [h0 [s [k [El [Er _]]]]]].
  destruct (sinv_initial (b_code bc) (b_constants bc) consts h0 El) as [H0 Hn0].
  destruct (run_loop_spec orc _ n _ _ s k H0 Er) as [Hna [Hs Hf]].
  cbn [vm_start v_heap] in Hna.
  pose proof (step_spec orc _ s Hs) as Hsp. rewrite Hf in Hsp. apply Hsp. lia.
Qed.

(** * Non-vacuity: a program that allocates strings and arrays inside a function, drops some of
      them and returns one *)

Definition ex_u : unicode := mkUnicode (fun _ => false) (fun _ => false).
Definition ex_orc : oracle := mkOracle (fun _ => []) (fun _ => Some 1.5%float) (fun x _ => x).
Definition ex_src : text :=
  str_cps "functie f() { stel t = [2.5, ""b""]; [1.5, ""a""] } stel r = f(); r".
Definition ex_bc : bytecode :=
  mkBytecode [KFloat 1.5; KStr [98%N]; KStr [97%N]; KFun 3 1]
    [19; 25; 0; 0; 0; 0; 0; 1; 0; 41; 2; 0; 27; 0; 0; 0; 0; 0; 0; 2;
     0; 41; 2; 0; 23; 0; 3; 0; 29; 0; 0; 0; 3; 0; 1; 28; 0; 0; 24;
     0; 29; 1; 0; 28; 1; 0; 1; 44].

Example ex_compiled : front ex_u ex_orc ex_src = Ok ex_bc.
Proof. vm_compute. reflexivity. Qed.

Definition ex_consts : list val := fst (load_consts (b_constants ex_bc) empty_heap).
Definition ex_h0 : heap := snd (load_consts (b_constants ex_bc) empty_heap).
Definition ex_prog : program := mkProgram (b_code ex_bc) ex_consts.
Definition ex_s0 : vm := vm_start vm_new ex_consts ex_h0.
(* the state after k instructions *)
Definition ex_state (k : nat) : vm := snd (fst (run_loop ex_orc ex_prog k ex_s0)).

Example ex_initial_inv :
  VMInv ex_prog ex_s0 /\ objects (v_gc ex_s0) = [VFloat 1; VStr 2; VStr 3].
Proof.
  split; [|vm_compute; reflexivity].
  apply (vm_inv_initial (b_code ex_bc) (b_constants ex_bc)). vm_compute. reflexivity.
Qed.

(* the 15th instruction is the ReturnValue of f: seven boxes are managed and alive before it; the
   local array t and its string (boxes 4, 5) are garbage; the result [1.5, "a"] (boxes 1, 6, 7)
   and the constants survive *)
Example ex_return_point :
  VMInv ex_prog (ex_state 14) /\ at_return ex_prog (ex_state 14)
  /\ alive_locs (v_heap (ex_state 14)) = [4; 2; 6; 1; 5; 3; 7]%positive
  /\ exists s', step ex_orc ex_prog (ex_state 14) = Ok (Continue s')
       /\ v_stack s' = [VArr 7]
       /\ objects (v_gc s') = [VFloat 1; VStr 2; VStr 3; VStr 6; VArr 7]
       /\ alive_locs (v_heap s') = [2; 6; 1; 3; 7]%positive.
Proof.
  split.
  { assert (E : run_loop ex_orc ex_prog 14 ex_s0 = (OutOfFuel, ex_state 14, 0%nat))
      by (vm_compute; reflexivity).
    exact (vm_inv_run_loop ex_orc ex_prog 14 ex_s0 OutOfFuel _ _ (proj1 ex_initial_inv) E). }
  split; [exists 23; split; [vm_compute; reflexivity|right; vm_compute; reflexivity]|].
  split; [vm_compute; reflexivity|].
  eexists. split; [vm_compute; reflexivity|]. cbn [v_stack v_gc v_heap objects].
  split; [reflexivity|]. split; [reflexivity|]. vm_compute. reflexivity.
Qed.

(* the whole run: it ends normally with the array; after the collector is dropped exactly the
   result graph (the array, its string, and the float constant it shares with the pool) is alive *)
Example ex_run_balanced :
  exists h, run_program ex_orc ex_bc 1000 = mkObs (Ok (VArr 7)) [] 19 (Ok h)
    /\ alive_locs h = [6; 1; 7]%positive /\ n_alloc h = 7 /\ n_freed h = 4.
Proof. eexists. split; [vm_compute; reflexivity|]. vm_compute. repeat split. Qed.

(* the same program ending in a run-time error (index out of range) after the same allocations:
   nothing is left *)
Definition ex_bc_err : bytecode :=
  match front ex_u ex_orc
          (str_cps "functie f() { stel t = [2.5, ""b""]; [1.5, ""a""] } stel r = f(); r[5]") with
  | Ok bc => bc
  | _ => mkBytecode [] []
  end.

Example ex_run_error :
  exists h, run_program ex_orc ex_bc_err 1000 = mkObs (Err EIndexError) [] 19 (Ok h)
    /\ alive_locs h = [] /\ n_alloc h = 7 /\ n_freed h = 7.
Proof. eexists. split; [vm_compute; reflexivity|]. vm_compute. repeat split. Qed.

(* ... and aborted by the budget in the middle of f, with the local array allocated *)
Example ex_run_abort :
  exists h, run_program ex_orc ex_bc 12 = mkObs OutOfFuel [] 12 (Ok h)
    /\ alive_locs h = [] /\ n_alloc h = 5 /\ n_freed h = 5.
Proof. eexists. split; [vm_compute; reflexivity|]. vm_compute. repeat split. Qed.

Print Assumptions vm_inv_initial.
Print Assumptions vm_inv_step.
Print Assumptions vm_no_heap_fault.
Print Assumptions vm_step_alloc.
Print Assumptions vm_collect_preserves.
Print Assumptions vm_collect_exact.
Print Assumptions vm_return_total.
Print Assumptions vm_inv_run_loop.
Print Assumptions ledger_balanced.
Print Assumptions result_survives_drop.
Print Assumptions run_no_heap_fault.
Print Assumptions addr_bound_needed.
