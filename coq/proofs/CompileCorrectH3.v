(* CompileCorrectH3.v - compiler correctness for the fragment F2h (property C01), part H3:
   the correspondence between Sem's heap and the machine's heap, and its preservation by the
   value-level operations both sides share.

   The two heaps are related through a relation R between locations (spec/Fragment2h.v: `val_rel`,
   `obj_rel`, `graph_rel`): Sem allocates a box for every evaluation of a literal, the machine
   copies string constants but pushes the pooled box of a float constant.  `HR K R hs hm` adds the
   allocator facts (fresh locations, ledger) and the bound n_alloc hm <= n_alloc hs + K (K: boxes
   of the constant pool).

   "If the arguments are related and the heaps are related then the results and the new heaps are
   related" is proved once per shared function: binop (all 13 methods, any method name), negate,
   lognot, display / print, the six other builtins, call_builtin; and for allocation on both sides,
   allocation on Sem's side only (float literal), and an update of related boxes.  These are
   properties of the functions of Ops.v / Builtins.v under renaming of locations. *)
From Coq Require Import ZArith Lia Bool List String.
From NL.Model Require Import VM.
From NL.Spec Require Import Sem Fragment Fragment2 Fragment2h ArithSpec GCInv.
From NL.Proofs Require Import WordProofs OpsProofs VMGCLedger VMIndexProofs BuiltinsProofs.
Open Scope Z_scope.

(** * Outcomes related *)

Definition orel {A B} (P : A -> B -> Prop) (x : outcome A) (y : outcome B) : Prop :=
  match x, y with
  | Ok a, Ok b => P a b
  | Err k, Err k' => k = k'
  | Fault f, Fault f' => f = f'
  | OutOfFuel, OutOfFuel => True
  | _, _ => False
  end.

Lemma orel_bind : forall A B A' B' (P : A -> B -> Prop) (Q : A' -> B' -> Prop)
  (x : outcome A) (y : outcome B) (k : A -> outcome A') (k' : B -> outcome B'),
  orel P x y -> (forall a b, P a b -> orel Q (k a) (k' b)) -> orel Q (bind x k) (bind y k').
Proof.
  intros A B A' B' P Q x y k k' H Hk.
  destruct x; destruct y; cbn [orel bind] in *; try contradiction; auto.
Qed.

Lemma orel_weaken : forall A B (P Q : A -> B -> Prop) x y,
  (forall a b, P a b -> Q a b) -> orel P x y -> orel Q x y.
Proof. intros A B P Q x y H Hx. destruct x; destruct y; cbn [orel] in *; auto. Qed.

Lemma orel_eq_refl : forall A (x : outcome A), orel eq x x.
Proof. intros A x. destruct x; cbn [orel]; auto. Qed.

(** * Relations on locations *)

Definition rel_incl (R R' : loc_rel) : Prop := forall l l', R l l' -> R' l l'.

Lemma rel_incl_refl : forall R, rel_incl R R.
Proof. intros R l l' H. exact H. Qed.
Lemma rel_incl_trans : forall R1 R2 R3, rel_incl R1 R2 -> rel_incl R2 R3 -> rel_incl R1 R3.
Proof. intros R1 R2 R3 H1 H2 l l' H. apply H2, H1, H. Qed.

Lemma val_rel_mono : forall R R' v v', rel_incl R R' -> val_rel R v v' -> val_rel R' v v'.
Proof. intros R R' v v' Hi H. destruct H; constructor; auto. Qed.

Lemma vals_rel_mono : forall R R' vs vs', rel_incl R R' -> Forall2 (val_rel R) vs vs' -> Forall2 (val_rel R') vs vs'.
Proof. intros R R' vs vs' Hi H. induction H; constructor; [eapply val_rel_mono; eassumption|assumption]. Qed.

Lemma obj_rel_mono : forall R R' o o', rel_incl R R' -> obj_rel R o o' -> obj_rel R' o o'.
Proof.
  intros R R' o o' Hi H. destruct o; destruct o'; cbn [obj_rel] in *; try contradiction; auto.
  eapply vals_rel_mono; eassumption.
Qed.

Lemma val_rel_tag : forall R v v', val_rel R v v' -> val_tag v = val_tag v'.
Proof. intros R v v' H. destruct H; reflexivity. Qed.

(* a scalar is related to itself *)
Lemma val_rel_scalar : forall R v, is_heap_val v = false -> (forall i n, v <> VFun i n) -> val_rel R v v.
Proof.
  intros R v H Hf. destruct v; try discriminate H; try constructor. exfalso. exact (Hf _ _ eq_refl).
Qed.

(** * One heap: the allocator's facts *)

Record heap_ok (h : heap) : Prop := mkHO {
  ho_fresh : forall l, (next_loc h <= l)%positive -> PM.find l (cells h) = None;
  ho_next : Zpos (next_loc h) = n_alloc h + 1
}.

Lemma heap_ok_empty : heap_ok empty_heap.
Proof. split; [intros l _; apply PM.gempty|reflexivity]. Qed.

Lemma heap_ok_alloc : forall h o, heap_ok h -> heap_ok (snd (h_alloc h o)).
Proof.
  intros h o [F N]. split; cbn [h_alloc snd cells next_loc n_alloc].
  - intros l Hl. rewrite PM.gso by lia. apply F. lia.
  - lia.
Qed.

Lemma h_get_lt : forall h l o, heap_ok h -> h_get h l = Ok o -> (l < next_loc h)%positive.
Proof.
  intros h l o [F _] H. destruct (Pos.ltb_spec l (next_loc h)) as [Hlt|Hge]; [exact Hlt|].
  unfold h_get in H. rewrite (F l Hge) in H. discriminate H.
Qed.

Lemma heap_ok_set_cell : forall h l o o0, heap_ok h -> h_get h l = Ok o0 -> heap_ok (VMIndexProofs.set_cell h l o).
Proof.
  intros h l o o0 Hok G. pose proof (h_get_lt h l o0 Hok G) as Hlt. destruct Hok as [F N].
  split; unfold VMIndexProofs.set_cell; cbn [cells next_loc n_alloc]; [|exact N].
  intros k Hk. rewrite PM.gso by lia. apply F. exact Hk.
Qed.

Lemma heap_ok_small : forall h l o B, heap_ok h -> h_get h l = Ok o -> n_alloc h + 1 <= B -> Zpos l < B.
Proof.
  intros h l o B Hok G Hb. pose proof (h_get_lt h l o Hok G) as Hlt. destruct Hok as [_ N]. lia.
Qed.

Lemma alloc_str_eq : forall h s, alloc_str h s = (VStr (next_loc h), snd (h_alloc h (OStr s))).
Proof. reflexivity. Qed.
Lemma alloc_float_eq : forall h x, alloc_float h x = (VFloat (next_loc h), snd (h_alloc h (OFloat x))).
Proof. reflexivity. Qed.

Lemma n_alloc_alloc : forall h o, n_alloc (snd (h_alloc h o)) = n_alloc h + 1.
Proof. reflexivity. Qed.
Lemma next_loc_alloc : forall h o, next_loc (snd (h_alloc h o)) = Pos.succ (next_loc h).
Proof. reflexivity. Qed.

(** * Two heaps related *)

Record HR (K : Z) (R : loc_rel) (hs hm : heap) : Prop := mkHR {
  hr_graph : graph_rel R hs hm;
  hr_oks : heap_ok hs;
  hr_okm : heap_ok hm;
  hr_K : 0 <= K;
  hr_cnt : n_alloc hm <= n_alloc hs + K
}.

(* the address-space bound of a state: Sem's heap, plus the pool, fits in 2^60 *)
Definition small (K : Z) (hs : heap) : Prop := n_alloc hs + K + 1 < 2 ^ 60.

Lemma HR_get : forall K R hs hm l l', HR K R hs hm -> R l l' ->
  exists o o', h_get hs l = Ok o /\ h_get hm l' = Ok o' /\ obj_rel R o o'.
Proof. intros K R hs hm l l' H Hr. exact (gr_obj _ _ _ (hr_graph _ _ _ _ H) l l' Hr). Qed.

Lemma HR_dom : forall K R hs hm l l', HR K R hs hm -> R l l' ->
  (l < next_loc hs)%positive /\ (l' < next_loc hm)%positive.
Proof.
  intros K R hs hm l l' H Hr. destruct (HR_get _ _ _ _ _ _ H Hr) as [o [o' [G1 [G2 _]]]].
  split; [exact (h_get_lt _ _ _ (hr_oks _ _ _ _ H) G1)|exact (h_get_lt _ _ _ (hr_okm _ _ _ _ H) G2)].
Qed.

Lemma HR_small : forall K R hs hm l l', HR K R hs hm -> small K hs -> R l l' ->
  Zpos l <? 2 ^ 60 = true /\ Zpos l' <? 2 ^ 60 = true.
Proof.
  intros K R hs hm l l' H Hs Hr. destruct (HR_dom _ _ _ _ _ _ H Hr) as [D1 D2].
  pose proof (ho_next _ (hr_oks _ _ _ _ H)) as N1. pose proof (ho_next _ (hr_okm _ _ _ _ H)) as N2.
  pose proof (hr_K _ _ _ _ H) as HK. pose proof (hr_cnt _ _ _ _ H) as Hc. unfold small in Hs.
  split; apply Z.ltb_lt; lia.
Qed.

Lemma val_rel_small : forall K R hs hm v v', HR K R hs hm -> small K hs -> val_rel R v v' ->
  loc_small v /\ loc_small v'.
Proof.
  intros K R hs hm v v' H Hs Hv.
  destruct Hv; (split; intros k Hk; cbn [val_loc] in Hk; try discriminate Hk; inversion Hk; subst k);
    match goal with Hr : R _ _ |- _ => destruct (HR_small _ _ _ _ _ _ H Hs Hr) as [S1 S2]; assumption end.
Qed.

Definition extend (R : loc_rel) (a a' : positive) : loc_rel := fun l l' => R l l' \/ (l = a /\ l' = a').

Lemma extend_incl : forall R a a', rel_incl R (extend R a a').
Proof. intros R a a' l l' H. left. exact H. Qed.
Lemma extend_new : forall R a a', extend R a a' a a'.
Proof. intros R a a'. right. split; reflexivity. Qed.

(* both sides allocate related objects *)
Lemma HR_alloc2 : forall K R hs hm o o', HR K R hs hm -> obj_rel R o o' ->
  HR K (extend R (next_loc hs) (next_loc hm)) (snd (h_alloc hs o)) (snd (h_alloc hm o')).
Proof.
  intros K R hs hm o o' H Ho. set (R' := extend R (next_loc hs) (next_loc hm)).
  pose proof (extend_incl R (next_loc hs) (next_loc hm)) as Hi. fold R' in Hi.
  assert (forall l l', R l l' -> l <> next_loc hs /\ l' <> next_loc hm) as Hne.
  { intros l l' Hr. destruct (HR_dom _ _ _ _ _ _ H Hr) as [D1 D2]. split; lia. }
  destruct H as [[G1 G2 G3] O1 O2 HK Hc]. constructor; try assumption.
  - constructor.
    + intros l l' [Hr|[-> ->]].
      * destruct (Hne _ _ Hr) as [N1 N2]. destruct (G1 _ _ Hr) as [x [x' [A [B C]]]].
        exists x, x'. rewrite (h_get_alloc_other hs o l N1), (h_get_alloc_other hm o' l' N2).
        split; [exact A|split; [exact B|exact (obj_rel_mono _ _ _ _ Hi C)]].
      * exists o, o'. rewrite !h_get_alloc_new. split; [reflexivity|split; [reflexivity|exact (obj_rel_mono _ _ _ _ Hi Ho)]].
    + intros l l1 l2 [Hr1|[E1 E1']] [Hr2|[E2 E2']].
      * exact (G2 _ _ _ Hr1 Hr2).
      * exfalso. exact (proj1 (Hne _ _ Hr1) E2).
      * exfalso. exact (proj1 (Hne _ _ Hr2) E1).
      * congruence.
    + intros l1 l2 l' [Hr1|[E1 E1']] [Hr2|[E2 E2']].
      * destruct (G3 _ _ _ Hr1 Hr2) as [E|[f Hf]]; [left; exact E|right].
        exists f. rewrite (h_get_alloc_other hm o' l' (proj2 (Hne _ _ Hr1))). exact Hf.
      * exfalso. exact (proj2 (Hne _ _ Hr1) E2').
      * exfalso. exact (proj2 (Hne _ _ Hr2) E1').
      * left. congruence.
  - apply heap_ok_alloc. exact O1.
  - apply heap_ok_alloc. exact O2.
  - rewrite !n_alloc_alloc. lia.
Qed.

(* Sem allocates a float that the machine already holds in a (pooled, immutable) box *)
Lemma HR_alloc_s : forall K R hs hm f lp, HR K R hs hm -> h_get hm lp = Ok (OFloat f) ->
  HR K (extend R (next_loc hs) lp) (snd (h_alloc hs (OFloat f))) hm.
Proof.
  intros K R hs hm f lp H Hp. set (R' := extend R (next_loc hs) lp).
  pose proof (extend_incl R (next_loc hs) lp) as Hi. fold R' in Hi.
  assert (forall l l', R l l' -> l <> next_loc hs) as Hne.
  { intros l l' Hr. destruct (HR_dom _ _ _ _ _ _ H Hr) as [D1 D2]. lia. }
  destruct H as [[G1 G2 G3] O1 O2 HK Hc]. constructor; try assumption.
  - constructor.
    + intros l l' [Hr|[-> ->]].
      * destruct (G1 _ _ Hr) as [x [x' [A [B C]]]].
        exists x, x'. rewrite (h_get_alloc_other hs (OFloat f) l (Hne _ _ Hr)).
        split; [exact A|split; [exact B|exact (obj_rel_mono _ _ _ _ Hi C)]].
      * exists (OFloat f), (OFloat f). rewrite h_get_alloc_new. split; [reflexivity|split; [exact Hp|reflexivity]].
    + intros l l1 l2 [Hr1|[E1 E1']] [Hr2|[E2 E2']].
      * exact (G2 _ _ _ Hr1 Hr2).
      * exfalso. exact (Hne _ _ Hr1 E2).
      * exfalso. exact (Hne _ _ Hr2 E1).
      * congruence.
    + intros l1 l2 l' [Hr1|[E1 E1']] [Hr2|[E2 E2']].
      * exact (G3 _ _ _ Hr1 Hr2).
      * right. exists f. rewrite E2'. exact Hp.
      * right. exists f. rewrite E1'. exact Hp.
      * left. congruence.
  - apply heap_ok_alloc. exact O1.
  - rewrite n_alloc_alloc. lia.
Qed.

(* related boxes (mutable ones: not floats) are overwritten by related objects *)
Lemma HR_set : forall K R hs hm l l' o0 o0' o o', HR K R hs hm -> R l l' ->
  h_get hs l = Ok o0 -> h_get hm l' = Ok o0' -> (forall f, o0' <> OFloat f) -> obj_rel R o o' ->
  HR K R (VMIndexProofs.set_cell hs l o) (VMIndexProofs.set_cell hm l' o').
Proof.
  intros K R hs hm l l' o0 o0' o o' H Hr Gs Gm Hnf Ho.
  destruct H as [[G1 G2 G3] O1 O2 HK Hc]. constructor; try assumption.
  - constructor.
    + intros a a' Ha. destruct (Pos.eq_dec a l) as [->|Na].
      * rewrite (G2 _ _ _ Ha Hr). exists o, o'. rewrite !h_get_set_cell_same. auto.
      * assert (a' <> l') as Na'.
        { intros ->. destruct (G3 _ _ _ Ha Hr) as [E|[f Hf]]; [exact (Na E)|].
          rewrite Gm in Hf. inversion Hf. exact (Hnf f H0). }
        destruct (G1 _ _ Ha) as [x [x' [A [B C]]]]. exists x, x'.
        rewrite (h_get_set_cell_other hs l o a Na), (h_get_set_cell_other hm l' o' a' Na'). auto.
    + exact G2.
    + intros l1 l2 l'' H1 H2. destruct (G3 _ _ _ H1 H2) as [E|[f Hf]]; [left; exact E|right].
      exists f. rewrite h_get_set_cell_other; [exact Hf|].
      intros ->. rewrite Gm in Hf. inversion Hf. exact (Hnf f H0).
  - exact (heap_ok_set_cell _ _ _ _ O1 Gs).
  - exact (heap_ok_set_cell _ _ _ _ O2 Gm).
Qed.

(** * Reading related boxes *)

Lemma get_float_rel : forall K R hs hm l l', HR K R hs hm -> R l l' ->
  orel eq (get_float hs l) (get_float hm l').
Proof.
  intros K R hs hm l l' H Hr. destruct (HR_get _ _ _ _ _ _ H Hr) as [o [o' [A [B C]]]].
  unfold get_float. rewrite A, B. cbn [bind].
  destruct o; destruct o'; cbn [obj_rel orel] in *; try contradiction; auto.
Qed.

Lemma get_str_rel : forall K R hs hm l l', HR K R hs hm -> R l l' ->
  orel eq (get_str hs l) (get_str hm l').
Proof.
  intros K R hs hm l l' H Hr. destruct (HR_get _ _ _ _ _ _ H Hr) as [o [o' [A [B C]]]].
  unfold get_str. rewrite A, B. cbn [bind].
  destruct o; destruct o'; cbn [obj_rel orel] in *; try contradiction; auto.
Qed.

Lemma get_arr_rel : forall K R hs hm l l', HR K R hs hm -> R l l' ->
  orel (Forall2 (val_rel R)) (get_arr hs l) (get_arr hm l').
Proof.
  intros K R hs hm l l' H Hr. destruct (HR_get _ _ _ _ _ _ H Hr) as [o [o' [A [B C]]]].
  unfold get_arr. rewrite A, B. cbn [bind].
  destruct o; destruct o'; cbn [obj_rel orel] in *; try contradiction; auto.
Qed.

(** * Results of the value-level functions *)

(* what an operation leaves alone on the machine side: the boxes that existed keep their contents,
   and a location that becomes related is either already related or fresh *)
Definition frame (R R' : loc_rel) (hm hm' : heap) : Prop :=
  (forall l o, h_get hm l = Ok o -> h_get hm' l = Ok o) /\
  (forall l l', R' l l' -> R l l' \/ (next_loc hm <= l')%positive).

Lemma frame_refl : forall R hm, frame R R hm hm.
Proof. intros R hm. split; [auto|]. intros l l' Hr. left. exact Hr. Qed.

Lemma frame_alloc : forall R hm a o, heap_ok hm ->
  frame R (extend R a (next_loc hm)) hm (snd (h_alloc hm o)).
Proof.
  intros R hm a o Hok. split.
  - intros l x G. rewrite h_get_alloc_other; [exact G|]. pose proof (h_get_lt _ _ _ Hok G). lia.
  - intros l l' [Hr|[_ ->]]; [left; exact Hr|right; lia].
Qed.

(* value and new heap *)
Definition res_rel (K : Z) (R : loc_rel) (hm : heap) : outcome (val * heap) -> outcome (val * heap) -> Prop :=
  orel (fun x y => exists R', rel_incl R R' /\ val_rel R' (fst x) (fst y) /\ HR K R' (snd x) (snd y)
                              /\ frame R R' hm (snd y)).

Lemma res_rel_same : forall K R hs hm v v', HR K R hs hm -> val_rel R v v' ->
  res_rel K R hm (Ok (v, hs)) (Ok (v', hm)).
Proof.
  intros K R hs hm v v' H Hv. exists R. split; [apply rel_incl_refl|]. split; [exact Hv|].
  split; [exact H|apply frame_refl].
Qed.

Lemma res_rel_alloc_str : forall K R hs hm s, HR K R hs hm ->
  res_rel K R hm (Ok (alloc_str hs s)) (Ok (alloc_str hm s)).
Proof.
  intros K R hs hm s H. rewrite !alloc_str_eq. exists (extend R (next_loc hs) (next_loc hm)). cbn [fst snd].
  split; [apply extend_incl|]. split; [constructor; apply extend_new|].
  split; [apply HR_alloc2; [exact H|reflexivity]|apply frame_alloc; exact (hr_okm _ _ _ _ H)].
Qed.

Lemma res_rel_alloc_float : forall K R hs hm x, HR K R hs hm ->
  res_rel K R hm (Ok (alloc_float hs x)) (Ok (alloc_float hm x)).
Proof.
  intros K R hs hm x H. rewrite !alloc_float_eq. exists (extend R (next_loc hs) (next_loc hm)). cbn [fst snd].
  split; [apply extend_incl|]. split; [constructor; apply extend_new|].
  split; [apply HR_alloc2; [exact H|reflexivity]|apply frame_alloc; exact (hr_okm _ _ _ _ H)].
Qed.

Lemma decode_w_int : forall z, in_int_range z = true -> decode (w_int z) = Some (VInt z).
Proof. intros z Hz. rewrite <- encode_int. exact (decode_encode (VInt z) Hz). Qed.

(** ** lognot, negate *)

Lemma lognot_rel : forall R v v', val_rel R v v' -> orel (val_rel R) (lognot v) (lognot v').
Proof. intros R v v' H. destruct H; cbn [lognot orel]; auto. constructor. Qed.

Lemma negate_rel : forall K R hs hm v v', HR K R hs hm -> val_rel R v v' ->
  res_rel K R hm (negate hs v) (negate hm v').
Proof.
  intros K R hs hm v v' H Hv. destruct Hv; cbn [negate]; try exact eq_refl.
  - destruct (checked_int (if fits_isize (- z) then Some (- z) else None)) as [w|] eqn:Ec; [|exact eq_refl].
    destruct (checked_int_some _ _ Ec) as [z' [Hz' ->]]. rewrite (decode_w_int z' Hz').
    apply res_rel_same; [exact H|constructor].
  - pose proof (get_float_rel _ _ _ _ _ _ H H0) as Hg.
    destruct (get_float hs l) as [x| | |]; destruct (get_float hm l') as [y| | |]; cbn [orel bind] in *;
      try contradiction; try assumption. subst y.
    apply (res_rel_alloc_float K R hs hm (- x)%float H).
Qed.

(** ** binop: all methods *)

(* what a heap word points to, on both sides *)
Lemma deref_rel : forall K R hs hm v v' l l', HR K R hs hm -> small K hs -> val_rel R v v' ->
  val_loc v = Some l -> val_loc v' = Some l' -> R l l' ->
  exists o o', deref_heap hs (encode v) = Some o /\ deref_heap hm (encode v') = Some o' /\ obj_rel R o o'.
Proof.
  intros K R hs hm v v' l l' H Hs Hv Hl Hl' Hr.
  destruct (val_rel_small _ _ _ _ _ _ H Hs Hv) as [S1 S2].
  rewrite (deref_small hs v l S1 Hl), (deref_small hm v' l' S2 Hl').
  destruct (HR_get _ _ _ _ _ _ H Hr) as [o [o' [A [B C]]]]. rewrite A, B. exists o, o'. auto.
Qed.

Section Methods.
  Variable orc : oracle.
  Variables (K : Z) (R : loc_rel) (hs hm : heap).
  Hypothesis H : HR K R hs hm.
  Hypothesis Hsmall : small K hs.

  Lemma w_arith_rel : forall sym chk a a' b b', val_rel R a a' -> val_rel R b b' ->
    w_arith (deref_heap hs) orc sym chk (encode a) (encode b)
    = w_arith (deref_heap hm) orc sym chk (encode a') (encode b').
  Proof.
    intros sym chk a a' b b' Ha Hb. unfold w_arith. rewrite !tag_encode_all.
    rewrite <- (val_rel_tag _ _ _ Ha), <- (val_rel_tag _ _ _ Hb).
    destruct (tag_eqb (val_tag a) (val_tag b)) eqn:Et; cbn [negb]; [|reflexivity].
    apply tag_eqb_iff in Et.
    destruct Ha as [|x|x|l l' Hl|l l' Hl|l l' Hl]; cbn [val_tag] in *; try reflexivity.
    - (* ints: the same words *)
      destruct Hb; cbn [val_tag] in Et; try discriminate Et. reflexivity.
    - (* floats *)
      destruct Hb as [|y|y|k k' Hk|k k' Hk|k k' Hk]; cbn [val_tag] in Et; try discriminate Et.
      destruct (deref_rel K R hs hm (VFloat l) (VFloat l') l l' H Hsmall (VR_float R l l' Hl) eq_refl eq_refl Hl)
        as [o [o' [A1 [A2 A3]]]].
      destruct (deref_rel K R hs hm (VFloat k) (VFloat k') k k' H Hsmall (VR_float R k k' Hk) eq_refl eq_refl Hk)
        as [p [p' [B1 [B2 B3]]]].
      rewrite A1, A2, B1, B2.
      destruct o; destruct o'; cbn [obj_rel] in A3; try contradiction; try reflexivity.
      subst f0.
      destruct p; destruct p'; cbn [obj_rel] in B3; try contradiction; try reflexivity.
      subst f1. reflexivity.
  Qed.

  Lemma w_eq_rel : forall a a' b b', val_rel R a a' -> val_rel R b b' -> val_tag a = val_tag b ->
    w_eq (deref_heap hs) (val_tag a) (encode a) (encode b)
    = w_eq (deref_heap hm) (val_tag a) (encode a') (encode b').
  Proof.
    intros a a' b b' Ha Hb Et.
    destruct Ha as [|x|x|l l' Hl|l l' Hl|l l' Hl]; cbn [val_tag] in *;
      destruct Hb as [|y|y|k k' Hk|k k' Hk|k k' Hk]; cbn [val_tag] in Et; try discriminate Et;
      cbn [w_eq]; try reflexivity.
    - destruct (deref_rel K R hs hm (VFloat l) (VFloat l') l l' H Hsmall (VR_float R l l' Hl) eq_refl eq_refl Hl)
        as [o [o' [A1 [A2 A3]]]].
      destruct (deref_rel K R hs hm (VFloat k) (VFloat k') k k' H Hsmall (VR_float R k k' Hk) eq_refl eq_refl Hk)
        as [p [p' [B1 [B2 B3]]]].
      rewrite A1, A2, B1, B2.
      destruct o; destruct o'; cbn [obj_rel] in A3; try contradiction; try reflexivity.
      subst f0.
      destruct p; destruct p'; cbn [obj_rel] in B3; try contradiction; try reflexivity.
      subst f1. reflexivity.
    - destruct (deref_rel K R hs hm (VStr l) (VStr l') l l' H Hsmall (VR_str R l l' Hl) eq_refl eq_refl Hl)
        as [o [o' [A1 [A2 A3]]]].
      destruct (deref_rel K R hs hm (VStr k) (VStr k') k k' H Hsmall (VR_str R k k' Hk) eq_refl eq_refl Hk)
        as [p [p' [B1 [B2 B3]]]].
      rewrite A1, A2, B1, B2.
      destruct o; destruct o'; cbn [obj_rel] in A3; try contradiction; try reflexivity.
      subst s0.
      destruct p; destruct p'; cbn [obj_rel] in B3; try contradiction; try reflexivity.
      subst s1. reflexivity.
  Qed.

  Lemma w_pcmp_rel : forall a a' b b', val_rel R a a' -> val_rel R b b' -> val_tag a = val_tag b ->
    w_partial_cmp (deref_heap hs) (val_tag a) (encode a) (encode b)
    = w_partial_cmp (deref_heap hm) (val_tag a) (encode a') (encode b').
  Proof.
    intros a a' b b' Ha Hb Et.
    destruct Ha as [|x|x|l l' Hl|l l' Hl|l l' Hl]; cbn [val_tag] in *;
      destruct Hb as [|y|y|k k' Hk|k k' Hk|k k' Hk]; cbn [val_tag] in Et; try discriminate Et;
      cbn [w_partial_cmp]; try reflexivity.
    - destruct (deref_rel K R hs hm (VFloat l) (VFloat l') l l' H Hsmall (VR_float R l l' Hl) eq_refl eq_refl Hl)
        as [o [o' [A1 [A2 A3]]]].
      destruct (deref_rel K R hs hm (VFloat k) (VFloat k') k k' H Hsmall (VR_float R k k' Hk) eq_refl eq_refl Hk)
        as [p [p' [B1 [B2 B3]]]].
      rewrite A1, A2, B1, B2.
      destruct o; destruct o'; cbn [obj_rel] in A3; try contradiction; try reflexivity.
      subst f0.
      destruct p; destruct p'; cbn [obj_rel] in B3; try contradiction; try reflexivity.
      subst f1. reflexivity.
    - destruct (deref_rel K R hs hm (VStr l) (VStr l') l l' H Hsmall (VR_str R l l' Hl) eq_refl eq_refl Hl)
        as [o [o' [A1 [A2 A3]]]].
      destruct (deref_rel K R hs hm (VStr k) (VStr k') k k' H Hsmall (VR_str R k k' Hk) eq_refl eq_refl Hk)
        as [p [p' [B1 [B2 B3]]]].
      rewrite A1, A2, B1, B2.
      destruct o; destruct o'; cbn [obj_rel] in A3; try contradiction; try reflexivity.
      subst s0.
      destruct p; destruct p'; cbn [obj_rel] in B3; try contradiction; try reflexivity.
      subst s1. reflexivity.
  Qed.

  Lemma w_cmp_rel : forall sym ord a a' b b', val_rel R a a' -> val_rel R b b' ->
    w_cmp (deref_heap hs) sym ord (encode a) (encode b)
    = w_cmp (deref_heap hm) sym ord (encode a') (encode b').
  Proof.
    intros sym ord a a' b b' Ha Hb. unfold w_cmp. rewrite !tag_encode_all.
    rewrite <- (val_rel_tag _ _ _ Ha), <- (val_rel_tag _ _ _ Hb).
    destruct (tag_eqb (val_tag a) (val_tag b)) eqn:Et; cbn [negb]; [|reflexivity].
    apply tag_eqb_iff in Et.
    destruct (tag_eqb (val_tag a) TArray || (ord && tag_eqb (val_tag a) TFunction)); [reflexivity|].
    unfold cmp_sym. rewrite (w_eq_rel a a' b b' Ha Hb Et), (w_pcmp_rel a a' b b' Ha Hb Et). reflexivity.
  Qed.

  Lemma w_logical_rel : forall sym a a' b b', val_rel R a a' -> val_rel R b b' ->
    w_logical sym (encode a) (encode b) = w_logical sym (encode a') (encode b').
  Proof.
    intros sym a a' b b' Ha Hb. unfold w_logical. rewrite !tag_encode_all.
    rewrite <- (val_rel_tag _ _ _ Ha), <- (val_rel_tag _ _ _ Hb).
    destruct Ha; cbn [val_tag]; try reflexivity. destruct Hb; cbn [val_tag]; reflexivity.
  Qed.

  Lemma w_method_rel : forall m a a' b b', val_rel R a a' -> val_rel R b b' ->
    w_method (deref_heap hs) orc m (encode a) (encode b)
    = w_method (deref_heap hm) orc m (encode a') (encode b').
  Proof.
    intros m a a' b b' Ha Hb. unfold w_method.
    destruct (assoc3 m arith_methods) as [[sym chk]|]; [apply w_arith_rel; assumption|].
    destruct (assoc3 m cmp_methods) as [[sym ord]|]; [apply w_cmp_rel; assumption|].
    destruct (assoc2 m logical_methods) as [sym|]; [apply w_logical_rel; assumption|reflexivity].
  Qed.

  (* a word result of a method is an integer or a boolean *)
  Lemma w_method_word : forall d m x y w, w_method d orc m x y = WWord w ->
    (exists z, in_int_range z = true /\ w = w_int z) \/ (exists b, w = w_bool b).
  Proof.
    intros d m x y w. unfold w_method.
    destruct (assoc3 m arith_methods) as [[sym chk]|].
    { unfold w_arith. destruct (w_tag x) as [ta|]; [|discriminate]. destruct (w_tag y) as [tb|]; [|discriminate].
      destruct (negb (tag_eqb ta tb)); [discriminate|].
      destruct ta; try discriminate.
      - destruct (checked_int _) as [w0|] eqn:Ec; [|discriminate]. intros E; inversion E; subst w0.
        left. exact (checked_int_some _ _ Ec).
      - destruct (d x) as [[f|s|vs]|]; try discriminate; destruct (d y) as [[g|s'|vs']|]; try discriminate.
        destruct (float_arith orc sym f g); discriminate. }
    destruct (assoc3 m cmp_methods) as [[sym ord]|].
    { unfold w_cmp. destruct (w_tag x) as [ta|]; [|discriminate]. destruct (w_tag y) as [tb|]; [|discriminate].
      destruct (negb (tag_eqb ta tb)); [discriminate|].
      destruct (tag_eqb ta TArray || (ord && tag_eqb ta TFunction)); [discriminate|].
      destruct (cmp_sym d sym ta x y) as [r|]; [|discriminate]. intros E; inversion E. right. exists r. reflexivity. }
    destruct (assoc2 m logical_methods) as [sym|]; [|discriminate].
    unfold w_logical. destruct (w_tag x) as [[]|]; try discriminate; destruct (w_tag y) as [[]|]; try discriminate.
    destruct (String.eqb sym "&&"); [intros E; inversion E; right; eexists; reflexivity|].
    destruct (String.eqb sym "||"); [intros E; inversion E; right; eexists; reflexivity|discriminate].
  Qed.

  Theorem binop_rel : forall m a a' b b', val_rel R a a' -> val_rel R b b' ->
    res_rel K R hm (binop orc m hs a b) (binop orc m hm a' b').
  Proof.
    intros m a a' b b' Ha Hb. unfold binop. rewrite <- (w_method_rel m a a' b b' Ha Hb).
    destruct (w_method (deref_heap hs) orc m (encode a) (encode b)) as [w|f|k|f] eqn:E;
      cbn [lift_wres]; try exact eq_refl.
    - destruct (w_method_word _ _ _ _ _ E) as [[z [Hz ->]]|[bb ->]].
      + rewrite (decode_w_int z Hz). apply res_rel_same; [exact H|constructor].
      + assert (decode (w_bool bb) = Some (VBool bb)) as -> by (destruct bb; reflexivity).
        apply res_rel_same; [exact H|constructor].
    - exact (res_rel_alloc_float K R hs hm f H).
  Qed.
End Methods.

(** ** display, print *)

Section Display.
  Variable orc : oracle.
  Variables (K : Z) (R : loc_rel) (hs hm : heap).
  Hypothesis H : HR K R hs hm.

  Lemma show_list_rel : forall f,
    (forall v v', val_rel R v v' -> orel eq (show_val orc f hs v) (show_val orc f hm v')) ->
    forall vs vs' first, Forall2 (val_rel R) vs vs' ->
    orel eq (show_list orc f hs vs first) (show_list orc f hm vs' first).
  Proof.
    intros f IH vs vs' first HF. revert first. induction HF as [|v v' r r' Hv Hr IHr]; intros first.
    - reflexivity.
    - rewrite !show_list_cons.
      apply (orel_bind _ _ _ _ eq eq); [apply IH; exact Hv|]. intros t t' <-.
      apply (orel_bind _ _ _ _ eq eq); [apply IHr|]. intros rest rest' <-. reflexivity.
  Qed.

  Theorem show_val_rel : forall fuel v v', val_rel R v v' ->
    orel eq (show_val orc fuel hs v) (show_val orc fuel hm v').
  Proof.
    induction fuel as [|f IH]; intros v v' Hv; [exact I|].
    rewrite !show_val_S. destruct Hv as [|b|z|l l' Hl|l l' Hl|l l' Hl]; try reflexivity.
    - apply (orel_bind _ _ _ _ eq eq); [exact (get_float_rel _ _ _ _ _ _ H Hl)|]. intros x x' <-. reflexivity.
    - exact (get_str_rel _ _ _ _ _ _ H Hl).
    - apply (orel_bind _ _ _ _ (Forall2 (val_rel R)) eq); [exact (get_arr_rel _ _ _ _ _ _ H Hl)|].
      intros vs vs' Hvs.
      apply (orel_bind _ _ _ _ eq eq); [apply show_list_rel; [exact IH|exact Hvs]|]. intros t t' <-. reflexivity.
  Qed.

  Lemma display_rel : forall v v', val_rel R v v' -> orel eq (display orc hs v) (display orc hm v').
  Proof. intros v v' Hv. apply show_val_rel. exact Hv. Qed.

  Lemma fill_rel : forall args args', Forall2 (val_rel R) args args' ->
    forall rest, orel eq (fill orc hs rest args) (fill orc hm rest args').
  Proof.
    intros args args' HF. induction HF as [|a a' r r' Ha Hr IH]; intros rest; cbn [fill]; [reflexivity|].
    destruct (find_placeholder rest) as [[before after]|]; [|reflexivity].
    apply (orel_bind _ _ _ _ eq eq); [exact (display_rel a a' Ha)|]. intros t t' <-.
    apply (orel_bind _ _ _ _ eq eq); [apply IH|]. intros tl tl' <-. reflexivity.
  Qed.

  Theorem call_print_rel : forall args args', Forall2 (val_rel R) args args' ->
    orel eq (call_print orc hs args) (call_print orc hm args').
  Proof.
    intros args args' HF. destruct HF as [|a a' r r' Ha Hr]; cbn [call_print]; [reflexivity|].
    apply (orel_bind _ _ _ _ eq eq); [exact (display_rel a a' Ha)|]. intros t t' <-.
    apply (orel_bind _ _ _ _ eq eq); [exact (fill_rel r r' Hr t)|]. intros s s' <-. reflexivity.
  Qed.
End Display.

(** ** the other builtins *)

Section Builtins.
  Variable orc : oracle.
  Variables (K : Z) (R : loc_rel) (hs hm : heap).
  Hypothesis H : HR K R hs hm.

  Lemma one_arg_rel : forall A B (P : A -> B -> Prop) args args' (k : val -> outcome A) (k' : val -> outcome B),
    Forall2 (val_rel R) args args' ->
    (forall a a', val_rel R a a' -> orel P (k a) (k' a')) ->
    orel P (one_arg args k) (one_arg args' k').
  Proof.
    intros A B P args args' k k' HF Hk. unfold one_arg.
    destruct HF as [|a a' r r' Ha Hr]; [reflexivity|]. destruct Hr; [apply Hk; exact Ha|reflexivity].
  Qed.

  Lemma call_type_rel : forall args args', Forall2 (val_rel R) args args' ->
    res_rel K R hm (call_type hs args) (call_type hm args').
  Proof.
    intros args args' HF. unfold call_type. apply one_arg_rel; [exact HF|]. intros a a' Ha.
    rewrite <- (val_rel_tag _ _ _ Ha). exact (res_rel_alloc_str K R hs hm _ H).
  Qed.

  Lemma call_string_rel : forall args args', Forall2 (val_rel R) args args' ->
    res_rel K R hm (call_string orc hs args) (call_string orc hm args').
  Proof.
    intros args args' HF. unfold call_string. apply one_arg_rel; [exact HF|]. intros a a' Ha.
    destruct Ha as [|b|z|l l' Hl|l l' Hl|l l' Hl]; try exact (res_rel_alloc_str K R hs hm _ H); try exact eq_refl.
    - pose proof (get_float_rel _ _ _ _ _ _ H Hl) as Hg.
      destruct (get_float hs l) as [x| | |]; destruct (get_float hm l') as [y| | |]; cbn [orel bind] in *;
        try contradiction; try assumption. subst y. exact (res_rel_alloc_str K R hs hm _ H).
    - apply res_rel_same; [exact H|constructor; exact Hl].
  Qed.

  Lemma res_rel_bool : forall b, res_rel K R hm (Ok (VBool b, hs)) (Ok (VBool b, hm)).
  Proof. intros b. apply res_rel_same; [exact H|constructor]. Qed.

  Lemma call_bool_rel : forall args args', Forall2 (val_rel R) args args' ->
    res_rel K R hm (call_bool hs args) (call_bool hm args').
  Proof.
    intros args args' HF. unfold call_bool. apply one_arg_rel; [exact HF|]. intros a a' Ha.
    destruct Ha as [|b|z|l l' Hl|l l' Hl|l l' Hl]; try apply res_rel_bool.
    - pose proof (get_float_rel _ _ _ _ _ _ H Hl) as Hg.
      destruct (get_float hs l) as [x| | |]; destruct (get_float hm l') as [y| | |]; cbn [orel bind] in *;
        try contradiction; try assumption. subst y. apply res_rel_bool.
    - pose proof (get_str_rel _ _ _ _ _ _ H Hl) as Hg.
      destruct (get_str hs l) as [x| | |]; destruct (get_str hm l') as [y| | |]; cbn [orel bind] in *;
        try contradiction; try assumption. subst y. apply res_rel_bool.
    - pose proof (get_arr_rel _ _ _ _ _ _ H Hl) as Hg.
      destruct (get_arr hs l) as [x| | |]; destruct (get_arr hm l') as [y| | |]; cbn [orel bind] in *;
        try contradiction; try assumption.
      destruct Hg; apply res_rel_bool.
  Qed.

  Lemma ranged_int_rel : forall z, res_rel K R hm (ranged_int hs z) (ranged_int hm z).
  Proof.
    intros z. unfold ranged_int. destruct (in_int_range z); [|exact eq_refl].
    apply res_rel_same; [exact H|constructor].
  Qed.

  Lemma call_int_rel : forall args args', Forall2 (val_rel R) args args' ->
    res_rel K R hm (call_int hs args) (call_int hm args').
  Proof.
    intros args args' HF. unfold call_int. apply one_arg_rel; [exact HF|]. intros a a' Ha.
    destruct Ha as [|b|z|l l' Hl|l l' Hl|l l' Hl]; try apply ranged_int_rel; try exact eq_refl.
    - apply res_rel_same; [exact H|constructor].
    - pose proof (get_float_rel _ _ _ _ _ _ H Hl) as Hg.
      destruct (get_float hs l) as [x| | |]; destruct (get_float hm l') as [y| | |]; cbn [orel bind] in *;
        try contradiction; try assumption. subst y. apply ranged_int_rel.
    - pose proof (get_str_rel _ _ _ _ _ _ H Hl) as Hg.
      destruct (get_str hs l) as [x| | |]; destruct (get_str hm l') as [y| | |]; cbn [orel bind] in *;
        try contradiction; try assumption. subst y.
      destruct (parse_isize (trim x)); [apply ranged_int_rel|exact eq_refl].
  Qed.

  Lemma call_float_rel : forall args args', Forall2 (val_rel R) args args' ->
    res_rel K R hm (call_float orc hs args) (call_float orc hm args').
  Proof.
    intros args args' HF. unfold call_float. apply one_arg_rel; [exact HF|]. intros a a' Ha.
    destruct Ha as [|b|z|l l' Hl|l l' Hl|l l' Hl]; try exact (res_rel_alloc_float K R hs hm _ H); try exact eq_refl.
    - apply res_rel_same; [exact H|constructor; exact Hl].
    - pose proof (get_str_rel _ _ _ _ _ _ H Hl) as Hg.
      destruct (get_str hs l) as [x| | |]; destruct (get_str hm l') as [y| | |]; cbn [orel bind] in *;
        try contradiction; try assumption. subst y.
      destruct (parse_float orc x); [exact (res_rel_alloc_float K R hs hm _ H)|exact eq_refl].
  Qed.

  Lemma Forall2_zlength : forall A B (P : A -> B -> Prop) l l', Forall2 P l l' -> zlength l = zlength l'.
  Proof. intros A B P l l' HF. unfold zlength. induction HF; cbn [length]; lia. Qed.

  Lemma call_length_rel : forall args args', Forall2 (val_rel R) args args' ->
    res_rel K R hm (call_length hs args) (call_length hm args').
  Proof.
    intros args args' HF. unfold call_length. apply one_arg_rel; [exact HF|]. intros a a' Ha.
    destruct Ha as [|b|z|l l' Hl|l l' Hl|l l' Hl]; try exact eq_refl.
    - pose proof (get_str_rel _ _ _ _ _ _ H Hl) as Hg.
      destruct (get_str hs l) as [x| | |]; destruct (get_str hm l') as [y| | |]; cbn [orel bind] in *;
        try contradiction; try assumption. subst y. apply res_rel_same; [exact H|constructor].
    - pose proof (get_arr_rel _ _ _ _ _ _ H Hl) as Hg.
      destruct (get_arr hs l) as [x| | |]; destruct (get_arr hm l') as [y| | |]; cbn [orel bind] in *;
        try contradiction; try assumption.
      rewrite (Forall2_zlength _ _ _ _ _ Hg). apply res_rel_same; [exact H|constructor].
  Qed.

  (* result, new heap, printed text *)
  Definition bres_rel : outcome (val * heap * text) -> outcome (val * heap * text) -> Prop :=
    orel (fun x y => snd x = snd y /\
            exists R', rel_incl R R' /\ val_rel R' (fst (fst x)) (fst (fst y)) /\ HR K R' (snd (fst x)) (snd (fst y))
                       /\ frame R R' hm (snd (fst y))).

  Lemma wrap_rel : forall (rs rm : outcome (val * heap)), res_rel K R hm rs rm ->
    bres_rel (do r <- rs; Ok (r, [])) (do r <- rm; Ok (r, [])).
  Proof.
    intros rs rm Hr. destruct rs as [[v h1]| | |]; destruct rm as [[v' h2]| | |]; cbn [res_rel orel bind bres_rel] in *;
      try contradiction; try assumption. split; [reflexivity|exact Hr].
  Qed.

  Theorem call_builtin_rel : forall b args args', Forall2 (val_rel R) args args' ->
    bres_rel (call_builtin orc b hs args) (call_builtin orc b hm args').
  Proof.
    intros b args args' HF. destruct b; cbn [call_builtin].
    - pose proof (call_print_rel orc K R hs hm H args args' HF) as Hp.
      destruct (call_print orc hs args) as [t| | |]; destruct (call_print orc hm args') as [t'| | |];
        cbn [orel bind bres_rel] in *; try contradiction; try assumption.
      split; [exact Hp|]. exists R. split; [apply rel_incl_refl|]. split; [constructor|].
      split; [exact H|apply frame_refl].
    - apply wrap_rel. apply call_type_rel. exact HF.
    - apply wrap_rel. apply call_bool_rel. exact HF.
    - apply wrap_rel. apply call_float_rel. exact HF.
    - apply wrap_rel. apply call_int_rel. exact HF.
    - apply wrap_rel. apply call_string_rel. exact HF.
    - apply wrap_rel. apply call_length_rel. exact HF.
  Qed.
End Builtins.

(** * The operations never make a heap shrink *)

Definition nalloc_le (h : heap) (r : outcome (val * heap)) : Prop :=
  match r with Ok x => n_alloc h <= n_alloc (snd x) | _ => True end.

Lemma nalloc_le_lift_wres : forall h r, nalloc_le h (lift_wres h r).
Proof.
  intros h r. destruct r; cbn [lift_wres nalloc_le]; try exact I.
  - destruct (decode w); cbn [nalloc_le snd]; [lia|exact I].
  - cbn [h_alloc nalloc_le snd n_alloc]. lia.
Qed.

Lemma binop_grows : forall orc m h a b, nalloc_le h (binop orc m h a b).
Proof. intros. apply nalloc_le_lift_wres. Qed.

Lemma negate_grows : forall h v, nalloc_le h (negate h v).
Proof.
  intros h v. destruct v; cbn [negate nalloc_le]; try exact I.
  - destruct (checked_int _); [|exact I]. destruct (decode z0); cbn [nalloc_le snd]; [lia|exact I].
  - destruct (get_float h l); cbn [bind nalloc_le]; try exact I. cbn [h_alloc nalloc_le snd n_alloc]. lia.
Qed.

Lemma one_arg_grows : forall h args k, (forall a, nalloc_le h (k a)) -> nalloc_le h (one_arg args k).
Proof. intros h args k Hk. unfold one_arg. destruct args as [|a [|b r]]; try exact I. apply Hk. Qed.

Lemma nalloc_le_bind : forall A h (e : outcome A) k, (forall a, nalloc_le h (k a)) -> nalloc_le h (bind e k).
Proof. intros A h e k Hk. destruct e; cbn [bind nalloc_le]; try exact I. apply Hk. Qed.

Lemma alloc_str_grows : forall h s, nalloc_le h (Ok (alloc_str h s)).
Proof. intros. cbn [nalloc_le alloc_str h_alloc snd n_alloc]. lia. Qed.
Lemma alloc_float_grows : forall h x, nalloc_le h (Ok (alloc_float h x)).
Proof. intros. cbn [nalloc_le alloc_float h_alloc snd n_alloc]. lia. Qed.
Lemma same_grows : forall h v, nalloc_le h (Ok (v, h)).
Proof. intros. cbn [nalloc_le snd]. lia. Qed.
Lemma ranged_grows : forall h z, nalloc_le h (ranged_int h z).
Proof. intros. unfold ranged_int. destruct (in_int_range z); [apply same_grows|exact I]. Qed.

Lemma call_builtin_grows : forall orc b h args,
  match call_builtin orc b h args with Ok x => n_alloc h <= n_alloc (snd (fst x)) | _ => True end.
Proof.
  intros orc b h args.
  assert (forall r : outcome (val * heap), nalloc_le h r ->
            match (do x <- r; Ok (x, @nil cp)) with Ok x => n_alloc h <= n_alloc (snd (fst x)) | _ => True end) as W.
  { intros r Hr. destruct r; cbn [bind nalloc_le fst snd] in *; auto. }
  destruct b; cbn [call_builtin].
  - destruct (call_print orc h args); cbn [bind fst snd]; auto. lia.
  - apply W. unfold call_type. apply one_arg_grows. intros a. apply alloc_str_grows.
  - apply W. unfold call_bool. apply one_arg_grows. intros a.
    destruct a; try apply same_grows; try exact I; apply nalloc_le_bind; intros; apply same_grows.
  - apply W. unfold call_float. apply one_arg_grows. intros a.
    destruct a; try apply alloc_float_grows; try apply same_grows; try exact I.
    apply nalloc_le_bind. intros s. destruct (parse_float orc s); [apply alloc_float_grows|exact I].
  - apply W. unfold call_int. apply one_arg_grows. intros a.
    destruct a; try apply ranged_grows; try apply same_grows; try exact I.
    + apply nalloc_le_bind. intros x. apply ranged_grows.
    + apply nalloc_le_bind. intros s. destruct (parse_isize (trim s)); [apply ranged_grows|exact I].
  - apply W. unfold call_string. apply one_arg_grows. intros a.
    destruct a; try apply alloc_str_grows; try apply same_grows; try exact I.
    apply nalloc_le_bind. intros x. apply alloc_str_grows.
  - apply W. unfold call_length. apply one_arg_grows. intros a.
    destruct a; try exact I; apply nalloc_le_bind; intros; apply same_grows.
Qed.

Print Assumptions binop_rel.
Print Assumptions call_builtin_rel.
