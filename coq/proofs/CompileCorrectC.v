(* CompileCorrectC.v - compiler correctness for the fragment F2 (properties C01 / C11), part C:
   the code generator and the machine for `als`, nested blocks, `zolang`, `stop`, `volgende`.

   As in part A an intermediate evaluator (`xeval` / `xwhile` / `xstmts`: names resolved in the
   flat list of live declarations, variables in global slots, heap and collector threaded the way
   the machine threads them, `stop` / `volgende` as results) is simulated by the machine running
   the compiled code.  New with respect to part A:
     - jump instructions and the patches of their operands inside already emitted code,
     - `stop` jumps are patched only when the enclosing loop is finished: code is compared
       with the final program up to "holes" (the operand bytes of pending `stop` jumps), whose
       contents are assumed to be the exit of the loop,
     - nested scopes in the one global context (slots are reused after a scope is left),
     - compile_block_value: the trailing Pop is removed (`c_last`),
     - the loop invariant: at the loop head the stack is (value of the last iteration) :: stack
       before the loop.
   Part D relates the intermediate evaluator to Sem.v and states the theorems. *)
From Coq Require Import ZArith Lia Bool List String.
From NL.Model Require Import VM.
From NL.Spec Require Import Sem Fragment Fragment2 ArithSpec.
From NL.Proofs Require Import WordProofs OpsProofs AstInduction ControlProofs CompileCorrectA.
Open Scope Z_scope.

(** * Code of the final program, up to holes *)

(* the bytes ce stand in prog from offset off on, except possibly at the (absolute) positions H *)
Definition code_x (prog : program) (off : Z) (ce : list Z) (H : list Z) : Prop :=
  0 <= off /\
  forall i b, nth_error ce i = Some b -> ~ In (off + Z.of_nat i) H -> byte_at prog (off + Z.of_nat i) = Some b.

Lemma code_x_app : forall prog off c1 c2 H, code_x prog off (c1 ++ c2) H ->
  code_x prog off c1 H /\ code_x prog (off + zlength c1) c2 H.
Proof.
  intros prog off c1 c2 H [H0 Hc]. split; (split; [pose proof (zlength_nonneg _ c1); lia|]).
  - intros i b Hi Hn. apply Hc; [|exact Hn]. rewrite nth_error_app1; [exact Hi|].
    apply nth_error_Some. rewrite Hi. discriminate.
  - intros i b Hi Hn. unfold zlength in *.
    replace (off + Z.of_nat (length c1) + Z.of_nat i) with (off + Z.of_nat (length c1 + i)) in * by lia.
    apply Hc; [|exact Hn]. rewrite nth_error_app2 by lia.
    replace (length c1 + i - length c1)%nat with i by lia. exact Hi.
Qed.

Lemma code_x_weaken : forall prog off ce H H', code_x prog off ce H -> (forall p, In p H -> In p H') ->
  code_x prog off ce H'.
Proof.
  intros prog off ce H H' [H0 Hc] Hsub. split; [exact H0|]. intros i b Hi Hn. apply Hc; [exact Hi|].
  intros Hin. apply Hn. apply Hsub. exact Hin.
Qed.

(* holes outside the range of ce do not matter *)
Lemma code_x_restrict : forall prog off ce H H', code_x prog off ce H ->
  (forall p, off <= p < off + zlength ce -> In p H -> In p H') -> code_x prog off ce H'.
Proof.
  intros prog off ce H H' [H0 Hc] Hsub. split; [exact H0|]. intros i b Hi Hn. apply Hc; [exact Hi|].
  intros Hin. apply Hn. apply Hsub; [|exact Hin].
  assert (i < length ce)%nat by (apply nth_error_Some; rewrite Hi; discriminate).
  unfold zlength. lia.
Qed.

(* from consecutive bytes of the program to part A's code_at *)
Lemma byte_at_split : forall prog ip b, byte_at prog ip = Some b ->
  0 <= ip /\ exists pre post, p_code prog = pre ++ b :: post /\ zlength pre = ip.
Proof.
  intros prog ip b H. unfold byte_at in H. destruct (ip <? 0) eqn:E; [discriminate H|].
  apply Z.ltb_ge in E. split; [exact E|].
  destruct (nth_error_split _ _ H) as [l1 [l2 [H1 H2]]]. exists l1, l2. split; [exact H1|].
  unfold zlength. rewrite H2. lia.
Qed.

Lemma code_at_bytes1 : forall prog ip a, byte_at prog ip = Some a -> code_at prog ip [a].
Proof.
  intros prog ip a H. destruct (byte_at_split prog ip a H) as [_ [pre [post [H1 H2]]]].
  exists pre, post. split; [exact H1|exact H2].
Qed.

Lemma byte_at_next : forall prog pre a post k b, p_code prog = pre ++ a :: post ->
  byte_at prog (zlength pre + 1 + Z.of_nat k) = Some b -> nth_error post k = Some b.
Proof.
  intros prog pre a post k b Hc H. unfold byte_at in H. pose proof (zlength_nonneg _ pre).
  destruct (zlength pre + 1 + Z.of_nat k <? 0) eqn:E; [apply Z.ltb_lt in E; lia|].
  rewrite Hc in H. unfold zlength in H.
  replace (Z.to_nat (Z.of_nat (length pre) + 1 + Z.of_nat k)) with (length pre + S k)%nat in H by lia.
  rewrite nth_error_app2 in H by lia. replace (length pre + S k - length pre)%nat with (S k) in H by lia.
  exact H.
Qed.

Lemma code_at_bytes3 : forall prog ip a b c, byte_at prog ip = Some a ->
  byte_at prog (ip + 1) = Some b -> byte_at prog (ip + 2) = Some c -> code_at prog ip [a; b; c].
Proof.
  intros prog ip a b c Ha Hb Hc. destruct (byte_at_split prog ip a Ha) as [_ [pre [post [H1 H2]]]].
  subst ip.
  pose proof (byte_at_next prog pre a post 0 b H1) as N0. rewrite Z.add_0_r in N0. specialize (N0 Hb).
  pose proof (byte_at_next prog pre a post 1 c H1) as N1.
  replace (zlength pre + 1 + Z.of_nat 1) with (zlength pre + 2) in N1 by lia. specialize (N1 Hc).
  destruct post as [|b' post]; [discriminate N0|]. cbn [nth_error] in N0, N1. inversion N0; subst b'.
  destruct post as [|c' post]; [discriminate N1|]. cbn [nth_error] in N1. inversion N1; subst c'.
  exists pre, post. split; [exact H1|reflexivity].
Qed.

(* fetching instructions out of code_x *)
Definition holes_free (off : Z) (n : Z) (H : list Z) : Prop := forall p, off <= p < off + n -> ~ In p H.

Lemma code_x_at1 : forall prog off a rest H, code_x prog off (a :: rest) H -> ~ In off H ->
  code_at prog off [a].
Proof.
  intros prog off a rest H [H0 Hc] Hn. apply code_at_bytes1.
  specialize (Hc O a eq_refl). rewrite Z.add_0_r in Hc. apply Hc. exact Hn.
Qed.

Lemma code_x_at3 : forall prog off a b c rest H, code_x prog off (a :: b :: c :: rest) H ->
  holes_free off 3 H -> code_at prog off [a; b; c].
Proof.
  intros prog off a b c rest H [H0 Hc] Hf. apply code_at_bytes3.
  - specialize (Hc O a eq_refl). rewrite Z.add_0_r in Hc. apply Hc. apply Hf. lia.
  - apply (Hc 1%nat b eq_refl). apply Hf. lia.
  - apply (Hc 2%nat c eq_refl). apply Hf. lia.
Qed.

(** * Machine states and the new instructions *)

Definition setx (s : vm) (stk : list val) (n ip : Z) (m : mst) (fin : val) : vm :=
  mkVM stk n (m_gl m) (v_frames s) ip (v_bp s) fin (m_heap m) (m_gc m) (v_out s).

Lemma setm_setx : forall s stk n ip m, setm s stk n ip m = setx s stk n ip m (v_final s).
Proof. reflexivity. Qed.

Lemma setx_eq : forall s stk n ip m fin n' ip', n = n' -> ip = ip' ->
  setx s stk n ip m fin = setx s stk n' ip' m fin.
Proof. intros; subst; reflexivity. Qed.

Lemma mst_of_setx : forall s stk n ip m fin, mst_of (setx s stk n ip m fin) = m.
Proof. intros. destruct m; reflexivity. Qed.

Ltac vmcbn2 :=
  cbn [v_stack v_slen v_globals v_frames v_ip v_bp v_final v_heap v_gc v_out
       upd_stack upd_ip upd_heap upd_globals upd_final upd_out push pop bind fst snd
       m_heap m_gc m_gl mst_of setm setx].

Section Steps2.
  Variable orc : oracle.
  Variable prog : program.

  Ltac decode2 Hc op :=
    unfold step; rewrite (code_at_0 _ _ _ _ Hc); rewrite (opcode_roundtrip op); cbv beta iota zeta.

  Lemma read_u16_gen : forall s ip op v rest,
    code_at prog ip (op :: v mod 256 :: (v / 256) mod 256 :: rest) -> 0 <= v < 65536 ->
    v_ip s = ip + 1 -> read_u16 prog s = Ok (v, upd_ip s (ip + 3)).
  Proof.
    intros s ip op v rest Hc Hv Hip. unfold read_u16. rewrite Hip.
    rewrite (code_at_1 _ _ _ _ _ Hc).
    replace (ip + 1 + 1) with (ip + 2) by lia. rewrite (code_at_2 _ _ _ _ _ _ Hc).
    rewrite (u16_roundtrip v Hv). replace (ip + 1 + 2) with (ip + 3) by lia. reflexivity.
  Qed.

  Lemma step_null : forall s rest, code_at prog (v_ip s) (byte_of_opcode ONull :: rest) ->
    step orc prog s = Ok (Continue (setm s (VNull :: v_stack s) (v_slen s + 1) (v_ip s + 1) (mst_of s))).
  Proof. intros s rest Hc. decode2 Hc ONull. reflexivity. Qed.

  Lemma step_jump : forall s v rest,
    code_at prog (v_ip s) (byte_of_opcode OJump :: v mod 256 :: (v / 256) mod 256 :: rest) ->
    0 <= v < 65536 ->
    step orc prog s = Ok (Continue (setm s (v_stack s) (v_slen s) v (mst_of s))).
  Proof.
    intros s v rest Hc Hv. decode2 Hc OJump.
    rewrite (read_u16_gen (upd_ip s (v_ip s + 1)) (v_ip s) _ v rest Hc Hv eq_refl). reflexivity.
  Qed.

  Lemma step_jif : forall s v c stk rest,
    code_at prog (v_ip s) (byte_of_opcode OJumpIfFalse :: v mod 256 :: (v / 256) mod 256 :: rest) ->
    0 <= v < 65536 -> v_stack s = c :: stk ->
    step orc prog s =
    match c with
    | VBool b => Ok (Continue (setm s stk (v_slen s - 1) (if b then v_ip s + 3 else v) (mst_of s)))
    | _ => Err ETypeError
    end.
  Proof.
    intros s v c stk rest Hc Hv Hs. decode2 Hc OJumpIfFalse. unfold pop. vmcbn2. rewrite Hs. vmcbn2.
    destruct c as [|b| | | | |]; try reflexivity.
    rewrite (read_u16_gen (upd_stack (upd_ip s (v_ip s + 1)) stk (v_slen s - 1)) (v_ip s) _ v rest Hc Hv eq_refl).
    vmcbn2. destruct b; reflexivity.
  Qed.
End Steps2.
