(* CompileCorrectC.v - compiler correctness for the fragment F2 (properties C01 / C11), part C:
   the code generator and the machine for `als`, nested blocks, `zolang`, `stop`, `volgende`.

   As in part A an intermediate evaluator (`xeval` / `xwhile` / `xstmts`: names resolved in the
   flat list of live declarations, variables in global slots, heap and collector threaded the way
   the machine threads them, `stop` / `volgende` as results) is simulated by the machine running
   the compiled code.  New with respect to part A:
     - jump instructions and the patches of their operands inside already emitted code,
     - `stop` jumps are patched only when the enclosing loop is finished: code is compared
       with the final program up to "holes" (the operand bytes of pending `stop` jumps), whose
       contents are assumed to be the exit of the loop,
     - nested scopes in the one global context (slots are reused after a scope is left),
     - compile_block_value: the trailing Pop is removed (`c_last`),
     - the loop invariant: at the loop head the stack is (value of the last iteration) :: stack
       before the loop.
   Part D relates the intermediate evaluator to Sem.v and states the theorems. *)
From Coq Require Import ZArith Lia Bool List String.
From NL.Model Require Import VM.
From NL.Spec Require Import Sem Fragment Fragment2 ArithSpec.
From NL.Proofs Require Import WordProofs OpsProofs AstInduction ControlProofs CompileCorrectA.
Open Scope Z_scope.

(** * Code of the final program, up to holes *)

(* the bytes ce stand in prog from offset off on, except possibly at the (absolute) positions H *)
Definition code_x (prog : program) (off : Z) (ce : list Z) (H : list Z) : Prop :=
  0 <= off /\
  forall i b, nth_error ce i = Some b -> ~ In (off + Z.of_nat i) H -> byte_at prog (off + Z.of_nat i) = Some b.

Lemma code_x_app : forall prog off c1 c2 H, code_x prog off (c1 ++ c2) H ->
  code_x prog off c1 H /\ code_x prog (off + zlength c1) c2 H.
Proof.
  intros prog off c1 c2 H [H0 Hc]. split; (split; [pose proof (zlength_nonneg _ c1); lia|]).
  - intros i b Hi Hn. apply Hc; [|exact Hn]. rewrite nth_error_app1; [exact Hi|].
    apply nth_error_Some. rewrite Hi. discriminate.
  - intros i b Hi Hn. unfold zlength in *.
    replace (off + Z.of_nat (length c1) + Z.of_nat i) with (off + Z.of_nat (length c1 + i)) in * by lia.
    apply Hc; [|exact Hn]. rewrite nth_error_app2 by lia.
    replace (length c1 + i - length c1)%nat with i by lia. exact Hi.
Qed.

Lemma code_x_weaken : forall prog off ce H H', code_x prog off ce H -> (forall p, In p H -> In p H') ->
  code_x prog off ce H'.
Proof.
  intros prog off ce H H' [H0 Hc] Hsub. split; [exact H0|]. intros i b Hi Hn. apply Hc; [exact Hi|].
  intros Hin. apply Hn. apply Hsub. exact Hin.
Qed.

(* holes outside the range of ce do not matter *)
Lemma code_x_restrict : forall prog off ce H H', code_x prog off ce H ->
  (forall p, off <= p < off + zlength ce -> In p H -> In p H') -> code_x prog off ce H'.
Proof.
  intros prog off ce H H' [H0 Hc] Hsub. split; [exact H0|]. intros i b Hi Hn. apply Hc; [exact Hi|].
  intros Hin. apply Hn. apply Hsub; [|exact Hin].
  assert (i < length ce)%nat by (apply nth_error_Some; rewrite Hi; discriminate).
  unfold zlength. lia.
Qed.

(* from consecutive bytes of the program to part A's code_at *)
Lemma byte_at_split : forall prog ip b, byte_at prog ip = Some b ->
  0 <= ip /\ exists pre post, p_code prog = pre ++ b :: post /\ zlength pre = ip.
Proof.
  intros prog ip b H. unfold byte_at in H. destruct (ip <? 0) eqn:E; [discriminate H|].
  apply Z.ltb_ge in E. split; [exact E|].
  destruct (nth_error_split _ _ H) as [l1 [l2 [H1 H2]]]. exists l1, l2. split; [exact H1|].
  unfold zlength. rewrite H2. lia.
Qed.

Lemma code_at_bytes1 : forall prog ip a, byte_at prog ip = Some a -> code_at prog ip [a].
Proof.
  intros prog ip a H. destruct (byte_at_split prog ip a H) as [_ [pre [post [H1 H2]]]].
  exists pre, post. split; [exact H1|exact H2].
Qed.

Lemma byte_at_next : forall prog pre a post k b, p_code prog = pre ++ a :: post ->
  byte_at prog (zlength pre + 1 + Z.of_nat k) = Some b -> nth_error post k = Some b.
Proof.
  intros prog pre a post k b Hc H. unfold byte_at in H. pose proof (zlength_nonneg _ pre).
  destruct (zlength pre + 1 + Z.of_nat k <? 0) eqn:E; [apply Z.ltb_lt in E; lia|].
  rewrite Hc in H. unfold zlength in H.
  replace (Z.to_nat (Z.of_nat (length pre) + 1 + Z.of_nat k)) with (length pre + S k)%nat in H by lia.
  rewrite nth_error_app2 in H by lia. replace (length pre + S k - length pre)%nat with (S k) in H by lia.
  exact H.
Qed.

Lemma code_at_bytes3 : forall prog ip a b c, byte_at prog ip = Some a ->
  byte_at prog (ip + 1) = Some b -> byte_at prog (ip + 2) = Some c -> code_at prog ip [a; b; c].
Proof.
  intros prog ip a b c Ha Hb Hc. destruct (byte_at_split prog ip a Ha) as [_ [pre [post [H1 H2]]]].
  subst ip.
  pose proof (byte_at_next prog pre a post 0 b H1) as N0. rewrite Z.add_0_r in N0. specialize (N0 Hb).
  pose proof (byte_at_next prog pre a post 1 c H1) as N1.
  replace (zlength pre + 1 + Z.of_nat 1) with (zlength pre + 2) in N1 by lia. specialize (N1 Hc).
  destruct post as [|b' post]; [discriminate N0|]. cbn [nth_error] in N0, N1. inversion N0; subst b'.
  destruct post as [|c' post]; [discriminate N1|]. cbn [nth_error] in N1. inversion N1; subst c'.
  exists pre, post. split; [exact H1|reflexivity].
Qed.

(* fetching instructions out of code_x *)
Definition holes_free (off : Z) (n : Z) (H : list Z) : Prop := forall p, off <= p < off + n -> ~ In p H.

Lemma code_x_at1 : forall prog off a rest H, code_x prog off (a :: rest) H -> ~ In off H ->
  code_at prog off [a].
Proof.
  intros prog off a rest H [H0 Hc] Hn. apply code_at_bytes1.
  specialize (Hc O a eq_refl). rewrite Z.add_0_r in Hc. apply Hc. exact Hn.
Qed.

Lemma code_x_at3 : forall prog off a b c rest H, code_x prog off (a :: b :: c :: rest) H ->
  holes_free off 3 H -> code_at prog off [a; b; c].
Proof.
  intros prog off a b c rest H [H0 Hc] Hf. apply code_at_bytes3.
  - specialize (Hc O a eq_refl). rewrite Z.add_0_r in Hc. apply Hc. apply Hf. lia.
  - apply (Hc 1%nat b eq_refl). apply Hf. lia.
  - apply (Hc 2%nat c eq_refl). apply Hf. lia.
Qed.

(** * Machine states and the new instructions *)

Definition setx (s : vm) (stk : list val) (n ip : Z) (m : mst) (fin : val) : vm :=
  mkVM stk n (m_gl m) (v_frames s) ip (v_bp s) fin (m_heap m) (m_gc m) (v_out s).

Lemma setm_setx : forall s stk n ip m, setm s stk n ip m = setx s stk n ip m (v_final s).
Proof. reflexivity. Qed.

Lemma setx_eq : forall s stk n ip m fin n' ip', n = n' -> ip = ip' ->
  setx s stk n ip m fin = setx s stk n' ip' m fin.
Proof. intros; subst; reflexivity. Qed.

Lemma mst_of_setx : forall s stk n ip m fin, mst_of (setx s stk n ip m fin) = m.
Proof. intros. destruct m; reflexivity. Qed.

Ltac vmcbn2 :=
  cbn [v_stack v_slen v_globals v_frames v_ip v_bp v_final v_heap v_gc v_out
       upd_stack upd_ip upd_heap upd_globals upd_final upd_out push pop bind fst snd
       m_heap m_gc m_gl mst_of setm setx].

Section Steps2.
  Variable orc : oracle.
  Variable prog : program.

  Ltac decode2 Hc op :=
    unfold step; rewrite (code_at_0 _ _ _ _ Hc); rewrite (opcode_roundtrip op); cbv beta iota zeta.

  Lemma read_u16_gen : forall s ip op v rest,
    code_at prog ip (op :: v mod 256 :: (v / 256) mod 256 :: rest) -> 0 <= v < 65536 ->
    v_ip s = ip + 1 -> read_u16 prog s = Ok (v, upd_ip s (ip + 3)).
  Proof.
    intros s ip op v rest Hc Hv Hip. unfold read_u16. rewrite Hip.
    rewrite (code_at_1 _ _ _ _ _ Hc).
    replace (ip + 1 + 1) with (ip + 2) by lia. rewrite (code_at_2 _ _ _ _ _ _ Hc).
    rewrite (u16_roundtrip v Hv). replace (ip + 1 + 2) with (ip + 3) by lia. reflexivity.
  Qed.

  Lemma step_null : forall s rest, code_at prog (v_ip s) (byte_of_opcode ONull :: rest) ->
    step orc prog s = Ok (Continue (setm s (VNull :: v_stack s) (v_slen s + 1) (v_ip s + 1) (mst_of s))).
  Proof. intros s rest Hc. decode2 Hc ONull. reflexivity. Qed.

  Lemma step_jump : forall s v rest,
    code_at prog (v_ip s) (byte_of_opcode OJump :: v mod 256 :: (v / 256) mod 256 :: rest) ->
    0 <= v < 65536 ->
    step orc prog s = Ok (Continue (setm s (v_stack s) (v_slen s) v (mst_of s))).
  Proof.
    intros s v rest Hc Hv. decode2 Hc OJump.
    rewrite (read_u16_gen (upd_ip s (v_ip s + 1)) (v_ip s) _ v rest Hc Hv eq_refl). reflexivity.
  Qed.

  Lemma step_jif : forall s v c stk rest,
    code_at prog (v_ip s) (byte_of_opcode OJumpIfFalse :: v mod 256 :: (v / 256) mod 256 :: rest) ->
    0 <= v < 65536 -> v_stack s = c :: stk ->
    step orc prog s =
    match c with
    | VBool b => Ok (Continue (setm s stk (v_slen s - 1) (if b then v_ip s + 3 else v) (mst_of s)))
    | _ => Err ETypeError
    end.
  Proof.
    intros s v c stk rest Hc Hv Hs. decode2 Hc OJumpIfFalse. unfold pop. vmcbn2. rewrite Hs. vmcbn2.
    destruct c as [|b| | | | |]; try reflexivity.
    rewrite (read_u16_gen (upd_stack (upd_ip s (v_ip s + 1)) stk (v_slen s - 1)) (v_ip s) _ v rest Hc Hv eq_refl).
    vmcbn2. destruct b; reflexivity.
  Qed.
End Steps2.

(** * The symbol table of top-level code: one global context, nested scopes *)

From NL.Proofs Require Import CompileCorrectB.

Definition stab (k : nat) (outer : list (list text)) (cur : list text) : symtab :=
  [mkContext SGlobal k (outer ++ [cur])].

(* the live declarations in declaration order *)
Definition flat (outer : list (list text)) (cur : list text) : list text := concat outer ++ cur.

Lemma gtab_stab : forall k outer cur, gtab (stab k outer cur).
Proof. intros. exists k, (outer ++ [cur]). reflexivity. Qed.

Lemma rposition_from_shift : forall x l i acc,
  rposition_from x l i acc =
  match rposition_from x l 0%nat None with Some j => Some (i + j)%nat | None => acc end.
Proof.
  intros x l. induction l as [|n l IH]; intros i acc; cbn [rposition_from]; [reflexivity|].
  rewrite (IH (S i)), (IH 1%nat). destruct (rposition_from x l 0 None) as [j|].
  - f_equal. lia.
  - destruct (text_eqb n x); [f_equal; lia|reflexivity].
Qed.

Lemma rposition_app : forall x l1 l2,
  rposition x (l1 ++ l2) =
  match rposition x l2 with Some i => Some (length l1 + i)%nat | None => rposition x l1 end.
Proof.
  intros x l1 l2. unfold rposition. rewrite rposition_from_app. cbn [Nat.add].
  apply rposition_from_shift.
Qed.

Lemma total_len_concat : forall k scopes, total_len (mkContext SGlobal k scopes) = length (concat scopes).
Proof.
  intros k scopes. unfold total_len. cbn [c_syms].
  assert (forall acc, fold_left (fun a s => (a + length s)%nat) scopes acc = (acc + length (concat scopes))%nat) as H.
  { induction scopes as [|s r IH]; intros acc; cbn [fold_left concat length]; [lia|].
    rewrite IH, app_length. lia. }
  rewrite H. reflexivity.
Qed.

Lemma resolve_scopes_concat : forall x scopes,
  resolve_scopes x (rev scopes) (length (concat scopes)) = rposition x (concat scopes).
Proof.
  intros x scopes. induction scopes as [|s r IH] using rev_ind.
  - reflexivity.
  - rewrite rev_unit, concat_app. cbn [concat resolve_scopes]. rewrite app_nil_r, app_length.
    replace (length (concat r) + length s - length s)%nat with (length (concat r)) by lia.
    rewrite rposition_app. destruct (rposition x s) as [i|]; [reflexivity|exact IH].
Qed.

Lemma resolve_stab : forall k outer cur x,
  resolve (stab k outer cur) x = option_map (mkSymbol SGlobal) (rposition x (flat outer cur)).
Proof.
  intros k outer cur x. unfold resolve, stab, current_context, context_resolve.
  cbn [last length Nat.ltb Nat.leb c_scope c_syms]. rewrite total_len_concat, resolve_scopes_concat.
  unfold flat. rewrite concat_app. cbn [concat]. rewrite app_nil_r.
  destruct (rposition x (concat outer ++ cur)); reflexivity.
Qed.

Lemma push_last_snoc : forall x outer cur, push_last x (outer ++ [cur]) = outer ++ [cur ++ [x]].
Proof.
  intros x outer cur. induction outer as [|s r IH]; [reflexivity|].
  cbn [app push_last]. rewrite IH. destruct (r ++ [cur]) eqn:E; [destruct r; discriminate E|reflexivity].
Qed.

Lemma define_stab : forall k outer cur x,
  define (stab k outer cur) x = (stab (S k) outer (cur ++ [x]), mkSymbol SGlobal (length (flat outer cur))).
Proof.
  intros k outer cur x. unfold define, stab, current_context, context_define.
  cbn [last update_last c_scope c_max c_syms]. rewrite push_last_snoc, total_len_concat.
  f_equal. f_equal. unfold flat. rewrite !concat_app. cbn [concat]. rewrite !app_nil_r, !app_length.
  cbn [length]. lia.
Qed.

Lemma enter_stab : forall k outer cur, enter_scope (stab k outer cur) = stab k (outer ++ [cur]) [].
Proof. reflexivity. Qed.

Lemma leave_stab : forall k outer cur0 cur, leave_scope (stab k (outer ++ [cur0]) cur) = stab k outer cur0.
Proof.
  intros. unfold leave_scope, stab. cbn [update_last c_scope c_max c_syms]. rewrite removelast_last. reflexivity.
Qed.

Lemma flat_enter : forall outer cur, flat (outer ++ [cur]) [] = flat outer cur.
Proof. intros. unfold flat. rewrite concat_app. cbn [concat]. rewrite !app_nil_r. reflexivity. Qed.

Lemma flat_snoc : forall outer cur x, flat outer (cur ++ [x]) = flat outer cur ++ [x].
Proof. intros. unfold flat. rewrite app_assoc. reflexivity. Qed.

(** * The intermediate evaluator for F2 *)

Inductive xres (A : Type) : Type :=
| XOk (a : A) (m : mst)
| XBrk (m : mst)                     (* stop: leave the innermost loop *)
| XCnt (m : mst)                     (* volgende: next iteration of the innermost loop *)
| XErr (k : errkind)
| XFault (f : fault)
| XFuel.
Arguments XOk {A} a m.
Arguments XBrk {A} m.
Arguments XCnt {A} m.
Arguments XErr {A} k.
Arguments XFault {A} f.
Arguments XFuel {A}.

Definition xbind {A B} (x : xres A) (k : A -> mst -> xres B) : xres B :=
  match x with
  | XOk a m => k a m
  | XBrk m => XBrk m
  | XCnt m => XCnt m
  | XErr e => XErr e
  | XFault f => XFault f
  | XFuel => XFuel
  end.

Definition xlift_h (m : mst) (r : outcome (val * heap)) : xres val :=
  match r with
  | Ok x => XOk (fst x) (with_new_m m x)
  | Err k => XErr k
  | Fault f => XFault f
  | OutOfFuel => XFuel
  end.
Definition xlift_p (m : mst) (r : outcome val) : xres val :=
  match r with
  | Ok v => XOk v m
  | Err k => XErr k
  | Fault f => XFault f
  | OutOfFuel => XFuel
  end.

Fixpoint decl_names (l : list stmt) : list text :=
  match l with
  | [] => []
  | SLet x _ :: r => x :: decl_names r
  | _ :: r => decl_names r
  end.

Section XEval.
  Variable orc : oracle.

  (* same fuel discipline as Sem.eval_expr / eval_while / exec_block *)
  Fixpoint xeval (fuel : nat) (names : list text) (e : expr) (m : mst) {struct fuel} : xres val :=
    match fuel with
    | O => XFuel
    | S f =>
        match e with
        | EInt z => XOk (VInt z) m
        | EBool b => XOk (VBool b) m
        | EIdent x =>
            match rposition x names with
            | Some i => XOk (nth i (m_gl m) VNull) m
            | None => XErr EReferenceError
            end
        | EAssign l r =>
            match l with
            | EIdent x =>
                match rposition x names with
                | Some i => xbind (xeval f names r m) (fun v m1 => XOk v (set_global_m i v m1))
                | None => XErr EReferenceError
                end
            | _ => XErr ETypeError
            end
        | EPrefix op r =>
            xbind (xeval f names r m) (fun v m1 =>
              match op with
              | OpNegate | OpSubtract => xlift_h m1 (negate (m_heap m1) v)
              | OpNot => xlift_p m1 (lognot v)
              | _ => XErr ETypeError
              end)
        | EInfix l op r =>
            xbind (xeval f names l m) (fun a m1 =>
            xbind (xeval f names r m1) (fun b m2 =>
              match Sem.method_of op with
              | Some mth => xlift_h m2 (binop orc mth (m_heap m2) a b)
              | None => XErr ETypeError
              end))
        | EIf c t alt =>
            xbind (xeval f names c m) (fun b m1 =>
              match b with
              | VBool true => xstmts f names t VNull m1
              | VBool false =>
                  match alt with
                  | Some bl => xstmts f names bl VNull m1
                  | None => XOk VNull m1
                  end
              | _ => XErr ETypeError
              end)
        | EWhile c body => xwhile f names c body VNull m
        | _ => XErr ETypeError
        end
    end

  with xwhile (fuel : nat) (names : list text) (c : expr) (body : list stmt) (last : val) (m : mst)
         {struct fuel} : xres val :=
    match fuel with
    | O => XFuel
    | S f =>
        xbind (xeval f names c m) (fun b m1 =>
          match b with
          | VBool true =>
              match xstmts f names body VNull m1 with
              | XOk v m2 => xwhile f names c body v m2
              | XBrk m2 => XOk VNull m2
              | XCnt m2 => xwhile f names c body VNull m2
              | other => other
              end
          | VBool false => XOk last m1
          | _ => XErr ETypeError
          end)
    end

  (* the statements of a block; `names` is local to the call: declarations of the block are
     forgotten when it is left.  `last` as in Sem.exec_block. *)
  with xstmts (fuel : nat) (names : list text) (l : list stmt) (last : val) (m : mst)
         {struct fuel} : xres val :=
    match fuel with
    | O => XFuel
    | S f =>
        match l with
        | [] => XOk last m
        | s :: r =>
            match s with
            | SLet x e =>
                xbind (xeval f (names ++ [x]) e m) (fun v m1 =>
                  xstmts f (names ++ [x]) r VNull (set_global_m (length names) v m1))
            | SExpr e => xbind (xeval f names e m) (fun v m1 => xstmts f names r v m1)
            | SBlock b' => xbind (xstmts f names b' VNull m) (fun v m1 => xstmts f names r v m1)
            | SBreak => XBrk m
            | SContinue => XCnt m
            | SReturn _ => XErr ESyntaxError
            end
        end
    end.
End XEval.

(** * Unfolding equations *)

Lemma f2e_if : forall lp c t alt,
  f2e lp (EIf c t alt) = f2e false c && f2b lp t && match alt with Some b => f2b lp b | None => true end.
Proof. reflexivity. Qed.
Lemma f2e_while : forall lp c b, f2e lp (EWhile c b) = f2e false c && f2b true b.
Proof. reflexivity. Qed.
Lemma f2s_block : forall lp b, f2s lp (SBlock b) = f2b lp b.
Proof. reflexivity. Qed.
Lemma f2b_cons : forall lp s r, f2b lp (s :: r) = f2s lp s && f2b lp r.
Proof. reflexivity. Qed.

Lemma stmt_pop_block : forall b, stmt_pop (SBlock b) = match b with [] => true | _ :: _ => ends_pop b end.
Proof.
  intros b. cbn [stmt_pop]. induction b as [|s r IH]; [reflexivity|].
  destruct r as [|s' r']; [reflexivity|]. cbn [ends_pop]. exact IH.
Qed.

Section XEq.
  Variable orc : oracle.
  Lemma xe_int : forall f names z m, xeval orc (S f) names (EInt z) m = XOk (VInt z) m.
  Proof. reflexivity. Qed.
  Lemma xe_bool : forall f names b m, xeval orc (S f) names (EBool b) m = XOk (VBool b) m.
  Proof. reflexivity. Qed.
  Lemma xe_ident : forall f names x m,
    xeval orc (S f) names (EIdent x) m =
    match rposition x names with
    | Some i => XOk (nth i (m_gl m) VNull) m
    | None => XErr EReferenceError
    end.
  Proof. reflexivity. Qed.
  Lemma xe_assign : forall f names x r m,
    xeval orc (S f) names (EAssign (EIdent x) r) m =
    match rposition x names with
    | Some i => xbind (xeval orc f names r m) (fun v m1 => XOk v (set_global_m i v m1))
    | None => XErr EReferenceError
    end.
  Proof. reflexivity. Qed.
  Lemma xe_prefix : forall f names op r m,
    xeval orc (S f) names (EPrefix op r) m =
    xbind (xeval orc f names r m) (fun v m1 =>
      match op with
      | OpNegate | OpSubtract => xlift_h m1 (negate (m_heap m1) v)
      | OpNot => xlift_p m1 (lognot v)
      | _ => XErr ETypeError
      end).
  Proof. reflexivity. Qed.
  Lemma xe_infix : forall f names l op r m,
    xeval orc (S f) names (EInfix l op r) m =
    xbind (xeval orc f names l m) (fun a m1 =>
    xbind (xeval orc f names r m1) (fun b m2 =>
      match Sem.method_of op with
      | Some mth => xlift_h m2 (binop orc mth (m_heap m2) a b)
      | None => XErr ETypeError
      end)).
  Proof. reflexivity. Qed.
  Lemma xe_if : forall f names c t alt m,
    xeval orc (S f) names (EIf c t alt) m =
    xbind (xeval orc f names c m) (fun b m1 =>
      match b with
      | VBool true => xstmts orc f names t VNull m1
      | VBool false =>
          match alt with
          | Some bl => xstmts orc f names bl VNull m1
          | None => XOk VNull m1
          end
      | _ => XErr ETypeError
      end).
  Proof. reflexivity. Qed.
  Lemma xe_while : forall f names c body m,
    xeval orc (S f) names (EWhile c body) m = xwhile orc f names c body VNull m.
  Proof. reflexivity. Qed.
  Lemma xw_step : forall f names c body last m,
    xwhile orc (S f) names c body last m =
    xbind (xeval orc f names c m) (fun b m1 =>
      match b with
      | VBool true =>
          match xstmts orc f names body VNull m1 with
          | XOk v m2 => xwhile orc f names c body v m2
          | XBrk m2 => XOk VNull m2
          | XCnt m2 => xwhile orc f names c body VNull m2
          | other => other
          end
      | VBool false => XOk last m1
      | _ => XErr ETypeError
      end).
  Proof. reflexivity. Qed.
  Lemma xs_nil : forall f names last m, xstmts orc (S f) names [] last m = XOk last m.
  Proof. reflexivity. Qed.
  Lemma xs_let : forall f names x e r last m,
    xstmts orc (S f) names (SLet x e :: r) last m =
    xbind (xeval orc f (names ++ [x]) e m) (fun v m1 =>
      xstmts orc f (names ++ [x]) r VNull (set_global_m (length names) v m1)).
  Proof. reflexivity. Qed.
  Lemma xs_expr : forall f names e r last m,
    xstmts orc (S f) names (SExpr e :: r) last m =
    xbind (xeval orc f names e m) (fun v m1 => xstmts orc f names r v m1).
  Proof. reflexivity. Qed.
  Lemma xs_block : forall f names b r last m,
    xstmts orc (S f) names (SBlock b :: r) last m =
    xbind (xstmts orc f names b VNull m) (fun v m1 => xstmts orc f names r v m1).
  Proof. reflexivity. Qed.
  Lemma xs_break : forall f names r last m, xstmts orc (S f) names (SBreak :: r) last m = XBrk m.
  Proof. reflexivity. Qed.
  Lemma xs_continue : forall f names r last m, xstmts orc (S f) names (SContinue :: r) last m = XCnt m.
  Proof. reflexivity. Qed.
End XEq.

(** * Facts about the evaluator alone *)

Definition nosig {A} (r : xres A) : Prop :=
  match r with XBrk _ | XCnt _ => False | _ => True end.

Lemma nosig_xbind : forall A B (x : xres A) (k : A -> mst -> xres B),
  nosig x -> (forall a m, nosig (k a m)) -> nosig (xbind x k).
Proof. intros A B x k Hx Hk. destruct x; cbn [xbind nosig] in *; auto. Qed.

Lemma nosig_xlift_h : forall m r, nosig (xlift_h m r).
Proof. intros m r. destruct r; exact I. Qed.
Lemma nosig_xlift_p : forall m r, nosig (xlift_p m r).
Proof. intros m r. destruct r; exact I. Qed.

(* where no stop / volgende of an enclosing loop may be written, none is reported *)
Lemma xeval_nosig : forall orc fuel,
  (forall e names m, f2e false e = true -> nosig (xeval orc fuel names e m)) /\
  (forall c body last names m, f2e false c = true -> nosig (xwhile orc fuel names c body last m)) /\
  (forall l names last m, f2b false l = true -> nosig (xstmts orc fuel names l last m)).
Proof.
  intros orc fuel. induction fuel as [|f [IHe [IHw IHs]]].
  - repeat split; intros; exact I.
  - split; [|split].
    + intros e names m HF. destruct e; try discriminate HF; try exact I.
      * (* EInfix *) rewrite xe_infix. cbn [f2e] in HF.
        apply andb_prop in HF. destruct HF as [HF Hr]. apply andb_prop in HF. destruct HF as [_ Hl].
        apply nosig_xbind; [apply IHe; exact Hl|]. intros a m1.
        apply nosig_xbind; [apply IHe; exact Hr|]. intros b m2.
        destruct (Sem.method_of o); [apply nosig_xlift_h|exact I].
      * (* EPrefix *) rewrite xe_prefix. cbn [f2e] in HF. apply andb_prop in HF. destruct HF as [_ Hr].
        apply nosig_xbind; [apply IHe; exact Hr|]. intros v m1.
        destruct o; try exact I; try apply nosig_xlift_h; apply nosig_xlift_p.
      * (* EIf *) rewrite xe_if. rewrite f2e_if in HF.
        apply andb_prop in HF. destruct HF as [HF Ha]. apply andb_prop in HF. destruct HF as [Hc Ht].
        apply nosig_xbind; [apply IHe; exact Hc|]. intros b m1.
        destruct b as [|[|]| | | | |]; try exact I.
        -- apply IHs; exact Ht.
        -- destruct e0 as [bl|]; [apply IHs; exact Ha|exact I].
      * (* EIdent *) rewrite xe_ident. destruct (rposition s names); exact I.
      * (* EAssign *) cbn [f2e] in HF. destruct e1; try discriminate HF. rewrite xe_assign.
        destruct (rposition s names); [|exact I].
        apply nosig_xbind; [apply IHe; exact HF|]. intros; exact I.
      * (* EWhile *) rewrite xe_while. rewrite f2e_while in HF. apply andb_prop in HF. destruct HF as [Hc _].
        apply IHw; exact Hc.
    + intros c body last names m Hc. rewrite xw_step.
      apply nosig_xbind; [apply IHe; exact Hc|]. intros b m1.
      destruct b as [|[|]| | | | |]; try exact I.
      destruct (xstmts orc f names body VNull m1) eqn:E; try exact I; apply IHw; exact Hc.
    + intros l names last m HF. destruct l as [|s r]; [exact I|].
      rewrite f2b_cons in HF. apply andb_prop in HF. destruct HF as [Hs Hr].
      destruct s as [x e|e|e|b| |]; try discriminate Hs.
      * rewrite xs_let. cbn [f2s] in Hs. apply andb_prop in Hs. destruct Hs as [He _].
        apply nosig_xbind; [apply IHe; exact He|]. intros; apply IHs; exact Hr.
      * rewrite xs_expr. apply nosig_xbind; [apply IHe; exact Hs|]. intros; apply IHs; exact Hr.
      * rewrite xs_block. rewrite f2s_block in Hs.
        apply nosig_xbind; [apply IHs; exact Hs|]. intros; apply IHs; exact Hr.
Qed.

(* a block that does not end in a value-leaving statement has the value null *)
Lemma xstmts_no_pop_null : forall orc fuel l names last m v m',
  l <> [] -> ends_pop l = false -> xstmts orc fuel names l last m = XOk v m' -> v = VNull.
Proof.
  intros orc fuel. induction fuel as [|f IH]; intros l names last m v m' Hne Hp H; [discriminate H|].
  destruct l as [|s r]; [contradiction|].
  destruct r as [|s' r'].
  - (* last statement *)
    cbn [ends_pop] in Hp. destruct s as [x e|e|e|b| |]; try discriminate Hp.
    + rewrite xs_let in H. destruct (xeval orc f (names ++ [x]) e m) as [a m1| | | | |]; try discriminate H.
      cbn [xbind] in H. destruct f; [discriminate H|]. rewrite xs_nil in H. inversion H; reflexivity.
    + cbn [xstmts] in H. destruct f; discriminate H.
    + rewrite xs_block in H. rewrite stmt_pop_block in Hp. destruct b as [|sb rb]; [discriminate Hp|].
      destruct (xstmts orc f names (sb :: rb) VNull m) as [a m1| | | | |] eqn:E; try discriminate H.
      cbn [xbind] in H. destruct f; [discriminate H|]. rewrite xs_nil in H. inversion H; subst.
      apply (IH (sb :: rb) names VNull m v m'); [discriminate|exact Hp|exact E].
    + rewrite xs_break in H. discriminate H.
    + rewrite xs_continue in H. discriminate H.
  - assert (ends_pop (s' :: r') = false) as Hp' by exact Hp.
    destruct s as [x e|e|e|b| |].
    + rewrite xs_let in H. destruct (xeval orc f (names ++ [x]) e m) as [a m1| | | | |]; try discriminate H.
      cbn [xbind] in H. eapply (IH (s' :: r')); [discriminate|exact Hp'|exact H].
    + cbn [xstmts] in H. discriminate H.
    + rewrite xs_expr in H. destruct (xeval orc f names e m) as [a m1| | | | |]; try discriminate H.
      cbn [xbind] in H. eapply (IH (s' :: r')); [discriminate|exact Hp'|exact H].
    + rewrite xs_block in H. destruct (xstmts orc f names b VNull m) as [a m1| | | | |]; try discriminate H.
      cbn [xbind] in H. eapply (IH (s' :: r')); [discriminate|exact Hp'|exact H].
    + rewrite xs_break in H. discriminate H.
    + rewrite xs_continue in H. discriminate H.
Qed.

(** * Pending `stop` jumps *)

(* positions of the recorded Jump opcodes: increasing, 3 bytes each, inside [lo, hi) *)
Fixpoint brk_ok (lo : Z) (nb : list Z) (hi : Z) : Prop :=
  match nb with
  | [] => lo <= hi
  | ip :: r => lo <= ip /\ brk_ok (ip + 3) r hi
  end.

Definition brk_holes (nb : list Z) : list Z := flat_map (fun ip => [ip + 1; ip + 2]) nb.

Definition brk_target (prog : program) (nb : list Z) (lexit : Z) : Prop :=
  forall ip, In ip nb ->
    byte_at prog (ip + 1) = Some (lexit mod 256) /\ byte_at prog (ip + 2) = Some ((lexit / 256) mod 256).

Lemma brk_ok_le : forall nb lo hi, brk_ok lo nb hi -> lo <= hi.
Proof.
  induction nb as [|ip r IH]; intros lo hi H; cbn [brk_ok] in H; [exact H|].
  destruct H as [H1 H2]. specialize (IH _ _ H2). lia.
Qed.

Lemma brk_ok_widen : forall nb lo hi lo' hi', brk_ok lo nb hi -> lo' <= lo -> hi <= hi' -> brk_ok lo' nb hi'.
Proof.
  induction nb as [|ip r IH]; intros lo hi lo' hi' H Hl Hh; cbn [brk_ok] in *; [lia|].
  destruct H as [H1 H2]. split; [lia|]. apply (IH (ip + 3) hi); [exact H2|lia|exact Hh].
Qed.

Lemma brk_ok_app : forall n1 n2 a b c, brk_ok a n1 b -> brk_ok b n2 c -> brk_ok a (n1 ++ n2) c.
Proof.
  induction n1 as [|ip r IH]; intros n2 a b c H1 H2; cbn [brk_ok app] in *.
  - apply (brk_ok_widen n2 b c); [exact H2|exact H1|lia].
  - destruct H1 as [H1 H1']. split; [exact H1|]. apply (IH n2 _ b c); assumption.
Qed.

Lemma brk_ok_in : forall nb lo hi ip, brk_ok lo nb hi -> In ip nb -> lo <= ip /\ ip + 3 <= hi.
Proof.
  induction nb as [|ip0 r IH]; intros lo hi ip H Hin; [destruct Hin|].
  cbn [brk_ok] in H. destruct H as [H1 H2]. destruct Hin as [->|Hin].
  - split; [exact H1|]. apply (brk_ok_le _ _ _ H2).
  - destruct (IH _ _ _ H2 Hin). lia.
Qed.

Lemma in_brk_holes : forall nb p, In p (brk_holes nb) <-> exists ip, In ip nb /\ (p = ip + 1 \/ p = ip + 2).
Proof.
  intros nb p. unfold brk_holes. rewrite in_flat_map. split.
  - intros [ip [H1 H2]]. exists ip. split; [exact H1|]. cbn [In] in H2. intuition.
  - intros [ip [H1 H2]]. exists ip. split; [exact H1|]. cbn [In]. intuition.
Qed.

Lemma brk_holes_range : forall nb lo hi p, brk_ok lo nb hi -> In p (brk_holes nb) -> lo < p < hi.
Proof.
  intros nb lo hi p H Hin. apply in_brk_holes in Hin. destruct Hin as [ip [Hi Hp]].
  destruct (brk_ok_in _ _ _ _ H Hi). lia.
Qed.

Lemma brk_holes_app : forall a b, brk_holes (a ++ b) = brk_holes a ++ brk_holes b.
Proof. intros. unfold brk_holes. apply flat_map_app. Qed.

Lemma brk_target_app : forall prog a b lexit, brk_target prog (a ++ b) lexit ->
  brk_target prog a lexit /\ brk_target prog b lexit.
Proof.
  intros prog a b lexit H. split; intros ip Hin; apply H; apply in_or_app; [left|right]; exact Hin.
Qed.

(** * The stack of loop contexts *)

Definition add_breaks (nb : list Z) (L : list loopctx) : list loopctx :=
  match rev L with
  | [] => []
  | ctx :: rest => rev rest ++ [mkLoop (l_start ctx) (l_breaks ctx ++ nb)]
  end.

Definition cur_start (L : list loopctx) : Z :=
  match rev L with ctx :: _ => l_start ctx | [] => 0 end.

Lemma add_breaks_snoc : forall nb outer ctx,
  add_breaks nb (outer ++ [ctx]) = outer ++ [mkLoop (l_start ctx) (l_breaks ctx ++ nb)].
Proof. intros. unfold add_breaks. rewrite rev_unit, rev_involutive. reflexivity. Qed.

Lemma add_breaks_nil : forall L, add_breaks [] L = L.
Proof.
  intros L. destruct L as [|c L] using rev_ind; [reflexivity|].
  rewrite add_breaks_snoc, app_nil_r. destruct c; reflexivity.
Qed.

Lemma add_breaks_add : forall n1 n2 L, add_breaks n2 (add_breaks n1 L) = add_breaks (n1 ++ n2) L.
Proof.
  intros n1 n2 L. destruct L as [|c L _] using rev_ind; [reflexivity|].
  rewrite !add_breaks_snoc. cbn [l_start l_breaks]. rewrite app_assoc. reflexivity.
Qed.

Lemma add_breaks_empty : forall nb L, L = [] -> add_breaks nb L = [].
Proof. intros nb L ->. reflexivity. Qed.

Lemma add_breaks_eq_nil : forall nb L, add_breaks nb L = [] -> L = [].
Proof.
  intros nb L H. destruct L as [|c L _] using rev_ind; [reflexivity|].
  rewrite add_breaks_snoc in H. destruct L; discriminate H.
Qed.

Lemma cur_start_add : forall nb L, cur_start (add_breaks nb L) = cur_start L.
Proof.
  intros nb L. destruct L as [|c L _] using rev_ind; [reflexivity|].
  rewrite add_breaks_snoc. unfold cur_start. rewrite !rev_unit. reflexivity.
Qed.

Lemma cur_start_snoc : forall L c, cur_start (L ++ [c]) = l_start c.
Proof. intros. unfold cur_start. rewrite rev_unit. reflexivity. Qed.

(** * What a compilation step does to the compiler state *)

Record cfacts (st st' : cstate) (outer : list (list text)) (cur' : list text) (ce : list Z) (nb : list Z)
  : Prop := mkCF {
  cf_syms : exists k', c_symbols st' = stab k' outer cur';
  cf_code : c_code st' = c_code st ++ ce;
  cf_consts : exists kx, c_constants st' = c_constants st ++ kx /\ Forall is_kint kx;
  cf_loops : c_loops st' = add_breaks nb (c_loops st);
  cf_nbnil : c_loops st = [] -> nb = [];
  cf_brk : brk_ok (code_len st) nb (code_len st')
}.

Lemma cfacts_len : forall st st' outer cur ce nb, cfacts st st' outer cur ce nb ->
  code_len st' = code_len st + zlength ce.
Proof. intros st st' outer cur ce nb H. apply code_len_app. exact (cf_code _ _ _ _ _ _ H). Qed.

Lemma cfacts_trans : forall st st1 st2 outer cur1 cur2 ce1 ce2 nb1 nb2,
  cfacts st st1 outer cur1 ce1 nb1 -> cfacts st1 st2 outer cur2 ce2 nb2 ->
  cfacts st st2 outer cur2 (ce1 ++ ce2) (nb1 ++ nb2).
Proof.
  intros st st1 st2 outer cur1 cur2 ce1 ce2 nb1 nb2 [S1 C1 [kx1 [K1 F1]] L1 N1 B1] [S2 C2 [kx2 [K2 F2]] L2 N2 B2].
  constructor.
  - exact S2.
  - rewrite C2, C1, app_assoc. reflexivity.
  - exists (kx1 ++ kx2). split; [rewrite K2, K1, app_assoc; reflexivity|apply Forall_app; auto].
  - rewrite L2, L1. apply add_breaks_add.
  - intros H. rewrite (N1 H). rewrite N2; [reflexivity|]. rewrite L1, H. reflexivity.
  - apply (brk_ok_app nb1 nb2 _ (code_len st1)); assumption.
Qed.

(* a step that only appends bytes *)
Lemma cfacts_emit : forall st st' outer cur k ce,
  c_symbols st = stab k outer cur -> c_symbols st' = c_symbols st -> c_constants st' = c_constants st ->
  c_loops st' = c_loops st -> c_code st' = c_code st ++ ce -> cfacts st st' outer cur ce [].
Proof.
  intros st st' outer cur k ce Hs Hs' Hk Hl Hc. constructor.
  - exists k. congruence.
  - exact Hc.
  - exists []. rewrite app_nil_r. split; [exact Hk|constructor].
  - rewrite add_breaks_nil. exact Hl.
  - reflexivity.
  - cbn [brk_ok]. rewrite (code_len_app _ _ _ Hc). pose proof (zlength_nonneg _ ce). lia.
Qed.

Lemma consts_ok_ext : forall prog c c', (exists kx, c' = c ++ kx /\ Forall is_kint kx) ->
  consts_ok prog c' -> consts_ok prog c.
Proof. intros prog c c' [kx [-> _]] H. apply (consts_ok_app prog c kx H). Qed.

(* the environment of a piece of code inside the final program *)
Record env_ok (prog : program) (st st' : cstate) (ce : list Z) (nb : list Z) (lexit : Z) : Prop := mkEnv {
  env_code : code_x prog (code_len st) ce (brk_holes nb);
  env_consts : consts_ok prog (c_constants st');
  env_brk : brk_target prog nb lexit
}.

(* the environment of the first of two consecutive pieces *)
Lemma env_left : forall prog st st1 st2 outer cur1 cur2 ce1 ce2 nb1 nb2 lexit,
  cfacts st st1 outer cur1 ce1 nb1 -> cfacts st1 st2 outer cur2 ce2 nb2 ->
  env_ok prog st st2 (ce1 ++ ce2) (nb1 ++ nb2) lexit -> env_ok prog st st1 ce1 nb1 lexit.
Proof.
  intros prog st st1 st2 outer cur1 cur2 ce1 ce2 nb1 nb2 lexit F1 F2 [E1 E2 E3]. constructor.
  - apply code_x_app in E1. destruct E1 as [E1 _].
    apply (code_x_restrict prog _ ce1 _ _ E1). intros p Hp Hin.
    rewrite brk_holes_app in Hin. apply in_app_or in Hin. destruct Hin as [Hin|Hin]; [exact Hin|].
    pose proof (brk_holes_range _ _ _ _ (cf_brk _ _ _ _ _ _ F2) Hin) as R.
    rewrite (cfacts_len _ _ _ _ _ _ F1) in R. lia.
  - apply (consts_ok_ext prog _ _ (cf_consts _ _ _ _ _ _ F2)). exact E2.
  - apply (proj1 (brk_target_app _ _ _ _ E3)).
Qed.

Lemma env_right : forall prog st st1 st2 outer cur1 cur2 ce1 ce2 nb1 nb2 lexit,
  cfacts st st1 outer cur1 ce1 nb1 -> cfacts st1 st2 outer cur2 ce2 nb2 ->
  env_ok prog st st2 (ce1 ++ ce2) (nb1 ++ nb2) lexit -> env_ok prog st1 st2 ce2 nb2 lexit.
Proof.
  intros prog st st1 st2 outer cur1 cur2 ce1 ce2 nb1 nb2 lexit F1 F2 [E1 E2 E3]. constructor.
  - apply code_x_app in E1. destruct E1 as [_ E1]. rewrite <- (cfacts_len _ _ _ _ _ _ F1) in E1.
    apply (code_x_restrict prog _ ce2 _ _ E1). intros p Hp Hin.
    rewrite brk_holes_app in Hin. apply in_app_or in Hin. destruct Hin as [Hin|Hin]; [|exact Hin].
    pose proof (brk_holes_range _ _ _ _ (cf_brk _ _ _ _ _ _ F1) Hin) as R. lia.
  - exact E2.
  - apply (proj2 (brk_target_app _ _ _ _ E3)).
Qed.

(* the same when the second piece of code is cut short (compile_block_value removes a trailing Pop) *)
Lemma env_left' : forall prog st st1 st2 outer cur1 cur2 ce1 ce2 X nb1 nb2 lexit,
  cfacts st st1 outer cur1 ce1 nb1 -> cfacts st1 st2 outer cur2 ce2 nb2 ->
  env_ok prog st st2 (ce1 ++ X) (nb1 ++ nb2) lexit -> env_ok prog st st1 ce1 nb1 lexit.
Proof.
  intros prog st st1 st2 outer cur1 cur2 ce1 ce2 X nb1 nb2 lexit F1 F2 [E1 E2 E3]. constructor.
  - apply code_x_app in E1. destruct E1 as [E1 _].
    apply (code_x_restrict prog _ ce1 _ _ E1). intros p Hp Hin.
    rewrite brk_holes_app in Hin. apply in_app_or in Hin. destruct Hin as [Hin|Hin]; [exact Hin|].
    pose proof (brk_holes_range _ _ _ _ (cf_brk _ _ _ _ _ _ F2) Hin) as R.
    rewrite (cfacts_len _ _ _ _ _ _ F1) in R. lia.
  - apply (consts_ok_ext prog _ _ (cf_consts _ _ _ _ _ _ F2)). exact E2.
  - apply (proj1 (brk_target_app _ _ _ _ E3)).
Qed.

Lemma env_right' : forall prog st st1 st2 outer cur1 cur2 ce1 ce2 X nb1 nb2 lexit,
  cfacts st st1 outer cur1 ce1 nb1 -> cfacts st1 st2 outer cur2 ce2 nb2 ->
  env_ok prog st st2 (ce1 ++ X) (nb1 ++ nb2) lexit -> env_ok prog st1 st2 X nb2 lexit.
Proof.
  intros prog st st1 st2 outer cur1 cur2 ce1 ce2 X nb1 nb2 lexit F1 F2 [E1 E2 E3]. constructor.
  - apply code_x_app in E1. destruct E1 as [_ E1]. rewrite <- (cfacts_len _ _ _ _ _ _ F1) in E1.
    apply (code_x_restrict prog _ X _ _ E1). intros p Hp Hin.
    rewrite brk_holes_app in Hin. apply in_app_or in Hin. destruct Hin as [Hin|Hin]; [|exact Hin].
    pose proof (brk_holes_range _ _ _ _ (cf_brk _ _ _ _ _ _ F1) Hin) as R. lia.
  - exact E2.
  - apply (proj2 (brk_target_app _ _ _ _ E3)).
Qed.

(* the code that is followed by the canonical simulation of a statement list *)
Definition canon (pop : bool) (ce : list Z) : list Z := if pop then removelast ce else ce.

Lemma removelast_app_ne : forall A (a b : list A), b <> [] -> removelast (a ++ b) = a ++ removelast b.
Proof. intros A a b H. apply removelast_app. exact H. Qed.


(** * Simulation statements *)

Section Sim.
  Variable orc : oracle.

  Definition sim2 (prog : program) (s : vm) (ip' lstart lexit : Z) (r : xres val) : Prop :=
    match r with
    | XOk v m' => exists fin', reaches orc prog s (setx s (v :: v_stack s) (v_slen s + 1) ip' m' fin')
    | XBrk m' => exists fin', reaches orc prog s (setx s (VNull :: v_stack s) (v_slen s + 1) lexit m' fin')
    | XCnt m' => exists fin', reaches orc prog s (setx s (VNull :: v_stack s) (v_slen s + 1) lstart m' fin')
    | XErr k => stops orc prog s (Err k) (v_out s)
    | XFault f => stops orc prog s (Fault f) (v_out s)
    | XFuel => True
    end.

  (* statement lists, canonical form: if the list ends in a value-leaving statement, the machine is
     followed up to (not including) the trailing Pop, with the value on the stack *)
  Definition sim_l (prog : program) (s : vm) (pop : bool) (ipend lstart lexit : Z) (r : xres val) : Prop :=
    match r with
    | XOk v m' =>
        if pop then exists fin', reaches orc prog s (setx s (v :: v_stack s) (v_slen s + 1) (ipend - 1) m' fin')
        else exists fin', reaches orc prog s (setx s (v_stack s) (v_slen s) ipend m' fin')
    | XBrk m' => exists fin', reaches orc prog s (setx s (VNull :: v_stack s) (v_slen s + 1) lexit m' fin')
    | XCnt m' => exists fin', reaches orc prog s (setx s (VNull :: v_stack s) (v_slen s + 1) lstart m' fin')
    | XErr k => stops orc prog s (Err k) (v_out s)
    | XFault f => stops orc prog s (Fault f) (v_out s)
    | XFuel => True
    end.

  Definition esim (e : expr) : Prop :=
    forall lp st st' k outer cur, f2e lp e = true -> c_symbols st = stab k outer cur ->
    compile_expression e st = Ok st' ->
    exists ce nb, cfacts st st' outer cur ce nb /\
      forall prog lexit, env_ok prog st st' ce nb lexit -> 0 <= lexit < 65536 ->
      0 <= cur_start (c_loops st) ->
      forall fuel s, v_ip s = code_len st ->
      sim2 prog s (code_len st') (cur_start (c_loops st)) lexit
           (xeval orc fuel (flat outer cur) e (mst_of s)).

  Definition lconcl (l : list stmt) (st st' : cstate) (outer : list (list text)) (cur : list text)
             (ce : list Z) (nb : list Z) : Prop :=
    cfacts st st' outer (cur ++ decl_names l) ce nb /\
    (l <> [] -> last_instruction_is OPop st' = ends_pop l) /\
    (ends_pop l = true -> (exists ce', ce = ce' ++ [byte_of_opcode OPop]) /\
                          brk_ok (code_len st) nb (code_len st' - 1)) /\
    forall prog lexit, env_ok prog st st' (canon (ends_pop l) ce) nb lexit -> 0 <= lexit < 65536 ->
    0 <= cur_start (c_loops st) ->
    forall fuel s last, v_ip s = code_len st ->
    sim_l prog s (ends_pop l) (code_len st') (cur_start (c_loops st)) lexit
          (xstmts orc fuel (flat outer cur) l last (mst_of s)).

  Definition lsim (l : list stmt) : Prop :=
    forall lp st st' k outer cur, f2b lp l = true -> c_symbols st = stab k outer cur ->
    compile_statements l st = Ok st' ->
    exists ce nb, lconcl l st st' outer cur ce nb.

  (* the step property of one statement in front of a list *)
  Definition ssim (s0 : stmt) : Prop := forall r, lsim r -> lsim (s0 :: r).

  (** ** Small helpers *)

  Lemma emit_const_loops : forall k st st', emit_const k st = Ok st' -> c_loops st' = c_loops st.
  Proof.
    intros k st st' H. unfold emit_const in H. destruct (add_constant k st) as [st1 r] eqn:E.
    apply add_constant_loops in E. apply bind_ok in H. destruct H as [idx [_ H]]. inversion H; subst.
    cbn [emit_u16 emit_opcode c_loops]. exact E.
  Qed.

  Lemma reaches_stepx : forall prog s s', step orc prog s = Ok (Continue s') -> reaches orc prog s s'.
  Proof. intros. apply reaches_step. assumption. Qed.

  Lemma holes_free_nil : forall off n, holes_free off n [].
  Proof. intros off n p _ []. Qed.

  Lemma f2e_infix : forall lp l o r, f2e lp (EInfix l o r) = is_binop o && f2e false l && f2e false r.
  Proof. reflexivity. Qed.
  Lemma f2e_prefix : forall lp o r, f2e lp (EPrefix o r) = is_prefix_op o && f2e false r.
  Proof. reflexivity. Qed.
  Lemma f2e_assign : forall lp x r, f2e lp (EAssign (EIdent x) r) = f2e false r.
  Proof. reflexivity. Qed.

  (** ** Literals and variables *)

  Lemma esim_int : forall z, esim (EInt z).
  Proof.
    intros z lp st st' k outer cur HF Hs Hc. rewrite ce_int in Hc.
    pose proof (emit_const_loops _ _ _ Hc) as Hl.
    destruct (emit_const_kint z st st' Hc) as [Hsy [idx [kx [Hcode [Hk [Hf [Hr Hn]]]]]]].
    exists [byte_of_opcode OConst; idx mod 256; (idx / 256) mod 256], [].
    assert (cfacts st st' outer cur [byte_of_opcode OConst; idx mod 256; (idx / 256) mod 256] []) as CF.
    { constructor.
      - exists k. congruence.
      - exact Hcode.
      - exists kx. auto.
      - rewrite add_breaks_nil. exact Hl.
      - reflexivity.
      - cbn [brk_ok]. rewrite (code_len_app _ _ _ Hcode). rewrite zlength3. lia. }
    split; [exact CF|].
    intros prog lexit [E1 E2 _] _ _ fuel s Hip. destruct fuel as [|f]; [exact I|].
    rewrite xe_int. cbn [sim2]. exists (v_final s). apply reaches_step.
    rewrite <- Hip in E1. pose proof (code_x_at3 _ _ _ _ _ _ _ E1 (holes_free_nil _ _)) as Hat.
    rewrite (step_const orc prog s idx z [] Hat Hr (E2 _ _ Hn)). rewrite setm_setx.
    f_equal. f_equal. apply setx_eq; [reflexivity|]. rewrite (code_len_app _ _ _ Hcode), zlength3, Hip. reflexivity.
  Qed.

  Lemma esim_bool : forall b, esim (EBool b).
  Proof.
    intros b lp st st' k outer cur HF Hs Hc. rewrite ce_bool in Hc. inversion Hc; subst st'; clear Hc.
    exists [byte_of_opcode (if b then OTrue else OFalse)], [].
    split; [apply (cfacts_emit _ _ outer cur k); auto|].
    intros prog lexit [E1 E2 _] _ _ fuel s Hip. destruct fuel as [|f]; [exact I|].
    rewrite xe_bool. cbn [sim2]. exists (v_final s). apply reaches_step.
    rewrite <- Hip in E1. pose proof (code_x_at1 _ _ _ _ _ E1 (fun x => x)) as Hat.
    rewrite (step_bool orc prog s b [] Hat). rewrite setm_setx.
    f_equal. f_equal. apply setx_eq; [reflexivity|]. rewrite code_len_emit_opcode, Hip. reflexivity.
  Qed.

  Lemma esim_ident : forall x, esim (EIdent x).
  Proof.
    intros x lp st st' k outer cur HF Hs Hc. rewrite ce_ident, Hs, resolve_stab in Hc.
    destruct (rposition x (flat outer cur)) as [i|] eqn:Er; cbn [option_map] in Hc; [|discriminate Hc].
    unfold scoped in Hc. cbn [s_scope] in Hc.
    pose proof (emit_sym_loops _ _ _ _ Hc) as Hl.
    destruct (emit_sym_spec _ _ _ _ Hc) as [Hsy [Hk [Hr Hcode]]]. cbn [s_index] in Hr, Hcode.
    eexists; exists []. split; [apply (cfacts_emit _ _ outer cur k); eauto|].
    intros prog lexit [E1 E2 _] _ _ fuel s Hip. destruct fuel as [|f]; [exact I|].
    rewrite xe_ident, Er. cbn [sim2]. exists (v_final s). apply reaches_step.
    rewrite <- Hip in E1. pose proof (code_x_at3 _ _ _ _ _ _ _ E1 (holes_free_nil _ _)) as Hat.
    rewrite (step_get_global orc prog s _ [] Hat Hr). rewrite Nat2Z.id, setm_setx.
    f_equal. f_equal. apply setx_eq; [reflexivity|]. rewrite (code_len_app _ _ _ Hcode), zlength3, Hip. reflexivity.
  Qed.

  (** ** Assignment, prefix and infix operators *)

  Ltac nosig_contra f e names m HF E :=
    let N := fresh "N" in
    pose proof (proj1 (xeval_nosig orc f) e names m HF) as N; rewrite E in N; destruct N.

  Lemma cfacts_emit_sym : forall op sy st st' outer cur k, c_symbols st = stab k outer cur ->
    emit_sym op sy st = Ok st' ->
    0 <= Z.of_nat (s_index sy) < 65536 /\
    cfacts st st' outer cur [byte_of_opcode op; Z.of_nat (s_index sy) mod 256; (Z.of_nat (s_index sy) / 256) mod 256] [].
  Proof.
    intros op sy st st' outer cur k Hs H. pose proof (emit_sym_loops _ _ _ _ H) as Hl.
    destruct (emit_sym_spec _ _ _ _ H) as [Hsy [Hk [Hr Hcode]]]. split; [exact Hr|].
    apply (cfacts_emit _ _ outer cur k); auto.
  Qed.

  Lemma cfacts_emit_opcode : forall op st outer cur k, c_symbols st = stab k outer cur ->
    cfacts st (emit_opcode op st) outer cur [byte_of_opcode op] [].
  Proof. intros. apply (cfacts_emit _ _ outer cur k); auto. Qed.

  Lemma esim_assign : forall x r, esim r -> esim (EAssign (EIdent x) r).
  Proof.
    intros x r IHr lp st st' k outer cur HF Hs Hc. rewrite f2e_assign in HF.
    rewrite ce_assign_ident, Hs, resolve_stab in Hc.
    destruct (rposition x (flat outer cur)) as [i|] eqn:Er; cbn [option_map] in Hc; [|discriminate Hc].
    apply bind_ok in Hc. destruct Hc as [st1 [H1 Hc]]. apply bind_ok in Hc. destruct Hc as [st2 [H2 H3]].
    unfold scoped in H2, H3. cbn [s_scope] in H2, H3.
    destruct (IHr false st st1 k outer cur HF Hs H1) as [ce1 [nb1 [CF1 Hsim1]]].
    destruct (cf_syms _ _ _ _ _ _ CF1) as [k1 Hs1].
    destruct (cfacts_emit_sym _ _ _ _ outer cur k1 Hs1 H2) as [Hr CF2]. cbn [s_index] in Hr, CF2.
    destruct (cf_syms _ _ _ _ _ _ CF2) as [k2 Hs2].
    destruct (cfacts_emit_sym _ _ _ _ outer cur k2 Hs2 H3) as [_ CF3]. cbn [s_index] in CF3.
    pose proof (cfacts_trans _ _ _ _ _ _ _ _ _ _ CF2 CF3) as CF23.
    pose proof (cfacts_trans _ _ _ _ _ _ _ _ _ _ CF1 CF23) as CF.
    eexists; eexists. split; [exact CF|].
    intros prog lexit E Hle Hst fuel s Hip. destruct fuel as [|f]; [exact I|].
    rewrite xe_assign, Er.
    pose proof (env_left _ _ _ _ _ _ _ _ _ _ _ _ CF1 CF23 E) as EL.
    pose proof (env_right _ _ _ _ _ _ _ _ _ _ _ _ CF1 CF23 E) as ER.
    specialize (Hsim1 prog lexit EL Hle Hst f s Hip).
    destruct (xeval orc f (flat outer cur) r (mst_of s)) as [a m1|m1|m1|e|y|] eqn:E1; cbn [xbind];
      try exact Hsim1; try (nosig_contra f r (flat outer cur) (mst_of s) HF E1).
    cbn [sim2] in *. destruct Hsim1 as [fin1 Hsim1].
    set (sa := setx s (a :: v_stack s) (v_slen s + 1) (code_len st1) m1 fin1) in *.
    exists fin1. apply (reaches_trans orc prog s sa _ Hsim1).
    destruct ER as [ERc _ _]. cbn [app brk_holes flat_map] in ERc.
    pose proof (cfacts_len _ _ _ _ _ _ CF2) as L2. pose proof (cfacts_len _ _ _ _ _ _ CF3) as L3.
    rewrite zlength3 in L2, L3.
    set (idx := Z.of_nat i) in *.
    pose proof (code_x_at3 _ _ _ _ _ _ _ ERc (holes_free_nil _ _)) as Hat1.
    pose proof (step_set_global orc prog sa idx a (v_stack s) [] Hat1 Hr eq_refl) as Hstep1.
    apply (reaches_trans orc prog sa _ _ (reaches_step orc prog _ _ Hstep1)).
    set (sb := setm sa (v_stack s) (v_slen sa - 1) (v_ip sa + 3) (set_global_m (Z.to_nat idx) a (mst_of sa))) in *.
    change ([byte_of_opcode OSetGlobal; idx mod 256; (idx / 256) mod 256; byte_of_opcode OGetGlobal;
             idx mod 256; (idx / 256) mod 256])
      with ([byte_of_opcode OSetGlobal; idx mod 256; (idx / 256) mod 256] ++
            [byte_of_opcode OGetGlobal; idx mod 256; (idx / 256) mod 256]) in ERc.
    apply code_x_app in ERc. destruct ERc as [_ ERc]. rewrite zlength3 in ERc.
    pose proof (code_x_at3 _ _ _ _ _ _ _ ERc (holes_free_nil _ _)) as Hat2.
    assert (v_ip sb = code_len st1 + 3) as Hipb by reflexivity. rewrite <- Hipb in Hat2.
    pose proof (step_get_global orc prog sb idx [] Hat2 Hr) as Hstep2.
    apply reaches_step. rewrite Hstep2. f_equal. f_equal.
    subst sb sa idx. unfold setm, setx, mst_of, set_global_m. vmcbn2. rewrite Nat2Z.id, nth_set_global_same.
    f_equal; lia.
  Qed.


  Lemma const_var_infix_global2 : forall name v op st st1 done k outer cur,
    c_symbols st = stab k outer cur ->
    compile_const_var_infix name v op st = (st1, done) ->
    done = false /\ cfacts st st1 outer cur [] [].
  Proof.
    intros name v op st st1 done k outer cur Hs H.
    assert (gtab (c_symbols st)) as Hg by (rewrite Hs; apply gtab_stab).
    destruct (const_var_infix_global _ _ _ _ _ _ Hg H) as [-> [Hs1 [Hc1 [kx [Hk Hf]]]]].
    split; [reflexivity|].
    assert (c_loops st1 = c_loops st) as Hl.
    { unfold compile_const_var_infix in H. destruct (add_constant (KInt v) st) as [st0 r] eqn:E.
      pose proof (add_constant_loops _ _ _ _ E) as L0.
      destruct r as [idx| | |]; try (inversion H; subst; exact L0).
      destruct (resolve (c_symbols st0) name) as [sy|]; [|inversion H; subst; exact L0].
      destruct (s_scope sy); [|inversion H; subst; exact L0].
      destruct (assoc operator_eqb op fused_table); [|inversion H; subst; exact L0].
      destruct (operand 16 (Z.of_nat (s_index sy))); inversion H; subst; exact L0. }
    constructor.
    - exists k. congruence.
    - rewrite app_nil_r. exact Hc1.
    - exists kx. auto.
    - rewrite add_breaks_nil. exact Hl.
    - reflexivity.
    - cbn [brk_ok]. unfold code_len. rewrite Hc1. lia.
  Qed.

  Lemma esim_prefix : forall op r, esim r -> esim (EPrefix op r).
  Proof.
    intros op r IHr lp st st' k outer cur HF Hs Hc. rewrite f2e_prefix in HF.
    apply andb_prop in HF. destruct HF as [Hop HF].
    rewrite ce_prefix in Hc. apply bind_ok in Hc. destruct Hc as [st1 [H1 Hc]].
    destruct (IHr false st st1 k outer cur HF Hs H1) as [ce1 [nb1 [CF1 Hsim1]]].
    destruct (cf_syms _ _ _ _ _ _ CF1) as [k1 Hs1].
    assert (exists opc, st' = emit_opcode opc st1 /\
              ((opc = ONot /\ op = OpNot) \/ (opc = ONegate /\ (op = OpSubtract \/ op = OpNegate)))) as [opc [-> Hopc]].
    { destruct op; try discriminate Hop; inversion Hc; eexists; split; try reflexivity; tauto. }
    clear Hc. pose proof (cfacts_emit_opcode opc st1 outer cur k1 Hs1) as CF2.
    pose proof (cfacts_trans _ _ _ _ _ _ _ _ _ _ CF1 CF2) as CF.
    eexists; eexists. split; [exact CF|].
    intros prog lexit E Hle Hst fuel s Hip. destruct fuel as [|f]; [exact I|].
    rewrite xe_prefix.
    pose proof (env_left _ _ _ _ _ _ _ _ _ _ _ _ CF1 CF2 E) as EL.
    pose proof (env_right _ _ _ _ _ _ _ _ _ _ _ _ CF1 CF2 E) as ER.
    specialize (Hsim1 prog lexit EL Hle Hst f s Hip).
    destruct (xeval orc f (flat outer cur) r (mst_of s)) as [a m1|m1|m1|e|y|] eqn:E1; cbn [xbind];
      try exact Hsim1; try (nosig_contra f r (flat outer cur) (mst_of s) HF E1).
    cbn [sim2] in Hsim1. destruct Hsim1 as [fin1 Hsim1].
    set (sa := setx s (a :: v_stack s) (v_slen s + 1) (code_len st1) m1 fin1) in *.
    destruct ER as [ERc _ _]. cbn [brk_holes flat_map] in ERc.
    pose proof (code_x_at1 _ _ _ _ _ ERc (fun x => x)) as Hat.
    pose proof (code_len_emit_opcode opc st1) as L3.
    destruct Hopc as [[-> ->]|[-> Hop2]].
    - pose proof (step_not orc prog sa a (v_stack s) [] Hat eq_refl) as Hstep.
      destruct (lognot a) as [x| | |]; cbn [xlift_p sim2].
      + exists fin1. apply (reaches_trans orc prog s sa _ Hsim1). apply reaches_step. rewrite Hstep.
        f_equal. f_equal. subst sa. unfold setm, setx, mst_of. vmcbn2. rewrite L3. f_equal; lia.
      + apply (reaches_stops orc prog s sa _ _ Hsim1). apply (stops_now orc prog sa _ Hstep).
      + apply (reaches_stops orc prog s sa _ _ Hsim1). apply (stops_now orc prog sa _ Hstep).
      + exact I.
    - pose proof (step_negate orc prog sa a (v_stack s) [] Hat eq_refl) as Hstep.
      change (v_heap sa) with (m_heap m1) in Hstep.
      assert (match op with
              | OpNegate | OpSubtract => xlift_h m1 (negate (m_heap m1) a)
              | OpNot => xlift_p m1 (lognot a)
              | _ => XErr ETypeError
              end = xlift_h m1 (negate (m_heap m1) a)) as ->.
      { destruct Hop2 as [-> | ->]; reflexivity. }
      destruct (negate (m_heap m1) a) as [x| | |]; cbn [xlift_h sim2].
      + exists fin1. apply (reaches_trans orc prog s sa _ Hsim1). apply reaches_step. rewrite Hstep.
        f_equal. f_equal. subst sa. unfold setm, setx, mst_of. vmcbn2. rewrite ?mst_eta, L3. f_equal; lia.
      + apply (reaches_stops orc prog s sa _ _ Hsim1). apply (stops_now orc prog sa _ Hstep).
      + apply (reaches_stops orc prog s sa _ _ Hsim1). apply (stops_now orc prog sa _ Hstep).
      + exact I.
  Qed.

  Lemma generic_infix_sim2 : forall l op r, esim l -> esim r -> is_binop op = true ->
    f2e false l = true -> f2e false r = true ->
    forall st st' k outer cur, c_symbols st = stab k outer cur ->
    generic_infix l op r st = Ok st' ->
    exists ce nb, cfacts st st' outer cur ce nb /\
      forall prog lexit, env_ok prog st st' ce nb lexit -> 0 <= lexit < 65536 ->
      0 <= cur_start (c_loops st) ->
      forall fuel s, v_ip s = code_len st ->
      sim2 prog s (code_len st') (cur_start (c_loops st)) lexit
           (xeval orc fuel (flat outer cur) (EInfix l op r) (mst_of s)).
  Proof.
    intros l op r IHl IHr Hop Hl Hr st st' k outer cur Hs Hc. unfold generic_infix in Hc.
    apply bind_ok in Hc. destruct Hc as [st1 [H1 Hc]]. apply bind_ok in Hc. destruct Hc as [st2 [H2 Hc]].
    destruct (assoc operator_eqb op compile_operator_table) as [opc|] eqn:Eopc; [|discriminate Hc].
    inversion Hc; subst st'; clear Hc.
    destruct (binop_chain op opc Hop Eopc) as [mth [Hmth Hmeth]].
    destruct (IHl false st st1 k outer cur Hl Hs H1) as [ce1 [nb1 [CF1 Hsim1]]].
    destruct (cf_syms _ _ _ _ _ _ CF1) as [k1 Hs1].
    destruct (IHr false st1 st2 k1 outer cur Hr Hs1 H2) as [ce2 [nb2 [CF2 Hsim2]]].
    destruct (cf_syms _ _ _ _ _ _ CF2) as [k2 Hs2].
    pose proof (cfacts_emit_opcode opc st2 outer cur k2 Hs2) as CF3.
    pose proof (cfacts_trans _ _ _ _ _ _ _ _ _ _ CF2 CF3) as CF23.
    pose proof (cfacts_trans _ _ _ _ _ _ _ _ _ _ CF1 CF23) as CF.
    eexists; eexists. split; [exact CF|].
    intros prog lexit E Hle Hst fuel s Hip. destruct fuel as [|f]; [exact I|].
    rewrite xe_infix, Hmeth.
    pose proof (env_left _ _ _ _ _ _ _ _ _ _ _ _ CF1 CF23 E) as EL.
    pose proof (env_right _ _ _ _ _ _ _ _ _ _ _ _ CF1 CF23 E) as ER.
    pose proof (env_left _ _ _ _ _ _ _ _ _ _ _ _ CF2 CF3 ER) as ERL.
    pose proof (env_right _ _ _ _ _ _ _ _ _ _ _ _ CF2 CF3 ER) as ERR.
    specialize (Hsim1 prog lexit EL Hle Hst f s Hip).
    destruct (xeval orc f (flat outer cur) l (mst_of s)) as [a m1|m1|m1|e|y|] eqn:E1; cbn [xbind];
      try exact Hsim1; try (nosig_contra f l (flat outer cur) (mst_of s) Hl E1).
    cbn [sim2] in Hsim1. destruct Hsim1 as [fin1 Hsim1].
    set (sa := setx s (a :: v_stack s) (v_slen s + 1) (code_len st1) m1 fin1) in *.
    assert (0 <= cur_start (c_loops st1)) as Hst1.
    { rewrite (cf_loops _ _ _ _ _ _ CF1), cur_start_add. exact Hst. }
    specialize (Hsim2 prog lexit ERL Hle Hst1 f sa eq_refl).
    rewrite (cf_loops _ _ _ _ _ _ CF1), cur_start_add in Hsim2.
    unfold sa in Hsim2 at 2. rewrite mst_of_setx in Hsim2.
    destruct (xeval orc f (flat outer cur) r m1) as [b m2|m2|m2|e|y|] eqn:E2; cbn [xbind];
      try (nosig_contra f r (flat outer cur) m1 Hr E2);
      try (cbn [sim2] in *; apply (reaches_stops orc prog s sa _ _ Hsim1); exact Hsim2); try exact I.
    cbn [sim2] in Hsim2. destruct Hsim2 as [fin2 Hsim2].
    set (sb := setx sa (b :: v_stack sa) (v_slen sa + 1) (code_len st2) m2 fin2) in *.
    destruct ERR as [ERc _ _]. cbn [brk_holes flat_map] in ERc.
    pose proof (code_x_at1 _ _ _ _ _ ERc (fun x => x)) as Hat.
    pose proof (code_len_emit_opcode opc st2) as L3.
    pose proof (step_binary orc prog sb opc mth a b (v_stack s) [] Hat Hmth eq_refl) as Hstep.
    change (v_heap sb) with (m_heap m2) in Hstep.
    destruct (binop orc mth (m_heap m2) a b) as [x| | |]; cbn [xlift_h sim2].
    - exists fin2. apply (reaches_trans orc prog s sa _ Hsim1). apply (reaches_trans orc prog sa sb _ Hsim2).
      apply reaches_step. rewrite Hstep. f_equal. f_equal. subst sb sa. unfold setm, setx, mst_of. vmcbn2.
      rewrite ?mst_eta, L3. f_equal; lia.
    - apply (reaches_stops orc prog s sa _ _ Hsim1). apply (reaches_stops orc prog sa sb _ _ Hsim2).
      apply (stops_now orc prog sb _ Hstep).
    - apply (reaches_stops orc prog s sa _ _ Hsim1). apply (reaches_stops orc prog sa sb _ _ Hsim2).
      apply (stops_now orc prog sb _ Hstep).
    - exact I.
  Qed.

  Lemma cfacts_pre_nil : forall st st0 st' outer cur ce nb,
    cfacts st st0 outer cur [] [] -> cfacts st0 st' outer cur ce nb -> cfacts st st' outer cur ce nb.
  Proof. intros st st0 st' outer cur ce nb F0 F. exact (cfacts_trans _ _ _ _ _ _ _ _ _ _ F0 F). Qed.

  Lemma esim_infix : forall l op r, esim l -> esim r -> esim (EInfix l op r).
  Proof.
    intros l op r IHl IHr lp st st' k outer cur HF Hs Hc. rewrite f2e_infix in HF.
    apply andb_prop in HF. destruct HF as [HF Hr]. apply andb_prop in HF. destruct HF as [Hop Hl].
    rewrite ce_infix in Hc.
    destruct (fused_candidate l r op) as [[[name v] op']|] eqn:Ef.
    - destruct (compile_const_var_infix name v op' st) as [st0 done] eqn:Ec.
      destruct (const_var_infix_global2 _ _ _ _ _ _ k outer cur Hs Ec) as [-> CF0].
      destruct (cf_syms _ _ _ _ _ _ CF0) as [k0 Hs0].
      destruct (generic_infix_sim2 l op r IHl IHr Hop Hl Hr st0 st' k0 outer cur Hs0 Hc) as [ce [nb [CF Hsim]]].
      exists ce, nb. split; [exact (cfacts_pre_nil _ _ _ _ _ _ _ CF0 CF)|].
      pose proof (cfacts_len _ _ _ _ _ _ CF0) as L0. change (zlength []) with 0 in L0. rewrite Z.add_0_r in L0.
      pose proof (cf_loops _ _ _ _ _ _ CF0) as Ll0. rewrite add_breaks_nil in Ll0.
      intros prog lexit [E1 E2 E3] Hle Hst fuel s Hip.
      rewrite <- Ll0, <- L0 in *. apply Hsim; try assumption. constructor; assumption.
    - exact (generic_infix_sim2 l op r IHl IHr Hop Hl Hr st st' k outer cur Hs Hc).
  Qed.


  (** ** compile_block_value *)

  Lemma code_len_remove_last : forall st ce', c_code st = ce' ++ [byte_of_opcode OPop] ->
    c_code (remove_last_instruction st) = ce' /\ code_len (remove_last_instruction st) = code_len st - 1.
  Proof.
    intros st ce' H. unfold remove_last_instruction, code_len. cbn [c_code]. rewrite H, removelast_last.
    split; [reflexivity|]. rewrite zlength_app. change (zlength [byte_of_opcode OPop]) with 1. lia.
  Qed.

  Lemma bv_sim : forall b, lsim b ->
    forall lp st st' k outer cur, f2b lp b = true -> c_symbols st = stab k outer cur ->
    c_block_value b st = Ok st' ->
    exists ce nb, cfacts st st' outer cur ce nb /\
      forall prog lexit, env_ok prog st st' ce nb lexit -> 0 <= lexit < 65536 ->
      0 <= cur_start (c_loops st) ->
      forall fuel s, v_ip s = code_len st ->
      sim2 prog s (code_len st') (cur_start (c_loops st)) lexit
           (xstmts orc fuel (flat outer cur) b VNull (mst_of s)).
  Proof.
    intros b IHb lp st st' k outer cur HF Hs Hc. unfold c_block_value, c_block_statement in Hc.
    destruct b as [|s0 r].
    - (* the empty block: Null *)
      cbn [is_nil bind] in Hc. inversion Hc; subst st'; clear Hc.
      exists [byte_of_opcode ONull], []. split; [apply (cfacts_emit_opcode ONull st outer cur k Hs)|].
      intros prog lexit [E1 _ _] _ _ fuel s Hip. destruct fuel as [|f]; [exact I|].
      rewrite xs_nil. cbn [sim2]. exists (v_final s). apply reaches_step.
      rewrite <- Hip in E1. pose proof (code_x_at1 _ _ _ _ _ E1 (fun x => x)) as Hat.
      rewrite (step_null orc prog s [] Hat), setm_setx. f_equal. f_equal.
      apply setx_eq; [reflexivity|]. rewrite code_len_emit_opcode, Hip. reflexivity.
    - cbn [is_nil] in Hc. apply bind_ok in Hc. destruct Hc as [st1' [Hc1 Hc]].
      apply bind_ok in Hc1. destruct Hc1 as [st1 [Hc1 Hc1']]. inversion Hc1'; subst st1'; clear Hc1'.
      set (st0 := set_symbols st (enter_scope (c_symbols st))) in *.
      assert (c_symbols st0 = stab k (outer ++ [cur]) []) as Hs0 by (unfold st0; cbn [set_symbols c_symbols]; rewrite Hs; reflexivity).
      destruct (IHb lp st0 st1 k (outer ++ [cur]) [] HF Hs0 Hc1) as [ce [nb [CFb [Hlast [Hpop Hsim]]]]].
      destruct CFb as [[k1 S1] C1 K1 L1 N1 B1].
      cbn [app] in S1.
      set (st1' := set_symbols st1 (leave_scope (c_symbols st1))) in *.
      assert (c_symbols st1' = stab k1 outer cur) as Hs1'.
      { unfold st1'. cbn [set_symbols c_symbols]. rewrite S1. apply leave_stab. }
      assert (last_instruction_is OPop st1' = ends_pop (s0 :: r)) as Hlast'.
      { rewrite <- Hlast by discriminate. reflexivity. }
      rewrite Hlast' in Hc.
      change (c_code st0) with (c_code st) in C1. change (c_constants st0) with (c_constants st) in K1.
      change (c_loops st0) with (c_loops st) in L1, N1. change (code_len st0) with (code_len st) in B1.
      destruct (ends_pop (s0 :: r)) eqn:Ep.
      + (* the trailing Pop is removed *)
        inversion Hc; subst st'; clear Hc.
        destruct (Hpop eq_refl) as [[ce' Hce'] Bp].
        assert (c_code st1' = (c_code st ++ ce') ++ [byte_of_opcode OPop]) as Hcode1.
        { unfold st1'. cbn [set_symbols c_code]. rewrite C1, Hce', app_assoc. reflexivity. }
        destruct (code_len_remove_last st1' _ Hcode1) as [Hcode' Hlen'].
        change (code_len st1') with (code_len st1) in Hlen'.
        change (code_len st0) with (code_len st) in Bp.
        exists ce', nb. split.
        * constructor.
          -- exists k1. exact Hs1'.
          -- exact Hcode'.
          -- exact K1.
          -- exact L1.
          -- exact N1.
          -- rewrite Hlen'. exact Bp.
        * intros prog lexit [E1 E2 E3] Hle Hst fuel s Hip.
          assert (env_ok prog st0 st1 (canon true ce) nb lexit) as E0.
          { constructor; [|exact E2|exact E3]. unfold canon. rewrite Hce', removelast_last. exact E1. }
          specialize (Hsim prog lexit E0 Hle Hst fuel s VNull Hip).
          rewrite flat_enter in Hsim. rewrite Hlen'.
          destruct (xstmts orc fuel (flat outer cur) (s0 :: r) VNull (mst_of s)); exact Hsim.
      + (* no value on the stack: Null *)
        inversion Hc; subst st'; clear Hc.
        assert (cfacts st st1' outer cur ce nb) as CF1.
        { constructor; try assumption. exists k1. exact Hs1'. }
        pose proof (cfacts_emit_opcode ONull st1' outer cur k1 Hs1') as CF2.
        pose proof (cfacts_trans _ _ _ _ _ _ _ _ _ _ CF1 CF2) as CF.
        eexists; eexists. split; [exact CF|].
        intros prog lexit E Hle Hst fuel s Hip.
        pose proof (env_left _ _ _ _ _ _ _ _ _ _ _ _ CF1 CF2 E) as [EL1 EL2 EL3].
        pose proof (env_right _ _ _ _ _ _ _ _ _ _ _ _ CF1 CF2 E) as [ERc _ _].
        assert (env_ok prog st0 st1 (canon false ce) nb lexit) as E0 by (constructor; assumption).
        specialize (Hsim prog lexit E0 Hle Hst fuel s VNull Hip).
        rewrite flat_enter in Hsim.
        destruct (xstmts orc fuel (flat outer cur) (s0 :: r) VNull (mst_of s)) as [v m'|m'|m'|e|y|] eqn:Ex;
          try exact Hsim.
        cbn [sim_l sim2] in *. destruct Hsim as [fin1 Hsim].
        assert (v = VNull) as -> by (apply (xstmts_no_pop_null orc fuel (s0 :: r) _ _ _ _ _ ltac:(discriminate) Ep Ex)).
        set (sa := setx s (v_stack s) (v_slen s) (code_len st1) m' fin1) in *.
        exists fin1. apply (reaches_trans orc prog s sa _ Hsim). apply reaches_step.
        cbn [brk_holes flat_map] in ERc.
        pose proof (code_x_at1 _ _ _ _ _ ERc (fun x => x)) as Hat.
        change (code_len st1') with (v_ip sa) in Hat.
        rewrite (step_null orc prog sa [] Hat). f_equal. f_equal.
        subst sa. unfold setm, setx, mst_of. vmcbn2. rewrite code_len_emit_opcode. reflexivity.
  Qed.


  (** ** Patches and splitting the environment *)

  Lemma replace_nth_app2 : forall A (a b : list A) j v,
    replace_nth (length a + j) v (a ++ b) = a ++ replace_nth j v b.
  Proof. intros A a b j v. induction a as [|x a IH]; cbn [length app replace_nth Nat.add]; [reflexivity|]. rewrite IH. reflexivity. Qed.

  Lemma patch_operand : forall (a : list Z) x y z b v1 v2,
    replace_nth (length a + 2) v2 (replace_nth (length a + 1) v1 (a ++ x :: y :: z :: b))
    = a ++ x :: v1 :: v2 :: b.
  Proof. intros. rewrite !replace_nth_app2. reflexivity. Qed.

  Lemma cfacts_patch_at : forall stA stB stC outer cur pre x y z rest nb v,
    cfacts stA stB outer cur (pre ++ x :: y :: z :: rest) nb ->
    change_jump_operand_at (code_len stA + zlength pre) v stB = Ok stC ->
    cfacts stA stC outer cur (pre ++ x :: v mod 256 :: (v / 256) mod 256 :: rest) nb /\
    code_len stC = code_len stB /\ c_last stC = c_last stB.
  Proof.
    intros stA stB stC outer cur pre x y z rest nb v [S C K L N B] H.
    assert (0 <= code_len stA + zlength pre) as Hpos.
    { pose proof (code_len_nonneg stA). pose proof (zlength_nonneg _ pre). lia. }
    destruct (change_jump_spec _ _ _ _ Hpos H) as [A1 [A2 [A3 [A4 [_ [A6 [_ A8]]]]]]].
    pose proof (code_len_length _ _ A6) as Hlen. split; [|split; [exact Hlen|exact A4]].
    constructor.
    - destruct S as [k' S]. exists k'. congruence.
    - rewrite A8, C. unfold code_len, zlength.
      replace (Z.to_nat (Z.of_nat (length (c_code stA)) + Z.of_nat (length pre))) with (length (c_code stA ++ pre))
        by (rewrite app_length; lia).
      rewrite app_assoc, patch_operand, <- app_assoc. reflexivity.
    - destruct K as [kx [K1 K2]]. exists kx. split; [congruence|exact K2].
    - congruence.
    - exact N.
    - rewrite Hlen. exact B.
  Qed.

  Lemma env_split : forall prog st st1 st2 c1 X nb1 nb2 lexit hi,
    code_len st1 = code_len st + zlength c1 ->
    brk_ok (code_len st) nb1 (code_len st1) -> brk_ok (code_len st1) nb2 hi ->
    (exists kx, c_constants st2 = c_constants st1 ++ kx /\ Forall is_kint kx) ->
    env_ok prog st st2 (c1 ++ X) (nb1 ++ nb2) lexit ->
    env_ok prog st st1 c1 nb1 lexit /\ env_ok prog st1 st2 X nb2 lexit.
  Proof.
    intros prog st st1 st2 c1 X nb1 nb2 lexit hi Hlen B1 B2 HK [E1 E2 E3].
    apply code_x_app in E1. destruct E1 as [E1a E1b]. rewrite <- Hlen in E1b.
    destruct (brk_target_app _ _ _ _ E3) as [T1 T2].
    split; constructor.
    - apply (code_x_restrict prog _ c1 _ _ E1a). intros p Hp Hin.
      rewrite brk_holes_app in Hin. apply in_app_or in Hin. destruct Hin as [Hin|Hin]; [exact Hin|].
      pose proof (brk_holes_range _ _ _ _ B2 Hin) as R. lia.
    - apply (consts_ok_ext prog _ _ HK). exact E2.
    - exact T1.
    - apply (code_x_restrict prog _ X _ _ E1b). intros p Hp Hin.
      rewrite brk_holes_app in Hin. apply in_app_or in Hin. destruct Hin as [Hin|Hin]; [|exact Hin].
      pose proof (brk_holes_range _ _ _ _ B1 Hin) as R. lia.
    - exact E2.
    - exact T2.
  Qed.

  Lemma operand16_code_len : forall st t, operand 16 (code_len st) = Ok t -> t = code_len st /\ 0 <= t < 65536.
  Proof.
    intros st t H. destruct (operand16_ok _ _ (code_len_nonneg st) H) as [-> R]. split; [reflexivity|exact R].
  Qed.

  Lemma cfacts_emit_u16op : forall op v st outer cur k, c_symbols st = stab k outer cur ->
    cfacts st (emit_u16 v (emit_opcode op st)) outer cur [byte_of_opcode op; v mod 256; (v / 256) mod 256] [].
  Proof.
    intros. apply (cfacts_emit _ _ outer cur k); auto.
    cbn [emit_u16 emit_opcode c_code]. rewrite <- app_assoc. reflexivity.
  Qed.

  Lemma consts_refl : forall st : cstate, exists kx, c_constants st = c_constants st ++ kx /\ Forall is_kint kx.
  Proof. intros. exists []. rewrite app_nil_r. split; [reflexivity|constructor]. Qed.


  (** ** als *)

  Definition cext (st st' : cstate) : Prop :=
    exists kx, c_constants st' = c_constants st ++ kx /\ Forall is_kint kx.

  Lemma cext_refl : forall st, cext st st.
  Proof. intros. apply consts_refl. Qed.
  Lemma cext_trans : forall a b c, cext a b -> cext b c -> cext a c.
  Proof.
    intros a b c [k1 [H1 F1]] [k2 [H2 F2]]. exists (k1 ++ k2). split; [rewrite H2, H1, app_assoc; reflexivity|].
    apply Forall_app; auto.
  Qed.
  Lemma cext_eq : forall a b, c_constants b = c_constants a -> cext a b.
  Proof. intros a b H. exists []. rewrite app_nil_r. split; [exact H|constructor]. Qed.
  Lemma cext_cfacts : forall st st' outer cur ce nb, cfacts st st' outer cur ce nb -> cext st st'.
  Proof. intros st st' outer cur ce nb H. exact (cf_consts _ _ _ _ _ _ H). Qed.

  Lemma env_consts_eq : forall prog st st1 st2 ce nb lexit, c_constants st2 = c_constants st1 ->
    env_ok prog st st1 ce nb lexit -> env_ok prog st st2 ce nb lexit.
  Proof. intros prog st st1 st2 ce nb lexit H [E1 E2 E3]. constructor; try assumption. rewrite H. exact E2. Qed.

  Lemma cfacts_eq : forall st st' outer cur ce nb ce' nb', cfacts st st' outer cur ce nb ->
    ce = ce' -> nb = nb' -> cfacts st st' outer cur ce' nb'.
  Proof. intros; subst; assumption. Qed.

  Lemma esim_if : forall c t alt, esim c -> lsim t ->
    match alt with Some b => lsim b | None => True end -> esim (EIf c t alt).
  Proof.
    intros c t alt IHc IHt IHa lp st st' k outer cur HF Hs Hc.
    rewrite f2e_if in HF. apply andb_prop in HF. destruct HF as [HF Hfa].
    apply andb_prop in HF. destruct HF as [Hfc Hft].
    rewrite ce_if in Hc. cbv zeta in Hc.
    apply bind_ok in Hc. destruct Hc as [st1 [H1 Hc]].
    apply bind_ok in Hc. destruct Hc as [st3 [H3 Hc]].
    apply bind_ok in Hc. destruct Hc as [t1 [Ht1 Hc]].
    apply bind_ok in Hc. destruct Hc as [st5 [H5 Hc]].
    apply bind_ok in Hc. destruct Hc as [st6 [H6 Hc]].
    apply bind_ok in Hc. destruct Hc as [t2 [Ht2 Hc]].
    (* the pieces *)
    destruct (IHc false st st1 k outer cur Hfc Hs H1) as [ce_c [nb_c [CF1 Hsimc]]].
    destruct (cf_syms _ _ _ _ _ _ CF1) as [k1 Hs1].
    set (st2 := emit_u16 JUMP_PLACEHOLDER (emit_opcode OJumpIfFalse st1)) in *.
    pose proof (cfacts_emit_u16op OJumpIfFalse JUMP_PLACEHOLDER st1 outer cur k1 Hs1) as CF2. fold st2 in CF2.
    assert (c_symbols st2 = stab k1 outer cur) as Hs2 by exact Hs1.
    destruct (bv_sim t IHt lp st2 st3 k1 outer cur Hft Hs2 H3) as [ce_t [nb_t [CF3 Hsimt]]].
    destruct (cf_syms _ _ _ _ _ _ CF3) as [k3 Hs3].
    set (st4 := emit_u16 JUMP_PLACEHOLDER (emit_opcode OJump st3)) in *.
    pose proof (cfacts_emit_u16op OJump JUMP_PLACEHOLDER st3 outer cur k3 Hs3) as CF4. fold st4 in CF4.
    destruct (operand16_code_len _ _ Ht1) as [-> Rt1].
    pose proof (cfacts_len _ _ _ _ _ _ CF1) as L1. pose proof (cfacts_len _ _ _ _ _ _ CF2) as L2.
    pose proof (cfacts_len _ _ _ _ _ _ CF3) as L3. pose proof (cfacts_len _ _ _ _ _ _ CF4) as L4.
    rewrite zlength3 in L2, L4.
    pose proof (cfacts_trans _ _ _ _ _ _ _ _ _ _ CF1 (cfacts_trans _ _ _ _ _ _ _ _ _ _ CF2
                 (cfacts_trans _ _ _ _ _ _ _ _ _ _ CF3 CF4))) as CF14.
    cbn [app] in CF14. rewrite L1 in H5.
    destruct (cfacts_patch_at _ _ _ _ _ _ _ _ _ _ _ (code_len st4) CF14 H5) as [CF15 [L5 _]].
    destruct (cf_syms _ _ _ _ _ _ CF15) as [k5 Hs5].
    set (names := flat outer cur) in *.
    (* the alternative *)
    assert (exists ce_a nb_a, cfacts st5 st6 outer cur ce_a nb_a /\
              forall prog lexit, env_ok prog st5 st6 ce_a nb_a lexit -> 0 <= lexit < 65536 ->
              0 <= cur_start (c_loops st5) ->
              forall f s, v_ip s = code_len st5 ->
              sim2 prog s (code_len st6) (cur_start (c_loops st5)) lexit
                   (match alt with
                    | Some bl => xstmts orc f names bl VNull (mst_of s)
                    | None => XOk VNull (mst_of s)
                    end)) as [ce_a [nb_a [CF6 Hsima]]].
    { destruct alt as [bl|].
      - exact (bv_sim bl IHa lp st5 st6 k5 outer cur Hfa Hs5 H6).
      - inversion H6; subst st6. exists [byte_of_opcode ONull], [].
        split; [exact (cfacts_emit_opcode ONull st5 outer cur k5 Hs5)|].
        intros prog lexit [E1 _ _] _ _ f s Hip. cbn [sim2]. exists (v_final s). apply reaches_step.
        rewrite <- Hip in E1. pose proof (code_x_at1 _ _ _ _ _ E1 (fun x => x)) as Hat.
        rewrite (step_null orc prog s [] Hat), setm_setx. f_equal. f_equal.
        apply setx_eq; [reflexivity|]. rewrite code_len_emit_opcode, Hip. reflexivity. }
    clear H6.
    destruct (operand16_code_len _ _ Ht2) as [-> Rt2].
    pose proof (cfacts_len _ _ _ _ _ _ CF6) as L6.
    pose proof (cfacts_trans _ _ _ _ _ _ _ _ _ _ CF15 CF6) as CF16.
    set (T1 := code_len st4) in *. set (T2 := code_len st6) in *.
    set (jif3 := [byte_of_opcode OJumpIfFalse; T1 mod 256; (T1 / 256) mod 256]).
    set (PHlo := JUMP_PLACEHOLDER mod 256) in *. set (PHhi := (JUMP_PLACEHOLDER / 256) mod 256) in *.
    assert ((ce_c ++ byte_of_opcode OJumpIfFalse :: T1 mod 256 :: (T1 / 256) mod 256
                   :: ce_t ++ [byte_of_opcode OJump; PHlo; PHhi]) ++ ce_a
            = (ce_c ++ jif3 ++ ce_t) ++ byte_of_opcode OJump :: PHlo :: PHhi :: ce_a) as Ereassoc.
    { unfold jif3. rewrite <- !app_assoc. cbn [app]. rewrite <- !app_assoc. reflexivity. }
    rewrite Ereassoc in CF16.
    assert (code_len st3 = code_len st + zlength (ce_c ++ jif3 ++ ce_t)) as Lpre.
    { rewrite !zlength_app. unfold jif3. rewrite zlength3. lia. }
    rewrite Lpre in Hc.
    destruct (cfacts_patch_at _ _ _ _ _ _ _ _ _ _ _ T2 CF16 Hc) as [CF [L' _]].
    set (jmp3 := [byte_of_opcode OJump; T2 mod 256; (T2 / 256) mod 256]).
    assert ((ce_c ++ jif3 ++ ce_t) ++ byte_of_opcode OJump :: T2 mod 256 :: (T2 / 256) mod 256 :: ce_a
            = ce_c ++ jif3 ++ ce_t ++ jmp3 ++ ce_a) as Efinal.
    { unfold jmp3. rewrite <- !app_assoc. reflexivity. }
    exists (ce_c ++ jif3 ++ ce_t ++ jmp3 ++ ce_a), (nb_c ++ nb_t ++ nb_a).
    assert (cfacts st st' outer cur (ce_c ++ jif3 ++ ce_t ++ jmp3 ++ ce_a) (nb_c ++ nb_t ++ nb_a)) as CF'.
    { rewrite Efinal in CF. apply (cfacts_eq _ _ _ _ _ _ _ _ CF); [reflexivity|].
      rewrite <- ?app_assoc; cbn [app]; rewrite <- ?app_assoc, ?app_nil_r; reflexivity. }
    clear CF. rename CF' into CF.
    split; [exact CF|].
    (* the run *)
    intros prog lexit E Hle Hst fuel s Hip. destruct fuel as [|f]; [exact I|].
    rewrite xe_if. fold names.
    (* loop contexts along the way *)
    pose proof (cf_loops _ _ _ _ _ _ CF1) as Lp1.
    assert (c_loops st2 = c_loops st1) as Lp2 by reflexivity.
    pose proof (cf_loops _ _ _ _ _ _ CF3) as Lp3.
    pose proof (cf_loops _ _ _ _ _ _ CF15) as Lp5.
    assert (cur_start (c_loops st2) = cur_start (c_loops st)) as Cs2 by (rewrite Lp2, Lp1; apply cur_start_add).
    assert (cur_start (c_loops st5) = cur_start (c_loops st)) as Cs5 by (rewrite Lp5; apply cur_start_add).
    (* constants *)
    assert (c_constants st' = c_constants st6) as K'.
    { assert (0 <= code_len st + zlength (ce_c ++ jif3 ++ ce_t)) as Hp by (rewrite <- Lpre; apply code_len_nonneg).
      exact (proj1 (proj2 (change_jump_spec _ _ _ _ Hp Hc))). }
    assert (c_constants st5 = c_constants st4) as K5.
    { assert (0 <= code_len st + zlength ce_c) as Hp by (rewrite <- L1; apply code_len_nonneg).
      exact (proj1 (proj2 (change_jump_spec _ _ _ _ Hp H5))). }
    assert (cext st6 st') as X6 by (apply cext_eq; exact K').
    assert (cext st5 st') as X5 by (exact (cext_trans _ _ _ (cext_cfacts _ _ _ _ _ _ CF6) X6)).
    assert (cext st3 st') as X3.
    { apply (cext_trans _ st4); [exact (cext_cfacts _ _ _ _ _ _ CF4)|].
      apply (cext_trans _ st5); [apply cext_eq; exact K5|exact X5]. }
    assert (cext st2 st') as X2 by (exact (cext_trans _ _ _ (cext_cfacts _ _ _ _ _ _ CF3) X3)).
    assert (cext st1 st') as X1 by (exact (cext_trans _ _ _ (cext_cfacts _ _ _ _ _ _ CF2) X2)).
    (* pending stops *)
    pose proof (cf_brk _ _ _ _ _ _ CF1) as B1. pose proof (cf_brk _ _ _ _ _ _ CF3) as B3.
    pose proof (cf_brk _ _ _ _ _ _ CF6) as B6.
    assert (brk_ok (code_len st3) nb_a (code_len st6)) as B36 by (apply (brk_ok_widen _ _ _ _ _ B6); lia).
    assert (brk_ok (code_len st2) (nb_t ++ nb_a) (code_len st6)) as B26 by (exact (brk_ok_app _ _ _ _ _ B3 B36)).
    assert (brk_ok (code_len st1) (nb_t ++ nb_a) (code_len st6)) as B16 by (apply (brk_ok_widen _ _ _ _ _ B26); lia).
    (* the environments of the pieces *)
    cbn [app] in E.
    destruct (env_split prog st st1 st' ce_c _ nb_c (nb_t ++ nb_a) lexit _ L1 B1 B16 X1 E) as [Ec E1].
    assert (code_len st2 = code_len st1 + zlength jif3) as L2' by (unfold jif3; rewrite zlength3; exact L2).
    destruct (env_split prog st1 st2 st' jif3 _ [] (nb_t ++ nb_a) lexit _ L2'
                ltac:(cbn [brk_ok]; lia) B26 X2 E1) as [Ej E2].
    destruct (env_split prog st2 st3 st' ce_t _ nb_t nb_a lexit _ L3 B3 B36 X3 E2) as [Et E3].
    assert (code_len st5 = code_len st3 + zlength jmp3) as L5' by (unfold jmp3; rewrite zlength3; lia).
    destruct (env_split prog st3 st5 st' jmp3 _ [] nb_a lexit _ L5'
                ltac:(cbn [brk_ok]; lia) B6 X5 E3) as [Em E4].
    assert (env_ok prog st5 st6 ce_a nb_a lexit) as Ea.
    { destruct E4 as [A1 A2 A3]. constructor; try assumption. rewrite <- K'. exact A2. }
    (* condition *)
    specialize (Hsimc prog lexit Ec Hle Hst f s Hip).
    destruct (xeval orc f names c (mst_of s)) as [b m1|m1|m1|e|y|] eqn:E1c; cbn [xbind];
      try exact Hsimc; try (nosig_contra f c names (mst_of s) Hfc E1c).
    cbn [sim2] in Hsimc. destruct Hsimc as [fin1 Hsimc].
    set (sa := setx s (b :: v_stack s) (v_slen s + 1) (code_len st1) m1 fin1) in *.
    destruct Ej as [Ejc _ _]. cbn [brk_holes flat_map] in Ejc.
    pose proof (code_x_at3 _ _ _ _ _ _ _ Ejc (holes_free_nil _ _)) as Hjif.
    pose proof (step_jif orc prog sa T1 b (v_stack s) [] Hjif Rt1 eq_refl) as Hstepj.
    destruct b as [|bb| | | | |];
      try (cbn [sim2]; apply (reaches_stops orc prog s sa _ _ Hsimc); apply (stops_now orc prog sa _ Hstepj)).
    destruct bb.
    - (* the consequence *)
      set (sb := setx s (v_stack s) (v_slen s) (code_len st2) m1 fin1).
      assert (setm sa (v_stack s) (v_slen sa - 1) (v_ip sa + 3) (mst_of sa) = sb) as Esb.
      { subst sa sb. unfold setm, setx, mst_of. vmcbn2. f_equal; lia. }
      cbn [negb] in Hstepj. rewrite Esb in Hstepj.
      assert (reaches orc prog s sb) as Hsb.
      { apply (reaches_trans orc prog s sa _ Hsimc). apply reaches_step. exact Hstepj. }
      assert (0 <= cur_start (c_loops st2)) as Hst2 by (rewrite Cs2; exact Hst).
      specialize (Hsimt prog lexit Et Hle Hst2 f sb eq_refl). rewrite Cs2 in Hsimt.
      unfold sb in Hsimt at 2. rewrite mst_of_setx in Hsimt. fold names in Hsimt.
      destruct (xstmts orc f names t VNull m1) as [v m2|m2|m2|e|y|]; cbn [sim2] in *;
        try (destruct Hsimt as [fin2 Hsimt]; exists fin2; apply (reaches_trans orc prog s sb _ Hsb); exact Hsimt);
        try (apply (reaches_stops orc prog s sb _ _ Hsb); exact Hsimt); try exact I.
      destruct Hsimt as [fin2 Hsimt].
      set (sc := setx sb (v :: v_stack sb) (v_slen sb + 1) (code_len st3) m2 fin2) in *.
      exists fin2. apply (reaches_trans orc prog s sb _ Hsb). apply (reaches_trans orc prog sb sc _ Hsimt).
      destruct Em as [Emc _ _]. cbn [brk_holes flat_map] in Emc.
      pose proof (code_x_at3 _ _ _ _ _ _ _ Emc (holes_free_nil _ _)) as Hjmp.
      apply reaches_step. rewrite (step_jump orc prog sc T2 [] Hjmp Rt2). f_equal. f_equal.
      subst sc sb. unfold setm, setx, mst_of. vmcbn2. rewrite L'. reflexivity.
    - (* the alternative *)
      set (sb := setx s (v_stack s) (v_slen s) (code_len st5) m1 fin1).
      assert (setm sa (v_stack s) (v_slen sa - 1) T1 (mst_of sa) = sb) as Esb.
      { subst sa sb. unfold setm, setx, mst_of. vmcbn2. rewrite L5. f_equal; lia. }
      cbn [negb] in Hstepj. rewrite Esb in Hstepj.
      assert (reaches orc prog s sb) as Hsb.
      { apply (reaches_trans orc prog s sa _ Hsimc). apply reaches_step. exact Hstepj. }
      assert (0 <= cur_start (c_loops st5)) as Hst5 by (rewrite Cs5; exact Hst).
      specialize (Hsima prog lexit Ea Hle Hst5 f sb eq_refl). rewrite Cs5 in Hsima.
      unfold sb in Hsima at 2 3. rewrite !mst_of_setx in Hsima. rewrite L'.
      destruct (match alt with
                | Some bl => xstmts orc f names bl VNull m1
                | None => XOk VNull m1
                end) as [v m2|m2|m2|e|y|]; cbn [sim2] in *;
        try (destruct Hsima as [fin2 Hsima]; exists fin2; apply (reaches_trans orc prog s sb _ Hsb); exact Hsima);
        try (apply (reaches_stops orc prog s sb _ _ Hsb); exact Hsima); exact I.
  Qed.


  (** ** From the canonical form to statement mode: the trailing Pop is executed *)

  Definition sim_full (prog : program) (s : vm) (pop : bool) (ipend lstart lexit : Z) (r : xres val) : Prop :=
    match r with
    | XOk v m' => exists fin', reaches orc prog s (setx s (v_stack s) (v_slen s) ipend m' fin')
                               /\ (pop = true -> fin' = v)
    | XBrk m' => exists fin', reaches orc prog s (setx s (VNull :: v_stack s) (v_slen s + 1) lexit m' fin')
    | XCnt m' => exists fin', reaches orc prog s (setx s (VNull :: v_stack s) (v_slen s + 1) lstart m' fin')
    | XErr k => stops orc prog s (Err k) (v_out s)
    | XFault f => stops orc prog s (Fault f) (v_out s)
    | XFuel => True
    end.

  Lemma stmt_mode : forall l st st' outer cur ce nb, lconcl l st st' outer cur ce nb ->
    forall prog lexit, env_ok prog st st' ce nb lexit -> 0 <= lexit < 65536 ->
    0 <= cur_start (c_loops st) ->
    forall fuel s last, v_ip s = code_len st ->
    sim_full prog s (ends_pop l) (code_len st') (cur_start (c_loops st)) lexit
             (xstmts orc fuel (flat outer cur) l last (mst_of s)).
  Proof.
    intros l st st' outer cur ce nb [CF [Hlast [Hpop Hsim]]] prog lexit E Hle Hst fuel s last Hip.
    destruct (ends_pop l) eqn:Ep.
    - destruct (Hpop eq_refl) as [[ce' Hce'] Bp].
      pose proof (cf_code _ _ _ _ _ _ CF) as Hcode. rewrite Hce', app_assoc in Hcode.
      destruct (code_len_remove_last st' _ Hcode) as [Hcm Hlm].
      set (stm := remove_last_instruction st') in *.
      assert (code_len stm = code_len st + zlength ce') as Hlen.
      { unfold code_len at 1. rewrite Hcm, zlength_app. reflexivity. }
      rewrite <- Hlm in Bp. rewrite <- (app_nil_r nb), Hce' in E.
      destruct (env_split prog st stm st' ce' _ nb [] lexit (code_len st') Hlen Bp
                  ltac:(cbn [brk_ok]; lia) (cext_eq stm st' eq_refl) E) as [Ec Ep'].
      assert (env_ok prog st st' (canon true ce) nb lexit) as E0.
      { unfold canon. rewrite Hce', removelast_last. exact (env_consts_eq _ _ stm st' _ _ _ eq_refl Ec). }
      specialize (Hsim prog lexit E0 Hle Hst fuel s last Hip).
      destruct (xstmts orc fuel (flat outer cur) l last (mst_of s)) as [v m'|m'|m'|e|y|]; try exact Hsim.
      cbn [sim_l sim_full] in *. destruct Hsim as [fin1 Hsim].
      set (sa := setx s (v :: v_stack s) (v_slen s + 1) (code_len st' - 1) m' fin1) in *.
      exists v. split; [|reflexivity]. apply (reaches_trans orc prog s sa _ Hsim). apply reaches_step.
      destruct Ep' as [Epc _ _]. cbn [brk_holes flat_map] in Epc. rewrite Hlm in Epc.
      pose proof (code_x_at1 _ _ _ _ _ Epc (fun x => x)) as Hat.
      rewrite (step_pop orc prog sa v (v_stack s) [] Hat eq_refl). f_equal. f_equal.
      subst sa. unfold setx. vmcbn2. f_equal; lia.
    - specialize (Hsim prog lexit E Hle Hst fuel s last Hip).
      destruct (xstmts orc fuel (flat outer cur) l last (mst_of s)) as [v m'|m'|m'|e|y|]; try exact Hsim.
      cbn [sim_l sim_full] in *. destruct Hsim as [fin1 Hsim]. exists fin1. split; [exact Hsim|discriminate].
  Qed.

  (** ** Statement lists *)

  Lemma lsim_nil : lsim [].
  Proof.
    intros lp st st' k outer cur HF Hs Hc. cbn [compile_statements] in Hc. inversion Hc; subst st'; clear Hc.
    exists [], []. split; [|split; [intros N; contradiction|split; [intros N; discriminate N|]]].
    - cbn [decl_names]. rewrite app_nil_r. apply (cfacts_emit _ _ outer cur k); auto. rewrite app_nil_r. reflexivity.
    - intros prog lexit _ _ _ fuel s last Hip. destruct fuel as [|f]; [exact I|]. rewrite xs_nil.
      cbn [ends_pop sim_l]. exists (v_final s). exists O. cbn [steps]. f_equal.
      destruct s; unfold setx, mst_of; cbn in *. subst. reflexivity.
  Qed.


  (** ** One statement in front of a list: the generic step *)

  (* the canonical simulation of something that evaluates as R *)
  Definition gconcl (pop : bool) (R : nat -> mst -> xres val) (st st' : cstate) (ce nb : list Z) : Prop :=
    (pop = true -> (exists ce', ce = ce' ++ [byte_of_opcode OPop]) /\
                   brk_ok (code_len st) nb (code_len st' - 1)) /\
    forall prog lexit, env_ok prog st st' (canon pop ce) nb lexit -> 0 <= lexit < 65536 ->
    0 <= cur_start (c_loops st) ->
    forall fuel s, v_ip s = code_len st ->
    sim_l prog s pop (code_len st') (cur_start (c_loops st)) lexit (R fuel (mst_of s)).

  Lemma stmt_mode_g : forall pop R st st' outer cur ce nb, cfacts st st' outer cur ce nb ->
    gconcl pop R st st' ce nb ->
    forall prog lexit, env_ok prog st st' ce nb lexit -> 0 <= lexit < 65536 ->
    0 <= cur_start (c_loops st) ->
    forall fuel s, v_ip s = code_len st ->
    sim_full prog s pop (code_len st') (cur_start (c_loops st)) lexit (R fuel (mst_of s)).
  Proof.
    intros pop R st st' outer cur ce nb CF [Hpop Hsim] prog lexit E Hle Hst fuel s Hip.
    destruct pop.
    - destruct (Hpop eq_refl) as [[ce' Hce'] Bp].
      pose proof (cf_code _ _ _ _ _ _ CF) as Hcode. rewrite Hce', app_assoc in Hcode.
      destruct (code_len_remove_last st' _ Hcode) as [Hcm Hlm].
      set (stm := remove_last_instruction st') in *.
      assert (code_len stm = code_len st + zlength ce') as Hlen.
      { unfold code_len at 1. rewrite Hcm, zlength_app. reflexivity. }
      rewrite <- Hlm in Bp. rewrite <- (app_nil_r nb), Hce' in E.
      destruct (env_split prog st stm st' ce' _ nb [] lexit (code_len st') Hlen Bp
                  ltac:(cbn [brk_ok]; lia) (cext_eq stm st' eq_refl) E) as [Ec Ep'].
      assert (env_ok prog st st' (canon true ce) nb lexit) as E0.
      { unfold canon. rewrite Hce', removelast_last. exact (env_consts_eq _ _ stm st' _ _ _ eq_refl Ec). }
      specialize (Hsim prog lexit E0 Hle Hst fuel s Hip).
      destruct (R fuel (mst_of s)) as [v m'|m'|m'|e|y|]; try exact Hsim.
      cbn [sim_l sim_full] in *. destruct Hsim as [fin1 Hsim].
      set (sa := setx s (v :: v_stack s) (v_slen s + 1) (code_len st' - 1) m' fin1) in *.
      exists v. split; [|reflexivity]. apply (reaches_trans orc prog s sa _ Hsim). apply reaches_step.
      destruct Ep' as [Epc _ _]. cbn [brk_holes flat_map] in Epc. rewrite Hlm in Epc.
      pose proof (code_x_at1 _ _ _ _ _ Epc (fun x => x)) as Hat.
      rewrite (step_pop orc prog sa v (v_stack s) [] Hat eq_refl). f_equal. f_equal.
      subst sa. unfold setx. vmcbn2. f_equal; lia.
    - specialize (Hsim prog lexit E Hle Hst fuel s Hip).
      destruct (R fuel (mst_of s)) as [v m'|m'|m'|e|y|]; try exact Hsim.
      cbn [sim_l sim_full] in *. destruct Hsim as [fin1 Hsim]. exists fin1. split; [exact Hsim|discriminate].
  Qed.

  Lemma decl_names_cons : forall s0 r, decl_names (s0 :: r) = decl_names [s0] ++ decl_names r.
  Proof. intros s0 r. destruct s0; reflexivity. Qed.

  Lemma ends_pop_cons2 : forall s0 s1 r, ends_pop (s0 :: s1 :: r) = ends_pop (s1 :: r).
  Proof. reflexivity. Qed.

  Lemma cons_sim : forall s0 r ph Hd st st1 st' outer cur ce_h nb_h lp,
    cfacts st st1 outer (cur ++ decl_names [s0]) ce_h nb_h ->
    last_instruction_is OPop st1 = ph -> ph = stmt_pop s0 ->
    gconcl ph Hd st st1 ce_h nb_h ->
    (forall f last m, xstmts orc (S f) (flat outer cur) (s0 :: r) last m =
                      xbind (Hd f m) (fun v m1 => xstmts orc f (flat outer (cur ++ decl_names [s0])) r v m1)) ->
    lsim r -> f2b lp r = true -> compile_statements r st1 = Ok st' ->
    exists ce nb, lconcl (s0 :: r) st st' outer cur ce nb.
  Proof.
    intros s0 r ph Hd st st1 st' outer cur ce_h nb_h lp CFh Hlast Hph Gh Heq IHr HFr Hc.
    destruct (cf_syms _ _ _ _ _ _ CFh) as [k1 Hs1].
    destruct r as [|s1 r'].
    - (* the last statement: its canonical form is the list's *)
      cbn [compile_statements] in Hc. inversion Hc; subst st'; clear Hc.
      exists ce_h, nb_h. destruct Gh as [Gpop Gsim].
      split; [|split; [|split]].
      + rewrite decl_names_cons. cbn [decl_names]. rewrite app_nil_r. exact CFh.
      + intros _. cbn [ends_pop]. rewrite Hlast. exact Hph.
      + cbn [ends_pop]. rewrite <- Hph. exact Gpop.
      + intros prog lexit E Hle Hst fuel s last Hip. cbn [ends_pop] in *. rewrite <- Hph in *.
        destruct fuel as [|f]; [exact I|]. rewrite Heq.
        specialize (Gsim prog lexit E Hle Hst f s Hip).
        destruct (Hd f (mst_of s)) as [v m1|m1|m1|e|y|]; cbn [xbind]; try exact Gsim.
        destruct f as [|f']; [exact I|]. rewrite xs_nil. exact Gsim.
    - (* more statements follow: the head in statement mode, then the rest *)
      destruct (IHr lp st1 st' k1 outer (cur ++ decl_names [s0]) HFr Hs1 Hc) as [ce_r [nb_r Lr]].
      pose proof Lr as [CFr [Hlastr [Hpopr Hsimr]]].
      exists (ce_h ++ ce_r), (nb_h ++ nb_r).
      pose proof (cfacts_trans _ _ _ _ _ _ _ _ _ _ CFh CFr) as CF.
      split; [|split; [|split]].
      + rewrite decl_names_cons, app_assoc. exact CF.
      + intros _. rewrite ends_pop_cons2. apply Hlastr. discriminate.
      + rewrite ends_pop_cons2. intros Ep. destruct (Hpopr Ep) as [[ce' Hce'] Bp]. split.
        * exists (ce_h ++ ce'). rewrite Hce', app_assoc. reflexivity.
        * apply (brk_ok_app _ _ _ (code_len st1)); [exact (cf_brk _ _ _ _ _ _ CFh)|exact Bp].
      + intros prog lexit E Hle Hst fuel s last Hip. rewrite ends_pop_cons2 in *.
        assert (canon (ends_pop (s1 :: r')) (ce_h ++ ce_r) = ce_h ++ canon (ends_pop (s1 :: r')) ce_r) as Ecanon.
        { unfold canon. destruct (ends_pop (s1 :: r')) eqn:Ep; [|reflexivity].
          destruct (Hpopr eq_refl) as [[ce' Hce'] _]. apply removelast_app. rewrite Hce'.
          destruct ce'; discriminate. }
        rewrite Ecanon in E.
        destruct (env_split prog st st1 st' ce_h _ nb_h nb_r lexit _ (cfacts_len _ _ _ _ _ _ CFh)
                    (cf_brk _ _ _ _ _ _ CFh) (cf_brk _ _ _ _ _ _ CFr) (cext_cfacts _ _ _ _ _ _ CFr) E) as [Eh Er].
        destruct fuel as [|f]; [exact I|]. rewrite Heq.
        pose proof (stmt_mode_g ph Hd st st1 outer _ ce_h nb_h CFh Gh prog lexit Eh Hle Hst f s Hip) as Hh.
        destruct (Hd f (mst_of s)) as [v m1|m1|m1|e|y|]; cbn [xbind]; try exact Hh.
        cbn [sim_full] in Hh. destruct Hh as [fin1 [Hh _]].
        set (sb := setx s (v_stack s) (v_slen s) (code_len st1) m1 fin1) in *.
        assert (0 <= cur_start (c_loops st1)) as Hst1.
        { rewrite (cf_loops _ _ _ _ _ _ CFh), cur_start_add. exact Hst. }
        specialize (Hsimr prog lexit Er Hle Hst1 f sb v eq_refl).
        rewrite (cf_loops _ _ _ _ _ _ CFh), cur_start_add in Hsimr.
        unfold sb in Hsimr at 2. rewrite mst_of_setx in Hsimr.
        destruct (xstmts orc f (flat outer (cur ++ decl_names [s0])) (s1 :: r') v m1) as [v2 m2|m2|m2|e|y|];
          cbn [sim_l] in *;
          try (destruct Hsimr as [fin2 Hsimr]; exists fin2; apply (reaches_trans orc prog s sb _ Hh); exact Hsimr);
          try (apply (reaches_stops orc prog s sb _ _ Hh); exact Hsimr); try exact I.
        destruct (ends_pop (s1 :: r')); destruct Hsimr as [fin2 Hsimr]; exists fin2;
          apply (reaches_trans orc prog s sb _ Hh); exact Hsimr.
  Qed.


  (** ** The five kinds of statement *)

  Lemma cfacts_in : forall st t st1 outer cur ce nb,
    cfacts (set_symbols st t) st1 outer cur ce nb -> cfacts st st1 outer cur ce nb.
  Proof. intros st t st1 outer cur ce nb [S C K L N B]. constructor; assumption. Qed.

  Lemma cfacts_out : forall st st1 t outer0 cur0 outer cur k' ce nb,
    cfacts st st1 outer0 cur0 ce nb -> t = stab k' outer cur ->
    cfacts st (set_symbols st1 t) outer cur ce nb.
  Proof.
    intros st st1 t outer0 cur0 outer cur k' ce nb [S C K L N B] Ht. constructor; try assumption.
    exists k'. exact Ht.
  Qed.

  Lemma env_in : forall prog st t st1 ce nb lexit,
    env_ok prog st st1 ce nb lexit -> env_ok prog (set_symbols st t) st1 ce nb lexit.
  Proof. intros prog st t st1 ce nb lexit [E1 E2 E3]. constructor; assumption. Qed.

  Lemma env_out : forall prog st st1 t ce nb lexit,
    env_ok prog st (set_symbols st1 t) ce nb lexit -> env_ok prog st st1 ce nb lexit.
  Proof. intros prog st st1 t ce nb lexit [E1 E2 E3]. constructor; assumption. Qed.

  Lemma emit_sym_last : forall op sy st st', emit_sym op sy st = Ok st' -> c_last st' = Some op.
  Proof.
    intros op sy st st' H. unfold emit_sym in H. apply bind_ok in H. destruct H as [idx [_ H]].
    inversion H; subst. reflexivity.
  Qed.

  Lemma ssim_expr : forall e, esim e -> ssim (SExpr e).
  Proof.
    intros e IHe r IHr lp st st' k outer cur HF Hs Hc.
    rewrite f2b_cons in HF. apply andb_prop in HF. destruct HF as [HFe HFr]. cbn [f2s] in HFe.
    cbn [compile_statements] in Hc. apply bind_ok in Hc. destruct Hc as [st2 [H2 Hc]].
    rewrite cs_expr in H2. apply bind_ok in H2. destruct H2 as [st1 [H1 H2]]. inversion H2; subst st2; clear H2.
    destruct (IHe lp st st1 k outer cur HFe Hs H1) as [ce_e [nb_e [CFe Hsime]]].
    destruct (cf_syms _ _ _ _ _ _ CFe) as [k1 Hs1].
    pose proof (cfacts_emit_opcode OPop st1 outer cur k1 Hs1) as CFp.
    pose proof (cfacts_trans _ _ _ _ _ _ _ _ _ _ CFe CFp) as CFh. rewrite app_nil_r in CFh.
    apply (cons_sim (SExpr e) r true (fun f m => xeval orc f (flat outer cur) e m)
                    st (emit_opcode OPop st1) st' outer cur (ce_e ++ [byte_of_opcode OPop]) nb_e lp);
      try assumption; try reflexivity.
    - cbn [decl_names]. rewrite app_nil_r. exact CFh.
    - split.
      + intros _. split; [exists ce_e; reflexivity|]. rewrite code_len_emit_opcode.
        replace (code_len st1 + 1 - 1) with (code_len st1) by lia. exact (cf_brk _ _ _ _ _ _ CFe).
      + intros prog lexit E Hle Hst fuel s Hip. unfold canon in E. rewrite removelast_last in E.
        assert (env_ok prog st st1 ce_e nb_e lexit) as Ee.
        { destruct E as [A1 A2 A3]. constructor; assumption. }
        specialize (Hsime prog lexit Ee Hle Hst fuel s Hip). rewrite code_len_emit_opcode.
        destruct (xeval orc fuel (flat outer cur) e (mst_of s)); try exact Hsime.
        cbn [sim_l sim2] in *. replace (code_len st1 + 1 - 1) with (code_len st1) by lia. exact Hsime.
    - intros f last m. rewrite xs_expr. cbn [decl_names]. rewrite app_nil_r. reflexivity.
  Qed.

  Lemma ssim_let : forall x e, esim e -> ssim (SLet x e).
  Proof.
    intros x e IHe r IHr lp st st' k outer cur HF Hs Hc.
    rewrite f2b_cons in HF. apply andb_prop in HF. destruct HF as [HFe HFr]. cbn [f2s] in HFe.
    apply andb_prop in HFe. destruct HFe as [HFe _].
    cbn [compile_statements] in Hc. apply bind_ok in Hc. destruct Hc as [st2 [H2 Hc]].
    rewrite cs_let, Hs, define_stab in H2.
    set (st0 := set_symbols st (stab (S k) outer (cur ++ [x]))) in *.
    apply bind_ok in H2. destruct H2 as [st1 [H1 H2]]. unfold scoped in H2. cbn [s_scope] in H2.
    destruct (IHe false st0 st1 (S k) outer (cur ++ [x]) HFe eq_refl H1) as [ce_e [nb_e [CFe0 Hsime]]].
    pose proof (cfacts_in _ _ _ _ _ _ _ CFe0) as CFe.
    destruct (cf_syms _ _ _ _ _ _ CFe) as [k1 Hs1].
    destruct (cfacts_emit_sym _ _ _ _ outer (cur ++ [x]) k1 Hs1 H2) as [Hr CFs]. cbn [s_index] in Hr, CFs.
    set (n := length (flat outer cur)) in *. set (idx := Z.of_nat n) in *.
    pose proof (cfacts_trans _ _ _ _ _ _ _ _ _ _ CFe CFs) as CFh. rewrite app_nil_r in CFh.
    set (names := flat outer cur) in *.
    apply (cons_sim (SLet x e) r false
             (fun f m => xbind (xeval orc f (names ++ [x]) e m) (fun v m1 => XOk VNull (set_global_m n v m1)))
             st st2 st' outer cur
             (ce_e ++ [byte_of_opcode OSetGlobal; idx mod 256; (idx / 256) mod 256]) nb_e lp);
      try assumption; try reflexivity.
    - unfold last_instruction_is. rewrite (emit_sym_last _ _ _ _ H2). reflexivity.
    - split; [intros N; discriminate N|].
      intros prog lexit E Hle Hst fuel s Hip. unfold canon in E.
      rewrite <- (app_nil_r nb_e) in E.
      destruct (env_split prog st st1 st2 ce_e _ nb_e [] lexit (code_len st2) (cfacts_len _ _ _ _ _ _ CFe)
                  (cf_brk _ _ _ _ _ _ CFe) (cf_brk _ _ _ _ _ _ CFs) (cext_cfacts _ _ _ _ _ _ CFs) E) as [Ee Es].
      specialize (Hsime prog lexit (env_in _ _ _ _ _ _ _ Ee) Hle Hst fuel s Hip).
      change (cur_start (c_loops st0)) with (cur_start (c_loops st)) in Hsime.
      rewrite flat_snoc in Hsime. fold names in Hsime.
      destruct (xeval orc fuel (names ++ [x]) e (mst_of s)) as [v m1|m1|m1|e1|y|] eqn:E1; cbn [xbind];
        try exact Hsime; try (nosig_contra fuel e (names ++ [x]) (mst_of s) HFe E1).
      cbn [sim2 sim_l] in *. destruct Hsime as [fin1 Hsime].
      set (sa := setx s (v :: v_stack s) (v_slen s + 1) (code_len st1) m1 fin1) in *.
      exists fin1. apply (reaches_trans orc prog s sa _ Hsime). apply reaches_step.
      destruct Es as [Esc _ _]. cbn [brk_holes flat_map] in Esc.
      pose proof (code_x_at3 _ _ _ _ _ _ _ Esc (holes_free_nil _ _)) as Hat.
      rewrite (step_set_global orc prog sa idx v (v_stack s) [] Hat Hr eq_refl). f_equal. f_equal.
      pose proof (cfacts_len _ _ _ _ _ _ CFs) as Ls. rewrite zlength3 in Ls.
      subst sa idx. unfold setm, setx, mst_of, set_global_m. vmcbn2. rewrite Nat2Z.id, Ls. f_equal; lia.
    - intros f last m. rewrite xs_let. cbn [decl_names]. rewrite flat_snoc. fold names. fold n.
      destruct (xeval orc f (names ++ [x]) e m); reflexivity.
  Qed.


  Lemma break_last : forall st st', compile_statement SBreak st = Ok st' -> c_last st' = Some OJump.
  Proof.
    intros st st' H. cbn [compile_statement] in H. cbn [emit_u16 emit_opcode c_loops] in H.
    destruct (rev (c_loops st)); [discriminate H|]. inversion H; subst. reflexivity.
  Qed.

  Lemma continue_last : forall st st', compile_statement SContinue st = Ok st' -> c_last st' = Some OJump.
  Proof.
    intros st st' H. cbn [compile_statement] in H. cbn [emit_opcode c_loops] in H.
    destruct (rev (c_loops st)); [discriminate H|]. apply bind_ok in H. destruct H as [pos [_ H]].
    inversion H; subst. reflexivity.
  Qed.

  Lemma ssim_break : ssim SBreak.
  Proof.
    intros r IHr lp st st' k outer cur HF Hs Hc.
    rewrite f2b_cons in HF. apply andb_prop in HF. destruct HF as [_ HFr].
    cbn [compile_statements] in Hc. apply bind_ok in Hc. destruct Hc as [st2 [H2 Hc]].
    pose proof (break_last _ _ H2) as Hlast.
    destruct (break_innermost _ _ H2) as [outer_l [ctx [Hl [Hl2 [Hcode [Hsy Hk]]]]]].
    set (ip := code_len st + 1) in *.
    assert (code_len st2 = code_len st + 4) as L2.
    { rewrite (code_len_app _ _ _ Hcode). reflexivity. }
    assert (cfacts st st2 outer cur break_code [ip]) as CFh.
    { constructor.
      - exists k. congruence.
      - exact Hcode.
      - apply cext_eq. exact Hk.
      - rewrite Hl2, Hl, add_breaks_snoc. reflexivity.
      - intros N. rewrite N in Hl. destruct outer_l; discriminate Hl.
      - cbn [brk_ok]. unfold ip. lia. }
    apply (cons_sim SBreak r false (fun f m => XBrk m) st st2 st' outer cur break_code [ip] lp);
      try assumption; try reflexivity.
    - cbn [decl_names]. rewrite app_nil_r. exact CFh.
    - unfold last_instruction_is. rewrite Hlast. reflexivity.
    - split; [intros N; discriminate N|].
      intros prog lexit [E1 _ E3] Hle _ fuel s Hip. cbn [sim_l]. unfold canon in E1.
      destruct E1 as [E0 E1]. rewrite <- Hip in E1.
      assert (~ In (v_ip s) (brk_holes [ip])) as Hn0.
      { cbn [brk_holes flat_map app In]. unfold ip. rewrite Hip. lia. }
      assert (~ In (v_ip s + 1) (brk_holes [ip])) as Hn1.
      { cbn [brk_holes flat_map app In]. unfold ip. rewrite Hip. lia. }
      pose proof (E1 0%nat _ eq_refl) as B0. rewrite Z.add_0_r in B0. specialize (B0 Hn0).
      pose proof (E1 1%nat _ eq_refl Hn1) as B1. change (Z.of_nat 1) with 1 in B1.
      destruct (E3 ip (or_introl eq_refl)) as [B2 B3].
      exists (v_final s).
      pose proof (step_null orc prog s [] (code_at_bytes1 _ _ _ B0)) as Hstep1.
      apply (reaches_trans orc prog s _ _ (reaches_step orc prog _ _ Hstep1)).
      set (sa := setm s (VNull :: v_stack s) (v_slen s + 1) (v_ip s + 1) (mst_of s)) in *.
      assert (ip = v_ip sa) as Hipa by (unfold ip; rewrite <- Hip; reflexivity).
      rewrite Hipa in B2, B3. change (v_ip s + 1) with (v_ip sa) in B1.
      apply reaches_step. rewrite (step_jump orc prog sa lexit [] (code_at_bytes3 _ _ _ _ _ B1 B2 B3) Hle).
      reflexivity.
  Qed.

  Lemma ssim_continue : ssim SContinue.
  Proof.
    intros r IHr lp st st' k outer cur HF Hs Hc.
    rewrite f2b_cons in HF. apply andb_prop in HF. destruct HF as [_ HFr].
    cbn [compile_statements] in Hc. apply bind_ok in Hc. destruct Hc as [st2 [H2 Hc]].
    pose proof (continue_last _ _ H2) as Hlast.
    destruct (continue_innermost _ _ H2) as [outer_l [ctx [Hl [Hl2 [Hlt [Hcode [Hsy Hk]]]]]]].
    assert (cur_start (c_loops st) = l_start ctx) as Hcs by (rewrite Hl; apply cur_start_snoc).
    set (T := l_start ctx) in *.
    pose proof (cfacts_emit st st2 outer cur k _ Hs Hsy Hk Hl2 Hcode) as CFh.
    apply (cons_sim SContinue r false (fun f m => XCnt m) st st2 st' outer cur
             [byte_of_opcode ONull; byte_of_opcode OJump; T mod 256; (T / 256) mod 256] [] lp);
      try assumption; try reflexivity.
    - cbn [decl_names]. rewrite app_nil_r. exact CFh.
    - unfold last_instruction_is. rewrite Hlast. reflexivity.
    - split; [intros N; discriminate N|].
      intros prog lexit [E1 _ _] _ Hst fuel s Hip. cbn [sim_l]. unfold canon in E1.
      cbn [brk_holes flat_map] in E1. rewrite <- Hip in E1.
      change [byte_of_opcode ONull; byte_of_opcode OJump; T mod 256; (T / 256) mod 256]
        with ([byte_of_opcode ONull] ++ [byte_of_opcode OJump; T mod 256; (T / 256) mod 256]) in E1.
      apply code_x_app in E1. destruct E1 as [Ea Eb].
      exists (v_final s).
      pose proof (step_null orc prog s [] (code_x_at1 _ _ _ _ _ Ea (fun x => x))) as Hstep1.
      apply (reaches_trans orc prog s _ _ (reaches_step orc prog _ _ Hstep1)).
      set (sa := setm s (VNull :: v_stack s) (v_slen s + 1) (v_ip s + 1) (mst_of s)) in *.
      change (v_ip s + zlength [byte_of_opcode ONull]) with (v_ip sa) in Eb.
      assert (0 <= T < 65536) as RT by (rewrite <- Hcs; change (2 ^ 16) with 65536 in Hlt; rewrite Hcs; lia).
      apply reaches_step.
      rewrite (step_jump orc prog sa T [] (code_x_at3 _ _ _ _ _ _ _ Eb (holes_free_nil _ _)) RT).
      rewrite Hcs. reflexivity.
  Qed.

  Lemma ssim_block : forall b, lsim b -> ssim (SBlock b).
  Proof.
    intros b IHb r IHr lp st st' k outer cur HF Hs Hc.
    rewrite f2b_cons in HF. apply andb_prop in HF. destruct HF as [HFb HFr]. rewrite f2s_block in HFb.
    cbn [compile_statements] in Hc. apply bind_ok in Hc. destruct Hc as [st2 [H2 Hc]].
    rewrite cs_block in H2. set (names := flat outer cur) in *.
    destruct b as [|s0 b'].
    - (* the empty block: Null; Pop *)
      cbn [is_nil] in H2. inversion H2; subst st2; clear H2.
      pose proof (cfacts_emit_opcode ONull st outer cur k Hs) as CF1.
      pose proof (cfacts_emit_opcode OPop (emit_opcode ONull st) outer cur k Hs) as CF2.
      pose proof (cfacts_trans _ _ _ _ _ _ _ _ _ _ CF1 CF2) as CFh. cbn [app] in CFh.
      apply (cons_sim (SBlock []) r true (fun f m => xstmts orc f names [] VNull m)
               st (emit_opcode OPop (emit_opcode ONull st)) st' outer cur
               [byte_of_opcode ONull; byte_of_opcode OPop] [] lp);
        try assumption; try reflexivity.
      + cbn [decl_names]. rewrite app_nil_r. exact CFh.
      + split.
        * intros _. split; [exists [byte_of_opcode ONull]; reflexivity|]. cbn [brk_ok].
          rewrite !code_len_emit_opcode. lia.
        * intros prog lexit [E1 _ _] _ _ fuel s Hip. destruct fuel as [|f]; [exact I|]. rewrite xs_nil.
          cbn [sim_l]. unfold canon in E1. cbn [removelast brk_holes flat_map] in E1. rewrite <- Hip in E1.
          exists (v_final s). apply reaches_step.
          rewrite (step_null orc prog s [] (code_x_at1 _ _ _ _ _ E1 (fun x => x))), setm_setx.
          f_equal. f_equal. apply setx_eq; [reflexivity|]. rewrite !code_len_emit_opcode, Hip. lia.
      + intros f last m. rewrite xs_block. cbn [decl_names]. rewrite app_nil_r. reflexivity.
    - cbn [is_nil] in H2. apply bind_ok in H2. destruct H2 as [st1 [H1 H2]]. inversion H2; subst st2; clear H2.
      set (st0 := set_symbols st (enter_scope (c_symbols st))) in *.
      assert (c_symbols st0 = stab k (outer ++ [cur]) []) as Hs0
        by (unfold st0; cbn [set_symbols c_symbols]; rewrite Hs; reflexivity).
      destruct (IHb lp st0 st1 k (outer ++ [cur]) [] HFb Hs0 H1) as [ce [nb [CFb [Hlastb [Hpopb Hsimb]]]]].
      destruct (cf_syms _ _ _ _ _ _ CFb) as [k1 S1]. cbn [app] in S1.
      set (st1' := set_symbols st1 (leave_scope (c_symbols st1))) in *.
      assert (leave_scope (c_symbols st1) = stab k1 outer cur) as Hleave by (rewrite S1; apply leave_stab).
      pose proof (cfacts_out _ _ _ _ _ outer cur k1 _ _ (cfacts_in _ _ _ _ _ _ _ CFb) Hleave) as CFh.
      fold st1' in CFh.
      apply (cons_sim (SBlock (s0 :: b')) r (ends_pop (s0 :: b'))
               (fun f m => xstmts orc f names (s0 :: b') VNull m) st st1' st' outer cur ce nb lp);
        try assumption.
      + cbn [decl_names]. rewrite app_nil_r. exact CFh.
      + rewrite <- Hlastb by discriminate. reflexivity.
      + rewrite stmt_pop_block. reflexivity.
      + split.
        * intros Ep. exact (Hpopb Ep).
        * intros prog lexit E Hle Hst fuel s Hip.
          specialize (Hsimb prog lexit (env_in _ _ _ _ _ _ _ (env_out _ _ _ _ _ _ _ E)) Hle Hst fuel s VNull Hip).
          rewrite flat_enter in Hsimb. exact Hsimb.
      + intros f last m. rewrite xs_block. cbn [decl_names]. rewrite app_nil_r. reflexivity.
  Qed.


  (** ** The patches at the end of a loop *)

  Definition put2 (T ip : Z) (code : list Z) : list Z :=
    replace_nth (Z.to_nat ip + 2) ((T / 256) mod 256) (replace_nth (Z.to_nat ip + 1) (T mod 256) code).

  Lemma wt_cons : forall T ip r code, write_targets T (ip :: r) code = write_targets T r (put2 T ip code).
  Proof. reflexivity. Qed.

  Lemma put2_length : forall T ip code, length (put2 T ip code) = length code.
  Proof. intros. unfold put2. rewrite !length_replace_nth'. reflexivity. Qed.

  Lemma wt_length : forall T nb code, length (write_targets T nb code) = length code.
  Proof.
    intros T nb. induction nb as [|ip r IH]; intros code; [reflexivity|].
    rewrite wt_cons, IH. apply put2_length.
  Qed.

  Lemma put2_other : forall T ip code q, q <> (Z.to_nat ip + 1)%nat -> q <> (Z.to_nat ip + 2)%nat ->
    nth_error (put2 T ip code) q = nth_error code q.
  Proof.
    intros T ip code q H1 H2. unfold put2.
    rewrite !nth_error_replace_nth_other by (intros N; lia). reflexivity.
  Qed.

  Lemma wt_other : forall T nb code q,
    (forall ip, In ip nb -> q <> (Z.to_nat ip + 1)%nat /\ q <> (Z.to_nat ip + 2)%nat) ->
    nth_error (write_targets T nb code) q = nth_error code q.
  Proof.
    intros T nb. induction nb as [|ip r IH]; intros code q H; [reflexivity|].
    rewrite wt_cons, IH.
    - destruct (H ip (or_introl eq_refl)) as [H1 H2]. apply put2_other; assumption.
    - intros ip' Hin. apply H. right. exact Hin.
  Qed.

  Lemma wt_at : forall T nb lo hi code ip, brk_ok lo nb hi -> 0 <= lo -> hi <= Z.of_nat (length code) ->
    In ip nb ->
    nth_error (write_targets T nb code) (Z.to_nat ip + 1) = Some (T mod 256) /\
    nth_error (write_targets T nb code) (Z.to_nat ip + 2) = Some ((T / 256) mod 256).
  Proof.
    intros T nb. induction nb as [|ip0 r IH]; intros lo hi code ip B Hlo Hhi Hin; [destruct Hin|].
    cbn [brk_ok] in B. destruct B as [B0 Br]. rewrite wt_cons. destruct Hin as [->|Hin].
    - pose proof (brk_ok_le _ _ _ Br) as Hle.
      assert (forall ip', In ip' r -> ip + 3 <= ip') as Hafter.
      { intros ip' Hi. exact (proj1 (brk_ok_in _ _ _ _ Br Hi)). }
      rewrite !wt_other.
      + unfold put2. split.
        * rewrite nth_error_replace_nth_other by lia. apply nth_error_replace_nth_same. lia.
        * apply nth_error_replace_nth_same. rewrite length_replace_nth'. lia.
      + intros ip' Hi. specialize (Hafter ip' Hi). lia.
      + intros ip' Hi. specialize (Hafter ip' Hi). lia.
    - apply (IH (ip0 + 3) hi); [exact Br|lia|rewrite put2_length; exact Hhi|exact Hin].
  Qed.

  Lemma wt_prefix : forall T nb a b, (forall ip, In ip nb -> (length a <= Z.to_nat ip)%nat) ->
    exists b', write_targets T nb (a ++ b) = a ++ b' /\ length b' = length b.
  Proof.
    intros T nb. induction nb as [|ip r IH]; intros a b H.
    - exists b. split; reflexivity.
    - rewrite wt_cons. pose proof (H ip (or_introl eq_refl)) as Hip.
      assert (put2 T ip (a ++ b) = a ++ put2 T (ip - Z.of_nat (length a)) b) as ->.
      { unfold put2.
        replace (Z.to_nat ip + 1)%nat with (length a + (Z.to_nat (ip - Z.of_nat (length a)) + 1))%nat by lia.
        replace (Z.to_nat ip + 2)%nat with (length a + (Z.to_nat (ip - Z.of_nat (length a)) + 2))%nat by lia.
        rewrite !replace_nth_app2. reflexivity. }
      destruct (IH a (put2 T (ip - Z.of_nat (length a)) b) (fun ip' Hi => H ip' (or_intror Hi))) as [b' [E L]].
      exists b'. split; [exact E|]. rewrite L. apply put2_length.
  Qed.


  (** ** zolang *)

  (* what the machine does from the loop head with `lastv` on top of the stack of state s *)
  Definition loop_post (prog : program) (s sh : vm) (lexit : Z) (r : xres val) : Prop :=
    match r with
    | XOk v m' => exists fin', reaches orc prog sh (setx s (v :: v_stack s) (v_slen s + 1) lexit m' fin')
    | XBrk _ | XCnt _ => False
    | XErr k => stops orc prog sh (Err k) (v_out s)
    | XFault f => stops orc prog sh (Fault f) (v_out s)
    | XFuel => True
    end.

  Lemma esim_while : forall c body, esim c -> lsim body -> esim (EWhile c body).
  Proof.
    intros c body IHc IHb lp st st' k outer cur HF Hs Hc.
    rewrite f2e_while in HF. apply andb_prop in HF. destruct HF as [Hfc Hfb].
    rewrite ce_while in Hc. cbv zeta in Hc.
    set (st1 := emit_opcode ONull st) in *.
    pose proof (code_len_emit_opcode ONull st) as L1. fold st1 in L1.
    set (start := code_len st1) in *.
    set (st2 := set_loops st1 (c_loops st1 ++ [mkLoop start []])) in *.
    apply bind_ok in Hc. destruct Hc as [st3 [H3 Hc]].
    apply bind_ok in Hc. destruct Hc as [st5 [H5 Hc]].
    apply bind_ok in Hc. destruct Hc as [back [Hb Hc]].
    apply bind_ok in Hc. destruct Hc as [target [Ht Hc]].
    apply bind_ok in Hc. destruct Hc as [st8 [H8 Hc]].
    assert (c_symbols st2 = stab k outer cur) as Hs2 by exact Hs.
    destruct (IHc false st2 st3 k outer cur Hfc Hs2 H3) as [ce_c [nb_c [CF3 Hsimc]]].
    destruct (cf_syms _ _ _ _ _ _ CF3) as [k3 Hs3].
    set (PHlo := JUMP_PLACEHOLDER mod 256) in *. set (PHhi := (JUMP_PLACEHOLDER / 256) mod 256) in *.
    set (st4 := emit_opcode OPop (emit_u16 JUMP_PLACEHOLDER (emit_opcode OJumpIfFalse st3))) in *.
    assert (cfacts st3 st4 outer cur [byte_of_opcode OJumpIfFalse; PHlo; PHhi; byte_of_opcode OPop] []) as CF34.
    { apply (cfacts_emit _ _ outer cur k3); auto. unfold st4. cbn [emit_opcode emit_u16 c_code].
      rewrite <- !app_assoc. reflexivity. }
    assert (c_symbols st4 = stab k3 outer cur) as Hs4 by exact Hs3.
    destruct (bv_sim body IHb true st4 st5 k3 outer cur Hfb Hs4 H5) as [ce_b [nb_b [CF5 Hsimb]]].
    destruct (cf_syms _ _ _ _ _ _ CF5) as [k5 Hs5].
    destruct (operand16_code_len _ _ Hb) as [-> Rs]. clear Hb.
    set (st7 := emit_u16 start (emit_opcode OJump st5)) in *.
    pose proof (cfacts_emit_u16op OJump start st5 outer cur k5 Hs5) as CF57. fold st7 in CF57.
    destruct (operand16_code_len _ _ Ht) as [-> Re]. clear Ht.
    set (lexit_in := code_len st7) in *.
    pose proof (cfacts_trans _ _ _ _ _ _ _ _ _ _ CF3 (cfacts_trans _ _ _ _ _ _ _ _ _ _ CF34
                 (cfacts_trans _ _ _ _ _ _ _ _ _ _ CF5 CF57))) as CF27.
    set (jmp3 := [byte_of_opcode OJump; start mod 256; (start / 256) mod 256]) in *.
    set (nbi := nb_c ++ nb_b).
    assert (cfacts st2 st7 outer cur
              (ce_c ++ byte_of_opcode OJumpIfFalse :: PHlo :: PHhi :: (byte_of_opcode OPop :: ce_b ++ jmp3)) nbi) as CF27'.
    { apply (cfacts_eq _ _ _ _ _ _ _ _ CF27); unfold nbi; cbn [app]; rewrite ?app_nil_r; reflexivity. }
    clear CF27.
    pose proof (cfacts_len _ _ _ _ _ _ CF3) as L3. rewrite L3 in H8.
    destruct (cfacts_patch_at _ _ _ _ _ _ _ _ _ _ _ lexit_in CF27' H8) as [CF28 [L8 _]].
    set (jif4 := [byte_of_opcode OJumpIfFalse; lexit_in mod 256; (lexit_in / 256) mod 256; byte_of_opcode OPop]) in *.
    set (W8 := ce_c ++ jif4 ++ ce_b ++ jmp3).
    assert (cfacts st2 st8 outer cur W8 nbi) as CF28' by exact CF28. clear CF28.
    (* the innermost context is popped *)
    pose proof (cf_loops _ _ _ _ _ _ CF28') as Lp8.
    assert (c_loops st2 = c_loops st ++ [mkLoop start []]) as Lp2 by reflexivity.
    rewrite Lp2, add_breaks_snoc in Lp8. cbn [l_start l_breaks app] in Lp8.
    rewrite Lp8, rev_unit in Hc. cbn [l_breaks] in Hc. rewrite rev_involutive in Hc.
    pose proof (cf_brk _ _ _ _ _ _ CF28') as B28.
    assert (0 <= code_len st2) as Hpos2 by apply code_len_nonneg.
    assert (Forall (fun ip => 0 <= ip) nbi) as Hposn.
    { apply Forall_forall. intros ip Hin. destruct (brk_ok_in _ _ _ _ B28 Hin). lia. }
    destruct (patch_breaks_spec _ _ _ Hposn Hc) as [P1 [P2 [P3 [P4 [P5 [_ P7]]]]]].
    cbn [set_loops c_symbols c_constants c_loops c_last c_code] in P1, P2, P3, P5, P7.
    assert (code_len (set_loops st8 (c_loops st)) = lexit_in) as Lx by (unfold lexit_in; rewrite <- L8; reflexivity).
    rewrite Lx in P7.
    pose proof (cf_code _ _ _ _ _ _ CF28') as C8.
    assert (c_code st2 = c_code st ++ [byte_of_opcode ONull]) as C2 by reflexivity.
    rewrite C2, <- app_assoc in C8. set (W8f := [byte_of_opcode ONull] ++ W8) in *.
    assert (code_len st2 = code_len st + 1) as L2 by exact L1.
    assert (forall ip, In ip nbi -> (length (c_code st) <= Z.to_nat ip)%nat) as Hpre.
    { intros ip Hin. destruct (brk_ok_in _ _ _ _ B28 Hin) as [Q _]. unfold code_len, zlength in L2, Q. lia. }
    rewrite C8 in P7. destruct (wt_prefix lexit_in nbi (c_code st) W8f Hpre) as [W' [EW' LW']].
    rewrite EW' in P7.
    assert (code_len st' = lexit_in) as L'.
    { rewrite <- Lx. apply code_len_length. exact P5. }
    (* constants *)
    assert (cext st2 st8) as X28 by exact (cext_cfacts _ _ _ _ _ _ CF28').
    assert (cext st8 st') as X8' by (apply cext_eq; exact P2).
    assert (cext st2 st') as X2' by exact (cext_trans _ _ _ X28 X8').
    exists W', []. split.
    { constructor.
      - destruct (cf_syms _ _ _ _ _ _ CF28') as [k8 Hs8]. exists k8. congruence.
      - exact P7.
      - exact (cext_trans st st2 st' (cext_eq st st2 eq_refl) X2').
      - rewrite add_breaks_nil. exact P3.
      - reflexivity.
      - cbn [brk_ok]. rewrite L'. unfold lexit_in. rewrite (cfacts_len _ _ _ _ _ _ CF57).
        pose proof (brk_ok_le _ _ _ (cf_brk _ _ _ _ _ _ CF5)). pose proof (brk_ok_le _ _ _ (cf_brk _ _ _ _ _ _ CF34)).
        pose proof (brk_ok_le _ _ _ (cf_brk _ _ _ _ _ _ CF3)). unfold jmp3. rewrite zlength3. lia. }
    (* the run *)
    intros prog lexit E Hle Hst fuel s Hip. destruct fuel as [|f]; [exact I|].
    rewrite xe_while. set (names := flat outer cur) in *.
    destruct E as [[E0 Ecode] Econsts _].
    (* the final program, seen as the unpatched loop code with the stop jumps pending *)
    assert (forall i b, nth_error W8f i = Some b -> ~ In (code_len st + Z.of_nat i) (brk_holes nbi) ->
                        byte_at prog (code_len st + Z.of_nat i) = Some b) as Hbytes.
    { intros i b Hi Hn. apply Ecode; [|intros []].
      assert (nth_error (c_code st') (length (c_code st) + i) = Some b) as Hc'.
      { rewrite P7, <- EW'. rewrite wt_other.
        - rewrite nth_error_app2 by lia. replace (length (c_code st) + i - length (c_code st))%nat with i by lia.
          exact Hi.
        - intros ip Hin. pose proof (Hpre ip Hin) as Q. destruct (brk_ok_in _ _ _ _ B28 Hin) as [Q1 _].
          assert (~ (code_len st + Z.of_nat i = ip + 1 \/ code_len st + Z.of_nat i = ip + 2)) as Hn'.
          { intros Hor. apply Hn. apply in_brk_holes. exists ip. split; [exact Hin|exact Hor]. }
          unfold code_len, zlength in Hn'. lia. }
      rewrite P7, nth_error_app2 in Hc' by lia.
      replace (length (c_code st) + i - length (c_code st))%nat with i in Hc' by lia. exact Hc'. }
    assert (brk_target prog nbi lexit_in) as Htarget.
    { intros ip Hin. destruct (brk_ok_in _ _ _ _ B28 Hin) as [Q1 Q2]. pose proof (Hpre ip Hin) as Q.
      assert (lexit_in <= Z.of_nat (length (c_code st ++ W8f))) as Hhi.
      { rewrite <- C8. unfold lexit_in. rewrite <- L8. unfold code_len, zlength. lia. }
      rewrite L8 in B28. fold lexit_in in B28.
      destruct (wt_at lexit_in nbi _ _ (c_code st ++ W8f) ip B28 Hpos2 Hhi Hin) as [A1 A2].
      rewrite EW' in A1, A2.
      rewrite nth_error_app2 in A1, A2 by lia.
      pose proof (Ecode _ _ A1 (fun x => match x with end)) as B1.
      pose proof (Ecode _ _ A2 (fun x => match x with end)) as B2.
      unfold code_len, zlength in B1, B2, L2, Q1.
      replace (Z.of_nat (length (c_code st)) + Z.of_nat (Z.to_nat ip + 1 - length (c_code st))) with (ip + 1) in B1 by lia.
      replace (Z.of_nat (length (c_code st)) + Z.of_nat (Z.to_nat ip + 2 - length (c_code st))) with (ip + 2) in B2 by lia.
      split; assumption. }
    assert (env_ok prog st st' W8f ([] ++ nbi) lexit_in) as E8.
    { constructor; [split; [exact E0|exact Hbytes]|exact Econsts|exact Htarget]. }
    (* the pieces *)
    pose proof (cf_brk _ _ _ _ _ _ CF3) as B3. pose proof (cf_brk _ _ _ _ _ _ CF5) as B5.
    pose proof (cfacts_len _ _ _ _ _ _ CF34) as L4. pose proof (cfacts_len _ _ _ _ _ _ CF5) as L5.
    pose proof (cfacts_len _ _ _ _ _ _ CF57) as L7. unfold jmp3 in L7. rewrite zlength3 in L7.
    change (zlength [byte_of_opcode OJumpIfFalse; PHlo; PHhi; byte_of_opcode OPop]) with 4 in L4.
    assert (brk_ok (code_len st2) nbi (code_len st5)) as B25.
    { apply (brk_ok_app _ _ _ (code_len st3) _ B3). apply (brk_ok_widen _ _ _ _ _ B5); lia. }
    assert (code_len st2 = code_len st + zlength [byte_of_opcode ONull]) as L2' by exact L2.
    destruct (env_split prog st st2 st' [byte_of_opcode ONull] W8 [] nbi lexit_in _ L2'
                ltac:(cbn [brk_ok]; lia) B25 X2' E8) as [Enull E2].
    assert (0 <= code_len st2 + zlength ce_c) as Hp8 by (rewrite <- L3; apply code_len_nonneg).
    assert (cext st3 st') as X3'.
    { apply (cext_trans _ st4); [exact (cext_cfacts _ _ _ _ _ _ CF34)|].
      apply (cext_trans _ st5); [exact (cext_cfacts _ _ _ _ _ _ CF5)|].
      apply (cext_trans _ st7); [exact (cext_cfacts _ _ _ _ _ _ CF57)|].
      apply (cext_trans _ st8); [apply cext_eq|exact X8'].
      exact (proj1 (proj2 (change_jump_spec _ _ _ _ Hp8 H8))). }
    assert (cext st4 st') as X4'.
    { destruct X3' as [kx [A B]]. exists kx. split; [exact A|exact B]. }
    assert (cext st5 st') as X5'.
    { apply (cext_trans _ st7); [exact (cext_cfacts _ _ _ _ _ _ CF57)|].
      apply (cext_trans _ st8); [apply cext_eq|exact X8'].
      exact (proj1 (proj2 (change_jump_spec _ _ _ _ Hp8 H8))). }
    assert (brk_ok (code_len st3) nb_b (code_len st5)) as B35 by (apply (brk_ok_widen _ _ _ _ _ B5); lia).
    destruct (env_split prog st2 st3 st' ce_c _ nb_c nb_b lexit_in _ L3 B3 B35 X3' E2) as [Ec E3].
    assert (code_len st4 = code_len st3 + zlength jif4) as L4' by exact L4.
    destruct (env_split prog st3 st4 st' jif4 _ [] nb_b lexit_in _ L4'
                ltac:(cbn [brk_ok]; lia) B5 X4' E3) as [Ejif E4].
    rewrite <- (app_nil_r nb_b) in E4.
    destruct (env_split prog st4 st5 st' ce_b jmp3 nb_b [] lexit_in (code_len st') L5 B5
                ltac:(cbn [brk_ok]; lia) X5' E4) as [Eb Ejmp].
    (* instructions of the loop skeleton *)
    destruct Enull as [Enullc _ _]. cbn [brk_holes flat_map] in Enullc.
    pose proof (code_x_at1 _ _ _ _ _ Enullc (fun x => x)) as Hnull.
    destruct Ejif as [Ejifc _ _]. cbn [brk_holes flat_map] in Ejifc.
    change jif4 with ([byte_of_opcode OJumpIfFalse; lexit_in mod 256; (lexit_in / 256) mod 256] ++ [byte_of_opcode OPop]) in Ejifc.
    apply code_x_app in Ejifc. destruct Ejifc as [Ejc Epc]. rewrite zlength3 in Epc.
    pose proof (code_x_at3 _ _ _ _ _ _ _ Ejc (holes_free_nil _ _)) as Hjif.
    pose proof (code_x_at1 _ _ _ _ _ Epc (fun x => x)) as Hpop.
    destruct Ejmp as [Ejmpc _ _]. cbn [brk_holes flat_map] in Ejmpc.
    pose proof (code_x_at3 _ _ _ _ _ _ _ Ejmpc (holes_free_nil _ _)) as Hjmp.
    (* loop contexts of the pieces *)
    assert (cur_start (c_loops st2) = start) as Cs2 by (rewrite Lp2; apply cur_start_snoc).
    assert (cur_start (c_loops st4) = start) as Cs4.
    { change (c_loops st4) with (c_loops st3). rewrite (cf_loops _ _ _ _ _ _ CF3), cur_start_add. exact Cs2. }
    assert (0 <= start) as Hstart by lia.
    (* the loop invariant *)
    set (stk := v_stack s). set (n := v_slen s).
    assert (forall fuel lastv m fin,
              loop_post prog s (setx s (lastv :: stk) (n + 1) start m fin) lexit_in
                        (xwhile orc fuel names c body lastv m)) as Hloop.
    { induction fuel as [|f' IHf]; intros lastv m fin; [exact I|].
      rewrite xw_step. set (sh := setx s (lastv :: stk) (n + 1) start m fin).
      pose proof (Hsimc prog lexit_in Ec Re ltac:(rewrite Cs2; exact Hstart) f' sh eq_refl) as Hc1.
      rewrite Cs2 in Hc1. unfold sh in Hc1 at 2. rewrite mst_of_setx in Hc1. fold names in Hc1.
      destruct (xeval orc f' names c m) as [b m1|m1|m1|e|y|] eqn:E1; cbn [xbind loop_post];
        try exact Hc1; try (nosig_contra f' c names m Hfc E1).
      cbn [sim2] in Hc1. destruct Hc1 as [fin1 Hc1].
      set (sa := setx sh (b :: v_stack sh) (v_slen sh + 1) (code_len st3) m1 fin1) in *.
      pose proof (step_jif orc prog sa lexit_in b (lastv :: stk) [] Hjif Re eq_refl) as Hstepj.
      destruct b as [|bb| | | | |];
        try (cbn [loop_post]; apply (reaches_stops orc prog sh sa _ _ Hc1); apply (stops_now orc prog sa _ Hstepj)).
      destruct bb.
      - (* another iteration: Pop the previous value, run the body *)
        set (sp := setm sa (lastv :: stk) (v_slen sa - 1) (v_ip sa + 3) (mst_of sa)) in *.
        assert (code_at prog (v_ip sp) [byte_of_opcode OPop]) as Hpop' by exact Hpop.
        pose proof (step_pop orc prog sp lastv stk [] Hpop' eq_refl) as Hstepp.
        set (sb := setx s stk n (code_len st4) m1 lastv).
        assert (mkVM stk (v_slen sp - 1) (v_globals sp) (v_frames sp) (v_ip sp + 1) (v_bp sp) lastv
                     (v_heap sp) (v_gc sp) (v_out sp) = sb) as Esb.
        { subst sp sa sh sb. unfold setm, setx, mst_of. vmcbn2. f_equal; lia. }
        rewrite Esb in Hstepp.
        assert (reaches orc prog sh sb) as Hsb.
        { apply (reaches_trans orc prog sh sa _ Hc1).
          apply (reaches_trans orc prog sa sp _ (reaches_step orc prog _ _ Hstepj)).
          apply reaches_step. exact Hstepp. }
        pose proof (Hsimb prog lexit_in Eb Re ltac:(rewrite Cs4; exact Hstart) f' sb eq_refl) as Hb1.
        rewrite Cs4 in Hb1. unfold sb in Hb1 at 2. rewrite mst_of_setx in Hb1. fold names in Hb1.
        destruct (xstmts orc f' names body VNull m1) as [v m2|m2|m2|e|y|]; cbn [sim2 loop_post] in *.
        + destruct Hb1 as [fin2 Hb1].
          set (sc := setx sb (v :: v_stack sb) (v_slen sb + 1) (code_len st5) m2 fin2) in *.
          pose proof (step_jump orc prog sc start [] Hjmp Rs) as Hstepm.
          assert (setm sc (v_stack sc) (v_slen sc) start (mst_of sc) = setx s (v :: stk) (n + 1) start m2 fin2) as Esc.
          { subst sc sb. unfold setm, setx, mst_of. vmcbn2. reflexivity. }
          rewrite Esc in Hstepm.
          specialize (IHf v m2 fin2).
          assert (reaches orc prog sh (setx s (v :: stk) (n + 1) start m2 fin2)) as Hback.
          { apply (reaches_trans orc prog sh sb _ Hsb). apply (reaches_trans orc prog sb sc _ Hb1).
            apply reaches_step. exact Hstepm. }
          destruct (xwhile orc f' names c body v m2) as [v3 m3|m3|m3|e|y|]; cbn [loop_post] in *;
            try contradiction; try exact I.
          * destruct IHf as [fin3 IHf]. exists fin3. exact (reaches_trans orc prog _ _ _ Hback IHf).
          * exact (reaches_stops orc prog _ _ _ _ Hback IHf).
          * exact (reaches_stops orc prog _ _ _ _ Hback IHf).
        + (* stop *)
          destruct Hb1 as [fin2 Hb1]. exists fin2. exact (reaches_trans orc prog sh sb _ Hsb Hb1).
        + (* volgende *)
          destruct Hb1 as [fin2 Hb1].
          specialize (IHf VNull m2 fin2).
          assert (reaches orc prog sh (setx s (VNull :: stk) (n + 1) start m2 fin2)) as Hback
            by exact (reaches_trans orc prog sh sb _ Hsb Hb1).
          destruct (xwhile orc f' names c body VNull m2) as [v3 m3|m3|m3|e|y|]; cbn [loop_post] in *;
            try contradiction; try exact I.
          * destruct IHf as [fin3 IHf]. exists fin3. exact (reaches_trans orc prog _ _ _ Hback IHf).
          * exact (reaches_stops orc prog _ _ _ _ Hback IHf).
          * exact (reaches_stops orc prog _ _ _ _ Hback IHf).
        + exact (reaches_stops orc prog sh sb _ _ Hsb Hb1).
        + exact (reaches_stops orc prog sh sb _ _ Hsb Hb1).
        + exact I.
      - (* the condition is false: the loop's value is the value of the last iteration *)
        exists fin1. apply (reaches_trans orc prog sh sa _ Hc1). apply reaches_step. rewrite Hstepj.
        f_equal. f_equal. subst sa sh. unfold setm, setx, mst_of. vmcbn2. f_equal; lia. }
    (* enter the loop *)
    rewrite <- Hip in Hnull.
    pose proof (step_null orc prog s [] Hnull) as Hstep0.
    assert (setm s (VNull :: v_stack s) (v_slen s + 1) (v_ip s + 1) (mst_of s)
            = setx s (VNull :: stk) (n + 1) start (mst_of s) (v_final s)) as Es0.
    { unfold setm, setx, mst_of. vmcbn2. rewrite L1, Hip. reflexivity. }
    rewrite Es0 in Hstep0.
    specialize (Hloop f VNull (mst_of s) (v_final s)). rewrite L'.
    destruct (xwhile orc f names c body VNull (mst_of s)) as [v3 m3|m3|m3|e|y|]; cbn [loop_post sim2] in *;
      try contradiction; try exact I.
    - destruct Hloop as [fin3 Hloop]. exists fin3.
      exact (reaches_trans orc prog _ _ _ (reaches_step orc prog _ _ Hstep0) Hloop).
    - exact (reaches_stops orc prog _ _ _ _ (reaches_step orc prog _ _ Hstep0) Hloop).
    - exact (reaches_stops orc prog _ _ _ _ (reaches_step orc prog _ _ Hstep0) Hloop).
  Qed.


  (** ** All expressions and statements of the fragment *)

  Lemma lsim_of_forall : forall l, Forall ssim l -> lsim l.
  Proof. intros l H. induction H as [|s r Hs Hr IH]; [exact lsim_nil|exact (Hs r IH)]. Qed.

  Lemma esim_outside : forall e, (forall lp, f2e lp e = false) -> esim e.
  Proof. intros e H lp st st' k outer cur HF. rewrite H in HF. discriminate HF. Qed.

  Theorem sim_all : (forall e, esim e) /\ (forall s, ssim s).
  Proof.
    apply expr_stmt_ind.
    - intros l o r Hl Hr. exact (esim_infix l o r Hl Hr).
    - intros o r Hr. exact (esim_prefix o r Hr).
    - exact esim_int.
    - intros x. apply esim_outside. reflexivity.
    - exact esim_bool.
    - intros c t alt Hc Ht Ha. apply (esim_if c t alt Hc (lsim_of_forall t Ht)).
      destruct alt as [b|]; [exact (lsim_of_forall b Ha)|exact I].
    - exact esim_ident.
    - intros n ps body _. apply esim_outside. reflexivity.
    - intros h args _ _. apply esim_outside. reflexivity.
    - intros l r _ Hr. destruct l; try (apply esim_outside; reflexivity). exact (esim_assign s r Hr).
    - intros s. apply esim_outside. reflexivity.
    - intros vs _. apply esim_outside. reflexivity.
    - intros b i _ _. apply esim_outside. reflexivity.
    - intros c b Hc Hb. exact (esim_while c b Hc (lsim_of_forall b Hb)).
    - intros n e He. exact (ssim_let n e He).
    - intros e _ r _ lp st st' k outer cur HF. rewrite f2b_cons in HF. discriminate HF.
    - intros e He. exact (ssim_expr e He).
    - intros b Hb. exact (ssim_block b (lsim_of_forall b Hb)).
    - exact ssim_break.
    - exact ssim_continue.
  Qed.

  Theorem lsim_all : forall l, lsim l.
  Proof. intros l. apply lsim_of_forall. apply Forall_forall. intros s _. apply (proj2 sim_all). Qed.


  (** ** Values of the fragment are scalars; heap and collector are never touched *)

  Definition sc_res (m : mst) (r : xres val) : Prop :=
    match r with
    | XOk v m' => scalar v = true /\ scalar_m m' /\ m_heap m' = m_heap m /\ m_gc m' = m_gc m
    | XBrk m' | XCnt m' => scalar_m m' /\ m_heap m' = m_heap m /\ m_gc m' = m_gc m
    | _ => True
    end.

  Lemma sc_res_bind : forall m (x : xres val) (k : val -> mst -> xres val),
    sc_res m x ->
    (forall a m1, scalar a = true -> scalar_m m1 -> m_heap m1 = m_heap m -> m_gc m1 = m_gc m -> sc_res m (k a m1)) ->
    sc_res m (xbind x k).
  Proof.
    intros m x k Hx Hk. destruct x as [a m1|m1|m1|e|y|]; cbn [xbind sc_res] in *; auto.
    destruct Hx as [A [B [C D]]]. apply Hk; assumption.
  Qed.

  Lemma sc_res_shift : forall m m1 r, m_heap m1 = m_heap m -> m_gc m1 = m_gc m -> sc_res m1 r -> sc_res m r.
  Proof.
    intros m m1 r H1 H2 H. destruct r as [a m2|m2|m2|e|y|]; cbn [sc_res] in *; auto.
    - destruct H as [A [B [C D]]]. repeat split; congruence.
    - destruct H as [B [C D]]. repeat split; congruence.
    - destruct H as [B [C D]]. repeat split; congruence.
  Qed.

  Lemma sc_lift_sres : forall m sr, sres_ok sr -> scalar_m m -> sc_res m (xlift_h m (lift_sres (m_heap m) sr)).
  Proof.
    intros m sr Hok Hm. destruct sr as [z|b|x|]; cbn [sres_ok lift_sres xlift_h sc_res fst] in *; try contradiction;
      try exact I; rewrite with_new_m_same; repeat split; auto.
  Qed.

  Lemma scalar_lit : forall z, lit_ok z = true -> scalar (VInt z) = true.
  Proof.
    intros z H. cbn [scalar]. unfold lit_ok in H. unfold in_int_range.
    apply andb_prop in H. destruct H as [H0 H1]. apply Z.leb_le in H0. rewrite H1.
    pose proof MIN_INT_val. apply andb_true_intro. split; [apply Z.leb_le; lia|reflexivity].
  Qed.

  Lemma xeval_scalar : forall fuel,
    (forall lp e names m, f2e lp e = true -> scalar_m m -> sc_res m (xeval orc fuel names e m)) /\
    (forall c body names last m, f2e false c = true -> f2b true body = true -> scalar last = true ->
       scalar_m m -> sc_res m (xwhile orc fuel names c body last m)) /\
    (forall lp l names last m, f2b lp l = true -> scalar last = true -> scalar_m m ->
       sc_res m (xstmts orc fuel names l last m)).
  Proof.
    induction fuel as [|f [IHe [IHw IHs]]].
    - repeat split; intros; exact I.
    - split; [|split].
      + intros lp e names m HF Hm. destruct e; try discriminate HF.
        * (* EInfix *) rewrite xe_infix. rewrite f2e_infix in HF.
          apply andb_prop in HF. destruct HF as [HF Hr]. apply andb_prop in HF. destruct HF as [_ Hl].
          apply sc_res_bind; [apply (IHe false); assumption|]. intros a m1 Sa Sm1 H1 G1.
          apply (sc_res_shift m m1); try assumption.
          apply sc_res_bind; [apply (IHe false); assumption|]. intros b m2 Sb Sm2 H2 G2.
          apply (sc_res_shift m1 m2); try assumption.
          destruct (Sem.method_of o) as [mth|] eqn:Em; [|exact I].
          destruct (binop_scalar orc o mth a b Em Sa Sb) as [sr [Hok Hbin]]. rewrite Hbin.
          apply sc_lift_sres; assumption.
        * (* EPrefix *) rewrite xe_prefix. rewrite f2e_prefix in HF. apply andb_prop in HF. destruct HF as [Hop Hr].
          apply sc_res_bind; [apply (IHe false); assumption|]. intros a m1 Sa Sm1 H1 G1.
          apply (sc_res_shift m m1); try assumption.
          assert (sc_res m1 (xlift_h m1 (negate (m_heap m1) a))) as Hneg.
          { destruct (negate_scalar a Sa) as [sr [Hok Hn]]. rewrite Hn. apply sc_lift_sres; assumption. }
          destruct o; try discriminate Hop; try exact Hneg.
          destruct a; try discriminate Sa; cbn [lognot xlift_p sc_res]; auto.
        * (* EInt *) rewrite xe_int. cbn [sc_res]. cbn [f2e] in HF. split; [apply scalar_lit; exact HF|auto].
        * (* EBool *) rewrite xe_bool. cbn [sc_res]. auto.
        * (* EIf *) rewrite xe_if. rewrite f2e_if in HF.
          apply andb_prop in HF. destruct HF as [HF Ha]. apply andb_prop in HF. destruct HF as [Hc Ht].
          apply sc_res_bind; [apply (IHe false); assumption|]. intros b m1 Sb Sm1 H1 G1.
          apply (sc_res_shift m m1); try assumption.
          destruct b as [|[|]| | | | |]; try exact I.
          -- apply (IHs lp); auto.
          -- destruct e0 as [bl|]; [apply (IHs lp); auto|cbn [sc_res]; auto].
        * (* EIdent *) rewrite xe_ident. destruct (rposition s names); [|exact I].
          cbn [sc_res]. split; [apply scalar_nth; exact Hm|auto].
        * (* EAssign *) cbn [f2e] in HF. destruct e1; try discriminate HF. rewrite xe_assign.
          destruct (rposition s names) as [i|]; [|exact I].
          apply sc_res_bind; [apply (IHe false); assumption|]. intros a m1 Sa Sm1 H1 G1.
          cbn [sc_res]. split; [exact Sa|]. split; [apply scalar_set_global; assumption|]. auto.
        * (* EWhile *) rewrite xe_while. rewrite f2e_while in HF. apply andb_prop in HF. destruct HF as [Hc Hb].
          apply IHw; auto.
      + intros c body names last m Hc Hb Sl Hm. rewrite xw_step.
        apply sc_res_bind; [apply (IHe false); assumption|]. intros b m1 Sb Sm1 H1 G1.
        destruct b as [|[|]| | | | |]; try exact I.
        * pose proof (IHs true body names VNull m1 Hb eq_refl Sm1) as Hbody.
          destruct (xstmts orc f names body VNull m1) as [v m2|m2|m2|e|y|]; cbn [sc_res] in Hbody; try exact I.
          -- destruct Hbody as [Sv [Sm2 [H2 G2]]].
             apply (sc_res_shift m m2); try congruence. apply IHw; assumption.
          -- destruct Hbody as [Sm2 [H2 G2]]. cbn [sc_res]. repeat split; auto; congruence.
          -- destruct Hbody as [Sm2 [H2 G2]].
             apply (sc_res_shift m m2); try congruence. apply IHw; auto.
        * cbn [sc_res]. auto.
      + intros lp l names last m HF Sl Hm. destruct l as [|s r]; [rewrite xs_nil; cbn [sc_res]; auto|].
        rewrite f2b_cons in HF. apply andb_prop in HF. destruct HF as [Hs Hr].
        destruct s as [x e|e|e|b| |]; try discriminate Hs.
        * rewrite xs_let. cbn [f2s] in Hs. apply andb_prop in Hs. destruct Hs as [He _].
          apply sc_res_bind; [apply (IHe false); assumption|]. intros a m1 Sa Sm1 H1 G1.
          apply (sc_res_shift m (set_global_m (length names) a m1)); try assumption.
          apply (IHs lp); auto. apply scalar_set_global; assumption.
        * rewrite xs_expr. cbn [f2s] in Hs.
          apply sc_res_bind; [apply (IHe lp); assumption|]. intros a m1 Sa Sm1 H1 G1.
          apply (sc_res_shift m m1); try assumption. apply (IHs lp); auto.
        * rewrite xs_block. rewrite f2s_block in Hs.
          apply sc_res_bind; [apply (IHs lp); auto|]. intros a m1 Sa Sm1 H1 G1.
          apply (sc_res_shift m m1); try assumption. apply (IHs lp); auto.
        * rewrite xs_break. cbn [sc_res]. auto.
        * rewrite xs_continue. cbn [sc_res]. auto.
  Qed.


  (** ** Whole programs *)

  Theorem compile_run_F2 : forall p bc, in_F2 p = true -> ends_pop p = true -> compile p = Ok bc ->
    forall fuel,
    match xstmts orc fuel [] p VNull mst0 with
    | XOk v m' => exists budget, o_result (run_program orc bc budget) = Ok v
                                 /\ o_out (run_program orc bc budget) = []
    | XErr k => exists budget, o_result (run_program orc bc budget) = Err k
                               /\ o_out (run_program orc bc budget) = []
    | XFault f => exists budget, o_result (run_program orc bc budget) = Fault f
                                 /\ o_out (run_program orc bc budget) = []
    | _ => True
    end.
  Proof.
    intros p bc HF Hpop H fuel. destruct (compile_inv p bc H) as [st1 [Hc ->]]. clear H.
    destruct (lsim_all p false compiler_new st1 O [] [] HF eq_refl Hc) as [ce [nb L]].
    pose proof L as [CF _].
    pose proof (cf_nbnil _ _ _ _ _ _ CF eq_refl) as ->.
    pose proof (cf_code _ _ _ _ _ _ CF) as Hce. destruct (cf_consts _ _ _ _ _ _ CF) as [kx [Hkx Hf]].
    cbn [compiler_new c_code c_constants app] in Hce, Hkx.
    destruct (load_consts_kint kx empty_heap Hf) as [L1 [L2 L3]].
    destruct (load_consts kx empty_heap) as [consts h0] eqn:El. cbn [fst snd] in L1, L2, L3. subst h0.
    set (prog := mkProgram (ce ++ [byte_of_opcode OHalt]) consts).
    set (s0 := vm_start vm_new consts empty_heap).
    assert (code_len st1 = zlength ce) as Lce by (unfold code_len; rewrite Hce; reflexivity).
    assert (env_ok prog compiler_new st1 (canon false ce) [] 0) as E.
    { constructor.
      - split; [reflexivity|]. intros i b Hi _. unfold byte_at. change (code_len compiler_new) with 0.
        cbn [Z.add]. destruct (Z.of_nat i <? 0) eqn:Ei; [apply Z.ltb_lt in Ei; lia|].
        rewrite Nat2Z.id. cbn [prog p_code]. rewrite nth_error_app1; [exact Hi|].
        apply nth_error_Some. unfold canon in Hi. rewrite Hi. discriminate.
      - rewrite Hkx. intros i z Hi. apply L2. exact Hi.
      - intros ip []. }
    pose proof (stmt_mode p compiler_new st1 [] [] ce [] L prog 0 E ltac:(lia) ltac:(cbn; lia) fuel s0 VNull eq_refl)
      as Hsim.
    assert (mst_of s0 = mst0) as Em.
    { unfold s0, vm_start, mst_of, mst0. cbn [v_heap v_gc v_globals vm_new]. rewrite L3. reflexivity. }
    rewrite Em in Hsim. change (flat [] []) with (@nil text) in Hsim. rewrite Hpop in Hsim.
    assert (load_consts (b_constants (mkBytecode (c_constants st1) (c_code st1 ++ [byte_of_opcode OHalt])))
                        empty_heap = (consts, empty_heap)) as Hload.
    { cbn [b_constants]. rewrite Hkx. exact El. }
    pose proof (proj2 (proj2 (xeval_scalar fuel)) false p [] VNull mst0 HF eq_refl (Forall_nil _)) as Hsc.
    destruct (xstmts orc fuel [] p VNull mst0) as [v m'|m'|m'|e|y|]; cbn [sim_full sc_res] in *; try exact I.
    - destruct Hsim as [fin' [[n Hn] Hfin]]. rewrite (Hfin eq_refl) in Hn. destruct Hsc as [Sv _].
      set (sF := setx s0 (v_stack s0) (v_slen s0) (code_len st1) m' v) in *.
      assert (code_at prog (v_ip sF) [byte_of_opcode OHalt]) as Hh.
      { exists ce, []. split; [reflexivity|]. symmetry. exact Lce. }
      destruct (step_halt orc prog sF [] Hh Sv) as [s' [Hst Hout]].
      exists (n + 1)%nat. eapply run_program_eq; [exact Hload| |exact Hout].
      cbn [b_code]. rewrite Hce. fold prog. fold s0. rewrite (run_loop_reach orc prog n s0 sF 1 Hn).
      cbn [run_loop]. rewrite Hst. reflexivity.
    - destruct Hsim as [n [s1 [Hn [Hst Hout]]]].
      exists (n + 1)%nat. eapply run_program_eq; [exact Hload| |exact Hout].
      cbn [b_code]. rewrite Hce. fold prog. fold s0. rewrite (run_loop_reach orc prog n s0 s1 1 Hn).
      cbn [run_loop]. rewrite Hst. reflexivity.
    - destruct Hsim as [n [s1 [Hn [Hst Hout]]]].
      exists (n + 1)%nat. eapply run_program_eq; [exact Hload| |exact Hout].
      cbn [b_code]. rewrite Hce. fold prog. fold s0. rewrite (run_loop_reach orc prog n s0 s1 1 Hn).
      cbn [run_loop]. rewrite Hst. reflexivity.
  Qed.

End Sim.

Print Assumptions sim_all.
Print Assumptions compile_run_F2.
