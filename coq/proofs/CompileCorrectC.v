(* CompileCorrectC.v - compiler correctness for the fragment F2 (properties C01 / C11), part C:
   the code generator and the machine for `als`, nested blocks, `zolang`, `stop`, `volgende`.

   As in part A an intermediate evaluator (`xeval` / `xwhile` / `xstmts`: names resolved in the
   flat list of live declarations, variables in global slots, heap and collector threaded the way
   the machine threads them, `stop` / `volgende` as results) is simulated by the machine running
   the compiled code.  New with respect to part A:
     - jump instructions and the patches of their operands inside already emitted code,
     - `stop` jumps are patched only when the enclosing loop is finished: code is compared
       with the final program up to "holes" (the operand bytes of pending `stop` jumps), whose
       contents are assumed to be the exit of the loop,
     - nested scopes in the one global context (slots are reused after a scope is left),
     - compile_block_value: the trailing Pop is removed (`c_last`),
     - the loop invariant: at the loop head the stack is (value of the last iteration) :: stack
       before the loop.
   Part D relates the intermediate evaluator to Sem.v and states the theorems. *)
From Coq Require Import ZArith Lia Bool List String.
From NL.Model Require Import VM.
From NL.Spec Require Import Sem Fragment Fragment2 ArithSpec.
From NL.Proofs Require Import WordProofs OpsProofs AstInduction ControlProofs CompileCorrectA.
Open Scope Z_scope.

(** * Code of the final program, up to holes *)

(* the bytes ce stand in prog from offset off on, except possibly at the (absolute) positions H *)
Definition code_x (prog : program) (off : Z) (ce : list Z) (H : list Z) : Prop :=
  0 <= off /\
  forall i b, nth_error ce i = Some b -> ~ In (off + Z.of_nat i) H -> byte_at prog (off + Z.of_nat i) = Some b.

Lemma code_x_app : forall prog off c1 c2 H, code_x prog off (c1 ++ c2) H ->
  code_x prog off c1 H /\ code_x prog (off + zlength c1) c2 H.
Proof.
  intros prog off c1 c2 H [H0 Hc]. split; (split; [pose proof (zlength_nonneg _ c1); lia|]).
  - intros i b Hi Hn. apply Hc; [|exact Hn]. rewrite nth_error_app1; [exact Hi|].
    apply nth_error_Some. rewrite Hi. discriminate.
  - intros i b Hi Hn. unfold zlength in *.
    replace (off + Z.of_nat (length c1) + Z.of_nat i) with (off + Z.of_nat (length c1 + i)) in * by lia.
    apply Hc; [|exact Hn]. rewrite nth_error_app2 by lia.
    replace (length c1 + i - length c1)%nat with i by lia. exact Hi.
Qed.

Lemma code_x_weaken : forall prog off ce H H', code_x prog off ce H -> (forall p, In p H -> In p H') ->
  code_x prog off ce H'.
Proof.
  intros prog off ce H H' [H0 Hc] Hsub. split; [exact H0|]. intros i b Hi Hn. apply Hc; [exact Hi|].
  intros Hin. apply Hn. apply Hsub. exact Hin.
Qed.

(* holes outside the range of ce do not matter *)
Lemma code_x_restrict : forall prog off ce H H', code_x prog off ce H ->
  (forall p, off <= p < off + zlength ce -> In p H -> In p H') -> code_x prog off ce H'.
Proof.
  intros prog off ce H H' [H0 Hc] Hsub. split; [exact H0|]. intros i b Hi Hn. apply Hc; [exact Hi|].
  intros Hin. apply Hn. apply Hsub; [|exact Hin].
  assert (i < length ce)%nat by (apply nth_error_Some; rewrite Hi; discriminate).
  unfold zlength. lia.
Qed.

(* from consecutive bytes of the program to part A's code_at *)
Lemma byte_at_split : forall prog ip b, byte_at prog ip = Some b ->
  0 <= ip /\ exists pre post, p_code prog = pre ++ b :: post /\ zlength pre = ip.
Proof.
  intros prog ip b H. unfold byte_at in H. destruct (ip <? 0) eqn:E; [discriminate H|].
  apply Z.ltb_ge in E. split; [exact E|].
  destruct (nth_error_split _ _ H) as [l1 [l2 [H1 H2]]]. exists l1, l2. split; [exact H1|].
  unfold zlength. rewrite H2. lia.
Qed.

Lemma code_at_bytes1 : forall prog ip a, byte_at prog ip = Some a -> code_at prog ip [a].
Proof.
  intros prog ip a H. destruct (byte_at_split prog ip a H) as [_ [pre [post [H1 H2]]]].
  exists pre, post. split; [exact H1|exact H2].
Qed.

Lemma byte_at_next : forall prog pre a post k b, p_code prog = pre ++ a :: post ->
  byte_at prog (zlength pre + 1 + Z.of_nat k) = Some b -> nth_error post k = Some b.
Proof.
  intros prog pre a post k b Hc H. unfold byte_at in H. pose proof (zlength_nonneg _ pre).
  destruct (zlength pre + 1 + Z.of_nat k <? 0) eqn:E; [apply Z.ltb_lt in E; lia|].
  rewrite Hc in H. unfold zlength in H.
  replace (Z.to_nat (Z.of_nat (length pre) + 1 + Z.of_nat k)) with (length pre + S k)%nat in H by lia.
  rewrite nth_error_app2 in H by lia. replace (length pre + S k - length pre)%nat with (S k) in H by lia.
  exact H.
Qed.

Lemma code_at_bytes3 : forall prog ip a b c, byte_at prog ip = Some a ->
  byte_at prog (ip + 1) = Some b -> byte_at prog (ip + 2) = Some c -> code_at prog ip [a; b; c].
Proof.
  intros prog ip a b c Ha Hb Hc. destruct (byte_at_split prog ip a Ha) as [_ [pre [post [H1 H2]]]].
  subst ip.
  pose proof (byte_at_next prog pre a post 0 b H1) as N0. rewrite Z.add_0_r in N0. specialize (N0 Hb).
  pose proof (byte_at_next prog pre a post 1 c H1) as N1.
  replace (zlength pre + 1 + Z.of_nat 1) with (zlength pre + 2) in N1 by lia. specialize (N1 Hc).
  destruct post as [|b' post]; [discriminate N0|]. cbn [nth_error] in N0, N1. inversion N0; subst b'.
  destruct post as [|c' post]; [discriminate N1|]. cbn [nth_error] in N1. inversion N1; subst c'.
  exists pre, post. split; [exact H1|reflexivity].
Qed.

(* fetching instructions out of code_x *)
Definition holes_free (off : Z) (n : Z) (H : list Z) : Prop := forall p, off <= p < off + n -> ~ In p H.

Lemma code_x_at1 : forall prog off a rest H, code_x prog off (a :: rest) H -> ~ In off H ->
  code_at prog off [a].
Proof.
  intros prog off a rest H [H0 Hc] Hn. apply code_at_bytes1.
  specialize (Hc O a eq_refl). rewrite Z.add_0_r in Hc. apply Hc. exact Hn.
Qed.

Lemma code_x_at3 : forall prog off a b c rest H, code_x prog off (a :: b :: c :: rest) H ->
  holes_free off 3 H -> code_at prog off [a; b; c].
Proof.
  intros prog off a b c rest H [H0 Hc] Hf. apply code_at_bytes3.
  - specialize (Hc O a eq_refl). rewrite Z.add_0_r in Hc. apply Hc. apply Hf. lia.
  - apply (Hc 1%nat b eq_refl). apply Hf. lia.
  - apply (Hc 2%nat c eq_refl). apply Hf. lia.
Qed.

(** * Machine states and the new instructions *)

Definition setx (s : vm) (stk : list val) (n ip : Z) (m : mst) (fin : val) : vm :=
  mkVM stk n (m_gl m) (v_frames s) ip (v_bp s) fin (m_heap m) (m_gc m) (v_out s).

Lemma setm_setx : forall s stk n ip m, setm s stk n ip m = setx s stk n ip m (v_final s).
Proof. reflexivity. Qed.

Lemma setx_eq : forall s stk n ip m fin n' ip', n = n' -> ip = ip' ->
  setx s stk n ip m fin = setx s stk n' ip' m fin.
Proof. intros; subst; reflexivity. Qed.

Lemma mst_of_setx : forall s stk n ip m fin, mst_of (setx s stk n ip m fin) = m.
Proof. intros. destruct m; reflexivity. Qed.

Ltac vmcbn2 :=
  cbn [v_stack v_slen v_globals v_frames v_ip v_bp v_final v_heap v_gc v_out
       upd_stack upd_ip upd_heap upd_globals upd_final upd_out push pop bind fst snd
       m_heap m_gc m_gl mst_of setm setx].

Section Steps2.
  Variable orc : oracle.
  Variable prog : program.

  Ltac decode2 Hc op :=
    unfold step; rewrite (code_at_0 _ _ _ _ Hc); rewrite (opcode_roundtrip op); cbv beta iota zeta.

  Lemma read_u16_gen : forall s ip op v rest,
    code_at prog ip (op :: v mod 256 :: (v / 256) mod 256 :: rest) -> 0 <= v < 65536 ->
    v_ip s = ip + 1 -> read_u16 prog s = Ok (v, upd_ip s (ip + 3)).
  Proof.
    intros s ip op v rest Hc Hv Hip. unfold read_u16. rewrite Hip.
    rewrite (code_at_1 _ _ _ _ _ Hc).
    replace (ip + 1 + 1) with (ip + 2) by lia. rewrite (code_at_2 _ _ _ _ _ _ Hc).
    rewrite (u16_roundtrip v Hv). replace (ip + 1 + 2) with (ip + 3) by lia. reflexivity.
  Qed.

  Lemma step_null : forall s rest, code_at prog (v_ip s) (byte_of_opcode ONull :: rest) ->
    step orc prog s = Ok (Continue (setm s (VNull :: v_stack s) (v_slen s + 1) (v_ip s + 1) (mst_of s))).
  Proof. intros s rest Hc. decode2 Hc ONull. reflexivity. Qed.

  Lemma step_jump : forall s v rest,
    code_at prog (v_ip s) (byte_of_opcode OJump :: v mod 256 :: (v / 256) mod 256 :: rest) ->
    0 <= v < 65536 ->
    step orc prog s = Ok (Continue (setm s (v_stack s) (v_slen s) v (mst_of s))).
  Proof.
    intros s v rest Hc Hv. decode2 Hc OJump.
    rewrite (read_u16_gen (upd_ip s (v_ip s + 1)) (v_ip s) _ v rest Hc Hv eq_refl). reflexivity.
  Qed.

  Lemma step_jif : forall s v c stk rest,
    code_at prog (v_ip s) (byte_of_opcode OJumpIfFalse :: v mod 256 :: (v / 256) mod 256 :: rest) ->
    0 <= v < 65536 -> v_stack s = c :: stk ->
    step orc prog s =
    match c with
    | VBool b => Ok (Continue (setm s stk (v_slen s - 1) (if b then v_ip s + 3 else v) (mst_of s)))
    | _ => Err ETypeError
    end.
  Proof.
    intros s v c stk rest Hc Hv Hs. decode2 Hc OJumpIfFalse. unfold pop. vmcbn2. rewrite Hs. vmcbn2.
    destruct c as [|b| | | | |]; try reflexivity.
    rewrite (read_u16_gen (upd_stack (upd_ip s (v_ip s + 1)) stk (v_slen s - 1)) (v_ip s) _ v rest Hc Hv eq_refl).
    vmcbn2. destruct b; reflexivity.
  Qed.
End Steps2.

(** * The symbol table of top-level code: one global context, nested scopes *)

From NL.Proofs Require Import CompileCorrectB.

Definition stab (k : nat) (outer : list (list text)) (cur : list text) : symtab :=
  [mkContext SGlobal k (outer ++ [cur])].

(* the live declarations in declaration order *)
Definition flat (outer : list (list text)) (cur : list text) : list text := concat outer ++ cur.

Lemma gtab_stab : forall k outer cur, gtab (stab k outer cur).
Proof. intros. exists k, (outer ++ [cur]). reflexivity. Qed.

Lemma rposition_from_shift : forall x l i acc,
  rposition_from x l i acc =
  match rposition_from x l 0%nat None with Some j => Some (i + j)%nat | None => acc end.
Proof.
  intros x l. induction l as [|n l IH]; intros i acc; cbn [rposition_from]; [reflexivity|].
  rewrite (IH (S i)), (IH 1%nat). destruct (rposition_from x l 0 None) as [j|].
  - f_equal. lia.
  - destruct (text_eqb n x); [f_equal; lia|reflexivity].
Qed.

Lemma rposition_app : forall x l1 l2,
  rposition x (l1 ++ l2) =
  match rposition x l2 with Some i => Some (length l1 + i)%nat | None => rposition x l1 end.
Proof.
  intros x l1 l2. unfold rposition. rewrite rposition_from_app. cbn [Nat.add].
  apply rposition_from_shift.
Qed.

Lemma total_len_concat : forall k scopes, total_len (mkContext SGlobal k scopes) = length (concat scopes).
Proof.
  intros k scopes. unfold total_len. cbn [c_syms].
  assert (forall acc, fold_left (fun a s => (a + length s)%nat) scopes acc = (acc + length (concat scopes))%nat) as H.
  { induction scopes as [|s r IH]; intros acc; cbn [fold_left concat length]; [lia|].
    rewrite IH, app_length. lia. }
  rewrite H. reflexivity.
Qed.

Lemma resolve_scopes_concat : forall x scopes,
  resolve_scopes x (rev scopes) (length (concat scopes)) = rposition x (concat scopes).
Proof.
  intros x scopes. induction scopes as [|s r IH] using rev_ind.
  - reflexivity.
  - rewrite rev_unit, concat_app. cbn [concat resolve_scopes]. rewrite app_nil_r, app_length.
    replace (length (concat r) + length s - length s)%nat with (length (concat r)) by lia.
    rewrite rposition_app. destruct (rposition x s) as [i|]; [reflexivity|exact IH].
Qed.

Lemma resolve_stab : forall k outer cur x,
  resolve (stab k outer cur) x = option_map (mkSymbol SGlobal) (rposition x (flat outer cur)).
Proof.
  intros k outer cur x. unfold resolve, stab, current_context, context_resolve.
  cbn [last length Nat.ltb Nat.leb c_scope c_syms]. rewrite total_len_concat, resolve_scopes_concat.
  unfold flat. rewrite concat_app. cbn [concat]. rewrite app_nil_r.
  destruct (rposition x (concat outer ++ cur)); reflexivity.
Qed.

Lemma push_last_snoc : forall x outer cur, push_last x (outer ++ [cur]) = outer ++ [cur ++ [x]].
Proof.
  intros x outer cur. induction outer as [|s r IH]; [reflexivity|].
  cbn [app push_last]. rewrite IH. destruct (r ++ [cur]) eqn:E; [destruct r; discriminate E|reflexivity].
Qed.

Lemma define_stab : forall k outer cur x,
  define (stab k outer cur) x = (stab (S k) outer (cur ++ [x]), mkSymbol SGlobal (length (flat outer cur))).
Proof.
  intros k outer cur x. unfold define, stab, current_context, context_define.
  cbn [last update_last c_scope c_max c_syms]. rewrite push_last_snoc, total_len_concat.
  f_equal. f_equal. unfold flat. rewrite !concat_app. cbn [concat]. rewrite !app_nil_r, !app_length.
  cbn [length]. lia.
Qed.

Lemma enter_stab : forall k outer cur, enter_scope (stab k outer cur) = stab k (outer ++ [cur]) [].
Proof. reflexivity. Qed.

Lemma leave_stab : forall k outer cur0 cur, leave_scope (stab k (outer ++ [cur0]) cur) = stab k outer cur0.
Proof.
  intros. unfold leave_scope, stab. cbn [update_last c_scope c_max c_syms]. rewrite removelast_last. reflexivity.
Qed.

Lemma flat_enter : forall outer cur, flat (outer ++ [cur]) [] = flat outer cur.
Proof. intros. unfold flat. rewrite concat_app. cbn [concat]. rewrite !app_nil_r. reflexivity. Qed.

Lemma flat_snoc : forall outer cur x, flat outer (cur ++ [x]) = flat outer cur ++ [x].
Proof. intros. unfold flat. rewrite app_assoc. reflexivity. Qed.

(** * The intermediate evaluator for F2 *)

Inductive xres (A : Type) : Type :=
| XOk (a : A) (m : mst)
| XBrk (m : mst)                     (* stop: leave the innermost loop *)
| XCnt (m : mst)                     (* volgende: next iteration of the innermost loop *)
| XErr (k : errkind)
| XFault (f : fault)
| XFuel.
Arguments XOk {A} a m.
Arguments XBrk {A} m.
Arguments XCnt {A} m.
Arguments XErr {A} k.
Arguments XFault {A} f.
Arguments XFuel {A}.

Definition xbind {A B} (x : xres A) (k : A -> mst -> xres B) : xres B :=
  match x with
  | XOk a m => k a m
  | XBrk m => XBrk m
  | XCnt m => XCnt m
  | XErr e => XErr e
  | XFault f => XFault f
  | XFuel => XFuel
  end.

Definition xlift_h (m : mst) (r : outcome (val * heap)) : xres val :=
  match r with
  | Ok x => XOk (fst x) (with_new_m m x)
  | Err k => XErr k
  | Fault f => XFault f
  | OutOfFuel => XFuel
  end.
Definition xlift_p (m : mst) (r : outcome val) : xres val :=
  match r with
  | Ok v => XOk v m
  | Err k => XErr k
  | Fault f => XFault f
  | OutOfFuel => XFuel
  end.

Fixpoint decl_names (l : list stmt) : list text :=
  match l with
  | [] => []
  | SLet x _ :: r => x :: decl_names r
  | _ :: r => decl_names r
  end.

Section XEval.
  Variable orc : oracle.

  (* same fuel discipline as Sem.eval_expr / eval_while / exec_block *)
  Fixpoint xeval (fuel : nat) (names : list text) (e : expr) (m : mst) {struct fuel} : xres val :=
    match fuel with
    | O => XFuel
    | S f =>
        match e with
        | EInt z => XOk (VInt z) m
        | EBool b => XOk (VBool b) m
        | EIdent x =>
            match rposition x names with
            | Some i => XOk (nth i (m_gl m) VNull) m
            | None => XErr EReferenceError
            end
        | EAssign l r =>
            match l with
            | EIdent x =>
                match rposition x names with
                | Some i => xbind (xeval f names r m) (fun v m1 => XOk v (set_global_m i v m1))
                | None => XErr EReferenceError
                end
            | _ => XErr ETypeError
            end
        | EPrefix op r =>
            xbind (xeval f names r m) (fun v m1 =>
              match op with
              | OpNegate | OpSubtract => xlift_h m1 (negate (m_heap m1) v)
              | OpNot => xlift_p m1 (lognot v)
              | _ => XErr ETypeError
              end)
        | EInfix l op r =>
            xbind (xeval f names l m) (fun a m1 =>
            xbind (xeval f names r m1) (fun b m2 =>
              match Sem.method_of op with
              | Some mth => xlift_h m2 (binop orc mth (m_heap m2) a b)
              | None => XErr ETypeError
              end))
        | EIf c t alt =>
            xbind (xeval f names c m) (fun b m1 =>
              match b with
              | VBool true => xstmts f names t VNull m1
              | VBool false =>
                  match alt with
                  | Some bl => xstmts f names bl VNull m1
                  | None => XOk VNull m1
                  end
              | _ => XErr ETypeError
              end)
        | EWhile c body => xwhile f names c body VNull m
        | _ => XErr ETypeError
        end
    end

  with xwhile (fuel : nat) (names : list text) (c : expr) (body : list stmt) (last : val) (m : mst)
         {struct fuel} : xres val :=
    match fuel with
    | O => XFuel
    | S f =>
        xbind (xeval f names c m) (fun b m1 =>
          match b with
          | VBool true =>
              match xstmts f names body VNull m1 with
              | XOk v m2 => xwhile f names c body v m2
              | XBrk m2 => XOk VNull m2
              | XCnt m2 => xwhile f names c body VNull m2
              | other => other
              end
          | VBool false => XOk last m1
          | _ => XErr ETypeError
          end)
    end

  (* the statements of a block; `names` is local to the call: declarations of the block are
     forgotten when it is left.  `last` as in Sem.exec_block. *)
  with xstmts (fuel : nat) (names : list text) (l : list stmt) (last : val) (m : mst)
         {struct fuel} : xres val :=
    match fuel with
    | O => XFuel
    | S f =>
        match l with
        | [] => XOk last m
        | s :: r =>
            match s with
            | SLet x e =>
                xbind (xeval f (names ++ [x]) e m) (fun v m1 =>
                  xstmts f (names ++ [x]) r VNull (set_global_m (length names) v m1))
            | SExpr e => xbind (xeval f names e m) (fun v m1 => xstmts f names r v m1)
            | SBlock b' => xbind (xstmts f names b' VNull m) (fun v m1 => xstmts f names r v m1)
            | SBreak => XBrk m
            | SContinue => XCnt m
            | SReturn _ => XErr ESyntaxError
            end
        end
    end.
End XEval.

(** * Unfolding equations *)

Lemma f2e_if : forall lp c t alt,
  f2e lp (EIf c t alt) = f2e false c && f2b lp t && match alt with Some b => f2b lp b | None => true end.
Proof. reflexivity. Qed.
Lemma f2e_while : forall lp c b, f2e lp (EWhile c b) = f2e false c && f2b true b.
Proof. reflexivity. Qed.
Lemma f2s_block : forall lp b, f2s lp (SBlock b) = f2b lp b.
Proof. reflexivity. Qed.
Lemma f2b_cons : forall lp s r, f2b lp (s :: r) = f2s lp s && f2b lp r.
Proof. reflexivity. Qed.

Lemma stmt_pop_block : forall b, stmt_pop (SBlock b) = match b with [] => true | _ :: _ => ends_pop b end.
Proof.
  intros b. cbn [stmt_pop]. induction b as [|s r IH]; [reflexivity|].
  destruct r as [|s' r']; [reflexivity|]. cbn [ends_pop]. exact IH.
Qed.

Section XEq.
  Variable orc : oracle.
  Lemma xe_int : forall f names z m, xeval orc (S f) names (EInt z) m = XOk (VInt z) m.
  Proof. reflexivity. Qed.
  Lemma xe_bool : forall f names b m, xeval orc (S f) names (EBool b) m = XOk (VBool b) m.
  Proof. reflexivity. Qed.
  Lemma xe_ident : forall f names x m,
    xeval orc (S f) names (EIdent x) m =
    match rposition x names with
    | Some i => XOk (nth i (m_gl m) VNull) m
    | None => XErr EReferenceError
    end.
  Proof. reflexivity. Qed.
  Lemma xe_assign : forall f names x r m,
    xeval orc (S f) names (EAssign (EIdent x) r) m =
    match rposition x names with
    | Some i => xbind (xeval orc f names r m) (fun v m1 => XOk v (set_global_m i v m1))
    | None => XErr EReferenceError
    end.
  Proof. reflexivity. Qed.
  Lemma xe_prefix : forall f names op r m,
    xeval orc (S f) names (EPrefix op r) m =
    xbind (xeval orc f names r m) (fun v m1 =>
      match op with
      | OpNegate | OpSubtract => xlift_h m1 (negate (m_heap m1) v)
      | OpNot => xlift_p m1 (lognot v)
      | _ => XErr ETypeError
      end).
  Proof. reflexivity. Qed.
  Lemma xe_infix : forall f names l op r m,
    xeval orc (S f) names (EInfix l op r) m =
    xbind (xeval orc f names l m) (fun a m1 =>
    xbind (xeval orc f names r m1) (fun b m2 =>
      match Sem.method_of op with
      | Some mth => xlift_h m2 (binop orc mth (m_heap m2) a b)
      | None => XErr ETypeError
      end)).
  Proof. reflexivity. Qed.
  Lemma xe_if : forall f names c t alt m,
    xeval orc (S f) names (EIf c t alt) m =
    xbind (xeval orc f names c m) (fun b m1 =>
      match b with
      | VBool true => xstmts orc f names t VNull m1
      | VBool false =>
          match alt with
          | Some bl => xstmts orc f names bl VNull m1
          | None => XOk VNull m1
          end
      | _ => XErr ETypeError
      end).
  Proof. reflexivity. Qed.
  Lemma xe_while : forall f names c body m,
    xeval orc (S f) names (EWhile c body) m = xwhile orc f names c body VNull m.
  Proof. reflexivity. Qed.
  Lemma xw_step : forall f names c body last m,
    xwhile orc (S f) names c body last m =
    xbind (xeval orc f names c m) (fun b m1 =>
      match b with
      | VBool true =>
          match xstmts orc f names body VNull m1 with
          | XOk v m2 => xwhile orc f names c body v m2
          | XBrk m2 => XOk VNull m2
          | XCnt m2 => xwhile orc f names c body VNull m2
          | other => other
          end
      | VBool false => XOk last m1
      | _ => XErr ETypeError
      end).
  Proof. reflexivity. Qed.
  Lemma xs_nil : forall f names last m, xstmts orc (S f) names [] last m = XOk last m.
  Proof. reflexivity. Qed.
  Lemma xs_let : forall f names x e r last m,
    xstmts orc (S f) names (SLet x e :: r) last m =
    xbind (xeval orc f (names ++ [x]) e m) (fun v m1 =>
      xstmts orc f (names ++ [x]) r VNull (set_global_m (length names) v m1)).
  Proof. reflexivity. Qed.
  Lemma xs_expr : forall f names e r last m,
    xstmts orc (S f) names (SExpr e :: r) last m =
    xbind (xeval orc f names e m) (fun v m1 => xstmts orc f names r v m1).
  Proof. reflexivity. Qed.
  Lemma xs_block : forall f names b r last m,
    xstmts orc (S f) names (SBlock b :: r) last m =
    xbind (xstmts orc f names b VNull m) (fun v m1 => xstmts orc f names r v m1).
  Proof. reflexivity. Qed.
  Lemma xs_break : forall f names r last m, xstmts orc (S f) names (SBreak :: r) last m = XBrk m.
  Proof. reflexivity. Qed.
  Lemma xs_continue : forall f names r last m, xstmts orc (S f) names (SContinue :: r) last m = XCnt m.
  Proof. reflexivity. Qed.
End XEq.

(** * Facts about the evaluator alone *)

Definition nosig {A} (r : xres A) : Prop :=
  match r with XBrk _ | XCnt _ => False | _ => True end.

Lemma nosig_xbind : forall A B (x : xres A) (k : A -> mst -> xres B),
  nosig x -> (forall a m, nosig (k a m)) -> nosig (xbind x k).
Proof. intros A B x k Hx Hk. destruct x; cbn [xbind nosig] in *; auto. Qed.

Lemma nosig_xlift_h : forall m r, nosig (xlift_h m r).
Proof. intros m r. destruct r; exact I. Qed.
Lemma nosig_xlift_p : forall m r, nosig (xlift_p m r).
Proof. intros m r. destruct r; exact I. Qed.

(* where no stop / volgende of an enclosing loop may be written, none is reported *)
Lemma xeval_nosig : forall orc fuel,
  (forall e names m, f2e false e = true -> nosig (xeval orc fuel names e m)) /\
  (forall c body last names m, f2e false c = true -> nosig (xwhile orc fuel names c body last m)) /\
  (forall l names last m, f2b false l = true -> nosig (xstmts orc fuel names l last m)).
Proof.
  intros orc fuel. induction fuel as [|f [IHe [IHw IHs]]].
  - repeat split; intros; exact I.
  - split; [|split].
    + intros e names m HF. destruct e; try discriminate HF; try exact I.
      * (* EInfix *) rewrite xe_infix. cbn [f2e] in HF.
        apply andb_prop in HF. destruct HF as [HF Hr]. apply andb_prop in HF. destruct HF as [_ Hl].
        apply nosig_xbind; [apply IHe; exact Hl|]. intros a m1.
        apply nosig_xbind; [apply IHe; exact Hr|]. intros b m2.
        destruct (Sem.method_of o); [apply nosig_xlift_h|exact I].
      * (* EPrefix *) rewrite xe_prefix. cbn [f2e] in HF. apply andb_prop in HF. destruct HF as [_ Hr].
        apply nosig_xbind; [apply IHe; exact Hr|]. intros v m1.
        destruct o; try exact I; try apply nosig_xlift_h; apply nosig_xlift_p.
      * (* EIf *) rewrite xe_if. rewrite f2e_if in HF.
        apply andb_prop in HF. destruct HF as [HF Ha]. apply andb_prop in HF. destruct HF as [Hc Ht].
        apply nosig_xbind; [apply IHe; exact Hc|]. intros b m1.
        destruct b as [|[|]| | | | |]; try exact I.
        -- apply IHs; exact Ht.
        -- destruct e0 as [bl|]; [apply IHs; exact Ha|exact I].
      * (* EIdent *) rewrite xe_ident. destruct (rposition s names); exact I.
      * (* EAssign *) cbn [f2e] in HF. destruct e1; try discriminate HF. rewrite xe_assign.
        destruct (rposition s names); [|exact I].
        apply nosig_xbind; [apply IHe; exact HF|]. intros; exact I.
      * (* EWhile *) rewrite xe_while. rewrite f2e_while in HF. apply andb_prop in HF. destruct HF as [Hc _].
        apply IHw; exact Hc.
    + intros c body last names m Hc. rewrite xw_step.
      apply nosig_xbind; [apply IHe; exact Hc|]. intros b m1.
      destruct b as [|[|]| | | | |]; try exact I.
      destruct (xstmts orc f names body VNull m1) eqn:E; try exact I; apply IHw; exact Hc.
    + intros l names last m HF. destruct l as [|s r]; [exact I|].
      rewrite f2b_cons in HF. apply andb_prop in HF. destruct HF as [Hs Hr].
      destruct s as [x e|e|e|b| |]; try discriminate Hs.
      * rewrite xs_let. cbn [f2s] in Hs. apply andb_prop in Hs. destruct Hs as [He _].
        apply nosig_xbind; [apply IHe; exact He|]. intros; apply IHs; exact Hr.
      * rewrite xs_expr. apply nosig_xbind; [apply IHe; exact Hs|]. intros; apply IHs; exact Hr.
      * rewrite xs_block. rewrite f2s_block in Hs.
        apply nosig_xbind; [apply IHs; exact Hs|]. intros; apply IHs; exact Hr.
Qed.

(* a block that does not end in a value-leaving statement has the value null *)
Lemma xstmts_no_pop_null : forall orc fuel l names last m v m',
  l <> [] -> ends_pop l = false -> xstmts orc fuel names l last m = XOk v m' -> v = VNull.
Proof.
  intros orc fuel. induction fuel as [|f IH]; intros l names last m v m' Hne Hp H; [discriminate H|].
  destruct l as [|s r]; [contradiction|].
  destruct r as [|s' r'].
  - (* last statement *)
    cbn [ends_pop] in Hp. destruct s as [x e|e|e|b| |]; try discriminate Hp.
    + rewrite xs_let in H. destruct (xeval orc f (names ++ [x]) e m) as [a m1| | | | |]; try discriminate H.
      cbn [xbind] in H. destruct f; [discriminate H|]. rewrite xs_nil in H. inversion H; reflexivity.
    + cbn [xstmts] in H. destruct f; discriminate H.
    + rewrite xs_block in H. rewrite stmt_pop_block in Hp. destruct b as [|sb rb]; [discriminate Hp|].
      destruct (xstmts orc f names (sb :: rb) VNull m) as [a m1| | | | |] eqn:E; try discriminate H.
      cbn [xbind] in H. destruct f; [discriminate H|]. rewrite xs_nil in H. inversion H; subst.
      apply (IH (sb :: rb) names VNull m v m'); [discriminate|exact Hp|exact E].
    + rewrite xs_break in H. discriminate H.
    + rewrite xs_continue in H. discriminate H.
  - assert (ends_pop (s' :: r') = false) as Hp' by exact Hp.
    destruct s as [x e|e|e|b| |].
    + rewrite xs_let in H. destruct (xeval orc f (names ++ [x]) e m) as [a m1| | | | |]; try discriminate H.
      cbn [xbind] in H. eapply (IH (s' :: r')); [discriminate|exact Hp'|exact H].
    + cbn [xstmts] in H. discriminate H.
    + rewrite xs_expr in H. destruct (xeval orc f names e m) as [a m1| | | | |]; try discriminate H.
      cbn [xbind] in H. eapply (IH (s' :: r')); [discriminate|exact Hp'|exact H].
    + rewrite xs_block in H. destruct (xstmts orc f names b VNull m) as [a m1| | | | |]; try discriminate H.
      cbn [xbind] in H. eapply (IH (s' :: r')); [discriminate|exact Hp'|exact H].
    + rewrite xs_break in H. discriminate H.
    + rewrite xs_continue in H. discriminate H.
Qed.

(** * Pending `stop` jumps *)

(* positions of the recorded Jump opcodes: increasing, 3 bytes each, inside [lo, hi) *)
Fixpoint brk_ok (lo : Z) (nb : list Z) (hi : Z) : Prop :=
  match nb with
  | [] => lo <= hi
  | ip :: r => lo <= ip /\ brk_ok (ip + 3) r hi
  end.

Definition brk_holes (nb : list Z) : list Z := flat_map (fun ip => [ip + 1; ip + 2]) nb.

Definition brk_target (prog : program) (nb : list Z) (lexit : Z) : Prop :=
  forall ip, In ip nb ->
    byte_at prog (ip + 1) = Some (lexit mod 256) /\ byte_at prog (ip + 2) = Some ((lexit / 256) mod 256).

Lemma brk_ok_le : forall nb lo hi, brk_ok lo nb hi -> lo <= hi.
Proof.
  induction nb as [|ip r IH]; intros lo hi H; cbn [brk_ok] in H; [exact H|].
  destruct H as [H1 H2]. specialize (IH _ _ H2). lia.
Qed.

Lemma brk_ok_widen : forall nb lo hi lo' hi', brk_ok lo nb hi -> lo' <= lo -> hi <= hi' -> brk_ok lo' nb hi'.
Proof.
  induction nb as [|ip r IH]; intros lo hi lo' hi' H Hl Hh; cbn [brk_ok] in *; [lia|].
  destruct H as [H1 H2]. split; [lia|]. apply (IH (ip + 3) hi); [exact H2|lia|exact Hh].
Qed.

Lemma brk_ok_app : forall n1 n2 a b c, brk_ok a n1 b -> brk_ok b n2 c -> brk_ok a (n1 ++ n2) c.
Proof.
  induction n1 as [|ip r IH]; intros n2 a b c H1 H2; cbn [brk_ok app] in *.
  - apply (brk_ok_widen n2 b c); [exact H2|exact H1|lia].
  - destruct H1 as [H1 H1']. split; [exact H1|]. apply (IH n2 _ b c); assumption.
Qed.

Lemma brk_ok_in : forall nb lo hi ip, brk_ok lo nb hi -> In ip nb -> lo <= ip /\ ip + 3 <= hi.
Proof.
  induction nb as [|ip0 r IH]; intros lo hi ip H Hin; [destruct Hin|].
  cbn [brk_ok] in H. destruct H as [H1 H2]. destruct Hin as [->|Hin].
  - split; [exact H1|]. apply (brk_ok_le _ _ _ H2).
  - destruct (IH _ _ _ H2 Hin). lia.
Qed.

Lemma in_brk_holes : forall nb p, In p (brk_holes nb) <-> exists ip, In ip nb /\ (p = ip + 1 \/ p = ip + 2).
Proof.
  intros nb p. unfold brk_holes. rewrite in_flat_map. split.
  - intros [ip [H1 H2]]. exists ip. split; [exact H1|]. cbn [In] in H2. intuition.
  - intros [ip [H1 H2]]. exists ip. split; [exact H1|]. cbn [In]. intuition.
Qed.

Lemma brk_holes_range : forall nb lo hi p, brk_ok lo nb hi -> In p (brk_holes nb) -> lo < p < hi.
Proof.
  intros nb lo hi p H Hin. apply in_brk_holes in Hin. destruct Hin as [ip [Hi Hp]].
  destruct (brk_ok_in _ _ _ _ H Hi). lia.
Qed.

Lemma brk_holes_app : forall a b, brk_holes (a ++ b) = brk_holes a ++ brk_holes b.
Proof. intros. unfold brk_holes. apply flat_map_app. Qed.

Lemma brk_target_app : forall prog a b lexit, brk_target prog (a ++ b) lexit ->
  brk_target prog a lexit /\ brk_target prog b lexit.
Proof.
  intros prog a b lexit H. split; intros ip Hin; apply H; apply in_or_app; [left|right]; exact Hin.
Qed.

(** * The stack of loop contexts *)

Definition add_breaks (nb : list Z) (L : list loopctx) : list loopctx :=
  match rev L with
  | [] => []
  | ctx :: rest => rev rest ++ [mkLoop (l_start ctx) (l_breaks ctx ++ nb)]
  end.

Definition cur_start (L : list loopctx) : Z :=
  match rev L with ctx :: _ => l_start ctx | [] => 0 end.

Lemma add_breaks_snoc : forall nb outer ctx,
  add_breaks nb (outer ++ [ctx]) = outer ++ [mkLoop (l_start ctx) (l_breaks ctx ++ nb)].
Proof. intros. unfold add_breaks. rewrite rev_unit, rev_involutive. reflexivity. Qed.

Lemma add_breaks_nil : forall L, add_breaks [] L = L.
Proof.
  intros L. destruct L as [|c L] using rev_ind; [reflexivity|].
  rewrite add_breaks_snoc, app_nil_r. destruct c; reflexivity.
Qed.

Lemma add_breaks_add : forall n1 n2 L, add_breaks n2 (add_breaks n1 L) = add_breaks (n1 ++ n2) L.
Proof.
  intros n1 n2 L. destruct L as [|c L _] using rev_ind; [reflexivity|].
  rewrite !add_breaks_snoc. cbn [l_start l_breaks]. rewrite app_assoc. reflexivity.
Qed.

Lemma add_breaks_empty : forall nb L, L = [] -> add_breaks nb L = [].
Proof. intros nb L ->. reflexivity. Qed.

Lemma add_breaks_eq_nil : forall nb L, add_breaks nb L = [] -> L = [].
Proof.
  intros nb L H. destruct L as [|c L _] using rev_ind; [reflexivity|].
  rewrite add_breaks_snoc in H. destruct L; discriminate H.
Qed.

Lemma cur_start_add : forall nb L, cur_start (add_breaks nb L) = cur_start L.
Proof.
  intros nb L. destruct L as [|c L _] using rev_ind; [reflexivity|].
  rewrite add_breaks_snoc. unfold cur_start. rewrite !rev_unit. reflexivity.
Qed.

Lemma cur_start_snoc : forall L c, cur_start (L ++ [c]) = l_start c.
Proof. intros. unfold cur_start. rewrite rev_unit. reflexivity. Qed.

(** * What a compilation step does to the compiler state *)

Record cfacts (st st' : cstate) (outer : list (list text)) (cur' : list text) (ce : list Z) (nb : list Z)
  : Prop := mkCF {
  cf_syms : exists k', c_symbols st' = stab k' outer cur';
  cf_code : c_code st' = c_code st ++ ce;
  cf_consts : exists kx, c_constants st' = c_constants st ++ kx /\ Forall is_kint kx;
  cf_loops : c_loops st' = add_breaks nb (c_loops st);
  cf_nbnil : c_loops st = [] -> nb = [];
  cf_brk : brk_ok (code_len st) nb (code_len st')
}.

Lemma cfacts_len : forall st st' outer cur ce nb, cfacts st st' outer cur ce nb ->
  code_len st' = code_len st + zlength ce.
Proof. intros st st' outer cur ce nb H. apply code_len_app. exact (cf_code _ _ _ _ _ _ H). Qed.

Lemma cfacts_trans : forall st st1 st2 outer cur1 cur2 ce1 ce2 nb1 nb2,
  cfacts st st1 outer cur1 ce1 nb1 -> cfacts st1 st2 outer cur2 ce2 nb2 ->
  cfacts st st2 outer cur2 (ce1 ++ ce2) (nb1 ++ nb2).
Proof.
  intros st st1 st2 outer cur1 cur2 ce1 ce2 nb1 nb2 [S1 C1 [kx1 [K1 F1]] L1 N1 B1] [S2 C2 [kx2 [K2 F2]] L2 N2 B2].
  constructor.
  - exact S2.
  - rewrite C2, C1, app_assoc. reflexivity.
  - exists (kx1 ++ kx2). split; [rewrite K2, K1, app_assoc; reflexivity|apply Forall_app; auto].
  - rewrite L2, L1. apply add_breaks_add.
  - intros H. rewrite (N1 H). rewrite N2; [reflexivity|]. rewrite L1, H. reflexivity.
  - apply (brk_ok_app nb1 nb2 _ (code_len st1)); assumption.
Qed.

(* a step that only appends bytes *)
Lemma cfacts_emit : forall st st' outer cur k ce,
  c_symbols st = stab k outer cur -> c_symbols st' = c_symbols st -> c_constants st' = c_constants st ->
  c_loops st' = c_loops st -> c_code st' = c_code st ++ ce -> cfacts st st' outer cur ce [].
Proof.
  intros st st' outer cur k ce Hs Hs' Hk Hl Hc. constructor.
  - exists k. congruence.
  - exact Hc.
  - exists []. rewrite app_nil_r. split; [exact Hk|constructor].
  - rewrite add_breaks_nil. exact Hl.
  - reflexivity.
  - cbn [brk_ok]. rewrite (code_len_app _ _ _ Hc). pose proof (zlength_nonneg _ ce). lia.
Qed.

Lemma consts_ok_ext : forall prog c c', (exists kx, c' = c ++ kx /\ Forall is_kint kx) ->
  consts_ok prog c' -> consts_ok prog c.
Proof. intros prog c c' [kx [-> _]] H. apply (consts_ok_app prog c kx H). Qed.

(* the environment of a piece of code inside the final program *)
Record env_ok (prog : program) (st st' : cstate) (ce : list Z) (nb : list Z) (lexit : Z) : Prop := mkEnv {
  env_code : code_x prog (code_len st) ce (brk_holes nb);
  env_consts : consts_ok prog (c_constants st');
  env_brk : brk_target prog nb lexit
}.

(* the environment of the first of two consecutive pieces *)
Lemma env_left : forall prog st st1 st2 outer cur1 cur2 ce1 ce2 nb1 nb2 lexit,
  cfacts st st1 outer cur1 ce1 nb1 -> cfacts st1 st2 outer cur2 ce2 nb2 ->
  env_ok prog st st2 (ce1 ++ ce2) (nb1 ++ nb2) lexit -> env_ok prog st st1 ce1 nb1 lexit.
Proof.
  intros prog st st1 st2 outer cur1 cur2 ce1 ce2 nb1 nb2 lexit F1 F2 [E1 E2 E3]. constructor.
  - apply code_x_app in E1. destruct E1 as [E1 _].
    apply (code_x_restrict prog _ ce1 _ _ E1). intros p Hp Hin.
    rewrite brk_holes_app in Hin. apply in_app_or in Hin. destruct Hin as [Hin|Hin]; [exact Hin|].
    pose proof (brk_holes_range _ _ _ _ (cf_brk _ _ _ _ _ _ F2) Hin) as R.
    rewrite (cfacts_len _ _ _ _ _ _ F1) in R. lia.
  - apply (consts_ok_ext prog _ _ (cf_consts _ _ _ _ _ _ F2)). exact E2.
  - apply (proj1 (brk_target_app _ _ _ _ E3)).
Qed.

Lemma env_right : forall prog st st1 st2 outer cur1 cur2 ce1 ce2 nb1 nb2 lexit,
  cfacts st st1 outer cur1 ce1 nb1 -> cfacts st1 st2 outer cur2 ce2 nb2 ->
  env_ok prog st st2 (ce1 ++ ce2) (nb1 ++ nb2) lexit -> env_ok prog st1 st2 ce2 nb2 lexit.
Proof.
  intros prog st st1 st2 outer cur1 cur2 ce1 ce2 nb1 nb2 lexit F1 F2 [E1 E2 E3]. constructor.
  - apply code_x_app in E1. destruct E1 as [_ E1]. rewrite <- (cfacts_len _ _ _ _ _ _ F1) in E1.
    apply (code_x_restrict prog _ ce2 _ _ E1). intros p Hp Hin.
    rewrite brk_holes_app in Hin. apply in_app_or in Hin. destruct Hin as [Hin|Hin]; [|exact Hin].
    pose proof (brk_holes_range _ _ _ _ (cf_brk _ _ _ _ _ _ F1) Hin) as R. lia.
  - exact E2.
  - apply (proj2 (brk_target_app _ _ _ _ E3)).
Qed.

(** * Simulation statements *)

Section Sim.
  Variable orc : oracle.

  Definition sim2 (prog : program) (s : vm) (ip' lstart lexit : Z) (r : xres val) : Prop :=
    match r with
    | XOk v m' => exists fin', reaches orc prog s (setx s (v :: v_stack s) (v_slen s + 1) ip' m' fin')
    | XBrk m' => exists fin', reaches orc prog s (setx s (VNull :: v_stack s) (v_slen s + 1) lexit m' fin')
    | XCnt m' => exists fin', reaches orc prog s (setx s (VNull :: v_stack s) (v_slen s + 1) lstart m' fin')
    | XErr k => stops orc prog s (Err k) (v_out s)
    | XFault f => stops orc prog s (Fault f) (v_out s)
    | XFuel => True
    end.

  (* statement lists, canonical form: if the list ends in a value-leaving statement, the machine is
     followed up to (not including) the trailing Pop, with the value on the stack *)
  Definition sim_l (prog : program) (s : vm) (pop : bool) (ipend lstart lexit : Z) (r : xres val) : Prop :=
    match r with
    | XOk v m' =>
        if pop then exists fin', reaches orc prog s (setx s (v :: v_stack s) (v_slen s + 1) (ipend - 1) m' fin')
        else exists fin', reaches orc prog s (setx s (v_stack s) (v_slen s) ipend m' fin')
    | XBrk m' => exists fin', reaches orc prog s (setx s (VNull :: v_stack s) (v_slen s + 1) lexit m' fin')
    | XCnt m' => exists fin', reaches orc prog s (setx s (VNull :: v_stack s) (v_slen s + 1) lstart m' fin')
    | XErr k => stops orc prog s (Err k) (v_out s)
    | XFault f => stops orc prog s (Fault f) (v_out s)
    | XFuel => True
    end.

  Definition esim (e : expr) : Prop :=
    forall lp st st' k outer cur, f2e lp e = true -> c_symbols st = stab k outer cur ->
    compile_expression e st = Ok st' ->
    exists ce nb, cfacts st st' outer cur ce nb /\
      forall prog lexit, env_ok prog st st' ce nb lexit -> 0 <= lexit < 65536 ->
      0 <= cur_start (c_loops st) ->
      forall fuel s, v_ip s = code_len st ->
      sim2 prog s (code_len st') (cur_start (c_loops st)) lexit
           (xeval orc fuel (flat outer cur) e (mst_of s)).

  Definition lsim (l : list stmt) : Prop :=
    forall lp st st' k outer cur, f2b lp l = true -> c_symbols st = stab k outer cur ->
    compile_statements l st = Ok st' ->
    exists ce nb, cfacts st st' outer (cur ++ decl_names l) ce nb /\
      (l <> [] -> last_instruction_is OPop st' = ends_pop l) /\
      (ends_pop l = true -> (exists ce', ce = ce' ++ [byte_of_opcode OPop]) /\
                            brk_ok (code_len st) nb (code_len st' - 1)) /\
      forall prog lexit, env_ok prog st st' ce nb lexit -> 0 <= lexit < 65536 ->
      0 <= cur_start (c_loops st) ->
      forall fuel s last, v_ip s = code_len st ->
      sim_l prog s (ends_pop l) (code_len st') (cur_start (c_loops st)) lexit
            (xstmts orc fuel (flat outer cur) l last (mst_of s)).

  (* the step property of one statement in front of a list *)
  Definition ssim (s0 : stmt) : Prop := forall r, lsim r -> lsim (s0 :: r).

  (** ** Small helpers *)

  Lemma emit_const_loops : forall k st st', emit_const k st = Ok st' -> c_loops st' = c_loops st.
  Proof.
    intros k st st' H. unfold emit_const in H. destruct (add_constant k st) as [st1 r] eqn:E.
    apply add_constant_loops in E. apply bind_ok in H. destruct H as [idx [_ H]]. inversion H; subst.
    cbn [emit_u16 emit_opcode c_loops]. exact E.
  Qed.

  Lemma reaches_stepx : forall prog s s', step orc prog s = Ok (Continue s') -> reaches orc prog s s'.
  Proof. intros. apply reaches_step. assumption. Qed.

  Lemma holes_free_nil : forall off n, holes_free off n [].
  Proof. intros off n p _ []. Qed.

  Lemma f2e_infix : forall lp l o r, f2e lp (EInfix l o r) = is_binop o && f2e false l && f2e false r.
  Proof. reflexivity. Qed.
  Lemma f2e_prefix : forall lp o r, f2e lp (EPrefix o r) = is_prefix_op o && f2e false r.
  Proof. reflexivity. Qed.
  Lemma f2e_assign : forall lp x r, f2e lp (EAssign (EIdent x) r) = f2e false r.
  Proof. reflexivity. Qed.

  (** ** Literals and variables *)

  Lemma esim_int : forall z, esim (EInt z).
  Proof.
    intros z lp st st' k outer cur HF Hs Hc. rewrite ce_int in Hc.
    pose proof (emit_const_loops _ _ _ Hc) as Hl.
    destruct (emit_const_kint z st st' Hc) as [Hsy [idx [kx [Hcode [Hk [Hf [Hr Hn]]]]]]].
    exists [byte_of_opcode OConst; idx mod 256; (idx / 256) mod 256], [].
    assert (cfacts st st' outer cur [byte_of_opcode OConst; idx mod 256; (idx / 256) mod 256] []) as CF.
    { constructor.
      - exists k. congruence.
      - exact Hcode.
      - exists kx. auto.
      - rewrite add_breaks_nil. exact Hl.
      - reflexivity.
      - cbn [brk_ok]. rewrite (code_len_app _ _ _ Hcode). rewrite zlength3. lia. }
    split; [exact CF|].
    intros prog lexit [E1 E2 _] _ _ fuel s Hip. destruct fuel as [|f]; [exact I|].
    rewrite xe_int. cbn [sim2]. exists (v_final s). apply reaches_step.
    rewrite <- Hip in E1. pose proof (code_x_at3 _ _ _ _ _ _ _ E1 (holes_free_nil _ _)) as Hat.
    rewrite (step_const orc prog s idx z [] Hat Hr (E2 _ _ Hn)). rewrite setm_setx.
    f_equal. f_equal. apply setx_eq; [reflexivity|]. rewrite (code_len_app _ _ _ Hcode), zlength3, Hip. reflexivity.
  Qed.

  Lemma esim_bool : forall b, esim (EBool b).
  Proof.
    intros b lp st st' k outer cur HF Hs Hc. rewrite ce_bool in Hc. inversion Hc; subst st'; clear Hc.
    exists [byte_of_opcode (if b then OTrue else OFalse)], [].
    split; [apply (cfacts_emit _ _ outer cur k); auto|].
    intros prog lexit [E1 E2 _] _ _ fuel s Hip. destruct fuel as [|f]; [exact I|].
    rewrite xe_bool. cbn [sim2]. exists (v_final s). apply reaches_step.
    rewrite <- Hip in E1. pose proof (code_x_at1 _ _ _ _ _ E1 (fun x => x)) as Hat.
    rewrite (step_bool orc prog s b [] Hat). rewrite setm_setx.
    f_equal. f_equal. apply setx_eq; [reflexivity|]. rewrite code_len_emit_opcode, Hip. reflexivity.
  Qed.

  Lemma esim_ident : forall x, esim (EIdent x).
  Proof.
    intros x lp st st' k outer cur HF Hs Hc. rewrite ce_ident, Hs, resolve_stab in Hc.
    destruct (rposition x (flat outer cur)) as [i|] eqn:Er; cbn [option_map] in Hc; [|discriminate Hc].
    unfold scoped in Hc. cbn [s_scope] in Hc.
    pose proof (emit_sym_loops _ _ _ _ Hc) as Hl.
    destruct (emit_sym_spec _ _ _ _ Hc) as [Hsy [Hk [Hr Hcode]]]. cbn [s_index] in Hr, Hcode.
    eexists; exists []. split; [apply (cfacts_emit _ _ outer cur k); eauto|].
    intros prog lexit [E1 E2 _] _ _ fuel s Hip. destruct fuel as [|f]; [exact I|].
    rewrite xe_ident, Er. cbn [sim2]. exists (v_final s). apply reaches_step.
    rewrite <- Hip in E1. pose proof (code_x_at3 _ _ _ _ _ _ _ E1 (holes_free_nil _ _)) as Hat.
    rewrite (step_get_global orc prog s _ [] Hat Hr). rewrite Nat2Z.id, setm_setx.
    f_equal. f_equal. apply setx_eq; [reflexivity|]. rewrite (code_len_app _ _ _ Hcode), zlength3, Hip. reflexivity.
  Qed.
End Sim.
