(* CompileCorrectH4.v - compiler correctness for the fragment F2h (property C01), part H4:
   the definitional evaluator Sem.v agrees with the intermediate evaluator of part H2.

   Part D (CompileCorrectD.v) redone for the larger fragment.  New:
     - the two heaps are different: they are related through a relation R on locations that GROWS
       along the evaluation (part H3); values are related, not equal;
     - the output is threaded on both sides and is equal at every point (also at an error);
     - the constant pool of the running program: its float and string boxes keep their contents
       (a string constant is copied before it can be written to; the program never holds a
       reference to the pooled box), a float literal of Sem (fresh box) is related to the pooled box;
     - Sem's indexing rule (spec_index) against the machine's (norm_index: `as usize`), which agree
       for indices above - 2^64: every integer of a run is above MIN_INT (VMTotal.int_lb);
     - the address-space bound (VMInv.addr_bounded) is needed on BOTH sides for the word-level
       operators: it is assumed for the state in which Sem's evaluation ends and carried backwards,
       Sem's heap only grows (`eval_grows`). *)
From Coq Require Import ZArith Lia Bool List String.
From NL.Model Require Import VM.
From NL.Spec Require Import Sem Fragment Fragment2 Fragment2h ArithSpec GCInv.
From NL.Proofs Require Import WordProofs OpsProofs AstInduction ControlProofs PoolProofs VMGCLedger
  VMIndexProofs BuiltinsProofs VMTotal
  CompileCorrectA CompileCorrectB CompileCorrectC CompileCorrectD
  CompileCorrectH1 CompileCorrectH2 CompileCorrectH3.
Open Scope Z_scope.

(** * The constant pool in the machine's heap *)

Definition pool_ok (pl : list (const * val)) (R : loc_rel) (hm : heap) : Prop :=
  forall c v, In (c, v) pl ->
    match c with
    | KInt z => v = VInt z
    | KFun ip n => v = VFun ip n
    | KFloat f => exists l, v = VFloat l /\ h_get hm l = Ok (OFloat f)
    | KStr s => exists l, v = VStr l /\ h_get hm l = Ok (OStr s) /\ forall ls, ~ R ls l
    end.

Lemma pool_ok_wf : forall pl R hm, pool_ok pl R hm -> pool_wf pl.
Proof.
  intros pl R hm H c v Hin. specialize (H c v Hin). destruct c; auto.
  - destruct H as [l [E _]]. exists l. exact E.
  - destruct H as [l [E _]]. exists l. exact E.
Qed.

Lemma pool_ok_frame : forall pl R R' hm hm', pool_ok pl R hm -> heap_ok hm -> frame R R' hm hm' ->
  pool_ok pl R' hm'.
Proof.
  intros pl R R' hm hm' H Hok [F1 F2] c v Hin. specialize (H c v Hin). destruct c; auto.
  - destruct H as [l [E G]]. exists l. split; [exact E|exact (F1 _ _ G)].
  - destruct H as [l [E [G N]]]. exists l. split; [exact E|]. split; [exact (F1 _ _ G)|].
    intros ls Hr. destruct (F2 _ _ Hr) as [Hr'|Hge]; [exact (N ls Hr')|].
    pose proof (h_get_lt _ _ _ Hok G). lia.
Qed.

(** * Sem's state and the evaluator's state *)

Section Rel.
  Variable K : Z.
  Variable pl : list (const * val).

  Record RelS (holes : list nat) (ds : decls) (R : loc_rel) (sst : sstate) (m : hst) : Prop := mkRelS {
    RS_hr : HR K R (st_heap sst) (hs_heap m);
    RS_out : st_out sst = hs_out m;
    RS_nodup : NoDup (map snd ds);
    RS_val : forall i y c, nth_error ds i = Some (y, c) -> ~ In i holes ->
                           val_rel R (get_cell c sst) (nth i (hs_gl m) VNull);
    RS_fresh : forall c, In c (map snd ds) -> (c < st_next sst)%positive;
    RS_unset : forall c, (st_next sst <= c)%positive -> PM.find c (st_cells sst) = None;
    RS_pool : pool_ok pl R (hs_heap m);
    RS_gints : ints_ok (hs_gl m);
    RS_hints : heap_ints (hs_heap m)
  }.

  (* the heaps (and the output) change, cells and slots do not *)
  Lemma RelS_update : forall holes ds R R' sst sst' m m', RelS holes ds R sst m ->
    rel_incl R R' -> HR K R' (st_heap sst') (hs_heap m') -> pool_ok pl R' (hs_heap m') ->
    heap_ints (hs_heap m') ->
    st_cells sst' = st_cells sst -> st_next sst' = st_next sst -> hs_gl m' = hs_gl m ->
    st_out sst' = hs_out m' ->
    RelS holes ds R' sst' m'.
  Proof.
    intros holes ds R R' sst sst' m m' [A1 A2 A3 A4 A5 A6 A7 A8 A9] Hi Hhr Hp Hh Ec En Eg Eo.
    constructor; try assumption.
    - intros i y c Hn Hh'. unfold get_cell. rewrite Ec, Eg. exact (val_rel_mono _ _ _ _ Hi (A4 i y c Hn Hh')).
    - rewrite En. exact A5.
    - rewrite En, Ec. exact A6.
    - rewrite Eg. exact A8.
  Qed.

  Lemma ints_set_global : forall n v gl, int_lb v = true -> ints_ok gl -> ints_ok (set_global n v gl).
  Proof.
    intros n v gl Hv Hg. unfold set_global. apply ints_replace; [exact Hv|].
    destruct (Nat.ltb n (length gl)); [exact Hg|]. apply ints_app; [exact Hg|apply ints_repeat_null].
  Qed.

  Lemma RelS_set : forall holes holes' ds R sst m i y c v v', RelS holes ds R sst m ->
    nth_error ds i = Some (y, c) -> val_rel R v v' -> int_lb v' = true ->
    (forall j, ~ In j holes' -> j = i \/ ~ In j holes) ->
    RelS holes' ds R (Sem.set_cell c v sst) (set_global_h i v' m).
  Proof.
    intros holes holes' ds R sst m i y c v v' [A1 A2 A3 A4 A5 A6 A7 A8 A9] Hi Hv Hlb Hh.
    constructor; cbn [Sem.set_cell set_global_h st_heap st_cells st_next st_out hs_heap hs_gl hs_out]; auto.
    - intros j y' c' Hj Hnj. destruct (Nat.eq_dec i j) as [->|Hne].
      + assert (c' = c) as -> by congruence. rewrite get_set_cell_same, nth_set_global_same. exact Hv.
      + rewrite nth_set_global_other by exact Hne. rewrite get_set_cell_other.
        * apply (A4 j y'); [exact Hj|]. destruct (Hh j Hnj) as [->|Hn]; [contradiction|exact Hn].
        * intros ->. apply Hne. exact (NoDup_snd_nth ds i j y c y' A3 Hi Hj).
    - intros c' Hc'. rewrite PM.gso; [apply A6; exact Hc'|].
      intros ->. assert (In c (map snd ds)) as Hin.
      { apply in_map_iff. exists (y, c). split; [reflexivity|]. apply (nth_error_In _ _ Hi). }
      specialize (A5 c Hin). lia.
    - apply ints_set_global; assumption.
  Qed.

  Lemma RelS_declare : forall holes ds R sst m x, RelS holes ds R sst m ->
    RelS (length ds :: holes) (ds ++ [(x, st_next sst)]) R (snd (new_cell sst)) m.
  Proof.
    intros holes ds R sst m x [A1 A2 A3 A4 A5 A6 A7 A8 A9]. unfold new_cell. cbn [snd].
    constructor; cbn [st_heap st_cells st_next st_out]; auto.
    - rewrite map_app. cbn [map snd]. apply NoDup_snoc; [exact A3|].
      intros Hin. specialize (A5 _ Hin). lia.
    - intros i y c Hi Hn. destruct (Nat.lt_ge_cases i (length ds)) as [Hlt|Hge].
      + rewrite nth_error_app1 in Hi by exact Hlt. apply (A4 i y c Hi). intros Hin. apply Hn. right. exact Hin.
      + exfalso. apply Hn. left.
        assert (i < length (ds ++ [(x, st_next sst)]))%nat as Hl by (apply nth_error_Some; rewrite Hi; discriminate).
        rewrite app_length in Hl. cbn [length] in Hl. lia.
    - intros c Hin. rewrite map_app in Hin. apply in_app_or in Hin. destruct Hin as [Hin|[<-|[]]].
      + specialize (A5 _ Hin). lia.
      + cbn [snd]. lia.
    - intros c Hc. apply A6. lia.
  Qed.

  Lemma RelS_prefix : forall holes ds ds2 R sst m, RelS holes (ds ++ ds2) R sst m -> RelS holes ds R sst m.
  Proof.
    intros holes ds ds2 R sst m [A1 A2 A3 A4 A5 A6 A7 A8 A9]. constructor; auto.
    - rewrite map_app in A3. exact (NoDup_prefix _ _ _ A3).
    - intros i y c Hi Hn. apply (A4 i y c); [|exact Hn]. rewrite nth_error_app1; [exact Hi|].
      apply nth_error_Some. rewrite Hi. discriminate.
    - intros c Hin. apply A5. rewrite map_app. apply in_or_app. left. exact Hin.
  Qed.

  (** * Results related *)

  (* P: how the result values are related under the (grown) location relation *)
  Definition corrg {A B} (P : loc_rel -> A -> B -> Prop) (holes : list nat) (ds : decls) (R : loc_rel)
             (r : res A) (x : hres B) : Prop :=
    match r with
    | RFuel => True
    | ROk a sst' =>
        match x with
        | HOk b m' => exists R', rel_incl R R' /\ P R' a b /\ RelS holes ds R' sst' m'
        | _ => False
        end
    | RSig SigBreak sst' =>
        match x with HBrk m' => exists R', rel_incl R R' /\ RelS holes ds R' sst' m' | _ => False end
    | RSig SigContinue sst' =>
        match x with HCnt m' => exists R', rel_incl R R' /\ RelS holes ds R' sst' m' | _ => False end
    | RSig (SigReturn _) _ => False
    | RErr k sst' => match x with HErr k' out => k = k' /\ st_out sst' = out | _ => False end
    | RFault f sst' => match x with HFault f' out => f = f' /\ st_out sst' = out | _ => False end
    end.

  Definition Pval (R : loc_rel) (v v' : val) : Prop := val_rel R v v' /\ int_lb v' = true.
  Definition Plist (R : loc_rel) (vs vs' : list val) : Prop := Forall2 (val_rel R) vs vs' /\ ints_ok vs'.

  Definition corr := @corrg val val Pval.
  Definition corrl := @corrg (list val) (list val) Plist.

  Lemma corrg_weaken : forall A B (P : loc_rel -> A -> B -> Prop) holes ds R R1 r x,
    rel_incl R R1 -> corrg P holes ds R1 r x -> corrg P holes ds R r x.
  Proof.
    intros A B P holes ds R R1 r x Hi H.
    destruct r as [a s'|[| |rv] s'|k s'|f s'|]; destruct x as [b m'|m'|m'|k' o|f' o|]; cbn [corrg] in *;
      try contradiction; try exact I; try exact H.
    - destruct H as [R' [H1 H2]]. exists R'. split; [exact (rel_incl_trans _ _ _ Hi H1)|exact H2].
    - destruct H as [R' [H1 H2]]. exists R'. split; [exact (rel_incl_trans _ _ _ Hi H1)|exact H2].
    - destruct H as [R' [H1 H2]]. exists R'. split; [exact (rel_incl_trans _ _ _ Hi H1)|exact H2].
  Qed.

  Lemma corrg_prefix : forall A B (P : loc_rel -> A -> B -> Prop) holes ds ds2 R r x,
    corrg P holes (ds ++ ds2) R r x -> corrg P holes ds R r x.
  Proof.
    intros A B P holes ds ds2 R r x H.
    destruct r as [a s'|[| |rv] s'|k s'|f s'|]; destruct x as [b m'|m'|m'|k' o|f' o|]; cbn [corrg] in *;
      try contradiction; try exact I; try exact H.
    - destruct H as [R' [H1 [H2 H3]]]. exists R'. split; [exact H1|]. split; [exact H2|exact (RelS_prefix _ _ _ _ _ _ H3)].
    - destruct H as [R' [H1 H3]]. exists R'. split; [exact H1|exact (RelS_prefix _ _ _ _ _ _ H3)].
    - destruct H as [R' [H1 H3]]. exists R'. split; [exact H1|exact (RelS_prefix _ _ _ _ _ _ H3)].
  Qed.

  (** * Sem's heap only grows; the address-space bound *)

  Definition rstate {A} (r : res A) : option sstate :=
    match r with ROk _ st | RSig _ st | RErr _ st | RFault _ st => Some st | RFuel => None end.

  Definition grows {A} (st : sstate) (r : res A) : Prop :=
    match rstate r with Some st' => n_alloc (st_heap st) <= n_alloc (st_heap st') | None => True end.

  Definition bounded {A} (r : res A) : Prop :=
    match rstate r with Some st' => small K (st_heap st') | None => True end.

  Lemma grows_ok : forall A (a : A) st, grows st (ROk a st).
  Proof. intros. unfold grows. cbn [rstate]. lia. Qed.
  Lemma grows_err : forall A k st, grows st (@RErr A k st).
  Proof. intros. unfold grows. cbn [rstate]. lia. Qed.
  Lemma grows_sig : forall A s st, grows st (@RSig A s st).
  Proof. intros. unfold grows. cbn [rstate]. lia. Qed.
  Lemma grows_fuel : forall A st, grows st (@RFuel A).
  Proof. intros. exact I. Qed.

  Lemma grows_same : forall A st st' (r : res A), n_alloc (st_heap st) <= n_alloc (st_heap st') ->
    grows st' r -> grows st r.
  Proof. intros A st st' r H Hr. unfold grows in *. destruct (rstate r); [lia|exact I]. Qed.

  Lemma grows_rbind : forall A B st (x : res A) (k : A -> sstate -> res B),
    grows st x -> (forall a st1, grows st1 (k a st1)) -> grows st (rbind x k).
  Proof.
    intros A B st x k Hx Hk. destruct x as [a s1|sg s1|e s1|f s1|]; cbn [rbind]; try exact Hx.
    unfold grows in Hx. cbn [rstate] in Hx. exact (grows_same _ _ _ _ Hx (Hk a s1)).
  Qed.

  Lemma grows_lift_heap : forall st r, nalloc_le (st_heap st) r -> grows st (lift_heap st r).
  Proof.
    intros st r H. destruct r as [[v h]| | |]; unfold grows; cbn [lift_heap rstate st_heap nalloc_le snd] in *;
      try lia; exact I.
  Qed.

  Lemma grows_lift_plain : forall A st (r : outcome A), grows st (lift_plain st r).
  Proof. intros A st r. destruct r; unfold grows; cbn [lift_plain rstate]; try lia; exact I. Qed.

  Lemma bounded_small : forall A (a : A) st, bounded (ROk a st) -> small K (st_heap st).
  Proof. intros A a st H. exact H. Qed.

  (* the bound of the end of a computation is the bound of every state before *)
  Lemma bounded_grows : forall A st (r : res A), grows st r -> bounded r -> rstate r <> None ->
    small K (st_heap st).
  Proof.
    intros A st r Hg Hb Hn. unfold grows, bounded, small in *. destruct (rstate r); [lia|contradiction].
  Qed.

  Lemma corrg_bind : forall A B A' B' (P : loc_rel -> A -> B -> Prop) (Q : loc_rel -> A' -> B' -> Prop)
    holes ds R (r : res A) (x : hres B) (k : A -> sstate -> res A') (kx : B -> hst -> hres B'),
    (forall a st1, grows st1 (k a st1)) ->
    bounded (rbind r k) ->
    (bounded r -> corrg P holes ds R r x) ->
    (forall a b sst1 m1 R1, rel_incl R R1 -> P R1 a b -> RelS holes ds R1 sst1 m1 ->
       bounded (k a sst1) -> corrg Q holes ds R1 (k a sst1) (kx b m1)) ->
    corrg Q holes ds R (rbind r k) (hbind x kx).
  Proof.
    intros A B A' B' P Q holes ds R r x k kx Hg Hb Hr Hk.
    destruct r as [a s1|sg s1|e s1|f s1|]; cbn [rbind] in *; try exact I.
    - destruct (rstate (k a s1)) as [s2|] eqn:Es.
      + assert (bounded (ROk a s1)) as Hb1.
        { unfold bounded. cbn [rstate]. apply (bounded_grows _ s1 (k a s1) (Hg a s1) Hb). rewrite Es. discriminate. }
        specialize (Hr Hb1). destruct x as [b m'|m'|m'|k' o|f' o|]; cbn [corrg] in Hr; try contradiction.
        destruct Hr as [R1 [H1 [H2 H3]]]. cbn [hbind].
        apply (corrg_weaken _ _ _ _ _ R R1 _ _ H1). apply Hk; assumption.
      + destruct (k a s1); cbn [rstate] in Es; try discriminate Es. exact I.
    - specialize (Hr Hb). destruct sg as [| |rv]; destruct x as [b m'|m'|m'|k' o|f' o|]; cbn [corrg hbind] in *;
        try contradiction; exact Hr.
    - specialize (Hr Hb). destruct x as [b m'|m'|m'|k' o|f' o|]; cbn [corrg hbind] in *; try contradiction; exact Hr.
    - specialize (Hr Hb). destruct x as [b m'|m'|m'|k' o|f' o|]; cbn [corrg hbind] in *; try contradiction; exact Hr.
  Qed.

  (** * Lifting the shared functions *)

  Lemma hst_heap_with_new : forall m v h', hs_heap (with_new_h m (v, h')) = h'.
  Proof. reflexivity. Qed.

  (* a function of Ops.v / Builtins.v applied to related arguments in related heaps *)
  Lemma corr_lift_h : forall holes ds R sst m (rs rm : outcome (val * heap)),
    RelS holes ds R sst m -> res_rel K R (hs_heap m) rs rm -> rpost rm ->
    corr holes ds R (lift_heap sst rs) (hlift_h m rm).
  Proof.
    intros holes ds R sst m rs rm HR Hres Hpost.
    destruct rs as [[v h1]| | |]; destruct rm as [[v' h2]| | |]; cbn [res_rel orel] in Hres; try contradiction;
      cbn [lift_heap hlift_h corr corrg fst]; try exact I.
    - destruct Hres as [R' [H1 [H2 [H3 H4]]]]. cbn [fst snd] in *. destruct Hpost as [Hlb Hhi].
      exists R'. split; [exact H1|]. split; [split; assumption|].
      apply (RelS_update holes ds R R' sst _ m _ HR H1); cbn [st_heap st_cells st_next st_out with_new_h hs_heap hs_gl hs_out];
        try reflexivity; try assumption.
      + exact (pool_ok_frame _ _ _ _ _ (RS_pool _ _ _ _ _ HR) (hr_okm _ _ _ _ (RS_hr _ _ _ _ _ HR)) H4).
      + exact (RS_out _ _ _ _ _ HR).
    - split; [exact Hres|exact (RS_out _ _ _ _ _ HR)].
    - split; [exact Hres|exact (RS_out _ _ _ _ _ HR)].
  Qed.

  Lemma corr_lift_p : forall holes ds R sst m (rs rm : outcome val),
    RelS holes ds R sst m -> orel (val_rel R) rs rm -> (forall v, rm = Ok v -> int_lb v = true) ->
    corr holes ds R (lift_plain sst rs) (hlift_p m rm).
  Proof.
    intros holes ds R sst m rs rm HR Hres Hlb.
    destruct rs as [v| | |]; destruct rm as [v'| | |]; cbn [orel] in Hres; try contradiction;
      cbn [lift_plain hlift_p corr corrg]; try exact I.
    - exists R. split; [apply rel_incl_refl|]. split; [split; [exact Hres|exact (Hlb v' eq_refl)]|exact HR].
    - split; [exact Hres|exact (RS_out _ _ _ _ _ HR)].
    - split; [exact Hres|exact (RS_out _ _ _ _ _ HR)].
  Qed.
End Rel.

(** * Unfolding equations of Sem for the new constructs *)

(* the `eval_list` of Sem.eval_expr *)
Definition sem_list (orc : oracle) (f : nat) (c : dctx) : list expr -> sstate -> res (list val) :=
  fix go (l : list expr) (st : sstate) : res (list val) :=
    match l with
    | [] => ROk [] st
    | x :: r => rbind (eval_expr orc f c x st) (fun v st => rbind (go r st) (fun vs st => ROk (v :: vs) st))
    end.

Definition sem_builtin (orc : oracle) (b : builtin) (st : sstate) (vs : list val) : res val :=
  match call_builtin orc b (st_heap st) vs with
  | Ok (v, h, printed) => ROk v (mkSt h (st_cells st) (st_next st) (st_funs st) (st_out st ++ printed))
  | Err k => RErr k st
  | Fault x => RFault x st
  | OutOfFuel => RFuel
  end.

Definition sem_array (st : sstate) (xs : list val) : res val :=
  let '(l, h) := h_alloc (st_heap st) (OArr xs) in ROk (VArr l) (with_heap st h).

Section SemEqH.
  Variable orc : oracle.

  Lemma ee_float : forall f c x st,
    eval_expr orc (S f) c (EFloat x) st = lift_heap st (Ok (alloc_float (st_heap st) x)).
  Proof. reflexivity. Qed.
  Lemma ee_string : forall f c s st,
    eval_expr orc (S f) c (EString s) st = lift_heap st (Ok (alloc_str (st_heap st) s)).
  Proof. reflexivity. Qed.
  Lemma ee_array : forall f c vs st,
    eval_expr orc (S f) c (EArray vs) st = rbind (sem_list orc f c vs st) (fun xs st => sem_array st xs).
  Proof. reflexivity. Qed.
  Lemma ee_index : forall f c l i st,
    eval_expr orc (S f) c (EIndex l i) st =
    rbind (eval_expr orc f c l st) (fun base st =>
    rbind (eval_expr orc f c i st) (fun idx st => sem_index_get st base idx)).
  Proof. reflexivity. Qed.
  Lemma ee_assign_index : forall f c l i r st,
    eval_expr orc (S f) c (EAssign (EIndex l i) r) st =
    rbind (eval_expr orc f c l st) (fun base st =>
    rbind (eval_expr orc f c i st) (fun idx st =>
    rbind (eval_expr orc f c r st) (fun v st => sem_index_set st base idx v))).
  Proof. reflexivity. Qed.
  Lemma ee_call_builtin : forall f c x b args st, assoc_text x builtin_names = Some b ->
    eval_expr orc (S f) c (ECall (EIdent x) args) st =
    rbind (sem_list orc f c args st) (fun vs st => sem_builtin orc b st vs).
  Proof.
    intros f c x b args st H.
    change (eval_expr orc (S f) c (ECall (EIdent x) args) st)
      with (rbind (sem_list orc f c args st) (fun vs st =>
              match assoc_text x builtin_names with
              | Some b => sem_builtin orc b st vs
              | None =>
                  rbind (eval_expr orc f c (EIdent x) st) (fun fv st =>
                    match fv with
                    | VFun id _ =>
                        match nth_error (st_funs st) (Z.to_nat id) with
                        | Some clo =>
                            if Nat.ltb (length (k_params clo)) (length vs) then RErr EArgumentError st
                            else
                              let '(scope, st1) :=
                                (fix bind (ps : list text) (vs : list val) (acc : list (text * positive)) (st : sstate) :=
                                   match ps with
                                   | [] => (acc, st)
                                   | p :: ps' =>
                                       let '(cl, st') := new_cell st in
                                       let '(v, vs') := match vs with v :: r => (v, r) | [] => (VNull, []) end in
                                       bind ps' vs' ((p, cl) :: acc) (Sem.set_cell cl v st')
                                   end) (k_params clo) vs [] st in
                              match exec_block orc f (mkD [scope] (Some (k_genv clo))) (k_body clo) VNull st1 with
                              | ROk v st2 => ROk v st2
                              | RSig (SigReturn v) st2 => ROk v st2
                              | RSig _ st2 => RErr ESyntaxError st2
                              | RErr k st2 => RErr k st2
                              | RFault x st2 => RFault x st2
                              | RFuel => RFuel
                              end
                        | None => RFault FBadTag st
                        end
                    | _ => RErr ETypeError st
                    end)
              end)).
    rewrite H. reflexivity.
  Qed.
  Lemma sl_nil : forall f c st, sem_list orc f c [] st = ROk [] st.
  Proof. reflexivity. Qed.
  Lemma sl_cons : forall f c x r st,
    sem_list orc f c (x :: r) st =
    rbind (eval_expr orc f c x st) (fun v st => rbind (sem_list orc f c r st) (fun vs st => ROk (v :: vs) st)).
  Proof. reflexivity. Qed.
End SemEqH.

(** * Sem's heap only grows (on the fragment) *)

Ltac gr_triv := solve [unfold grows; cbn [rstate Sem.set_cell st_heap]; lia | exact I].

Lemma grows_index_get : forall st base idx, grows st (sem_index_get st base idx).
Proof.
  intros st base idx. unfold sem_index_get. destruct idx; try gr_triv. destruct base; try gr_triv.
  - apply grows_rbind; [apply grows_lift_plain|]. intros t st1.
    destruct (spec_index z (zlength t)) as [n|]; [|gr_triv].
    destruct (nth_error t n); [|gr_triv]. apply grows_lift_heap. apply alloc_str_grows.
  - apply grows_rbind; [apply grows_lift_plain|]. intros vs st1.
    destruct (spec_index z (zlength vs)) as [n|]; [|gr_triv].
    destruct (nth_error vs n); [gr_triv|gr_triv].
Qed.

Lemma h_set_nalloc : forall h l o h', h_set h l o = Ok h' -> n_alloc h' = n_alloc h.
Proof.
  intros h l o h' H. unfold h_set in H. destruct (PM.find l (cells h)) as [[[|] x]|]; try discriminate H.
  inversion H; reflexivity.
Qed.

Lemma grows_with_heap : forall st (v : val) h, n_alloc (st_heap st) <= n_alloc h -> grows st (ROk v (with_heap st h)).
Proof. intros st v h H. unfold grows. cbn [rstate with_heap st_heap]. exact H. Qed.

Lemma grows_set_step : forall st l o (k : heap -> sstate -> res val),
  (forall h st1, n_alloc h = n_alloc (st_heap st1) -> grows st1 (k h st1)) ->
  grows st (rbind (lift_plain st (h_set (st_heap st) l o)) k).
Proof.
  intros st l o k Hk. destruct (h_set (st_heap st) l o) as [h'| | |] eqn:E; cbn [lift_plain rbind].
  - apply Hk. exact (h_set_nalloc _ _ _ _ E).
  - unfold grows. cbn [rstate]. lia.
  - unfold grows. cbn [rstate]. lia.
  - exact I.
Qed.

Lemma grows_index_set : forall st base idx v, grows st (sem_index_set st base idx v).
Proof.
  intros st base idx v. unfold sem_index_set. destruct idx; try gr_triv. destruct base; try gr_triv.
  - apply grows_rbind; [apply grows_lift_plain|]. intros t st1.
    destruct (spec_index z (zlength t)) as [n|]; [|gr_triv].
    destruct v; try gr_triv.
    apply grows_rbind; [apply grows_lift_plain|]. intros repl st2.
    apply grows_set_step. intros h st3 Hn. apply grows_with_heap. lia.
  - apply grows_rbind; [apply grows_lift_plain|]. intros vs st1.
    destruct (spec_index z (zlength vs)) as [n|]; [|gr_triv].
    apply grows_set_step. intros h st3 Hn. apply grows_with_heap. lia.
Qed.

Lemma grows_array : forall st xs, grows st (sem_array st xs).
Proof. intros st xs. unfold sem_array. cbn [h_alloc]. apply grows_with_heap. cbn [n_alloc]. lia. Qed.

Lemma grows_builtin : forall orc b st vs, grows st (sem_builtin orc b st vs).
Proof.
  intros orc b st vs. unfold sem_builtin. pose proof (call_builtin_grows orc b (st_heap st) vs) as H.
  destruct (call_builtin orc b (st_heap st) vs) as [[[v h] t]| | |]; unfold grows; cbn [rstate st_heap fst snd] in *;
    try lia; exact I.
Qed.

Lemma grows_list : forall orc f c l,
  (forall e st, In e l -> grows st (eval_expr orc f c e st)) -> forall st, grows st (sem_list orc f c l st).
Proof.
  intros orc f c l. induction l as [|x r IH]; intros H st; [rewrite sl_nil; gr_triv|].
  rewrite sl_cons. apply grows_rbind; [apply H; left; reflexivity|]. intros v st1.
  apply grows_rbind; [apply IH; intros e st2 Hin; apply H; right; exact Hin|]. intros vs st2. gr_triv.
Qed.

Lemma grows_cells : forall A st st' (r : res A), st_heap st' = st_heap st -> grows st' r -> grows st r.
Proof. intros A st st' r E H. apply (grows_same _ st st' r); [rewrite E; lia|exact H]. Qed.

Theorem eval_grows : forall orc fuel,
  (forall lp e c st, f2he lp e = true -> grows st (eval_expr orc fuel c e st)) /\
  (forall iter cnd body c last st, f2he false cnd = true -> f2hb true body = true ->
     grows st (eval_while orc fuel iter c cnd body last st)) /\
  (forall lp l c last st, f2hb lp l = true -> grows st (exec_block orc fuel c l last st)).
Proof.
  intros orc fuel. induction fuel as [|f [IHe [IHw IHs]]].
  - repeat split; intros; exact I.
  - split; [|split].
    + intros lp e c st HF.
      destruct e as [e1 o e2|o e|z|fl|bb|cnd t alt|s|n ps body|h args|e1 e2|str|vs|bs i|cnd body];
        try discriminate HF.
      * rewrite f2he_infix in HF. apply andb_prop in HF. destruct HF as [HF Hr]. apply andb_prop in HF.
        destruct HF as [_ Hl]. rewrite ee_infix.
        apply grows_rbind; [exact (IHe false e1 c st Hl)|]. intros a st1.
        apply grows_rbind; [exact (IHe false e2 c st1 Hr)|]. intros b st2.
        destruct (Sem.method_of o); [apply grows_lift_heap; apply binop_grows|gr_triv].
      * rewrite f2he_prefix in HF. apply andb_prop in HF. destruct HF as [_ Hr]. rewrite ee_prefix.
        apply grows_rbind; [exact (IHe false e c st Hr)|]. intros a st1.
        destruct o; try gr_triv; try (apply grows_lift_heap; apply negate_grows); apply grows_lift_plain.
      * rewrite ee_int. gr_triv.
      * rewrite ee_float. apply grows_lift_heap. apply alloc_float_grows.
      * rewrite ee_bool. gr_triv.
      * rewrite f2he_if in HF. apply andb_prop in HF. destruct HF as [HF Ha]. apply andb_prop in HF.
        destruct HF as [Hc Ht]. rewrite ee_if.
        apply grows_rbind; [exact (IHe false cnd c st Hc)|]. intros b st1.
        destruct b as [|[|]| | | | |]; try gr_triv.
        -- exact (IHs lp t _ VNull st1 Ht).
        -- destruct alt as [bl|]; [exact (IHs lp bl _ VNull st1 Ha)|gr_triv].
      * rewrite ee_ident. destruct (d_lookup c s); [gr_triv|gr_triv].
      * rewrite f2he_call in HF. apply andb_prop in HF. destruct HF as [Hfn Hargs].
        destruct h as [| | | | | |x| | | | | | |]; try discriminate Hfn. unfold is_builtin_name in Hfn.
        destruct (assoc_text x builtin_names) as [b|] eqn:Eb; [|discriminate Hfn].
        rewrite (ee_call_builtin orc f c x b args st Eb).
        apply grows_rbind; [|intros; apply grows_builtin].
        apply grows_list. intros e st0 Hin. exact (IHe false e c st0 (f2hl_in _ _ Hargs Hin)).
      * cbn [f2he] in HF. destruct e1 as [| | | | | |x| | | | | |bs i|]; try discriminate HF.
        -- rewrite ee_assign_ident. destruct (d_lookup c x); [|gr_triv].
           apply grows_rbind; [exact (IHe false e2 c st HF)|]. intros v st1.
           unfold grows. cbn [rstate Sem.set_cell st_heap]. lia.
        -- apply andb_prop in HF. destruct HF as [HF H3]. apply andb_prop in HF. destruct HF as [H1 H2].
           rewrite ee_assign_index.
           apply grows_rbind; [exact (IHe false bs c st H1)|]. intros a st1.
           apply grows_rbind; [exact (IHe false i c st1 H2)|]. intros ix st2.
           apply grows_rbind; [exact (IHe false e2 c st2 H3)|]. intros v st3. apply grows_index_set.
      * rewrite ee_string. apply grows_lift_heap. apply alloc_str_grows.
      * rewrite f2he_array in HF. rewrite ee_array.
        apply grows_rbind; [|intros; apply grows_array].
        apply grows_list. intros e st0 Hin. exact (IHe false e c st0 (f2hl_in _ _ HF Hin)).
      * rewrite f2he_index in HF. apply andb_prop in HF. destruct HF as [H1 H2]. rewrite ee_index.
        apply grows_rbind; [exact (IHe false bs c st H1)|]. intros a st1.
        apply grows_rbind; [exact (IHe false i c st1 H2)|]. intros ix st2. apply grows_index_get.
      * rewrite f2he_while in HF. apply andb_prop in HF. destruct HF as [Hc Hb]. rewrite ee_while.
        exact (IHw f cnd body c VNull st Hc Hb).
    + intros iter cnd body c last st Hc Hb. rewrite ew_step.
      apply grows_rbind; [exact (IHe false cnd c st Hc)|]. intros b st1.
      destruct b as [|[|]| | | | |]; try gr_triv.
      pose proof (IHs true body (d_push c) VNull st1 Hb) as Hbody.
      destruct (exec_block orc f (d_push c) body VNull st1) as [v s2|[| |rv] s2|k s2|x s2|]; try exact Hbody;
        unfold grows in Hbody; cbn [rstate] in Hbody.
      * apply (grows_same _ st1 s2); [exact Hbody|]. exact (IHw iter cnd body c v s2 Hc Hb).
      * apply (grows_same _ st1 s2); [exact Hbody|]. exact (IHw iter cnd body c VNull s2 Hc Hb).
    + intros lp l c last st HF. destruct l as [|s r]; [rewrite eb_nil; gr_triv|].
      rewrite f2hb_cons in HF. apply andb_prop in HF. destruct HF as [Hs Hr].
      destruct s as [x e|e|e|b| |]; try discriminate Hs.
      * cbn [f2hs] in Hs. apply andb_prop in Hs. destruct Hs as [He _]. rewrite eb_let. unfold new_cell.
        set (st1 := mkSt (st_heap st) (st_cells st) (Pos.succ (st_next st)) (st_funs st) (st_out st)).
        apply (grows_cells _ st st1); [reflexivity|].
        apply grows_rbind; [exact (IHe false e _ st1 He)|]. intros v st2.
        apply (grows_cells _ st2 (Sem.set_cell (st_next st) v st2)); [reflexivity|].
        exact (IHs lp r _ VNull _ Hr).
      * cbn [f2hs] in Hs. rewrite eb_expr.
        apply grows_rbind; [exact (IHe lp e c st Hs)|]. intros v st1. exact (IHs lp r _ v st1 Hr).
      * rewrite f2hs_block in Hs. rewrite eb_block.
        apply grows_rbind; [exact (IHs lp b _ VNull st Hs)|]. intros v st1. exact (IHs lp r c v st1 Hr).
      * rewrite eb_break. gr_triv.
      * rewrite eb_continue. gr_triv.
Qed.

Lemma sem_list_grows : forall orc f c l st, f2hl l = true -> grows st (sem_list orc f c l st).
Proof.
  intros orc f c l st H. apply grows_list. intros e st0 Hin.
  exact (proj1 (eval_grows orc f) false e c st0 (f2hl_in _ _ H Hin)).
Qed.

(** * Sem's indexing rule and the machine's *)

Lemma spec_norm : forall z len, 0 <= len -> - WORD <= z ->
  (exists i, spec_index z len = Some (Z.to_nat i) /\ norm_index z len = Ok i /\ 0 <= i < len) \/
  (spec_index z len = None /\ norm_index z len = Err EIndexError).
Proof.
  intros z len Hlen Hz. rewrite (norm_index_spec z len Hlen Hz). unfold spec_index, in_range, norm.
  destruct (Z.leb_spec 0 z); destruct (Z.ltb_spec z len); destruct (Z.ltb_spec z 0);
    destruct (Z.leb_spec (- len) z); cbn [andb]; try lia;
    try (left; eexists; split; [reflexivity|split; [reflexivity|lia]]);
    try (right; split; reflexivity).
Qed.

Lemma Forall2_nth_error : forall A B (P : A -> B -> Prop) l l' n a, Forall2 P l l' ->
  nth_error l n = Some a -> exists b, nth_error l' n = Some b /\ P a b.
Proof.
  intros A B P l l' n a H. revert n. induction H as [|x y r r' Hxy Hr IH]; intros n Hn.
  - destruct n; discriminate Hn.
  - destruct n as [|n]; cbn [nth_error] in *.
    + inversion Hn; subst. exists y. auto.
    + exact (IH n Hn).
Qed.

Lemma nth_error_lt_some : forall A (l : list A) i, 0 <= i < zlength l -> exists a, nth_error l (Z.to_nat i) = Some a.
Proof.
  intros A l i H. destruct (nth_error l (Z.to_nat i)) as [a|] eqn:E; [eauto|].
  apply nth_error_None in E. unfold zlength in H. lia.
Qed.

Lemma Forall2_replace_nth : forall A B (P : A -> B -> Prop) l l' n a b, Forall2 P l l' -> P a b ->
  Forall2 P (replace_nth n a l) (replace_nth n b l').
Proof.
  intros A B P l l' n a b H Hab. revert n. induction H as [|x y r r' Hxy Hr IH]; intros n.
  - destruct n; constructor.
  - destruct n; cbn [replace_nth]; constructor; auto.
Qed.

Lemma hlift_o_lift_h : forall m r, hlift_o m (lift_h m r) = hlift_h m r.
Proof. intros m r. destruct r as [[v h]| | |]; reflexivity. Qed.

(** * The new constructs, one by one *)

Section Ops.
  Variable orc : oracle.
  Variable K : Z.
  Variable pl : list (const * val).

  Notation RelS := (RelS K pl).
  Notation corr := (corr K pl).
  Notation corrl := (corrl K pl).

  (* the constant the compiler registered for a literal is found again, and is that literal *)
  Definition lit_good (k : const) : Prop := exists v, pool_find k pl = Some v /\ In (k, v) pl.

  Lemma float_lit_corr : forall holes ds R sst m f, RelS holes ds R sst m -> lit_good (KFloat f) ->
    corr holes ds R (lift_heap sst (Ok (alloc_float (st_heap sst) f))) (h_lit pl (KFloat f) m).
  Proof.
    intros holes ds R sst m f HR [v [Hfind Hin]]. unfold h_lit. rewrite Hfind.
    pose proof (RS_pool _ _ _ _ _ _ _ HR (KFloat f) v Hin) as Hp. cbn beta iota in Hp.
    destruct Hp as [lp [-> Hget]]. cbn [h_const hlift_o fst snd].
    rewrite alloc_float_eq. cbn [lift_heap corr corrg].
    set (ls := next_loc (st_heap sst)). set (R' := extend R ls lp).
    exists R'. split; [apply extend_incl|]. split; [split; [constructor; apply extend_new|reflexivity]|].
    apply (RelS_update K pl holes ds R R' sst _ m m HR); cbn [st_heap st_cells st_next st_out]; try reflexivity.
    - apply extend_incl.
    - exact (HR_alloc_s _ _ _ _ _ _ (RS_hr _ _ _ _ _ _ _ HR) Hget).
    - intros c w Hcw. pose proof (RS_pool _ _ _ _ _ _ _ HR c w Hcw) as Hq. destruct c; auto.
      destruct Hq as [l [E [G N]]]. exists l. split; [exact E|]. split; [exact G|].
      intros l0 [Hr|[_ ->]]; [exact (N l0 Hr)|]. rewrite Hget in G. discriminate G.
    - exact (RS_hints _ _ _ _ _ _ _ HR).
    - exact (RS_out _ _ _ _ _ _ _ HR).
  Qed.

  Lemma str_lit_corr : forall holes ds R sst m s, RelS holes ds R sst m -> lit_good (KStr s) ->
    corr holes ds R (lift_heap sst (Ok (alloc_str (st_heap sst) s))) (h_lit pl (KStr s) m).
  Proof.
    intros holes ds R sst m s HR [v [Hfind Hin]]. unfold h_lit. rewrite Hfind.
    pose proof (RS_pool _ _ _ _ _ _ _ HR (KStr s) v Hin) as Hp. cbn beta iota in Hp.
    destruct Hp as [lp [-> [Hget _]]]. cbn [h_const]. rewrite hlift_o_lift_h.
    rewrite (get_str_of _ _ _ Hget). cbn [bind].
    apply (corr_lift_h K pl holes ds R sst m _ _ HR).
    - exact (res_rel_alloc_str _ _ _ _ _ (RS_hr _ _ _ _ _ _ _ HR)).
    - apply alloc_str_post. exact (RS_hints _ _ _ _ _ _ _ HR).
  Qed.

  Lemma array_corr : forall holes ds R sst m xs xs', RelS holes ds R sst m -> Plist R xs xs' ->
    corr holes ds R (sem_array sst xs) (hlift_o m (Ok (h_array m xs'))).
  Proof.
    intros holes ds R sst m xs xs' HR [Hxs Hints]. unfold sem_array, h_array. cbn [h_alloc hlift_o fst snd corr corrg].
    set (ls := next_loc (st_heap sst)). set (lm := next_loc (hs_heap m)). set (R' := extend R ls lm).
    pose proof (RS_hr _ _ _ _ _ _ _ HR) as Hhr.
    exists R'. split; [apply extend_incl|]. split; [split; [constructor; apply extend_new|reflexivity]|].
    apply (RelS_update K pl holes ds R R' sst _ m _ HR); cbn [with_heap st_heap st_cells st_next st_out hs_heap hs_gl hs_out];
      try reflexivity.
    - apply extend_incl.
    - exact (HR_alloc2 K R (st_heap sst) (hs_heap m) (OArr xs) (OArr xs') Hhr Hxs).
    - apply (pool_ok_frame _ _ _ _ _ (RS_pool _ _ _ _ _ _ _ HR) (hr_okm _ _ _ _ Hhr)).
      exact (frame_alloc R (hs_heap m) ls (OArr xs') (hr_okm _ _ _ _ Hhr)).
    - exact (hi_alloc (hs_heap m) (OArr xs') (RS_hints _ _ _ _ _ _ _ HR) Hints).
    - exact (RS_out _ _ _ _ _ _ _ HR).
  Qed.

  Lemma builtin_corr : forall holes ds R sst m b xs xs', RelS holes ds R sst m -> Plist R xs xs' ->
    corr holes ds R (sem_builtin orc b sst xs) (hlift_o m (h_builtin orc m b xs')).
  Proof.
    intros holes ds R sst m b xs xs' HR [Hxs Hints]. unfold sem_builtin, h_builtin.
    pose proof (RS_hr _ _ _ _ _ _ _ HR) as Hhr.
    pose proof (call_builtin_rel orc K R _ _ Hhr b xs xs' Hxs) as Hrel.
    pose proof (call_builtin_post orc b (hs_heap m) xs' (RS_hints _ _ _ _ _ _ _ HR) Hints) as Hpost.
    destruct (call_builtin orc b (st_heap sst) xs) as [[[v h1] t]| | |];
      destruct (call_builtin orc b (hs_heap m) xs') as [[[v' h2] t']| | |]; cbn [bres_rel orel] in Hrel;
      try contradiction; cbn [bind hlift_o corr corrg fst snd]; try exact I.
    - destruct Hrel as [Et [R' [H1 [H2 [H3 H4]]]]]. cbn [fst snd] in *. subst t'. destruct Hpost as [Hlb Hhi].
      exists R'. split; [exact H1|]. split; [split; assumption|].
      apply (RelS_update K pl holes ds R R' sst _ m _ HR H1);
        cbn [st_heap st_cells st_next st_out add_out with_new_h hs_heap hs_gl hs_out]; try reflexivity; try assumption.
      + exact (pool_ok_frame _ _ _ _ _ (RS_pool _ _ _ _ _ _ _ HR) (hr_okm _ _ _ _ Hhr) H4).
      + rewrite (RS_out _ _ _ _ _ _ _ HR). reflexivity.
    - split; [exact Hrel|exact (RS_out _ _ _ _ _ _ _ HR)].
    - split; [exact Hrel|exact (RS_out _ _ _ _ _ _ _ HR)].
  Qed.

  Lemma err_corr : forall holes ds R sst m k, RelS holes ds R sst m ->
    corr holes ds R (RErr k sst) (hlift_o m (Err k)).
  Proof. intros holes ds R sst m k HR. split; [reflexivity|exact (RS_out _ _ _ _ _ _ _ HR)]. Qed.

  Lemma int_lb_bound : forall v z, int_lb v = true -> v = VInt z -> - WORD <= z.
  Proof. intros v z H ->. exact (int_lb_word z H). Qed.

  Lemma index_get_corr : forall holes ds R sst m base base' idx idx', RelS holes ds R sst m ->
    Pval R base base' -> Pval R idx idx' ->
    corr holes ds R (sem_index_get sst base idx) (hlift_o m (h_index_get m base' idx')).
  Proof.
    intros holes ds R sst m base base' idx idx' HR [Hb _] [Hi Hlb].
    pose proof (RS_hr _ _ _ _ _ _ _ HR) as Hhr.
    unfold sem_index_get, h_index_get.
    destruct Hi as [|bb|z|l l' Hl|l l' Hl|l l' Hl]; try exact (err_corr _ _ _ _ _ _ HR).
    pose proof (int_lb_word z Hlb) as Hz.
    destruct Hb as [|bb|z0|l l' Hl|l l' Hl|l l' Hl]; try exact (err_corr _ _ _ _ _ _ HR).
    - (* a string *)
      pose proof (get_str_rel _ _ _ _ _ _ Hhr Hl) as Hg.
      destruct (get_str (st_heap sst) l) as [t| | |]; destruct (get_str (hs_heap m) l') as [t'| | |];
        cbn [orel] in Hg; try contradiction; cbn [lift_plain rbind bind hlift_o corr corrg]; try exact I;
        try (split; [exact Hg|exact (RS_out _ _ _ _ _ _ _ HR)]).
      subst t'.
      destruct (spec_norm z (zlength t) (zlength_nonneg _ t) Hz) as [[i [E1 [E2 Hr]]]|[E1 E2]]; rewrite E1, E2;
        cbn [bind]; [|exact (err_corr _ _ _ _ _ _ HR)].
      destruct (nth_error_lt_some _ t i Hr) as [ch Hch]. rewrite Hch. rewrite hlift_o_lift_h.
      apply (corr_lift_h K pl holes ds R sst m _ _ HR).
      + exact (res_rel_alloc_str _ _ _ _ _ Hhr).
      + apply alloc_str_post. exact (RS_hints _ _ _ _ _ _ _ HR).
    - (* an array *)
      pose proof (get_arr_rel _ _ _ _ _ _ Hhr Hl) as Hg.
      destruct (get_arr (st_heap sst) l) as [vs| | |] eqn:Gs; destruct (get_arr (hs_heap m) l') as [vs'| | |] eqn:Gm;
        cbn [orel] in Hg; try contradiction; cbn [lift_plain rbind bind hlift_o corr corrg]; try exact I;
        try (split; [exact Hg|exact (RS_out _ _ _ _ _ _ _ HR)]).
      rewrite <- (Forall2_zlength _ _ _ _ _ Hg).
      destruct (spec_norm z (zlength vs) (zlength_nonneg _ vs) Hz) as [[i [E1 [E2 Hr]]]|[E1 E2]]; rewrite E1, E2;
        cbn [bind]; [|exact (err_corr _ _ _ _ _ _ HR)].
      destruct (nth_error_lt_some _ vs i Hr) as [v Hv]. rewrite Hv.
      destruct (Forall2_nth_error _ _ _ _ _ _ _ Hg Hv) as [v' [Hv' Hvv]]. rewrite Hv'.
      cbn [hlift_o corr corrg fst snd]. exists R. split; [apply rel_incl_refl|]. split; [|exact HR].
      split; [exact Hvv|].
      exact (ints_nth_error _ _ _ (get_arr_ints _ _ _ (RS_hints _ _ _ _ _ _ _ HR) Gm) Hv').
  Qed.

  (* an update of related boxes *)
  Lemma RelS_set_heap : forall holes ds R sst m l l' o0 o0' o o', RelS holes ds R sst m -> R l l' ->
    h_get (st_heap sst) l = Ok o0 -> h_get (hs_heap m) l' = Ok o0' -> (forall f, o0' <> OFloat f) ->
    obj_rel R o o' -> obj_ints o' ->
    RelS holes ds R (with_heap sst (VMIndexProofs.set_cell (st_heap sst) l o))
                    (set_heap_h m (VMIndexProofs.set_cell (hs_heap m) l' o')).
  Proof.
    intros holes ds R sst m l l' o0 o0' o o' HR Hr Gs Gm Hnf Ho Hoi.
    apply (RelS_update K pl holes ds R R sst _ m _ HR); cbn [with_heap set_heap_h st_heap st_cells st_next st_out hs_heap hs_gl hs_out];
      try reflexivity.
    - apply rel_incl_refl.
    - exact (HR_set _ _ _ _ _ _ _ _ _ _ (RS_hr _ _ _ _ _ _ _ HR) Hr Gs Gm Hnf Ho).
    - intros c w Hcw. pose proof (RS_pool _ _ _ _ _ _ _ HR c w Hcw) as Hq. destruct c; auto.
      + destruct Hq as [lp [E G]]. exists lp. split; [exact E|]. rewrite h_get_set_cell_other; [exact G|].
        intros ->. rewrite Gm in G. inversion G. exact (Hnf _ H0).
      + destruct Hq as [lp [E [G N]]]. exists lp. split; [exact E|]. split; [|exact N].
        rewrite h_get_set_cell_other; [exact G|]. intros ->. exact (N l Hr).
    - apply (hi_set (hs_heap m) l' o' _ (h_set_ok _ _ _ _ Gm) (RS_hints _ _ _ _ _ _ _ HR) Hoi).
    - exact (RS_out _ _ _ _ _ _ _ HR).
  Qed.

  Lemma index_set_corr : forall holes ds R sst m base base' idx idx' v v', RelS holes ds R sst m ->
    Pval R base base' -> Pval R idx idx' -> Pval R v v' ->
    corr holes ds R (sem_index_set sst base idx v) (hlift_o m (h_index_set m base' idx' v')).
  Proof.
    intros holes ds R sst m base base' idx idx' v v' HR [Hb _] [Hi Hlb] [Hv Hvlb].
    pose proof (RS_hr _ _ _ _ _ _ _ HR) as Hhr.
    unfold sem_index_set, h_index_set.
    destruct Hi as [|bb|z|l l' Hl|l l' Hl|l l' Hl]; try exact (err_corr _ _ _ _ _ _ HR).
    pose proof (int_lb_word z Hlb) as Hz.
    destruct Hb as [|bb|z0|l l' Hl|l l' Hl|l l' Hl]; try exact (err_corr _ _ _ _ _ _ HR).
    - (* a string *)
      pose proof (get_str_rel _ _ _ _ _ _ Hhr Hl) as Hg.
      destruct (get_str (st_heap sst) l) as [t| | |] eqn:Gs; destruct (get_str (hs_heap m) l') as [t'| | |] eqn:Gm;
        cbn [orel] in Hg; try contradiction; cbn [lift_plain rbind bind hlift_o corr corrg]; try exact I;
        try (split; [exact Hg|exact (RS_out _ _ _ _ _ _ _ HR)]).
      subst t'.
      destruct (spec_norm z (zlength t) (zlength_nonneg _ t) Hz) as [[i [E1 [E2 Hr]]]|[E1 E2]]; rewrite E1, E2;
        cbn [bind]; [|exact (err_corr _ _ _ _ _ _ HR)].
      destruct Hv as [|bv|zv|k k' Hk|k k' Hk|k k' Hk]; try exact (err_corr _ _ _ _ _ _ HR).
      pose proof (get_str_rel _ _ _ _ _ _ Hhr Hk) as Hg2.
      destruct (get_str (st_heap sst) k) as [repl| | |]; destruct (get_str (hs_heap m) k') as [repl'| | |];
        cbn [orel] in Hg2; try contradiction; cbn [lift_plain rbind bind hlift_o corr corrg]; try exact I;
        try (split; [exact Hg2|exact (RS_out _ _ _ _ _ _ _ HR)]).
      subst repl'.
      pose proof (get_str_inv _ _ _ Gs) as Gs'. pose proof (get_str_inv _ _ _ Gm) as Gm'.
      rewrite (h_set_ok _ _ _ _ Gs'), (h_set_ok _ _ _ _ Gm'). cbn [lift_plain rbind bind hlift_o corr corrg fst snd].
      exists R. split; [apply rel_incl_refl|]. split; [split; [constructor; exact Hk|reflexivity]|].
      apply (RelS_set_heap holes ds R sst m l l' _ _ _ _ HR Hl Gs' Gm'); [discriminate|reflexivity|exact I].
    - (* an array *)
      pose proof (get_arr_rel _ _ _ _ _ _ Hhr Hl) as Hg.
      destruct (get_arr (st_heap sst) l) as [vs| | |] eqn:Gs; destruct (get_arr (hs_heap m) l') as [vs'| | |] eqn:Gm;
        cbn [orel] in Hg; try contradiction; cbn [lift_plain rbind bind hlift_o corr corrg]; try exact I;
        try (split; [exact Hg|exact (RS_out _ _ _ _ _ _ _ HR)]).
      rewrite <- (Forall2_zlength _ _ _ _ _ Hg).
      destruct (spec_norm z (zlength vs) (zlength_nonneg _ vs) Hz) as [[i [E1 [E2 Hr]]]|[E1 E2]]; rewrite E1, E2;
        cbn [bind]; [|exact (err_corr _ _ _ _ _ _ HR)].
      pose proof (get_arr_inv _ _ _ Gs) as Gs'. pose proof (get_arr_inv _ _ _ Gm) as Gm'.
      rewrite (h_set_ok _ _ _ _ Gs'), (h_set_ok _ _ _ _ Gm'). cbn [lift_plain rbind bind hlift_o corr corrg fst snd].
      exists R. split; [apply rel_incl_refl|]. split; [split; assumption|].
      apply (RelS_set_heap holes ds R sst m l l' _ _ _ _ HR Hl Gs' Gm'); [discriminate| |].
      + cbn [obj_rel]. apply Forall2_replace_nth; assumption.
      + cbn [obj_ints]. apply ints_replace; [exact Hvlb|].
        exact (get_arr_ints _ _ _ (RS_hints _ _ _ _ _ _ _ HR) Gm).
  Qed.
End Ops.

(** * Literals and names below a construct *)

Lemma lits_infix : forall l o r, lits_e (EInfix l o r) = lits_e l ++ lits_e r.
Proof. reflexivity. Qed.
Lemma lits_prefix : forall o r, lits_e (EPrefix o r) = lits_e r.
Proof. reflexivity. Qed.
Lemma lits_if : forall c t alt,
  lits_e (EIf c t alt) = lits_e c ++ lits_b t ++ match alt with Some b => lits_b b | None => [] end.
Proof. reflexivity. Qed.
Lemma lits_while : forall c b, lits_e (EWhile c b) = lits_e c ++ lits_b b.
Proof. reflexivity. Qed.
Lemma lits_assign : forall l r, lits_e (EAssign l r) = lits_e l ++ lits_e r.
Proof. reflexivity. Qed.
Lemma lits_index : forall l i, lits_e (EIndex l i) = lits_e l ++ lits_e i.
Proof. reflexivity. Qed.
Lemma lits_array : forall vs, lits_e (EArray vs) = lits_l vs.
Proof. reflexivity. Qed.
Lemma lits_call : forall f args, lits_e (ECall f args) = lits_l args ++ lits_e f.
Proof. reflexivity. Qed.
Lemma lits_b_cons : forall s r, lits_b (s :: r) = lits_s s ++ lits_b r.
Proof. reflexivity. Qed.
Lemma lits_s_block : forall b, lits_s (SBlock b) = lits_b b.
Proof. reflexivity. Qed.
Lemma lits_l_cons : forall x r, lits_l (x :: r) = lits_e x ++ lits_l r.
Proof. reflexivity. Qed.

Definition mentions_list (x : text) : list expr -> bool :=
  fix go (l : list expr) : bool := match l with [] => false | y :: r => mentions x y || go r end.

Lemma mentions_list_cons : forall x y r, mentions_list x (y :: r) = mentions x y || mentions_list x r.
Proof. reflexivity. Qed.

Lemma mentions_array : forall x vs, mentions x (EArray vs) = mentions_list x vs.
Proof. reflexivity. Qed.
Lemma mentions_call : forall x f args, mentions x (ECall f args) = mentions x f || mentions_list x args.
Proof. reflexivity. Qed.
Lemma mentions_index : forall x l i, mentions x (EIndex l i) = mentions x l || mentions x i.
Proof. reflexivity. Qed.

Definition holes_ok_l (holes : list nat) (ds : decls) (l : list expr) : Prop :=
  forall h y c, In h holes -> nth_error ds h = Some (y, c) -> mentions_list y l = false.

Lemma Forall_app_l : forall A (P : A -> Prop) a b, Forall P (a ++ b) -> Forall P a.
Proof. intros A P a b H. apply Forall_app in H. exact (proj1 H). Qed.
Lemma Forall_app_r : forall A (P : A -> Prop) a b, Forall P (a ++ b) -> Forall P b.
Proof. intros A P a b H. apply Forall_app in H. exact (proj2 H). Qed.

(** * Sem agrees with the intermediate evaluator *)

Section Agree.
  Variable orc : oracle.
  Variable K : Z.
  Variable pl : list (const * val).

  Notation RelS := (RelS K pl).
  Notation corr := (corr K pl).
  Notation corrl := (corrl K pl).
  Notation bounded := (bounded K).

  Definition LG (e : expr) : Prop := Forall (lit_good pl) (lits_e e).
  Definition LGb (l : list stmt) : Prop := Forall (lit_good pl) (lits_b l).
  Definition LGl (l : list expr) : Prop := Forall (lit_good pl) (lits_l l).

  Lemma Pval_mono : forall R R' v v', rel_incl R R' -> Pval R v v' -> Pval R' v v'.
  Proof. intros R R' v v' Hi [H1 H2]. split; [exact (val_rel_mono _ _ _ _ Hi H1)|exact H2]. Qed.

  Lemma Pval_null : forall R, Pval R VNull VNull.
  Proof. intros R. split; [constructor|reflexivity]. Qed.

  Ltac gr :=
    first [ gr_triv
          | apply grows_lift_heap;
            first [apply binop_grows | apply negate_grows | apply alloc_str_grows | apply alloc_float_grows]
          | apply grows_lift_plain | apply grows_index_get | apply grows_index_set
          | apply grows_array | apply grows_builtin ].

  (* two consecutive computations whose relations are stated for different sets of holes / live
     declarations (a declaration: the initialiser sees the new, still unset, variable) *)
  Lemma corrg_bind2 : forall A B A' B' (P : loc_rel -> A -> B -> Prop) (Q : loc_rel -> A' -> B' -> Prop)
    holes1 ds1 holes2 ds2 R (r : res A) (x : hres B) (k : A -> sstate -> res A') (kx : B -> hst -> hres B'),
    (forall a st1, grows st1 (k a st1)) ->
    bounded (rbind r k) -> hnosig x ->
    (bounded r -> corrg K pl P holes1 ds1 R r x) ->
    (forall a b sst1 m1 R1, rel_incl R R1 -> P R1 a b -> RelS holes1 ds1 R1 sst1 m1 ->
       bounded (k a sst1) -> corrg K pl Q holes2 ds2 R1 (k a sst1) (kx b m1)) ->
    corrg K pl Q holes2 ds2 R (rbind r k) (hbind x kx).
  Proof.
    intros A B A' B' P Q holes1 ds1 holes2 ds2 R r x k kx Hg Hb Hns Hr Hk.
    destruct r as [a s1|sg s1|e s1|f s1|]; cbn [rbind] in *; try exact I.
    - destruct (rstate (k a s1)) as [s2|] eqn:Es.
      + assert (bounded (ROk a s1)) as Hb1.
        { unfold bounded. cbn [rstate]. apply (bounded_grows K _ s1 (k a s1) (Hg a s1) Hb). rewrite Es. discriminate. }
        specialize (Hr Hb1). destruct x as [b m'|m'|m'|k' o|f' o|]; cbn [corrg] in Hr; try contradiction.
        destruct Hr as [R1 [H1 [H2 H3]]]. cbn [hbind].
        apply (corrg_weaken K pl _ _ _ _ _ R R1 _ _ H1). apply Hk; assumption.
      + destruct (k a s1); cbn [rstate] in Es; try discriminate Es. exact I.
    - specialize (Hr Hb). destruct sg as [| |rv]; destruct x as [b m'|m'|m'|k' o|f' o|]; cbn [corrg hbind hnosig] in *;
        contradiction.
    - specialize (Hr Hb). destruct x as [b m'|m'|m'|k' o|f' o|]; cbn [corrg hbind] in *; try contradiction; exact Hr.
    - specialize (Hr Hb). destruct x as [b m'|m'|m'|k' o|f' o|]; cbn [corrg hbind] in *; try contradiction; exact Hr.
  Qed.

  Section Fuel.
    Variable f : nat.
    (* the induction hypothesis for expressions at fuel f *)
    Hypothesis IHe : forall lp e c ds sst m holes R, f2he lp e = true -> LG e -> ctx_flat c ds ->
      RelS holes ds R sst m -> holes_lt holes ds -> holes_ok holes ds e ->
      bounded (eval_expr orc f c e sst) ->
      corr holes ds R (eval_expr orc f c e sst) (heval orc pl f (map fst ds) e m).

    Lemma list_agree : forall l c ds sst m holes R, f2hl l = true -> LGl l -> ctx_flat c ds ->
      RelS holes ds R sst m -> holes_lt holes ds -> holes_ok_l holes ds l ->
      bounded (sem_list orc f c l sst) ->
      corrl holes ds R (sem_list orc f c l sst) (heval_list orc pl f (map fst ds) l m).
    Proof.
      induction l as [|x r IH]; intros c ds sst m holes R HF HL Hc HR Hlt Hok Hb.
      - rewrite sl_nil, hl_nil. exists R. split; [apply rel_incl_refl|]. split; [split; constructor|exact HR].
      - rewrite f2hl_cons in HF. apply andb_prop in HF. destruct HF as [HFx HFr].
        unfold LGl in HL. rewrite lits_l_cons in HL.
        assert (holes_ok holes ds x) as Hokx.
        { intros h y cc Hin Hn. pose proof (Hok h y cc Hin Hn) as Hm. rewrite mentions_list_cons in Hm.
          exact (orb_false_l _ _ Hm). }
        assert (holes_ok_l holes ds r) as Hokr.
        { intros h y cc Hin Hn. pose proof (Hok h y cc Hin Hn) as Hm. rewrite mentions_list_cons in Hm.
          exact (orb_false_r' _ _ Hm). }
        rewrite sl_cons, hl_cons. rewrite sl_cons in Hb.
        apply (corrg_bind K pl _ _ _ _ (Pval) (Plist)); [|exact Hb| |].
        + intros a st1. apply grows_rbind; [apply sem_list_grows; exact HFr|]. intros; gr_triv.
        + intros Hb1. apply (IHe false); try assumption. exact (Forall_app_l _ _ _ _ HL).
        + intros a b sst1 m1 R1 Hi [Hab Hlb] HR1 Hb1.
          apply (corrg_bind K pl _ _ _ _ (Plist) (Plist)); [|exact Hb1| |].
          * intros; gr_triv.
          * intros Hb2. apply IH; try assumption. exact (Forall_app_r _ _ _ _ HL).
          * intros vs vs' sst2 m2 R2 Hi2 [Hvs Hvi] HR2 _. cbn [corrl corrg].
            exists R2. split; [apply rel_incl_refl|]. split; [|exact HR2].
            split; [constructor; [exact (val_rel_mono _ _ _ _ Hi2 Hab)|exact Hvs]|apply ints_cons; assumption].
    Qed.
  End Fuel.

  Theorem sem_heval : forall fuel,
    (forall lp e c ds sst m holes R, f2he lp e = true -> LG e -> ctx_flat c ds ->
       RelS holes ds R sst m -> holes_lt holes ds -> holes_ok holes ds e ->
       bounded (eval_expr orc fuel c e sst) ->
       corr holes ds R (eval_expr orc fuel c e sst) (heval orc pl fuel (map fst ds) e m)) /\
    (forall iter cnd body c ds sst m holes R last last', f2he false cnd = true -> f2hb true body = true ->
       LG cnd -> LGb body -> ctx_flat c ds -> RelS holes ds R sst m -> holes_lt holes ds ->
       holes_ok holes ds cnd -> holes_ok_b holes ds body -> Pval R last last' ->
       bounded (eval_while orc fuel iter c cnd body last sst) ->
       corr holes ds R (eval_while orc fuel iter c cnd body last sst)
                       (hwhile orc pl fuel (map fst ds) cnd body last' m)) /\
    (forall lp l c ds sst m holes R last last', f2hb lp l = true -> LGb l -> ctx_flat c ds ->
       RelS holes ds R sst m -> holes_lt holes ds -> holes_ok_b holes ds l -> Pval R last last' ->
       bounded (exec_block orc fuel c l last sst) ->
       corr holes ds R (exec_block orc fuel c l last sst) (hstmts orc pl fuel (map fst ds) l last' m)).
  Proof.
    induction fuel as [|f [IHe [IHw IHs]]].
    - repeat split; intros; exact I.
    - assert (forall lp e c st, f2he lp e = true -> grows st (eval_expr orc f c e st)) as Ge
        by (intros; eapply (proj1 (eval_grows orc f)); eassumption).
      assert (forall lp l c last st, f2hb lp l = true -> grows st (exec_block orc f c l last st)) as Gs
        by (intros; eapply (proj2 (proj2 (eval_grows orc f))); eassumption).
      assert (forall iter cnd body c last st, f2he false cnd = true -> f2hb true body = true ->
                grows st (eval_while orc f iter c cnd body last st)) as Gw
        by (intros; eapply (proj1 (proj2 (eval_grows orc f))); eassumption).
      split; [|split].
      + (* expressions *)
        intros lp e c ds sst m holes R HF HL Hc HR Hlt Hok Hb.
        destruct e as [e1 o e2|o e|z|fl|bb|cnd t alt|s|n ps body|h args|e1 e2|str|vs|bs i|cnd body]; try discriminate HF.
        * (* EInfix *)
          rewrite f2he_infix in HF. apply andb_prop in HF. destruct HF as [HF Hr].
          apply andb_prop in HF. destruct HF as [Hop Hl].
          unfold LG in HL. rewrite lits_infix in HL.
          rewrite ee_infix, he_infix. rewrite ee_infix in Hb.
          assert (holes_ok holes ds e1) as Hok1.
          { intros h y cc Hin Hn. pose proof (Hok h y cc Hin Hn) as Hm. rewrite mentions_infix in Hm.
            exact (orb_false_l _ _ Hm). }
          assert (holes_ok holes ds e2) as Hok2.
          { intros h y cc Hin Hn. pose proof (Hok h y cc Hin Hn) as Hm. rewrite mentions_infix in Hm.
            exact (orb_false_r' _ _ Hm). }
          apply (corrg_bind K pl _ _ _ _ Pval Pval); [|exact Hb| |].
          -- intros a st1. apply grows_rbind; [exact (Ge false e2 c st1 Hr)|]. intros b st2.
             destruct (Sem.method_of o); gr.
          -- intros Hb1. apply (IHe false); try assumption. exact (Forall_app_l _ _ _ _ HL).
          -- intros a a' sst1 m1 R1 Hi1 [Ha Hla] HR1 Hb1.
             apply (corrg_bind K pl _ _ _ _ Pval Pval); [|exact Hb1| |].
             ++ intros b st2. destruct (Sem.method_of o); gr.
             ++ intros Hb2. apply (IHe false); try assumption. exact (Forall_app_r _ _ _ _ HL).
             ++ intros b b' sst2 m2 R2 Hi2 [Hbv Hlb] HR2 Hb2.
                destruct (Sem.method_of o) as [mth|] eqn:Em; [|exact (err_corr K pl _ _ _ _ _ _ HR2)].
                destruct (binop orc mth (st_heap sst2) a b) as [rr| | |] eqn:Eb.
                ** assert (small K (st_heap sst2)) as Hsm.
                   { pose proof (binop_grows orc mth (st_heap sst2) a b) as Hg. rewrite Eb in Hg.
                     destruct rr as [v hh]. cbn [lift_heap nalloc_le snd] in *.
                     unfold bounded in Hb2. cbn [rstate st_heap] in Hb2. unfold small in *. lia. }
                   rewrite <- Eb. apply (corr_lift_h K pl _ _ _ _ _ _ _ HR2).
                   --- apply (binop_rel orc K R2 _ _ (RS_hr _ _ _ _ _ _ _ HR2) Hsm); [exact (val_rel_mono _ _ _ _ Hi2 Ha)|exact Hbv].
                   --- apply binop_post; [|exact (RS_hints _ _ _ _ _ _ _ HR2)].
                       unfold Sem.method_of in Em.
                       destruct (assoc operator_eqb o compile_operator_table) as [opc|]; [|discriminate Em].
                       exact (dispatch_known opc mth (or_introl Em)).
                ** assert (small K (st_heap sst2)) as Hsm by exact Hb2.
                   rewrite <- Eb. apply (corr_lift_h K pl _ _ _ _ _ _ _ HR2).
                   --- apply (binop_rel orc K R2 _ _ (RS_hr _ _ _ _ _ _ _ HR2) Hsm); [exact (val_rel_mono _ _ _ _ Hi2 Ha)|exact Hbv].
                   --- apply binop_post; [|exact (RS_hints _ _ _ _ _ _ _ HR2)].
                       unfold Sem.method_of in Em.
                       destruct (assoc operator_eqb o compile_operator_table) as [opc|]; [|discriminate Em].
                       exact (dispatch_known opc mth (or_introl Em)).
                ** assert (small K (st_heap sst2)) as Hsm by exact Hb2.
                   rewrite <- Eb. apply (corr_lift_h K pl _ _ _ _ _ _ _ HR2).
                   --- apply (binop_rel orc K R2 _ _ (RS_hr _ _ _ _ _ _ _ HR2) Hsm); [exact (val_rel_mono _ _ _ _ Hi2 Ha)|exact Hbv].
                   --- apply binop_post; [|exact (RS_hints _ _ _ _ _ _ _ HR2)].
                       unfold Sem.method_of in Em.
                       destruct (assoc operator_eqb o compile_operator_table) as [opc|]; [|discriminate Em].
                       exact (dispatch_known opc mth (or_introl Em)).
                ** exact I.
        * (* EPrefix *)
          rewrite f2he_prefix in HF. apply andb_prop in HF. destruct HF as [Hop Hr].
          unfold LG in HL. rewrite lits_prefix in HL.
          rewrite ee_prefix, he_prefix. rewrite ee_prefix in Hb.
          apply (corrg_bind K pl _ _ _ _ Pval Pval); [|exact Hb| |].
          -- intros a st1. destruct o; gr.
          -- intros Hb1. apply (IHe false); assumption.
          -- intros a a' sst1 m1 R1 Hi1 [Ha Hla] HR1 Hb1.
             destruct o; try discriminate Hop.
             ++ apply (corr_lift_h K pl _ _ _ _ _ _ _ HR1).
                ** exact (negate_rel K R1 _ _ _ _ (RS_hr _ _ _ _ _ _ _ HR1) Ha).
                ** apply negate_post. exact (RS_hints _ _ _ _ _ _ _ HR1).
             ++ apply (corr_lift_p K pl _ _ _ _ _ _ _ HR1); [exact (lognot_rel R1 a a' Ha)|].
                intros v Hv. destruct a'; try discriminate Hv. inversion Hv. reflexivity.
             ++ apply (corr_lift_h K pl _ _ _ _ _ _ _ HR1).
                ** exact (negate_rel K R1 _ _ _ _ (RS_hr _ _ _ _ _ _ _ HR1) Ha).
                ** apply negate_post. exact (RS_hints _ _ _ _ _ _ _ HR1).
        * (* EInt *)
          rewrite ee_int, he_int. exists R. split; [apply rel_incl_refl|]. split; [|exact HR].
          split; [constructor|]. cbn [f2he] in HF. unfold lit_ok in HF. apply andb_prop in HF. destruct HF as [H0 _].
          cbn [int_lb]. apply Z.leb_le. apply Z.leb_le in H0. pose proof MIN_INT_val. lia.
        * (* EFloat *)
          rewrite ee_float, he_float. apply float_lit_corr; [exact HR|].
          unfold LG in HL. cbn [lits_e] in HL. inversion HL; assumption.
        * (* EBool *)
          rewrite ee_bool, he_bool. exists R. split; [apply rel_incl_refl|]. split; [|exact HR].
          split; [constructor|reflexivity].
        * (* EIf *)
          rewrite f2he_if in HF. apply andb_prop in HF. destruct HF as [HF Ha].
          apply andb_prop in HF. destruct HF as [Hcn Ht].
          unfold LG in HL. rewrite lits_if in HL.
          rewrite ee_if, he_if. rewrite ee_if in Hb.
          assert (holes_ok holes ds cnd) as Hok1.
          { intros h y cc Hin Hn. pose proof (Hok h y cc Hin Hn) as Hm. rewrite mentions_if in Hm.
            exact (orb_false_l _ _ (orb_false_l _ _ Hm)). }
          assert (holes_ok_b holes ds t) as Hok2.
          { intros h y cc Hin Hn. pose proof (Hok h y cc Hin Hn) as Hm. rewrite mentions_if in Hm.
            exact (orb_false_r' _ _ (orb_false_l _ _ Hm)). }
          apply (corrg_bind K pl _ _ _ _ Pval Pval); [|exact Hb| |].
          -- intros b st1. destruct b as [|[|]| | | | |]; try gr_triv.
             ++ exact (Gs lp t _ VNull st1 Ht).
             ++ destruct alt as [bl|]; [exact (Gs lp bl _ VNull st1 Ha)|gr_triv].
          -- intros Hb1. apply (IHe false); try assumption. exact (Forall_app_l _ _ _ _ HL).
          -- intros b b' sst1 m1 R1 Hi1 [Hbv _] HR1 Hb1.
             destruct Hbv as [|[|]|z|l l' Hl|l l' Hl|l l' Hl]; try exact (err_corr K pl _ _ _ _ _ _ HR1).
             ++ exact (IHs lp t (d_push c) ds sst1 m1 holes R1 VNull VNull Ht
                         (Forall_app_l _ _ _ _ (Forall_app_r _ _ _ _ HL)) (ctx_flat_push _ _ Hc) HR1 Hlt Hok2
                         (Pval_null R1) Hb1).
             ++ destruct alt as [bl|].
                ** assert (holes_ok_b holes ds bl) as Hok3.
                   { intros h y cc Hin Hn. pose proof (Hok h y cc Hin Hn) as Hm. rewrite mentions_if in Hm.
                     exact (orb_false_r' _ _ Hm). }
                   exact (IHs lp bl (d_push c) ds sst1 m1 holes R1 VNull VNull Ha
                            (Forall_app_r _ _ _ _ (Forall_app_r _ _ _ _ HL)) (ctx_flat_push _ _ Hc) HR1 Hlt Hok3
                            (Pval_null R1) Hb1).
                ** exists R1. split; [apply rel_incl_refl|]. split; [apply Pval_null|exact HR1].
        * (* EIdent *)
          rewrite ee_ident, he_ident, (d_lookup_flat _ _ _ Hc).
          pose proof (lookup_agree ds s) as HLk.
          destruct (rposition s (map fst ds)) as [i|] eqn:Er.
          -- destruct HLk as [y [cc [Hi Hcc]]]. rewrite Hcc.
             exists R. split; [apply rel_incl_refl|]. split; [|exact HR]. split.
             ++ apply (RS_val _ _ _ _ _ _ _ HR i y cc Hi).
                apply (lookup_not_hole holes ds s i y cc); [exact Hok|exact Er|exact Hi].
             ++ apply ints_nth. exact (RS_gints _ _ _ _ _ _ _ HR).
          -- rewrite HLk. split; [reflexivity|exact (RS_out _ _ _ _ _ _ _ HR)].
        * (* ECall *)
          rewrite f2he_call in HF. apply andb_prop in HF. destruct HF as [Hfn Hargs].
          destruct h as [| | | | | |x| | | | | | |]; try discriminate Hfn. unfold is_builtin_name in Hfn.
          destruct (assoc_text x builtin_names) as [b|] eqn:Eb; [|discriminate Hfn].
          unfold LG in HL. rewrite lits_call in HL.
          rewrite (ee_call_builtin orc f c x b args sst Eb), (he_call orc pl f (map fst ds) x b args m Eb).
          rewrite (ee_call_builtin orc f c x b args sst Eb) in Hb.
          apply (corrg_bind K pl _ _ _ _ Plist Pval); [|exact Hb| |].
          -- intros; gr.
          -- intros Hb1. apply (list_agree f IHe); try assumption.
             ++ exact (Forall_app_l _ _ _ _ HL).
             ++ intros hh y cc Hin Hn. pose proof (Hok hh y cc Hin Hn) as Hm. rewrite mentions_call in Hm.
                exact (orb_false_r' _ _ Hm).
          -- intros xs xs' sst1 m1 R1 Hi1 Hxs HR1 Hb1. apply builtin_corr; assumption.
        * (* EAssign *)
          cbn [f2he] in HF. destruct e1 as [| | | | | |x| | | | | |bs i|]; try discriminate HF.
          -- (* a variable *)
             unfold LG in HL. rewrite lits_assign in HL.
             rewrite ee_assign_ident, he_assign, (d_lookup_flat _ _ _ Hc).
             rewrite ee_assign_ident, (d_lookup_flat _ _ _ Hc) in Hb.
             pose proof (lookup_agree ds x) as HLk.
             destruct (rposition x (map fst ds)) as [i|] eqn:Er.
             ++ destruct HLk as [y [cc [Hi Hcc]]]. rewrite Hcc. rewrite Hcc in Hb.
                assert (holes_ok holes ds e2) as Hok2.
                { intros h y' c' Hin Hn. pose proof (Hok h y' c' Hin Hn) as Hm. rewrite mentions_assign in Hm.
                  exact (orb_false_r' _ _ Hm). }
                apply (corrg_bind K pl _ _ _ _ Pval Pval); [|exact Hb| |].
                ** intros; gr_triv.
                ** intros Hb1. apply (IHe false); assumption.
                ** intros a a' sst1 m1 R1 Hi1 [Ha Hla] HR1 _.
                   exists R1. split; [apply rel_incl_refl|]. split; [split; assumption|].
                   apply (RelS_set K pl holes holes ds R1 sst1 m1 i y cc a a' HR1 Hi Ha Hla). intros j Hj. right. exact Hj.
             ++ rewrite HLk. split; [reflexivity|exact (RS_out _ _ _ _ _ _ _ HR)].
          -- (* an element *)
             apply andb_prop in HF. destruct HF as [HF H3]. apply andb_prop in HF. destruct HF as [H1 H2].
             unfold LG in HL. rewrite lits_assign, lits_index in HL.
             rewrite ee_assign_index, he_assign_index. rewrite ee_assign_index in Hb.
             assert (holes_ok holes ds bs) as Hok1.
             { intros h y cc Hin Hn. pose proof (Hok h y cc Hin Hn) as Hm. rewrite mentions_assign, mentions_index in Hm.
               exact (orb_false_l _ _ (orb_false_l _ _ Hm)). }
             assert (holes_ok holes ds i) as Hok2.
             { intros h y cc Hin Hn. pose proof (Hok h y cc Hin Hn) as Hm. rewrite mentions_assign, mentions_index in Hm.
               exact (orb_false_r' _ _ (orb_false_l _ _ Hm)). }
             assert (holes_ok holes ds e2) as Hok3.
             { intros h y cc Hin Hn. pose proof (Hok h y cc Hin Hn) as Hm. rewrite mentions_assign in Hm.
               exact (orb_false_r' _ _ Hm). }
             apply (corrg_bind K pl _ _ _ _ Pval Pval); [|exact Hb| |].
             ++ intros a st1. apply grows_rbind; [exact (Ge false i c st1 H2)|]. intros ix st2.
                apply grows_rbind; [exact (Ge false e2 c st2 H3)|]. intros; gr.
             ++ intros Hb1. apply (IHe false); try assumption.
                exact (Forall_app_l _ _ _ _ (Forall_app_l _ _ _ _ HL)).
             ++ intros a a' sst1 m1 R1 Hi1 Pa HR1 Hb1.
                apply (corrg_bind K pl _ _ _ _ Pval Pval); [|exact Hb1| |].
                ** intros ix st2. apply grows_rbind; [exact (Ge false e2 c st2 H3)|]. intros; gr.
                ** intros Hb2. apply (IHe false); try assumption.
                   exact (Forall_app_r _ _ _ _ (Forall_app_l _ _ _ _ HL)).
                ** intros ix ix' sst2 m2 R2 Hi2 Pi HR2 Hb2.
                   apply (corrg_bind K pl _ _ _ _ Pval Pval); [|exact Hb2| |].
                   --- intros; gr.
                   --- intros Hb3. apply (IHe false); try assumption. exact (Forall_app_r _ _ _ _ HL).
                   --- intros v v' sst3 m3 R3 Hi3 Pv HR3 _.
                       apply index_set_corr; try assumption.
                       +++ exact (Pval_mono _ _ _ _ (rel_incl_trans _ _ _ Hi2 Hi3) Pa).
                       +++ exact (Pval_mono _ _ _ _ Hi3 Pi).
        * (* EString *)
          rewrite ee_string, he_string. apply str_lit_corr; [exact HR|].
          unfold LG in HL. cbn [lits_e] in HL. inversion HL; assumption.
        * (* EArray *)
          rewrite f2he_array in HF. unfold LG in HL. rewrite lits_array in HL.
          rewrite ee_array, he_array. rewrite ee_array in Hb.
          apply (corrg_bind K pl _ _ _ _ Plist Pval); [|exact Hb| |].
          -- intros; gr.
          -- intros Hb1. apply (list_agree f IHe); assumption.
          -- intros xs xs' sst1 m1 R1 Hi1 Hxs HR1 Hb1. apply array_corr; assumption.
        * (* EIndex *)
          rewrite f2he_index in HF. apply andb_prop in HF. destruct HF as [H1 H2].
          unfold LG in HL. rewrite lits_index in HL.
          rewrite ee_index, he_index. rewrite ee_index in Hb.
          assert (holes_ok holes ds bs) as Hok1.
          { intros h y cc Hin Hn. pose proof (Hok h y cc Hin Hn) as Hm. rewrite mentions_index in Hm.
            exact (orb_false_l _ _ Hm). }
          assert (holes_ok holes ds i) as Hok2.
          { intros h y cc Hin Hn. pose proof (Hok h y cc Hin Hn) as Hm. rewrite mentions_index in Hm.
            exact (orb_false_r' _ _ Hm). }
          apply (corrg_bind K pl _ _ _ _ Pval Pval); [|exact Hb| |].
          -- intros a st1. apply grows_rbind; [exact (Ge false i c st1 H2)|]. intros; gr.
          -- intros Hb1. apply (IHe false); try assumption. exact (Forall_app_l _ _ _ _ HL).
          -- intros a a' sst1 m1 R1 Hi1 Pa HR1 Hb1.
             apply (corrg_bind K pl _ _ _ _ Pval Pval); [|exact Hb1| |].
             ++ intros; gr.
             ++ intros Hb2. apply (IHe false); try assumption. exact (Forall_app_r _ _ _ _ HL).
             ++ intros ix ix' sst2 m2 R2 Hi2 Pi HR2 _.
                apply index_get_corr; try assumption. exact (Pval_mono _ _ _ _ Hi2 Pa).
        * (* EWhile *)
          rewrite f2he_while in HF. apply andb_prop in HF. destruct HF as [Hcn Hbd].
          unfold LG in HL. rewrite lits_while in HL.
          rewrite ee_while, he_while. rewrite ee_while in Hb. apply IHw; try assumption.
          -- exact (Forall_app_l _ _ _ _ HL).
          -- exact (Forall_app_r _ _ _ _ HL).
          -- intros h y cc Hin Hn. pose proof (Hok h y cc Hin Hn) as Hm. rewrite mentions_while in Hm.
             exact (orb_false_l _ _ Hm).
          -- intros h y cc Hin Hn. pose proof (Hok h y cc Hin Hn) as Hm. rewrite mentions_while in Hm.
             exact (orb_false_r' _ _ Hm).
          -- apply Pval_null.
      + (* loops *)
        intros iter cnd body c ds sst m holes R last last' Hcn Hbd HLc HLb Hc HR Hlt Hok1 Hok2 Plast Hb.
        rewrite ew_step, hw_step. rewrite ew_step in Hb.
        apply (corrg_bind K pl _ _ _ _ Pval Pval); [|exact Hb| |].
        * intros b st1. destruct b as [|[|]| | | | |]; try gr_triv.
          pose proof (Gs true body (d_push c) VNull st1 Hbd) as Hbody.
          destruct (exec_block orc f (d_push c) body VNull st1) as [v s2|[| |rv] s2|k s2|x s2|]; try exact Hbody;
            unfold grows in Hbody; cbn [rstate] in Hbody.
          -- apply (grows_same _ st1 s2); [exact Hbody|]. exact (Gw iter cnd body c v s2 Hcn Hbd).
          -- apply (grows_same _ st1 s2); [exact Hbody|]. exact (Gw iter cnd body c VNull s2 Hcn Hbd).
        * intros Hb1. apply (IHe false); assumption.
        * intros b b' sst1 m1 R1 Hi1 [Hbv _] HR1 Hb1.
          destruct Hbv as [|[|]|z|l l' Hl|l l' Hl|l l' Hl]; try exact (err_corr K pl _ _ _ _ _ _ HR1).
          -- (* another iteration *)
             assert (bounded (exec_block orc f (d_push c) body VNull sst1) ->
                     corr holes ds R1 (exec_block orc f (d_push c) body VNull sst1)
                                      (hstmts orc pl f (map fst ds) body VNull m1)) as Hbody.
             { intros Hbb. exact (IHs true body (d_push c) ds sst1 m1 holes R1 VNull VNull Hbd HLb
                                     (ctx_flat_push _ _ Hc) HR1 Hlt Hok2 (Pval_null R1) Hbb). }
             destruct (exec_block orc f (d_push c) body VNull sst1) as [v s2|[| |rv] s2|k s2|x s2|] eqn:Eb.
             ++ destruct (rstate (eval_while orc f iter c cnd body v s2)) as [s3|] eqn:Es;
                  [|destruct (eval_while orc f iter c cnd body v s2); cbn [rstate] in Es; try discriminate Es; exact I].
                assert (bounded (@ROk val v s2)) as Hb2.
                { unfold bounded. cbn [rstate].
                  apply (bounded_grows K _ s2 _ (Gw iter cnd body c v s2 Hcn Hbd) Hb1). rewrite Es. discriminate. }
                specialize (Hbody Hb2).
                destruct (hstmts orc pl f (map fst ds) body VNull m1) as [v' m2|m2|m2|k' o|f' o|]; cbn [corr corrg] in Hbody;
                  try contradiction.
                destruct Hbody as [R2 [Hi2 [Pv HR2]]].
                apply (corrg_weaken K pl _ _ _ _ _ R1 R2 _ _ Hi2). apply IHw; try assumption.
             ++ assert (bounded (@RSig val SigBreak s2)) as Hb2 by exact Hb1.
                specialize (Hbody Hb2).
                destruct (hstmts orc pl f (map fst ds) body VNull m1) as [v' m2|m2|m2|k' o|f' o|]; cbn [corr corrg] in Hbody;
                  try contradiction.
                destruct Hbody as [R2 [Hi2 HR2]]. exists R2. split; [exact Hi2|]. split; [apply Pval_null|exact HR2].
             ++ destruct (rstate (eval_while orc f iter c cnd body VNull s2)) as [s3|] eqn:Es;
                  [|destruct (eval_while orc f iter c cnd body VNull s2); cbn [rstate] in Es; try discriminate Es; exact I].
                assert (bounded (@RSig val SigContinue s2)) as Hb2.
                { unfold bounded. cbn [rstate].
                  apply (bounded_grows K _ s2 _ (Gw iter cnd body c VNull s2 Hcn Hbd) Hb1). rewrite Es. discriminate. }
                specialize (Hbody Hb2).
                destruct (hstmts orc pl f (map fst ds) body VNull m1) as [v' m2|m2|m2|k' o|f' o|]; cbn [corr corrg] in Hbody;
                  try contradiction.
                destruct Hbody as [R2 [Hi2 HR2]].
                apply (corrg_weaken K pl _ _ _ _ _ R1 R2 _ _ Hi2). apply IHw; try assumption. apply Pval_null.
             ++ assert (bounded (@RSig val (SigReturn rv) s2)) as Hb2 by exact Hb1.
                specialize (Hbody Hb2). cbn [corr corrg] in Hbody. contradiction.
             ++ assert (bounded (@RErr val k s2)) as Hb2 by exact Hb1.
                specialize (Hbody Hb2).
                destruct (hstmts orc pl f (map fst ds) body VNull m1) as [v' m2|m2|m2|k' o|f' o|]; cbn [corr corrg] in Hbody;
                  try contradiction. exact Hbody.
             ++ assert (bounded (@RFault val x s2)) as Hb2 by exact Hb1.
                specialize (Hbody Hb2).
                destruct (hstmts orc pl f (map fst ds) body VNull m1) as [v' m2|m2|m2|k' o|f' o|]; cbn [corr corrg] in Hbody;
                  try contradiction. exact Hbody.
             ++ exact I.
          -- (* the condition is false *)
             exists R1. split; [apply rel_incl_refl|]. split; [exact (Pval_mono _ _ _ _ Hi1 Plast)|exact HR1].
      + (* statement lists *)
        intros lp l c ds sst m holes R last last' HF HL Hc HR Hlt Hok Plast Hb. destruct l as [|s r].
        { rewrite eb_nil, hb_nil. exists R. split; [apply rel_incl_refl|]. split; [exact Plast|exact HR]. }
        rewrite f2hb_cons in HF. apply andb_prop in HF. destruct HF as [Hs Hr].
        unfold LGb in HL. rewrite lits_b_cons in HL.
        assert (holes_ok_b holes ds r) as Hokr.
        { intros h y cc Hin Hn. pose proof (Hok h y cc Hin Hn) as Hm. cbn [mentions_b] in Hm.
          exact (orb_false_r' _ _ Hm). }
        destruct s as [x e|e|e|b| |]; try discriminate Hs.
        * (* SLet *)
          cbn [f2hs] in Hs. apply andb_prop in Hs. destruct Hs as [He Hnm]. apply negb_true_iff in Hnm.
          rewrite eb_let, hb_let. rewrite eb_let in Hb. unfold new_cell in *.
          set (cl := st_next sst) in *.
          set (sst1 := mkSt (st_heap sst) (st_cells sst) (Pos.succ cl) (st_funs sst) (st_out sst)) in *.
          set (ds' := ds ++ [(x, cl)]).
          assert (map fst ds ++ [x] = map fst ds') as -> by (unfold ds'; rewrite map_app; reflexivity).
          rewrite map_length.
          pose proof (RelS_declare K pl holes ds R sst m x HR) as HR1. fold cl ds' in HR1.
          change (snd (new_cell sst)) with sst1 in HR1.
          pose proof (ctx_flat_declare c ds x cl Hc) as Hc1. fold ds' in Hc1.
          assert (nth_error ds' (length ds) = Some (x, cl)) as Hnth.
          { unfold ds'. rewrite nth_error_app2, Nat.sub_diag by lia. reflexivity. }
          assert (forall h y cc, In h holes -> nth_error ds' h = Some (y, cc) -> nth_error ds h = Some (y, cc)) as Hold.
          { intros h y cc Hin Hn. unfold ds' in Hn. rewrite nth_error_app1 in Hn by (apply Hlt; exact Hin). exact Hn. }
          assert (holes_lt holes ds') as Hlt'.
          { intros h Hin. unfold ds'. rewrite app_length. specialize (Hlt h Hin). lia. }
          assert (holes_lt (length ds :: holes) ds') as Hlt1.
          { intros h [<-|Hin]; [unfold ds'; rewrite app_length; cbn [length]; lia|apply Hlt'; exact Hin]. }
          assert (holes_ok (length ds :: holes) ds' e) as Hoke.
          { intros h y cc [<-|Hin] Hn.
            - rewrite Hnth in Hn. inversion Hn; subst. exact Hnm.
            - pose proof (Hok h y cc Hin (Hold h y cc Hin Hn)) as Hm. cbn [mentions_b mentions_s] in Hm.
              exact (orb_false_l _ _ Hm). }
          assert (holes_ok_b holes ds' r) as Hokr'.
          { intros h y cc Hin Hn. exact (Hokr h y cc Hin (Hold h y cc Hin Hn)). }
          apply (corrg_prefix K pl _ _ _ holes ds [(x, cl)]). fold ds'.
          apply (corrg_bind2 _ _ _ _ Pval Pval (length ds :: holes) ds' holes ds'); [|exact Hb| | |].
          -- intros v st2. apply (grows_cells _ st2 (Sem.set_cell cl v st2)); [reflexivity|].
             exact (Gs lp r _ VNull _ Hr).
          -- exact (proj1 (heval_nosig orc pl f) e (map fst ds') m He).
          -- intros Hb1. apply (IHe false); try assumption. exact (Forall_app_l _ _ _ _ HL).
          -- intros v v' sst2 m2 R2 Hi2 [Hv Hlv] HR2 Hb2.
             assert (RelS holes ds' R2 (Sem.set_cell cl v sst2) (set_global_h (length ds) v' m2)) as R3.
             { apply (RelS_set K pl (length ds :: holes) holes ds' R2 sst2 m2 (length ds) x cl v v' HR2 Hnth Hv Hlv).
               intros j Hj. destruct (Nat.eq_dec j (length ds)) as [->|Hne]; [left; reflexivity|right].
               intros [E|Hin]; [apply Hne; symmetry; exact E|contradiction]. }
             apply (IHs lp); try assumption; [exact (Forall_app_r _ _ _ _ HL)|apply Pval_null].
        * (* SExpr *)
          cbn [f2hs] in Hs. rewrite eb_expr, hb_expr. rewrite eb_expr in Hb.
          assert (holes_ok holes ds e) as Hoke.
          { intros h y cc Hin Hn. pose proof (Hok h y cc Hin Hn) as Hm. cbn [mentions_b mentions_s] in Hm.
            exact (orb_false_l _ _ Hm). }
          assert (forall st1 : sstate, match e with
                  | EFunction (ch :: name) _ _ => d_declare c (ch :: name) (Pos.pred (st_next st1))
                  | _ => c
                  end = c) as Ec.
          { intros st1. destruct e; try discriminate Hs; reflexivity. }
          apply (corrg_bind K pl _ _ _ _ Pval Pval); [|exact Hb| |].
          -- intros v st1. rewrite Ec. exact (Gs lp r c v st1 Hr).
          -- intros Hb1. apply (IHe lp); try assumption. exact (Forall_app_l _ _ _ _ HL).
          -- intros v v' sst1 m1 R1 Hi1 Pv HR1 Hb1. rewrite Ec. rewrite Ec in Hb1.
             apply (IHs lp); try assumption. exact (Forall_app_r _ _ _ _ HL).
        * (* SBlock *)
          rewrite f2hs_block in Hs. rewrite eb_block, hb_block. rewrite eb_block in Hb.
          rewrite lits_s_block in HL.
          assert (holes_ok_b holes ds b) as Hokb.
          { intros h y cc Hin Hn. pose proof (Hok h y cc Hin Hn) as Hm. cbn [mentions_b] in Hm.
            rewrite mentions_block in Hm. exact (orb_false_l _ _ Hm). }
          apply (corrg_bind K pl _ _ _ _ Pval Pval); [|exact Hb| |].
          -- intros v st1. exact (Gs lp r c v st1 Hr).
          -- intros Hb1. exact (IHs lp b (d_push c) ds sst m holes R VNull VNull Hs (Forall_app_l _ _ _ _ HL)
                                   (ctx_flat_push _ _ Hc) HR Hlt Hokb (Pval_null R) Hb1).
          -- intros v v' sst1 m1 R1 Hi1 Pv HR1 Hb1.
             apply (IHs lp); try assumption. exact (Forall_app_r _ _ _ _ HL).
        * rewrite eb_break, hb_break. exists R. split; [apply rel_incl_refl|exact HR].
        * rewrite eb_continue, hb_continue. exists R. split; [apply rel_incl_refl|exact HR].
  Qed.
End Agree.

Print Assumptions sem_heval.
