(* CompileCorrectA.v - compiler correctness for the fragment F1 (property C01), part A:
   the code generator and the machine.

   An intermediate evaluator `peval` / `pexec` (names resolved through the compiler's own symbol
   table, variables held in a vector of global slots, heap and collector threaded the way the
   machine threads them) is simulated by the machine running the compiled code:
     - the emitted bytes decode to the right instructions at the right offsets,
     - constants are found at the index emitted,
     - operands are on the stack in the right order,
     - operator -> opcode -> method agrees with Sem.method_of.
   Part B (CompileCorrectB.v) relates `peval` / `pexec` to the definitional evaluator Sem.v. *)
From Coq Require Import ZArith Lia Bool List String.
From NL.Model Require Import VM.
From NL.Spec Require Import Sem Fragment ArithSpec.
From NL.Proofs Require Import WordProofs OpsProofs.
Open Scope Z_scope.

(** * Lists *)

Lemma zlength_app : forall A (a b : list A), zlength (a ++ b) = zlength a + zlength b.
Proof. intros. unfold zlength. rewrite app_length. lia. Qed.

Lemma zlength_nonneg : forall A (a : list A), 0 <= zlength a.
Proof. intros. unfold zlength. lia. Qed.

Lemma zlength_cons : forall A (x : A) l, zlength (x :: l) = 1 + zlength l.
Proof. intros. unfold zlength. cbn [length]. lia. Qed.

Lemma nth_error_app_at : forall A (pre ce post : list A) i b,
  nth_error ce i = Some b -> nth_error (pre ++ ce ++ post) (length pre + i) = Some b.
Proof.
  intros A pre ce post i b H.
  rewrite nth_error_app2 by lia.
  replace (length pre + i - length pre)%nat with i by lia.
  rewrite nth_error_app1; [exact H|]. apply nth_error_Some. rewrite H. discriminate.
Qed.

(** * The outcome monad *)

Lemma bind_ok : forall A B (e : outcome A) (k : A -> outcome B) r,
  bind e k = Ok r -> exists a, e = Ok a /\ k a = Ok r.
Proof. intros A B e k r H. destruct e; try discriminate H. eexists; split; [reflexivity|exact H]. Qed.

(** * Running the machine *)

Section Machine.
  Variable orc : oracle.
  Variable prog : program.

  (* n iterations of the dispatch loop, none of which halts *)
  Fixpoint steps (n : nat) (s : vm) : outcome vm :=
    match n with
    | O => Ok s
    | S n' =>
        match step orc prog s with
        | Ok (Continue s1) => steps n' s1
        | Ok (Halted _ _) => Fault FUnwrap
        | Err k => Err k
        | Fault f => Fault f
        | OutOfFuel => OutOfFuel
        end
    end.

  Definition reaches (s s' : vm) : Prop := exists n, steps n s = Ok s'.

  (* after finitely many instructions the machine is in a state whose next instruction does not
     complete normally: it answers x (an error, a fault); `out` is what has been printed by then *)
  Definition stops (s : vm) (x : outcome stepres) (out : text) : Prop :=
    exists n s1, steps n s = Ok s1 /\ step orc prog s1 = x /\ v_out s1 = out.

  Lemma steps_app : forall n m s s1, steps n s = Ok s1 -> steps (n + m) s = steps m s1.
  Proof.
    induction n as [|n IH]; intros m s s1 H; cbn [steps Nat.add] in *.
    - inversion H; reflexivity.
    - destruct (step orc prog s) as [[s2|v s2]| | |]; try discriminate H. apply IH; exact H.
  Qed.

  Lemma reaches_refl : forall s, reaches s s.
  Proof. intros s. exists O. reflexivity. Qed.

  Lemma reaches_trans : forall s1 s2 s3, reaches s1 s2 -> reaches s2 s3 -> reaches s1 s3.
  Proof.
    intros s1 s2 s3 [n Hn] [m Hm]. exists (n + m)%nat. rewrite (steps_app n m s1 s2 Hn). exact Hm.
  Qed.

  Lemma reaches_step : forall s s1, step orc prog s = Ok (Continue s1) -> reaches s s1.
  Proof. intros s s1 H. exists 1%nat. cbn [steps]. rewrite H. reflexivity. Qed.

  Lemma reaches_stops : forall s1 s2 x out, reaches s1 s2 -> stops s2 x out -> stops s1 x out.
  Proof.
    intros s1 s2 x out [n Hn] [m [s3 [Hm [Hx Ho]]]]. exists (n + m)%nat, s3.
    rewrite (steps_app n m s1 s2 Hn). auto.
  Qed.

  Lemma stops_now : forall s x, step orc prog s = x -> stops s x (v_out s).
  Proof. intros s x H. exists O, s. cbn [steps]. auto. Qed.

  (* the link with run_loop *)
  Lemma run_loop_steps : forall n s s1 b, steps n s = Ok s1 ->
    exists c, run_loop orc prog (n + b) s = (let '(r, sf, l) := run_loop orc prog b s1 in (r, sf, (l + c)%nat))
              /\ c = O.
  Proof.
    induction n as [|n IH]; intros s s1 b H; cbn [steps Nat.add run_loop] in *.
    - inversion H; subst. exists O. split; [|reflexivity].
      destruct (run_loop orc prog b s1) as [[r sf] l]. rewrite Nat.add_0_r. reflexivity.
    - destruct (step orc prog s) as [[s2|v s2]| | |]; try discriminate H. apply IH; exact H.
  Qed.

  Lemma run_loop_reach : forall n s s1 b, steps n s = Ok s1 ->
    run_loop orc prog (n + b) s = run_loop orc prog b s1.
  Proof.
    intros n s s1 b H. destruct (run_loop_steps n s s1 b H) as [c [E Hc]]. subst c.
    rewrite E. destruct (run_loop orc prog b s1) as [[r sf] l]. rewrite Nat.add_0_r. reflexivity.
  Qed.
End Machine.

(** * Code at an offset *)

Definition code_at (prog : program) (off : Z) (ce : list Z) : Prop :=
  exists pre post, p_code prog = pre ++ ce ++ post /\ zlength pre = off.

Lemma code_at_byte : forall prog off ce i b, code_at prog off ce ->
  nth_error ce i = Some b -> byte_at prog (off + Z.of_nat i) = Some b.
Proof.
  intros prog off ce i b [pre [post [Hc Hl]]] Hb. unfold byte_at.
  assert (0 <= off) as Hoff by (subst off; apply zlength_nonneg).
  destruct (off + Z.of_nat i <? 0) eqn:E; [apply Z.ltb_lt in E; lia|].
  rewrite Hc. subst off. unfold zlength.
  replace (Z.to_nat (Z.of_nat (length pre) + Z.of_nat i)) with (length pre + i)%nat by lia.
  apply nth_error_app_at; exact Hb.
Qed.

Lemma code_at_app : forall prog off c1 c2, code_at prog off (c1 ++ c2) ->
  code_at prog off c1 /\ code_at prog (off + zlength c1) c2.
Proof.
  intros prog off c1 c2 [pre [post [Hc Hl]]]. split.
  - exists pre, (c2 ++ post). rewrite Hc, <- app_assoc. auto.
  - exists (pre ++ c1), post. rewrite Hc, zlength_app, Hl, <- !app_assoc. auto.
Qed.

Lemma code_at_0 : forall prog off b rest, code_at prog off (b :: rest) -> byte_at prog off = Some b.
Proof.
  intros prog off b rest H. rewrite <- (Z.add_0_r off). apply (code_at_byte prog off (b :: rest) O b H).
  reflexivity.
Qed.
Lemma code_at_1 : forall prog off a b rest, code_at prog off (a :: b :: rest) -> byte_at prog (off + 1) = Some b.
Proof. intros prog off a b rest H. apply (code_at_byte prog off (a :: b :: rest) 1%nat b H). reflexivity. Qed.
Lemma code_at_2 : forall prog off a b c rest, code_at prog off (a :: b :: c :: rest) -> byte_at prog (off + 2) = Some c.
Proof. intros prog off a b c rest H. apply (code_at_byte prog off (a :: b :: c :: rest) 2%nat c H). reflexivity. Qed.

(** * Bytes *)

Lemma opcode_roundtrip : forall o, opcode_of_byte (byte_of_opcode o) = Some o.
Proof. destruct o; reflexivity. Qed.

Lemma u16_roundtrip : forall v, 0 <= v < 65536 -> v mod 256 + 256 * ((v / 256) mod 256) = v.
Proof.
  intros v Hv. rewrite (Z.mod_small (v / 256) 256).
  - pose proof (Z.div_mod v 256 ltac:(lia)). lia.
  - split; [apply Z.div_pos; lia|apply Z.div_lt_upper_bound; lia].
Qed.

Lemma operand16_ok : forall v idx, 0 <= v -> operand 16 v = Ok idx -> idx = v /\ 0 <= v < 65536.
Proof.
  intros v idx Hv H. unfold operand in H. change (2 ^ 16) with 65536 in H.
  destruct (v <? 65536) eqn:E; [|discriminate H]. apply Z.ltb_lt in E. inversion H. lia.
Qed.
