(* CompileCorrectA.v - compiler correctness for the fragment F1 (property C01), part A:
   the code generator and the machine.

   An intermediate evaluator `peval` / `pexec` (names resolved through the compiler's own symbol
   table, variables held in a vector of global slots, heap and collector threaded the way the
   machine threads them) is simulated by the machine running the compiled code:
     - the emitted bytes decode to the right instructions at the right offsets,
     - constants are found at the index emitted,
     - operands are on the stack in the right order,
     - operator -> opcode -> method agrees with Sem.method_of.
   Part B (CompileCorrectB.v) relates `peval` / `pexec` to the definitional evaluator Sem.v. *)
From Coq Require Import ZArith Lia Bool List String.
From NL.Model Require Import VM.
From NL.Spec Require Import Sem Fragment ArithSpec.
From NL.Proofs Require Import WordProofs OpsProofs.
Open Scope Z_scope.

(** * Lists *)

Lemma zlength_app : forall A (a b : list A), zlength (a ++ b) = zlength a + zlength b.
Proof. intros. unfold zlength. rewrite app_length. lia. Qed.

Lemma zlength_nonneg : forall A (a : list A), 0 <= zlength a.
Proof. intros. unfold zlength. lia. Qed.

Lemma zlength_cons : forall A (x : A) l, zlength (x :: l) = 1 + zlength l.
Proof. intros. unfold zlength. cbn [length]. lia. Qed.

Lemma nth_error_app_at : forall A (pre ce post : list A) i b,
  nth_error ce i = Some b -> nth_error (pre ++ ce ++ post) (length pre + i) = Some b.
Proof.
  intros A pre ce post i b H.
  rewrite nth_error_app2 by lia.
  replace (length pre + i - length pre)%nat with i by lia.
  rewrite nth_error_app1; [exact H|]. apply nth_error_Some. rewrite H. discriminate.
Qed.

(** * The outcome monad *)

Lemma bind_ok : forall A B (e : outcome A) (k : A -> outcome B) r,
  bind e k = Ok r -> exists a, e = Ok a /\ k a = Ok r.
Proof. intros A B e k r H. destruct e; try discriminate H. eexists; split; [reflexivity|exact H]. Qed.

(** * Running the machine *)

Section Machine.
  Variable orc : oracle.
  Variable prog : program.

  (* n iterations of the dispatch loop, none of which halts *)
  Fixpoint steps (n : nat) (s : vm) : outcome vm :=
    match n with
    | O => Ok s
    | S n' =>
        match step orc prog s with
        | Ok (Continue s1) => steps n' s1
        | Ok (Halted _ _) => Fault FUnwrap
        | Err k => Err k
        | Fault f => Fault f
        | OutOfFuel => OutOfFuel
        end
    end.

  Definition reaches (s s' : vm) : Prop := exists n, steps n s = Ok s'.

  (* after finitely many instructions the machine is in a state whose next instruction does not
     complete normally: it answers x (an error, a fault); `out` is what has been printed by then *)
  Definition stops (s : vm) (x : outcome stepres) (out : text) : Prop :=
    exists n s1, steps n s = Ok s1 /\ step orc prog s1 = x /\ v_out s1 = out.

  Lemma steps_app : forall n m s s1, steps n s = Ok s1 -> steps (n + m) s = steps m s1.
  Proof.
    induction n as [|n IH]; intros m s s1 H; cbn [steps Nat.add] in *.
    - inversion H; reflexivity.
    - destruct (step orc prog s) as [[s2|v s2]| | |]; try discriminate H. apply IH; exact H.
  Qed.

  Lemma reaches_refl : forall s, reaches s s.
  Proof. intros s. exists O. reflexivity. Qed.

  Lemma reaches_trans : forall s1 s2 s3, reaches s1 s2 -> reaches s2 s3 -> reaches s1 s3.
  Proof.
    intros s1 s2 s3 [n Hn] [m Hm]. exists (n + m)%nat. rewrite (steps_app n m s1 s2 Hn). exact Hm.
  Qed.

  Lemma reaches_step : forall s s1, step orc prog s = Ok (Continue s1) -> reaches s s1.
  Proof. intros s s1 H. exists 1%nat. cbn [steps]. rewrite H. reflexivity. Qed.

  Lemma reaches_stops : forall s1 s2 x out, reaches s1 s2 -> stops s2 x out -> stops s1 x out.
  Proof.
    intros s1 s2 x out [n Hn] [m [s3 [Hm [Hx Ho]]]]. exists (n + m)%nat, s3.
    rewrite (steps_app n m s1 s2 Hn). auto.
  Qed.

  Lemma stops_now : forall s x, step orc prog s = x -> stops s x (v_out s).
  Proof. intros s x H. exists O, s. cbn [steps]. auto. Qed.

  (* the link with run_loop *)
  Lemma run_loop_reach : forall n s s1 b, steps n s = Ok s1 ->
    run_loop orc prog (n + b) s = run_loop orc prog b s1.
  Proof.
    induction n as [|n IH]; intros s s1 b H; cbn [steps Nat.add run_loop] in *.
    - inversion H; subst. reflexivity.
    - destruct (step orc prog s) as [[s2|v s2]| | |]; try discriminate H. apply IH; exact H.
  Qed.
End Machine.

(** * Code at an offset *)

Definition code_at (prog : program) (off : Z) (ce : list Z) : Prop :=
  exists pre post, p_code prog = pre ++ ce ++ post /\ zlength pre = off.

Lemma code_at_byte : forall prog off ce i b, code_at prog off ce ->
  nth_error ce i = Some b -> byte_at prog (off + Z.of_nat i) = Some b.
Proof.
  intros prog off ce i b [pre [post [Hc Hl]]] Hb. unfold byte_at.
  assert (0 <= off) as Hoff by (subst off; apply zlength_nonneg).
  destruct (off + Z.of_nat i <? 0) eqn:E; [apply Z.ltb_lt in E; lia|].
  rewrite Hc. subst off. unfold zlength.
  replace (Z.to_nat (Z.of_nat (length pre) + Z.of_nat i)) with (length pre + i)%nat by lia.
  apply nth_error_app_at; exact Hb.
Qed.

Lemma code_at_app : forall prog off c1 c2, code_at prog off (c1 ++ c2) ->
  code_at prog off c1 /\ code_at prog (off + zlength c1) c2.
Proof.
  intros prog off c1 c2 [pre [post [Hc Hl]]]. split.
  - exists pre, (c2 ++ post). rewrite Hc, <- app_assoc. auto.
  - exists (pre ++ c1), post. rewrite Hc, zlength_app, Hl, <- !app_assoc. auto.
Qed.

Lemma code_at_0 : forall prog off b rest, code_at prog off (b :: rest) -> byte_at prog off = Some b.
Proof.
  intros prog off b rest H. rewrite <- (Z.add_0_r off). apply (code_at_byte prog off (b :: rest) O b H).
  reflexivity.
Qed.
Lemma code_at_1 : forall prog off a b rest, code_at prog off (a :: b :: rest) -> byte_at prog (off + 1) = Some b.
Proof. intros prog off a b rest H. apply (code_at_byte prog off (a :: b :: rest) 1%nat b H). reflexivity. Qed.
Lemma code_at_2 : forall prog off a b c rest, code_at prog off (a :: b :: c :: rest) -> byte_at prog (off + 2) = Some c.
Proof. intros prog off a b c rest H. apply (code_at_byte prog off (a :: b :: c :: rest) 2%nat c H). reflexivity. Qed.

(** * Bytes *)

Lemma opcode_roundtrip : forall o, opcode_of_byte (byte_of_opcode o) = Some o.
Proof. destruct o; reflexivity. Qed.

Lemma u16_roundtrip : forall v, 0 <= v < 65536 -> v mod 256 + 256 * ((v / 256) mod 256) = v.
Proof.
  intros v Hv. rewrite (Z.mod_small (v / 256) 256).
  - pose proof (Z.div_mod v 256 ltac:(lia)). lia.
  - split; [apply Z.div_pos; lia|apply Z.div_lt_upper_bound; lia].
Qed.

Lemma operand16_ok : forall v idx, 0 <= v -> operand 16 v = Ok idx -> idx = v /\ 0 <= v < 65536.
Proof.
  intros v idx Hv H. unfold operand in H. change (2 ^ 16) with 65536 in H.
  destruct (v <? 65536) eqn:E; [|discriminate H]. apply Z.ltb_lt in E. inversion H. lia.
Qed.

(** * The part of the machine state an expression can change *)

Record mst : Type := mkM { m_heap : heap; m_gc : gc; m_gl : list val }.

Definition mst_of (s : vm) : mst := mkM (v_heap s) (v_gc s) (v_globals s).

Definition setm (s : vm) (stk : list val) (n ip : Z) (m : mst) : vm :=
  mkVM stk n (m_gl m) (v_frames s) ip (v_bp s) (v_final s) (m_heap m) (m_gc m) (v_out s).

(* VM.with_new on the three components *)
Definition with_new_m (m : mst) (r : val * heap) : mst :=
  let '(v, h') := r in
  mkM h' (if Pos.eqb (next_loc h') (next_loc (m_heap m)) then m_gc m else trace (m_gc m) v) (m_gl m).

(* OSetGlobal: the vector grows on demand *)
Definition set_global (n : nat) (v : val) (gl : list val) : list val :=
  replace_nth n v (if Nat.ltb n (length gl) then gl else gl ++ repeat_val VNull (S n - length gl)).

Definition set_global_m (n : nat) (v : val) (m : mst) : mst :=
  mkM (m_heap m) (m_gc m) (set_global n v (m_gl m)).

Lemma mst_eta : forall m, mkM (m_heap m) (m_gc m) (m_gl m) = m.
Proof. destruct m; reflexivity. Qed.

Lemma setm_eq : forall s stk n ip m n' ip' m', n = n' -> ip = ip' -> m = m' ->
  setm s stk n ip m = setm s stk n' ip' m'.
Proof. intros; subst; reflexivity. Qed.

(** * One instruction *)

Ltac vmcbn :=
  cbn [v_stack v_slen v_globals v_frames v_ip v_bp v_final v_heap v_gc v_out
       upd_stack upd_ip upd_heap upd_globals upd_final upd_out push pop bind fst snd
       m_heap m_gc m_gl mst_of setm].

Section Steps.
  Variable orc : oracle.
  Variable prog : program.

  Lemma read_u16_op : forall s op v rest, code_at prog (v_ip s) (op :: v mod 256 :: (v / 256) mod 256 :: rest) ->
    0 <= v < 65536 ->
    read_u16 prog (upd_ip s (v_ip s + 1)) = Ok (v, upd_ip s (v_ip s + 3)).
  Proof.
    intros s op v rest Hc Hv. unfold read_u16. vmcbn.
    rewrite (code_at_1 _ _ _ _ _ Hc).
    replace (v_ip s + 1 + 1) with (v_ip s + 2) by lia. rewrite (code_at_2 _ _ _ _ _ _ Hc).
    rewrite (u16_roundtrip v Hv). replace (v_ip s + 1 + 2) with (v_ip s + 3) by lia. reflexivity.
  Qed.

  Ltac decode Hc op :=
    unfold step; rewrite (code_at_0 _ _ _ _ Hc); rewrite (opcode_roundtrip op); cbv beta iota zeta.

  Lemma step_const : forall s v z rest,
    code_at prog (v_ip s) (byte_of_opcode OConst :: v mod 256 :: (v / 256) mod 256 :: rest) ->
    0 <= v < 65536 -> nth_error (p_consts prog) (Z.to_nat v) = Some (VInt z) ->
    step orc prog s = Ok (Continue (setm s (VInt z :: v_stack s) (v_slen s + 1) (v_ip s + 3) (mst_of s))).
  Proof.
    intros s v z rest Hc Hv Hk. decode Hc OConst.
    rewrite (read_u16_op s _ v rest Hc Hv). cbn [bind]. unfold get_const. rewrite Hk. cbn [bind].
    reflexivity.
  Qed.

  Lemma step_bool : forall s (b : bool) rest,
    code_at prog (v_ip s) (byte_of_opcode (if b then OTrue else OFalse) :: rest) ->
    step orc prog s = Ok (Continue (setm s (VBool b :: v_stack s) (v_slen s + 1) (v_ip s + 1) (mst_of s))).
  Proof.
    intros s b rest Hc. destruct b.
    - decode Hc OTrue. reflexivity.
    - decode Hc OFalse. reflexivity.
  Qed.

  Lemma step_get_global : forall s v rest,
    code_at prog (v_ip s) (byte_of_opcode OGetGlobal :: v mod 256 :: (v / 256) mod 256 :: rest) ->
    0 <= v < 65536 ->
    step orc prog s = Ok (Continue (setm s (nth (Z.to_nat v) (v_globals s) VNull :: v_stack s)
                                         (v_slen s + 1) (v_ip s + 3) (mst_of s))).
  Proof.
    intros s v rest Hc Hv. decode Hc OGetGlobal.
    rewrite (read_u16_op s _ v rest Hc Hv). reflexivity.
  Qed.

  Lemma step_set_global : forall s v x stk rest,
    code_at prog (v_ip s) (byte_of_opcode OSetGlobal :: v mod 256 :: (v / 256) mod 256 :: rest) ->
    0 <= v < 65536 -> v_stack s = x :: stk ->
    step orc prog s = Ok (Continue (setm s stk (v_slen s - 1) (v_ip s + 3)
                                         (set_global_m (Z.to_nat v) x (mst_of s)))).
  Proof.
    intros s v x stk rest Hc Hv Hs. decode Hc OSetGlobal.
    rewrite (read_u16_op s _ v rest Hc Hv). cbn [bind]. unfold pop. vmcbn. rewrite Hs. reflexivity.
  Qed.

  Lemma step_pop : forall s x stk rest,
    code_at prog (v_ip s) (byte_of_opcode OPop :: rest) -> v_stack s = x :: stk ->
    step orc prog s =
    Ok (Continue (mkVM stk (v_slen s - 1) (v_globals s) (v_frames s) (v_ip s + 1) (v_bp s) x
                       (v_heap s) (v_gc s) (v_out s))).
  Proof.
    intros s x stk rest Hc Hs. decode Hc OPop. unfold pop. vmcbn. rewrite Hs. reflexivity.
  Qed.

  Lemma step_not : forall s x stk rest,
    code_at prog (v_ip s) (byte_of_opcode ONot :: rest) -> v_stack s = x :: stk ->
    step orc prog s =
    match lognot x with
    | Ok r => Ok (Continue (setm s (r :: stk) (v_slen s - 1 + 1) (v_ip s + 1) (mst_of s)))
    | Err k => Err k | Fault f => Fault f | OutOfFuel => OutOfFuel
    end.
  Proof.
    intros s x stk rest Hc Hs. decode Hc ONot. unfold pop. vmcbn. rewrite Hs. vmcbn.
    destruct (lognot x); reflexivity.
  Qed.

  Lemma with_new_setm : forall s stk n ip r,
    push (fst r) (with_new (upd_stack (upd_ip s ip) stk n) r)
    = setm s (fst r :: stk) (n + 1) ip (with_new_m (mst_of s) r).
  Proof.
    intros s stk n ip [v h']. unfold with_new, with_new_m, push, upd_stack, upd_ip, upd_heap, setm, mst_of.
    cbn [v_stack v_slen v_globals v_frames v_ip v_bp v_final v_heap v_gc v_out m_heap m_gc m_gl fst].
    destruct (Pos.eqb (next_loc h') (next_loc (v_heap s))); reflexivity.
  Qed.

  Lemma upd_stack_twice : forall s a n b k, upd_stack (upd_stack s a n) b k = upd_stack s b k.
  Proof. reflexivity. Qed.

  Lemma step_negate : forall s x stk rest,
    code_at prog (v_ip s) (byte_of_opcode ONegate :: rest) -> v_stack s = x :: stk ->
    step orc prog s =
    match negate (v_heap s) x with
    | Ok r => Ok (Continue (setm s (fst r :: stk) (v_slen s - 1 + 1) (v_ip s + 1) (with_new_m (mst_of s) r)))
    | Err k => Err k | Fault f => Fault f | OutOfFuel => OutOfFuel
    end.
  Proof.
    intros s x stk rest Hc Hs. decode Hc ONegate. unfold pop. vmcbn. rewrite Hs. vmcbn.
    destruct (negate (v_heap s) x) as [r| | |]; try reflexivity. vmcbn.
    rewrite with_new_setm. reflexivity.
  Qed.

  Lemma step_binary : forall s opc m a b stk rest,
    code_at prog (v_ip s) (byte_of_opcode opc :: rest) ->
    assoc opcode_eqb opc binary_dispatch = Some m -> v_stack s = b :: a :: stk ->
    step orc prog s =
    match binop orc m (v_heap s) a b with
    | Ok r => Ok (Continue (setm s (fst r :: stk) (v_slen s - 1 - 1 + 1) (v_ip s + 1) (with_new_m (mst_of s) r)))
    | Err k => Err k | Fault f => Fault f | OutOfFuel => OutOfFuel
    end.
  Proof.
    intros s opc m a b stk rest Hc Hm Hs. pose proof Hm as Hm2.
    unfold step; rewrite (code_at_0 _ _ _ _ Hc); rewrite (opcode_roundtrip opc).
    destruct opc; cbv in Hm2; try discriminate Hm2; clear Hm2;
      cbv beta iota zeta; rewrite Hm; unfold binary, pop; vmcbn; rewrite Hs; vmcbn;
      (destruct (binop orc m (v_heap s) a b) as [r| | |]; try reflexivity; vmcbn;
       rewrite upd_stack_twice, with_new_setm; reflexivity).
  Qed.

  Lemma step_halt : forall s rest,
    code_at prog (v_ip s) (byte_of_opcode OHalt :: rest) -> scalar (v_final s) = true ->
    exists s', step orc prog s = Ok (Halted (v_final s) s') /\ v_out s' = v_out s.
  Proof.
    intros s rest Hc Hf. decode Hc OHalt. vmcbn.
    assert (forall g, untrace (v_heap s) g (v_final s) = Ok g) as Hu.
    { intros g. unfold untrace. cbn [untrace_fuel].
      assert (forall l, position_of (v_final s) l = None) as Hp.
      { induction l as [|x l IH]; cbn [position_of]; [reflexivity|].
        unfold same_box. destruct (v_final s); try discriminate Hf;
          (destruct (val_loc x); cbn [val_loc]; rewrite IH; reflexivity). }
      rewrite Hp. reflexivity. }
    rewrite Hu. cbn [bind]. eexists. split; [reflexivity|]. reflexivity.
  Qed.
End Steps.

(** * The constant pool *)

Definition is_kint (k : const) : Prop := exists z, k = KInt z.

Lemma const_position_kint : forall z l pos,
  const_position (KInt z) l = Some pos -> nth_error l pos = Some (KInt z).
Proof.
  intros z l. induction l as [|c l IH]; intros pos H; cbn [const_position] in H; [discriminate|].
  destruct (const_eqb c (KInt z)) eqn:E.
  - inversion H; subst. destruct c; try discriminate E. cbn [const_eqb] in E.
    apply Z.eqb_eq in E. subst. reflexivity.
  - destruct (const_position (KInt z) l) as [p|]; [|discriminate H]. cbn [option_map] in H.
    inversion H; subst. cbn [nth_error]. apply IH; reflexivity.
Qed.

Lemma add_constant_kint : forall z st st1 r, add_constant (KInt z) st = (st1, r) ->
  c_symbols st1 = c_symbols st /\ c_code st1 = c_code st /\
  exists kx, c_constants st1 = c_constants st ++ kx /\ Forall is_kint kx /\
  forall idx, r = Ok idx -> 0 <= idx < 65536 /\ nth_error (c_constants st1) (Z.to_nat idx) = Some (KInt z).
Proof.
  intros z st st1 r H. unfold add_constant in H.
  destruct (const_position (KInt z) (c_constants st)) as [pos|] eqn:E; inversion H; subst; clear H;
    cbn [c_symbols c_code c_constants]; (split; [reflexivity|split; [reflexivity|]]).
  - exists []. rewrite app_nil_r. split; [reflexivity|]. split; [constructor|].
    intros idx Hi. apply operand16_ok in Hi; [|lia]. destruct Hi as [-> Hr]. split; [exact Hr|].
    rewrite Nat2Z.id. apply const_position_kint; exact E.
  - exists [KInt z]. split; [reflexivity|]. split; [repeat constructor; exists z; reflexivity|].
    intros idx Hi. apply operand16_ok in Hi; [|apply zlength_nonneg]. destruct Hi as [-> Hr].
    split; [exact Hr|]. unfold zlength. rewrite Nat2Z.id, nth_error_app2 by lia.
    rewrite Nat.sub_diag. reflexivity.
Qed.

Lemma emit_const_kint : forall z st st', emit_const (KInt z) st = Ok st' ->
  c_symbols st' = c_symbols st /\
  exists idx kx, c_code st' = c_code st ++ [byte_of_opcode OConst; idx mod 256; (idx / 256) mod 256] /\
    c_constants st' = c_constants st ++ kx /\ Forall is_kint kx /\
    0 <= idx < 65536 /\ nth_error (c_constants st') (Z.to_nat idx) = Some (KInt z).
Proof.
  intros z st st' H. unfold emit_const in H.
  destruct (add_constant (KInt z) st) as [st1 r] eqn:E.
  destruct (add_constant_kint z st st1 r E) as [Hs [Hc [kx [Hk [Hf Hi]]]]].
  destruct r as [idx| | |]; try discriminate H. cbn [bind] in H. inversion H; subst; clear H.
  cbn [emit_u16 emit_opcode c_symbols c_code c_constants]. split; [exact Hs|].
  exists idx, kx. destruct (Hi idx eq_refl) as [Hr Hn].
  rewrite Hc, <- app_assoc. cbn [app]. auto.
Qed.

Lemma emit_sym_spec : forall op sy st st', emit_sym op sy st = Ok st' ->
  c_symbols st' = c_symbols st /\ c_constants st' = c_constants st /\
  0 <= Z.of_nat (s_index sy) < 65536 /\
  c_code st' = c_code st ++ [byte_of_opcode op; Z.of_nat (s_index sy) mod 256;
                             (Z.of_nat (s_index sy) / 256) mod 256].
Proof.
  intros op sy st st' H. unfold emit_sym in H.
  destruct (operand 16 (Z.of_nat (s_index sy))) as [idx| | |] eqn:E; try discriminate H.
  apply operand16_ok in E; [|lia]. destruct E as [-> Hr]. cbn [bind] in H. inversion H; subst; clear H.
  cbn [emit_u16 emit_opcode c_symbols c_code c_constants]. rewrite <- app_assoc. cbn [app]. auto.
Qed.

(** * The symbol table at top level *)

(* one context, the global one (any number of scopes) *)
Definition gtab (t : symtab) : Prop := exists k ss, t = [mkContext SGlobal k ss].

Lemma gtab_resolve : forall t x sy, gtab t -> resolve t x = Some sy -> s_scope sy = SGlobal.
Proof.
  intros t x sy [k [ss ->]] H. unfold resolve, current_context in H. cbn [last length Nat.ltb Nat.leb] in H.
  destruct (context_resolve (mkContext SGlobal k ss) x) as [s|] eqn:E; [|discriminate H].
  inversion H; subst. unfold context_resolve in E. cbn [c_scope] in E.
  destruct (resolve_scopes x (rev (c_syms (mkContext SGlobal k ss))) (total_len (mkContext SGlobal k ss)));
    [|discriminate E].
  cbn [option_map] in E. inversion E; subst. reflexivity.
Qed.

Lemma gtab_define : forall t x t' sy, gtab t -> define t x = (t', sy) -> gtab t' /\ s_scope sy = SGlobal.
Proof.
  intros t x t' sy [k [ss ->]] H. unfold define, current_context, context_define in H.
  cbn [last update_last c_scope c_max c_syms] in H. inversion H; subst; clear H. split; [|reflexivity].
  eexists; eexists; reflexivity.
Qed.

Lemma const_var_infix_global : forall name v op st st1 done, gtab (c_symbols st) ->
  compile_const_var_infix name v op st = (st1, done) ->
  done = false /\ c_symbols st1 = c_symbols st /\ c_code st1 = c_code st /\
  exists kx, c_constants st1 = c_constants st ++ kx /\ Forall is_kint kx.
Proof.
  intros name v op st st1 done Hg H. unfold compile_const_var_infix in H.
  destruct (add_constant (KInt v) st) as [st0 r] eqn:E.
  destruct (add_constant_kint v st st0 r E) as [Hs [Hc [kx [Hk [Hf _]]]]].
  assert (st1 = st0 /\ done = false) as [-> ->].
  { destruct r as [idx| | |]; try (inversion H; auto; fail).
    destruct (resolve (c_symbols st0) name) as [sy|] eqn:Er; [|inversion H; auto].
    rewrite Hs in Er. rewrite (gtab_resolve _ _ _ Hg Er) in H. inversion H; auto. }
  split; [reflexivity|]. split; [exact Hs|]. split; [exact Hc|]. exists kx; auto.
Qed.

(** * The intermediate evaluator *)

Section PEval.
  Variable orc : oracle.
  Variable rs : text -> option symbol.       (* the compiler's resolution of names *)

  Fixpoint peval (e : expr) (m : mst) : outcome (val * mst) :=
    match e with
    | EInt z => Ok (VInt z, m)
    | EBool b => Ok (VBool b, m)
    | EIdent x =>
        match rs x with
        | Some sy => Ok (nth (s_index sy) (m_gl m) VNull, m)
        | None => Err EReferenceError
        end
    | EAssign l r =>
        match l with
        | EIdent x =>
            match rs x with
            | Some sy => do (v, m1) <- peval r m; Ok (v, set_global_m (s_index sy) v m1)
            | None => Err EReferenceError
            end
        | _ => Err ETypeError
        end
    | EPrefix op r =>
        do (v, m1) <- peval r m;
        match op with
        | OpNegate | OpSubtract => do x <- negate (m_heap m1) v; Ok (fst x, with_new_m m1 x)
        | OpNot => do x <- lognot v; Ok (x, m1)
        | _ => Err ETypeError
        end
    | EInfix l op r =>
        do (a, m1) <- peval l m;
        do (b, m2) <- peval r m1;
        match Sem.method_of op with
        | Some mth => do x <- binop orc mth (m_heap m2) a b; Ok (fst x, with_new_m m2 x)
        | None => Err ETypeError
        end
    | _ => Err ETypeError
    end.
End PEval.

Definition retag {A} (x : outcome A) : outcome stepres :=
  match x with Ok _ => OutOfFuel | Err k => Err k | Fault f => Fault f | OutOfFuel => OutOfFuel end.

(* what the machine does with the code of an expression, started at its first byte in state s:
   push the value, with the heap / collector / globals the evaluator says; or stop with the
   evaluator's error, nothing printed *)
Definition sim_expr (orc : oracle) (prog : program) (s : vm) (ip' : Z) (r : outcome (val * mst)) : Prop :=
  match r with
  | Ok (v, m') => reaches orc prog s (setm s (v :: v_stack s) (v_slen s + 1) ip' m')
  | _ => stops orc prog s (retag r) (v_out s)
  end.

Fixpoint no_ident (e : expr) : bool :=
  match e with
  | EInt _ | EBool _ => true
  | EInfix l _ r => no_ident l && no_ident r
  | EPrefix _ r => no_ident r
  | _ => false
  end.

Definition consts_ok (prog : program) (ks : list const) : Prop :=
  forall i z, nth_error ks i = Some (KInt z) -> nth_error (p_consts prog) i = Some (VInt z).

Lemma consts_ok_app : forall prog ks kx, consts_ok prog (ks ++ kx) -> consts_ok prog ks.
Proof.
  intros prog ks kx H i z Hi. apply H. rewrite nth_error_app1; [exact Hi|].
  apply nth_error_Some. rewrite Hi. discriminate.
Qed.

(* unfolding equations of compile_expression on the constructors of the fragment *)
Definition generic_infix (l : expr) (op : operator) (r : expr) (st0 : cstate) : outcome cstate :=
  do st1 <- compile_expression l st0;
  do st2 <- compile_expression r st1;
  match assoc operator_eqb op compile_operator_table with
  | Some opc => Ok (emit_opcode opc st2)
  | None => Fault FUnwrap
  end.

Lemma ce_int : forall z st, compile_expression (EInt z) st = emit_const (KInt z) st.
Proof. reflexivity. Qed.
Lemma ce_bool : forall b st,
  compile_expression (EBool b) st = Ok (emit_opcode (if b then OTrue else OFalse) st).
Proof. reflexivity. Qed.
Lemma ce_ident : forall x st,
  compile_expression (EIdent x) st =
  match resolve (c_symbols st) x with
  | Some s => emit_sym (scoped s OGetGlobal OGetLocal) s st
  | None => Err EReferenceError
  end.
Proof. reflexivity. Qed.
Lemma ce_prefix : forall op r st,
  compile_expression (EPrefix op r) st =
  do st1 <- compile_expression r st;
  match op with
  | OpNegate | OpSubtract => Ok (emit_opcode ONegate st1)
  | OpNot => Ok (emit_opcode ONot st1)
  | _ => Err ETypeError
  end.
Proof. reflexivity. Qed.
Lemma ce_assign_ident : forall x r st,
  compile_expression (EAssign (EIdent x) r) st =
  match resolve (c_symbols st) x with
  | Some s =>
      do st1 <- compile_expression r st;
      do st2 <- emit_sym (scoped s OSetGlobal OSetLocal) s st1;
      emit_sym (scoped s OGetGlobal OGetLocal) s st2
  | None => Err EReferenceError
  end.
Proof. reflexivity. Qed.
Lemma ce_infix : forall l op r st,
  compile_expression (EInfix l op r) st =
  match fused_candidate l r op with
  | Some (name, v, op') =>
      let '(st1, done) := compile_const_var_infix name v op' st in
      if done : bool then Ok st1 else generic_infix l op r st1
  | None => generic_infix l op r st
  end.
Proof. reflexivity. Qed.

(** * Simulation, expression level *)

Definition expr_sim (orc : oracle) (e : expr) : Prop :=
  forall st st', (no_ident e = true \/ gtab (c_symbols st)) -> compile_expression e st = Ok st' ->
  c_symbols st' = c_symbols st /\
  exists ce kx, c_code st' = c_code st ++ ce /\ c_constants st' = c_constants st ++ kx /\ Forall is_kint kx /\
    forall prog, code_at prog (code_len st) ce -> consts_ok prog (c_constants st') ->
    forall s, v_ip s = code_len st ->
    sim_expr orc prog s (code_len st') (peval orc (resolve (c_symbols st)) e (mst_of s)).

Lemma code_len_app : forall st st' ce, c_code st' = c_code st ++ ce -> code_len st' = code_len st + zlength ce.
Proof. intros st st' ce H. unfold code_len. rewrite H, zlength_app. reflexivity. Qed.

Lemma zlength3 : forall (a b c : Z), zlength [a; b; c] = 3.
Proof. reflexivity. Qed.

Lemma code_len_emit_opcode : forall op st, code_len (emit_opcode op st) = code_len st + 1.
Proof. intros. unfold code_len, emit_opcode. cbn [c_code]. rewrite zlength_app. reflexivity. Qed.

Lemma binop_chain : forall op opc, is_binop op = true ->
  assoc operator_eqb op compile_operator_table = Some opc ->
  exists mth, assoc opcode_eqb opc binary_dispatch = Some mth /\ Sem.method_of op = Some mth.
Proof.
  intros op opc Hb H. unfold Sem.method_of. rewrite H.
  destruct op; try discriminate Hb; cbv in H; inversion H; subst opc; eexists; split; reflexivity.
Qed.

Lemma mst_of_setm : forall s stk n ip m, mst_of (setm s stk n ip m) = m.
Proof. intros. destruct m; reflexivity. Qed.

Lemma generic_infix_sim : forall orc l op r, expr_sim orc l -> expr_sim orc r -> is_binop op = true ->
  forall st st', (no_ident (EInfix l op r) = true \/ gtab (c_symbols st)) ->
  generic_infix l op r st = Ok st' ->
  c_symbols st' = c_symbols st /\
  exists ce kx, c_code st' = c_code st ++ ce /\ c_constants st' = c_constants st ++ kx /\ Forall is_kint kx /\
    forall prog, code_at prog (code_len st) ce -> consts_ok prog (c_constants st') ->
    forall s, v_ip s = code_len st ->
    sim_expr orc prog s (code_len st') (peval orc (resolve (c_symbols st)) (EInfix l op r) (mst_of s)).
Proof.
  intros orc l op r IHl IHr Hop st st' Hcond H. unfold generic_infix in H.
  apply bind_ok in H. destruct H as [st1 [H1 H]].
  apply bind_ok in H. destruct H as [st2 [H2 H]].
  destruct (assoc operator_eqb op compile_operator_table) as [opc|] eqn:Eopc; [|discriminate H].
  inversion H; subst st'; clear H.
  destruct (binop_chain op opc Hop Eopc) as [mth [Hmth Hmeth]].
  assert (no_ident l = true \/ gtab (c_symbols st)) as Hcl.
  { destruct Hcond as [Hn|Hg]; [left|right; exact Hg]. cbn [no_ident] in Hn.
    apply andb_prop in Hn. tauto. }
  destruct (IHl st st1 Hcl H1) as [Hs1 [ce1 [kx1 [Hc1 [Hk1 [Hf1 Hsim1]]]]]].
  assert (no_ident r = true \/ gtab (c_symbols st1)) as Hcr.
  { rewrite Hs1. destruct Hcond as [Hn|Hg]; [left|right; exact Hg]. cbn [no_ident] in Hn.
    apply andb_prop in Hn. tauto. }
  destruct (IHr st1 st2 Hcr H2) as [Hs2 [ce2 [kx2 [Hc2 [Hk2 [Hf2 Hsim2]]]]]].
  cbn [emit_opcode c_symbols c_code c_constants]. split; [congruence|].
  exists (ce1 ++ ce2 ++ [byte_of_opcode opc]), (kx1 ++ kx2).
  split; [rewrite Hc2, Hc1, <- !app_assoc; reflexivity|].
  split; [rewrite Hk2, Hk1, <- app_assoc; reflexivity|].
  split; [apply Forall_app; auto|].
  intros prog Hcode Hconsts s Hip.
  pose proof (code_len_app _ _ _ Hc1) as L1. pose proof (code_len_app _ _ _ Hc2) as L2.
  apply code_at_app in Hcode. destruct Hcode as [Hcode1 Hcode]. rewrite <- L1 in Hcode.
  apply code_at_app in Hcode. destruct Hcode as [Hcode2 Hcode3]. rewrite <- L2 in Hcode3.
  assert (consts_ok prog (c_constants st1)) as Hk1ok.
  { apply (consts_ok_app prog _ kx2). rewrite <- Hk2. exact Hconsts. }
  specialize (Hsim1 prog Hcode1 Hk1ok s Hip).
  cbn [peval]. rewrite Hmeth.
  destruct (peval orc (resolve (c_symbols st)) l (mst_of s)) as [[a m1]| | |]; cbn [bind];
    try exact Hsim1.
  cbn [sim_expr] in Hsim1.
  set (sa := setm s (a :: v_stack s) (v_slen s + 1) (code_len st1) m1) in *.
  specialize (Hsim2 prog Hcode2 Hconsts sa eq_refl). rewrite Hs1 in Hsim2.
  unfold sa in Hsim2 at 2. rewrite mst_of_setm in Hsim2.
  destruct (peval orc (resolve (c_symbols st)) r m1) as [[b m2]| | |]; cbn [bind];
    try (cbn [sim_expr retag] in *; apply (reaches_stops orc prog s sa _ _ Hsim1); exact Hsim2).
  cbn [sim_expr] in Hsim2.
  set (sb := setm sa (b :: v_stack sa) (v_slen sa + 1) (code_len st2) m2) in *.
  assert (code_len (emit_opcode opc st2) = code_len st2 + 1) as L3.
  { unfold code_len, emit_opcode. cbn [c_code]. rewrite zlength_app. reflexivity. }
  pose proof (step_binary orc prog sb opc mth a b (v_stack s) [] Hcode3 Hmth eq_refl) as Hstep.
  change (v_heap sb) with (m_heap m2) in Hstep.
  destruct (binop orc mth (m_heap m2) a b) as [x| | |]; cbn [bind sim_expr retag].
  - apply (reaches_trans orc prog s sa _ Hsim1). apply (reaches_trans orc prog sa sb _ Hsim2).
    apply reaches_step. rewrite Hstep. f_equal. f_equal. subst sb sa. unfold mst_of, setm. vmcbn.
    rewrite mst_eta, L3. f_equal; lia.
  - apply (reaches_stops orc prog s sa _ _ Hsim1). apply (reaches_stops orc prog sa sb _ _ Hsim2).
    apply (stops_now orc prog sb _ Hstep).
  - apply (reaches_stops orc prog s sa _ _ Hsim1). apply (reaches_stops orc prog sa sb _ _ Hsim2).
    apply (stops_now orc prog sb _ Hstep).
  - apply (reaches_stops orc prog s sa _ _ Hsim1). apply (reaches_stops orc prog sa sb _ _ Hsim2).
    apply (stops_now orc prog sb _ Hstep).
Qed.

Lemma fused_no_ident : forall l r op x, fused_candidate l r op = Some x -> no_ident (EInfix l op r) = false.
Proof.
  intros l r op x H. cbn [no_ident]. destruct l; try discriminate H; try reflexivity;
    destruct r; try discriminate H; reflexivity.
Qed.

Lemma nth_replace_nth_same : forall A n (v d : A) l, (n < length l)%nat -> nth n (replace_nth n v l) d = v.
Proof.
  intros A n v d. induction n as [|n IH]; intros [|y l] H; cbn [length] in H; try lia; cbn [replace_nth nth].
  - reflexivity.
  - apply IH. lia.
Qed.

Lemma length_repeat_val : forall A (x : A) n, length (repeat_val x n) = n.
Proof. intros A x n. induction n; cbn [repeat_val length]; congruence. Qed.

Lemma nth_set_global_same : forall n v gl, nth n (set_global n v gl) VNull = v.
Proof.
  intros n v gl. unfold set_global. apply nth_replace_nth_same.
  destruct (Nat.ltb n (length gl)) eqn:E.
  - apply Nat.ltb_lt in E. exact E.
  - apply Nat.ltb_ge in E. rewrite app_length, length_repeat_val. lia.
Qed.

Theorem compile_expr_sim : forall orc e, in_F1e e = true -> expr_sim orc e.
Proof.
  intros orc e. induction e as [l IHl op r IHr|op r IHr|z| |b| |x| | |l IHl r IHr| | | |];
    intros HF; try discriminate HF; cbn [in_F1e] in HF.
  - (* EInfix *)
    apply andb_prop in HF. destruct HF as [HF Hr]. apply andb_prop in HF. destruct HF as [Hop Hl].
    specialize (IHl Hl). specialize (IHr Hr).
    intros st st' Hcond H. rewrite ce_infix in H.
    destruct (fused_candidate l r op) as [[[name v] op']|] eqn:Ef.
    + destruct Hcond as [Hn|Hg]; [rewrite (fused_no_ident _ _ _ _ Ef) in Hn; discriminate Hn|].
      destruct (compile_const_var_infix name v op' st) as [st1 done] eqn:Ec.
      destruct (const_var_infix_global _ _ _ _ _ _ Hg Ec) as [-> [Hs1 [Hc1 [kx1 [Hk1 Hf1]]]]].
      assert (gtab (c_symbols st1)) as Hg1 by (rewrite Hs1; exact Hg).
      destruct (generic_infix_sim orc l op r IHl IHr Hop st1 st' (or_intror Hg1) H)
        as [Hs [ce [kx [Hc [Hk [Hf Hsim]]]]]].
      split; [congruence|]. exists ce, (kx1 ++ kx).
      split; [congruence|]. split; [rewrite Hk, Hk1, <- app_assoc; reflexivity|].
      split; [apply Forall_app; auto|].
      assert (code_len st1 = code_len st) as L by (unfold code_len; rewrite Hc1; reflexivity).
      rewrite L, Hs1 in Hsim. exact Hsim.
    + exact (generic_infix_sim orc l op r IHl IHr Hop st st' Hcond H).
  - (* EPrefix *)
    apply andb_prop in HF. destruct HF as [Hop Hr]. specialize (IHr Hr).
    intros st st' Hcond H. rewrite ce_prefix in H.
    apply bind_ok in H. destruct H as [st1 [H1 H]].
    destruct (IHr st st1 Hcond H1) as [Hs1 [ce1 [kx1 [Hc1 [Hk1 [Hf1 Hsim1]]]]]].
    pose proof (code_len_app _ _ _ Hc1) as L1.
    assert (exists opc, st' = emit_opcode opc st1 /\
              ((opc = ONot /\ op = OpNot) \/ (opc = ONegate /\ (op = OpSubtract \/ op = OpNegate)))) as [opc [-> Hopc]].
    { destruct op; try discriminate Hop; inversion H; eexists; split; try reflexivity; tauto. }
    clear H. cbn [emit_opcode c_symbols c_code c_constants]. split; [exact Hs1|].
    exists (ce1 ++ [byte_of_opcode opc]), kx1.
    split; [rewrite Hc1, <- app_assoc; reflexivity|]. split; [exact Hk1|]. split; [exact Hf1|].
    intros prog Hcode Hconsts s Hip.
    apply code_at_app in Hcode. destruct Hcode as [Hcode1 Hcode2]. rewrite <- L1 in Hcode2.
    specialize (Hsim1 prog Hcode1 Hconsts s Hip).
    assert (code_len (emit_opcode opc st1) = code_len st1 + 1) as L3.
    { unfold code_len, emit_opcode. cbn [c_code]. rewrite zlength_app. reflexivity. }
    fold (emit_opcode opc st1). cbn [peval].
    destruct (peval orc (resolve (c_symbols st)) r (mst_of s)) as [[a m1]| | |]; cbn [bind];
      try exact Hsim1.
    cbn [sim_expr] in Hsim1.
    set (sa := setm s (a :: v_stack s) (v_slen s + 1) (code_len st1) m1) in *.
    destruct Hopc as [[-> ->]|[-> Hop2]].
    + pose proof (step_not orc prog sa a (v_stack s) [] Hcode2 eq_refl) as Hstep.
      destruct (lognot a) as [x| | |]; cbn [bind sim_expr retag].
      * apply (reaches_trans orc prog s sa _ Hsim1). apply reaches_step. rewrite Hstep.
        f_equal. f_equal. subst sa. unfold mst_of, setm. vmcbn. rewrite ?mst_eta, L3. f_equal; lia.
      * apply (reaches_stops orc prog s sa _ _ Hsim1). apply (stops_now orc prog sa _ Hstep).
      * apply (reaches_stops orc prog s sa _ _ Hsim1). apply (stops_now orc prog sa _ Hstep).
      * apply (reaches_stops orc prog s sa _ _ Hsim1). apply (stops_now orc prog sa _ Hstep).
    + pose proof (step_negate orc prog sa a (v_stack s) [] Hcode2 eq_refl) as Hstep.
      change (v_heap sa) with (m_heap m1) in Hstep.
      assert (forall (A : Type) (k1 k2 : A), match op with OpNegate | OpSubtract => k1 | _ => k2 end = k1) as Hm.
      { intros A k1 k2. destruct Hop2 as [-> | ->]; reflexivity. }
      assert (match op with
              | OpNegate | OpSubtract => do x <- negate (m_heap m1) a; Ok (fst x, with_new_m m1 x)
              | OpNot => do x <- lognot a; Ok (x, m1)
              | _ => Err ETypeError
              end = (do x <- negate (m_heap m1) a; Ok (fst x, with_new_m m1 x))) as ->.
      { destruct Hop2 as [-> | ->]; reflexivity. }
      clear Hm.
      destruct (negate (m_heap m1) a) as [x| | |]; cbn [bind sim_expr retag].
      * apply (reaches_trans orc prog s sa _ Hsim1). apply reaches_step. rewrite Hstep.
        f_equal. f_equal. subst sa. unfold mst_of, setm. vmcbn. rewrite ?mst_eta, L3. f_equal; lia.
      * apply (reaches_stops orc prog s sa _ _ Hsim1). apply (stops_now orc prog sa _ Hstep).
      * apply (reaches_stops orc prog s sa _ _ Hsim1). apply (stops_now orc prog sa _ Hstep).
      * apply (reaches_stops orc prog s sa _ _ Hsim1). apply (stops_now orc prog sa _ Hstep).
  - (* EInt *)
    intros st st' Hcond H. rewrite ce_int in H.
    destruct (emit_const_kint z st st' H) as [Hs [idx [kx [Hc [Hk [Hf [Hr Hn]]]]]]].
    split; [exact Hs|]. eexists; exists kx. split; [exact Hc|]. split; [exact Hk|]. split; [exact Hf|].
    intros prog Hcode Hconsts s Hip. cbn [peval sim_expr].
    apply reaches_step. rewrite <- Hip in Hcode.
    rewrite (step_const orc prog s idx z [] Hcode Hr (Hconsts _ _ Hn)).
    f_equal. f_equal. apply setm_eq; try reflexivity.
    rewrite (code_len_app _ _ _ Hc), Hip. reflexivity.
  - (* EBool *)
    intros st st' Hcond H. rewrite ce_bool in H. inversion H; subst st'; clear H.
    cbn [emit_opcode c_symbols c_code c_constants]. split; [reflexivity|].
    eexists; exists []. split; [reflexivity|]. split; [rewrite app_nil_r; reflexivity|].
    split; [constructor|].
    intros prog Hcode Hconsts s Hip. cbn [peval sim_expr].
    apply reaches_step. rewrite <- Hip in Hcode.
    rewrite (step_bool orc prog s b [] Hcode).
    f_equal. f_equal. apply setm_eq; try reflexivity.
    rewrite code_len_emit_opcode, Hip. reflexivity.
  - (* EIdent *)
    intros st st' Hcond H. destruct Hcond as [Hn|Hg]; [discriminate Hn|].
    rewrite ce_ident in H.
    destruct (resolve (c_symbols st) x) as [sy|] eqn:Er; [|discriminate H].
    unfold scoped in H. rewrite (gtab_resolve _ _ _ Hg Er) in H.
    destruct (emit_sym_spec _ _ _ _ H) as [Hs [Hk [Hr Hc]]].
    split; [exact Hs|]. eexists; exists []. split; [exact Hc|].
    split; [rewrite app_nil_r; exact Hk|]. split; [constructor|].
    intros prog Hcode Hconsts s Hip. cbn [peval]. rewrite Er. cbn [sim_expr].
    apply reaches_step. rewrite <- Hip in Hcode.
    rewrite (step_get_global orc prog s _ [] Hcode Hr). rewrite Nat2Z.id.
    f_equal. f_equal. apply setm_eq; try reflexivity.
    rewrite (code_len_app _ _ _ Hc), Hip. reflexivity.
  - (* EAssign *)
    destruct l as [| | | | | |x| | | | | | |]; try discriminate HF. specialize (IHr HF).
    intros st st' Hcond H. destruct Hcond as [Hn|Hg]; [discriminate Hn|].
    rewrite ce_assign_ident in H.
    destruct (resolve (c_symbols st) x) as [sy|] eqn:Er; [|discriminate H].
    apply bind_ok in H. destruct H as [st1 [H1 H]].
    apply bind_ok in H. destruct H as [st2 [H2 H3]].
    unfold scoped in H2, H3. rewrite (gtab_resolve _ _ _ Hg Er) in H2, H3.
    destruct (IHr st st1 (or_intror Hg) H1) as [Hs1 [ce1 [kx1 [Hc1 [Hk1 [Hf1 Hsim1]]]]]].
    destruct (emit_sym_spec _ _ _ _ H2) as [Hs2 [Hk2 [Hr Hc2]]].
    destruct (emit_sym_spec _ _ _ _ H3) as [Hs3 [Hk3 [_ Hc3]]].
    pose proof (code_len_app _ _ _ Hc1) as L1. pose proof (code_len_app _ _ _ Hc2) as L2.
    pose proof (code_len_app _ _ _ Hc3) as L3.
    split; [congruence|].
    set (idx := Z.of_nat (s_index sy)) in *.
    exists (ce1 ++ [byte_of_opcode OSetGlobal; idx mod 256; (idx / 256) mod 256]
                ++ [byte_of_opcode OGetGlobal; idx mod 256; (idx / 256) mod 256]), kx1.
    split; [rewrite Hc3, Hc2, Hc1, <- !app_assoc; reflexivity|].
    split; [congruence|]. split; [exact Hf1|].
    intros prog Hcode Hconsts s Hip.
    apply code_at_app in Hcode. destruct Hcode as [Hcode1 Hcode]. rewrite <- L1 in Hcode.
    apply code_at_app in Hcode. destruct Hcode as [Hcode2 Hcode3]. rewrite <- L2 in Hcode3.
    rewrite zlength3 in L2, L3.
    assert (consts_ok prog (c_constants st1)) as Hk1ok by (rewrite <- Hk2, <- Hk3; exact Hconsts).
    specialize (Hsim1 prog Hcode1 Hk1ok s Hip).
    cbn [peval]. rewrite Er.
    destruct (peval orc (resolve (c_symbols st)) r (mst_of s)) as [[a m1]| | |]; cbn [bind];
      try exact Hsim1.
    cbn [sim_expr] in *.
    set (sa := setm s (a :: v_stack s) (v_slen s + 1) (code_len st1) m1) in *.
    apply (reaches_trans orc prog s sa _ Hsim1).
    pose proof (step_set_global orc prog sa idx a (v_stack s) [] Hcode2 Hr eq_refl) as Hstep1.
    apply (reaches_trans orc prog sa _ _ (reaches_step orc prog _ _ Hstep1)).
    set (sb := setm sa (v_stack s) (v_slen sa - 1) (v_ip sa + 3) (set_global_m (Z.to_nat idx) a (mst_of sa))) in *.
    assert (v_ip sb = code_len st2) as Hipb.
    { subst sb sa. vmcbn. lia. }
    rewrite <- Hipb in Hcode3.
    pose proof (step_get_global orc prog sb idx [] Hcode3 Hr) as Hstep2.
    apply reaches_step. rewrite Hstep2. f_equal. f_equal.
    subst sb sa. unfold mst_of, setm, set_global_m, idx. vmcbn. rewrite Nat2Z.id, nth_set_global_same.
    f_equal; lia.
Qed.

(** * Simulation, statement level *)

Section PExec.
  Variable orc : oracle.

  (* top-level statements of F1: `fin` is the machine's final_result register *)
  Fixpoint pexec (t : symtab) (l : list stmt) (m : mst) (fin : val) : outcome (mst * val) :=
    match l with
    | [] => Ok (m, fin)
    | s :: r =>
        match s with
        | SLet x e =>
            let '(t', sy) := define t x in
            do (v, m1) <- peval orc (resolve t') e m;
            pexec t' r (set_global_m (s_index sy) v m1) fin
        | SExpr e =>
            do (v, m1) <- peval orc (resolve t) e m;
            pexec t r m1 v
        | _ => Err ETypeError
        end
    end.
End PExec.

Definition setmf (s : vm) (ip : Z) (m : mst) (fin : val) : vm :=
  mkVM (v_stack s) (v_slen s) (m_gl m) (v_frames s) ip (v_bp s) fin (m_heap m) (m_gc m) (v_out s).

Definition sim_stmts (orc : oracle) (prog : program) (s : vm) (ip' : Z) (r : outcome (mst * val)) : Prop :=
  match r with
  | Ok (m', fin') => reaches orc prog s (setmf s ip' m' fin')
  | _ => stops orc prog s (retag r) (v_out s)
  end.

Lemma cs_expr : forall e st,
  compile_statement (SExpr e) st = do st1 <- compile_expression e st; Ok (emit_opcode OPop st1).
Proof. reflexivity. Qed.
Lemma cs_let : forall x e st,
  compile_statement (SLet x e) st =
  let '(t, sym) := define (c_symbols st) x in
  do st1 <- compile_expression e (set_symbols st t);
  emit_sym (scoped sym OSetGlobal OSetLocal) sym st1.
Proof. reflexivity. Qed.

Lemma retag_retag : forall A B (x : outcome A) (k : A -> outcome B),
  (forall a, x <> Ok a) -> retag (bind x k) = retag x.
Proof. intros A B x k H. destruct x; try reflexivity. exfalso. apply (H a). reflexivity. Qed.

Theorem compile_stmts_sim : forall orc l, in_F1 l = true ->
  forall st st', gtab (c_symbols st) -> compile_statements l st = Ok st' ->
  gtab (c_symbols st') /\
  exists ce kx, c_code st' = c_code st ++ ce /\ c_constants st' = c_constants st ++ kx /\ Forall is_kint kx /\
    forall prog, code_at prog (code_len st) ce -> consts_ok prog (c_constants st') ->
    forall s, v_ip s = code_len st ->
    sim_stmts orc prog s (code_len st') (pexec orc (c_symbols st) l (mst_of s) (v_final s)).
Proof.
  intros orc l. induction l as [|s0 l IH]; intros HF st st' Hg H.
  - cbn [compile_statements] in H. inversion H; subst st'; clear H. split; [exact Hg|].
    exists [], []. rewrite !app_nil_r. split; [reflexivity|]. split; [reflexivity|]. split; [constructor|].
    intros prog _ _ s Hip. cbn [pexec sim_stmts]. exists O. cbn [steps]. f_equal.
    destruct s; unfold setmf, mst_of; cbn in *. subst. reflexivity.
  - cbn [in_F1 forallb] in HF. apply andb_prop in HF. destruct HF as [HF0 HFl].
    cbn [compile_statements] in H. apply bind_ok in H. destruct H as [st2 [H0 Hl]].
    destruct s0 as [x e|e|e| | |]; try discriminate HF0; cbn [in_F1s] in HF0.
    + (* SLet *)
      rewrite cs_let in H0. destruct (define (c_symbols st) x) as [t' sy] eqn:Ed.
      destruct (gtab_define _ _ _ _ Hg Ed) as [Hg' Hsy].
      apply bind_ok in H0. destruct H0 as [st1 [H1 H2]].
      unfold scoped in H2. rewrite Hsy in H2.
      assert (gtab (c_symbols (set_symbols st t'))) as Hg0 by exact Hg'.
      destruct (compile_expr_sim orc e HF0 (set_symbols st t') st1 (or_intror Hg0) H1)
        as [Hs1 [ce1 [kx1 [Hc1 [Hk1 [Hf1 Hsim1]]]]]].
      cbn [set_symbols c_symbols c_code c_constants] in Hs1, Hc1, Hk1.
      destruct (emit_sym_spec _ _ _ _ H2) as [Hs2 [Hk2 [Hr Hc2]]].
      assert (gtab (c_symbols st2)) as Hg2 by (rewrite Hs2, Hs1; exact Hg').
      destruct (IH HFl st2 st' Hg2 Hl) as [Hg3 [ce3 [kx3 [Hc3 [Hk3 [Hf3 Hsim3]]]]]].
      split; [exact Hg3|].
      set (idx := Z.of_nat (s_index sy)) in *.
      exists (ce1 ++ [byte_of_opcode OSetGlobal; idx mod 256; (idx / 256) mod 256] ++ ce3), (kx1 ++ kx3).
      split; [rewrite Hc3, Hc2, Hc1, <- !app_assoc; reflexivity|].
      split; [rewrite Hk3, Hk2, Hk1, <- app_assoc; reflexivity|].
      split; [apply Forall_app; auto|].
      intros prog Hcode Hconsts s Hip.
      assert (code_len (set_symbols st t') = code_len st) as L0 by reflexivity.
      assert (code_len st1 = code_len st + zlength ce1) as L1.
      { unfold code_len. rewrite Hc1, zlength_app. reflexivity. }
      pose proof (code_len_app _ _ _ Hc2) as L2.
      apply code_at_app in Hcode. destruct Hcode as [Hcode1 Hcode]. rewrite <- L1 in Hcode.
      apply code_at_app in Hcode. destruct Hcode as [Hcode2 Hcode3]. rewrite <- L2 in Hcode3.
      rewrite zlength3 in L2.
      assert (consts_ok prog (c_constants st1)) as Hk1ok.
      { apply (consts_ok_app prog _ kx3). rewrite <- Hk2, <- Hk3. exact Hconsts. }
      rewrite <- L0 in Hcode1, Hip. specialize (Hsim1 prog Hcode1 Hk1ok s Hip).
      cbn [set_symbols c_symbols] in Hsim1.
      cbn [pexec]. rewrite Ed.
      destruct (peval orc (resolve t') e (mst_of s)) as [[a m1]| | |]; cbn [bind];
        try exact Hsim1.
      cbn [sim_expr] in Hsim1.
      set (sa := setm s (a :: v_stack s) (v_slen s + 1) (code_len st1) m1) in *.
      pose proof (step_set_global orc prog sa idx a (v_stack s) [] Hcode2 Hr eq_refl) as Hstep.
      set (sb := setmf s (code_len st2) (set_global_m (s_index sy) a m1) (v_final s)).
      assert (setm sa (v_stack s) (v_slen sa - 1) (v_ip sa + 3) (set_global_m (Z.to_nat idx) a (mst_of sa)) = sb) as Esb.
      { subst sa sb idx. unfold setm, setmf, mst_of, set_global_m. vmcbn. rewrite Nat2Z.id. f_equal; lia. }
      rewrite Esb in Hstep.
      assert (reaches orc prog s sb) as Hsb.
      { apply (reaches_trans orc prog s sa _ Hsim1). apply reaches_step. exact Hstep. }
      specialize (Hsim3 prog Hcode3 Hconsts sb eq_refl).
      rewrite Hs2, Hs1 in Hsim3.
      change (mst_of sb) with (mkM (m_heap (set_global_m (s_index sy) a m1)) (m_gc (set_global_m (s_index sy) a m1))
                                   (m_gl (set_global_m (s_index sy) a m1))) in Hsim3.
      rewrite mst_eta in Hsim3. change (v_final sb) with (v_final s) in Hsim3.
      destruct (pexec orc t' l (set_global_m (s_index sy) a m1) (v_final s)) as [[m' fin']| | |];
        cbn [sim_stmts retag] in *;
        try (apply (reaches_stops orc prog s sb _ _ Hsb); exact Hsim3).
      apply (reaches_trans orc prog s sb _ Hsb). exact Hsim3.
    + (* SExpr *)
      rewrite cs_expr in H0. apply bind_ok in H0. destruct H0 as [st1 [H1 H2]].
      inversion H2; subst st2; clear H2.
      destruct (compile_expr_sim orc e HF0 st st1 (or_intror Hg) H1)
        as [Hs1 [ce1 [kx1 [Hc1 [Hk1 [Hf1 Hsim1]]]]]].
      assert (gtab (c_symbols (emit_opcode OPop st1))) as Hg2 by (cbn [emit_opcode c_symbols]; rewrite Hs1; exact Hg).
      destruct (IH HFl _ st' Hg2 Hl) as [Hg3 [ce3 [kx3 [Hc3 [Hk3 [Hf3 Hsim3]]]]]].
      split; [exact Hg3|].
      cbn [emit_opcode c_symbols c_code c_constants] in Hc3, Hk3.
      exists (ce1 ++ [byte_of_opcode OPop] ++ ce3), (kx1 ++ kx3).
      split; [rewrite Hc3, Hc1, <- !app_assoc; reflexivity|].
      split; [rewrite Hk3, Hk1, <- app_assoc; reflexivity|].
      split; [apply Forall_app; auto|].
      intros prog Hcode Hconsts s Hip.
      pose proof (code_len_app _ _ _ Hc1) as L1.
      pose proof (code_len_emit_opcode OPop st1) as L2.
      apply code_at_app in Hcode. destruct Hcode as [Hcode1 Hcode]. rewrite <- L1 in Hcode.
      apply code_at_app in Hcode. destruct Hcode as [Hcode2 Hcode3].
      change (zlength [byte_of_opcode OPop]) with 1 in Hcode3. rewrite <- L2 in Hcode3.
      assert (consts_ok prog (c_constants st1)) as Hk1ok.
      { apply (consts_ok_app prog _ kx3). rewrite <- Hk3. exact Hconsts. }
      specialize (Hsim1 prog Hcode1 Hk1ok s Hip).
      cbn [pexec].
      destruct (peval orc (resolve (c_symbols st)) e (mst_of s)) as [[a m1]| | |]; cbn [bind];
        try exact Hsim1.
      cbn [sim_expr] in Hsim1.
      set (sa := setm s (a :: v_stack s) (v_slen s + 1) (code_len st1) m1) in *.
      pose proof (step_pop orc prog sa a (v_stack s) [] Hcode2 eq_refl) as Hstep.
      set (sb := setmf s (code_len (emit_opcode OPop st1)) m1 a).
      assert (mkVM (v_stack s) (v_slen sa - 1) (v_globals sa) (v_frames sa) (v_ip sa + 1) (v_bp sa) a
                   (v_heap sa) (v_gc sa) (v_out sa) = sb) as Esb.
      { subst sa sb. unfold setm, setmf. vmcbn. f_equal; lia. }
      rewrite Esb in Hstep.
      assert (reaches orc prog s sb) as Hsb.
      { apply (reaches_trans orc prog s sa _ Hsim1). apply reaches_step. exact Hstep. }
      specialize (Hsim3 prog Hcode3 Hconsts sb eq_refl).
      cbn [emit_opcode c_symbols] in Hsim3. rewrite Hs1 in Hsim3.
      change (mst_of sb) with (mkM (m_heap m1) (m_gc m1) (m_gl m1)) in Hsim3.
      rewrite mst_eta in Hsim3. change (v_final sb) with a in Hsim3.
      destruct (pexec orc (c_symbols st) l m1 a) as [[m' fin']| | |];
        cbn [sim_stmts retag] in *;
        try (apply (reaches_stops orc prog s sb _ _ Hsb); exact Hsim3).
      apply (reaches_trans orc prog s sb _ Hsb). exact Hsim3.
Qed.

(** * Values of the fragment: scalars; the heap and the collector are never touched *)

Definition sres_ok (r : sres) : Prop :=
  match r with SInt z => in_int_range z = true | SFloat _ => False | _ => True end.

Lemma int_result_ok : forall z, sres_ok (int_result z).
Proof. intros z. unfold int_result. destruct (in_int_range z) eqn:E; cbn [sres_ok]; auto. Qed.

Lemma spec_int_ok : forall o x y, sres_ok (spec_int o x y).
Proof.
  intros o x y. destruct o; cbn [spec_int cmp_holds]; try apply int_result_ok;
    try (destruct (y =? 0); [exact I|apply int_result_ok]); try exact I.
Qed.

Lemma spec_bool_ok : forall o x y, sres_ok (spec_bool o x y).
Proof. intros o x y. destruct o; cbn [spec_bool cmp_holds]; exact I. Qed.

Lemma spec_null_ok : forall o, sres_ok (spec_null o).
Proof. intros o. destruct o; cbn [spec_null cmp_holds]; exact I. Qed.

Lemma lift_sres_ok : forall h r, sres_ok r ->
  match lift_sres h r with
  | Ok (v, h') => h' = h /\ scalar v = true
  | Err _ => True
  | _ => False
  end.
Proof. intros h r H. destruct r; cbn [lift_sres sres_ok scalar] in *; try contradiction; auto. Qed.

Lemma scalar_wf : forall v, scalar v = true -> wf_val v = true.
Proof. intros v H. destruct v; try discriminate H; cbn [wf_val]; auto. Qed.

(* a binary operator on scalars: a scalar and the same heap, or an error; whatever the heap *)
Lemma binop_scalar : forall orc op mth a b, Sem.method_of op = Some mth ->
  scalar a = true -> scalar b = true ->
  exists r, sres_ok r /\ forall h, binop orc mth h a b = lift_sres h r.
Proof.
  intros orc op mth a b Hm Ha Hb.
  change (Sem.method_of op) with (OpsProofs.method_of op) in Hm.
  pose proof (scalar_wf a Ha) as Wa. pose proof (scalar_wf b Hb) as Wb.
  destruct a as [|x|x| | | |]; try discriminate Ha; destruct b as [|y|y| | | |]; try discriminate Hb;
    try (exists SErr; split; [exact I|]; intros h0;
         rewrite (binop_mismatch orc h0 op mth _ _ Hm Wa Wb ltac:(discriminate)); reflexivity).
  - exists (spec_null op). split; [apply spec_null_ok|]. intros h0. apply binop_null; exact Hm.
  - exists (spec_bool op x y). split; [apply spec_bool_ok|]. intros h0. apply binop_bool; exact Hm.
  - exists (spec_int op x y). split; [apply spec_int_ok|]. intros h0. apply binop_int; assumption.
Qed.

Lemma negate_scalar : forall a, scalar a = true ->
  exists r, sres_ok r /\ forall h, negate h a = lift_sres h r.
Proof.
  intros a Ha. destruct a as [|x|z| | | |]; try discriminate Ha.
  - exists SErr. split; [exact I|]. reflexivity.
  - exists SErr. split; [exact I|]. reflexivity.
  - cbn [scalar] in Ha. exists (int_result (- z)). split; [apply int_result_ok|]. intros h.
    rewrite (negate_exact h z (proj1 (in_int_range_iff z) Ha)). unfold int_result.
    destruct (in_int_range (- z)); reflexivity.
Qed.

Definition scalar_m (m : mst) : Prop := Forall (fun v => scalar v = true) (m_gl m).

Lemma with_new_m_same : forall m v, with_new_m m (v, m_heap m) = m.
Proof. intros m v. unfold with_new_m. rewrite Pos.eqb_refl. apply mst_eta. Qed.

Lemma Forall_replace_nth : forall A (P : A -> Prop) n v l, P v -> Forall P l -> Forall P (replace_nth n v l).
Proof.
  intros A P n v l Hv. revert n. induction l as [|y l IH]; intros n H; destruct n; cbn [replace_nth]; auto.
  - inversion H; subst. constructor; auto.
  - inversion H; subst. constructor; auto.
Qed.

Lemma Forall_repeat_val : forall A (P : A -> Prop) x n, P x -> Forall P (repeat_val x n).
Proof. intros A P x n Hx. induction n; cbn [repeat_val]; constructor; auto. Qed.

Lemma scalar_set_global : forall n v gl, scalar v = true ->
  Forall (fun v => scalar v = true) gl -> Forall (fun v => scalar v = true) (set_global n v gl).
Proof.
  intros n v gl Hv Hg. unfold set_global. apply Forall_replace_nth; [exact Hv|].
  destruct (Nat.ltb n (length gl)); [exact Hg|]. apply Forall_app. split; [exact Hg|].
  apply Forall_repeat_val. reflexivity.
Qed.

Lemma scalar_nth : forall n gl, Forall (fun v => scalar v = true) gl -> scalar (nth n gl VNull) = true.
Proof.
  intros n gl H. revert n. induction H as [|y l Hy Hl IH]; intros [|n]; cbn [nth]; auto.
Qed.

(* on scalar globals an F1 expression yields a scalar, leaves heap and collector alone, and (without
   assignment) the globals too *)
Lemma peval_scalar : forall orc rs e, in_F1e e = true -> forall m v m', scalar_m m ->
  peval orc rs e m = Ok (v, m') ->
  scalar v = true /\ scalar_m m' /\ m_heap m' = m_heap m /\ m_gc m' = m_gc m /\
  (no_ident e = true -> m' = m).
Proof.
  intros orc rs e. induction e as [l IHl op r IHr|op r IHr|z| |b| |x| | |l IHl r IHr| | | |];
    intros HF m v m' Hm H; try discriminate HF; cbn [in_F1e] in HF; cbn [peval] in H.
  - apply andb_prop in HF. destruct HF as [HF Hr]. apply andb_prop in HF. destruct HF as [Hop Hl].
    destruct (peval orc rs l m) as [[a m1]| | |] eqn:El; try discriminate H. cbn [bind] in H.
    destruct (IHl Hl m a m1 Hm El) as [Sa [Sm1 [Hh1 [Hg1 Hn1]]]].
    destruct (peval orc rs r m1) as [[b m2]| | |] eqn:Er; try discriminate H. cbn [bind] in H.
    destruct (IHr Hr m1 b m2 Sm1 Er) as [Sb [Sm2 [Hh2 [Hg2 Hn2]]]].
    destruct (Sem.method_of op) as [mth|] eqn:Em; [|discriminate H].
    destruct (binop_scalar orc op mth a b Em Sa Sb) as [sr [Hok Hbin]].
    rewrite Hbin in H. pose proof (lift_sres_ok (m_heap m2) sr Hok) as Hl2.
    destruct (lift_sres (m_heap m2) sr) as [[v0 h0]| | |]; try discriminate H; try contradiction.
    destruct Hl2 as [-> Sv]. cbn [bind fst] in H. rewrite with_new_m_same in H. inversion H; subst.
    split; [exact Sv|]. split; [exact Sm2|]. split; [congruence|]. split; [congruence|].
    intros Hn. cbn [no_ident] in Hn. apply andb_prop in Hn. destruct Hn as [N1 N2].
    rewrite (Hn2 N2). apply Hn1; exact N1.
  - apply andb_prop in HF. destruct HF as [Hop Hr].
    destruct (peval orc rs r m) as [[a m1]| | |] eqn:Er; try discriminate H. cbn [bind] in H.
    destruct (IHr Hr m a m1 Hm Er) as [Sa [Sm1 [Hh1 [Hg1 Hn1]]]].
    assert ((do x <- negate (m_heap m1) a; Ok (fst x, with_new_m m1 x)) = Ok (v, m') ->
                      scalar v = true /\ m' = m1) as Hneg.
    { intros H0. destruct (negate_scalar a Sa) as [sr [Hok Hn]]. rewrite Hn in H0.
      pose proof (lift_sres_ok (m_heap m1) sr Hok) as Hl2.
      destruct (lift_sres (m_heap m1) sr) as [[v0 h0]| | |]; try discriminate H0; try contradiction.
      destruct Hl2 as [-> Sv]. cbn [bind fst] in H0. rewrite with_new_m_same in H0. inversion H0; subst. auto. }
    assert (scalar v = true /\ m' = m1) as [Sv ->].
    { destruct op; try discriminate Hop.
      - exact (Hneg H).
      - destruct a; try discriminate H. cbn [lognot bind] in H. inversion H; subst. auto.
      - exact (Hneg H). }
    split; [exact Sv|]. split; [exact Sm1|]. split; [exact Hh1|]. split; [exact Hg1|]. exact Hn1.
  - inversion H; subst. split; [|auto]. cbn [scalar]. unfold lit_ok in HF. unfold in_int_range.
    apply andb_prop in HF. destruct HF as [H0 H1]. apply Z.leb_le in H0. rewrite H1.
    pose proof MIN_INT_val. apply andb_true_intro. split; [apply Z.leb_le; lia|reflexivity].
  - inversion H; subst. auto.
  - destruct (rs x) as [sy|]; [|discriminate H]. inversion H; subst.
    split; [apply scalar_nth; exact Hm|]. split; [exact Hm|]. split; [reflexivity|]. split; [reflexivity|].
    intros Hn; discriminate Hn.
  - destruct l as [| | | | | |x| | | | | | |]; try discriminate HF.
    destruct (rs x) as [sy|]; [|discriminate H].
    destruct (peval orc rs r m) as [[a m1]| | |] eqn:Er; try discriminate H. cbn [bind] in H.
    destruct (IHr HF m a m1 Hm Er) as [Sa [Sm1 [Hh1 [Hg1 Hn1]]]]. inversion H; subst.
    split; [exact Sa|]. split; [apply scalar_set_global; assumption|].
    split; [exact Hh1|]. split; [exact Hg1|]. intros Hn; discriminate Hn.
Qed.

Lemma pexec_scalar : forall orc l, in_F1 l = true -> forall t m fin m' fin',
  scalar_m m -> scalar fin = true -> pexec orc t l m fin = Ok (m', fin') ->
  scalar fin' = true /\ m_heap m' = m_heap m.
Proof.
  intros orc l. induction l as [|s0 l IH]; intros HF t m fin m' fin' Hm Hfin H.
  - cbn [pexec] in H. inversion H; subst. auto.
  - cbn [in_F1 forallb] in HF. apply andb_prop in HF. destruct HF as [HF0 HFl].
    destruct s0 as [x e|e|e| | |]; try discriminate HF0; cbn [in_F1s] in HF0; cbn [pexec] in H.
    + destruct (define t x) as [t' sy].
      destruct (peval orc (resolve t') e m) as [[a m1]| | |] eqn:Ee; try discriminate H. cbn [bind] in H.
      destruct (peval_scalar orc _ e HF0 m a m1 Hm Ee) as [Sa [Sm1 [Hh1 _]]].
      destruct (IH HFl t' (set_global_m (s_index sy) a m1) fin m' fin') as [S1 S2]; auto.
      { apply scalar_set_global; assumption. }
      split; [exact S1|]. rewrite S2. exact Hh1.
    + destruct (peval orc (resolve t) e m) as [[a m1]| | |] eqn:Ee; try discriminate H. cbn [bind] in H.
      destruct (peval_scalar orc _ e HF0 m a m1 Hm Ee) as [Sa [Sm1 [Hh1 _]]].
      destruct (IH HFl t m1 a m' fin') as [S1 S2]; auto.
      split; [exact S1|]. rewrite S2. exact Hh1.
Qed.

(** * Whole programs: compile, load, run *)

Lemma load_consts_kint : forall ks h, Forall is_kint ks ->
  snd (load_consts ks h) = h /\
  (forall i z, nth_error ks i = Some (KInt z) -> nth_error (fst (load_consts ks h)) i = Some (VInt z)) /\
  (forall g, fold_left maybe_trace (fst (load_consts ks h)) g = g).
Proof.
  intros ks h H. induction H as [|k ks [z ->] Hks IH].
  - cbn [load_consts fst snd fold_left]. split; [reflexivity|]. split; [|reflexivity].
    intros [|i] z Hi; discriminate Hi.
  - cbn [load_consts]. destruct (load_consts ks h) as [vs h2]. cbn [fst snd] in *.
    destruct IH as [I1 [I2 I3]]. split; [exact I1|]. split.
    + intros [|i] z0 Hi; cbn [nth_error] in *; [inversion Hi; reflexivity|apply I2; exact Hi].
    + intros g. cbn [fold_left]. unfold maybe_trace at 2. cbn [is_heap_val val_loc]. apply I3.
Qed.

Lemma run_program_eq : forall orc bc budget consts h0 r s lhs out,
  load_consts (b_constants bc) empty_heap = (consts, h0) ->
  run_loop orc (mkProgram (b_code bc) consts) budget (vm_start vm_new consts h0) = (r, s, lhs) ->
  v_out s = out ->
  o_result (run_program orc bc budget) = r /\ o_out (run_program orc bc budget) = out.
Proof.
  intros orc bc budget consts h0 r s lhs out Hl Hr Ho. unfold run_program. rewrite Hl, Hr.
  split; [reflexivity|exact Ho].
Qed.

Lemma compile_inv : forall p bc, compile p = Ok bc ->
  exists st1, compile_statements p compiler_new = Ok st1 /\
              bc = mkBytecode (c_constants st1) (c_code st1 ++ [byte_of_opcode OHalt]).
Proof.
  intros p bc H. unfold compile, compile_ast in H.
  destruct (compile_statements p compiler_new) as [st1| | |]; cbn [snd] in H; try discriminate H.
  inversion H; subst; clear H. exists st1. split; reflexivity.
Qed.

Definition mst0 : mst := mkM empty_heap gc_new [].

(* what a run of the compiled program observes, in terms of the intermediate evaluator *)
Theorem compile_run_F1 : forall orc p bc, in_F1 p = true -> compile p = Ok bc ->
  match pexec orc symtab_new p mst0 VNull with
  | Ok (m', fin') => exists budget, o_result (run_program orc bc budget) = Ok fin'
                                    /\ o_out (run_program orc bc budget) = []
  | Err k => exists budget, o_result (run_program orc bc budget) = Err k
                            /\ o_out (run_program orc bc budget) = []
  | Fault f => exists budget, o_result (run_program orc bc budget) = Fault f
                              /\ o_out (run_program orc bc budget) = []
  | OutOfFuel => True
  end.
Proof.
  intros orc p bc HF H. destruct (compile_inv p bc H) as [st1 [Hc ->]]. clear H.
  assert (gtab (c_symbols compiler_new)) as Hg by (exists O, [[]]; reflexivity).
  destruct (compile_stmts_sim orc p HF compiler_new st1 Hg Hc) as [_ [ce [kx [Hce [Hkx [Hf Hsim]]]]]].
  cbn [compiler_new c_code c_constants app] in Hce, Hkx.
  destruct (load_consts_kint kx empty_heap Hf) as [L1 [L2 L3]].
  destruct (load_consts kx empty_heap) as [consts h0] eqn:El. cbn [fst snd] in L1, L2, L3. subst h0.
  set (prog := mkProgram (ce ++ [byte_of_opcode OHalt]) consts).
  set (s0 := vm_start vm_new consts empty_heap).
  assert (code_len st1 = zlength ce) as Lce by (unfold code_len; rewrite Hce; reflexivity).
  assert (code_at prog 0 ce) as Hcode by (exists [], [byte_of_opcode OHalt]; split; reflexivity).
  assert (consts_ok prog (c_constants st1)) as Hk.
  { rewrite Hkx. intros i z Hi. apply L2. exact Hi. }
  specialize (Hsim prog Hcode Hk s0 eq_refl).
  assert (mst_of s0 = mst0) as Em.
  { unfold s0, vm_start, mst_of, mst0. cbn [v_heap v_gc v_globals vm_new]. rewrite L3. reflexivity. }
  rewrite Em in Hsim. change (v_final s0) with VNull in Hsim.
  change (c_symbols compiler_new) with symtab_new in Hsim.
  assert (load_consts (b_constants (mkBytecode (c_constants st1) (c_code st1 ++ [byte_of_opcode OHalt])))
                      empty_heap = (consts, empty_heap)) as Hload.
  { cbn [b_constants]. rewrite Hkx. exact El. }
  assert (b_code (mkBytecode (c_constants st1) (c_code st1 ++ [byte_of_opcode OHalt])) = p_code prog) as Hbc.
  { cbn [b_code prog p_code]. rewrite Hce. reflexivity. }
  destruct (pexec orc symtab_new p mst0 VNull) as [[m' fin']| | |] eqn:Ep; cbn [sim_stmts retag] in Hsim.
  - destruct Hsim as [n Hn].
    destruct (pexec_scalar orc p HF symtab_new mst0 VNull m' fin') as [Sfin _]; auto.
    { constructor. }
    set (sF := setmf s0 (code_len st1) m' fin') in *.
    assert (code_at prog (v_ip sF) [byte_of_opcode OHalt]) as Hh.
    { exists ce, []. split; [reflexivity|]. symmetry. exact Lce. }
    destruct (step_halt orc prog sF [] Hh Sfin) as [s' [Hst Hout]].
    exists (n + 1)%nat. eapply run_program_eq; [exact Hload| |exact Hout].
    cbn [b_code]. rewrite Hce. fold prog. fold s0. rewrite (run_loop_reach orc prog n s0 sF 1 Hn).
    cbn [run_loop]. rewrite Hst. reflexivity.
  - destruct Hsim as [n [s1 [Hn [Hst Hout]]]].
    exists (n + 1)%nat. eapply run_program_eq; [exact Hload| |exact Hout].
    cbn [b_code]. rewrite Hce. fold prog. fold s0. rewrite (run_loop_reach orc prog n s0 s1 1 Hn).
    cbn [run_loop]. rewrite Hst. reflexivity.
  - destruct Hsim as [n [s1 [Hn [Hst Hout]]]].
    exists (n + 1)%nat. eapply run_program_eq; [exact Hload| |exact Hout].
    cbn [b_code]. rewrite Hce. fold prog. fold s0. rewrite (run_loop_reach orc prog n s0 s1 1 Hn).
    cbn [run_loop]. rewrite Hst. reflexivity.
  - exact I.
Qed.

Print Assumptions compile_expr_sim.
Print Assumptions compile_stmts_sim.
Print Assumptions compile_run_F1.
Print Assumptions peval_scalar.
