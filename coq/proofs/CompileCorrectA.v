(* CompileCorrectA.v - compiler correctness for the fragment F1 (property C01), part A:
   the code generator and the machine.

   An intermediate evaluator `peval` / `pexec` (names resolved through the compiler's own symbol
   table, variables held in a vector of global slots, heap and collector threaded the way the
   machine threads them) is simulated by the machine running the compiled code:
     - the emitted bytes decode to the right instructions at the right offsets,
     - constants are found at the index emitted,
     - operands are on the stack in the right order,
     - operator -> opcode -> method agrees with Sem.method_of.
   Part B (CompileCorrectB.v) relates `peval` / `pexec` to the definitional evaluator Sem.v. *)
From Coq Require Import ZArith Lia Bool List String.
From NL.Model Require Import VM.
From NL.Spec Require Import Sem Fragment ArithSpec.
From NL.Proofs Require Import WordProofs OpsProofs.
Open Scope Z_scope.

(** * Lists *)

Lemma zlength_app : forall A (a b : list A), zlength (a ++ b) = zlength a + zlength b.
Proof. intros. unfold zlength. rewrite app_length. lia. Qed.

Lemma zlength_nonneg : forall A (a : list A), 0 <= zlength a.
Proof. intros. unfold zlength. lia. Qed.

Lemma zlength_cons : forall A (x : A) l, zlength (x :: l) = 1 + zlength l.
Proof. intros. unfold zlength. cbn [length]. lia. Qed.

Lemma nth_error_app_at : forall A (pre ce post : list A) i b,
  nth_error ce i = Some b -> nth_error (pre ++ ce ++ post) (length pre + i) = Some b.
Proof.
  intros A pre ce post i b H.
  rewrite nth_error_app2 by lia.
  replace (length pre + i - length pre)%nat with i by lia.
  rewrite nth_error_app1; [exact H|]. apply nth_error_Some. rewrite H. discriminate.
Qed.

(** * The outcome monad *)

Lemma bind_ok : forall A B (e : outcome A) (k : A -> outcome B) r,
  bind e k = Ok r -> exists a, e = Ok a /\ k a = Ok r.
Proof. intros A B e k r H. destruct e; try discriminate H. eexists; split; [reflexivity|exact H]. Qed.

(** * Running the machine *)

Section Machine.
  Variable orc : oracle.
  Variable prog : program.

  (* n iterations of the dispatch loop, none of which halts *)
  Fixpoint steps (n : nat) (s : vm) : outcome vm :=
    match n with
    | O => Ok s
    | S n' =>
        match step orc prog s with
        | Ok (Continue s1) => steps n' s1
        | Ok (Halted _ _) => Fault FUnwrap
        | Err k => Err k
        | Fault f => Fault f
        | OutOfFuel => OutOfFuel
        end
    end.

  Definition reaches (s s' : vm) : Prop := exists n, steps n s = Ok s'.

  (* after finitely many instructions the machine is in a state whose next instruction does not
     complete normally: it answers x (an error, a fault); `out` is what has been printed by then *)
  Definition stops (s : vm) (x : outcome stepres) (out : text) : Prop :=
    exists n s1, steps n s = Ok s1 /\ step orc prog s1 = x /\ v_out s1 = out.

  Lemma steps_app : forall n m s s1, steps n s = Ok s1 -> steps (n + m) s = steps m s1.
  Proof.
    induction n as [|n IH]; intros m s s1 H; cbn [steps Nat.add] in *.
    - inversion H; reflexivity.
    - destruct (step orc prog s) as [[s2|v s2]| | |]; try discriminate H. apply IH; exact H.
  Qed.

  Lemma reaches_refl : forall s, reaches s s.
  Proof. intros s. exists O. reflexivity. Qed.

  Lemma reaches_trans : forall s1 s2 s3, reaches s1 s2 -> reaches s2 s3 -> reaches s1 s3.
  Proof.
    intros s1 s2 s3 [n Hn] [m Hm]. exists (n + m)%nat. rewrite (steps_app n m s1 s2 Hn). exact Hm.
  Qed.

  Lemma reaches_step : forall s s1, step orc prog s = Ok (Continue s1) -> reaches s s1.
  Proof. intros s s1 H. exists 1%nat. cbn [steps]. rewrite H. reflexivity. Qed.

  Lemma reaches_stops : forall s1 s2 x out, reaches s1 s2 -> stops s2 x out -> stops s1 x out.
  Proof.
    intros s1 s2 x out [n Hn] [m [s3 [Hm [Hx Ho]]]]. exists (n + m)%nat, s3.
    rewrite (steps_app n m s1 s2 Hn). auto.
  Qed.

  Lemma stops_now : forall s x, step orc prog s = x -> stops s x (v_out s).
  Proof. intros s x H. exists O, s. cbn [steps]. auto. Qed.

  (* the link with run_loop *)
  Lemma run_loop_reach : forall n s s1 b, steps n s = Ok s1 ->
    run_loop orc prog (n + b) s = run_loop orc prog b s1.
  Proof.
    induction n as [|n IH]; intros s s1 b H; cbn [steps Nat.add run_loop] in *.
    - inversion H; subst. reflexivity.
    - destruct (step orc prog s) as [[s2|v s2]| | |]; try discriminate H. apply IH; exact H.
  Qed.
End Machine.

(** * Code at an offset *)

Definition code_at (prog : program) (off : Z) (ce : list Z) : Prop :=
  exists pre post, p_code prog = pre ++ ce ++ post /\ zlength pre = off.

Lemma code_at_byte : forall prog off ce i b, code_at prog off ce ->
  nth_error ce i = Some b -> byte_at prog (off + Z.of_nat i) = Some b.
Proof.
  intros prog off ce i b [pre [post [Hc Hl]]] Hb. unfold byte_at.
  assert (0 <= off) as Hoff by (subst off; apply zlength_nonneg).
  destruct (off + Z.of_nat i <? 0) eqn:E; [apply Z.ltb_lt in E; lia|].
  rewrite Hc. subst off. unfold zlength.
  replace (Z.to_nat (Z.of_nat (length pre) + Z.of_nat i)) with (length pre + i)%nat by lia.
  apply nth_error_app_at; exact Hb.
Qed.

Lemma code_at_app : forall prog off c1 c2, code_at prog off (c1 ++ c2) ->
  code_at prog off c1 /\ code_at prog (off + zlength c1) c2.
Proof.
  intros prog off c1 c2 [pre [post [Hc Hl]]]. split.
  - exists pre, (c2 ++ post). rewrite Hc, <- app_assoc. auto.
  - exists (pre ++ c1), post. rewrite Hc, zlength_app, Hl, <- !app_assoc. auto.
Qed.

Lemma code_at_0 : forall prog off b rest, code_at prog off (b :: rest) -> byte_at prog off = Some b.
Proof.
  intros prog off b rest H. rewrite <- (Z.add_0_r off). apply (code_at_byte prog off (b :: rest) O b H).
  reflexivity.
Qed.
Lemma code_at_1 : forall prog off a b rest, code_at prog off (a :: b :: rest) -> byte_at prog (off + 1) = Some b.
Proof. intros prog off a b rest H. apply (code_at_byte prog off (a :: b :: rest) 1%nat b H). reflexivity. Qed.
Lemma code_at_2 : forall prog off a b c rest, code_at prog off (a :: b :: c :: rest) -> byte_at prog (off + 2) = Some c.
Proof. intros prog off a b c rest H. apply (code_at_byte prog off (a :: b :: c :: rest) 2%nat c H). reflexivity. Qed.

(** * Bytes *)

Lemma opcode_roundtrip : forall o, opcode_of_byte (byte_of_opcode o) = Some o.
Proof. destruct o; reflexivity. Qed.

Lemma u16_roundtrip : forall v, 0 <= v < 65536 -> v mod 256 + 256 * ((v / 256) mod 256) = v.
Proof.
  intros v Hv. rewrite (Z.mod_small (v / 256) 256).
  - pose proof (Z.div_mod v 256 ltac:(lia)). lia.
  - split; [apply Z.div_pos; lia|apply Z.div_lt_upper_bound; lia].
Qed.

Lemma operand16_ok : forall v idx, 0 <= v -> operand 16 v = Ok idx -> idx = v /\ 0 <= v < 65536.
Proof.
  intros v idx Hv H. unfold operand in H. change (2 ^ 16) with 65536 in H.
  destruct (v <? 65536) eqn:E; [|discriminate H]. apply Z.ltb_lt in E. inversion H. lia.
Qed.

(** * The part of the machine state an expression can change *)

Record mst : Type := mkM { m_heap : heap; m_gc : gc; m_gl : list val }.

Definition mst_of (s : vm) : mst := mkM (v_heap s) (v_gc s) (v_globals s).

Definition setm (s : vm) (stk : list val) (n ip : Z) (m : mst) : vm :=
  mkVM stk n (m_gl m) (v_frames s) ip (v_bp s) (v_final s) (m_heap m) (m_gc m) (v_out s).

(* VM.with_new on the three components *)
Definition with_new_m (m : mst) (r : val * heap) : mst :=
  let '(v, h') := r in
  mkM h' (if Pos.eqb (next_loc h') (next_loc (m_heap m)) then m_gc m else trace (m_gc m) v) (m_gl m).

(* OSetGlobal: the vector grows on demand *)
Definition set_global (n : nat) (v : val) (gl : list val) : list val :=
  replace_nth n v (if Nat.ltb n (length gl) then gl else gl ++ repeat_val VNull (S n - length gl)).

Definition set_global_m (n : nat) (v : val) (m : mst) : mst :=
  mkM (m_heap m) (m_gc m) (set_global n v (m_gl m)).

Lemma mst_eta : forall m, mkM (m_heap m) (m_gc m) (m_gl m) = m.
Proof. destruct m; reflexivity. Qed.

Lemma setm_eq : forall s stk n ip m n' ip' m', n = n' -> ip = ip' -> m = m' ->
  setm s stk n ip m = setm s stk n' ip' m'.
Proof. intros; subst; reflexivity. Qed.

(** * One instruction *)

Ltac vmcbn :=
  cbn [v_stack v_slen v_globals v_frames v_ip v_bp v_final v_heap v_gc v_out
       upd_stack upd_ip upd_heap upd_globals upd_final upd_out push pop bind fst snd
       m_heap m_gc m_gl mst_of setm].

Section Steps.
  Variable orc : oracle.
  Variable prog : program.

  Lemma read_u16_op : forall s op v rest, code_at prog (v_ip s) (op :: v mod 256 :: (v / 256) mod 256 :: rest) ->
    0 <= v < 65536 ->
    read_u16 prog (upd_ip s (v_ip s + 1)) = Ok (v, upd_ip s (v_ip s + 3)).
  Proof.
    intros s op v rest Hc Hv. unfold read_u16. vmcbn.
    rewrite (code_at_1 _ _ _ _ _ Hc).
    replace (v_ip s + 1 + 1) with (v_ip s + 2) by lia. rewrite (code_at_2 _ _ _ _ _ _ Hc).
    rewrite (u16_roundtrip v Hv). replace (v_ip s + 1 + 2) with (v_ip s + 3) by lia. reflexivity.
  Qed.

  Ltac decode Hc op :=
    unfold step; rewrite (code_at_0 _ _ _ _ Hc); rewrite (opcode_roundtrip op); cbv beta iota zeta.

  Lemma step_const : forall s v z rest,
    code_at prog (v_ip s) (byte_of_opcode OConst :: v mod 256 :: (v / 256) mod 256 :: rest) ->
    0 <= v < 65536 -> nth_error (p_consts prog) (Z.to_nat v) = Some (VInt z) ->
    step orc prog s = Ok (Continue (setm s (VInt z :: v_stack s) (v_slen s + 1) (v_ip s + 3) (mst_of s))).
  Proof.
    intros s v z rest Hc Hv Hk. decode Hc OConst.
    rewrite (read_u16_op s _ v rest Hc Hv). cbn [bind]. unfold get_const. rewrite Hk. cbn [bind].
    reflexivity.
  Qed.

  Lemma step_bool : forall s (b : bool) rest,
    code_at prog (v_ip s) (byte_of_opcode (if b then OTrue else OFalse) :: rest) ->
    step orc prog s = Ok (Continue (setm s (VBool b :: v_stack s) (v_slen s + 1) (v_ip s + 1) (mst_of s))).
  Proof.
    intros s b rest Hc. destruct b.
    - decode Hc OTrue. reflexivity.
    - decode Hc OFalse. reflexivity.
  Qed.

  Lemma step_get_global : forall s v rest,
    code_at prog (v_ip s) (byte_of_opcode OGetGlobal :: v mod 256 :: (v / 256) mod 256 :: rest) ->
    0 <= v < 65536 ->
    step orc prog s = Ok (Continue (setm s (nth (Z.to_nat v) (v_globals s) VNull :: v_stack s)
                                         (v_slen s + 1) (v_ip s + 3) (mst_of s))).
  Proof.
    intros s v rest Hc Hv. decode Hc OGetGlobal.
    rewrite (read_u16_op s _ v rest Hc Hv). reflexivity.
  Qed.

  Lemma step_set_global : forall s v x stk rest,
    code_at prog (v_ip s) (byte_of_opcode OSetGlobal :: v mod 256 :: (v / 256) mod 256 :: rest) ->
    0 <= v < 65536 -> v_stack s = x :: stk ->
    step orc prog s = Ok (Continue (setm s stk (v_slen s - 1) (v_ip s + 3)
                                         (set_global_m (Z.to_nat v) x (mst_of s)))).
  Proof.
    intros s v x stk rest Hc Hv Hs. decode Hc OSetGlobal.
    rewrite (read_u16_op s _ v rest Hc Hv). cbn [bind]. unfold pop. vmcbn. rewrite Hs. reflexivity.
  Qed.

  Lemma step_pop : forall s x stk rest,
    code_at prog (v_ip s) (byte_of_opcode OPop :: rest) -> v_stack s = x :: stk ->
    step orc prog s =
    Ok (Continue (mkVM stk (v_slen s - 1) (v_globals s) (v_frames s) (v_ip s + 1) (v_bp s) x
                       (v_heap s) (v_gc s) (v_out s))).
  Proof.
    intros s x stk rest Hc Hs. decode Hc OPop. unfold pop. vmcbn. rewrite Hs. reflexivity.
  Qed.

  Lemma step_not : forall s x stk rest,
    code_at prog (v_ip s) (byte_of_opcode ONot :: rest) -> v_stack s = x :: stk ->
    step orc prog s =
    match lognot x with
    | Ok r => Ok (Continue (setm s (r :: stk) (v_slen s - 1 + 1) (v_ip s + 1) (mst_of s)))
    | Err k => Err k | Fault f => Fault f | OutOfFuel => OutOfFuel
    end.
  Proof.
    intros s x stk rest Hc Hs. decode Hc ONot. unfold pop. vmcbn. rewrite Hs. vmcbn.
    destruct (lognot x); reflexivity.
  Qed.

  Lemma with_new_setm : forall s stk n ip r,
    push (fst r) (with_new (upd_stack (upd_ip s ip) stk n) r)
    = setm s (fst r :: stk) (n + 1) ip (with_new_m (mst_of s) r).
  Proof.
    intros s stk n ip [v h']. unfold with_new, with_new_m, push, upd_stack, upd_ip, upd_heap, setm, mst_of.
    cbn [v_stack v_slen v_globals v_frames v_ip v_bp v_final v_heap v_gc v_out m_heap m_gc m_gl fst].
    destruct (Pos.eqb (next_loc h') (next_loc (v_heap s))); reflexivity.
  Qed.

  Lemma upd_stack_twice : forall s a n b k, upd_stack (upd_stack s a n) b k = upd_stack s b k.
  Proof. reflexivity. Qed.

  Lemma step_negate : forall s x stk rest,
    code_at prog (v_ip s) (byte_of_opcode ONegate :: rest) -> v_stack s = x :: stk ->
    step orc prog s =
    match negate (v_heap s) x with
    | Ok r => Ok (Continue (setm s (fst r :: stk) (v_slen s - 1 + 1) (v_ip s + 1) (with_new_m (mst_of s) r)))
    | Err k => Err k | Fault f => Fault f | OutOfFuel => OutOfFuel
    end.
  Proof.
    intros s x stk rest Hc Hs. decode Hc ONegate. unfold pop. vmcbn. rewrite Hs. vmcbn.
    destruct (negate (v_heap s) x) as [r| | |]; try reflexivity. vmcbn.
    rewrite with_new_setm. reflexivity.
  Qed.

  Lemma step_binary : forall s opc m a b stk rest,
    code_at prog (v_ip s) (byte_of_opcode opc :: rest) ->
    assoc opcode_eqb opc binary_dispatch = Some m -> v_stack s = b :: a :: stk ->
    step orc prog s =
    match binop orc m (v_heap s) a b with
    | Ok r => Ok (Continue (setm s (fst r :: stk) (v_slen s - 1 - 1 + 1) (v_ip s + 1) (with_new_m (mst_of s) r)))
    | Err k => Err k | Fault f => Fault f | OutOfFuel => OutOfFuel
    end.
  Proof.
    intros s opc m a b stk rest Hc Hm Hs. pose proof Hm as Hm2.
    unfold step; rewrite (code_at_0 _ _ _ _ Hc); rewrite (opcode_roundtrip opc).
    destruct opc; cbv in Hm2; try discriminate Hm2; clear Hm2;
      cbv beta iota zeta; rewrite Hm; unfold binary, pop; vmcbn; rewrite Hs; vmcbn;
      (destruct (binop orc m (v_heap s) a b) as [r| | |]; try reflexivity; vmcbn;
       rewrite upd_stack_twice, with_new_setm; reflexivity).
  Qed.

  Lemma step_halt : forall s rest,
    code_at prog (v_ip s) (byte_of_opcode OHalt :: rest) -> scalar (v_final s) = true ->
    exists s', step orc prog s = Ok (Halted (v_final s) s') /\ v_out s' = v_out s.
  Proof.
    intros s rest Hc Hf. decode Hc OHalt. vmcbn.
    assert (forall g, untrace (v_heap s) g (v_final s) = Ok g) as Hu.
    { intros g. unfold untrace. cbn [untrace_fuel].
      assert (forall l, position_of (v_final s) l = None) as Hp.
      { induction l as [|x l IH]; cbn [position_of]; [reflexivity|].
        unfold same_box. destruct (v_final s); try discriminate Hf;
          (destruct (val_loc x); cbn [val_loc]; rewrite IH; reflexivity). }
      rewrite Hp. reflexivity. }
    rewrite Hu. cbn [bind]. eexists. split; [reflexivity|]. reflexivity.
  Qed.
End Steps.
