(* BuiltinsProofs.v - property C14: the seven builtins of Builtins.v are total and behave as
   documented.  Everything is proved for EVERY oracle (Section variable orc), every heap and
   every value.  Decimal text, trim and "{}" search lemmas are in DecimalProofs.v. *)
From Coq Require Import ZArith NArith Lia Bool List String Floats.
From Coq Require Uint63 Zpower.
From NL.Model Require Import Builtins.
From NL.Spec Require Import GCInv.
From NL.Proofs Require Import DecimalProofs.
Import ListNotations.
Close Scope string_scope.
Open Scope Z_scope.

(** * 0. The outcome monad and the heap *)

Lemma bind_ok_l : forall {A B} (e : outcome A) (k : A -> outcome B) a, e = Ok a -> bind e k = k a.
Proof. intros A B e k a ->. reflexivity. Qed.

Lemma val_ok_float : forall h l, val_ok h (VFloat l) = true -> exists x, get_float h l = Ok x.
Proof.
  intros h l H. unfold val_ok in H. unfold get_float, h_get.
  destruct (PM.find l (cells h)) as [[[|] [f|s|vs]]|]; try discriminate. eexists; reflexivity.
Qed.

Lemma val_ok_str : forall h l, val_ok h (VStr l) = true -> exists s, get_str h l = Ok s.
Proof.
  intros h l H. unfold val_ok in H. unfold get_str, h_get.
  destruct (PM.find l (cells h)) as [[[|] [f|s|vs]]|]; try discriminate. eexists; reflexivity.
Qed.

Lemma val_ok_arr : forall h l, val_ok h (VArr l) = true -> exists vs, get_arr h l = Ok vs.
Proof.
  intros h l H. unfold val_ok in H. unfold get_arr, h_get.
  destruct (PM.find l (cells h)) as [[[|] [f|s|vs]]|]; try discriminate. eexists; reflexivity.
Qed.

Lemma get_float_not_oof : forall h l, get_float h l <> OutOfFuel.
Proof. intros h l. unfold get_float, h_get.
  destruct (PM.find l (cells h)) as [[[|] [f|s|vs]]|]; discriminate. Qed.
Lemma get_str_not_oof : forall h l, get_str h l <> OutOfFuel.
Proof. intros h l. unfold get_str, h_get.
  destruct (PM.find l (cells h)) as [[[|] [f|s|vs]]|]; discriminate. Qed.
Lemma get_arr_not_oof : forall h l, get_arr h l <> OutOfFuel.
Proof. intros h l. unfold get_arr, h_get.
  destruct (PM.find l (cells h)) as [[[|] [f|s|vs]]|]; discriminate. Qed.

(* what an allocation does: the new box is at next_loc, alive, with the given contents; every
   other location is untouched *)
Lemma h_alloc_spec : forall h o,
  let '(l, h') := h_alloc h o in
  l = next_loc h /\ h_get h' l = Ok o /\
  (forall k, k <> l -> PM.find k (cells h') = PM.find k (cells h)) /\
  next_loc h' = Pos.succ (next_loc h) /\ n_alloc h' = n_alloc h + 1 /\ n_freed h' = n_freed h.
Proof.
  intros h o. unfold h_alloc. cbn [cells next_loc n_alloc n_freed].
  repeat split.
  - unfold h_get. cbn [cells]. rewrite PM.gss. reflexivity.
  - intros k Hk. apply PM.gso. exact Hk.
Qed.

Lemma alloc_str_spec : forall h s,
  exists h', alloc_str h s = (VStr (next_loc h), h') /\ get_str h' (next_loc h) = Ok s /\
             (forall k, k <> next_loc h -> PM.find k (cells h') = PM.find k (cells h)).
Proof.
  intros h s. unfold alloc_str. pose proof (h_alloc_spec h (OStr s)) as H.
  destruct (h_alloc h (OStr s)) as [l h']. destruct H as (-> & Hg & Ho & _).
  exists h'. repeat split; [|exact Ho]. unfold get_str. rewrite Hg. reflexivity.
Qed.

Lemma alloc_float_spec : forall h x,
  exists h', alloc_float h x = (VFloat (next_loc h), h') /\ get_float h' (next_loc h) = Ok x /\
             (forall k, k <> next_loc h -> PM.find k (cells h') = PM.find k (cells h)).
Proof.
  intros h x. unfold alloc_float. pose proof (h_alloc_spec h (OFloat x)) as H.
  destruct (h_alloc h (OFloat x)) as [l h']. destruct H as (-> & Hg & Ho & _).
  exists h'. repeat split; [|exact Ho]. unfold get_float. rewrite Hg. reflexivity.
Qed.

(* the integer range of the language lies inside isize *)
Lemma in_int_range_isize : forall z, in_int_range z = true -> - 2^63 <= z < 2^63.
Proof.
  intros z H. unfold in_int_range in H. apply andb_true_iff in H. destruct H as [H1 H2].
  apply Z.leb_le in H1, H2.
  assert (Hmin : - 2^63 <= MIN_INT) by (vm_compute; discriminate).
  assert (Hmax : MAX_INT < 2^63) by (vm_compute; reflexivity).
  lia.
Qed.

(** * 1. Display: joined text, nesting depth *)

(* str::join *)
Definition join (sep : text) (ts : list text) : text :=
  match ts with
  | [] => []
  | t :: r => t ++ concat (map (app sep) r)
  end.

(* "{}"-substitution, the specification of print: replace the first [length args] occurrences of
   "{}" in the FORMAT text from left to right; inserted text is never looked at again; surplus
   placeholders stay, surplus arguments are ignored *)
Fixpoint subst (fmt : text) (args : list text) {struct fmt} : text :=
  match fmt, args with
  | c :: r, a :: more =>
      match r with
      | d :: r' => if (c =? 123)%N && (d =? 125)%N then a ++ subst r' more else c :: subst r args
      | [] => fmt
      end
  | _, _ => fmt
  end.

Lemma subst_nil_args : forall fmt, subst fmt [] = fmt.
Proof. destruct fmt; reflexivity. Qed.

Lemma subst_no_ph : forall fmt args, ~ has_ph fmt -> subst fmt args = fmt.
Proof.
  induction fmt as [|c r IH]; intros args H; [reflexivity|].
  destruct args as [|a more]; [reflexivity|]. cbn [subst].
  destruct r as [|d r']; [reflexivity|].
  destruct ((c =? 123)%N && (d =? 125)%N) eqn:T.
  - apply ph_test_true in T. destruct T as [-> ->]. exfalso. apply H. exists [], r'. reflexivity.
  - f_equal. apply IH. intro Hp. apply H, has_ph_cons, Hp.
Qed.

(* the key equation: the first placeholder is replaced by the first argument VERBATIM (the
   argument text t is arbitrary - it may itself contain "{}"), and substitution goes on in the
   text AFTER the placeholder with the remaining arguments *)
Lemma subst_first : forall a b t more, ~ has_ph a ->
  subst (a ++ ph ++ b) (t :: more) = a ++ t ++ subst b more.
Proof.
  induction a as [|c a IH]; intros b t more H; [reflexivity|].
  cbn [app]. cbn [subst].
  destruct (a ++ ph ++ b) as [|d r'] eqn:E; [destruct a; discriminate|].
  destruct ((c =? 123)%N && (d =? 125)%N) eqn:T.
  - exfalso. apply ph_test_true in T. destruct T as [-> ->].
    destruct a as [|d' a'].
    + cbn in E. inversion E.
    + cbn [app] in E. inversion E; subst. apply H. exists [], a'. reflexivity.
  - f_equal. rewrite <- E. apply IH. intro Hp. apply H, has_ph_cons, Hp.
Qed.

(* every text decomposes uniquely at its first placeholder, so subst_nil_args, subst_no_ph and
   subst_first determine subst completely *)
Lemma first_ph_decompose : forall s, ~ has_ph s \/ exists a b, s = a ++ ph ++ b /\ ~ has_ph a.
Proof.
  intros s. destruct (find_placeholder s) as [[a b]|] eqn:F.
  - right. exists a, b. apply find_placeholder_some, F.
  - left. apply find_placeholder_none, F.
Qed.


(** * 1b. Float <-> integer: truncation (item 4) *)

(* A finite float is (-1)^s * m * 2^e = sf_num / sf_den; `as isize` is Z.quot (division rounding
   toward zero) of that fraction, saturated to the isize range. *)
Definition sf_num (s : bool) (m : positive) (e : Z) : Z := (if s then - Zpos m else Zpos m) * 2 ^ Z.max e 0.
Definition sf_den (e : Z) : Z := 2 ^ Z.max (- e) 0.
Definition clamp_isize (z : Z) : Z := if z <? - HALF then - HALF else if HALF - 1 <? z then HALF - 1 else z.

Theorem trunc_float_spec : forall x s m e, Prim2SF x = S754_finite s m e ->
  trunc_float x = clamp_isize (Z.quot (sf_num s m e) (sf_den e)).
Proof.
  intros x s m e H. unfold trunc_float. rewrite H. unfold sf_num, sf_den. fold (clamp_isize).
  destruct (0 <=? e) eqn:He.
  - apply Z.leb_le in He. rewrite (Z.max_l e 0), (Z.max_r (- e) 0) by lia.
    rewrite Z.pow_0_r, Z.quot_1_r.
    destruct s; [rewrite Z.mul_opp_l|]; reflexivity.
  - apply Z.leb_gt in He. rewrite (Z.max_r e 0), (Z.max_l (- e) 0) by lia.
    rewrite Z.pow_0_r, Z.mul_1_r.
    assert (Hp : 0 < 2 ^ (- e)) by (apply Z.pow_pos_nonneg; lia).
    destruct s.
    + rewrite Z.quot_opp_l by lia. rewrite Z.quot_div_nonneg by lia. reflexivity.
    + rewrite Z.quot_div_nonneg by lia. reflexivity.
Qed.

(* NaN converts to 0 and the infinities saturate (Rust `as`); int() then rejects the saturated
   values because they are outside [MIN_INT, MAX_INT] *)
Lemma trunc_float_nan : trunc_float nan = 0.
Proof. reflexivity. Qed.
Lemma trunc_float_infinity : trunc_float infinity = 2 ^ 63 - 1 /\ trunc_float neg_infinity = - 2 ^ 63.
Proof. split; reflexivity. Qed.

(* integers up to 2^53 in magnitude survive int -> float -> int.  Uses the standard-library
   axioms FloatAxioms.of_uint63_spec, FloatAxioms.opp_spec and Uint63.of_Z_spec (and the Uint63
   axioms the latter rests on). *)
Lemma digits2_pos_bounds : forall m,
  2 ^ (Zpos (digits2_pos m) - 1) <= Zpos m < 2 ^ Zpos (digits2_pos m).
Proof.
  induction m as [p IH|p IH|]; cbn [digits2_pos].
  - rewrite Pos2Z.inj_succ. replace (Z.succ (Zpos (digits2_pos p)) - 1) with (Z.succ (Zpos (digits2_pos p) - 1)) by lia.
    rewrite !Z.pow_succ_r by lia. lia.
  - rewrite Pos2Z.inj_succ. replace (Z.succ (Zpos (digits2_pos p)) - 1) with (Z.succ (Zpos (digits2_pos p) - 1)) by lia.
    rewrite !Z.pow_succ_r by lia. lia.
  - cbn. lia.
Qed.

Lemma digits2_shift : forall k m, digits2_pos (shift_pos k m) = (digits2_pos m + k)%positive.
Proof.
  intros k m. unfold shift_pos. induction k as [|k IH] using Pos.peano_ind.
  - cbn. lia.
  - rewrite Pos.iter_succ. cbn [digits2_pos]. rewrite IH. lia.
Qed.

Lemma binary_round_aux_exact : forall s mz ez,
  Zpos (digits2_pos mz) = 53 -> -1074 <= ez <= 971 ->
  binary_round_aux FloatOps.prec FloatOps.emax s (Zpos mz) ez loc_Exact = S754_finite s mz ez.
Proof.
  intros s mz ez Hd He.
  assert (Hf : fexp FloatOps.prec FloatOps.emax (Zdigits2 (Zpos mz) + ez) - ez = 0).
  { unfold fexp, emin, FloatOps.prec, FloatOps.emax, Zdigits2. rewrite Hd. lia. }
  unfold binary_round_aux.
  unfold shr_fexp at 1. rewrite Hf. cbn [shr shr_record_of_loc].
  cbn [shr_m loc_of_shr_record round_nearest_even].
  unfold shr_fexp. rewrite Hf. cbn [shr shr_record_of_loc shr_m].
  unfold FloatOps.prec, FloatOps.emax. replace (Zle_bool ez (1024 - 53)) with true; [reflexivity|].
  symmetry. apply Zle_imp_le_bool. lia.
Qed.

Lemma binary_round_small : forall s m, Zpos m < 2 ^ 53 ->
  exists mz ez, binary_round FloatOps.prec FloatOps.emax s m 0 = S754_finite s mz ez /\ ez <= 0 /\ -53 < ez /\
                Zpos mz = Zpos m * 2 ^ (- ez).
Proof.
  intros s m Hm.
  pose proof (digits2_pos_bounds m) as [Hlo Hhi].
  assert (Hd : Zpos (digits2_pos m) <= 53).
  { destruct (Z_le_gt_dec (Zpos (digits2_pos m)) 53) as [L|G]; [exact L|]. exfalso.
    assert (2 ^ 53 <= 2 ^ (Zpos (digits2_pos m) - 1)) by (apply Z.pow_le_mono_r; lia). lia. }
  unfold binary_round.
  assert (Hfe : fexp FloatOps.prec FloatOps.emax (Zpos (digits2_pos m) + 0) = Zpos (digits2_pos m) - 53).
  { unfold fexp, emin, FloatOps.prec, FloatOps.emax. lia. }
  rewrite Hfe. unfold shl_align.
  destruct (Zpos (digits2_pos m) - 53 - 0) as [|k|k] eqn:Ek; [| lia |].
  - exists m, 0. rewrite binary_round_aux_exact by lia. repeat split; try lia.
  - exists (shift_pos k m), (Zpos (digits2_pos m) - 53).
    rewrite binary_round_aux_exact.
    + repeat split; try lia. rewrite Zpower.shift_pos_correct, Zpower.Zpower_pos_nat, Zpower.Zpower_nat_Z, positive_nat_Z.
      replace (- (Zpos (digits2_pos m) - 53)) with (Zpos k) by lia. lia.
    + rewrite digits2_shift. lia.
    + lia.
Qed.

Definition trunc_sf (f : spec_float) : Z :=
  match f with
  | S754_zero _ => 0
  | S754_nan => 0
  | S754_infinity s => if s then - HALF else HALF - 1
  | S754_finite s m e =>
      let mag := if 0 <=? e then Zpos m * 2 ^ e else Zpos m / 2 ^ (- e) in
      let z := if s then - mag else mag in
      if z <? - HALF then - HALF else if HALF - 1 <? z then HALF - 1 else z
  end.

Lemma trunc_float_sf : forall x, trunc_float x = trunc_sf (Prim2SF x).
Proof. reflexivity. Qed.

Lemma trunc_sf_exact : forall s mz ez m, ez <= 0 -> Zpos mz = m * 2 ^ (- ez) -> 0 <= m < 2 ^ 53 ->
  trunc_sf (S754_finite s mz ez) = if s then - m else m.
Proof.
  intros s mz ez m He Hm Hr. cbn [trunc_sf].
  assert (Hmag : (if 0 <=? ez then Zpos mz * 2 ^ ez else Zpos mz / 2 ^ (- ez)) = m).
  { destruct (0 <=? ez) eqn:E.
    - apply Z.leb_le in E. assert (ez = 0) by lia. subst ez. cbn in Hm. rewrite Z.pow_0_r. lia.
    - rewrite Hm. apply Z.div_mul. apply Z.pow_nonzero; lia. }
  rewrite Hmag. cbv zeta. unfold HALF.
  assert (H53 : 2 ^ 53 < 2 ^ 63) by (apply Z.pow_lt_mono_r; lia).
  destruct s.
  - destruct (- m <? - 2 ^ 63) eqn:E1; [apply Z.ltb_lt in E1; lia|].
    destruct (2 ^ 63 - 1 <? - m) eqn:E2; [apply Z.ltb_lt in E2; lia|]. reflexivity.
  - destruct (m <? - 2 ^ 63) eqn:E1; [apply Z.ltb_lt in E1; lia|].
    destruct (2 ^ 63 - 1 <? m) eqn:E2; [apply Z.ltb_lt in E2; lia|]. reflexivity.
Qed.

Lemma of_uint63_small : forall n, Uint63.to_Z n < 2 ^ 53 ->
  trunc_sf (Prim2SF (PrimFloat.of_uint63 n)) = Uint63.to_Z n /\ trunc_sf (SFopp (Prim2SF (PrimFloat.of_uint63 n))) = - Uint63.to_Z n.
Proof.
  intros n Hn. rewrite FloatAxioms.of_uint63_spec. pose proof (Uint63.to_Z_bounded n) as Hb.
  destruct (Uint63.to_Z n) as [|m|m] eqn:E; [split; reflexivity | | lia].
  cbn [binary_normalize].
  destruct (binary_round_small false m Hn) as (mz & ez & Hbr & He1 & He2 & Hmz).
  rewrite Hbr. cbn [SFopp]. split.
  - rewrite (trunc_sf_exact false mz ez (Zpos m)); [reflexivity | lia | exact Hmz | lia].
  - rewrite (trunc_sf_exact (negb false) mz ez (Zpos m)); [reflexivity | lia | exact Hmz | lia].
Qed.

Theorem trunc_float_of_int : forall z, Z.abs z <= 2 ^ 53 -> trunc_float (float_of_int z) = z.
Proof.
  intros z Hz.
  assert (H53 : 2 ^ 53 < Uint63.wB) by (vm_compute; reflexivity).
  destruct (Z.eq_dec z (2 ^ 53)) as [->|N1]; [vm_compute; reflexivity|].
  destruct (Z.eq_dec z (- 2 ^ 53)) as [->|N2]; [vm_compute; reflexivity|].
  unfold float_of_int. rewrite trunc_float_sf. destruct (z <? 0) eqn:Hs.
  - apply Z.ltb_lt in Hs. rewrite FloatAxioms.opp_spec.
    assert (Hn : Uint63.to_Z (Uint63.of_Z (- z)) = - z) by (rewrite Uint63.of_Z_spec; apply Z.mod_small; lia).
    destruct (of_uint63_small (Uint63.of_Z (- z))) as [_ H]; [lia|]. rewrite H, Hn. lia.
  - apply Z.ltb_ge in Hs.
    assert (Hn : Uint63.to_Z (Uint63.of_Z z) = z) by (rewrite Uint63.of_Z_spec; apply Z.mod_small; lia).
    destruct (of_uint63_small (Uint63.of_Z z)) as [H _]; [lia|]. rewrite H, Hn. reflexivity.
Qed.

Example trunc_float_of_int_tight :
  trunc_float (float_of_int (2 ^ 53 + 1)) = 2 ^ 53.
Proof. vm_compute. reflexivity. Qed.

Section WithOracle.
  Variable orc : oracle.

  (* the element loop inside show_val *)
  Definition show_list (f : nat) (h : heap) : list val -> bool -> outcome text :=
    fix go (l : list val) (first : bool) : outcome text :=
      match l with
      | [] => Ok []
      | x :: r =>
          do t <- show_val orc f h x;
          do rest <- go r false;
          Ok ((if first then [] else str_cps display_separator) ++ t ++ rest)
      end.

  Lemma show_val_S : forall f h v,
    show_val orc (S f) h v =
    match v with
    | VNull => Ok []
    | VBool b => Ok (str_cps (if b then display_true else display_false))
    | VInt z => Ok (show_Z z)
    | VFun _ _ => Ok (str_cps display_function)
    | VFloat l => do x <- get_float h l; Ok (show_float orc x)
    | VStr l => get_str h l
    | VArr l => do vs <- get_arr h l; do body <- show_list f h vs true; Ok (91%N :: body ++ [93%N])
    end.
  Proof. reflexivity. Qed.

  Lemma show_list_cons : forall f h x r first,
    show_list f h (x :: r) first =
    do t <- show_val orc f h x; do rest <- show_list f h r false;
    Ok ((if first then [] else str_cps display_separator) ++ t ++ rest).
  Proof. reflexivity. Qed.

  Definition sep_text : text := str_cps display_separator.

  Lemma show_list_spec : forall f h vs ts first,
    Forall2 (fun v t => show_val orc f h v = Ok t) vs ts ->
    show_list f h vs first = Ok (if first then join sep_text ts else concat (map (app sep_text) ts)).
  Proof.
    intros f h vs ts first H. revert first. induction H as [|v t vs ts Hv Hr IH]; intros first.
    - destruct first; reflexivity.
    - rewrite show_list_cons, Hv. cbn [bind]. rewrite (IH false). cbn [bind].
      destruct first; cbn [join map concat app]; [reflexivity|].
      fold sep_text. rewrite <- app_assoc. reflexivity.
  Qed.

  Lemma show_list_ok_inv : forall f h vs first body,
    show_list f h vs first = Ok body ->
    exists ts, Forall2 (fun v t => show_val orc f h v = Ok t) vs ts.
  Proof.
    intros f h vs. induction vs as [|v vs IH]; intros first body H.
    - exists []. constructor.
    - rewrite show_list_cons in H.
      destruct (show_val orc f h v) as [t| | |] eqn:Hv; try discriminate. cbn [bind] in H.
      destruct (show_list f h vs false) as [rest| | |] eqn:Hr; try discriminate.
      destruct (IH _ _ Hr) as (ts & Hts). exists (t :: ts). constructor; assumption.
  Qed.

  (** ** display of scalars and arrays (item 9) *)

  Theorem display_int : forall h z, display orc h (VInt z) = Ok (show_Z z).
  Proof. reflexivity. Qed.
  Theorem display_bool : forall h b,
    display orc h (VBool b) = Ok (str_cps (if b then "ja" else "nee")%string).
  Proof. intros h [|]; reflexivity. Qed.
  Theorem display_null : forall h, display orc h VNull = Ok [].
  Proof. reflexivity. Qed.
  Theorem display_fun : forall h ip n, display orc h (VFun ip n) = Ok (str_cps "functie"%string).
  Proof. reflexivity. Qed.
  Theorem display_str : forall h l s, get_str h l = Ok s -> display orc h (VStr l) = Ok s.
  Proof. intros h l s H. exact H. Qed.
  Theorem display_float : forall h l x, get_float h l = Ok x ->
    display orc h (VFloat l) = Ok (show_float orc x).
  Proof. intros h l x H. unfold display, show_depth. rewrite show_val_S, H. reflexivity. Qed.

  (* an array is "[" elements joined by ", " "]", the elements displayed with one unit of fuel less *)
  Theorem show_val_arr : forall f h l vs ts, get_arr h l = Ok vs ->
    Forall2 (fun v t => show_val orc f h v = Ok t) vs ts ->
    show_val orc (S f) h (VArr l) = Ok ([91%N] ++ join (str_cps ", "%string) ts ++ [93%N]).
  Proof.
    intros f h l vs ts Hg Hts. rewrite show_val_S, Hg. cbn [bind].
    rewrite (show_list_spec _ _ _ _ true Hts). reflexivity.
  Qed.

  (** ** fuel: safety, nesting depth *)

  (* every value reachable from v through at most n levels of arrays points to a live box of the
     kind its tag says (cyclic arrays satisfy this for every n) *)
  Fixpoint reach_ok (h : heap) (n : nat) (v : val) : Prop :=
    match n with
    | O => True
    | S m => val_ok h v = true /\
             match v with
             | VArr l => forall vs, get_arr h l = Ok vs -> Forall (reach_ok h m) vs
             | _ => True
             end
    end.

  (* v is nested at most n deep: a scalar has depth 1, an array one more than its deepest
     element.  A cyclic array has no depth (depth_le_cyclic below). *)
  Fixpoint depth_le (h : heap) (n : nat) (v : val) : Prop :=
    match n with
    | O => False
    | S m => match v with
             | VArr l => forall vs, get_arr h l = Ok vs -> Forall (depth_le h m) vs
             | _ => True
             end
    end.

  Lemma depth_le_mono : forall h n v, depth_le h n v -> depth_le h (S n) v.
  Proof.
    intros h n. induction n as [|n IH]; intros v H; [destruct H|].
    cbn [depth_le] in *. destruct v; try exact I.
    intros vs Hg. specialize (H vs Hg). eapply Forall_impl; [|exact H]. exact IH.
  Qed.

  Definition safe_outcome {A} (r : outcome A) : Prop := (exists t, r = Ok t) \/ r = OutOfFuel.

  Lemma show_list_safe : forall f h vs first,
    Forall (fun v => safe_outcome (show_val orc f h v)) vs -> safe_outcome (show_list f h vs first).
  Proof.
    intros f h vs first H. revert first. induction H as [|v vs Hv Hr IH]; intros first.
    - left. eexists; reflexivity.
    - rewrite show_list_cons. destruct Hv as [[t Hv]|Hv]; rewrite Hv; cbn [bind]; [|right; reflexivity].
      destruct (IH false) as [[rest Hrest]|Hrest]; rewrite Hrest; cbn [bind].
      + left. eexists; reflexivity.
      + right; reflexivity.
  Qed.

  (* no Fault and no error while displaying, whatever the fuel *)
  Theorem show_val_safe : forall n h v, reach_ok h n v -> safe_outcome (show_val orc n h v).
  Proof.
    induction n as [|n IH]; intros h v H; [right; reflexivity|].
    destruct H as [Hok Hsub]. rewrite show_val_S. destruct v as [| b | z | ip k | l | l | l].
    1-4: left; eexists; reflexivity.
    - destruct (val_ok_float _ _ Hok) as (x & Hx). rewrite Hx. left. eexists; reflexivity.
    - destruct (val_ok_str _ _ Hok) as (s & Hs). rewrite Hs. left. eexists; reflexivity.
    - destruct (val_ok_arr _ _ Hok) as (vs & Hvs). rewrite Hvs. cbn [bind].
      specialize (Hsub vs Hvs).
      assert (Hl : safe_outcome (show_list n h vs true)).
      { apply show_list_safe. eapply Forall_impl; [|exact Hsub]. intros a Ha. apply IH, Ha. }
      destruct Hl as [[body Hb]|Hb]; rewrite Hb; cbn [bind].
      + left. eexists; reflexivity.
      + right; reflexivity.
  Qed.

  Lemma show_list_not_oof : forall f h vs first,
    Forall (fun v => show_val orc f h v <> OutOfFuel) vs -> show_list f h vs first <> OutOfFuel.
  Proof.
    intros f h vs first H. revert first. induction H as [|v vs Hv Hr IH]; intros first.
    - discriminate.
    - rewrite show_list_cons. destruct (show_val orc f h v) eqn:E; cbn [bind]; try discriminate; [|congruence].
      specialize (IH false). destruct (show_list f h vs false); cbn [bind]; try discriminate. congruence.
  Qed.

  (* the fuel runs out ONLY on a value nested deeper than the fuel *)
  Theorem show_val_oof_depth : forall n h v, depth_le h n v -> show_val orc n h v <> OutOfFuel.
  Proof.
    induction n as [|n IH]; intros h v H; [destruct H|].
    rewrite show_val_S. destruct v as [| b | z | ip k | l | l | l]; try discriminate.
    - pose proof (get_float_not_oof h l). destruct (get_float h l); cbn [bind]; try discriminate. congruence.
    - apply get_str_not_oof.
    - cbn [depth_le] in H. pose proof (get_arr_not_oof h l).
      destruct (get_arr h l) as [vs| | |] eqn:Hg; cbn [bind]; try discriminate; [|congruence].
      specialize (H vs eq_refl).
      assert (Hl : show_list n h vs true <> OutOfFuel).
      { apply show_list_not_oof. eapply Forall_impl; [|exact H]. intros a Ha. apply IH, Ha. }
      destruct (show_list n h vs true); cbn [bind]; try discriminate. congruence.
  Qed.

  (* ... and a successful display proves the nesting bound *)
  Theorem show_val_ok_depth : forall n h v t, show_val orc n h v = Ok t -> depth_le h n v.
  Proof.
    induction n as [|n IH]; intros h v t H; [discriminate|].
    rewrite show_val_S in H. cbn [depth_le]. destruct v as [| b | z | ip k | l | l | l]; try exact I.
    intros vs Hg. rewrite Hg in H. cbn [bind] in H.
    destruct (show_list n h vs true) as [body| | |] eqn:Hl; try discriminate.
    destruct (show_list_ok_inv _ _ _ _ _ Hl) as (ts & Hts).
    clear - Hts IH. induction Hts as [|v t' vs ts Hv Hr IHr]; constructor; [eapply IH, Hv | exact IHr].
  Qed.

  (* exact characterisation: on a well-formed heap graph, display succeeds iff the value is
     nested at most [fuel] deep, and otherwise runs out of fuel *)
  Theorem show_val_total : forall n h v, reach_ok h n v ->
    (depth_le h n v -> exists t, show_val orc n h v = Ok t) /\
    (~ depth_le h n v -> show_val orc n h v = OutOfFuel).
  Proof.
    intros n h v H. destruct (show_val_safe n h v H) as [[t Ht]|Ht]; split.
    - intros _. exists t. exact Ht.
    - intros Hd. exfalso. apply Hd. eapply show_val_ok_depth, Ht.
    - intros Hd. exfalso. exact (show_val_oof_depth _ _ _ Hd Ht).
    - intros _. exact Ht.
  Qed.

  (* more fuel does not change a successful display *)
  Lemma show_list_fuel_mono : forall n h,
    (forall v t, show_val orc n h v = Ok t -> show_val orc (S n) h v = Ok t) ->
    forall vs first body, show_list n h vs first = Ok body -> show_list (S n) h vs first = Ok body.
  Proof.
    intros n h IH vs. induction vs as [|v vs IHvs]; intros first body H; [exact H|].
    rewrite show_list_cons in *.
    destruct (show_val orc n h v) as [t| | |] eqn:Hv; try discriminate.
    rewrite (IH _ _ Hv). cbn [bind] in *.
    destruct (show_list n h vs false) as [rest| | |] eqn:Hr; try discriminate.
    rewrite (IHvs _ _ Hr). exact H.
  Qed.

  Theorem show_val_fuel_mono : forall n h v t,
    show_val orc n h v = Ok t -> show_val orc (S n) h v = Ok t.
  Proof.
    induction n as [|n IH]; intros h v t H; [discriminate|].
    rewrite show_val_S in H. rewrite show_val_S.
    destruct v as [| b | z | ip k | l | l | l]; try exact H.
    destruct (get_arr h l) as [vs| | |]; try discriminate. cbn [bind] in *.
    destruct (show_list n h vs true) as [body| | |] eqn:Hl; try discriminate.
    rewrite (show_list_fuel_mono n h (fun v t => IH h v t) _ _ _ Hl). exact H.
  Qed.

  (* the fuel-free recursive reading of Display for arrays: whenever an array displays, each of
     its elements displays, and the text is "[" ++ the element texts joined by ", " ++ "]" *)
  Theorem display_arr : forall h l vs T, get_arr h l = Ok vs -> display orc h (VArr l) = Ok T ->
    exists ts, Forall2 (fun v t => display orc h v = Ok t) vs ts /\
               T = [91%N] ++ join (str_cps ", "%string) ts ++ [93%N].
  Proof.
    intros h l vs T Hg H. unfold display, show_depth in *.
    rewrite show_val_S, Hg in H. cbn [bind] in H.
    destruct (show_list 1999 h vs true) as [body| | |] eqn:Hl; try discriminate.
    destruct (show_list_ok_inv _ _ _ _ _ Hl) as (ts & Hts).
    rewrite (show_list_spec _ _ _ _ true Hts) in Hl. inversion Hl; subst body.
    cbn [bind] in H. inversion H; subst T. exists ts. split; [|reflexivity].
    clear - Hts. induction Hts as [|v t vs ts Hv Hr IH]; constructor; [|exact IH].
    apply show_val_fuel_mono, Hv.
  Qed.

  (** * 2. print *)

  Lemma fill_spec : forall h args ts rest,
    Forall2 (fun v t => display orc h v = Ok t) args ts ->
    fill orc h rest args = Ok (subst rest ts).
  Proof.
    intros h args ts rest H. revert rest. induction H as [|v t args ts Hv Hr IH]; intros rest.
    - cbn [fill]. rewrite subst_nil_args. reflexivity.
    - cbn [fill]. destruct (find_placeholder rest) as [[before after]|] eqn:F.
      + apply find_placeholder_some in F. destruct F as [-> Hn].
        rewrite Hv. cbn [bind]. rewrite IH. cbn [bind]. rewrite subst_first by exact Hn. reflexivity.
      + apply find_placeholder_none in F. rewrite subst_no_ph by exact F. reflexivity.
  Qed.

  (* item 7: print writes the format text with its placeholders filled, then a newline *)
  Theorem print_spec : forall h a0 rest t0 ts,
    display orc h a0 = Ok t0 ->
    Forall2 (fun v t => display orc h v = Ok t) rest ts ->
    call_print orc h (a0 :: rest) = Ok (subst t0 ts ++ [10%N]).
  Proof.
    intros h a0 rest t0 ts H0 Hr. cbn [call_print]. rewrite H0. cbn [bind].
    rewrite (fill_spec _ _ _ _ Hr). reflexivity.
  Qed.

  Theorem print_nil : forall h, call_print orc h [] = Ok [10%N].
  Proof. reflexivity. Qed.

  Theorem print_builtin : forall h args,
    call_builtin orc BPrint h args = do t <- call_print orc h args; Ok (VNull, h, t).
  Proof. reflexivity. Qed.

  (* print never faults; it can only run out of display fuel *)
  Lemma fill_safe : forall h args rest,
    Forall (reach_ok h show_depth) args -> safe_outcome (fill orc h rest args).
  Proof.
    intros h args rest H. revert rest. induction H as [|v args Hv Hr IH]; intros rest.
    - left. eexists; reflexivity.
    - cbn [fill]. destruct (find_placeholder rest) as [[before after]|]; [|left; eexists; reflexivity].
      destruct (show_val_safe _ _ _ Hv) as [[t Ht]|Ht]; unfold display; rewrite Ht; cbn [bind];
        [|right; reflexivity].
      destruct (IH after) as [[tl Htl]|Htl]; rewrite Htl; cbn [bind];
        [left; eexists; reflexivity | right; reflexivity].
  Qed.

  Theorem print_safe : forall h args,
    Forall (reach_ok h show_depth) args -> safe_outcome (call_print orc h args).
  Proof.
    intros h [|a0 rest] H; [left; eexists; reflexivity|].
    inversion H as [|? ? H0 Hr]; subst. cbn [call_print].
    destruct (show_val_safe _ _ _ H0) as [[t Ht]|Ht]; unfold display; rewrite Ht; cbn [bind];
      [|right; reflexivity].
    destruct (fill_safe h rest t Hr) as [[s Hs]|Hs]; rewrite Hs; cbn [bind];
      [left; eexists; reflexivity | right; reflexivity].
  Qed.

  Lemma fill_oof : forall h args rest, fill orc h rest args = OutOfFuel ->
    exists v, In v args /\ display orc h v = OutOfFuel.
  Proof.
    intros h args. induction args as [|v args IH]; intros rest H; [discriminate|].
    cbn [fill] in H. destruct (find_placeholder rest) as [[before after]|]; [|discriminate].
    destruct (display orc h v) as [t| | |] eqn:Hv; cbn [bind] in H; try discriminate.
    - destruct (fill orc h after args) as [tl| | |] eqn:Hf; cbn [bind] in H; try discriminate.
      destruct (IH _ Hf) as (w & Hin & Hw). exists w. split; [right; exact Hin | exact Hw].
    - exists v. split; [left; reflexivity | exact Hv].
  Qed.

  (* when print runs out of fuel, one of its arguments is nested deeper than show_depth *)
  Theorem print_oof : forall h args, call_print orc h args = OutOfFuel ->
    exists v, In v args /\ display orc h v = OutOfFuel /\ ~ depth_le h show_depth v.
  Proof.
    intros h [|a0 rest] H; [discriminate|]. cbn [call_print] in H.
    assert (Hd : forall v, display orc h v = OutOfFuel -> ~ depth_le h show_depth v).
    { intros v Hv Hdep. exact (show_val_oof_depth _ _ _ Hdep Hv). }
    destruct (display orc h a0) as [t| | |] eqn:H0; cbn [bind] in H; try discriminate.
    - destruct (fill orc h t rest) as [s| | |] eqn:Hf; cbn [bind] in H; try discriminate.
      destruct (fill_oof _ _ _ Hf) as (w & Hin & Hw). exists w. split; [right; exact Hin|].
      split; [exact Hw | apply Hd, Hw].
    - exists a0. split; [left; reflexivity|]. split; [exact H0 | apply Hd, H0].
  Qed.

  Theorem print_total : forall h args,
    Forall (reach_ok h show_depth) args -> Forall (depth_le h show_depth) args ->
    exists t, call_print orc h args = Ok t.
  Proof.
    intros h args Hok Hd. destruct (print_safe h args Hok) as [[t Ht]|Ht]; [exists t; exact Ht|].
    exfalso. destruct (print_oof _ _ Ht) as (v & Hin & _ & Hn).
    apply Hn. rewrite Forall_forall in Hd. apply Hd, Hin.
  Qed.

  (** * 3. Arity, totality (items 1 and 2) *)

  Lemma one_arg_arity : forall A (k : val -> outcome A) args,
    length args <> 1%nat -> one_arg args k = Err EArgumentError.
  Proof. intros A k [|a [|b r]] H; try reflexivity. exfalso. apply H. reflexivity. Qed.

  Theorem arity_error : forall b h args, b <> BPrint -> length args <> 1%nat ->
    call_builtin orc b h args = Err EArgumentError.
  Proof.
    intros b h args Hb Hl. destruct b; try congruence; cbn [call_builtin];
      unfold call_type, call_bool, call_float, call_int, call_string, call_length;
      rewrite one_arg_arity by exact Hl; reflexivity.
  Qed.

  (* the outcomes a builtin may have: a result, or one of the two documented errors *)
  Definition benign {A} (r : outcome A) : Prop :=
    match r with
    | Ok _ => True
    | Err EArgumentError | Err ETypeError => True
    | _ => False
    end.

  Lemma benign_wrap : forall {A B} (r : outcome A) (f : A -> B),
    benign r -> benign (do x <- r; Ok (f x)).
  Proof. intros A B [a|k|ft|] f H; cbn [bind benign] in *; exact H. Qed.

  Lemma one_arg_benign : forall A (k : val -> outcome A) h args,
    Forall (fun v => val_ok h v = true) args ->
    (forall a, val_ok h a = true -> benign (k a)) -> benign (one_arg args k).
  Proof.
    intros A k h [|a [|b r]] H Hk; try exact I. inversion H; subst. apply Hk. assumption.
  Qed.

  Lemma ranged_int_benign : forall h z, benign (ranged_int h z).
  Proof. intros h z. unfold ranged_int. destruct (in_int_range z); exact I. Qed.

  Lemma call_type_benign : forall h args, benign (call_type h args).
  Proof. intros h [|a [|b r]]; exact I. Qed.

  Lemma call_string_benign : forall h args,
    Forall (fun v => val_ok h v = true) args -> benign (call_string orc h args).
  Proof.
    intros h args H. apply (one_arg_benign _ _ h); [exact H|]. intros a Hok.
    destruct a as [| b | z | ip k | l | l | l]; try exact I.
    destruct (val_ok_float _ _ Hok) as (x & ->). exact I.
  Qed.

  Lemma call_bool_benign : forall h args,
    Forall (fun v => val_ok h v = true) args -> benign (call_bool h args).
  Proof.
    intros h args H. apply (one_arg_benign _ _ h); [exact H|]. intros a Hok.
    destruct a as [| b | z | ip k | l | l | l]; try exact I.
    - destruct (val_ok_float _ _ Hok) as (x & ->). exact I.
    - destruct (val_ok_str _ _ Hok) as (x & ->). exact I.
    - destruct (val_ok_arr _ _ Hok) as (x & ->). exact I.
  Qed.

  Lemma call_int_benign : forall h args,
    Forall (fun v => val_ok h v = true) args -> benign (call_int h args).
  Proof.
    intros h args H. apply (one_arg_benign _ _ h); [exact H|]. intros a Hok.
    destruct a as [| b | z | ip k | l | l | l]; try exact I; try apply ranged_int_benign.
    - destruct (val_ok_float _ _ Hok) as (x & ->). apply ranged_int_benign.
    - destruct (val_ok_str _ _ Hok) as (x & ->). cbn [bind].
      destruct (parse_isize (trim x)); [apply ranged_int_benign | exact I].
  Qed.

  Lemma call_float_benign : forall h args,
    Forall (fun v => val_ok h v = true) args -> benign (call_float orc h args).
  Proof.
    intros h args H. apply (one_arg_benign _ _ h); [exact H|]. intros a Hok.
    destruct a as [| b | z | ip k | l | l | l]; try exact I.
    destruct (val_ok_str _ _ Hok) as (x & ->). cbn [bind].
    destruct (parse_float orc x); exact I.
  Qed.

  Lemma call_length_benign : forall h args,
    Forall (fun v => val_ok h v = true) args -> benign (call_length h args).
  Proof.
    intros h args H. apply (one_arg_benign _ _ h); [exact H|]. intros a Hok.
    destruct a as [| b | z | ip k | l | l | l]; try exact I.
    - destruct (val_ok_str _ _ Hok) as (x & ->). exact I.
    - destruct (val_ok_arr _ _ Hok) as (x & ->). exact I.
  Qed.

  (* what the caller must guarantee about the arguments: heap values point to live boxes of the
     right kind; print follows arrays, so for print this must hold for everything reachable
     within the display bound *)
  Definition args_ok (b : builtin) (h : heap) (args : list val) : Prop :=
    match b with
    | BPrint => Forall (reach_ok h show_depth) args
    | _ => Forall (fun v => val_ok h v = true) args
    end.

  (* item 1.  Never a Fault; never an error other than ArgumentError / TypeError; OutOfFuel only
     from print, and then one argument is nested deeper than show_depth (which includes every
     cyclic array: known finding D26, see depth_le_cyclic) *)
  Theorem builtins_total : forall b h args, args_ok b h args ->
    match call_builtin orc b h args with
    | Ok _ => True
    | Err EArgumentError | Err ETypeError => True
    | OutOfFuel => b = BPrint /\ exists v, In v args /\ ~ depth_le h show_depth v
    | _ => False
    end.
  Proof.
    intros b h args H.
    assert (Hw : forall (r : outcome (val * heap)), benign r ->
              match (do x <- r; Ok (x, @nil cp)) with
              | Ok _ => True
              | Err EArgumentError | Err ETypeError => True
              | OutOfFuel => b = BPrint /\ exists v, In v args /\ ~ depth_le h show_depth v
              | _ => False
              end).
    { intros [a|k|ft|] Hb; cbn [bind benign] in *; try exact I; try exact Hb; try contradiction. }
    destruct b; cbn [args_ok] in H; cbn [call_builtin].
    - destruct (print_safe h args H) as [[t Ht]|Ht]; rewrite Ht; cbn [bind]; [exact I|].
      split; [reflexivity|]. destruct (print_oof _ _ Ht) as (v & Hin & _ & Hn). exists v. tauto.
    - apply Hw, call_type_benign.
    - apply Hw, call_bool_benign, H.
    - apply Hw, call_float_benign, H.
    - apply Hw, call_int_benign, H.
    - apply Hw, call_string_benign, H.
    - apply Hw, call_length_benign, H.
  Qed.

  (* with finite nesting within the bound, print succeeds too: every builtin returns *)
  Theorem builtins_total_bounded : forall b h args, args_ok b h args ->
    (b = BPrint -> Forall (depth_le h show_depth) args) ->
    benign (call_builtin orc b h args).
  Proof.
    intros b h args H Hd. pose proof (builtins_total b h args H) as T.
    destruct (call_builtin orc b h args) as [r|k|f|] eqn:E; try exact T.
    destruct T as [-> (v & Hin & Hn)]. apply Hn. specialize (Hd eq_refl).
    rewrite Forall_forall in Hd. apply Hd, Hin.
  Qed.

  (* D26: an array that (directly) contains itself is nested deeper than every bound *)
  Theorem depth_le_cyclic : forall h l vs n,
    get_arr h l = Ok vs -> In (VArr l) vs -> ~ depth_le h n (VArr l).
  Proof.
    intros h l vs n Hg Hin. induction n as [|n IH]; intros H; [exact H|].
    cbn [depth_le] in H. specialize (H vs Hg). rewrite Forall_forall in H. exact (IH (H _ Hin)).
  Qed.

  (** * 4. Conversions (items 3, 4) *)

  Lemma call_builtin_unfold : forall b h args,
    call_builtin orc b h args =
    match b with
    | BPrint => do t <- call_print orc h args; Ok (VNull, h, t)
    | BType => do r <- call_type h args; Ok (r, [])
    | BString => do r <- call_string orc h args; Ok (r, [])
    | BBool => do r <- call_bool h args; Ok (r, [])
    | BFloat => do r <- call_float orc h args; Ok (r, [])
    | BInt => do r <- call_int h args; Ok (r, [])
    | BLength => do r <- call_length h args; Ok (r, [])
    end.
  Proof. reflexivity. Qed.

  (* item 3: converting a value to its own type returns the very same value (for heap values:
     the same box, nothing is allocated) and leaves the heap alone *)
  Theorem cast_identity :
    (forall h b, call_builtin orc BBool h [VBool b] = Ok (VBool b, h, [])) /\
    (forall h z, call_builtin orc BInt h [VInt z] = Ok (VInt z, h, [])) /\
    (forall h l, call_builtin orc BFloat h [VFloat l] = Ok (VFloat l, h, [])) /\
    (forall h l, call_builtin orc BString h [VStr l] = Ok (VStr l, h, [])).
  Proof. repeat split. Qed.

  Definition nonempty {A} (l : list A) : bool := match l with [] => false | _ => true end.

  Theorem bool_spec : forall h,
    call_bool h [VNull] = Ok (VBool false, h) /\
    (forall b, call_bool h [VBool b] = Ok (VBool b, h)) /\
    (forall z, call_bool h [VInt z] = Ok (VBool (0 <? z), h)) /\
    (forall l x, get_float h l = Ok x -> call_bool h [VFloat l] = Ok (VBool (PrimFloat.ltb 0 x), h)) /\
    (forall l s, get_str h l = Ok s -> call_bool h [VStr l] = Ok (VBool (nonempty s), h)) /\
    (forall l vs, get_arr h l = Ok vs -> call_bool h [VArr l] = Ok (VBool (nonempty vs), h)) /\
    (forall ip n, call_bool h [VFun ip n] = Err EArgumentError).
  Proof.
    intros h. repeat split; try reflexivity.
    - intros l x H. cbn [call_bool one_arg]. rewrite H. reflexivity.
    - intros l s H. cbn [call_bool one_arg]. rewrite H. destruct s; reflexivity.
    - intros l vs H. cbn [call_bool one_arg]. rewrite H. destruct vs; reflexivity.
  Qed.

  (* "bool of a positive number or of non-empty text is ja" *)
  Theorem bool_positive_int : forall h z, 0 < z -> call_bool h [VInt z] = Ok (VBool true, h).
  Proof. intros h z H. cbn [call_bool one_arg]. apply Z.ltb_lt in H. rewrite H. reflexivity. Qed.

  Theorem bool_nonempty_text : forall h l s, get_str h l = Ok s -> s <> [] ->
    call_bool h [VStr l] = Ok (VBool true, h).
  Proof. intros h l s H Hs. cbn [call_bool one_arg]. rewrite H. destruct s; [congruence | reflexivity]. Qed.

  (* positive floats: finite with sign bit clear, or +infinity (uses the standard-library axiom
     FloatAxioms.ltb_spec); zero, negative numbers and NaN give nee *)
  Theorem bool_positive_float : forall h l x, get_float h l = Ok x ->
    match Prim2SF x with
    | S754_finite s _ _ | S754_infinity s => call_bool h [VFloat l] = Ok (VBool (negb s), h)
    | S754_zero _ | S754_nan => call_bool h [VFloat l] = Ok (VBool false, h)
    end.
  Proof.
    intros h l x H. cbn [call_bool one_arg]. rewrite H. cbn [bind]. rewrite ltb_spec.
    change (Prim2SF 0) with (S754_zero false).
    destruct (Prim2SF x) as [s|s| |s m e]; try destruct s; reflexivity.
  Qed.

  Theorem int_spec : forall h,
    call_int h [VNull] = Ok (VInt 0, h) /\
    call_int h [VBool true] = Ok (VInt 1, h) /\
    call_int h [VBool false] = Ok (VInt 0, h) /\
    (forall z, call_int h [VInt z] = Ok (VInt z, h)) /\
    (forall l x, get_float h l = Ok x ->
       call_int h [VFloat l] =
       if in_int_range (trunc_float x) then Ok (VInt (trunc_float x), h) else Err EArgumentError) /\
    (forall l s, get_str h l = Ok s ->
       call_int h [VStr l] =
       match parse_isize (trim s) with
       | Some z => if in_int_range z then Ok (VInt z, h) else Err EArgumentError
       | None => Err EArgumentError
       end) /\
    (forall l, call_int h [VArr l] = Err EArgumentError) /\
    (forall ip n, call_int h [VFun ip n] = Err EArgumentError).
  Proof.
    intros h. repeat split; try reflexivity.
    - intros l x H. cbn [call_int one_arg]. rewrite H. reflexivity.
    - intros l s H. cbn [call_int one_arg]. rewrite H. reflexivity.
  Qed.

  Theorem float_spec : forall h,
    call_float orc h [VNull] = Ok (alloc_float h 0%float) /\
    call_float orc h [VBool true] = Ok (alloc_float h 1%float) /\
    call_float orc h [VBool false] = Ok (alloc_float h 0%float) /\
    (forall z, call_float orc h [VInt z] = Ok (alloc_float h (float_of_int z))) /\
    (forall l, call_float orc h [VFloat l] = Ok (VFloat l, h)) /\
    (forall l s, get_str h l = Ok s ->
       call_float orc h [VStr l] =
       match parse_float orc s with Some x => Ok (alloc_float h x) | None => Err EArgumentError end) /\
    (forall l, call_float orc h [VArr l] = Err EArgumentError) /\
    (forall ip n, call_float orc h [VFun ip n] = Err EArgumentError).
  Proof.
    intros h. repeat split; try reflexivity.
    intros l s H. cbn [call_float one_arg]. rewrite H. reflexivity.
  Qed.

  Theorem string_spec : forall h,
    call_string orc h [VNull] = Ok (alloc_str h []) /\
    (forall b, call_string orc h [VBool b] = Ok (alloc_str h (str_cps (if b then "true" else "false")%string))) /\
    (forall z, call_string orc h [VInt z] = Ok (alloc_str h (show_Z z))) /\
    (forall l x, get_float h l = Ok x -> call_string orc h [VFloat l] = Ok (alloc_str h (show_float orc x))) /\
    (forall l, call_string orc h [VStr l] = Ok (VStr l, h)) /\
    (forall l, call_string orc h [VArr l] = Err EArgumentError) /\
    (forall ip n, call_string orc h [VFun ip n] = Err EArgumentError).
  Proof.
    intros h. repeat split; try reflexivity.
    intros l x H. cbn [call_string one_arg]. rewrite H. reflexivity.
  Qed.

  Theorem length_spec : forall h,
    (forall l s, get_str h l = Ok s -> call_length h [VStr l] = Ok (VInt (zlength s), h)) /\
    (forall l vs, get_arr h l = Ok vs -> call_length h [VArr l] = Ok (VInt (zlength vs), h)) /\
    (forall a, match a with VStr _ | VArr _ => True | _ => call_length h [a] = Err ETypeError end).
  Proof.
    intros h. repeat split.
    - intros l s H. cbn [call_length one_arg]. rewrite H. reflexivity.
    - intros l vs H. cbn [call_length one_arg]. rewrite H. reflexivity.
    - intros a. destruct a; try exact I; reflexivity.
  Qed.

  (** * 5. type (item 8) *)

  Theorem type_spec : forall h a, exists h',
    call_builtin orc BType h [a] = Ok (VStr (next_loc h), h', []) /\
    get_str h' (next_loc h) = Ok (type_name (val_tag a)) /\
    (forall k, k <> next_loc h -> PM.find k (cells h') = PM.find k (cells h)).
  Proof.
    intros h a. destruct (alloc_str_spec h (type_name (val_tag a))) as (h' & E & G & O).
    exists h'. split; [|split; assumption].
    cbn [call_builtin call_type one_arg]. rewrite E. reflexivity.
  Qed.

  (** * 6. Integer <-> text (item 5) *)

  Theorem string_decimal : forall h z, exists h',
    call_builtin orc BString h [VInt z] = Ok (VStr (next_loc h), h', []) /\
    get_str h' (next_loc h) = Ok (show_Z z) /\
    (forall k, k <> next_loc h -> PM.find k (cells h') = PM.find k (cells h)).
  Proof.
    intros h z. destruct (alloc_str_spec h (show_Z z)) as (h' & E & G & O).
    exists h'. split; [|split; assumption].
    cbn [call_builtin call_string one_arg]. rewrite E. reflexivity.
  Qed.

  Lemma ranged_int_out_of_isize : forall h z, ~ (- 2^63 <= z < 2^63) -> ranged_int h z = Err EArgumentError.
  Proof.
    intros h z H. unfold ranged_int. destruct (in_int_range z) eqn:E; [|reflexivity].
    apply in_int_range_isize in E. contradiction.
  Qed.

  (* int of a text: white space (any Unicode White_Space) around an optional sign and at least
     one ASCII digit gives the decimal value, provided it is an integer of the language *)
  Theorem int_parses_decimal : forall h l ws sg ds ws',
    get_str h l = Ok (ws ++ (sign_text sg ++ ds) ++ ws') ->
    all_space ws -> all_space ws' -> ds <> [] -> all_digits ds ->
    call_int h [VStr l] =
    let z := signed_val sg (dec_val ds) in
    if in_int_range z then Ok (VInt z, h) else Err EArgumentError.
  Proof.
    intros h l ws sg ds ws' Hg Hw Hw' Hne Hd. cbn [call_int one_arg]. rewrite Hg. cbn [bind].
    rewrite trim_spec by (try assumption; apply sign_digits_no_space_ends; assumption).
    rewrite parse_isize_decimal by assumption. cbv zeta.
    destruct ((- 2 ^ 63 <=? signed_val sg (dec_val ds)) && (signed_val sg (dec_val ds) <? 2 ^ 63)) eqn:R.
    - reflexivity.
    - fold (ranged_int h (signed_val sg (dec_val ds))). symmetry. apply ranged_int_out_of_isize.
      intros [H1 H2]. apply Z.leb_le in H1. apply Z.ltb_lt in H2. rewrite H1, H2 in R. discriminate.
  Qed.

  (* ... and int accepts no other text *)
  Theorem int_text_ok_inv : forall h l s r, get_str h l = Ok s -> call_int h [VStr l] = Ok r ->
    exists sg ds, trim s = sign_text sg ++ ds /\ ds <> [] /\ all_digits ds /\
                  in_int_range (signed_val sg (dec_val ds)) = true /\
                  r = (VInt (signed_val sg (dec_val ds)), h).
  Proof.
    intros h l s r Hg H. cbn [call_int one_arg] in H. rewrite Hg in H. cbn [bind] in H.
    destruct (parse_isize (trim s)) as [z|] eqn:P; [|discriminate].
    apply parse_isize_some in P. destruct P as (sg & ds & E & Hne & Hd & Hz & _).
    unfold ranged_int in H. destruct (in_int_range z) eqn:R; [|discriminate].
    inversion H; subst. exists sg, ds. tauto.
  Qed.

  (* item 5: integer -> text -> integer is the identity on every integer of the language *)
  Theorem int_text_roundtrip : forall h z, in_int_range z = true -> exists h',
    call_builtin orc BString h [VInt z] = Ok (VStr (next_loc h), h', []) /\
    call_builtin orc BInt h' [VStr (next_loc h)] = Ok (VInt z, h', []).
  Proof.
    intros h z Hz. destruct (string_decimal h z) as (h' & E & G & _). exists h'. split; [exact E|].
    cbn [call_builtin call_int one_arg]. rewrite G. cbn [bind].
    rewrite trim_no_space by apply show_Z_no_space_ends.
    rewrite parse_show_Z by (apply in_int_range_isize, Hz).
    unfold ranged_int. rewrite Hz. reflexivity.
  Qed.

  (** * 7. Float <-> text (item 6) *)

  Section FloatText.
    (* Rust std documents that f64::to_string / str::parse::<f64> round-trip *)
    Hypothesis orc_roundtrip : forall x, parse_float orc (show_float orc x) = Some x.

    Theorem float_text_roundtrip : forall h l x, get_float h l = Ok x -> exists h1 h2,
      call_builtin orc BString h [VFloat l] = Ok (VStr (next_loc h), h1, []) /\
      get_str h1 (next_loc h) = Ok (show_float orc x) /\
      call_builtin orc BFloat h1 [VStr (next_loc h)] = Ok (VFloat (next_loc h1), h2, []) /\
      get_float h2 (next_loc h1) = Ok x.
    Proof.
      intros h l x Hx.
      destruct (alloc_str_spec h (show_float orc x)) as (h1 & E1 & G1 & _).
      destruct (alloc_float_spec h1 x) as (h2 & E2 & G2 & _).
      exists h1, h2. repeat split.
      - cbn [call_builtin call_string one_arg]. rewrite Hx. cbn [bind]. rewrite E1. reflexivity.
      - exact G1.
      - cbn [call_builtin call_float one_arg]. rewrite G1. cbn [bind].
        rewrite orc_roundtrip, E2. reflexivity.
      - exact G2.
    Qed.
  End FloatText.

  (** * 8. Integer <-> float through the builtins *)

  Lemma small_in_int_range : forall z, Z.abs z <= 2 ^ 53 -> in_int_range z = true.
  Proof.
    intros z H. unfold in_int_range.
    assert (Hmin : MIN_INT <= - 2 ^ 53) by (vm_compute; discriminate).
    assert (Hmax : 2 ^ 53 <= MAX_INT) by (vm_compute; discriminate).
    apply andb_true_iff. split; apply Z.leb_le; lia.
  Qed.

  Theorem int_float_roundtrip : forall h z, Z.abs z <= 2 ^ 53 -> exists h',
    call_builtin orc BFloat h [VInt z] = Ok (VFloat (next_loc h), h', []) /\
    get_float h' (next_loc h) = Ok (float_of_int z) /\
    call_builtin orc BInt h' [VFloat (next_loc h)] = Ok (VInt z, h', []).
  Proof.
    intros h z Hz. destruct (alloc_float_spec h (float_of_int z)) as (h' & E & G & _).
    exists h'. repeat split; [| exact G |].
    - cbn [call_builtin call_float one_arg]. rewrite E. reflexivity.
    - cbn [call_builtin call_int one_arg]. rewrite G. cbn [bind].
      rewrite trunc_float_of_int by exact Hz. unfold ranged_int.
      rewrite small_in_int_range by exact Hz. reflexivity.
  Qed.

  (* observations: int(NaN) = 0; int(+-infinity) is an ArgumentError (saturates to +-2^63, which
     the range check rejects) *)
  Theorem int_of_nan_inf : forall h l,
    (get_float h l = Ok nan -> call_int h [VFloat l] = Ok (VInt 0, h)) /\
    (get_float h l = Ok infinity -> call_int h [VFloat l] = Err EArgumentError) /\
    (get_float h l = Ok neg_infinity -> call_int h [VFloat l] = Err EArgumentError).
  Proof.
    intros h l. repeat split; intros H; cbn [call_int one_arg]; rewrite H; reflexivity.
  Qed.

End WithOracle.

(** * 9. The type names are pairwise distinct (item 8), by computation on the generated table *)

Theorem type_name_inj : forall t1 t2, type_name t1 = type_name t2 -> t1 = t2.
Proof. intros t1 t2 H. destruct t1, t2; try reflexivity; vm_compute in H; discriminate H. Qed.

Theorem type_names_nodup : NoDup (map type_name tag_list).
Proof.
  assert (H : forall l, NoDup l -> NoDup (map type_name l)).
  { intros l Hl. induction Hl as [|t l Hn Hl IH]; cbn [map]; constructor; [|exact IH].
    intro Hin. apply in_map_iff in Hin. destruct Hin as (t' & E & Hin').
    apply type_name_inj in E. subst t'. exact (Hn Hin'). }
  apply H. unfold tag_list.
  repeat (constructor; [cbn [In]; intros Hf; repeat (destruct Hf as [Hf|Hf]; [discriminate Hf|]); exact Hf|]).
  constructor.
Qed.

Example type_name_values :
  map type_name [TNull; TBool; TInt; TFloat; TString; TArray; TFunction] =
  map str_cps ["null"; "bool"; "int"; "float"; "string"; "array"; "functie"]%string.
Proof. reflexivity. Qed.

(** * 10. Examples (non-vacuity), by computation *)

Definition orc0 : oracle := mkOracle (fun _ => []) (fun _ => None) (fun x _ => x).

Definition heap_of_strs (l : list string) : list val * heap :=
  fold_left (fun '(vs, h) s => let '(v, h') := alloc_str h (str_cps s) in (vs ++ [v], h'))
            l ([], empty_heap).

(* int(string(MIN_INT)) *)
Example ex_int_text_roundtrip :
  (do r1 <- call_builtin orc0 BString empty_heap [VInt (-1152921504606846976)];
   let '(v, h1, _) := r1 in
   do r2 <- call_builtin orc0 BInt h1 [v];
   let '(w, _, _) := r2 in Ok w) = Ok (VInt (-1152921504606846976)).
Proof. vm_compute. reflexivity. Qed.

Example ex_int_range_nonvacuous : in_int_range (-1152921504606846976) = true.
Proof. vm_compute. reflexivity. Qed.

(* isize::MIN parses, but is not an integer of the language *)
Example ex_parse_isize_min : parse_isize (show_Z (- 2 ^ 63)) = Some (- 2 ^ 63).
Proof. vm_compute. reflexivity. Qed.

(* int(" \t-0042\n") = -42, int("+7") = 7, int("4 2"), int("") and int("-") are errors *)
Example ex_int_parses :
  let '(vs, h) := heap_of_strs [" 	-0042
"; "+7"; "4 2"; ""; "-"]%string in
  map (fun v => call_int h [v]) vs =
  [Ok (VInt (-42), h); Ok (VInt 7, h); Err EArgumentError; Err EArgumentError; Err EArgumentError].
Proof. vm_compute. reflexivity. Qed.

(* the README example *)
Example ex_print_readme :
  let '(vs, h) := heap_of_strs ["Hey {}. Je bent nummer {} die dit echt leest."; "jij"]%string in
  call_builtin orc0 BPrint h (vs ++ [VInt 1337]) =
  Ok (VNull, h, str_cps "Hey jij. Je bent nummer 1337 die dit echt leest." ++ [10%N]).
Proof. vm_compute. reflexivity. Qed.

(* inserted text is not rescanned: print("{} {}", "{}", "x") prints "{} x" *)
Example ex_print_norescan :
  let '(vs, h) := heap_of_strs ["{} {}"; "{}"; "x"]%string in
  call_builtin orc0 BPrint h vs = Ok (VNull, h, str_cps "{} x" ++ [10%N]).
Proof. vm_compute. reflexivity. Qed.

Example ex_subst_norescan :
  subst (str_cps "{} {}") [str_cps "{}"; str_cps "x"] = str_cps "{} x".
Proof. vm_compute. reflexivity. Qed.

(* surplus placeholders stay, surplus arguments are dropped, "{" "}" apart is no placeholder *)
Example ex_subst_surplus :
  subst (str_cps "{}-{}-{ }") [str_cps "a"] = str_cps "a-{}-{ }" /\
  subst (str_cps "{}") [str_cps "a"; str_cps "b"] = str_cps "a" /\
  subst (str_cps "{{}}") [str_cps "a"] = str_cps "{a}".
Proof. vm_compute. repeat split. Qed.

(* a nested array [1, [ja, "a"], null, []] *)
Definition ex_heap_nested : heap :=
  let '(_, h1) := h_alloc empty_heap (OStr (str_cps "a")) in                      (* 1 *)
  let '(_, h2) := h_alloc h1 (OArr [VBool true; VStr 1%positive]) in             (* 2 *)
  let '(_, h3) := h_alloc h2 (OArr []) in                                         (* 3 *)
  let '(_, h4) := h_alloc h3 (OArr [VInt 1; VArr 2%positive; VNull; VArr 3%positive]) in  (* 4 *)
  h4.

Example ex_display_nested :
  display orc0 ex_heap_nested (VArr 4%positive) = Ok (str_cps "[1, [ja, a], , []]").
Proof. vm_compute. reflexivity. Qed.

Example ex_nested_args_ok :
  args_ok BPrint ex_heap_nested [VArr 4%positive] /\
  Forall (depth_le ex_heap_nested show_depth) [VArr 4%positive].
Proof.
  split.
  - constructor; [|constructor]. unfold show_depth. cbn [reach_ok]. split; [reflexivity|].
    intros vs Hvs. vm_compute in Hvs. inversion Hvs; subst vs.
    repeat constructor; try reflexivity.
    + intros vs Hvs'. vm_compute in Hvs'. inversion Hvs'; subst vs. repeat constructor.
    + intros vs Hvs'. vm_compute in Hvs'. inversion Hvs'; subst vs. constructor.
  - constructor; [|constructor]. eapply (show_val_ok_depth orc0). exact ex_display_nested.
Qed.

(* D26: a cyclic array satisfies the safety hypothesis at every depth, has no nesting depth,
   and print runs out of fuel (Rust: native stack overflow) *)
Definition ex_heap_cyclic : heap :=
  mkHeap (PM.add 1%positive (true, OArr [VArr 1%positive]) (PM.empty _)) 2%positive 1 0.

Example ex_cyclic_reach_ok : forall n, reach_ok ex_heap_cyclic n (VArr 1%positive).
Proof.
  induction n as [|n IH]; [exact I|]. cbn [reach_ok]. split; [reflexivity|].
  intros vs Hvs. vm_compute in Hvs. inversion Hvs; subst vs. constructor; [exact IH | constructor].
Qed.

Example ex_cyclic_no_depth : forall n, ~ depth_le ex_heap_cyclic n (VArr 1%positive).
Proof. intros n. eapply depth_le_cyclic; [reflexivity | left; reflexivity]. Qed.

Example ex_cyclic_print :
  call_builtin orc0 BPrint ex_heap_cyclic [VArr 1%positive] = OutOfFuel.
Proof. vm_compute. reflexivity. Qed.

(* a dangling or wrongly tagged argument does fault: the hypothesis of builtins_total is needed *)
Example ex_dangling_faults :
  call_builtin orc0 BLength empty_heap [VStr 1%positive] = Fault FUseAfterFree /\
  call_builtin orc0 BLength ex_heap_nested [VStr 2%positive] = Fault FBadTag.
Proof. vm_compute. split; reflexivity. Qed.

(* string(ja) is "true" although print(ja) writes "ja" (observation, see report) *)
Example ex_string_bool :
  (do r <- call_builtin orc0 BString empty_heap [VBool true];
   let '(v, h, _) := r in display orc0 h v) = Ok (str_cps "true") /\
  display orc0 empty_heap (VBool true) = Ok (str_cps "ja").
Proof. vm_compute. split; reflexivity. Qed.

(** ** an oracle satisfying the round-trip law of float_text_roundtrip *)

Definition enc_bool (b : bool) : cp := if b then 1%N else 0%N.
Definition enc_Z (z : Z) : cp :=
  match z with Z0 => 0%N | Zpos p => Npos (xO p) | Zneg p => Npos (xI p) end.
Definition dec_Z (n : cp) : Z :=
  match n with Npos (xO p) => Zpos p | Npos (xI p) => Zneg p | _ => 0 end.
Definition show_sf (f : spec_float) : text :=
  match f with
  | S754_zero s => [0%N; enc_bool s]
  | S754_infinity s => [1%N; enc_bool s]
  | S754_nan => [2%N]
  | S754_finite s m e => [3%N; enc_bool s; Npos m; enc_Z e]
  end.
Definition parse_sf (t : text) : option spec_float :=
  match t with
  | [k] => if (k =? 2)%N then Some S754_nan else None
  | [k; s] => if (k =? 0)%N then Some (S754_zero (s =? 1)%N)
              else if (k =? 1)%N then Some (S754_infinity (s =? 1)%N) else None
  | [k; s; Npos m; e] => if (k =? 3)%N then Some (S754_finite (s =? 1)%N m (dec_Z e)) else None
  | _ => None
  end.
Definition orc1 : oracle :=
  mkOracle (fun x => show_sf (Prim2SF x)) (fun t => option_map SF2Prim (parse_sf t)) (fun x _ => x).

(* uses the standard-library axiom FloatAxioms.SF2Prim_Prim2SF *)
Lemma orc1_roundtrip : forall x, parse_float orc1 (show_float orc1 x) = Some x.
Proof.
  intros x. cbn [orc1 parse_float show_float].
  assert (H : parse_sf (show_sf (Prim2SF x)) = Some (Prim2SF x)).
  { destruct (Prim2SF x) as [s|s| |s m e]; try destruct s; try reflexivity;
      destruct e; reflexivity. }
  rewrite H. cbn [option_map]. rewrite SF2Prim_Prim2SF. reflexivity.
Qed.

Example ex_float_text_roundtrip :
  let '(_, h) := alloc_float empty_heap 0x1.999999999999ap-4%float in
  (do r1 <- call_builtin orc1 BString h [VFloat 1%positive];
   let '(v, h1, _) := r1 in
   do r2 <- call_builtin orc1 BFloat h1 [v];
   let '(w, h2, _) := r2 in
   match w with VFloat l => get_float h2 l | _ => Err ETypeError end) = Ok 0x1.999999999999ap-4%float.
Proof. vm_compute. reflexivity. Qed.

Print Assumptions builtins_total.
Print Assumptions builtins_total_bounded.
Print Assumptions arity_error.
Print Assumptions cast_identity.
Print Assumptions bool_spec.
Print Assumptions int_spec.
Print Assumptions float_spec.
Print Assumptions string_spec.
Print Assumptions length_spec.
Print Assumptions type_spec.
Print Assumptions type_name_inj.
Print Assumptions string_decimal.
Print Assumptions int_parses_decimal.
Print Assumptions int_text_ok_inv.
Print Assumptions int_text_roundtrip.
Print Assumptions float_text_roundtrip.
Print Assumptions print_spec.
Print Assumptions print_total.
Print Assumptions print_oof.
Print Assumptions subst_first.
Print Assumptions show_val_total.
Print Assumptions show_val_arr.
Print Assumptions display_arr.
Print Assumptions show_val_fuel_mono.
Print Assumptions trunc_float_spec.
(* the three below rest on standard-library axioms (FloatAxioms / Uint63), listed in the output *)
Print Assumptions bool_positive_float.
Print Assumptions trunc_float_of_int.
Print Assumptions int_float_roundtrip.
Print Assumptions orc1_roundtrip.
