(* SessionRefineB.v - property C17 for sessions whose lines are in fragment F1, part B: whole sessions.

   - `session_refines_program_F1`: the per-line observations of `run_session` correspond, line by line,
     to the per-line results of folding `sem_line'` from `sem_session_new` (induction on the list of
     lines with `SessionRefine.line_refines`).
   - `unparsable_lines_ignored`: lines that do not parse can be deleted from a session.
   - `sem_session_is_program` (Sem only) and `session_equals_single_program`: if every line succeeds,
     the last line's result is the result of `sem_program` on the concatenation of all lines.
   - Examples: the hypotheses are satisfiable; the exclusion of finding D29 is necessary. *)
From Coq Require Import ZArith Lia Bool List String.
From NL.Model Require Import VM Session.
From NL.Spec Require Import Sem SemSession Fragment ArithSpec ScopeSpec.
From NL.Proofs Require Import WordProofs OpsProofs CompileCorrectA CompileCorrectB SessionProofs SessionRefine.
Open Scope Z_scope.

(** * 1. The meaning of a session, line by line *)

Fixpoint sem_session_run (orc : oracle) (fuel : nat) (sem : sem_session) (asts : list block) : list line_result :=
  match asts with
  | [] => []
  | a :: r => let '(sem', res) := sem_line' orc fuel sem a in res :: sem_session_run orc fuel sem' r
  end.

(* the hypotheses of `line_refines` for every line, each in the compiler state and the session meaning
   reached before that line (the retained compiler's state does not depend on the runs) *)
Fixpoint session_hyps (orc : oracle) (fuel : nat) (st : cstate) (sem : sem_session) (asts : list block) : Prop :=
  match asts with
  | [] => True
  | a :: r =>
      in_F1 a = true /\
      (size_block a <= fuel)%nat /\ snd (sem_line' orc fuel sem a) <> LFuel /\   (* enough fuel for Sem *)
      snd (compile_ast a st) <> Err ESyntaxError /\                               (* the line fits the bytecode format *)
      decls_done orc fuel sem a /\                                                (* not in class D29 *)
      session_hyps orc fuel (fst (compile_ast a st)) (fst (sem_line' orc fuel sem a)) r
  end.

Inductive lines_corr : list block -> list line_obs -> list line_result -> Prop :=
| LC_nil : lines_corr [] [] []
| LC_cons : forall a o r asts os rs, obs_corr a o r -> lines_corr asts os rs ->
    lines_corr (a :: asts) (o :: os) (r :: rs).

Theorem session_refines_from : forall u orc fuel srcs asts,
  Forall2 (fun src a => parse u (parse_float orc) src = Ok a) srcs asts ->
  forall s sem, SRel s sem -> session_hyps orc fuel (ss_compiler s) sem asts ->
  exists N, forall budget, (N <= budget)%nat ->
    lines_corr asts (run_session u orc budget s srcs) (sem_session_run orc fuel sem asts).
Proof.
  intros u orc fuel srcs asts HP. induction HP as [|src a srcs asts Hp HP IH]; intros s sem HR HH.
  - exists O. intros budget _. constructor.
  - cbn [session_hyps] in HH. destruct HH as [HF [Hsz [Hnf [Hfmt [Hdd HH]]]]].
    destruct (line_refines u orc fuel s sem src a HR Hp HF Hsz Hnf Hfmt Hdd) as [n [s' [o [Hrun [HR' [Hobs Hcomp]]]]]].
    rewrite <- Hcomp in HH. destruct (IH s' _ HR' HH) as [N HN].
    exists (Nat.max n N). intros budget Hb. cbn [run_session sem_session_run].
    rewrite (Hrun budget ltac:(lia)).
    destruct (sem_line' orc fuel sem a) as [sem' res]. cbn [fst snd] in *.
    constructor; [exact Hobs|]. apply HN. lia.
Qed.

(* Property C17 on F1: a retained session, started fresh, behaves line by line as the meaning of the
   session says.  One machine budget N serves all lines (any larger one gives the same observations). *)
Theorem session_refines_program_F1 : forall u orc fuel srcs asts,
  Forall2 (fun src a => parse u (parse_float orc) src = Ok a) srcs asts ->
  session_hyps orc fuel compiler_new sem_session_new asts ->
  exists N, forall budget, (N <= budget)%nat ->
    lines_corr asts (run_session u orc budget session_new srcs) (sem_session_run orc fuel sem_session_new asts).
Proof.
  intros u orc fuel srcs asts HP HH.
  exact (session_refines_from u orc fuel srcs asts HP session_new sem_session_new SRel_init HH).
Qed.

(** * 2. Lines that do not parse *)

Definition parses (u : unicode) (orc : oracle) (src : text) : bool :=
  match parse u (parse_float orc) src with Ok _ => true | _ => false end.

Lemma unparsable_line_harmless : forall u orc budget s src, parses u orc src = false ->
  fst (run_line u orc budget s src) = s.
Proof.
  intros u orc budget s src H. unfold parses in H. unfold run_line.
  destruct (parse u (parse_float orc) src); [discriminate H|reflexivity..].
Qed.

(* a session with unparsable lines in it: the observations of the other lines are those of the
   session with the unparsable lines deleted *)
Theorem unparsable_lines_ignored : forall u orc budget srcs s,
  map snd (filter (fun p => parses u orc (fst p)) (combine srcs (run_session u orc budget s srcs)))
  = run_session u orc budget s (filter (parses u orc) srcs).
Proof.
  intros u orc budget srcs. induction srcs as [|src srcs IH]; intros s; [reflexivity|].
  cbn [run_session]. destruct (run_line u orc budget s src) as [s' o] eqn:E.
  cbn [combine filter fst]. destruct (parses u orc src) eqn:Ep.
  - cbn [map snd run_session]. rewrite E. f_equal. apply IH.
  - pose proof (unparsable_line_harmless u orc budget s src Ep) as H. rewrite E in H. cbn [fst] in H. subst s'.
    apply IH.
Qed.

(** * 3. Sem only: the lines of a session that all succeed, read as one program *)

(* exec_top over a concatenation (any statements) *)
Lemma exec_top_app : forall orc fuel a b c last st,
  exec_top orc fuel c (a ++ b) last st =
  match exec_top orc fuel c a last st with
  | (c1, ROk v st1) => exec_top orc fuel c1 b v st1
  | other => other
  end.
Proof.
  intros orc fuel a b. induction a as [|s a IH]; intros c last st; [reflexivity|].
  destruct s as [x e|e0|e|b'| |]; cbn [app exec_top]; try reflexivity.
  - unfold new_cell.
    destruct (eval_expr orc fuel (d_declare c x (st_next st)) e
                (mkSt (st_heap st) (st_cells st) (Pos.succ (st_next st)) (st_funs st) (st_out st))); try reflexivity.
    apply IH.
  - destruct (eval_expr orc fuel c e st); try reflexivity. apply IH.
  - destruct (exec_block orc fuel (d_push c) b' VNull st); try reflexivity. apply IH.
Qed.

(* the `last` value given to a non-empty line is irrelevant *)
Lemma exec_top_last : forall orc fuel a c last last' st, a <> [] ->
  exec_top orc fuel c a last st = exec_top orc fuel c a last' st.
Proof. intros orc fuel [|s a] c last last' st H; [contradiction|]. destruct s; reflexivity. Qed.

Lemma static_after_app : forall a b c, static_after c (a ++ b) = static_after (static_after c a) b.
Proof. intros a b. induction a as [|s a IH]; intros c; [reflexivity|]. cbn [app static_after]. apply IH. Qed.

(* more fuel does not change a result of an F1 expression *)
Lemma eval_expr_F1_mono : forall orc e, in_F1e e = true -> forall n n' c st, (n <= n')%nat ->
  eval_expr orc n c e st <> RFuel -> eval_expr orc n' c e st = eval_expr orc n c e st.
Proof.
  intros orc e. induction e as [l IHl op r IHr|op r IHr|z| |b| |x| | |l IHl r IHr| | | |];
    intros HF n n' c st Hle Hnf; try discriminate HF; cbn [in_F1e] in HF;
    (destruct n as [|g]; [exfalso; apply Hnf; reflexivity|]);
    (destruct n' as [|g']; [lia|]); assert (g <= g')%nat as Hg by lia.
  - apply andb_prop in HF. destruct HF as [HF Hr]. apply andb_prop in HF. destruct HF as [Hop Hl].
    rewrite !ee_infix in *.
    destruct (eval_expr orc g c l st) as [a st1| | | |] eqn:El;
      try (rewrite (IHl Hl g g' c st Hg) by (rewrite El; discriminate); rewrite El; reflexivity).
    + rewrite (IHl Hl g g' c st Hg) by (rewrite El; discriminate). rewrite El. cbn [rbind] in *.
      destruct (eval_expr orc g c r st1) as [b st2| | | |] eqn:Er;
        try (rewrite (IHr Hr g g' c st1 Hg) by (rewrite Er; discriminate); rewrite Er; reflexivity).
      exfalso. apply Hnf. reflexivity.
    + exfalso. apply Hnf. reflexivity.
  - apply andb_prop in HF. destruct HF as [Hop Hr]. rewrite !ee_prefix in *.
    destruct (eval_expr orc g c r st) as [a st1| | | |] eqn:Er;
      try (rewrite (IHr Hr g g' c st Hg) by (rewrite Er; discriminate); rewrite Er; reflexivity).
    exfalso. apply Hnf. reflexivity.
  - reflexivity.
  - reflexivity.
  - reflexivity.
  - destruct l as [| | | | | |x| | | | | | |]; try discriminate HF. rewrite !ee_assign_ident in *.
    destruct (d_lookup c x); [|reflexivity].
    destruct (eval_expr orc g c r st) as [a st1| | | |] eqn:Er;
      try (rewrite (IHr HF g g' c st Hg) by (rewrite Er; discriminate); rewrite Er; reflexivity).
    exfalso. apply Hnf. reflexivity.
Qed.

(* exec_block (which spends fuel per statement) and exec_top (which does not) agree on F1 *)
Lemma exec_block_top_F1 : forall orc l, in_F1 l = true -> forall fuel f c last st,
  (fuel + length l + 1 <= f)%nat -> snd (exec_top orc fuel c l last st) <> RFuel ->
  exec_block orc f c l last st = snd (exec_top orc fuel c l last st).
Proof.
  intros orc l. induction l as [|s0 l IH]; intros HF fuel f c last st Hf Hnf;
    (destruct f as [|g]; [lia|]).
  - reflexivity.
  - cbn [in_F1 forallb] in HF. apply andb_prop in HF. destruct HF as [HF0 HFl]. cbn [length] in Hf.
    destruct s0 as [x e|e|e| | |]; try discriminate HF0; cbn [in_F1s] in HF0.
    + rewrite eb_let, et_let in *. unfold new_cell in *.
      set (st1 := mkSt (st_heap st) (st_cells st) (Pos.succ (st_next st)) (st_funs st) (st_out st)) in *.
      set (c' := d_declare c x (st_next st)) in *.
      assert (eval_expr orc fuel c' e st1 <> RFuel) as Hne.
      { intros E. rewrite E in Hnf. apply Hnf. reflexivity. }
      rewrite (eval_expr_F1_mono orc e HF0 fuel g c' st1 ltac:(lia) Hne).
      destruct (eval_expr orc fuel c' e st1) as [v st2| | | |]; cbn [rbind snd]; try reflexivity.
      apply IH; [exact HFl|lia|exact Hnf].
    + rewrite eb_expr, et_expr in *.
      assert (eval_expr orc fuel c e st <> RFuel) as Hne.
      { intros E. rewrite E in Hnf. apply Hnf. reflexivity. }
      rewrite (eval_expr_F1_mono orc e HF0 fuel g c st ltac:(lia) Hne).
      destruct (eval_expr orc fuel c e st) as [v st1| | | |]; cbn [rbind snd]; try reflexivity.
      apply IH; [exact HFl|lia|exact Hnf].
Qed.

(* the static pass: more fuel keeps an acceptance; acceptance of a concatenation *)
Lemma check_expr_mono_F1 : forall e, in_F1e e = true -> forall n n' c, (n <= n')%nat ->
  check_expr n c e = None -> check_expr n' c e = None.
Proof.
  intros e. induction e as [l IHl op r IHr|op r IHr|z| |b| |x| | |l IHl r IHr| | | |];
    intros HF n n' c Hle H; try discriminate HF; cbn [in_F1e] in HF;
    (destruct n as [|g]; [discriminate H|]); (destruct n' as [|g']; [lia|]); assert (g <= g')%nat as Hg by lia.
  - apply andb_prop in HF. destruct HF as [HF Hr]. apply andb_prop in HF. destruct HF as [Hop Hl].
    rewrite ck_infix in *. destruct (check_expr g c l) eqn:El; [discriminate H|]. cbn [first_err] in H.
    rewrite (IHl Hl g g' c Hg El). cbn [first_err]. exact (IHr Hr g g' c Hg H).
  - apply andb_prop in HF. destruct HF as [Hop Hr]. rewrite ck_prefix in *. exact (IHr Hr g g' c Hg H).
  - reflexivity.
  - reflexivity.
  - rewrite ck_ident in *. exact H.
  - destruct l as [| | | | | |x| | | | | | |]; try discriminate HF. rewrite ck_assign_ident in *.
    destruct (s_visible c x); [|discriminate H]. exact (IHr HF g g' c Hg H).
Qed.

Lemma check_block_mono_F1 : forall l, in_F1 l = true -> forall f f' c, (f <= f')%nat ->
  check_block f c l = None -> check_block f' c l = None.
Proof.
  intros l. induction l as [|s0 l IH]; intros HF f f' c Hle H;
    (destruct f as [|g]; [discriminate H|]); (destruct f' as [|g']; [lia|]); assert (g <= g')%nat as Hg by lia.
  - reflexivity.
  - cbn [in_F1 forallb] in HF. apply andb_prop in HF. destruct HF as [HF0 HFl].
    destruct s0 as [x e|e|e| | |]; try discriminate HF0; cbn [in_F1s] in HF0.
    + rewrite cb_let in H. rewrite cb_let. destruct (check_expr g (s_declare c x) e) eqn:Ee; [discriminate H|]. cbn [first_err] in H.
      rewrite (check_expr_mono_F1 e HF0 g g' _ Hg Ee). cbn [first_err]. exact (IH HFl g g' _ Hg H).
    + rewrite (cb_expr g c e l HF0) in H. rewrite (cb_expr g' c e l HF0). destruct (check_expr g c e) eqn:Ee; [discriminate H|]. cbn [first_err] in H.
      rewrite (check_expr_mono_F1 e HF0 g g' _ Hg Ee). cbn [first_err]. exact (IH HFl g g' _ Hg H).
Qed.

Lemma check_block_app_F1 : forall a, in_F1 a = true -> forall b f c, in_F1 b = true ->
  check_block f c a = None -> check_block f (static_after c a) b = None ->
  check_block (f + length a) c (a ++ b) = None.
Proof.
  intros a. induction a as [|s0 a IH]; intros HF b f c HFb Ha Hb.
  - cbn [length app static_after] in *. rewrite Nat.add_0_r. exact Hb.
  - cbn [in_F1 forallb] in HF. apply andb_prop in HF. destruct HF as [HF0 HFa].
    destruct f as [|g]; [discriminate Ha|].
    cbn [length app]. replace (S g + S (length a))%nat with (S (S g + length a)) by lia.
    destruct s0 as [x e|e|e| | |]; try discriminate HF0; cbn [in_F1s] in HF0.
    + rewrite cb_let in Ha. rewrite cb_let. destruct (check_expr g (s_declare c x) e) eqn:Ee; [discriminate Ha|]. cbn [first_err] in Ha.
      rewrite (check_expr_mono_F1 e HF0 g (S g + length a) _ ltac:(lia) Ee). cbn [first_err].
      apply (IH HFa b (S g) (s_declare c x) HFb).
      * apply (check_block_mono_F1 a HFa g (S g) _ ltac:(lia) Ha).
      * exact Hb.
    + rewrite (cb_expr g c e a HF0) in Ha. rewrite (cb_expr _ c e (a ++ b) HF0). destruct (check_expr g c e) eqn:Ee; [discriminate Ha|]. cbn [first_err] in Ha.
      rewrite (check_expr_mono_F1 e HF0 g (S g + length a) _ ltac:(lia) Ee). cbn [first_err].
      assert (stmt_declares (SExpr e) = None) as Ed by (destruct e; try discriminate HF0; reflexivity).
      cbn [static_after] in Hb. rewrite Ed in Hb.
      apply (IH HFa b (S g) c HFb).
      * apply (check_block_mono_F1 a HFa g (S g) _ ltac:(lia) Ha).
      * exact Hb.
Qed.

Lemma clear_out_id : forall st, st_out st = [] -> clear_out st = st.
Proof. intros [h c n f o] H. cbn in H. subst o. reflexivity. Qed.

(* `sem` is what running the block P as one program from the initial state reaches (v0: P's value so far);
   the last component is a proof device: some vector of global slots related to Sem's cells *)
Record Reached (orc : oracle) (fuel : nat) (P : block) (sem : sem_session) (v0 : val) : Prop := mkReached {
  RC_F1 : in_F1 P = true;
  RC_check : exists fP, check_block fP (top_sctx []) P = None;
  RC_static : static_after (top_sctx []) P = sm_static sem;
  RC_exec : exec_top orc fuel (mkD [[]] None) P VNull sem_init = (sm_dyn sem, ROk v0 (sm_state sem));
  RC_out : st_out (sm_state sem) = [];
  RC_ghost : exists ds m, sm_dyn sem = mkD [rev ds] None /\ sm_static sem = top_sctx (map fst ds) /\
                          Rel ds (sm_state sem) m
}.

Lemma Reached_init : forall orc fuel, Reached orc fuel [] sem_session_new VNull.
Proof.
  intros orc fuel. constructor; try reflexivity.
  - exists 1%nat. reflexivity.
  - exists [], mst0. split; [reflexivity|]. split; [reflexivity|exact Rel_init].
Qed.

Lemma in_F1_app : forall a b, in_F1 (a ++ b) = in_F1 a && in_F1 b.
Proof. intros a b. unfold in_F1. apply forallb_app. Qed.

Lemma Reached_step : forall orc fuel P sem v0 a sem' v h out,
  Reached orc fuel P sem v0 -> in_F1 a = true ->
  sem_line' orc fuel sem a = (sem', LValue v h out) ->
  out = [] /\ h = st_heap (sm_state sem') /\
  exists v', Reached orc fuel (P ++ a) sem' v' /\ (a <> [] -> v' = v).
Proof.
  intros orc fuel P sem v0 a sem' v h out [HFP [fP HcP] Hst Hex Hout [ds [m [Hdyn [Hstat HR]]]]] HFa Hl.
  unfold sem_line', sem_line in Hl.
  destruct (check_block fuel (sm_static sem) a) as [k|] eqn:Eck; [discriminate Hl|].
  rewrite (clear_out_id _ Hout) in Hl.
  pose proof (sem_pexec_top orc a HFa fuel O ds (sm_state sem) m VNull VNull HR) as Htop.
  rewrite <- Hdyn in Htop. unfold agree_top in Htop.
  destruct (exec_top orc fuel (sm_dyn sem) a VNull (sm_state sem)) as [c' r] eqn:Eet. cbn [fst snd] in Htop.
  destruct r as [v1 st1|sg st1|k st1|f st1|]; try discriminate Hl.
  cbn [state_of sm_dyn sm_state] in Hl. inversion Hl; subst sem' v h out; clear Hl. cbn [sm_state].
  destruct Htop as [E|[ds' [Ec' H3]]]; [discriminate E|]. subst c'.
  destruct (pexec orc (names_tab 0 (map fst ds)) a m VNull) as [[m' fin']|e|f|];
    [|destruct H3 as [s' [E _]]; discriminate E..|destruct H3].
  destruct H3 as [v2 [sst' [E [R' [O' [Nm _]]]]]]. inversion E; subst v2 sst'; clear E.
  split; [congruence|]. split; [reflexivity|].
  assert (exists v', exec_top orc fuel (sm_dyn sem) a v0 (sm_state sem) = (mkD [rev ds'] None, ROk v' st1)
                     /\ (a <> [] -> v' = v1)) as [v' [Hex' Hv']].
  { destruct a as [|s0 a'].
    - rewrite et_nil in Eet. inversion Eet; subst. exists v0. split; [rewrite et_nil; congruence|].
      intros H; contradiction.
    - exists v1. split; [|reflexivity]. rewrite (exec_top_last orc fuel (s0 :: a') _ v0 VNull) by discriminate.
      exact Eet. }
  exists v'. split; [|exact Hv'].
  constructor; cbn [sm_static sm_dyn sm_state].
  - rewrite in_F1_app, HFP, HFa. reflexivity.
  - exists (Nat.max fP fuel + length P)%nat. apply check_block_app_F1; [exact HFP|exact HFa| |].
    + apply (check_block_mono_F1 P HFP fP); [lia|exact HcP].
    + rewrite Hst. apply (check_block_mono_F1 a HFa fuel); [lia|exact Eck].
  - rewrite static_after_app, Hst, Hstat, (static_after_F1 a HFa), static_of_dyn_top, Nm. reflexivity.
  - rewrite exec_top_app, Hex. exact Hex'.
  - congruence.
  - exists ds', m'. split; [reflexivity|]. split; [apply static_of_dyn_top|exact R'].
Qed.

Lemma sem_session_from : forall orc fuel asts P sem v0,
  Reached orc fuel P sem v0 -> Forall (fun a => in_F1 a = true) asts ->
  (forall r, In r (sem_session_run orc fuel sem asts) -> exists v h out, r = LValue v h out) ->
  asts <> [] -> last asts [] <> [] ->
  exists sem_n v, Reached orc fuel (P ++ concat asts) sem_n v /\
    last (sem_session_run orc fuel sem asts) LFuel = LValue v (st_heap (sm_state sem_n)) [].
Proof.
  intros orc fuel asts. induction asts as [|a rest IH]; intros P sem v0 HRc HF Hall Hne Hlast; [contradiction|].
  inversion HF as [|a0 r0 HFa HFr]; subst.
  cbn [sem_session_run] in *. destruct (sem_line' orc fuel sem a) as [sem' res] eqn:El.
  destruct (Hall res (or_introl eq_refl)) as [v [h [out ->]]].
  destruct (Reached_step orc fuel P sem v0 a sem' v h out HRc HFa El) as [-> [-> [v' [HRc' Hv']]]].
  destruct rest as [|b rest'].
  - cbn [last concat] in *. rewrite app_nil_r. exists sem', v. rewrite <- (Hv' Hlast). split; [exact HRc'|reflexivity].
  - destruct (IH (P ++ a) sem' v' HRc' HFr) as [sem_n [vn [HRn Hln]]].
    + intros r Hr. apply Hall. right. exact Hr.
    + discriminate.
    + exact Hlast.
    + exists sem_n, vn. cbn [concat]. rewrite app_assoc. split; [exact HRn|].
      cbn [sem_session_run] in *. destruct (sem_line' orc fuel sem' b) as [sem'' res']. exact Hln.
Qed.

(* Sem only: a session of F1 lines that all succeed (and whose last line is not empty) gives, as the
   result of its last line, the result of the single program made of all its lines - same value, same
   heap, nothing printed *)
Theorem sem_session_is_program : forall orc fuel asts,
  Forall (fun a => in_F1 a = true) asts ->
  (forall r, In r (sem_session_run orc fuel sem_session_new asts) -> exists v h out, r = LValue v h out) ->
  asts <> [] -> last asts [] <> [] ->
  exists v h F, last (sem_session_run orc fuel sem_session_new asts) LFuel = LValue v h [] /\
    forall fuel', (F <= fuel')%nat -> sem_program orc fuel' (concat asts) = SemValue v h [].
Proof.
  intros orc fuel asts HF Hall Hne Hlast.
  destruct (sem_session_from orc fuel asts [] sem_session_new VNull (Reached_init orc fuel) HF Hall Hne Hlast)
    as [sem_n [v [[HFP [fP HcP] _ Hex Hout _] Hl]]].
  cbn [app] in *.
  exists v, (st_heap (sm_state sem_n)), (Nat.max fP (fuel + length (concat asts) + 1)).
  split; [exact Hl|]. intros fuel' Hf. unfold sem_program, static_check.
  change (mkS [[]] None 0) with (top_sctx []).
  rewrite (check_block_mono_F1 _ HFP fP fuel' _ ltac:(lia) HcP).
  rewrite (exec_block_top_F1 orc _ HFP fuel fuel' _ _ _ ltac:(lia)); rewrite Hex; cbn [snd]; [|discriminate].
  rewrite Hout. reflexivity.
Qed.

(** * 4. The model session whose lines all succeed, read as one program *)

Lemma session_hyps_F1 : forall orc fuel asts st sem, session_hyps orc fuel st sem asts ->
  Forall (fun a => in_F1 a = true) asts.
Proof.
  intros orc fuel asts. induction asts as [|a r IH]; intros st sem H; [constructor|].
  cbn [session_hyps] in H. destruct H as [HF [_ [_ [_ [_ H]]]]]. constructor; [exact HF|exact (IH _ _ H)].
Qed.

Lemma lines_corr_last : forall asts os rs, lines_corr asts os rs -> asts <> [] ->
  forall d1 d2, obs_corr (last asts []) (last os d1) (last rs d2).
Proof.
  intros asts os rs H. induction H as [|a o r asts os rs Ho H IH]; intros Hne d1 d2; [contradiction|].
  destruct H as [|a' o' r' asts' os' rs' Ho' H'].
  - exact Ho.
  - apply (IH ltac:(discriminate) d1 d2).
Qed.

(* the "one growing program" reading: if every line of the session succeeds, what the retained
   (Compiler, VM) pair answers for the last line is what the single program made of all the lines
   denotes *)
Theorem session_equals_single_program : forall u orc fuel srcs asts,
  Forall2 (fun src a => parse u (parse_float orc) src = Ok a) srcs asts ->
  session_hyps orc fuel compiler_new sem_session_new asts ->
  (forall r, In r (sem_session_run orc fuel sem_session_new asts) -> exists v h out, r = LValue v h out) ->
  asts <> [] -> ends_expr (last asts []) = true -> last asts [] <> [] ->
  exists v h N F, forall budget fuel', (N <= budget)%nat -> (F <= fuel')%nat ->
    sem_program orc fuel' (concat asts) = SemValue v h [] /\
    let o := last (run_session u orc budget session_new srcs) (front_obs session_new OutOfFuel) in
    lo_result o = Ok v /\ lo_out o = [].
Proof.
  intros u orc fuel srcs asts HP HH Hall Hne HE Hlast.
  destruct (session_refines_program_F1 u orc fuel srcs asts HP HH) as [N HN].
  destruct (sem_session_is_program orc fuel asts (session_hyps_F1 _ _ _ _ _ HH) Hall Hne Hlast) as [v [h [F [Hl HF]]]].
  exists v, h, N, F. intros budget fuel' Hb Hf. split; [exact (HF fuel' Hf)|].
  pose proof (lines_corr_last _ _ _ (HN budget Hb) Hne (front_obs session_new OutOfFuel) LFuel) as Hc.
  rewrite Hl in Hc. destruct Hc as [Ho [_ [_ [_ [v' [Hr [_ Hv]]]]]]].
  cbv zeta. split; [rewrite Hr, (Hv HE); reflexivity|exact Ho].
Qed.

(** * 4b. What SRel says about names; a syntactic criterion for the exclusion of D29 *)

(* "every line sees the global variables declared by earlier lines with their current values": under SRel a
   name resolves in the retained compiler iff it is bound in the session's environment, and the slot
   holds the value of the cell (null on both sides when never assigned) *)
Theorem SRel_sees : forall s sem x, SRel s sem ->
  match resolve (c_symbols (ss_compiler s)) x with
  | Some sy => s_scope sy = SGlobal /\
               exists cell, d_lookup (sm_dyn sem) x = Some cell /\
                            get_cell cell (sm_state sem) = nth (s_index sy) (v_globals (ss_vm s)) VNull
  | None => d_lookup (sm_dyn sem) x = None
  end.
Proof.
  intros s sem x [ds [k W]]. rewrite (SR_syms _ _ _ _ W), (SR_dyn _ _ _ _ W), resolve_names, d_lookup_top.
  pose proof (lookup_agree ds x) as HL.
  destruct (rposition x (map fst ds)) as [i|]; cbn [option_map].
  - destruct HL as [y [c [Hi Hc]]]. split; [reflexivity|]. exists c. split; [exact Hc|].
    exact (R_val _ _ _ (SR_rel _ _ _ _ W) i y c Hi).
  - exact HL.
Qed.

Lemma SRel_static_dyn : forall s sem, SRel s sem -> static_of_dyn (sm_dyn sem) = sm_static sem.
Proof. intros s sem [ds [k W]]. rewrite (SR_dyn _ _ _ _ W), (SR_static _ _ _ _ W). apply static_of_dyn_top. Qed.

Lemma static_of_dyn_declare : forall c x cl, static_of_dyn (d_declare c x cl) = s_declare (static_of_dyn c) x.
Proof.
  intros c x cl. unfold static_of_dyn, d_declare, s_declare. cbn [s_local s_global s_loops].
  destruct (d_local c) as [|sc r]; reflexivity.
Qed.

Lemma exec_top_nolets_ctx : forall orc l, in_F1 l = true -> lets l = [] -> forall fuel c last st,
  fst (exec_top orc fuel c l last st) = c.
Proof.
  intros orc l. induction l as [|s0 l IH]; intros HF HL fuel c last st; [reflexivity|].
  cbn [in_F1 forallb] in HF. apply andb_prop in HF. destruct HF as [HF0 HFl].
  destruct s0 as [x e|e|e| | |]; try discriminate HF0; cbn [in_F1s] in HF0; cbn [lets] in HL; [discriminate HL|].
  rewrite et_expr. destruct (eval_expr orc fuel c e st) as [v st1| | | |]; try reflexivity.
  assert (match e with
          | EFunction (ch :: name) _ _ => d_declare c (ch :: name) (Pos.pred (st_next st1))
          | _ => c
          end = c) as -> by (destruct e; try discriminate HF0; reflexivity).
  apply (IH HFl HL).
Qed.

Lemma static_after_nolets : forall l, in_F1 l = true -> lets l = [] -> forall c, static_after c l = c.
Proof.
  intros l. induction l as [|s0 l IH]; intros HF HL c; [reflexivity|].
  cbn [in_F1 forallb] in HF. apply andb_prop in HF. destruct HF as [HF0 HFl].
  destruct s0 as [x e|e|e| | |]; try discriminate HF0; cbn [in_F1s] in HF0; cbn [lets] in HL; [discriminate HL|].
  cbn [static_after]. assert (stmt_declares (SExpr e) = None) as -> by (destruct e; try discriminate HF0; reflexivity).
  apply (IH HFl HL).
Qed.

(* a line whose only `stel` (if any) is its first statement is never in class D29; in particular
   every single-statement line *)
Theorem decls_done_first_only : forall orc fuel sem ast,
  static_of_dyn (sm_dyn sem) = sm_static sem -> in_F1 ast = true -> lets (tl ast) = [] ->
  decls_done orc fuel sem ast.
Proof.
  intros orc fuel sem ast Hsd HF HL. unfold decls_done.
  destruct ast as [|s0 l]; [cbn [exec_top]; exact I|]. cbn [tl] in HL.
  cbn [in_F1 forallb] in HF. apply andb_prop in HF. destruct HF as [HF0 HFl].
  set (st0 := clear_out (sm_state sem)).
  destruct s0 as [x e|e|e| | |]; try discriminate HF0; cbn [in_F1s] in HF0.
  - rewrite et_let. unfold new_cell.
    set (c1 := d_declare (sm_dyn sem) x (st_next st0)).
    set (st1 := mkSt (st_heap st0) (st_cells st0) (Pos.succ (st_next st0)) (st_funs st0) (st_out st0)).
    assert (static_of_dyn c1 = static_after (sm_static sem) (SLet x e :: l)) as Hc1.
    { cbn [static_after stmt_declares]. rewrite (static_after_nolets l HFl HL). unfold c1.
      rewrite static_of_dyn_declare, Hsd. reflexivity. }
    destruct (eval_expr orc fuel c1 e st1) as [v st2| | | |]; try exact Hc1.
    pose proof (exec_top_nolets_ctx orc l HFl HL fuel c1 VNull (set_cell (st_next st0) v st2)) as Hctx.
    destruct (exec_top orc fuel c1 l VNull (set_cell (st_next st0) v st2)) as [c' r]. cbn [fst] in Hctx. subst c'.
    destruct r; try exact Hc1. exact I.
  - rewrite et_expr.
    assert (static_of_dyn (sm_dyn sem) = static_after (sm_static sem) (SExpr e :: l)) as Hc1.
    { cbn [static_after]. assert (stmt_declares (SExpr e) = None) as -> by (destruct e; try discriminate HF0; reflexivity).
      rewrite (static_after_nolets l HFl HL). exact Hsd. }
    destruct (eval_expr orc fuel (sm_dyn sem) e st0) as [v st1| | | |]; try exact Hc1.
    assert (match e with
            | EFunction (ch :: name) _ _ => d_declare (sm_dyn sem) (ch :: name) (Pos.pred (st_next st1))
            | _ => sm_dyn sem
            end = sm_dyn sem) as -> by (destruct e; try discriminate HF0; reflexivity).
    pose proof (exec_top_nolets_ctx orc l HFl HL fuel (sm_dyn sem) v st1) as Hctx.
    destruct (exec_top orc fuel (sm_dyn sem) l v st1) as [c' r]. cbn [fst] in Hctx. subst c'.
    destruct r; try exact Hc1. exact I.
Qed.

(** * 5. Examples (by computation) *)

Module SRExamples.
  Definition u0 : unicode := mkUnicode (fun _ => false) (fun _ => false).
  Definition orc0 : oracle := mkOracle (fun _ => []) (fun _ => None) (fun x _ => x).
  Definition ast_of (src : text) : block := match parse u0 (parse_float orc0) src with Ok a => a | _ => [] end.
  Local Open Scope string_scope.

  (* a session with a rejected line, a line that fails after an assignment, a redeclaration, and an
     assignment inside the expression that fails *)
  Definition ex_srcs : list text :=
    map str_cps [ "stel a = 10 - 3; a = a * 2; a + 1";     (* 15 *)
                  "b";                                      (* ReferenceError: nothing changes *)
                  "a = a + 1; ja + 1; a = 0";               (* TypeError after a = 15 *)
                  "a";                                      (* 15 *)
                  "stel a = nee; (a = 7) + (a / 0)";        (* a new `a`; TypeError after a = 7 *)
                  "a" ].                                    (* 7 *)
  Definition ex_asts : list block := Eval vm_compute in map ast_of ex_srcs.

  Example ex_parses : Forall2 (fun src a => parse u0 (parse_float orc0) src = Ok a) ex_srcs ex_asts.
  Proof. repeat constructor. Qed.

  Example ex_hyps : session_hyps orc0 100 compiler_new sem_session_new ex_asts.
  Proof.
    vm_compute. repeat split; try (apply Nat.leb_le; reflexivity); try discriminate.
  Qed.

  Example ex_model : map lo_result (run_session u0 orc0 100 session_new ex_srcs)
    = [Ok (VInt 15); Err EReferenceError; Err ETypeError; Ok (VInt 15); Err ETypeError; Ok (VInt 7)].
  Proof. vm_compute. reflexivity. Qed.

  Example ex_sem : exists h1 h2 h3, sem_session_run orc0 100 sem_session_new ex_asts
    = [LValue (VInt 15) h1 []; LRejected EReferenceError; LError ETypeError []; LValue (VInt 15) h2 [];
       LError ETypeError []; LValue (VInt 7) h3 []].
  Proof. vm_compute. eexists. eexists. eexists. reflexivity. Qed.

  Example ex_by_theorem : exists N, forall budget, (N <= budget)%nat ->
    lines_corr ex_asts (run_session u0 orc0 budget session_new ex_srcs)
               (sem_session_run orc0 100 sem_session_new ex_asts).
  Proof. exact (session_refines_program_F1 u0 orc0 100 ex_srcs ex_asts ex_parses ex_hyps). Qed.

  (* Finding D29 (class declaration_after_runtime_failure): the hypothesis decls_done is necessary.
     `1 / 0; stel c = 5` fails at its first statement; the compiler has committed `c`, Sem has not:
     the next line `c` is null for the model and an undeclared name for the meaning of the session.
     Every other hypothesis of line_refines holds for the first line. *)
  Definition d29_srcs : list text := map str_cps [ "1 / 0; stel c = 5"; "c" ].
  Definition d29_asts : list block := Eval vm_compute in map ast_of d29_srcs.
  Definition d29_a1 : block := Eval vm_compute in nth 0 d29_asts [].

  Example d29_differs :
    map lo_result (run_session u0 orc0 100 session_new d29_srcs) = [Err ETypeError; Ok VNull] /\
    sem_session_run orc0 100 sem_session_new d29_asts = [LError ETypeError []; LRejected EReferenceError].
  Proof. split; vm_compute; reflexivity. Qed.

  Example d29_only_decls_done_fails :
    in_F1 d29_a1 = true /\ (size_block d29_a1 <= 100)%nat /\
    snd (sem_line' orc0 100 sem_session_new d29_a1) <> LFuel /\
    snd (compile_ast d29_a1 compiler_new) <> Err ESyntaxError /\
    ~ decls_done orc0 100 sem_session_new d29_a1.
  Proof.
    split; [reflexivity|]. split; [apply Nat.leb_le; reflexivity|].
    split; [vm_compute; discriminate|]. split; [vm_compute; discriminate|].
    intros H. vm_compute in H. discriminate H.
  Qed.

  (* the same line with the declaration first is fine: `stel c = 5; 1 / 0` then `c` gives 5 on both sides *)
  Definition ok_srcs : list text := map str_cps [ "stel c = 5; 1 / 0"; "c" ].
  Definition ok_asts : list block := Eval vm_compute in map ast_of ok_srcs.
  Example ok_hyps : session_hyps orc0 100 compiler_new sem_session_new ok_asts.
  Proof. vm_compute. repeat split; try (apply Nat.leb_le; reflexivity); try discriminate. Qed.
  Example ok_model : map lo_result (run_session u0 orc0 100 session_new ok_srcs) = [Err ETypeError; Ok (VInt 5)].
  Proof. vm_compute. reflexivity. Qed.

  (* one growing program: three lines that succeed *)
  Definition one_srcs : list text := map str_cps [ "stel a = 10 - 3"; "a = a * 2"; "a + 1" ].
  Definition one_asts : list block := Eval vm_compute in map ast_of one_srcs.
  Example one_parses : Forall2 (fun src a => parse u0 (parse_float orc0) src = Ok a) one_srcs one_asts.
  Proof. repeat constructor. Qed.
  Example one_hyps : session_hyps orc0 100 compiler_new sem_session_new one_asts.
  Proof. vm_compute. repeat split; try (apply Nat.leb_le; reflexivity); try discriminate. Qed.
  Example one_all_succeed : forall r, In r (sem_session_run orc0 100 sem_session_new one_asts) ->
    exists v h out, r = LValue v h out.
  Proof.
    vm_compute. intros r [<-|[<-|[<-|[]]]]; eexists; eexists; eexists; reflexivity.
  Qed.
  Example one_by_theorem : exists v h N F, forall budget fuel', (N <= budget)%nat -> (F <= fuel')%nat ->
    sem_program orc0 fuel' (concat one_asts) = SemValue v h [] /\
    let o := last (run_session u0 orc0 budget session_new one_srcs) (front_obs session_new OutOfFuel) in
    lo_result o = Ok v /\ lo_out o = [].
  Proof.
    apply (session_equals_single_program u0 orc0 100 one_srcs one_asts one_parses one_hyps one_all_succeed);
      [discriminate|reflexivity|discriminate].
  Qed.
  Example one_computed :
    lo_result (last (run_session u0 orc0 100 session_new one_srcs) (front_obs session_new OutOfFuel)) = Ok (VInt 15) /\
    exists h, sem_program orc0 100 (concat one_asts) = SemValue (VInt 15) h [].
  Proof. split; [vm_compute; reflexivity|]. vm_compute. eexists. reflexivity. Qed.

  (* `last asts [] <> []` is necessary (inside Sem): an empty last line answers null, the concatenation
     answers the value of the line before *)
  Example empty_last_line :
    exists h1 h2 h3, sem_session_run orc0 100 sem_session_new [[SExpr (EInt 1)]; []] = [LValue (VInt 1) h1 []; LValue VNull h2 []]
    /\ sem_program orc0 100 (concat [[SExpr (EInt 1)]; []]) = SemValue (VInt 1) h3 [].
  Proof. vm_compute. eexists. eexists. eexists. split; reflexivity. Qed.
End SRExamples.

Print Assumptions session_refines_program_F1.
Print Assumptions unparsable_lines_ignored.
Print Assumptions sem_session_is_program.
Print Assumptions session_equals_single_program.
Print Assumptions SRel_sees.
Print Assumptions decls_done_first_only.
