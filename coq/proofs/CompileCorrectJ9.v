(* CompileCorrectJ9.v - compiler correctness for the fragment F4 = functions + heap values + builtins
   (property C01, the capstone): the main theorem `compile_correct_F4` and its corollaries.

   The chain, for a program p of the fragment compiled to bc, from the denotation to the machine:
     Sem.v                                   (spec/Sem.v: closures, cells, a heap that only grows)
       ~  evaluator, policy "fresh box"      part J4: same locations, function values translated
       ~  evaluator, policy "constant pool"  part J7: locations through a relation R that grows
       =  collection-free machine            part J3: exact states, on the compiled code
       ~  the machine                        part J1: the same state, some boxes flagged dead
   and, at the end of the run, dropping the collector keeps what the result reaches.
   The address-space bound `sem_small` travels along: Sem's final state bounds every state before
   (part J0), the evaluator's states have as many boxes as Sem's, the pool adds K. *)
From Coq Require Import ZArith Lia Bool List String.
From NL.Model Require Import VM.
From NL.Spec Require Import Sem Fragment Fragment2 Fragment2h Fragment3 Fragment4 ArithSpec GCInv VMInv ReachSpec.
From NL.Spec Require ScopeSpec.
From NL.Proofs Require VMStepProofs CompilerNames SymbolsProofs PoolProofs VMTotal CompileCorrectH4 CompileCorrectH5.
From NL.Proofs Require Import WordProofs OpsProofs AstInduction ControlProofs VMGCLedger VMGCProofs
  CompileCorrectA CompileCorrectB CompileCorrectC CompileCorrectD CompileCorrectH1 CompileCorrectH3
  CompileCorrectJ1 CompileCorrectJ2 CompileCorrectJ0 CompileCorrectJ3 CompileCorrectJ4 CompileCorrectJ5
  CompileCorrectJ6 CompileCorrectJ7 CompileCorrectJ8.
Open Scope Z_scope.

(** * The result graph: Sem's heap, the two evaluator heaps, the two machine heaps, the heap after the drop *)

Lemma F2_comp : forall A B C (P : A -> B -> Prop) (Q : B -> C -> Prop) (S : A -> C -> Prop) a b c,
  Forall2 P a b -> Forall2 Q b c -> (forall x y z, P x y -> Q y z -> In z c -> S x z) -> Forall2 S a c.
Proof.
  intros A B C P Q S a b c H. revert c. induction H as [|x y a' b' Hxy Hab IH]; intros c Hq Hs.
  - inversion Hq; subst. constructor.
  - inversion Hq as [|y' z b'' c' Hyz Hbc]; subst. constructor.
    + apply (Hs x y z Hxy Hyz). left. reflexivity.
    + apply IH; [exact Hbc|]. intros x0 y0 z0 H1 H2 Hin. apply (Hs x0 y0 z0 H1 H2). right. exact Hin.
Qed.

Lemma graph_final : forall F R hs hS hM hr hf vs vz vm,
  hsame F hs hS -> grm R hS hM -> hle hr hM -> vrel F vs vz -> vrm R vz vm ->
  (forall l, reach hr [vm] l -> PM.find l (cells hf) = PM.find l (cells hr) /\ h_alive hf l = true) ->
  graph_eq4 hs vs hf vm.
Proof.
  intros F R hs hS hM hr hf vs vz vm Hsame G Hle Hv1 Hv2 Hdrop.
  set (T := fun l l' => R l l' /\ reach hr [vm] l').
  assert (forall a z b, vrel F a z -> vrm R z b -> (forall k, val_loc b = Some k -> reach hr [vm] k) -> val_rel4 T a b)
    as Hlift.
  { intros a z b Ha Hb Hre. destruct (vrel_cases F a z Ha) as [[Hnf [-> _]]|[id [n [ip [k [-> ->]]]]]].
    - destruct Hb; try constructor; try (split; [assumption|apply Hre; reflexivity]).
    - inversion Hb; subst. constructor. }
  (* a box the result reaches in the real heap: alive there, the same in the collection-free heap and after the drop *)
  assert (forall l' o', reach hr [vm] l' -> h_get hM l' = Ok o' ->
            h_get hf l' = Ok o' /\ PM.find l' (cells hr) = Some (true, o')) as Hreal.
  { intros l' o' Hre B. destruct (Hdrop l' Hre) as [Hf Hal]. unfold h_alive in Hal. rewrite Hf in Hal.
    destruct (PM.find l' (cells hr)) as [[[|] orr]|] eqn:Er; try discriminate Hal.
    pose proof (hle_find_alive hr hM l' orr Hle Er) as EM.
    assert (orr = o') as -> by (unfold h_get in B; rewrite EM in B; inversion B; reflexivity).
    split; [unfold h_get; rewrite Hf; reflexivity|reflexivity]. }
  exists T. split.
  - apply (Hlift vs vz vm Hv1 Hv2). intros k Hk. apply (reach_root hr [vm] vm k); [left; reflexivity|exact Hk].
  - constructor.
    + intros l l' [Hr Hre]. destruct (gm_obj _ _ _ G l l' Hr) as [oz [o' [A [B C]]]].
      pose proof (hsame_get F hs hS l Hsame) as Hg. rewrite A in Hg.
      destruct (h_get hs l) as [os| | |] eqn:Es; cbn [CompileCorrectH3.orel] in Hg; try contradiction.
      destruct (Hreal l' o' Hre B) as [Bf Er].
      exists os, o'. split; [reflexivity|]. split; [exact Bf|].
      destruct os; destruct oz; cbn [orelF] in Hg; try contradiction; destruct o'; cbn [orm] in C; try contradiction;
        cbn [obj_rel4]; try congruence.
      apply (F2_comp _ _ _ _ _ _ _ _ _ Hg C). intros x y z Hxy Hyz Hin. apply (Hlift x y z Hxy Hyz).
      intros k Hk. exact (reach_elem hr [vm] l' true vs2 z k Hre Er Hin Hk).
    + intros l l1 l2 [H1 _] [H2 _]. exact (gm_fun _ _ _ G l l1 l2 H1 H2).
    + intros l1 l2 l' [H1 Hre] [H2 _]. destruct (gm_inj _ _ _ G l1 l2 l' H1 H2) as [E|[f Hf]]; [left; exact E|right].
      exists f. exact (proj1 (Hreal l' (OFloat f) Hre Hf)).
Qed.

(** * Initial states *)

Definition m0 : hst := mkHS empty_heap gc_new [] [].
Definition yS0 : yst := mkY m0 [] [].
Definition E_top : cenv := mkCE MTop [] [] O O [] [] O.
Definition B0 : base := mkB [] [].

Lemma Rel3_init : forall Sall, Rel3 Sall E_top [] sem_init yS0.
Proof.
  intros Sall. constructor; cbn [E_top ce_mode ce_ds ce_dl ce_nf ce_L ce_gh ce_lh ce_N app map yS0 m0 y_m y_loc y_funs
                                 hs_heap hs_out hs_gl sem_init st_heap st_out st_next st_cells st_funs].
  - apply hsame_empty.
  - reflexivity.
  - apply Nat.le_refl.
  - constructor.
  - intros i x c H. destruct i; discriminate H.
  - intros i x c H. destruct i; discriminate H.
  - intros c [].
  - intros c _. apply PM.gempty.
  - reflexivity.
  - intros id fe H. destruct id; discriminate H.
  - intros fe [].
  - intros h [].
  - intros h [].
  - reflexivity.
Qed.

Lemma ctx_ok_init : ctx_ok compiler_new (mkD [[]] None) E_top.
Proof.
  unfold ctx_ok. cbn [E_top ce_mode ce_ds ce_dl d_global d_local concat app rev map].
  split; [reflexivity|]. split; [reflexivity|]. split; [reflexivity|]. exists O, [], [].
  split; [reflexivity|]. split; [reflexivity|]. apply Nat.le_refl.
Qed.

(* Sem against the evaluator (fresh boxes), for a whole program *)
Lemma sem_program_yeval4 : forall orc p st1, in_F4 p = true -> compile_statements p compiler_new = Ok st1 ->
  forall fuel, exists E',
    corr (lits p) E_top E' [] sem_init (exec_block orc fuel (mkD [[]] None) p VNull sem_init)
         (ystmts orc lit_fresh fuel compiler_new p VNull yS0).
Proof.
  intros orc p st1 HF Hc fuel.
  destruct (sem_yeval orc (lits p) (lits_uniq p st1 HF Hc) (lits_closed p) fuel) as [_ [Hl _]].
  destruct (Hl false true false p (mkD [[]] None) compiler_new st1 E_top [] sem_init yS0 VNull VNull HF Hc
              ctx_ok_init) as [E' [_ [_ H]]].
  - split; [reflexivity|]. intros _. reflexivity.
  - apply Rel3_init.
  - intros N. discriminate N.
  - split; intros h y c [].
  - intros fe H. exact H.
  - apply vrel_null.
  - exists E'. exact H.
Qed.

(* the two evaluator states at the start: nothing is related yet, the pool is in the machine's heap *)
Lemma YR_init : forall ks consts h0, load_consts ks empty_heap = (consts, h0) ->
  YR (Z.of_nat (length ks)) (combine ks consts) CompileCorrectH5.R0 yS0 (mkY (hst_of (vm_start vm_new consts h0)) [] []).
Proof.
  intros ks consts h0 El.
  destruct (CompileCorrectH5.load_consts_pool ks empty_heap consts h0 El heap_ok_empty CompileCorrectH5.hi_empty_heap)
    as [L [O [I0 [N [_ C]]]]].
  constructor; cbn [y_m y_loc y_funs yS0]; [|constructor|reflexivity|constructor].
  constructor; cbn [m0 hst_of vm_start vm_new hs_heap hs_gl hs_out v_heap v_globals v_out].
  - constructor.
    + constructor; [intros l l' []|intros l l1 l2 []|intros l1 l2 l' []].
    + exact heap_ok_empty.
    + exact O.
    + lia.
    + cbn [empty_heap n_alloc] in *. lia.
  - constructor.
  - reflexivity.
  - intros c v Hin. specialize (C c v Hin). destruct c; cbn [CompileCorrectH5.const_at] in C; auto.
    destruct C as [l [E G]]. exists l. split; [exact E|]. split; [exact G|]. intros ls [].
Qed.

(** * The run of the collection-free machine on the compiled program *)

Lemma nth_error_combine : forall A B (a : list A) (b : list B) i x, length a = length b -> nth_error a i = Some x ->
  exists y, nth_error b i = Some y /\ In (x, y) (combine a b).
Proof.
  intros A B a. induction a as [|x0 a IH]; intros [|y0 b] i x Hl Hi; cbn [length] in Hl; try discriminate Hl.
  - destruct i; discriminate Hi.
  - destruct i as [|i]; cbn [nth_error combine] in *.
    + inversion Hi; subst. exists y0. split; [reflexivity|left; reflexivity].
    + destruct (IH b i x ltac:(lia) Hi) as [y [H1 H2]]. exists y. split; [exact H1|right; exact H2].
Qed.

Section Run4.
  Variable orc : oracle.

  Theorem compile_run_ng : forall p bc consts h0, in_F4 p = true -> ends_pop p = true -> compile p = Ok bc ->
    load_consts (b_constants bc) empty_heap = (consts, h0) ->
    forall fuel,
    let pl := combine (b_constants bc) consts in
    let prog := mkProgram (b_code bc) consts in
    let s0 := vm_start vm_new consts h0 in
    match ystmts orc (lit_pool pl) fuel compiler_new p VNull (mkY (hst_of s0) [] []) with
    | YOk v y' => exists tip' st1, compile_statements p compiler_new = Ok st1 /\
                    code_at prog (code_len st1) [byte_of_opcode OHalt] /\
                    reachesL orc prog s0 (mk B0 tip' [] y' (code_len st1) v)
    | YErr k m => stopsL orc prog s0 (Err k) m
    | YFault f m => stopsL orc prog s0 (Fault f) m
    | YExcl o m => xl orc prog o m s0
    | _ => True
    end.
  Proof.
    intros p bc consts h0 HF Hpop H El fuel. destruct (compile_inv p bc H) as [st1 [Hc ->]]. clear H.
    cbn [b_constants b_code] in *. cbv zeta.
    set (pl := combine (c_constants st1) consts).
    assert (c_symbols compiler_new = ltab [] SGlobal O [] []) as Hs0 by reflexivity.
    assert (pre_ok [] SGlobal) as Hp0 by (split; [reflexivity|constructor]).
    destruct (lsim_all pl orc p false true false compiler_new st1 [] SGlobal O [] [] HF Hs0 Hp0 (Nat.le_refl _) Hc)
      as [ce [nb [k' [L _]]]].
    pose proof L as [CF _].
    pose proof (cf3_nbnil _ _ _ _ _ _ _ _ _ CF eq_refl) as ->.
    pose proof (cf3_code _ _ _ _ _ _ _ _ _ CF) as Hce. cbn [compiler_new c_code app] in Hce.
    destruct (CompileCorrectH5.load_consts_pool _ _ _ _ El heap_ok_empty CompileCorrectH5.hi_empty_heap)
      as [Llen [_ [_ [_ [_ Cat]]]]].
    rewrite Hce.
    set (prog := mkProgram (ce ++ [byte_of_opcode OHalt]) consts).
    set (s0 := vm_start vm_new consts h0).
    set (yM0 := mkY (hst_of s0) [] []).
    assert (s0 = mk B0 0 [] yM0 0 VNull) as Es0 by reflexivity.
    assert (code_len st1 = zlength ce) as Lce by (unfold code_len; rewrite Hce; reflexivity).
    assert (env3 pl prog compiler_new st1 ce [] 0) as E.
    { constructor.
      - split; [reflexivity|]. intros i b Hi _. unfold byte_at. change (code_len compiler_new) with 0.
        cbn [Z.add]. destruct (Z.of_nat i <? 0) eqn:Ei; [apply Z.ltb_lt in Ei; lia|].
        rewrite Nat2Z.id. cbn [prog p_code]. rewrite nth_error_app1; [exact Hi|].
        apply nth_error_Some. rewrite Hi. discriminate.
      - intros i k Hi Hk. cbn [prog p_consts].
        destruct (nth_error_combine _ _ (c_constants st1) consts i k (eq_sym Llen) Hi) as [v [Hv Hin]]. rewrite Hv.
        specialize (Cat k v Hin). destruct Hk as [[z ->]|[ip [n ->]]]; cbn [CompileCorrectH5.const_at kval] in *; rewrite Cat; reflexivity.
      - intros ip [].
      - split; [apply CompileCorrectH5.map_snd_combine; symmetry; exact Llen|].
        exists []. rewrite app_nil_r. apply CompileCorrectH5.map_fst_combine. symmetry. exact Llen.
      - intros c v Hin. specialize (Cat c v Hin). destruct c; cbn [CompileCorrectH5.const_at] in Cat; auto.
        + destruct Cat as [l [E1 _]]. exists l. exact E1.
        + destruct Cat as [l [E1 _]]. exists l. exact E1. }
    assert (callsok pl orc prog fuel) as HC by (intros f' _; apply calls_ok).
    assert (loc_ok SGlobal k' yM0) as Hloc by (intros N; discriminate N).
    pose proof (stmt_mode pl orc p compiler_new st1 [] SGlobal k' [] [] ce [] L prog 0 E ltac:(lia) ltac:(cbn; lia) fuel HC
                  B0 0 [] yM0 VNull VNull (Forall_nil _) Hloc) as Hsim.
    change (code_len compiler_new) with 0 in Hsim. rewrite <- Es0 in Hsim. rewrite Hpop in Hsim.
    destruct (ystmts orc (lit_pool pl) fuel compiler_new p VNull yM0) as [v y'|y'|y'|v y'|k0 m|x0 m|o m|];
      cbn [sim_full] in *; try exact I; try exact Hsim.
    destruct Hsim as [fin' [tip' [Hr [_ Hfin]]]]. rewrite (Hfin eq_refl) in Hr.
    exists tip', st1. split; [exact Hc|]. split; [|exact Hr].
    exists ce, []. split; [reflexivity|]. symmetry. exact Lce.
  Qed.
End Run4.

(** * From the collection-free machine to the machine *)

Section Transfer.
  Variable orc : oracle.

  Lemma excluded_vsim : forall prog r n, vsim r n -> excluded prog n -> excluded prog r.
  Proof.
    intros prog r n V. destruct (vsim_fields r n V) as [E1 [E2 [_ [E4 [E5 _]]]]]. intros [H|H]; [left|right].
    - destruct H as [argc [ip [nn [rest [A [B [C [D F]]]]]]]]. exists argc, ip, nn, rest.
      rewrite <- E5, <- E1, <- E2, <- E4. auto.
    - destruct H as [op [i [nn [j [k [rest [A [B C]]]]]]]]. exists op, i, nn, j, k, rest. rewrite <- E5, <- E1. auto.
  Qed.

  Lemma at_call_vsim : forall prog r n argc ip nn, vsim r n -> at_call prog n argc ip nn -> at_call prog r argc ip nn.
  Proof.
    intros prog r n argc ip nn V [rest [A [B [C D]]]]. destruct (vsim_fields r n V) as [E1 [_ [_ [_ [E5 _]]]]].
    exists rest. rewrite <- E5, <- E1. auto.
  Qed.

  (* a state the real machine reaches after n instructions that all continue *)
  Lemma hits_of_steps : forall T bc consts h0 n r1, load_consts (b_constants bc) empty_heap = (consts, h0) ->
    CompileCorrectA.steps orc (mkProgram (b_code bc) consts) n (vm_start vm_new consts h0) = Ok r1 ->
    excluded4 T (mkProgram (b_code bc) consts) r1 -> hits_excluded4 T orc bc.
  Proof.
    intros T bc consts h0 n r1 El Hn Hx. exists n, r1. rewrite El. split; [|exact Hx].
    pose proof (CompileCorrectA.run_loop_reach orc (mkProgram (b_code bc) consts) n _ r1 O Hn) as R.
    rewrite Nat.add_0_r in R. rewrite R. reflexivity.
  Qed.

  Lemma real_exclL : forall T bc consts h0 Bd, load_consts (b_constants bc) empty_heap = (consts, h0) ->
    exclL orc (mkProgram (b_code bc) consts) Bd (vm_start vm_new consts h0) -> Bd + 1 < 2 ^ 60 ->
    hits_excluded4 T orc bc.
  Proof.
    intros T bc consts h0 Bd El [n [s1 [Hn [Hx Hb]]]] HB.
    pose proof (vm_inv_initial (b_code bc) _ consts h0 El) as HI.
    destruct (gc_unobservable_steps orc _ n _ _ s1 HI (vsim_refl _) Hn ltac:(lia)) as [r1 [Hr [V _]]].
    apply (hits_of_steps T bc consts h0 n r1 El Hr). left. exact (excluded_vsim _ _ _ V Hx).
  Qed.

  Lemma real_overL : forall (T : Z -> Z -> nat -> Prop) bc consts h0 Bd argc ip nn np,
    load_consts (b_constants bc) empty_heap = (consts, h0) ->
    overL orc (mkProgram (b_code bc) consts) Bd argc ip nn (vm_start vm_new consts h0) -> Bd + 1 < 2 ^ 60 ->
    T ip nn np -> Z.of_nat np < argc ->
    hits_excluded4 T orc bc.
  Proof.
    intros T bc consts h0 Bd argc ip nn np El [n [s1 [Hn [Hx Hb]]]] HB HT Hnp.
    pose proof (vm_inv_initial (b_code bc) _ consts h0 El) as HI.
    destruct (gc_unobservable_steps orc _ n _ _ s1 HI (vsim_refl _) Hn ltac:(lia)) as [r1 [Hr [V _]]].
    apply (hits_of_steps T bc consts h0 n r1 El Hr). right.
    destruct (at_call_vsim _ _ _ _ _ _ V Hx) as [rest [A [B [C D]]]].
    exists argc, ip, nn, rest, np. repeat split; assumption.
  Qed.

  (* the machine stops where the collection-free machine stops *)
  Lemma real_stops : forall bc consts h0 x m, load_consts (b_constants bc) empty_heap = (consts, h0) ->
    stops orc (mkProgram (b_code bc) consts) (vm_start vm_new consts h0) x m ->
    n_alloc (hs_heap m) + 1 < 2 ^ 60 ->
    (forall s', x <> Ok (Continue s')) -> (forall v s', x <> Ok (Halted v s')) ->
    exists budget, o_result (run_program orc bc budget) = (match x with Err k => Err k | Fault f => Fault f | _ => OutOfFuel end)
                   /\ o_out (run_program orc bc budget) = hs_out m.
  Proof.
    intros bc consts h0 x m El [n [s1 [Hn [Hst Hm]]]] HB Hnc Hnh.
    pose proof (vm_inv_initial (b_code bc) _ consts h0 El) as HI.
    assert (n_alloc (v_heap s1) + 1 < 2 ^ 60) as HB1 by (subst m; exact HB).
    destruct (gc_unobservable_steps orc _ n _ _ s1 HI (vsim_refl _) Hn HB1) as [r1 [Hr [V HI1]]].
    pose proof (gc_unobservable_stop orc _ r1 s1 HI1 V HB1) as L. rewrite Hst in L.
    exists (n + 1)%nat.
    assert (v_out r1 = hs_out m) as Ho.
    { destruct (vsim_fields r1 s1 V) as [_ [_ [_ [_ [_ [_ [_ [E8 _]]]]]]]]. rewrite <- E8, <- Hm. reflexivity. }
    destruct x as [[s'|v s']|k|f|].
    - exfalso. exact (Hnc s' eq_refl).
    - exfalso. exact (Hnh v s' eq_refl).
    - destruct (step orc (mkProgram (b_code bc) consts) r1) as [[r'|w r']|k'|f'|] eqn:Er; cbn [same_step] in L; try contradiction.
      subst k'.
      assert (run_loop orc (mkProgram (b_code bc) consts) (n + 1) (vm_start vm_new consts h0) = (Err k, r1, O)) as Hloop.
      { rewrite (CompileCorrectA.run_loop_reach orc _ n _ r1 1 Hr). cbn [run_loop]. rewrite Er. reflexivity. }
      rewrite (CompileCorrectH5.run_program_obs orc bc (n + 1) consts h0 _ _ _ El Hloop). cbn [o_result o_out]. auto.
    - destruct (step orc (mkProgram (b_code bc) consts) r1) as [[r'|w r']|k'|f'|] eqn:Er; cbn [same_step] in L; try contradiction.
      subst f'.
      assert (run_loop orc (mkProgram (b_code bc) consts) (n + 1) (vm_start vm_new consts h0) = (Fault f, r1, O)) as Hloop.
      { rewrite (CompileCorrectA.run_loop_reach orc _ n _ r1 1 Hr). cbn [run_loop]. rewrite Er. reflexivity. }
      rewrite (CompileCorrectH5.run_program_obs orc bc (n + 1) consts h0 _ _ _ El Hloop). cbn [o_result o_out]. auto.
    - destruct (step orc (mkProgram (b_code bc) consts) r1) as [[r'|w r']|k'|f'|] eqn:Er; cbn [same_step] in L; try contradiction.
      assert (run_loop orc (mkProgram (b_code bc) consts) (n + 1) (vm_start vm_new consts h0) = (OutOfFuel, r1, O)) as Hloop.
      { rewrite (CompileCorrectA.run_loop_reach orc _ n _ r1 1 Hr). cbn [run_loop]. rewrite Er. reflexivity. }
      rewrite (CompileCorrectH5.run_program_obs orc bc (n + 1) consts h0 _ _ _ El Hloop). cbn [o_result o_out]. auto.
  Qed.

  (* the machine halts where the collection-free machine reaches the Halt instruction: the result, the
     output, and the heap after the collector has been dropped *)
  Lemma real_halts : forall bc consts h0 sF, load_consts (b_constants bc) empty_heap = (consts, h0) ->
    reaches orc (mkProgram (b_code bc) consts) (vm_start vm_new consts h0) sF ->
    n_alloc (v_heap sF) + 1 < 2 ^ 60 ->
    code_at (mkProgram (b_code bc) consts) (v_ip sF) [byte_of_opcode OHalt] ->
    exists budget hr hf,
      o_result (run_program orc bc budget) = Ok (v_final sF) /\ o_out (run_program orc bc budget) = v_out sF /\
      o_heap (run_program orc bc budget) = Ok hf /\ hle hr (v_heap sF) /\
      (forall l, reach hr [v_final sF] l -> PM.find l (cells hf) = PM.find l (cells hr) /\ h_alive hf l = true).
  Proof.
    intros bc consts h0 sF El [n Hn] HB Hh.
    pose proof (vm_inv_initial (b_code bc) _ consts h0 El) as HI.
    destruct (gc_unobservable_steps orc _ n _ _ sF HI (vsim_refl _) Hn HB) as [rF [Hr [V HIF]]].
    destruct (vsim_fields rF sF V) as [_ [_ [_ [_ [E5 [_ [E7 [E8 Hle]]]]]]]].
    rewrite E5 in Hh.
    destruct (CompileCorrectH5.halt_step orc _ rF [] HIF Hh) as [s' [Hst [Hout Hheap]]].
    assert (run_loop orc (mkProgram (b_code bc) consts) (n + 1) (vm_start vm_new consts h0) = (Ok (v_final rF), s', O)) as Hloop.
    { rewrite (CompileCorrectA.run_loop_reach orc _ n _ rF 1 Hr). cbn [run_loop]. rewrite Hst. reflexivity. }
    destruct (result_survives_drop orc _ (n + 1) _ (v_final rF) s' O HI Hloop) as [g' [hf [Ed [Hpres _]]]].
    exists (n + 1)%nat, (v_heap rF), hf.
    rewrite (CompileCorrectH5.run_program_obs orc bc (n + 1) consts h0 _ _ _ El Hloop). cbn [o_result o_out o_heap].
    rewrite E7. split; [reflexivity|]. split; [congruence|]. split; [rewrite Ed; reflexivity|]. split; [exact Hle|].
    intros l Hl. rewrite <- Hheap. apply Hpres. rewrite Hheap. exact Hl.
  Qed.
End Transfer.

(** * Compiler correctness for F4 *)

(* the states the fresh-box evaluator's result mentions have as many boxes as Sem's final state, or fewer *)
Lemma corr_ybd : forall Sall E E' F sst r x s2, corr Sall E E' F sst r x ->
  CompileCorrectH4.rstate r = Some s2 -> ybd (n_alloc (st_heap s2)) x.
Proof.
  intros Sall E E' F sst r x s2 H Hr.
  assert (forall F0 E0 s y, Rel3 Sall E0 F0 s y -> yn y = n_alloc (st_heap s)) as Hn.
  { intros F0 E0 s y HR. unfold yn. symmetry. exact (hsm_nalloc _ _ _ (r_heap _ _ _ _ _ HR)). }
  destruct x as [v' y'|y'|y'|v' y'|k' m|f' m|[[fe ac]|] m|]; cbn [ybd]; try exact I.
  - destruct r as [v s|[| |rv] s|k s|f s|]; cbn [corr CompileCorrectH4.rstate] in *; try contradiction; try discriminate Hr;
      try (destruct k; contradiction). inversion Hr; subst s.
    destruct H as [X [_ [HR _]]]. rewrite (Hn _ _ _ _ HR). lia.
  - destruct r as [v s|[| |rv] s|k s|f s|]; cbn [corr CompileCorrectH4.rstate] in *; try contradiction; try discriminate Hr;
      try (destruct k; contradiction). inversion Hr; subst s.
    destruct H as [X [HR _]]. rewrite (Hn _ _ _ _ HR). lia.
  - destruct r as [v s|[| |rv] s|k s|f s|]; cbn [corr CompileCorrectH4.rstate] in *; try contradiction; try discriminate Hr;
      try (destruct k; contradiction). inversion Hr; subst s.
    destruct H as [X [HR _]]. rewrite (Hn _ _ _ _ HR). lia.
  - destruct r as [v s|[| |rv] s|k s|f s|]; cbn [corr CompileCorrectH4.rstate] in *; try contradiction; try discriminate Hr;
      try (destruct k; contradiction). inversion Hr; subst s.
    destruct H as [_ [X [_ [HR _]]]]. rewrite (Hn _ _ _ _ HR). lia.
  - destruct r as [v s|[| |rv] s|k s|f s|]; cbn [corr CompileCorrectH4.rstate] in *; try contradiction; try discriminate Hr.
    inversion Hr; subst s. destruct k; destruct H as [_ [_ Hm]]; lia.
  - destruct r as [v s|[| |rv] s|k s|f s|]; cbn [corr CompileCorrectH4.rstate] in *; try contradiction; try discriminate Hr;
      try (destruct k; contradiction). inversion Hr; subst s. destruct H as [_ [_ Hm]]. lia.
  - destruct r as [v s|[| |rv] s|k s|f s|]; cbn [corr CompileCorrectH4.rstate] in *; try contradiction; try discriminate Hr.
    inversion Hr; subst s. destruct k; try contradiction. destruct H as [_ [_ [_ Hm]]]. lia.
  - assert (below m r) as Hb.
    { destruct r as [v s|[| |rv] s|k s|f s|]; cbn [corr] in H; try exact H; try discriminate Hr. destruct k; exact H. }
    unfold below in Hb. rewrite Hr in Hb. exact Hb.
Qed.

Section Main.
  Variable orc : oracle.

  (* Main theorem.  Hypotheses beyond membership in the fragment, all inherited from F2h and F3:
     the fuel is enough for the static pass and Sem's evaluation does not run out of fuel;
     `lits_exact`: the constant pool merges IEEE-equal float literals (0.0 and -0.0 written in one
     program - which no source text can - are outside the statement);
     `sem_small`: Sem's final state has fewer than 2^60 boxes (the address space of a heap word).
     Conclusion: the run of the bytecode - WITH the collector running at every function return - is
     observationally equal to the denotation: the same result GRAPH (read in the heap left when the
     collector has been dropped), the same output, the same error kind (also for an error raised inside
     a function after output); or the run passes through an excluded state: a Call beyond the
     16-bit limits, == / != on two function values, a call with more arguments than parameters
     (DESIGN 4.3 items 5, 14, 4). *)
  Theorem compile_correct_F4 : forall p, in_F4 p = true -> ends_expr p = true -> lits_exact (lits_b p) ->
    forall bc, compile p = Ok bc ->
    forall fuel, (size3_b p <= fuel)%nat -> sem_program orc fuel p <> SemFuel ->
    sem_small orc fuel p (length (b_constants bc)) ->
    (exists budget, obs_eq4 (run_program orc bc budget) (sem_program orc fuel p)) \/
    hits_excluded4 (fun_table p) orc bc.
  Proof.
    intros p HF HE Hex bc Hc fuel Hsz Hnf Hsmall. unfold sem_program in *.
    rewrite (static_accepts_F4 p bc fuel HF Hc Hsz) in *.
    destruct p as [|s0 r].
    - (* the empty program *)
      left. vm_compute in Hc. inversion Hc; subst bc. cbn [size3_b] in Hsz. destruct fuel as [|f]; [lia|].
      rewrite eb_nil. exists 1%nat. cbn [obs_eq4 sem_init st_heap st_out].
      eexists; eexists. split; [vm_compute; reflexivity|]. split; [vm_compute; reflexivity|]. split; [vm_compute; reflexivity|].
      exists CompileCorrectH5.R0. split; [constructor|].
      constructor; [intros l l' []|intros l l1 l2 []|intros l1 l2 l' []].
    - assert (ends_pop (s0 :: r) = true) as Hpop by (apply ends_expr_pop; [discriminate|exact HE]).
      set (p := s0 :: r) in *.
      destruct (load_consts (b_constants bc) empty_heap) as [consts h0] eqn:El.
      set (K := Z.of_nat (length (b_constants bc))).
      set (pl := combine (b_constants bc) consts).
      set (prog := mkProgram (b_code bc) consts).
      set (sv0 := vm_start vm_new consts h0).
      set (yM0 := mkY (hst_of sv0) [] []).
      destruct (CompileCorrectH5.load_consts_pool _ _ _ _ El heap_ok_empty CompileCorrectH5.hi_empty_heap) as [Llen _].
      destruct (compile_inv _ _ Hc) as [st1 [Hc1 _]].
      destruct (sem_program_yeval4 orc p st1 HF Hc1 fuel) as [E' Hsem].
      pose proof (proj2 (proj2 (yeval_nosig orc lit_fresh nosig_lit_fresh fuel)) p true false compiler_new VNull yS0 HF) as Hns.
      pose proof (compile_run_ng orc p bc consts h0 HF Hpop Hc El fuel) as Hrun. cbv zeta in Hrun.
      fold pl prog sv0 yM0 in Hrun.
      (* Sem's final state and the bound *)
      set (rS := exec_block orc fuel (mkD [[]] None) p VNull sem_init) in *.
      destruct (CompileCorrectH4.rstate rS) as [s2|] eqn:Ers.
      2:{ exfalso. apply Hnf. destruct rS; try discriminate Ers. reflexivity. }
      set (Bd := n_alloc (st_heap s2)).
      assert (Bd + K + 1 < 2 ^ 60) as HBd.
      { apply Hsmall. unfold sem_final_state. fold p rS.
        destruct rS; cbn [CompileCorrectH4.rstate] in Ers; inversion Ers; reflexivity. }
      set (xS := ystmts orc lit_fresh fuel compiler_new p VNull yS0) in *.
      pose proof (corr_ybd _ _ _ _ _ _ _ s2 Hsem Ers) as Hbd. fold Bd in Hbd.
      pose proof (proj2 (proj2 (ml_agree orc K pl Bd HBd fuel)) compiler_new p VNull VNull yS0 yM0 CompileCorrectH5.R0
                    (lits_good4 p bc consts HF Hc Hex Llen) (YR_init (b_constants bc) consts h0 El) (VM_null _) Hbd) as Hml.
      fold xS in Hml. set (xM := ystmts orc (lit_pool pl) fuel compiler_new p VNull yM0) in *.
      (* the bound for what the pool side mentions *)
      assert (forall mS mM, at_m K mS mM -> n_alloc (hs_heap mS) <= Bd -> n_alloc (hs_heap mM) + 1 < 2 ^ 60) as Hbm.
      { intros mS mM [_ Hm] Hs. lia. }
      destruct xS as [v' yS'|yS'|yS'|v' yS'|kS mS|fS mS|oS mS|]; cbn [nosig] in Hns; try contradiction.
      + (* a value *)
        destruct xM as [v'' yM'|yM'|yM'|w yM'|kM mM|fM mM|oM mM|]; cbn [ycorr] in Hml; try contradiction.
        destruct rS as [v s|[| |rv] s|k s|x s|]; cbn [corr CompileCorrectH4.rstate] in Hsem, Ers; try contradiction;
          try (destruct k; contradiction). inversion Ers; subst s.
        destruct Hsem as [X [Hv1 [HR3 _]]]. destruct Hml as [R' [_ [Hv2 HY]]]. unfold Pv in Hv2.
        destruct Hrun as [tip' [st1' [_ [Hh Hre]]]].
        set (sF := mk B0 tip' [] yM' (code_len st1') v'') in *.
        assert (n_alloc (v_heap sF) + 1 < 2 ^ 60) as HBF.
        { unfold sF. mkcbn. pose proof (MR_cnt _ _ _ _ _ (yr_m _ _ _ _ _ HY)). cbn [ybd] in Hbd. unfold yn in Hbd. lia. }
        destruct Hre as [Hre|Hx]; [|right; exact (real_exclL orc _ bc consts h0 _ El Hx HBF)].
        left. destruct (real_halts orc bc consts h0 sF El Hre HBF Hh) as [budget [hr [hf [O1 [O2 [O3 [Hle Hpres]]]]]]].
        exists budget. cbn [obs_eq4]. exists v'', hf. split; [exact O1|]. split; [exact O3|]. split.
        * rewrite O2. unfold sF. mkcbn. rewrite <- (mr_out _ _ _ _ _ (yr_m _ _ _ _ _ HY)).
          symmetry. exact (r_out _ _ _ _ _ HR3).
        * apply (graph_final ([] ++ X) R' (st_heap s2) (hs_heap (y_m yS')) (hs_heap (y_m yM')) hr hf v v' v'').
          -- exact (r_heap _ _ _ _ _ HR3).
          -- exact (hm_graph _ _ _ _ (mr_heap _ _ _ _ _ (yr_m _ _ _ _ _ HY))).
          -- exact Hle.
          -- exact Hv1.
          -- exact Hv2.
          -- exact Hpres.
      + (* antwoord at the top level: impossible *)
        destruct rS as [v s|[| |rv] s|k s|x s|]; cbn [corr] in Hsem; try contradiction; try (destruct k; contradiction).
        destruct Hsem as [N _]. discriminate N.
      + (* an error *)
        destruct xM as [v'' yM'|yM'|yM'|w yM'|kM mM|fM mM|oM mM|]; cbn [ycorr] in Hml; try contradiction.
        destruct Hml as [<- Hm].
        destruct rS as [v s|[| |rv] s|k s|x s|]; cbn [corr CompileCorrectH4.rstate] in Hsem, Ers; try contradiction.
        inversion Ers; subst s.
        assert (kS = k /\ at_state mS s2) as [-> Hat] by (destruct k; exact Hsem).
        cbn [ybd] in Hbd. pose proof (Hbm mS mM Hm Hbd) as HBM.
        destruct Hrun as [Hst|Hx]; [|right; exact (real_exclL orc _ bc consts h0 _ El Hx HBM)].
        left. destruct (real_stops orc bc consts h0 (Err k) mM El Hst HBM ltac:(intros; discriminate) ltac:(intros; discriminate))
          as [budget [O1 O2]].
        exists budget. cbn [obs_eq4]. split; [exact O1|]. rewrite O2, <- (proj1 Hm). exact (proj1 Hat).
      + (* a fault *)
        destruct xM as [v'' yM'|yM'|yM'|w yM'|kM mM|fM mM|oM mM|]; cbn [ycorr] in Hml; try contradiction.
        destruct Hml as [<- Hm].
        destruct rS as [v s|[| |rv] s|k s|x s|]; cbn [corr CompileCorrectH4.rstate] in Hsem, Ers; try contradiction;
          try (destruct k; contradiction).
        inversion Ers; subst s. destruct Hsem as [-> Hat].
        cbn [ybd] in Hbd. pose proof (Hbm mS mM Hm Hbd) as HBM.
        destruct Hrun as [Hst|Hx]; [|right; exact (real_exclL orc _ bc consts h0 _ El Hx HBM)].
        left. destruct (real_stops orc bc consts h0 (Fault x) mM El Hst HBM ltac:(intros; discriminate) ltac:(intros; discriminate))
          as [budget [O1 O2]].
        exists budget. cbn [obs_eq4]. split; [exact O1|]. rewrite O2, <- (proj1 Hm). exact (proj1 Hat).
      + (* an excluded state *)
        right.
        destruct xM as [v'' yM'|yM'|yM'|w yM'|kM mM|fM mM|oM mM|]; cbn [ycorr] in Hml; try contradiction.
        destruct Hml as [<- Hm]. cbn [ybd] in Hbd. pose proof (Hbm mS mM Hm Hbd) as HBM.
        destruct Hrun as [Hx|Hov]; [exact (real_exclL orc _ bc consts h0 _ El Hx HBM)|].
        destruct oS as [[fe argc]|]; [|contradiction].
        destruct rS as [v s|[| |rv] s|k s|x s|]; cbn [corr] in Hsem; try contradiction.
        destruct k; try contradiction. destruct Hsem as [Hfe [Hlt _]].
        apply (real_overL orc (fun_table p) bc consts h0 _ argc (fe_ip fe) (fe_n fe) (length (fe_ps fe)) El Hov HBM); [|exact Hlt].
        exists fe. repeat split; [exact Hfe].
      + (* the evaluator out of fuel while Sem is not: impossible *)
        destruct rS as [v s|[| |rv] s|k s|x s|]; cbn [corr] in Hsem; try contradiction; try discriminate Ers.
        destruct k; contradiction.
  Qed.
End Main.

Print Assumptions compile_correct_F4.
