(* CompileCorrectJ0.v - compiler correctness for the fragment F4, part J0: the heap of Sem.v only
   grows - for EVERY program and every state (no fragment hypothesis): `eval_grows_all`.

   Used twice: the address-space bound `sem_small` speaks about the state in which Sem's evaluation
   ENDS; the word-level operators need it at every state before (CompileCorrectH4 did this for the
   fragment F2h).  With functions a second use appears: the evaluation of the intermediate
   evaluator stops at an excluded comparison of two function values while Sem goes on; the state at
   the excluded point is bounded by Sem's final state only because Sem's heap grows.

   Also here: the unfolding equations of Sem.v for calls and function literals (from part G). *)
From Coq Require Import ZArith Lia Bool List String.
From NL.Model Require Import VM.
From NL.Spec Require Import Sem Fragment Fragment2 Fragment2h Fragment3 ArithSpec.
From NL.Proofs Require CompileCorrectH3 CompileCorrectH4.
From NL.Proofs Require Import WordProofs OpsProofs AstInduction ControlProofs
  CompileCorrectA CompileCorrectB CompileCorrectC CompileCorrectD CompileCorrectH1 CompileCorrectJ1 CompileCorrectJ2.
Import CompileCorrectH3.
Import CompileCorrectH4.
Open Scope Z_scope.

Section SemEq3.
  Variable orc : oracle.

  Definition sem_list (f : nat) (c : dctx) : list expr -> sstate -> res (list val) :=
    fix go (l : list expr) (st : sstate) : res (list val) :=
      match l with
      | [] => ROk [] st
      | x :: r =>
          rdo (v, st) <- eval_expr orc f c x st;
          rdo (vs, st) <- go r st;
          ROk (v :: vs) st
      end.

  Definition sem_bind : list text -> list val -> list (text * positive) -> sstate -> list (text * positive) * sstate :=
    fix bind (ps : list text) (vs : list val) (acc : list (text * positive)) (st : sstate) :=
      match ps with
      | [] => (acc, st)
      | p :: ps' =>
          let '(cl, st') := new_cell st in
          let '(v, vs') := match vs with v :: r => (v, r) | [] => (VNull, []) end in
          bind ps' vs' ((p, cl) :: acc) (set_cell cl v st')
      end.

  Definition sem_call (f : nat) (fv : val) (vs : list val) (st : sstate) : res val :=
    match fv with
    | VFun id _ =>
        match nth_error (st_funs st) (Z.to_nat id) with
        | Some clo =>
            if Nat.ltb (length (k_params clo)) (length vs) then RErr EArgumentError st
            else
              let '(scope, st1) := sem_bind (k_params clo) vs [] st in
              match exec_block orc f (mkD [scope] (Some (k_genv clo))) (k_body clo) VNull st1 with
              | ROk v st2 => ROk v st2
              | RSig (SigReturn v) st2 => ROk v st2
              | RSig _ st2 => RErr ESyntaxError st2
              | RErr k st2 => RErr k st2
              | RFault x st2 => RFault x st2
              | RFuel => RFuel
              end
        | None => RFault FBadTag st
        end
    | _ => RErr ETypeError st
    end.

  Lemma ee_call : forall f c fn args st, is_builtin_callee fn = false ->
    eval_expr orc (S f) c (ECall fn args) st =
    rbind (sem_list f c args st) (fun vs st =>
      rbind (eval_expr orc f c fn st) (fun fv st => sem_call f fv vs st)).
  Proof.
    intros f c fn args st Hb.
    assert (match fn with EIdent x => assoc_text x builtin_names | _ => None end = None) as E.
    { destruct fn; try reflexivity. cbn [is_builtin_callee] in Hb. unfold is_builtin_name in Hb.
      destruct (assoc_text s builtin_names); [discriminate Hb|reflexivity]. }
    cbn [eval_expr]. fold (sem_list f c). destruct (sem_list f c args st) as [vs st1| | | |]; try reflexivity.
    cbn [rbind]. rewrite E. reflexivity.
  Qed.

  Lemma sl_nil : forall f c st, sem_list f c [] st = ROk [] st.
  Proof. reflexivity. Qed.
  Lemma sl_cons : forall f c x r st,
    sem_list f c (x :: r) st =
    rbind (eval_expr orc f c x st) (fun v st => rbind (sem_list f c r st) (fun vs st => ROk (v :: vs) st)).
  Proof. reflexivity. Qed.

  Lemma ee_function : forall f c name ps body st,
    eval_expr orc (S f) c (EFunction name ps body) st =
    let '(c1, st1, cell) :=
      match name with
      | [] => (c, st, None)
      | _ => let '(cl, st') := new_cell st in (d_declare c name cl, st', Some cl)
      end in
    let g := match d_global c1 with Some g => g | None => d_local c1 end in
    let id := zlength (st_funs st1) in
    let st2 := mkSt (st_heap st1) (st_cells st1) (st_next st1)
                    (st_funs st1 ++ [mkClo ps body g]) (st_out st1) in
    let v := VFun id 0 in
    ROk v (match cell with Some cl => set_cell cl v st2 | None => st2 end).
  Proof. reflexivity. Qed.

  Lemma eb_return : forall f c e r last st,
    exec_block orc (S f) c (SReturn e :: r) last st =
    rbind (eval_expr orc f c e st) (fun v st1 => RSig (SigReturn v) st1).
  Proof. reflexivity. Qed.

  Lemma eb_expr3 : forall f c e r last st,
    exec_block orc (S f) c (SExpr e :: r) last st =
    rbind (eval_expr orc f c e st) (fun v st1 =>
      exec_block orc f (match e with
                        | EFunction (ch :: name) _ _ => d_declare c (ch :: name) (Pos.pred (st_next st1))
                        | _ => c
                        end) r v st1).
  Proof. reflexivity. Qed.
End SemEq3.

Lemma builtin_of_none : forall fn_, builtin_of fn_ = None -> is_builtin_callee fn_ = false.
Proof.
  intros fn_ H. destruct fn_; try reflexivity. cbn [is_builtin_callee builtin_of] in *. unfold is_builtin_name. rewrite H. reflexivity.
Qed.

Lemma ee_call_bi : forall orc f c fn_ b args st, builtin_of fn_ = Some b ->
  eval_expr orc (S f) c (ECall fn_ args) st =
  rbind (sem_list orc f c args st) (fun vs st => CompileCorrectH4.sem_builtin orc b st vs).
Proof.
  intros orc f c fn_ b args st H. destruct fn_; try discriminate H. cbn [builtin_of] in H.
  exact (CompileCorrectH4.ee_call_builtin orc f c s b args st H).
Qed.

(** * Sem's heap only grows *)

Section Grows.
  Variable orc : oracle.

  Ltac gr_triv := solve [unfold grows; cbn [rstate Sem.set_cell st_heap]; lia | exact I].

  Lemma grows_list4 : forall f c l,
    (forall e st, In e l -> grows st (eval_expr orc f c e st)) -> forall st, grows st (sem_list orc f c l st).
  Proof.
    intros f c l. induction l as [|x r IH]; intros H st; [rewrite sl_nil; gr_triv|].
    rewrite sl_cons. apply grows_rbind; [apply H; left; reflexivity|]. intros v st1.
    apply grows_rbind; [apply IH; intros e st2 Hin; apply H; right; exact Hin|]. intros vs st2. gr_triv.
  Qed.

  Lemma sem_bind_heap : forall ps vs acc st, st_heap (snd (sem_bind ps vs acc st)) = st_heap st.
  Proof.
    induction ps as [|p ps IH]; intros vs acc st; [reflexivity|].
    cbn [sem_bind]. unfold new_cell. destruct vs as [|v r]; rewrite IH; reflexivity.
  Qed.

  (* the call of a function value, given that the bodies of closures grow *)
  Lemma grows_call : forall f fv vs st,
    (forall l c last st, grows st (exec_block orc f c l last st)) -> grows st (sem_call orc f fv vs st).
  Proof.
    intros f fv vs st IHs. unfold sem_call. destruct fv as [| | |id nn| | |]; try gr_triv.
    destruct (nth_error (st_funs st) (Z.to_nat id)) as [clo|]; [|gr_triv].
    destruct (Nat.ltb (length (k_params clo)) (length vs)); [gr_triv|].
    pose proof (sem_bind_heap (k_params clo) vs [] st) as Hh.
    destruct (sem_bind (k_params clo) vs [] st) as [scope st1]. cbn [snd] in Hh.
    pose proof (IHs (k_body clo) (mkD [scope] (Some (k_genv clo))) VNull st1) as Hb.
    apply (grows_cells _ st st1); [exact Hh|].
    destruct (exec_block orc f (mkD [scope] (Some (k_genv clo))) (k_body clo) VNull st1) as [v s2|[| |rv] s2|k s2|x s2|];
      unfold grows in *; cbn [rstate] in *; try exact Hb; exact I.
  Qed.

  Theorem eval_grows_all : forall fuel,
    (forall e c st, grows st (eval_expr orc fuel c e st)) /\
    (forall iter cnd body c last st, grows st (eval_while orc fuel iter c cnd body last st)) /\
    (forall l c last st, grows st (exec_block orc fuel c l last st)).
  Proof.
    induction fuel as [|f [IHe [IHw IHs]]].
    - repeat split; intros; exact I.
    - split; [|split].
      + intros e c st.
        destruct e as [e1 o e2|o e|z|fl|bb|cnd t alt|s|n ps body|h args|e1 e2|str|vs|bs i|cnd body].
        * rewrite ee_infix.
          apply grows_rbind; [exact (IHe e1 c st)|]. intros a st1.
          apply grows_rbind; [exact (IHe e2 c st1)|]. intros b st2.
          destruct (Sem.method_of o); [apply grows_lift_heap; apply binop_grows|gr_triv].
        * rewrite ee_prefix.
          apply grows_rbind; [exact (IHe e c st)|]. intros a st1.
          destruct o; try gr_triv; try (apply grows_lift_heap; apply negate_grows); apply grows_lift_plain.
        * rewrite ee_int. gr_triv.
        * rewrite ee_float. apply grows_lift_heap. apply alloc_float_grows.
        * rewrite ee_bool. gr_triv.
        * rewrite ee_if.
          apply grows_rbind; [exact (IHe cnd c st)|]. intros b st1.
          destruct b as [|[|]| | | | |]; try gr_triv.
          -- exact (IHs t _ VNull st1).
          -- destruct alt as [bl|]; [exact (IHs bl _ VNull st1)|gr_triv].
        * rewrite ee_ident. destruct (d_lookup c s); [gr_triv|gr_triv].
        * rewrite ee_function. destruct n as [|ch nm]; cbv zeta; [gr_triv|].
          unfold new_cell. gr_triv.
        * destruct (builtin_of h) as [b|] eqn:Eb.
          -- rewrite (ee_call_bi orc f c h b args st Eb).
             apply grows_rbind; [|intros; apply grows_builtin].
             apply grows_list4. intros e st0 _. exact (IHe e c st0).
          -- rewrite (ee_call orc f c h args st (builtin_of_none h Eb)).
             apply grows_rbind; [apply grows_list4; intros e st0 _; exact (IHe e c st0)|]. intros vs st1.
             apply grows_rbind; [exact (IHe h c st1)|]. intros fv st2. apply grows_call. exact IHs.
        * destruct e1 as [| | | | | |x| | | | | |bs i|];
            try (cbn [eval_expr]; gr_triv).
          -- rewrite ee_assign_ident. destruct (d_lookup c x); [|gr_triv].
             apply grows_rbind; [exact (IHe e2 c st)|]. intros v st1.
             unfold grows. cbn [rstate Sem.set_cell st_heap]. lia.
          -- rewrite ee_assign_index.
             apply grows_rbind; [exact (IHe bs c st)|]. intros a st1.
             apply grows_rbind; [exact (IHe i c st1)|]. intros ix st2.
             apply grows_rbind; [exact (IHe e2 c st2)|]. intros v st3. apply grows_index_set.
        * rewrite ee_string. apply grows_lift_heap. apply alloc_str_grows.
        * rewrite ee_array.
          apply grows_rbind; [|intros; apply grows_array].
          apply grows_list4. intros e st0 _. exact (IHe e c st0).
        * rewrite ee_index.
          apply grows_rbind; [exact (IHe bs c st)|]. intros a st1.
          apply grows_rbind; [exact (IHe i c st1)|]. intros ix st2. apply grows_index_get.
        * rewrite ee_while. exact (IHw f cnd body c VNull st).
      + intros iter cnd body c last st. rewrite ew_step.
        apply grows_rbind; [exact (IHe cnd c st)|]. intros b st1.
        destruct b as [|[|]| | | | |]; try gr_triv.
        pose proof (IHs body (d_push c) VNull st1) as Hbody.
        destruct (exec_block orc f (d_push c) body VNull st1) as [v s2|[| |rv] s2|k s2|x s2|]; try exact Hbody;
          unfold grows in Hbody; cbn [rstate] in Hbody.
        * apply (grows_same _ st1 s2); [exact Hbody|]. exact (IHw iter cnd body c v s2).
        * apply (grows_same _ st1 s2); [exact Hbody|]. exact (IHw iter cnd body c VNull s2).
      + intros l c last st. destruct l as [|s r]; [rewrite eb_nil; gr_triv|].
        destruct s as [x e|e|e|b| |].
        * rewrite eb_let. unfold new_cell.
          set (st1 := mkSt (st_heap st) (st_cells st) (Pos.succ (st_next st)) (st_funs st) (st_out st)).
          apply (grows_cells _ st st1); [reflexivity|].
          apply grows_rbind; [exact (IHe e _ st1)|]. intros v st2.
          apply (grows_cells _ st2 (Sem.set_cell (st_next st) v st2)); [reflexivity|].
          exact (IHs r _ VNull _).
        * rewrite eb_return. apply grows_rbind; [exact (IHe e c st)|]. intros v st1. gr_triv.
        * rewrite eb_expr3. apply grows_rbind; [exact (IHe e c st)|]. intros v st1. exact (IHs r _ v st1).
        * rewrite eb_block.
          apply grows_rbind; [exact (IHs b _ VNull st)|]. intros v st1. exact (IHs r c v st1).
        * rewrite eb_break. gr_triv.
        * rewrite eb_continue. gr_triv.
  Qed.

  Lemma grows_e : forall fuel e c st, grows st (eval_expr orc fuel c e st).
  Proof. intros. apply (proj1 (eval_grows_all fuel)). Qed.
  Lemma grows_w : forall fuel iter cnd body c last st, grows st (eval_while orc fuel iter c cnd body last st).
  Proof. intros. apply (proj1 (proj2 (eval_grows_all fuel))). Qed.
  Lemma grows_b : forall fuel l c last st, grows st (exec_block orc fuel c l last st).
  Proof. intros. apply (proj2 (proj2 (eval_grows_all fuel))). Qed.
  (* the rest of an iteration of `zolang` after its condition *)
  Lemma grows_wtail : forall f iter c cnd body st,
    grows st (match exec_block orc f (d_push c) body VNull st with
              | ROk v st1 => eval_while orc f iter c cnd body v st1
              | RSig SigBreak st1 => ROk VNull st1
              | RSig SigContinue st1 => eval_while orc f iter c cnd body VNull st1
              | other => other
              end).
  Proof.
    intros f iter c cnd body st. pose proof (grows_b f body (d_push c) VNull st) as Hbody.
    destruct (exec_block orc f (d_push c) body VNull st) as [v s2|[| |rv] s2|k s2|x s2|]; try exact Hbody;
      unfold grows in Hbody; cbn [rstate] in Hbody.
    - apply (grows_same _ st s2); [exact Hbody|]. apply grows_w.
    - apply (grows_same _ st s2); [exact Hbody|]. apply grows_w.
  Qed.
End Grows.

Print Assumptions eval_grows_all.
