(* VMStepProofs.v - machine-level theorems about single steps of the VM model (VM.step):
   property C10 (fused instruction = generic sequence) and property C12 (calls and returns).
   Proofs only. *)
From NL.Model Require Import VM.
From NL.Proofs Require Import OpsProofs.
Open Scope Z_scope.

(** * 0. Vocabulary *)

(* the code buffer holds the bytes bs from address ip on *)
Definition code_at (prog : program) (ip : Z) (bs : list Z) : Prop :=
  forall k b, nth_error bs k = Some b -> byte_at prog (ip + Z.of_nat k) = Some b.

Lemma code_at_head : forall prog ip b r, code_at prog ip (b :: r) -> byte_at prog ip = Some b.
Proof. intros prog ip b r H. specialize (H 0%nat b eq_refl). rewrite Z.add_0_r in H. exact H. Qed.

Lemma code_at_tail : forall prog ip b r, code_at prog ip (b :: r) -> code_at prog (ip + 1) r.
Proof.
  intros prog ip b r H k c Hk. specialize (H (S k) c Hk).
  rewrite Nat2Z.inj_succ in H. replace (ip + 1 + Z.of_nat k) with (ip + Z.succ (Z.of_nat k)) by lia. exact H.
Qed.

Lemma code_at_skip : forall prog ip pre r, code_at prog ip (pre ++ r) -> code_at prog (ip + zlength pre) r.
Proof.
  intros prog ip pre r H k c Hk. unfold zlength.
  replace (ip + Z.of_nat (length pre) + Z.of_nat k) with (ip + Z.of_nat (length pre + k)) by lia.
  apply H. rewrite nth_error_app2 by lia. replace (length pre + k - length pre)%nat with k by lia. exact Hk.
Qed.

Lemma code_at_eq : forall prog ip ip' bs, ip = ip' -> code_at prog ip bs -> code_at prog ip' bs.
Proof. intros; subst; assumption. Qed.

Lemma nth_error_skipn' : forall {A} n (l : list A) k, nth_error (skipn n l) k = nth_error l (n + k).
Proof. induction n; intros l k; [reflexivity|]. destruct l; [destruct k; reflexivity|]. cbn. apply IHn. Qed.

Lemma nth_error_firstn' : forall {A} n (l : list A) k, (k < n)%nat -> nth_error (firstn n l) k = nth_error l k.
Proof.
  induction n; intros l k Hk; [lia|]. destruct l; [destruct k; reflexivity|].
  destruct k; [reflexivity|]. cbn. apply IHn. lia.
Qed.

(* decidable form, for examples *)
Lemma code_at_check : forall prog ip bs, 0 <= ip ->
  firstn (length bs) (skipn (Z.to_nat ip) (p_code prog)) = bs -> code_at prog ip bs.
Proof.
  intros prog ip bs Hip H k b Hk. unfold byte_at.
  destruct (ip + Z.of_nat k <? 0) eqn:E; [apply Z.ltb_lt in E; lia|].
  replace (Z.to_nat (ip + Z.of_nat k)) with (Z.to_nat ip + k)%nat by lia.
  rewrite <- nth_error_skipn'.
  assert (Hlt : (k < length bs)%nat) by (apply nth_error_Some; rewrite Hk; discriminate).
  rewrite <- (nth_error_firstn' (length bs)) by exact Hlt. rewrite H. exact Hk.
Qed.

Ltac vmsimpl :=
  cbn [v_stack v_slen v_globals v_frames v_ip v_bp v_final v_heap v_gc v_out
       upd_stack upd_ip upd_heap upd_globals upd_final upd_out push bind fst snd f_ip f_bp].
Ltac vmsimpl_in H :=
  cbn [v_stack v_slen v_globals v_frames v_ip v_bp v_final v_heap v_gc v_out
       upd_stack upd_ip upd_heap upd_globals upd_final upd_out push bind fst snd f_ip f_bp] in H.

Lemma opcode_roundtrip : forall op, opcode_of_byte (byte_of_opcode op) = Some op.
Proof. destruct op; vm_compute; reflexivity. Qed.

Lemma read_u16_code : forall prog s lo hi r, code_at prog (v_ip s) (lo :: hi :: r) ->
  read_u16 prog s = Ok (lo + 256 * hi, upd_ip s (v_ip s + 2)).
Proof.
  intros prog s lo hi r H. unfold read_u16.
  rewrite (code_at_head _ _ _ _ H), (code_at_head _ _ _ _ (code_at_tail _ _ _ _ H)). reflexivity.
Qed.

Lemma read_u8_code : forall prog s b r, code_at prog (v_ip s) (b :: r) ->
  read_u8 prog s = Ok (b, upd_ip s (v_ip s + 1)).
Proof. intros prog s b r H. unfold read_u8. rewrite (code_at_head _ _ _ _ H). reflexivity. Qed.

(* a state is determined by its ten fields *)
Lemma vm_eta : forall s, s = mkVM (v_stack s) (v_slen s) (v_globals s) (v_frames s) (v_ip s) (v_bp s)
                                 (v_final s) (v_heap s) (v_gc s) (v_out s).
Proof. destruct s; reflexivity. Qed.

Lemma upd_ip_upd_ip : forall s a b, upd_ip (upd_ip s a) b = upd_ip s b.
Proof. reflexivity. Qed.

Lemma upd_ip_same : forall s, upd_ip s (v_ip s) = s.
Proof. destruct s; reflexivity. Qed.

Lemma with_new_upd_ip : forall s a r, with_new (upd_ip s a) r = upd_ip (with_new s r) a.
Proof. intros s a [v h']. unfold with_new. vmsimpl. destruct (Pos.eqb _ _); reflexivity. Qed.

Lemma get_local_upd_ip : forall i s a, get_local i (upd_ip s a) = get_local i s.
Proof. reflexivity. Qed.

(** * 1. What `step` does on the opcodes used below (explicit unfoldings) *)

Section Steps.
  Variable orc : oracle.
  Variable prog : program.

  Definition cont (r : outcome vm) : outcome stepres := do s' <- r; Ok (Continue s').

  Lemma step_fetch_outside : forall s, byte_at prog (v_ip s) = None -> step orc prog s = Fault FFetchOutside.
  Proof. intros s H. unfold step. rewrite H. reflexivity. Qed.

  Ltac unfold_step H := unfold step; rewrite H, opcode_roundtrip; cbv beta iota zeta.

  Lemma step_binary : forall s go m,
    byte_at prog (v_ip s) = Some (byte_of_opcode go) ->
    assoc opcode_eqb go binary_dispatch = Some m ->
    step orc prog s = cont (binary orc m (upd_ip s (v_ip s + 1))).
  Proof.
    intros s go m H Hm. unfold_step H.
    destruct go; try (vm_compute in Hm; discriminate Hm); rewrite Hm; reflexivity.
  Qed.

  Lemma step_fused : forall s fo m,
    byte_at prog (v_ip s) = Some (byte_of_opcode fo) ->
    assoc opcode_eqb fo fused_dispatch = Some m ->
    step orc prog s = cont (fused orc prog m (upd_ip s (v_ip s + 1))).
  Proof.
    intros s fo m H Hm. unfold_step H.
    destruct fo; try (vm_compute in Hm; discriminate Hm);
      change (assoc opcode_eqb _ binary_dispatch) with (@None string); cbv iota; rewrite Hm; reflexivity.
  Qed.

  Lemma step_GetLocal_raw : forall s,
    byte_at prog (v_ip s) = Some (byte_of_opcode OGetLocal) ->
    step orc prog s = cont (do (idx, s1) <- read_u16 prog (upd_ip s (v_ip s + 1));
                            do v <- get_local idx s1; Ok (push v s1)).
  Proof. intros s H. unfold_step H. reflexivity. Qed.

  Lemma step_SetLocal_raw : forall s,
    byte_at prog (v_ip s) = Some (byte_of_opcode OSetLocal) ->
    step orc prog s = cont (do (idx, s1) <- read_u16 prog (upd_ip s (v_ip s + 1));
                            do (v, s2) <- pop s1; set_local idx v s2).
  Proof. intros s H. unfold_step H. reflexivity. Qed.

  Lemma step_GetGlobal_raw : forall s,
    byte_at prog (v_ip s) = Some (byte_of_opcode OGetGlobal) ->
    step orc prog s = cont (do (idx, s1) <- read_u16 prog (upd_ip s (v_ip s + 1));
                            Ok (push (nth (Z.to_nat idx) (v_globals s1) VNull) s1)).
  Proof. intros s H. unfold_step H. reflexivity. Qed.

  Lemma step_SetGlobal_raw : forall s,
    byte_at prog (v_ip s) = Some (byte_of_opcode OSetGlobal) ->
    step orc prog s = cont (do (idx, s1) <- read_u16 prog (upd_ip s (v_ip s + 1));
                            do (v, s2) <- pop s1;
                            let n := Z.to_nat idx in
                            let gl := v_globals s2 in
                            let gl' := if Nat.ltb n (length gl) then gl
                                       else gl ++ repeat_val VNull (S n - length gl) in
                            Ok (upd_globals s2 (replace_nth n v gl'))).
  Proof. intros s H. unfold_step H. reflexivity. Qed.

  Lemma step_Const_raw : forall s,
    byte_at prog (v_ip s) = Some (byte_of_opcode OConst) ->
    step orc prog s = cont (do (idx, s1) <- read_u16 prog (upd_ip s (v_ip s + 1));
                            do v <- get_const prog idx;
                            match v with
                            | VStr l =>
                                do t <- get_str (v_heap s1) l;
                                let r := alloc_str (v_heap s1) t in
                                Ok (push (fst r) (with_new s1 r))
                            | _ => Ok (push v s1)
                            end).
  Proof. intros s H. unfold_step H. reflexivity. Qed.

  Lemma step_Pop_raw : forall s,
    byte_at prog (v_ip s) = Some (byte_of_opcode OPop) ->
    step orc prog s = cont (do (v, s1) <- pop (upd_ip s (v_ip s + 1)); Ok (upd_final s1 v)).
  Proof. intros s H. unfold_step H. reflexivity. Qed.

  Lemma step_Call_raw : forall s,
    byte_at prog (v_ip s) = Some (byte_of_opcode OCall) ->
    step orc prog s =
    cont (do (argc, s1) <- read_u8 prog (upd_ip s (v_ip s + 1));
          do (f, s2) <- pop s1;
          match f with
          | VFun ip n =>
              if n <? argc then Err EArgumentError
              else if (MAX_STACK_SIZE <? v_slen s2 + n) || (MAX_FRAMES <=? zlength (v_frames s2))
              then Err ETypeError
              else if v_slen s2 <? argc then Fault FCallUnderflow
              else
                let bp := v_slen s2 - argc in
                let pad := Z.to_nat (n - argc) in
                let s3 := upd_stack s2 (repeat_val VNull pad ++ v_stack s2) (v_slen s2 + (n - argc)) in
                pushframe ip bp s3
          | _ => Err ETypeError
          end).
  Proof. intros s H. unfold_step H. reflexivity. Qed.

  Lemma step_ReturnValue_raw : forall s,
    byte_at prog (v_ip s) = Some (byte_of_opcode OReturnValue) ->
    step orc prog s = cont (do (result, s1) <- pop (upd_ip s (v_ip s + 1));
                            do s2 <- popframe s1;
                            do s3 <- collect prog s2 [v_final s2; result];
                            Ok (push result s3)).
  Proof. intros s H. unfold_step H. reflexivity. Qed.

  Lemma step_Return_raw : forall s,
    byte_at prog (v_ip s) = Some (byte_of_opcode OReturn) ->
    step orc prog s = cont (do s1 <- popframe (upd_ip s (v_ip s + 1));
                            do s2 <- collect prog s1 [v_final s1];
                            Ok (push VNull s2)).
  Proof. intros s H. unfold_step H. reflexivity. Qed.

  Lemma step_Array_raw : forall s,
    byte_at prog (v_ip s) = Some (byte_of_opcode OArray) ->
    step orc prog s = cont (do (n, s1) <- read_u16 prog (upd_ip s (v_ip s + 1));
                            do (vs, s2) <- pop_n (Z.to_nat n) s1 [];
                            let '(l, h') := h_alloc (v_heap s2) (OArr vs) in
                            Ok (push (VArr l) (upd_heap s2 h' (trace (v_gc s2) (VArr l))))).
  Proof. intros s H. unfold_step H. reflexivity. Qed.

  Lemma step_IndexGet_raw : forall s,
    byte_at prog (v_ip s) = Some (byte_of_opcode OIndexGet) ->
    step orc prog s = cont (do (index, s1) <- pop (upd_ip s (v_ip s + 1));
                            do (lhs, s2) <- pop s1;
                            index_get s2 lhs index).
  Proof. intros s H. unfold_step H. reflexivity. Qed.

  Lemma step_IndexSet_raw : forall s,
    byte_at prog (v_ip s) = Some (byte_of_opcode OIndexSet) ->
    step orc prog s = cont (do (value, s1) <- pop (upd_ip s (v_ip s + 1));
                            do (index, s2) <- pop s1;
                            do (lhs, s3) <- pop s2;
                            index_set s3 lhs index value).
  Proof. intros s H. unfold_step H. reflexivity. Qed.

  Lemma step_CallBuiltin_raw : forall s,
    byte_at prog (v_ip s) = Some (byte_of_opcode OCallBuiltin) ->
    step orc prog s =
    cont (do (bb, s1) <- read_u8 prog (upd_ip s (v_ip s + 1));
          do (argc, s2) <- read_u8 prog s1;
          do (args, s3) <- pop_n (Z.to_nat argc) s2 [];
          match builtin_of_byte bb with
          | None => Fault FBadBuiltin
          | Some bi =>
              do (r, printed) <- call_builtin orc bi (v_heap s3) args;
              let s4 := with_new s3 r in
              Ok (push (fst r) (upd_out s4 (v_out s4 ++ printed)))
          end).
  Proof. intros s H. unfold_step H. reflexivity. Qed.

  (** ** the readable forms used in part A *)

  Lemma step_GetLocal : forall s lo hi r,
    code_at prog (v_ip s) (byte_of_opcode OGetLocal :: lo :: hi :: r) ->
    step orc prog s = do v <- get_local (lo + 256 * hi) s; Ok (Continue (upd_ip (push v s) (v_ip s + 3))).
  Proof.
    intros s lo hi r H. rewrite (step_GetLocal_raw _ (code_at_head _ _ _ _ H)).
    unfold cont. rewrite (read_u16_code _ (upd_ip s (v_ip s + 1)) lo hi r (code_at_tail _ _ _ _ H)).
    vmsimpl. rewrite !get_local_upd_ip, !upd_ip_upd_ip. destruct (get_local (lo + 256 * hi) s); try reflexivity.
    vmsimpl. replace (v_ip s + 1 + 2) with (v_ip s + 3) by lia. reflexivity.
  Qed.

  Lemma step_Const : forall s lo hi r,
    code_at prog (v_ip s) (byte_of_opcode OConst :: lo :: hi :: r) ->
    step orc prog s =
    do k <- get_const prog (lo + 256 * hi);
    match k with
    | VStr l => do t <- get_str (v_heap s) l;
                let x := alloc_str (v_heap s) t in
                Ok (Continue (upd_ip (push (fst x) (with_new s x)) (v_ip s + 3)))
    | _ => Ok (Continue (upd_ip (push k s) (v_ip s + 3)))
    end.
  Proof.
    intros s lo hi r H. rewrite (step_Const_raw _ (code_at_head _ _ _ _ H)).
    unfold cont. rewrite (read_u16_code _ (upd_ip s (v_ip s + 1)) lo hi r (code_at_tail _ _ _ _ H)).
    vmsimpl. rewrite !upd_ip_upd_ip. replace (v_ip s + 1 + 2) with (v_ip s + 3) by lia.
    destruct (get_const prog (lo + 256 * hi)) as [k| | |]; try reflexivity.
    vmsimpl. destruct k; try reflexivity.
    destruct (get_str (v_heap s) l); try reflexivity.
    vmsimpl. rewrite with_new_upd_ip. reflexivity.
  Qed.
End Steps.

(** * 2. A1 (property C10): a fused instruction is the generic three-instruction sequence *)

(* what  GetLocal l; Const c (non-string); <binary m>  do to a state, code layout apart *)
Definition generic3 (orc : oracle) (prog : program) (l c : Z) (m : string) (s : vm) : outcome vm :=
  do v <- get_local l s;
  let s1 := push v s in
  do k <- get_const prog c;
  let s2 := push k s1 in
  binary orc m s2.

Lemma upd_stack_back : forall s, upd_stack s (v_stack s) (v_slen s + 1 + 1 - 1 - 1) = s.
Proof. destruct s; unfold upd_stack; vmsimpl. f_equal. lia. Qed.

Lemma binary_push2 : forall orc m s v k,
  binary orc m (push k (push v s)) = do r <- binop orc m (v_heap s) v k; Ok (push (fst r) (with_new s r)).
Proof.
  intros orc m s v k. unfold binary, pop. vmsimpl.
  change (upd_stack (upd_stack (push k (push v s)) (v :: v_stack s) (v_slen s + 1 + 1 - 1)) (v_stack s)
            (v_slen s + 1 + 1 - 1 - 1))
    with (upd_stack s (v_stack s) (v_slen s + 1 + 1 - 1 - 1)).
  rewrite upd_stack_back. reflexivity.
Qed.

Lemma generic3_nf : forall orc prog l c m s,
  generic3 orc prog l c m s =
  do v <- get_local l s; do k <- get_const prog c;
  do r <- binop orc m (v_heap s) v k; Ok (push (fst r) (with_new s r)).
Proof.
  intros. unfold generic3. destruct (get_local l s); try reflexivity. vmsimpl.
  destruct (get_const prog c); try reflexivity. vmsimpl. apply binary_push2.
Qed.

Lemma fused_nf : forall orc prog m s l_lo l_hi c_lo c_hi r,
  code_at prog (v_ip s) (l_lo :: l_hi :: c_lo :: c_hi :: r) ->
  fused orc prog m s =
  do v <- get_local (l_lo + 256 * l_hi) s; do k <- get_const prog (c_lo + 256 * c_hi);
  do x <- binop orc m (v_heap s) v k; Ok (push (fst x) (with_new (upd_ip s (v_ip s + 4)) x)).
Proof.
  intros orc prog m s l_lo l_hi c_lo c_hi r H. unfold fused.
  rewrite (read_u16_code _ _ _ _ _ H). vmsimpl. rewrite get_local_upd_ip.
  destruct (get_local (l_lo + 256 * l_hi) s); try reflexivity. vmsimpl.
  assert (H2 : code_at prog (v_ip (upd_ip s (v_ip s + 2))) (c_lo :: c_hi :: r)).
  { vmsimpl. apply (code_at_eq prog (v_ip s + 1 + 1)); [lia|].
    apply (code_at_tail _ _ l_hi). apply (code_at_tail _ _ l_lo). exact H. }
  rewrite (read_u16_code _ _ _ _ _ H2). vmsimpl.
  replace (v_ip s + 2 + 2) with (v_ip s + 4) by lia. reflexivity.
Qed.

(* A1, semantic-helper level: every state, every method *)
Theorem fused_generic3 : forall orc prog m s l_lo l_hi c_lo c_hi r,
  code_at prog (v_ip s) (l_lo :: l_hi :: c_lo :: c_hi :: r) ->
  fused orc prog m s =
  do s' <- generic3 orc prog (l_lo + 256 * l_hi) (c_lo + 256 * c_hi) m s; Ok (upd_ip s' (v_ip s + 4)).
Proof.
  intros orc prog m s l_lo l_hi c_lo c_hi r H.
  rewrite (fused_nf _ _ _ _ _ _ _ _ _ H), generic3_nf.
  destruct (get_local _ s); try reflexivity. vmsimpl.
  destruct (get_const prog _); try reflexivity. vmsimpl.
  destruct (binop orc m (v_heap s) a a0) as [x| | |]; try reflexivity. vmsimpl.
  rewrite with_new_upd_ip. reflexivity.
Qed.

Lemma binary_upd_ip : forall orc m s a,
  binary orc m (upd_ip s a) = do s' <- binary orc m s; Ok (upd_ip s' a).
Proof.
  intros orc m s a. unfold binary, pop. vmsimpl.
  destruct (v_stack s) as [|x [|y st]]; try reflexivity. vmsimpl.
  destruct (binop orc m (v_heap s) y x) as [r| | |]; try reflexivity. vmsimpl.
  change (upd_stack (upd_stack (upd_ip s a) (y :: st) (v_slen s - 1)) st (v_slen s - 1 - 1))
    with (upd_ip (upd_stack (upd_stack s (y :: st) (v_slen s - 1)) st (v_slen s - 1 - 1)) a).
  rewrite with_new_upd_ip. reflexivity.
Qed.

Lemma generic3_upd_ip : forall orc prog l c m s a,
  generic3 orc prog l c m (upd_ip s a) = do x <- generic3 orc prog l c m s; Ok (upd_ip x a).
Proof.
  intros. rewrite !generic3_nf. rewrite get_local_upd_ip.
  destruct (get_local _ s); try reflexivity. vmsimpl.
  destruct (get_const prog _); try reflexivity. vmsimpl.
  destruct (binop orc m (v_heap s) a0 a1); try reflexivity. vmsimpl.
  rewrite with_new_upd_ip. reflexivity.
Qed.

(* generic3 depends on the program through its constant pool only *)
Lemma generic3_consts : forall orc prog prog' l c m s,
  p_consts prog' = p_consts prog -> generic3 orc prog' l c m s = generic3 orc prog l c m s.
Proof. intros. unfold generic3, get_const. rewrite H. reflexivity. Qed.

(* n instructions in a row; an error, a fault or a halt ends the run *)
Fixpoint nsteps (orc : oracle) (prog : program) (n : nat) (s : vm) : outcome stepres :=
  match n with
  | O => Ok (Continue s)
  | S n' => match step orc prog s with
            | Ok (Continue s') => nsteps orc prog n' s'
            | r => r
            end
  end.

Definition set_ip_res (ip : Z) (r : stepres) : stepres :=
  match r with Continue s => Continue (upd_ip s ip) | Halted v s => Halted v (upd_ip s ip) end.

(* the three generic instructions, executed by `step`, do what generic3 says *)
Theorem generic3_steps : forall orc prog s l_lo l_hi c_lo c_hi go m r,
  code_at prog (v_ip s)
          (byte_of_opcode OGetLocal :: l_lo :: l_hi :: byte_of_opcode OConst :: c_lo :: c_hi :: byte_of_opcode go :: r) ->
  assoc opcode_eqb go binary_dispatch = Some m ->
  (forall loc, get_const prog (c_lo + 256 * c_hi) <> Ok (VStr loc)) ->
  nsteps orc prog 3 s =
  do s' <- generic3 orc prog (l_lo + 256 * l_hi) (c_lo + 256 * c_hi) m s; Ok (Continue (upd_ip s' (v_ip s + 7))).
Proof.
  intros orc prog s l_lo l_hi c_lo c_hi go m r H Hm Hns.
  unfold generic3. cbn [nsteps].
  rewrite (step_GetLocal orc prog s _ _ _ H).
  destruct (get_local (l_lo + 256 * l_hi) s) as [v| | |]; try reflexivity. vmsimpl.
  assert (H2 : code_at prog (v_ip (upd_ip (push v s) (v_ip s + 3)))
                       (byte_of_opcode OConst :: c_lo :: c_hi :: byte_of_opcode go :: r)).
  { vmsimpl. apply (code_at_skip prog (v_ip s) [byte_of_opcode OGetLocal; l_lo; l_hi]). exact H. }
  rewrite (step_Const orc prog _ _ _ _ H2).
  destruct (get_const prog (c_lo + 256 * c_hi)) as [k| | |] eqn:Ek; try reflexivity. vmsimpl.
  assert (H3 : byte_at prog (v_ip s + 3 + 3) = Some (byte_of_opcode go)).
  { apply (code_at_head prog _ _ r).
    apply (code_at_skip prog (v_ip s + 3) [byte_of_opcode OConst; c_lo; c_hi]).
    exact H2. }
  assert (E : forall k', (forall loc, k' <> VStr loc) ->
             match step orc prog (upd_ip (push k' (upd_ip (push v s) (v_ip s + 3))) (v_ip s + 3 + 3)) with
             | Ok (Continue s') => Ok (Continue s')
             | r => r
             end = do s' <- binary orc m (push k' (push v s)); Ok (Continue (upd_ip s' (v_ip s + 7)))).
  { intros k' _.
    change (upd_ip (push k' (upd_ip (push v s) (v_ip s + 3))) (v_ip s + 3 + 3))
      with (upd_ip (push k' (push v s)) (v_ip s + 3 + 3)).
    rewrite (step_binary orc prog (upd_ip (push k' (push v s)) (v_ip s + 3 + 3)) go m H3 Hm).
    unfold cont. cbn [v_ip upd_ip].
    rewrite !upd_ip_upd_ip. rewrite binary_upd_ip.
    replace (v_ip s + 3 + 3 + 1) with (v_ip s + 7) by lia.
    destruct (binary orc m (push k' (push v s))); reflexivity. }
  destruct k; try (apply E; intros loc; discriminate).
  exfalso. exact (Hns l eq_refl).
Qed.

(* the operator tables: a fused opcode and its generic opcode dispatch to the same method *)
Lemma fused_table_methods : forall o fo go,
  assoc operator_eqb o fused_table = Some fo ->
  assoc operator_eqb o compile_operator_table = Some go ->
  exists m, assoc opcode_eqb fo fused_dispatch = Some m /\ assoc opcode_eqb go binary_dispatch = Some m.
Proof.
  intros o fo go Hf Hg.
  destruct o; vm_compute in Hf; try discriminate Hf; vm_compute in Hg;
    inversion Hf; inversion Hg; subst; eexists; split; vm_compute; reflexivity.
Qed.

(* all eleven fused opcodes are reached through fused_table *)
Lemma fused_dispatch_covered : forall fo m,
  assoc opcode_eqb fo fused_dispatch = Some m ->
  exists o go, assoc operator_eqb o fused_table = Some fo
               /\ assoc operator_eqb o compile_operator_table = Some go.
Proof.
  intros fo m H.
  destruct fo; vm_compute in H; try discriminate H;
    [ exists OpGt | exists OpGte | exists OpLt | exists OpLte | exists OpEq | exists OpNeq
    | exists OpAdd | exists OpSubtract | exists OpMultiply | exists OpDivide | exists OpModulo ];
    eexists; split; vm_compute; reflexivity.
Qed.

(* A1, machine level.  `prog` holds the fused instruction at the ip of s, `prog'` holds the
   three generic instructions at ip'; the two programs have the same constant pool.  One step of
   the first from s and three steps of the second from (s with ip := ip') have the same outcome:
   the same error, the same fault, or final states equal in every field except the ip, which in
   each program points right after the executed code. *)
Theorem fused_step_equiv : forall orc prog prog' o fo go s ip' l_lo l_hi c_lo c_hi r r',
  assoc operator_eqb o fused_table = Some fo ->
  assoc operator_eqb o compile_operator_table = Some go ->
  code_at prog (v_ip s) (byte_of_opcode fo :: l_lo :: l_hi :: c_lo :: c_hi :: r) ->
  code_at prog' ip'
          (byte_of_opcode OGetLocal :: l_lo :: l_hi :: byte_of_opcode OConst :: c_lo :: c_hi
           :: byte_of_opcode go :: r') ->
  p_consts prog' = p_consts prog ->
  (forall loc, get_const prog (c_lo + 256 * c_hi) <> Ok (VStr loc)) ->
  step orc prog s = (do x <- nsteps orc prog' 3 (upd_ip s ip'); Ok (set_ip_res (v_ip s + 5) x))
  /\ (forall s3, nsteps orc prog' 3 (upd_ip s ip') = Ok (Continue s3) -> v_ip s3 = ip' + 7)
  /\ (forall v s3, nsteps orc prog' 3 (upd_ip s ip') <> Ok (Halted v s3)).
Proof.
  intros orc prog prog' o fo go s ip' l_lo l_hi c_lo c_hi r r' Hf Hg H H' Hc Hns.
  destruct (fused_table_methods _ _ _ Hf Hg) as (m & Hfm & Hgm).
  assert (Hc' : forall c, get_const prog' c = get_const prog c) by (intro c; unfold get_const; rewrite Hc; reflexivity).
  assert (Hns' : forall loc, get_const prog' (c_lo + 256 * c_hi) <> Ok (VStr loc)) by (intro; rewrite Hc'; auto).
  pose proof (generic3_steps orc prog' (upd_ip s ip') l_lo l_hi c_lo c_hi go m r' H' Hgm Hns') as G.
  rewrite (generic3_consts orc prog prog' _ _ _ _ Hc), generic3_upd_ip in G. vmsimpl_in G.
  split; [|split].
  - rewrite G. rewrite (step_fused orc prog s fo m (code_at_head _ _ _ _ H) Hfm). unfold cont.
    rewrite (fused_generic3 orc prog m (upd_ip s (v_ip s + 1)) l_lo l_hi c_lo c_hi r (code_at_tail _ _ _ _ H)).
    rewrite generic3_upd_ip. vmsimpl.
    destruct (generic3 orc prog _ _ m s); try reflexivity. vmsimpl. cbn [set_ip_res].
    rewrite !upd_ip_upd_ip. replace (v_ip s + 1 + 4) with (v_ip s + 5) by lia. reflexivity.
  - intros s3 E. rewrite G in E. destruct (generic3 orc prog _ _ m s); try discriminate E.
    vmsimpl_in E. inversion E; subst. reflexivity.
  - intros v s3 E. rewrite G in E. destruct (generic3 orc prog _ _ m s); discriminate E.
Qed.

(* non-vacuity: x + 5 with x = 37 in local slot 0, fused and generic layout *)
Definition dummy_orc : oracle := mkOracle (fun _ => []) (fun _ => None) (fun x _ => x).
Definition ex_fused_prog : program :=
  mkProgram [byte_of_opcode OAddLocalConst; 0; 0; 1; 0; byte_of_opcode OHalt] [VInt 9; VInt 5].
Definition ex_generic_prog : program :=
  mkProgram [byte_of_opcode OHalt; byte_of_opcode OGetLocal; 0; 0; byte_of_opcode OConst; 1; 0;
             byte_of_opcode OAdd; byte_of_opcode OHalt] [VInt 9; VInt 5].
Definition ex_state : vm := mkVM [VInt 37] 1 [] [mkFrame 0 0] 0 0 VNull empty_heap gc_new [].

Example fused_step_equiv_nonvacuous :
  code_at ex_fused_prog (v_ip ex_state) [byte_of_opcode OAddLocalConst; 0; 0; 1; 0]
  /\ code_at ex_generic_prog 1 [byte_of_opcode OGetLocal; 0; 0; byte_of_opcode OConst; 1; 0; byte_of_opcode OAdd]
  /\ step dummy_orc ex_fused_prog ex_state
     = Ok (Continue (mkVM [VInt 42; VInt 37] 2 [] [mkFrame 0 0] 5 0 VNull empty_heap gc_new []))
  /\ nsteps dummy_orc ex_generic_prog 3 (upd_ip ex_state 1)
     = Ok (Continue (mkVM [VInt 42; VInt 37] 2 [] [mkFrame 0 0] 8 0 VNull empty_heap gc_new [])).
Proof.
  split; [apply code_at_check; [vm_compute; discriminate|vm_compute; reflexivity]|].
  split; [apply code_at_check; [vm_compute; discriminate|vm_compute; reflexivity]|].
  split; vm_compute; reflexivity.
Qed.

(* The hypothesis on the constant is needed: `Const` copies a string constant, the fused
   instruction (never emitted for strings) would use the pooled object itself: different heaps. *)
Definition ex_str_heap : heap := snd (h_alloc empty_heap (OStr [104%N])).
Example fused_differs_on_string_constants :
  let s := mkVM [VInt 37] 1 [] [mkFrame 0 0] 0 0 VNull ex_str_heap gc_new [] in
  let pf := mkProgram [byte_of_opcode OEqLocalConst; 0; 0; 0; 0] [VStr 1%positive] in
  let pg := mkProgram [byte_of_opcode OGetLocal; 0; 0; byte_of_opcode OConst; 0; 0; byte_of_opcode OEq] [VStr 1%positive] in
  match step dummy_orc pf s, nsteps dummy_orc pg 3 s with
  | Err ETypeError, Err ETypeError => True      (* same error ... *)
  | _, _ => False
  end
  /\ match nsteps dummy_orc pg 2 s with            (* ... but the generic code has allocated a copy *)
     | Ok (Continue s2) => n_alloc (v_heap s2) = 2 /\ n_alloc (v_heap s) = 1
     | _ => False
     end.
Proof. vm_compute. auto. Qed.

Print Assumptions fused_generic3.
Print Assumptions generic3_steps.
Print Assumptions fused_step_equiv.
