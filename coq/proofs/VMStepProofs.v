(* VMStepProofs.v - machine-level theorems about single steps of the VM model (VM.step):
   property C10 (fused instruction = generic sequence) and property C12 (calls and returns).
   Proofs only. *)
From NL.Model Require Import VM.
From NL.Proofs Require Import OpsProofs.
Open Scope Z_scope.

(** * 0. Vocabulary *)

(* the code buffer holds the bytes bs from address ip on *)
Definition code_at (prog : program) (ip : Z) (bs : list Z) : Prop :=
  forall k b, nth_error bs k = Some b -> byte_at prog (ip + Z.of_nat k) = Some b.

Lemma code_at_head : forall prog ip b r, code_at prog ip (b :: r) -> byte_at prog ip = Some b.
Proof. intros prog ip b r H. specialize (H 0%nat b eq_refl). rewrite Z.add_0_r in H. exact H. Qed.

Lemma code_at_tail : forall prog ip b r, code_at prog ip (b :: r) -> code_at prog (ip + 1) r.
Proof.
  intros prog ip b r H k c Hk. specialize (H (S k) c Hk).
  rewrite Nat2Z.inj_succ in H. replace (ip + 1 + Z.of_nat k) with (ip + Z.succ (Z.of_nat k)) by lia. exact H.
Qed.

Lemma code_at_skip : forall prog ip pre r, code_at prog ip (pre ++ r) -> code_at prog (ip + zlength pre) r.
Proof.
  intros prog ip pre r H k c Hk. unfold zlength.
  replace (ip + Z.of_nat (length pre) + Z.of_nat k) with (ip + Z.of_nat (length pre + k)) by lia.
  apply H. rewrite nth_error_app2 by lia. replace (length pre + k - length pre)%nat with k by lia. exact Hk.
Qed.

Lemma code_at_eq : forall prog ip ip' bs, ip = ip' -> code_at prog ip bs -> code_at prog ip' bs.
Proof. intros; subst; assumption. Qed.

Lemma nth_error_skipn' : forall {A} n (l : list A) k, nth_error (skipn n l) k = nth_error l (n + k).
Proof. induction n; intros l k; [reflexivity|]. destruct l; [destruct k; reflexivity|]. cbn. apply IHn. Qed.

Lemma nth_error_firstn' : forall {A} n (l : list A) k, (k < n)%nat -> nth_error (firstn n l) k = nth_error l k.
Proof.
  induction n; intros l k Hk; [lia|]. destruct l; [destruct k; reflexivity|].
  destruct k; [reflexivity|]. cbn. apply IHn. lia.
Qed.

(* decidable form, for examples *)
Lemma code_at_check : forall prog ip bs, 0 <= ip ->
  firstn (length bs) (skipn (Z.to_nat ip) (p_code prog)) = bs -> code_at prog ip bs.
Proof.
  intros prog ip bs Hip H k b Hk. unfold byte_at.
  destruct (ip + Z.of_nat k <? 0) eqn:E; [apply Z.ltb_lt in E; lia|].
  replace (Z.to_nat (ip + Z.of_nat k)) with (Z.to_nat ip + k)%nat by lia.
  rewrite <- nth_error_skipn'.
  assert (Hlt : (k < length bs)%nat) by (apply nth_error_Some; rewrite Hk; discriminate).
  rewrite <- (nth_error_firstn' (length bs)) by exact Hlt. rewrite H. exact Hk.
Qed.

Ltac vmsimpl :=
  cbn [v_stack v_slen v_globals v_frames v_ip v_bp v_final v_heap v_gc v_out
       upd_stack upd_ip upd_heap upd_globals upd_final upd_out push bind fst snd f_ip f_bp].
Ltac vmsimpl_in H :=
  cbn [v_stack v_slen v_globals v_frames v_ip v_bp v_final v_heap v_gc v_out
       upd_stack upd_ip upd_heap upd_globals upd_final upd_out push bind fst snd f_ip f_bp] in H.

Lemma opcode_roundtrip : forall op, opcode_of_byte (byte_of_opcode op) = Some op.
Proof. destruct op; vm_compute; reflexivity. Qed.

Lemma read_u16_code : forall prog s lo hi r, code_at prog (v_ip s) (lo :: hi :: r) ->
  read_u16 prog s = Ok (lo + 256 * hi, upd_ip s (v_ip s + 2)).
Proof.
  intros prog s lo hi r H. unfold read_u16.
  rewrite (code_at_head _ _ _ _ H), (code_at_head _ _ _ _ (code_at_tail _ _ _ _ H)). reflexivity.
Qed.

Lemma read_u8_code : forall prog s b r, code_at prog (v_ip s) (b :: r) ->
  read_u8 prog s = Ok (b, upd_ip s (v_ip s + 1)).
Proof. intros prog s b r H. unfold read_u8. rewrite (code_at_head _ _ _ _ H). reflexivity. Qed.

(* a state is determined by its ten fields *)
Lemma vm_eta : forall s, s = mkVM (v_stack s) (v_slen s) (v_globals s) (v_frames s) (v_ip s) (v_bp s)
                                 (v_final s) (v_heap s) (v_gc s) (v_out s).
Proof. destruct s; reflexivity. Qed.

Lemma upd_ip_upd_ip : forall s a b, upd_ip (upd_ip s a) b = upd_ip s b.
Proof. reflexivity. Qed.

Lemma upd_ip_same : forall s, upd_ip s (v_ip s) = s.
Proof. destruct s; reflexivity. Qed.

Lemma with_new_upd_ip : forall s a r, with_new (upd_ip s a) r = upd_ip (with_new s r) a.
Proof. intros s a [v h']. unfold with_new. vmsimpl. destruct (Pos.eqb _ _); reflexivity. Qed.

Lemma get_local_upd_ip : forall i s a, get_local i (upd_ip s a) = get_local i s.
Proof. reflexivity. Qed.

(** * 1. What `step` does on the opcodes used below (explicit unfoldings) *)

Section Steps.
  Variable orc : oracle.
  Variable prog : program.

  Definition cont (r : outcome vm) : outcome stepres := do s' <- r; Ok (Continue s').

  Lemma step_fetch_outside : forall s, byte_at prog (v_ip s) = None -> step orc prog s = Fault FFetchOutside.
  Proof. intros s H. unfold step. rewrite H. reflexivity. Qed.

  Ltac unfold_step H := unfold step; rewrite H, opcode_roundtrip; cbv beta iota zeta.

  Lemma step_binary : forall s go m,
    byte_at prog (v_ip s) = Some (byte_of_opcode go) ->
    assoc opcode_eqb go binary_dispatch = Some m ->
    step orc prog s = cont (binary orc m (upd_ip s (v_ip s + 1))).
  Proof.
    intros s go m H Hm. unfold_step H.
    destruct go; try (vm_compute in Hm; discriminate Hm); rewrite Hm; reflexivity.
  Qed.

  Lemma step_fused : forall s fo m,
    byte_at prog (v_ip s) = Some (byte_of_opcode fo) ->
    assoc opcode_eqb fo fused_dispatch = Some m ->
    step orc prog s = cont (fused orc prog m (upd_ip s (v_ip s + 1))).
  Proof.
    intros s fo m H Hm. unfold_step H.
    destruct fo; try (vm_compute in Hm; discriminate Hm);
      change (assoc opcode_eqb _ binary_dispatch) with (@None string); cbv iota; rewrite Hm; reflexivity.
  Qed.

  Lemma step_GetLocal_raw : forall s,
    byte_at prog (v_ip s) = Some (byte_of_opcode OGetLocal) ->
    step orc prog s = cont (do (idx, s1) <- read_u16 prog (upd_ip s (v_ip s + 1));
                            do v <- get_local idx s1; Ok (push v s1)).
  Proof. intros s H. unfold_step H. reflexivity. Qed.

  Lemma step_SetLocal_raw : forall s,
    byte_at prog (v_ip s) = Some (byte_of_opcode OSetLocal) ->
    step orc prog s = cont (do (idx, s1) <- read_u16 prog (upd_ip s (v_ip s + 1));
                            do (v, s2) <- pop s1; set_local idx v s2).
  Proof. intros s H. unfold_step H. reflexivity. Qed.

  Lemma step_GetGlobal_raw : forall s,
    byte_at prog (v_ip s) = Some (byte_of_opcode OGetGlobal) ->
    step orc prog s = cont (do (idx, s1) <- read_u16 prog (upd_ip s (v_ip s + 1));
                            Ok (push (nth (Z.to_nat idx) (v_globals s1) VNull) s1)).
  Proof. intros s H. unfold_step H. reflexivity. Qed.

  Lemma step_SetGlobal_raw : forall s,
    byte_at prog (v_ip s) = Some (byte_of_opcode OSetGlobal) ->
    step orc prog s = cont (do (idx, s1) <- read_u16 prog (upd_ip s (v_ip s + 1));
                            do (v, s2) <- pop s1;
                            let n := Z.to_nat idx in
                            let gl := v_globals s2 in
                            let gl' := if Nat.ltb n (length gl) then gl
                                       else gl ++ repeat_val VNull (S n - length gl) in
                            Ok (upd_globals s2 (replace_nth n v gl'))).
  Proof. intros s H. unfold_step H. reflexivity. Qed.

  Lemma step_Const_raw : forall s,
    byte_at prog (v_ip s) = Some (byte_of_opcode OConst) ->
    step orc prog s = cont (do (idx, s1) <- read_u16 prog (upd_ip s (v_ip s + 1));
                            do v <- get_const prog idx;
                            match v with
                            | VStr l =>
                                do t <- get_str (v_heap s1) l;
                                let r := alloc_str (v_heap s1) t in
                                Ok (push (fst r) (with_new s1 r))
                            | _ => Ok (push v s1)
                            end).
  Proof. intros s H. unfold_step H. reflexivity. Qed.

  Lemma step_Pop_raw : forall s,
    byte_at prog (v_ip s) = Some (byte_of_opcode OPop) ->
    step orc prog s = cont (do (v, s1) <- pop (upd_ip s (v_ip s + 1)); Ok (upd_final s1 v)).
  Proof. intros s H. unfold_step H. reflexivity. Qed.

  Lemma step_Call_raw : forall s,
    byte_at prog (v_ip s) = Some (byte_of_opcode OCall) ->
    step orc prog s =
    cont (do (argc, s1) <- read_u8 prog (upd_ip s (v_ip s + 1));
          do (f, s2) <- pop s1;
          match f with
          | VFun ip n =>
              if n <? argc then Err EArgumentError
              else if (MAX_STACK_SIZE <? v_slen s2 + n) || (MAX_FRAMES <=? zlength (v_frames s2))
              then Err ETypeError
              else if v_slen s2 <? argc then Fault FCallUnderflow
              else
                let bp := v_slen s2 - argc in
                let pad := Z.to_nat (n - argc) in
                let s3 := upd_stack s2 (repeat_val VNull pad ++ v_stack s2) (v_slen s2 + (n - argc)) in
                pushframe ip bp s3
          | _ => Err ETypeError
          end).
  Proof. intros s H. unfold_step H. reflexivity. Qed.

  Lemma step_ReturnValue_raw : forall s,
    byte_at prog (v_ip s) = Some (byte_of_opcode OReturnValue) ->
    step orc prog s = cont (do (result, s1) <- pop (upd_ip s (v_ip s + 1));
                            do s2 <- popframe s1;
                            do s3 <- collect prog s2 [v_final s2; result];
                            Ok (push result s3)).
  Proof. intros s H. unfold_step H. reflexivity. Qed.

  Lemma step_Return_raw : forall s,
    byte_at prog (v_ip s) = Some (byte_of_opcode OReturn) ->
    step orc prog s = cont (do s1 <- popframe (upd_ip s (v_ip s + 1));
                            do s2 <- collect prog s1 [v_final s1];
                            Ok (push VNull s2)).
  Proof. intros s H. unfold_step H. reflexivity. Qed.

  Lemma step_Array_raw : forall s,
    byte_at prog (v_ip s) = Some (byte_of_opcode OArray) ->
    step orc prog s = cont (do (n, s1) <- read_u16 prog (upd_ip s (v_ip s + 1));
                            do (vs, s2) <- pop_n (Z.to_nat n) s1 [];
                            let '(l, h') := h_alloc (v_heap s2) (OArr vs) in
                            Ok (push (VArr l) (upd_heap s2 h' (trace (v_gc s2) (VArr l))))).
  Proof. intros s H. unfold_step H. reflexivity. Qed.

  Lemma step_IndexGet_raw : forall s,
    byte_at prog (v_ip s) = Some (byte_of_opcode OIndexGet) ->
    step orc prog s = cont (do (index, s1) <- pop (upd_ip s (v_ip s + 1));
                            do (lhs, s2) <- pop s1;
                            index_get s2 lhs index).
  Proof. intros s H. unfold_step H. reflexivity. Qed.

  Lemma step_IndexSet_raw : forall s,
    byte_at prog (v_ip s) = Some (byte_of_opcode OIndexSet) ->
    step orc prog s = cont (do (value, s1) <- pop (upd_ip s (v_ip s + 1));
                            do (index, s2) <- pop s1;
                            do (lhs, s3) <- pop s2;
                            index_set s3 lhs index value).
  Proof. intros s H. unfold_step H. reflexivity. Qed.

  Lemma step_CallBuiltin_raw : forall s,
    byte_at prog (v_ip s) = Some (byte_of_opcode OCallBuiltin) ->
    step orc prog s =
    cont (do (bb, s1) <- read_u8 prog (upd_ip s (v_ip s + 1));
          do (argc, s2) <- read_u8 prog s1;
          do (args, s3) <- pop_n (Z.to_nat argc) s2 [];
          match builtin_of_byte bb with
          | None => Fault FBadBuiltin
          | Some bi =>
              do (r, printed) <- call_builtin orc bi (v_heap s3) args;
              let s4 := with_new s3 r in
              Ok (push (fst r) (upd_out s4 (v_out s4 ++ printed)))
          end).
  Proof. intros s H. unfold_step H. reflexivity. Qed.

  (** ** the readable forms used in part A *)

  Lemma step_GetLocal : forall s lo hi r,
    code_at prog (v_ip s) (byte_of_opcode OGetLocal :: lo :: hi :: r) ->
    step orc prog s = do v <- get_local (lo + 256 * hi) s; Ok (Continue (upd_ip (push v s) (v_ip s + 3))).
  Proof.
    intros s lo hi r H. rewrite (step_GetLocal_raw _ (code_at_head _ _ _ _ H)).
    unfold cont. rewrite (read_u16_code _ (upd_ip s (v_ip s + 1)) lo hi r (code_at_tail _ _ _ _ H)).
    vmsimpl. rewrite !get_local_upd_ip, !upd_ip_upd_ip. destruct (get_local (lo + 256 * hi) s); try reflexivity.
    vmsimpl. replace (v_ip s + 1 + 2) with (v_ip s + 3) by lia. reflexivity.
  Qed.

  Lemma step_Const : forall s lo hi r,
    code_at prog (v_ip s) (byte_of_opcode OConst :: lo :: hi :: r) ->
    step orc prog s =
    do k <- get_const prog (lo + 256 * hi);
    match k with
    | VStr l => do t <- get_str (v_heap s) l;
                let x := alloc_str (v_heap s) t in
                Ok (Continue (upd_ip (push (fst x) (with_new s x)) (v_ip s + 3)))
    | _ => Ok (Continue (upd_ip (push k s) (v_ip s + 3)))
    end.
  Proof.
    intros s lo hi r H. rewrite (step_Const_raw _ (code_at_head _ _ _ _ H)).
    unfold cont. rewrite (read_u16_code _ (upd_ip s (v_ip s + 1)) lo hi r (code_at_tail _ _ _ _ H)).
    vmsimpl. rewrite !upd_ip_upd_ip. replace (v_ip s + 1 + 2) with (v_ip s + 3) by lia.
    destruct (get_const prog (lo + 256 * hi)) as [k| | |]; try reflexivity.
    vmsimpl. destruct k; try reflexivity.
    destruct (get_str (v_heap s) l); try reflexivity.
    vmsimpl. rewrite with_new_upd_ip. reflexivity.
  Qed.
End Steps.

(** * 2. A1 (property C10): a fused instruction is the generic three-instruction sequence *)

(* what  GetLocal l; Const c (non-string); <binary m>  do to a state, code layout apart *)
Definition generic3 (orc : oracle) (prog : program) (l c : Z) (m : string) (s : vm) : outcome vm :=
  do v <- get_local l s;
  let s1 := push v s in
  do k <- get_const prog c;
  let s2 := push k s1 in
  binary orc m s2.

Lemma upd_stack_back : forall s, upd_stack s (v_stack s) (v_slen s + 1 + 1 - 1 - 1) = s.
Proof. destruct s; unfold upd_stack; vmsimpl. f_equal. lia. Qed.

Lemma binary_push2 : forall orc m s v k,
  binary orc m (push k (push v s)) = do r <- binop orc m (v_heap s) v k; Ok (push (fst r) (with_new s r)).
Proof.
  intros orc m s v k. unfold binary, pop. vmsimpl.
  change (upd_stack (upd_stack (push k (push v s)) (v :: v_stack s) (v_slen s + 1 + 1 - 1)) (v_stack s)
            (v_slen s + 1 + 1 - 1 - 1))
    with (upd_stack s (v_stack s) (v_slen s + 1 + 1 - 1 - 1)).
  rewrite upd_stack_back. reflexivity.
Qed.

Lemma generic3_nf : forall orc prog l c m s,
  generic3 orc prog l c m s =
  do v <- get_local l s; do k <- get_const prog c;
  do r <- binop orc m (v_heap s) v k; Ok (push (fst r) (with_new s r)).
Proof.
  intros. unfold generic3. destruct (get_local l s); try reflexivity. vmsimpl.
  destruct (get_const prog c); try reflexivity. vmsimpl. apply binary_push2.
Qed.

Lemma fused_nf : forall orc prog m s l_lo l_hi c_lo c_hi r,
  code_at prog (v_ip s) (l_lo :: l_hi :: c_lo :: c_hi :: r) ->
  fused orc prog m s =
  do v <- get_local (l_lo + 256 * l_hi) s; do k <- get_const prog (c_lo + 256 * c_hi);
  do x <- binop orc m (v_heap s) v k; Ok (push (fst x) (with_new (upd_ip s (v_ip s + 4)) x)).
Proof.
  intros orc prog m s l_lo l_hi c_lo c_hi r H. unfold fused.
  rewrite (read_u16_code _ _ _ _ _ H). vmsimpl. rewrite get_local_upd_ip.
  destruct (get_local (l_lo + 256 * l_hi) s); try reflexivity. vmsimpl.
  assert (H2 : code_at prog (v_ip (upd_ip s (v_ip s + 2))) (c_lo :: c_hi :: r)).
  { vmsimpl. apply (code_at_eq prog (v_ip s + 1 + 1)); [lia|].
    apply (code_at_tail _ _ l_hi). apply (code_at_tail _ _ l_lo). exact H. }
  rewrite (read_u16_code _ _ _ _ _ H2). vmsimpl.
  replace (v_ip s + 2 + 2) with (v_ip s + 4) by lia. reflexivity.
Qed.

(* A1, semantic-helper level: every state, every method *)
Theorem fused_generic3 : forall orc prog m s l_lo l_hi c_lo c_hi r,
  code_at prog (v_ip s) (l_lo :: l_hi :: c_lo :: c_hi :: r) ->
  fused orc prog m s =
  do s' <- generic3 orc prog (l_lo + 256 * l_hi) (c_lo + 256 * c_hi) m s; Ok (upd_ip s' (v_ip s + 4)).
Proof.
  intros orc prog m s l_lo l_hi c_lo c_hi r H.
  rewrite (fused_nf _ _ _ _ _ _ _ _ _ H), generic3_nf.
  destruct (get_local _ s); try reflexivity. vmsimpl.
  destruct (get_const prog _); try reflexivity. vmsimpl.
  destruct (binop orc m (v_heap s) a a0) as [x| | |]; try reflexivity. vmsimpl.
  rewrite with_new_upd_ip. reflexivity.
Qed.

Lemma binary_upd_ip : forall orc m s a,
  binary orc m (upd_ip s a) = do s' <- binary orc m s; Ok (upd_ip s' a).
Proof.
  intros orc m s a. unfold binary, pop. vmsimpl.
  destruct (v_stack s) as [|x [|y st]]; try reflexivity. vmsimpl.
  destruct (binop orc m (v_heap s) y x) as [r| | |]; try reflexivity. vmsimpl.
  change (upd_stack (upd_stack (upd_ip s a) (y :: st) (v_slen s - 1)) st (v_slen s - 1 - 1))
    with (upd_ip (upd_stack (upd_stack s (y :: st) (v_slen s - 1)) st (v_slen s - 1 - 1)) a).
  rewrite with_new_upd_ip. reflexivity.
Qed.

Lemma generic3_upd_ip : forall orc prog l c m s a,
  generic3 orc prog l c m (upd_ip s a) = do x <- generic3 orc prog l c m s; Ok (upd_ip x a).
Proof.
  intros. rewrite !generic3_nf. rewrite get_local_upd_ip.
  destruct (get_local _ s); try reflexivity. vmsimpl.
  destruct (get_const prog _); try reflexivity. vmsimpl.
  destruct (binop orc m (v_heap s) a0 a1); try reflexivity. vmsimpl.
  rewrite with_new_upd_ip. reflexivity.
Qed.

(* generic3 depends on the program through its constant pool only *)
Lemma generic3_consts : forall orc prog prog' l c m s,
  p_consts prog' = p_consts prog -> generic3 orc prog' l c m s = generic3 orc prog l c m s.
Proof. intros. unfold generic3, get_const. rewrite H. reflexivity. Qed.

(* n instructions in a row; an error, a fault or a halt ends the run *)
Fixpoint nsteps (orc : oracle) (prog : program) (n : nat) (s : vm) : outcome stepres :=
  match n with
  | O => Ok (Continue s)
  | S n' => match step orc prog s with
            | Ok (Continue s') => nsteps orc prog n' s'
            | r => r
            end
  end.

Definition set_ip_res (ip : Z) (r : stepres) : stepres :=
  match r with Continue s => Continue (upd_ip s ip) | Halted v s => Halted v (upd_ip s ip) end.

(* the three generic instructions, executed by `step`, do what generic3 says *)
Theorem generic3_steps : forall orc prog s l_lo l_hi c_lo c_hi go m r,
  code_at prog (v_ip s)
          (byte_of_opcode OGetLocal :: l_lo :: l_hi :: byte_of_opcode OConst :: c_lo :: c_hi :: byte_of_opcode go :: r) ->
  assoc opcode_eqb go binary_dispatch = Some m ->
  (forall loc, get_const prog (c_lo + 256 * c_hi) <> Ok (VStr loc)) ->
  nsteps orc prog 3 s =
  do s' <- generic3 orc prog (l_lo + 256 * l_hi) (c_lo + 256 * c_hi) m s; Ok (Continue (upd_ip s' (v_ip s + 7))).
Proof.
  intros orc prog s l_lo l_hi c_lo c_hi go m r H Hm Hns.
  unfold generic3. cbn [nsteps].
  rewrite (step_GetLocal orc prog s _ _ _ H).
  destruct (get_local (l_lo + 256 * l_hi) s) as [v| | |]; try reflexivity. vmsimpl.
  assert (H2 : code_at prog (v_ip (upd_ip (push v s) (v_ip s + 3)))
                       (byte_of_opcode OConst :: c_lo :: c_hi :: byte_of_opcode go :: r)).
  { vmsimpl. apply (code_at_skip prog (v_ip s) [byte_of_opcode OGetLocal; l_lo; l_hi]). exact H. }
  rewrite (step_Const orc prog _ _ _ _ H2).
  destruct (get_const prog (c_lo + 256 * c_hi)) as [k| | |] eqn:Ek; try reflexivity. vmsimpl.
  assert (H3 : byte_at prog (v_ip s + 3 + 3) = Some (byte_of_opcode go)).
  { apply (code_at_head prog _ _ r).
    apply (code_at_skip prog (v_ip s + 3) [byte_of_opcode OConst; c_lo; c_hi]).
    exact H2. }
  assert (E : forall k', (forall loc, k' <> VStr loc) ->
             match step orc prog (upd_ip (push k' (upd_ip (push v s) (v_ip s + 3))) (v_ip s + 3 + 3)) with
             | Ok (Continue s') => Ok (Continue s')
             | r => r
             end = do s' <- binary orc m (push k' (push v s)); Ok (Continue (upd_ip s' (v_ip s + 7)))).
  { intros k' _.
    change (upd_ip (push k' (upd_ip (push v s) (v_ip s + 3))) (v_ip s + 3 + 3))
      with (upd_ip (push k' (push v s)) (v_ip s + 3 + 3)).
    rewrite (step_binary orc prog (upd_ip (push k' (push v s)) (v_ip s + 3 + 3)) go m H3 Hm).
    unfold cont. cbn [v_ip upd_ip].
    rewrite !upd_ip_upd_ip. rewrite binary_upd_ip.
    replace (v_ip s + 3 + 3 + 1) with (v_ip s + 7) by lia.
    destruct (binary orc m (push k' (push v s))); reflexivity. }
  destruct k; try (apply E; intros loc; discriminate).
  exfalso. exact (Hns l eq_refl).
Qed.

(* the operator tables: a fused opcode and its generic opcode dispatch to the same method *)
Lemma fused_table_methods : forall o fo go,
  assoc operator_eqb o fused_table = Some fo ->
  assoc operator_eqb o compile_operator_table = Some go ->
  exists m, assoc opcode_eqb fo fused_dispatch = Some m /\ assoc opcode_eqb go binary_dispatch = Some m.
Proof.
  intros o fo go Hf Hg.
  destruct o; vm_compute in Hf; try discriminate Hf; vm_compute in Hg;
    inversion Hf; inversion Hg; subst; eexists; split; vm_compute; reflexivity.
Qed.

(* all eleven fused opcodes are reached through fused_table *)
Lemma fused_dispatch_covered : forall fo m,
  assoc opcode_eqb fo fused_dispatch = Some m ->
  exists o go, assoc operator_eqb o fused_table = Some fo
               /\ assoc operator_eqb o compile_operator_table = Some go.
Proof.
  intros fo m H.
  destruct fo; vm_compute in H; try discriminate H;
    [ exists OpGt | exists OpGte | exists OpLt | exists OpLte | exists OpEq | exists OpNeq
    | exists OpAdd | exists OpSubtract | exists OpMultiply | exists OpDivide | exists OpModulo ];
    eexists; split; vm_compute; reflexivity.
Qed.

(* A1, machine level.  `prog` holds the fused instruction at the ip of s, `prog'` holds the
   three generic instructions at ip'; the two programs have the same constant pool.  One step of
   the first from s and three steps of the second from (s with ip := ip') have the same outcome:
   the same error, the same fault, or final states equal in every field except the ip, which in
   each program points right after the executed code. *)
Theorem fused_step_equiv : forall orc prog prog' o fo go s ip' l_lo l_hi c_lo c_hi r r',
  assoc operator_eqb o fused_table = Some fo ->
  assoc operator_eqb o compile_operator_table = Some go ->
  code_at prog (v_ip s) (byte_of_opcode fo :: l_lo :: l_hi :: c_lo :: c_hi :: r) ->
  code_at prog' ip'
          (byte_of_opcode OGetLocal :: l_lo :: l_hi :: byte_of_opcode OConst :: c_lo :: c_hi
           :: byte_of_opcode go :: r') ->
  p_consts prog' = p_consts prog ->
  (forall loc, get_const prog (c_lo + 256 * c_hi) <> Ok (VStr loc)) ->
  step orc prog s = (do x <- nsteps orc prog' 3 (upd_ip s ip'); Ok (set_ip_res (v_ip s + 5) x))
  /\ (forall s3, nsteps orc prog' 3 (upd_ip s ip') = Ok (Continue s3) -> v_ip s3 = ip' + 7)
  /\ (forall v s3, nsteps orc prog' 3 (upd_ip s ip') <> Ok (Halted v s3)).
Proof.
  intros orc prog prog' o fo go s ip' l_lo l_hi c_lo c_hi r r' Hf Hg H H' Hc Hns.
  destruct (fused_table_methods _ _ _ Hf Hg) as (m & Hfm & Hgm).
  assert (Hc' : forall c, get_const prog' c = get_const prog c) by (intro c; unfold get_const; rewrite Hc; reflexivity).
  assert (Hns' : forall loc, get_const prog' (c_lo + 256 * c_hi) <> Ok (VStr loc)) by (intro; rewrite Hc'; auto).
  pose proof (generic3_steps orc prog' (upd_ip s ip') l_lo l_hi c_lo c_hi go m r' H' Hgm Hns') as G.
  rewrite (generic3_consts orc prog prog' _ _ _ _ Hc), generic3_upd_ip in G. vmsimpl_in G.
  split; [|split].
  - rewrite G. rewrite (step_fused orc prog s fo m (code_at_head _ _ _ _ H) Hfm). unfold cont.
    rewrite (fused_generic3 orc prog m (upd_ip s (v_ip s + 1)) l_lo l_hi c_lo c_hi r (code_at_tail _ _ _ _ H)).
    rewrite generic3_upd_ip. vmsimpl.
    destruct (generic3 orc prog _ _ m s); try reflexivity. vmsimpl. cbn [set_ip_res].
    rewrite !upd_ip_upd_ip. replace (v_ip s + 1 + 4) with (v_ip s + 5) by lia. reflexivity.
  - intros s3 E. rewrite G in E. destruct (generic3 orc prog _ _ m s); try discriminate E.
    vmsimpl_in E. inversion E; subst. reflexivity.
  - intros v s3 E. rewrite G in E. destruct (generic3 orc prog _ _ m s); discriminate E.
Qed.

(* non-vacuity: x + 5 with x = 37 in local slot 0, fused and generic layout *)
Definition dummy_orc : oracle := mkOracle (fun _ => []) (fun _ => None) (fun x _ => x).
Definition ex_fused_prog : program :=
  mkProgram [byte_of_opcode OAddLocalConst; 0; 0; 1; 0; byte_of_opcode OHalt] [VInt 9; VInt 5].
Definition ex_generic_prog : program :=
  mkProgram [byte_of_opcode OHalt; byte_of_opcode OGetLocal; 0; 0; byte_of_opcode OConst; 1; 0;
             byte_of_opcode OAdd; byte_of_opcode OHalt] [VInt 9; VInt 5].
Definition ex_state : vm := mkVM [VInt 37] 1 [] [mkFrame 0 0] 0 0 VNull empty_heap gc_new [].

Example fused_step_equiv_nonvacuous :
  code_at ex_fused_prog (v_ip ex_state) [byte_of_opcode OAddLocalConst; 0; 0; 1; 0]
  /\ code_at ex_generic_prog 1 [byte_of_opcode OGetLocal; 0; 0; byte_of_opcode OConst; 1; 0; byte_of_opcode OAdd]
  /\ step dummy_orc ex_fused_prog ex_state
     = Ok (Continue (mkVM [VInt 42; VInt 37] 2 [] [mkFrame 0 0] 5 0 VNull empty_heap gc_new []))
  /\ nsteps dummy_orc ex_generic_prog 3 (upd_ip ex_state 1)
     = Ok (Continue (mkVM [VInt 42; VInt 37] 2 [] [mkFrame 0 0] 8 0 VNull empty_heap gc_new [])).
Proof.
  split; [apply code_at_check; [vm_compute; discriminate|vm_compute; reflexivity]|].
  split; [apply code_at_check; [vm_compute; discriminate|vm_compute; reflexivity]|].
  split; vm_compute; reflexivity.
Qed.

(* The hypothesis on the constant is needed: `Const` copies a string constant, the fused
   instruction (never emitted for strings) would use the pooled object itself: different heaps. *)
Definition ex_str_heap : heap := snd (h_alloc empty_heap (OStr [104%N])).
Example fused_differs_on_string_constants :
  let s := mkVM [VInt 37] 1 [] [mkFrame 0 0] 0 0 VNull ex_str_heap gc_new [] in
  let pf := mkProgram [byte_of_opcode OEqLocalConst; 0; 0; 0; 0] [VStr 1%positive] in
  let pg := mkProgram [byte_of_opcode OGetLocal; 0; 0; byte_of_opcode OConst; 0; 0; byte_of_opcode OEq] [VStr 1%positive] in
  match step dummy_orc pf s, nsteps dummy_orc pg 3 s with
  | Err ETypeError, Err ETypeError => True      (* same error ... *)
  | _, _ => False
  end
  /\ match nsteps dummy_orc pg 2 s with            (* ... but the generic code has allocated a copy *)
     | Ok (Continue s2) => n_alloc (v_heap s2) = 2 /\ n_alloc (v_heap s) = 1
     | _ => False
     end.
Proof. vm_compute. auto. Qed.

(** * 3. B (property C12): calls bind arguments by position, isolate activations, and the
       caller is resumed intact *)

Lemma zlength_cons : forall {A} (x : A) l, zlength (x :: l) = zlength l + 1.
Proof. intros. unfold zlength. cbn [length]. lia. Qed.
Lemma zlength_app : forall {A} (a b : list A), zlength (a ++ b) = zlength a + zlength b.
Proof. intros. unfold zlength. rewrite app_length. lia. Qed.
Lemma zlength_nonneg : forall {A} (l : list A), 0 <= zlength l.
Proof. intros. unfold zlength. lia. Qed.
Lemma repeat_val_length : forall {A} (x : A) n, length (repeat_val x n) = n.
Proof. induction n; cbn; auto. Qed.
Lemma repeat_val_nth : forall {A} (x : A) n k, (k < n)%nat -> nth_error (repeat_val x n) k = Some x.
Proof. induction n; intros k Hk; [lia|]. destruct k; cbn; [reflexivity|]. apply IHn. lia. Qed.
Lemma nth_error_rev : forall {A} (l : list A) k, (k < length l)%nat ->
  nth_error (rev l) k = nth_error l (length l - S k).
Proof.
  intros A l k Hk. destruct l as [|d l0] eqn:El; [cbn in Hk; lia|]. rewrite <- El in *.
  rewrite (nth_error_nth' (rev l) d) by (rewrite rev_length; exact Hk).
  rewrite (nth_error_nth' l d) by lia. f_equal. apply rev_nth. exact Hk.
Qed.
Lemma replace_nth_app1 : forall {A} k (v : A) a b, (k < length a)%nat ->
  replace_nth k v (a ++ b) = replace_nth k v a ++ b.
Proof.
  induction k; intros v a b Hk; destruct a; cbn in Hk; try lia; cbn; [reflexivity|].
  f_equal. apply IHk. lia.
Qed.
Lemma replace_nth_length : forall {A} k (v : A) l, length (replace_nth k v l) = length l.
Proof. induction k; destruct l; cbn; auto. Qed.
Lemma replace_nth_same : forall {A} k (v : A) l, (k < length l)%nat -> nth_error (replace_nth k v l) k = Some v.
Proof. induction k; destruct l; cbn; intro H; try lia; [reflexivity|]. apply IHk. lia. Qed.
Lemma replace_nth_other : forall {A} k j (v : A) l, k <> j -> nth_error (replace_nth k v l) j = nth_error l j.
Proof.
  induction k; destruct l; intros H; cbn; try reflexivity.
  - destruct j; [congruence|reflexivity].
  - destruct j; [reflexivity|]. cbn. apply IHk. congruence.
Qed.
Lemma skipn_app_exact : forall {A} (a b : list A) n, n = length a -> skipn n (a ++ b) = b.
Proof. intros A a b n ->. induction a; cbn; auto. Qed.

(* the contents of stack position pos (0 = bottom), as get_local / set_local address them *)
Definition slot (s : vm) (pos : Z) : option val :=
  if (0 <=? pos) && (pos <? v_slen s) then nth_error (v_stack s) (Z.to_nat (v_slen s - 1 - pos)) else None.

Lemma get_local_slot : forall s i, 0 <= v_bp s + i ->
  get_local i s = match slot s (v_bp s + i) with Some v => Ok v | None => Fault FLocalSlot end.
Proof.
  intros s i H. unfold get_local, slot.
  destruct (Z.leb_spec 0 (v_bp s + i)); [|lia]. cbn [andb].
  destruct (v_bp s + i <? v_slen s); reflexivity.
Qed.

(* positions below the length of `rest` are cells of `rest`, whatever is on top *)
Lemma slot_below : forall s top rest pos,
  v_stack s = top ++ rest -> v_slen s = zlength (v_stack s) -> 0 <= pos < zlength rest ->
  slot s pos = nth_error rest (Z.to_nat (zlength rest - 1 - pos)).
Proof.
  intros s top rest pos Hst Hlen Hpos. unfold slot. rewrite Hlen, Hst, zlength_app.
  pose proof (@zlength_nonneg val top).
  destruct (Z.leb_spec 0 pos); [|lia]. destruct (Z.ltb_spec pos (zlength top + zlength rest)); [|lia].
  cbn [andb]. unfold zlength in *. rewrite nth_error_app2 by lia. f_equal. lia.
Qed.

(* the state right after a successful Call *)
Definition called (s : vm) (ip n argc : Z) (args_rev rest : list val) (cur : frame) (frs : list frame) : vm :=
  mkVM (repeat_val VNull (Z.to_nat (n - argc)) ++ args_rev ++ rest) (zlength rest + n) (v_globals s)
       (mkFrame ip (zlength rest) :: mkFrame (v_ip s + 2) (f_bp cur) :: frs) ip (zlength rest)
       (v_final s) (v_heap s) (v_gc s) (v_out s).

Section Calls.
  Variable orc : oracle.
  Variable prog : program.

  (** ** B1 *)
  Theorem call_frame : forall s argc ip n args_rev rest cur frs r,
    code_at prog (v_ip s) (byte_of_opcode OCall :: argc :: r) ->
    v_stack s = VFun ip n :: args_rev ++ rest ->
    v_slen s = zlength (v_stack s) ->
    zlength args_rev = argc -> argc <= n ->
    v_slen s - 1 + n <= MAX_STACK_SIZE ->
    v_frames s = cur :: frs -> zlength (v_frames s) < MAX_FRAMES ->
    step orc prog s = Ok (Continue (called s ip n argc args_rev rest cur frs)).
  Proof.
    intros s argc ip n args_rev rest cur frs r H Hst Hlen Hargc Hn Hmax Hfr Hfrs.
    rewrite (step_Call_raw orc prog s (code_at_head _ _ _ _ H)). unfold cont.
    rewrite (read_u8_code prog (upd_ip s (v_ip s + 1)) argc r (code_at_tail _ _ _ _ H)).
    vmsimpl. unfold pop. vmsimpl. rewrite Hst. vmsimpl.
    rewrite Hst, zlength_cons, zlength_app in Hlen. pose proof (@zlength_nonneg val rest) as Hr.
    destruct (Z.ltb_spec n argc); [lia|].
    destruct (Z.ltb_spec MAX_STACK_SIZE (v_slen s - 1 + n)); [lia|].
    destruct (Z.leb_spec MAX_FRAMES (zlength (v_frames s))); [lia|]. cbn [orb].
    destruct (Z.ltb_spec (v_slen s - 1) argc); [lia|].
    unfold pushframe. vmsimpl. rewrite Hfr. vmsimpl. unfold called.
    replace (v_slen s - 1 - argc) with (zlength rest) by lia.
    replace (v_slen s - 1 + (n - argc)) with (zlength rest + n) by lia.
    replace (v_ip s + 1 + 1) with (v_ip s + 2) by lia. reflexivity.
  Qed.

  (* slot i of the new activation holds the i-th argument in SOURCE order (args_rev lists the
     arguments top of stack first, i.e. last argument first) ... *)
  Theorem call_binds_by_position : forall s ip n argc args_rev rest cur frs i,
    zlength args_rev = argc -> argc <= n -> 0 <= i < argc ->
    exists v, nth_error (rev args_rev) (Z.to_nat i) = Some v
              /\ get_local i (called s ip n argc args_rev rest cur frs) = Ok v.
  Proof.
    intros s ip n argc args_rev rest cur frs i Hargc Hn Hi.
    unfold zlength in Hargc.
    destruct (nth_error (rev args_rev) (Z.to_nat i)) as [v|] eqn:E.
    2:{ apply nth_error_None in E. rewrite rev_length in E. lia. }
    exists v. split; [reflexivity|].
    unfold get_local, called. vmsimpl. pose proof (@zlength_nonneg val rest).
    destruct (Z.ltb_spec (zlength rest + i) (zlength rest + n)); [|lia].
    rewrite nth_error_app2 by (rewrite repeat_val_length; lia). rewrite repeat_val_length.
    rewrite nth_error_app1 by lia.
    rewrite nth_error_rev in E by lia.
    replace (Z.to_nat (zlength rest + n - 1 - (zlength rest + i)) - Z.to_nat (n - argc))%nat
      with (length args_rev - S (Z.to_nat i))%nat by lia.
    rewrite E. reflexivity.
  Qed.

  (* ... and the parameters not supplied, and the other locals, start as null *)
  Theorem call_pads_with_null : forall s ip n argc args_rev rest cur frs i,
    zlength args_rev = argc -> argc <= i < n ->
    get_local i (called s ip n argc args_rev rest cur frs) = Ok VNull.
  Proof.
    intros s ip n argc args_rev rest cur frs i Hargc Hi.
    unfold get_local, called. vmsimpl. pose proof (@zlength_nonneg val rest).
    destruct (Z.ltb_spec (zlength rest + i) (zlength rest + n)); [|lia].
    rewrite nth_error_app1 by (rewrite repeat_val_length; lia).
    rewrite repeat_val_nth by lia. reflexivity.
  Qed.

  (* nothing else is touched by a call *)
  Theorem call_preserves : forall s ip n argc args_rev rest cur frs,
    let s' := called s ip n argc args_rev rest cur frs in
    v_globals s' = v_globals s /\ v_heap s' = v_heap s /\ v_gc s' = v_gc s /\ v_out s' = v_out s
    /\ v_final s' = v_final s /\ v_ip s' = ip /\ v_bp s' = zlength rest
    /\ v_frames s' = mkFrame ip (zlength rest) :: mkFrame (v_ip s + 2) (f_bp cur) :: frs.
  Proof. intros. unfold s', called. vmsimpl. repeat split. Qed.

  Lemma called_slen : forall s ip n argc args_rev rest cur frs,
    zlength args_rev = argc -> argc <= n ->
    v_slen (called s ip n argc args_rev rest cur frs) = zlength (v_stack (called s ip n argc args_rev rest cur frs)).
  Proof.
    intros. unfold called. vmsimpl. rewrite !zlength_app. unfold zlength at 2. rewrite repeat_val_length. lia.
  Qed.

  (** ** B2 *)
  Theorem arity_checked : forall s argc ip n st r,
    code_at prog (v_ip s) (byte_of_opcode OCall :: argc :: r) ->
    v_stack s = VFun ip n :: st -> n < argc ->
    step orc prog s = Err EArgumentError.
  Proof.
    intros s argc ip n st r H Hst Hn.
    rewrite (step_Call_raw orc prog s (code_at_head _ _ _ _ H)). unfold cont.
    rewrite (read_u8_code prog (upd_ip s (v_ip s + 1)) argc r (code_at_tail _ _ _ _ H)).
    vmsimpl. unfold pop. vmsimpl. rewrite Hst. vmsimpl.
    destruct (Z.ltb_spec n argc); [reflexivity|lia].
  Qed.

  Theorem depth_limit : forall s argc ip n st r,
    code_at prog (v_ip s) (byte_of_opcode OCall :: argc :: r) ->
    v_stack s = VFun ip n :: st -> argc <= n ->
    MAX_STACK_SIZE < v_slen s - 1 + n \/ MAX_FRAMES <= zlength (v_frames s) ->
    step orc prog s = Err ETypeError.
  Proof.
    intros s argc ip n st r H Hst Hn Hlim.
    rewrite (step_Call_raw orc prog s (code_at_head _ _ _ _ H)). unfold cont.
    rewrite (read_u8_code prog (upd_ip s (v_ip s + 1)) argc r (code_at_tail _ _ _ _ H)).
    vmsimpl. unfold pop. vmsimpl. rewrite Hst. vmsimpl.
    destruct (Z.ltb_spec n argc); [lia|].
    destruct (Z.ltb_spec MAX_STACK_SIZE (v_slen s - 1 + n)); [reflexivity|].
    destruct (Z.leb_spec MAX_FRAMES (zlength (v_frames s))); [reflexivity|lia].
  Qed.

  Theorem call_non_function : forall s argc f st r,
    code_at prog (v_ip s) (byte_of_opcode OCall :: argc :: r) ->
    v_stack s = f :: st -> (forall ip n, f <> VFun ip n) ->
    step orc prog s = Err ETypeError.
  Proof.
    intros s argc f st r H Hst Hf.
    rewrite (step_Call_raw orc prog s (code_at_head _ _ _ _ H)). unfold cont.
    rewrite (read_u8_code prog (upd_ip s (v_ip s + 1)) argc r (code_at_tail _ _ _ _ H)).
    vmsimpl. unfold pop. vmsimpl. rewrite Hst. vmsimpl.
    destruct f; try reflexivity. exfalso. exact (Hf _ _ eq_refl).
  Qed.

  (* the complete case analysis of Call on a non-empty stack: no other outcome exists; a frame
     is pushed only with a non-negative padding n - argc, a stack within the limit and a base
     pointer inside the stack *)
  Theorem call_outcomes : forall s argc f st r,
    code_at prog (v_ip s) (byte_of_opcode OCall :: argc :: r) ->
    v_stack s = f :: st ->
    step orc prog s = Err ETypeError \/ step orc prog s = Err EArgumentError
    \/ step orc prog s = Fault FCallUnderflow \/ step orc prog s = Fault FNoFrame
    \/ exists ip n s', f = VFun ip n /\ step orc prog s = Ok (Continue s')
         /\ argc <= n /\ v_slen s' = v_slen s - 1 + (n - argc) /\ v_slen s - 1 + n <= MAX_STACK_SIZE
         /\ zlength (v_frames s) < MAX_FRAMES
         /\ v_bp s' = v_slen s - 1 - argc /\ 0 <= v_bp s' /\ v_ip s' = ip.
  Proof.
    intros s argc f st r H Hst.
    rewrite (step_Call_raw orc prog s (code_at_head _ _ _ _ H)). unfold cont.
    rewrite (read_u8_code prog (upd_ip s (v_ip s + 1)) argc r (code_at_tail _ _ _ _ H)).
    vmsimpl. unfold pop. vmsimpl. rewrite Hst. vmsimpl.
    destruct f; auto.
    destruct (Z.ltb_spec n argc); auto.
    destruct (Z.ltb_spec MAX_STACK_SIZE (v_slen s - 1 + n)); auto.
    destruct (Z.leb_spec MAX_FRAMES (zlength (v_frames s))); auto. cbn [orb].
    destruct (Z.ltb_spec (v_slen s - 1) argc); auto.
    unfold pushframe. vmsimpl. destruct (v_frames s) as [|cur frs]; auto.
    right. right. right. right. vmsimpl. eexists ip, n, _. split; [reflexivity|]. split; [reflexivity|].
    vmsimpl. repeat split; lia.
  Qed.

  (** ** B3 *)
  Lemma popframe_spec : forall s above rest fr cur frs,
    v_stack s = above ++ rest -> v_slen s = zlength (v_stack s) ->
    v_frames s = fr :: cur :: frs -> f_bp fr = zlength rest ->
    popframe s = Ok (mkVM rest (zlength rest) (v_globals s) (cur :: frs) (f_ip cur) (f_bp cur)
                          (v_final s) (v_heap s) (v_gc s) (v_out s)).
  Proof.
    intros s above rest fr cur frs Hst Hlen Hfr Hbp. unfold popframe. rewrite Hfr.
    rewrite Hst, zlength_app in Hlen. rewrite Hbp, Hlen.
    destruct (Z.ltb_spec (zlength rest) (zlength above + zlength rest)) as [L|L].
    - rewrite Hst. rewrite skipn_app_exact by (unfold zlength; lia). reflexivity.
    - assert (above = []) by (destruct above; [reflexivity|rewrite zlength_cons in L; pose proof (@zlength_nonneg val above); lia]).
      subst above. rewrite Hst. cbn [app]. change (zlength (@nil val)) with 0. rewrite Z.add_0_l. reflexivity.
  Qed.

  (* popframe never touches what lies below the frame's base pointer, in any state at all:
     the stack afterwards is a suffix of the stack before *)
  Lemma popframe_suffix : forall s s', popframe s = Ok s' -> exists above, v_stack s = above ++ v_stack s'.
  Proof.
    intros s s' H. unfold popframe in H. destruct (v_frames s) as [|fr [|cur frs]]; try discriminate H.
    inversion H; subst s'; clear H. vmsimpl.
    destruct (f_bp fr <? v_slen s).
    - exists (firstn (Z.to_nat (v_slen s - f_bp fr)) (v_stack s)). symmetry. apply firstn_skipn.
    - exists []. reflexivity.
  Qed.

  (* what the collection at a return may change: the heap (alive flags of unreachable boxes,
     the freed counter) and the collector's own tables.  Nothing else. *)
  Lemma collect_frame : forall s extra s', collect prog s extra = Ok s' ->
    exists h' g', gc_run (v_heap s) (v_gc s) (roots prog s extra) = Ok (g', h') /\ s' = upd_heap s h' g'.
  Proof.
    intros s extra s' H. unfold collect in H.
    destruct (gc_run (v_heap s) (v_gc s) (roots prog s extra)) as [[g' h']| | |]; try discriminate H.
    vmsimpl_in H. inversion H; subst. eauto.
  Qed.

  (* the state the caller is resumed in, before the collection *)
  Definition resumed (s : vm) (rest : list val) (ret cbp : Z) (frs : list frame) : vm :=
    mkVM rest (zlength rest) (v_globals s) (mkFrame ret cbp :: frs) ret cbp
         (v_final s) (v_heap s) (v_gc s) (v_out s).

  Theorem return_value_step : forall s result above rest fr ret cbp frs,
    byte_at prog (v_ip s) = Some (byte_of_opcode OReturnValue) ->
    v_stack s = result :: above ++ rest -> v_slen s = zlength (v_stack s) ->
    v_frames s = fr :: mkFrame ret cbp :: frs -> f_bp fr = zlength rest ->
    step orc prog s =
    do s3 <- collect prog (resumed s rest ret cbp frs) [v_final s; result]; Ok (Continue (push result s3)).
  Proof.
    intros s result above rest fr ret cbp frs H Hst Hlen Hfr Hbp.
    rewrite (step_ReturnValue_raw orc prog s H). unfold cont, pop. vmsimpl. rewrite Hst. vmsimpl.
    rewrite (popframe_spec _ above rest fr (mkFrame ret cbp) frs); vmsimpl; auto.
    2:{ rewrite Hlen, Hst, zlength_cons. lia. }
    unfold resumed. destruct (collect prog _ _); reflexivity.
  Qed.

  Theorem return_step : forall s above rest fr ret cbp frs,
    byte_at prog (v_ip s) = Some (byte_of_opcode OReturn) ->
    v_stack s = above ++ rest -> v_slen s = zlength (v_stack s) ->
    v_frames s = fr :: mkFrame ret cbp :: frs -> f_bp fr = zlength rest ->
    step orc prog s =
    do s3 <- collect prog (resumed s rest ret cbp frs) [v_final s]; Ok (Continue (push VNull s3)).
  Proof.
    intros s above rest fr ret cbp frs H Hst Hlen Hfr Hbp.
    rewrite (step_Return_raw orc prog s H). unfold cont.
    rewrite (popframe_spec _ above rest fr (mkFrame ret cbp) frs); vmsimpl; auto.
    unfold resumed. destruct (collect prog _ _); reflexivity.
  Qed.

  (* B3: whatever the callee left above `rest`, after ReturnValue the caller sees its own part
     of the stack IDENTICAL, with the result on top; ip, bp and frames are the saved ones;
     globals, final value and output unchanged; heap and collector as gc_run leaves them *)
  Theorem return_restores : forall s result above rest fr ret cbp frs s',
    byte_at prog (v_ip s) = Some (byte_of_opcode OReturnValue) ->
    v_stack s = result :: above ++ rest -> v_slen s = zlength (v_stack s) ->
    v_frames s = fr :: mkFrame ret cbp :: frs -> f_bp fr = zlength rest ->
    step orc prog s = Ok (Continue s') ->
    v_stack s' = result :: rest /\ v_slen s' = zlength (v_stack s')
    /\ v_ip s' = ret /\ v_bp s' = cbp /\ v_frames s' = mkFrame ret cbp :: frs
    /\ v_globals s' = v_globals s /\ v_final s' = v_final s /\ v_out s' = v_out s
    /\ gc_run (v_heap s) (v_gc s) (roots prog (resumed s rest ret cbp frs) [v_final s; result])
       = Ok (v_gc s', v_heap s').
  Proof.
    intros s result above rest fr ret cbp frs s' H Hst Hlen Hfr Hbp Hstep.
    rewrite (return_value_step s result above rest fr ret cbp frs H Hst Hlen Hfr Hbp) in Hstep.
    destruct (collect prog _ _) as [s3| | |] eqn:C; try discriminate Hstep.
    vmsimpl_in Hstep. inversion Hstep; subst s'; clear Hstep.
    destruct (collect_frame _ _ _ C) as (h' & g' & Hrun & ->). unfold resumed in *. vmsimpl.
    vmsimpl_in Hrun. rewrite zlength_cons. repeat split; auto.
  Qed.

  Theorem return_null_restores : forall s above rest fr ret cbp frs s',
    byte_at prog (v_ip s) = Some (byte_of_opcode OReturn) ->
    v_stack s = above ++ rest -> v_slen s = zlength (v_stack s) ->
    v_frames s = fr :: mkFrame ret cbp :: frs -> f_bp fr = zlength rest ->
    step orc prog s = Ok (Continue s') ->
    v_stack s' = VNull :: rest /\ v_slen s' = zlength (v_stack s')
    /\ v_ip s' = ret /\ v_bp s' = cbp /\ v_frames s' = mkFrame ret cbp :: frs
    /\ v_globals s' = v_globals s /\ v_final s' = v_final s /\ v_out s' = v_out s
    /\ gc_run (v_heap s) (v_gc s) (roots prog (resumed s rest ret cbp frs) [v_final s])
       = Ok (v_gc s', v_heap s').
  Proof.
    intros s above rest fr ret cbp frs s' H Hst Hlen Hfr Hbp Hstep.
    rewrite (return_step s above rest fr ret cbp frs H Hst Hlen Hfr Hbp) in Hstep.
    destruct (collect prog _ _) as [s3| | |] eqn:C; try discriminate Hstep.
    vmsimpl_in Hstep. inversion Hstep; subst s'; clear Hstep.
    destruct (collect_frame _ _ _ C) as (h' & g' & Hrun & ->). unfold resumed in *. vmsimpl.
    vmsimpl_in Hrun. rewrite zlength_cons. repeat split; auto.
  Qed.

  (* call and return together: s0 performs the call (hypotheses of call_frame); s is ANY later
     state of the callee that still has the frame list the call created and whose stack still
     contains the caller's part `rest` at the bottom; it returns.  The caller gets back exactly
     `rest`, its own base pointer, and the address right after its call instruction. *)
  Theorem call_return_roundtrip : forall s0 argc ip n args_rev rest cur frs s result above s',
    v_frames s0 = cur :: frs ->
    v_frames s = v_frames (called s0 ip n argc args_rev rest cur frs) ->
    byte_at prog (v_ip s) = Some (byte_of_opcode OReturnValue) ->
    v_stack s = result :: above ++ rest -> v_slen s = zlength (v_stack s) ->
    step orc prog s = Ok (Continue s') ->
    v_stack s' = result :: rest /\ v_ip s' = v_ip s0 + 2 /\ v_bp s' = f_bp cur
    /\ v_frames s' = mkFrame (v_ip s0 + 2) (f_bp cur) :: frs
    /\ v_globals s' = v_globals s /\ v_out s' = v_out s.
  Proof.
    intros s0 argc ip n args_rev rest cur frs s result above s' Hf0 Hf H Hst Hlen Hstep.
    unfold called in Hf. vmsimpl_in Hf.
    destruct (return_restores s result above rest _ _ _ _ s' H Hst Hlen Hf eq_refl Hstep)
      as (A & _ & B & C & D & E & _ & F & _).
    auto 10.
  Qed.

  (** ** B4 *)
  (* writing a local of the running activation changes one cell above the base pointer; in
     particular never a cell of `rest` *)
  Lemma set_local_above_bp : forall s top rest i v,
    v_stack s = top ++ rest -> v_slen s = zlength (v_stack s) -> v_bp s = zlength rest ->
    0 <= i < zlength top ->
    exists top', set_local i v s = Ok (upd_stack s (top' ++ rest) (v_slen s))
                 /\ length top' = length top
                 /\ nth_error top' (Z.to_nat (zlength top - 1 - i)) = Some v
                 /\ forall j, j <> Z.to_nat (zlength top - 1 - i) -> nth_error top' j = nth_error top j.
  Proof.
    intros s top rest i v Hst Hlen Hbp Hi.
    exists (replace_nth (Z.to_nat (zlength top - 1 - i)) v top).
    unfold set_local. rewrite Hbp, Hlen, Hst, zlength_app.
    destruct (Z.ltb_spec (zlength rest + i) (zlength top + zlength rest)); [|lia].
    replace (zlength top + zlength rest - 1 - (zlength rest + i)) with (zlength top - 1 - i) by lia.
    rewrite replace_nth_app1 by (unfold zlength in *; lia).
    split; [reflexivity|]. split; [apply replace_nth_length|].
    split; [apply replace_nth_same; unfold zlength in *; lia|].
    intros j Hj. apply replace_nth_other. congruence.
  Qed.

  (* B4: right after a call, (a) the caller's cells are where they were, with the same contents;
     (b) the n slots of the new activation are the stack positions bp .. bp+n-1, all of them
     above every position of `rest`; (c) a write to any of them leaves `rest` alone. *)
  Theorem activations_disjoint : forall s ip n argc args_rev rest cur frs,
    zlength args_rev = argc -> argc <= n ->
    let s' := called s ip n argc args_rev rest cur frs in
    (forall pos, 0 <= pos < zlength rest ->
       slot s' pos = nth_error rest (Z.to_nat (zlength rest - 1 - pos)))
    /\ (forall i, 0 <= i < n ->
          zlength rest <= v_bp s' + i < v_slen s'
          /\ get_local i s' = match slot s' (v_bp s' + i) with Some v => Ok v | None => Fault FLocalSlot end
          /\ slot s' (v_bp s' + i) <> None)
    /\ (forall i v, 0 <= i < n ->
          exists top', set_local i v s' = Ok (upd_stack s' (top' ++ rest) (v_slen s'))
                       /\ zlength top' = n).
  Proof.
    intros s ip n argc args_rev rest cur frs Hargc Hn s'.
    assert (Hst : v_stack s' = (repeat_val VNull (Z.to_nat (n - argc)) ++ args_rev) ++ rest)
      by (unfold s', called; vmsimpl; rewrite app_assoc; reflexivity).
    assert (Hlen : v_slen s' = zlength (v_stack s')) by (apply called_slen; auto).
    assert (Htop : zlength (repeat_val VNull (Z.to_nat (n - argc)) ++ args_rev) = n).
    { rewrite zlength_app. unfold zlength at 1. rewrite repeat_val_length. lia. }
    pose proof (@zlength_nonneg val rest) as Hr.
    split; [|split].
    - intros pos Hpos. apply (slot_below s' _ rest pos Hst Hlen Hpos).
    - intros i Hi. assert (Hb : v_bp s' = zlength rest) by reflexivity.
      assert (Hs : v_slen s' = zlength rest + n) by reflexivity.
      split; [lia|]. split; [apply get_local_slot; lia|].
      unfold slot. rewrite Hb, Hs.
      destruct (Z.leb_spec 0 (zlength rest + i)); [|lia].
      destruct (Z.ltb_spec (zlength rest + i) (zlength rest + n)); [|lia]. cbn [andb].
      intro E. apply nth_error_None in E. rewrite Hst, app_length in E. unfold zlength in *. lia.
    - intros i v Hi.
      destruct (set_local_above_bp s' _ rest i v Hst Hlen eq_refl ltac:(lia)) as (top' & E & L & _).
      exists top'. split; [exact E|]. unfold zlength in *. lia.
  Qed.

  (* two live activations (of the same function or not): if at a second call the first
     activation's n1 slots are still on the stack below the arguments, the base pointer of the
     second activation lies above all of them *)
  Theorem nested_activations_disjoint :
    forall s1 ip1 n1 argc1 args1 rest1 cur1 frs1 s2 ip2 n2 argc2 args2 cur2 frs2 mid locals1,
    zlength locals1 = n1 ->
    let a1 := called s1 ip1 n1 argc1 args1 rest1 cur1 frs1 in
    let a2 := called s2 ip2 n2 argc2 args2 (mid ++ locals1 ++ rest1) cur2 frs2 in
    v_bp a1 + n1 <= v_bp a2.
  Proof.
    intros. unfold a1, a2, called. vmsimpl. rewrite !zlength_app.
    pose proof (@zlength_nonneg val mid). lia.
  Qed.
End Calls.

(* non-vacuity of B: f(10, 20) with a function of 3 locals called from a frame holding [7; 8] *)
Definition ex_call_prog : program :=
  mkProgram [byte_of_opcode OCall; 2; byte_of_opcode OHalt; byte_of_opcode OGetLocal; 1; 0;
             byte_of_opcode OReturnValue] [].
Definition ex_call_state : vm :=
  mkVM [VFun 3 3; VInt 20; VInt 10; VInt 8; VInt 7] 5 [] [mkFrame 0 0] 0 0 VNull empty_heap gc_new [].

Example call_frame_nonvacuous :
  code_at ex_call_prog (v_ip ex_call_state) [byte_of_opcode OCall; 2]
  /\ step dummy_orc ex_call_prog ex_call_state
     = Ok (Continue (called ex_call_state 3 3 2 [VInt 20; VInt 10] [VInt 8; VInt 7] (mkFrame 0 0) []))
  /\ get_local 0 (called ex_call_state 3 3 2 [VInt 20; VInt 10] [VInt 8; VInt 7] (mkFrame 0 0) []) = Ok (VInt 10)
  /\ get_local 1 (called ex_call_state 3 3 2 [VInt 20; VInt 10] [VInt 8; VInt 7] (mkFrame 0 0) []) = Ok (VInt 20)
  /\ get_local 2 (called ex_call_state 3 3 2 [VInt 20; VInt 10] [VInt 8; VInt 7] (mkFrame 0 0) []) = Ok VNull
  /\ nsteps dummy_orc ex_call_prog 3 ex_call_state
     = Ok (Continue (mkVM [VInt 20; VInt 8; VInt 7] 3 [] [mkFrame 2 0] 2 0 VNull empty_heap gc_new [])).
Proof.
  split; [apply code_at_check; [vm_compute; discriminate|vm_compute; reflexivity]|].
  repeat split; vm_compute; reflexivity.
Qed.

Example call_errors_nonvacuous :
  step dummy_orc (mkProgram [byte_of_opcode OCall; 3] [])
       (mkVM [VFun 3 2; VInt 1; VInt 2; VInt 3] 4 [] [mkFrame 0 0] 0 0 VNull empty_heap gc_new [])
  = Err EArgumentError
  /\ step dummy_orc (mkProgram [byte_of_opcode OCall; 0] [])
       (mkVM [VFun 3 65535; VInt 1] 2 [] [mkFrame 0 0] 0 0 VNull empty_heap gc_new [])
  = Err ETypeError
  /\ step dummy_orc (mkProgram [byte_of_opcode OCall; 0] [])
       (mkVM [VInt 3] 1 [] [mkFrame 0 0] 0 0 VNull empty_heap gc_new [])
  = Err ETypeError.
Proof. repeat split; vm_compute; reflexivity. Qed.

(** * 4. The side conditions of part B are invariants of the machine

    `v_slen s = zlength (v_stack s)` and "the top frame records the running base pointer"
    (so that the bp restored by a return is the caller's own bp) hold in the initial state and
    are preserved by every instruction. *)

Definition vm_wf (s : vm) : Prop :=
  v_slen s = zlength (v_stack s)
  /\ (exists fr frs, v_frames s = fr :: frs /\ f_bp fr = v_bp s)
  /\ Forall (fun fr => 0 <= f_bp fr) (v_frames s).

(* s' has the frames and base pointer of s, and the same length discrepancy *)
Definition ctl_eq (s s' : vm) : Prop :=
  v_frames s' = v_frames s /\ v_bp s' = v_bp s
  /\ v_slen s' - zlength (v_stack s') = v_slen s - zlength (v_stack s).

Lemma ctl_eq_refl : forall s, ctl_eq s s.
Proof. intro s. unfold ctl_eq. auto. Qed.
Lemma ctl_eq_trans : forall a b c, ctl_eq a b -> ctl_eq b c -> ctl_eq a c.
Proof. unfold ctl_eq. intros a b c (A1 & A2 & A3) (B1 & B2 & B3). repeat split; congruence. Qed.
Lemma ctl_eq_wf : forall s s', ctl_eq s s' -> vm_wf s -> vm_wf s'.
Proof.
  unfold ctl_eq, vm_wf. intros s s' (A1 & A2 & A3) (W1 & (fr & frs & W2 & W3) & W4).
  rewrite A1, A2. split; [lia|]. split; [eauto|assumption].
Qed.

Lemma Ok_inj : forall {A} (a b : A), Ok a = Ok b -> a = b.
Proof. intros A a b H. inversion H. reflexivity. Qed.

Lemma bind_ok : forall {A B} (e : outcome A) (k : A -> outcome B) r,
  bind e k = Ok r -> exists a, e = Ok a /\ k a = Ok r.
Proof. intros A B e k r H. destruct e; try discriminate H. eauto. Qed.

Section Invariant.
  Variable orc : oracle.
  Variable prog : program.

  Lemma ce_upd_ip : forall s0 s a, ctl_eq s0 s -> ctl_eq s0 (upd_ip s a).
  Proof. intros s0 s a H. exact H. Qed.
  Lemma ce_upd_heap : forall s0 s h g, ctl_eq s0 s -> ctl_eq s0 (upd_heap s h g).
  Proof. intros s0 s h g H. exact H. Qed.
  Lemma ce_upd_globals : forall s0 s g, ctl_eq s0 s -> ctl_eq s0 (upd_globals s g).
  Proof. intros s0 s g H. exact H. Qed.
  Lemma ce_upd_final : forall s0 s v, ctl_eq s0 s -> ctl_eq s0 (upd_final s v).
  Proof. intros s0 s v H. exact H. Qed.
  Lemma ce_upd_out : forall s0 s o, ctl_eq s0 s -> ctl_eq s0 (upd_out s o).
  Proof. intros s0 s o H. exact H. Qed.
  Lemma ce_with_new : forall s0 s r, ctl_eq s0 s -> ctl_eq s0 (with_new s r).
  Proof. intros s0 s [v h] H. unfold with_new. destruct (Pos.eqb _ _); exact H. Qed.
  Lemma ce_push : forall s0 s v, ctl_eq s0 s -> ctl_eq s0 (push v s).
  Proof.
    intros s0 s v (A & B & C). unfold ctl_eq, push. vmsimpl. rewrite zlength_cons.
    repeat split; auto. lia.
  Qed.
  Lemma ce_read_u8 : forall s0 s b s', ctl_eq s0 s -> read_u8 prog s = Ok (b, s') -> ctl_eq s0 s'.
  Proof.
    intros s0 s b s' H E. unfold read_u8 in E. destruct (byte_at prog (v_ip s)); inversion E; subst. exact H.
  Qed.
  Lemma ce_read_u16 : forall s0 s b s', ctl_eq s0 s -> read_u16 prog s = Ok (b, s') -> ctl_eq s0 s'.
  Proof.
    intros s0 s b s' H E. unfold read_u16 in E.
    destruct (byte_at prog (v_ip s)); [|discriminate E].
    destruct (byte_at prog (v_ip s + 1)); inversion E; subst. exact H.
  Qed.
  Lemma ce_pop : forall s0 s v s', ctl_eq s0 s -> pop s = Ok (v, s') -> ctl_eq s0 s'.
  Proof.
    intros s0 s v s' (A & B & C) E. unfold pop in E. destruct (v_stack s) as [|x st] eqn:St; inversion E; subst.
    unfold ctl_eq. vmsimpl. rewrite zlength_cons in C. repeat split; auto. lia.
  Qed.
  Lemma ce_pop_n : forall n s0 s acc vs s', ctl_eq s0 s -> pop_n n s acc = Ok (vs, s') -> ctl_eq s0 s'.
  Proof.
    induction n; intros s0 s acc vs s' H E; cbn [pop_n] in E.
    - inversion E; subst. exact H.
    - apply bind_ok in E. destruct E as ([v s1] & E1 & E2). apply (IHn s0 s1 _ _ _ (ce_pop _ _ _ _ H E1) E2).
  Qed.
  Lemma ce_set_local : forall s0 s i v s', ctl_eq s0 s -> set_local i v s = Ok s' -> ctl_eq s0 s'.
  Proof.
    intros s0 s i v s' (A & B & C) E. unfold set_local in E.
    destruct (v_bp s + i <? v_slen s); inversion E; subst. unfold ctl_eq. vmsimpl.
    unfold zlength in *. rewrite replace_nth_length. auto.
  Qed.
  Lemma ce_binary : forall s0 s m s', ctl_eq s0 s -> binary orc m s = Ok s' -> ctl_eq s0 s'.
  Proof.
    intros s0 s m s' H E. unfold binary in E.
    apply bind_ok in E. destruct E as ([rhs s1] & E1 & E).
    apply bind_ok in E. destruct E as ([lhs s2] & E2 & E).
    apply bind_ok in E. destruct E as (r & E3 & E). inversion E; subst.
    apply ce_push, ce_with_new. eapply ce_pop; [eapply ce_pop|]; eauto.
  Qed.
  Lemma ce_fused : forall s0 s m s', ctl_eq s0 s -> fused orc prog m s = Ok s' -> ctl_eq s0 s'.
  Proof.
    intros s0 s m s' H E. unfold fused in E.
    apply bind_ok in E. destruct E as ([li s1] & E1 & E).
    apply bind_ok in E. destruct E as (lhs & E2 & E).
    apply bind_ok in E. destruct E as ([ci s2] & E3 & E).
    apply bind_ok in E. destruct E as (rhs & E4 & E).
    apply bind_ok in E. destruct E as (r & E5 & E). inversion E; subst.
    apply ce_push, ce_with_new. eapply ce_read_u16; [eapply ce_read_u16|]; eauto.
  Qed.
  Lemma ce_index_get : forall s0 s lhs idx s', ctl_eq s0 s -> index_get s lhs idx = Ok s' -> ctl_eq s0 s'.
  Proof.
    intros s0 s lhs idx s' H E. unfold index_get in E.
    destruct idx; try discriminate E. destruct lhs; try discriminate E.
    - apply bind_ok in E. destruct E as (t & E1 & E). apply bind_ok in E. destruct E as (i & E2 & E).
      destruct (nth_error t (Z.to_nat i)); [|discriminate E]. apply Ok_inj in E. subst s'.
      apply ce_push, ce_with_new, H.
    - apply bind_ok in E. destruct E as (t & E1 & E). apply bind_ok in E. destruct E as (i & E2 & E).
      destruct (nth_error t (Z.to_nat i)); inversion E; subst. apply ce_push, H.
  Qed.
  Lemma ce_index_set : forall s0 s lhs idx v s', ctl_eq s0 s -> index_set s lhs idx v = Ok s' -> ctl_eq s0 s'.
  Proof.
    intros s0 s lhs idx v s' H E. unfold index_set in E.
    destruct idx; try discriminate E. destruct lhs; try discriminate E.
    - apply bind_ok in E. destruct E as (t & E1 & E). apply bind_ok in E. destruct E as (i & E2 & E).
      destruct v; try discriminate E.
      apply bind_ok in E. destruct E as (repl & E3 & E). apply bind_ok in E. destruct E as (h' & E4 & E).
      inversion E; subst. apply ce_push, ce_upd_heap, H.
    - apply bind_ok in E. destruct E as (t & E1 & E). apply bind_ok in E. destruct E as (i & E2 & E).
      apply bind_ok in E. destruct E as (h' & E4 & E).
      inversion E; subst. apply ce_push, ce_upd_heap, H.
  Qed.
  Lemma ce_collect : forall s0 s extra s', ctl_eq s0 s -> collect prog s extra = Ok s' -> ctl_eq s0 s'.
  Proof.
    intros s0 s extra s' H E. destruct (collect_frame prog _ _ _ E) as (h' & g' & _ & ->).
    apply ce_upd_heap, H.
  Qed.

  Lemma wf_pushframe : forall s ip bp s', vm_wf s -> 0 <= bp -> pushframe ip bp s = Ok s' ->
    v_slen s' = zlength (v_stack s') -> vm_wf s'.
  Proof.
    intros s ip bp s' (W1 & (fr & frs & W2 & W3) & W4) Hbp E Hlen. unfold pushframe in E.
    rewrite W2 in E. inversion E; subst s'. unfold vm_wf. vmsimpl. vmsimpl_in Hlen.
    split; [exact Hlen|]. split; [eauto|].
    rewrite W2 in W4. inversion W4; subst. repeat constructor; assumption.
  Qed.

  Lemma zlength_skipn : forall {A} (l : list A) k, (k <= length l)%nat -> zlength (skipn k l) = zlength l - Z.of_nat k.
  Proof. intros A l k H. unfold zlength. rewrite skipn_length. lia. Qed.

  Lemma wf_popframe : forall s s', vm_wf s -> popframe s = Ok s' -> vm_wf s'.
  Proof.
    intros s s' (W1 & (fr & frs & W2 & W3) & W4) E. unfold popframe in E. rewrite W2 in E.
    destruct frs as [|cur rest]; [discriminate E|]. inversion E; subst s'; clear E.
    rewrite W2 in W4. inversion W4 as [|? ? P1 P2]; subst.
    unfold vm_wf. vmsimpl. split; [|split; [eauto|exact P2]].
    destruct (Z.ltb_spec (f_bp fr) (v_slen s)); [|exact W1].
    rewrite zlength_skipn by (unfold zlength in W1; lia). lia.
  Qed.

  Definition state_of (r : stepres) : vm := match r with Continue s => s | Halted _ s => s end.

  (* take apart every `do x <- e; k = Ok r` hypothesis, and the case distinctions at the head *)
  Ltac expand :=
    repeat match goal with
    | E : bind _ _ = Ok _ |- _ =>
        let x := fresh "x" in let E' := fresh "E" in
        apply bind_ok in E; destruct E as (x & E' & E);
        match type of x with (_ * _)%type => destruct x as [? ?] | _ => idtac end; cbv beta iota in E
    | E : Ok _ = Ok ?y |- _ => is_var y; apply Ok_inj in E; subst y
    | E : match ?v with _ => _ end = Ok _ |- _ => destruct v eqn:?; try discriminate E
    end.

  (* follow the state through the primitive operations, collecting ctl_eq facts *)
  Ltac chase :=
    repeat match goal with
    | R : ctl_eq ?s0 ?a, E : read_u8 _ ?a = Ok _ |- _ => pose proof (ce_read_u8 _ _ _ _ R E); clear E
    | R : ctl_eq ?s0 ?a, E : read_u16 _ ?a = Ok _ |- _ => pose proof (ce_read_u16 _ _ _ _ R E); clear E
    | R : ctl_eq ?s0 ?a, E : pop ?a = Ok _ |- _ => pose proof (ce_pop _ _ _ _ R E); clear E
    | R : ctl_eq ?s0 ?a, E : pop_n _ ?a _ = Ok _ |- _ => pose proof (ce_pop_n _ _ _ _ _ _ R E); clear E
    | R : ctl_eq ?s0 ?a, E : set_local _ _ ?a = Ok _ |- _ => pose proof (ce_set_local _ _ _ _ _ R E); clear E
    | R : ctl_eq ?s0 ?a, E : binary _ _ ?a = Ok _ |- _ => pose proof (ce_binary _ _ _ _ R E); clear E
    | R : ctl_eq ?s0 ?a, E : fused _ _ _ ?a = Ok _ |- _ => pose proof (ce_fused _ _ _ _ R E); clear E
    | R : ctl_eq ?s0 ?a, E : index_get ?a _ _ = Ok _ |- _ => pose proof (ce_index_get _ _ _ _ _ R E); clear E
    | R : ctl_eq ?s0 ?a, E : index_set ?a _ _ _ = Ok _ |- _ => pose proof (ce_index_set _ _ _ _ _ _ R E); clear E
    | R : ctl_eq ?s0 ?a, E : collect _ ?a _ = Ok _ |- _ => pose proof (ce_collect _ _ _ _ R E); clear E
    end.

  Ltac ce_close :=
    repeat first [ eassumption | apply ce_push | apply ce_with_new | apply ce_upd_heap | apply ce_upd_globals
                 | apply ce_upd_final | apply ce_upd_out | apply ce_upd_ip
                 | match goal with |- ctl_eq _ (if ?b then _ else _) => destruct b end ].

  Theorem step_preserves_wf : forall s r, vm_wf s -> step orc prog s = Ok r -> vm_wf (state_of r).
  Proof.
    intros s r W E. unfold step in E.
    destruct (byte_at prog (v_ip s)) as [b|]; [|discriminate E].
    destruct (opcode_of_byte b) as [op|]; [|discriminate E].
    assert (R0 : ctl_eq s (upd_ip s (v_ip s + 1))) by exact (ce_upd_ip _ _ _ (ctl_eq_refl s)).
    cbv zeta in E. set (s1 := upd_ip s (v_ip s + 1)) in *. clearbody s1.
    destruct op; cbv beta iota in E; expand; cbn [state_of];
      try (apply (ctl_eq_wf s); [|exact W]; chase; ce_close; fail).
    - (* Return *)
      match goal with E : popframe s1 = Ok ?y |- _ =>
        pose proof (wf_popframe _ _ (ctl_eq_wf _ _ R0 W) E) as W2; pose proof (ctl_eq_refl y) end.
      eapply ctl_eq_wf; [|exact W2]. chase. ce_close.
    - (* ReturnValue *)
      chase.
      match goal with R : ctl_eq s ?a, E : popframe ?a = Ok ?y |- _ =>
        pose proof (wf_popframe _ _ (ctl_eq_wf _ _ R W) E) as W2; pose proof (ctl_eq_refl y) end.
      eapply ctl_eq_wf; [|exact W2]. chase. ce_close.
    - (* Call *)
      chase.
      match goal with
      | R : ctl_eq s ?a, E : pushframe ?ip ?bp (upd_stack ?a ?st ?len) = Ok ?y,
        C1 : (?n <? ?argc) = false, C3 : (v_slen ?a <? ?argc) = false |- _ =>
          apply Z.ltb_ge in C1; apply Z.ltb_ge in C3;
          pose proof (ctl_eq_wf _ _ R W) as W2;
          assert (W3 : vm_wf (upd_stack a st len))
      end.
      { destruct W2 as (A & B & C). unfold vm_wf. vmsimpl. split; [|auto].
        rewrite zlength_app. unfold zlength at 1. rewrite repeat_val_length. lia. }
      match goal with E : pushframe _ _ ?s3 = Ok _ |- _ =>
        eapply wf_pushframe; [exact W3| |exact E|];
        [lia|unfold pushframe in E; destruct (v_frames s3); inversion E; subst; vmsimpl; apply W3] end.
  Qed.
End Invariant.

Lemma vm_new_wf : vm_wf vm_new.
Proof.
  unfold vm_wf, vm_new. vmsimpl. split; [reflexivity|]. split; [eexists _, _; split; reflexivity|].
  repeat constructor. cbn. lia.
Qed.

Lemma vm_start_wf : forall s consts h, vm_wf (vm_start s consts h).
Proof.
  intros. unfold vm_wf, vm_start. vmsimpl. split; [reflexivity|]. split; [eexists _, _; split; reflexivity|].
  repeat constructor. cbn. lia.
Qed.

(* hence, in every state reachable by running a program, the hypotheses of call_frame and
   return_restores about v_slen hold, and the frame the call saves carries the caller's bp *)
Corollary call_saves_callers_bp : forall s ip n argc args_rev rest cur frs,
  vm_wf s -> v_frames s = cur :: frs ->
  v_frames (called s ip n argc args_rev rest cur frs)
  = mkFrame ip (zlength rest) :: mkFrame (v_ip s + 2) (v_bp s) :: frs.
Proof.
  intros s ip n argc args_rev rest cur frs (_ & (fr & frs' & E & B) & _) Hf.
  rewrite Hf in E. inversion E; subst. unfold called. vmsimpl. rewrite B. reflexivity.
Qed.

(* the round trip in a well-formed machine: the caller gets its own base pointer back *)
Corollary call_return_roundtrip_wf : forall orc prog s0 argc ip n args_rev rest cur frs s result above s',
  vm_wf s0 ->
  v_frames s0 = cur :: frs ->
  v_frames s = v_frames (called s0 ip n argc args_rev rest cur frs) ->
  byte_at prog (v_ip s) = Some (byte_of_opcode OReturnValue) ->
  v_stack s = result :: above ++ rest -> vm_wf s ->
  step orc prog s = Ok (Continue s') ->
  v_stack s' = result :: rest /\ v_ip s' = v_ip s0 + 2 /\ v_bp s' = v_bp s0
  /\ v_frames s' = mkFrame (v_ip s0 + 2) (v_bp s0) :: frs
  /\ v_globals s' = v_globals s /\ v_out s' = v_out s.
Proof.
  intros orc prog s0 argc ip n args_rev rest cur frs s result above s' W0 Hf0 Hf H Hst W Hstep.
  destruct W as (Hlen & _).
  destruct (call_return_roundtrip orc prog s0 argc ip n args_rev rest cur frs s result above s'
              Hf0 Hf H Hst Hlen Hstep) as (A & B & C & D & E & F).
  destruct W0 as (_ & (fr & frs' & E0 & B0) & _). rewrite Hf0 in E0. inversion E0; subst fr frs'.
  rewrite B0 in C, D. auto 10.
Qed.

(* an instruction that reports an error hands back the state it started from: the dispatch
   loop returns the machine as it was before the failing instruction *)
Lemma step_err_keeps_state : forall orc prog s k b,
  step orc prog s = Err k -> run_loop orc prog (S b) s = (Err k, s, b).
Proof. intros orc prog s k b H. cbn [run_loop]. rewrite H. reflexivity. Qed.

Example activations_disjoint_nonvacuous :
  let s' := called ex_call_state 3 3 2 [VInt 20; VInt 10] [VInt 8; VInt 7] (mkFrame 0 0) [] in
  slot s' 0 = Some (VInt 7) /\ slot s' 1 = Some (VInt 8)
  /\ slot s' 2 = Some (VInt 10) /\ slot s' 3 = Some (VInt 20) /\ slot s' 4 = Some VNull
  /\ v_bp s' = 2
  /\ match set_local 2 (VInt 99) s' with
     | Ok s'' => v_stack s'' = [VInt 99; VInt 20; VInt 10; VInt 8; VInt 7]
     | _ => False
     end.
Proof. vm_compute. repeat split; reflexivity. Qed.

Print Assumptions fused_generic3.
Print Assumptions generic3_steps.
Print Assumptions fused_step_equiv.
Print Assumptions call_frame.
Print Assumptions call_binds_by_position.
Print Assumptions call_pads_with_null.
Print Assumptions arity_checked.
Print Assumptions depth_limit.
Print Assumptions call_non_function.
Print Assumptions return_restores.
Print Assumptions return_null_restores.
Print Assumptions call_return_roundtrip.
Print Assumptions popframe_suffix.
Print Assumptions activations_disjoint.
Print Assumptions nested_activations_disjoint.
Print Assumptions step_preserves_wf.
Print Assumptions call_return_roundtrip_wf.
