(* CertifyProofsB.v - property C02 at the level of the compiler, part 2: statements, statement lists,
   compile_block_value (the trailing OPop removed). *)
From Coq Require Import ZArith Lia Bool List.
From NL.Model Require Import Compiler VM.
From NL.Spec Require Import Verify Printer ScopeSpec.
From NL.Proofs Require Import AstInduction SymbolsProofs.
From NL.Proofs Require PoolProofs ControlProofs CompilerNames.
From NL.Proofs Require Import CompilerTotal CertifyBase CertifyProofs.
Import ListNotations.
Open Scope Z_scope.

(** * 1. More about tyE *)

Lemma tyE_pwin : forall a b st st' m LH (E : cert -> Prop) C, tyE st m LH E C -> contig a C b -> pwin a b st st' ->
  zlength (c_constants st) <= zlength (c_constants st') ->
  map l_start (c_loops st') = map l_start (c_loops st) ->
  tyE st' m LH E C.
Proof.
  intros a b st st' m LH E C H Hc Pw KL' EL F K G KL GL HE LO x Hx.
  apply (ents_ok_pwin F K G a C b st); [exact Pw|exact Hc| |exact Hx].
  apply H; [lia|exact GL|exact HE|].
  eapply loop_ok_starts; [|exact LO]. symmetry. exact EL.
Qed.

Lemma tyE_frame : forall d a b st st' m LH (E : cert -> Prop) C, tyE st m LH E C -> contig a C b -> 0 <= a ->
  b <= code_len st -> frame d st st' -> tyE st' m LH E C.
Proof.
  intros d a b st st' m LH E C H Hc A0 L Fr. eapply tyE_pwin; [exact H|exact Hc| | |].
  - eapply pwin_frame; eassumption.
  - exact (pool_ext_len _ _ (mo_pool _ _ (fr_mono _ _ _ Fr))).
  - exact (loops_ext_starts _ _ _ (sp_loops _ _ _ (fr_ps _ _ _ Fr))).
Qed.

Lemma tyE_weaken : forall st m LH (E E' : cert -> Prop) C, (forall G, E' G -> E G) -> tyE st m LH E C -> tyE st m LH E' C.
Proof. intros st m LH E E' C HE H F K G KL GL X LO. apply H; auto. Qed.

Lemma tyE_app : forall a st1 st2 b m LH h1 (E : cert -> Prop) C1 C2,
  tyE st1 m LH (ex m (code_len st1) h1) C1 -> tyE st2 m LH E C2 ->
  contig a C1 (code_len st1) -> 0 <= a -> contig (code_len st1) C2 b -> hd_ok m h1 C2 -> C2 <> [] ->
  frame 0 st1 st2 -> tyE st2 m LH E (C1 ++ C2).
Proof.
  intros a st1 st2 b m LH h1 E C1 C2 T1 T2 Hc1 A0 Hc2 Hh N Fr F K G KL GL HE LO x Hx.
  apply in_app_or in Hx. destruct Hx as [Hx|Hx].
  - apply (ents_ok_pstep F K G (code_len st1) a C1 (code_len st1) st1);
      [exact (fr_ps _ _ _ Fr)|exact Hc1|exact A0|lia| |exact Hx].
    apply T1.
    + eapply klen_frame; eassumption.
    + intros y Hy. apply GL. apply in_or_app. left. exact Hy.
    + destruct C2 as [|y C2]; [contradiction|]. inversion Hc2 as [|a' w m' h' C' b' Hw Hc']; subst.
      cbn in Hh. destruct Hh as [-> ->].
      apply (GL (code_len st1, w, m, h1)). apply in_or_app. right. left. reflexivity.
    + eapply loop_ok_pstep; [exact (fr_ps _ _ _ Fr)|exact LO].
  - apply T2; [exact KL| |exact HE|exact LO|exact Hx].
    intros y Hy. apply GL. apply in_or_app. right. exact Hy.
Qed.

(* same code, pool and loops: only the symbol table differs *)
Lemma tyE_same : forall st st' m LH (E : cert -> Prop) C, c_code st' = c_code st -> c_constants st' = c_constants st ->
  c_loops st' = c_loops st -> tyE st m LH E C -> tyE st' m LH E C.
Proof.
  intros st st' m LH E C E1 E2 E3 H F K G KL GL HE LO x Hx.
  assert (X : ent_ok F K G st m LH x).
  { apply H; [rewrite <- E2; exact KL|exact GL|exact HE| |exact Hx].
    intros s rest R. apply (LO s rest). rewrite E3. exact R. }
  intros A1 A2 A3 A4. apply X.
  - unfold agree, byte_at in *. rewrite <- E1. exact A1.
  - intros N i Hi. unfold agree, byte_at in *. rewrite <- E1. apply A2; [rewrite E3; exact N|exact Hi].
  - intros Y. apply A3. rewrite E3. exact Y.
  - exact A4.
Qed.

Lemma seg_same_end : forall st st1 st' m LH h (E : cert -> Prop) C, c_code st' = c_code st1 ->
  c_constants st' = c_constants st1 -> c_loops st' = c_loops st1 ->
  seg st st1 m LH h E C -> seg st st' m LH h E C.
Proof.
  intros st st1 st' m LH h E C E1 E2 E3 [A1 A2 A3 A4 A5].
  assert (EL : code_len st' = code_len st1) by (unfold code_len; rewrite E1; reflexivity).
  split.
  - rewrite EL. exact A1.
  - exact A2.
  - intros ip n X. rewrite E2 in X. exact (A3 ip n X).
  - intros p Hp Lp. rewrite E3 in Hp. exact (A4 p Hp Lp).
  - eapply tyE_same; eassumption.
Qed.

Lemma contig_nil_inv : forall a C, contig a C a -> C = [].
Proof. intros a C H. inversion H as [|a' w m h C' b Hw Hc]; subst; [reflexivity|]. pose proof (contig_le _ _ _ Hc). lia. Qed.

Lemma contig_snoc_inv : forall a C x b, contig a (C ++ [x]) b -> contig a C (e_pc x) /\ b = e_pc x + e_w x /\ 1 <= e_w x.
Proof.
  intros a C x b H. apply contig_app_inv in H. destruct H as (c & H1 & H2).
  inversion H2 as [|a' w m h C' b' Hw Hc]; subst. inversion Hc; subst. cbn. auto.
Qed.

(** * 2. Building sspec *)

(* the last instruction is neither the OPop of an expression statement nor an OReturnValue *)
Lemma sspec_plain : forall st st' m h LH C op, seg st st' m LH h (ex m (code_len st') h) C ->
  c_last st' = Some op -> op <> OPop -> op <> OReturnValue -> sspec st st' m h LH C.
Proof.
  intros st st' m h LH C op S L N1 N2. split; [exact S| |].
  - intros X. rewrite L in X. injection X as X. contradiction.
  - intros X. rewrite L in X. injection X as X. contradiction.
Qed.

Lemma case_sexpr : forall e, Pe e -> Ps (SExpr e).
Proof.
  intros e IH st st' m h LH We H P. cbn [wf_stmt] in We. rewrite cs_expr in H. bok H st1 H1. injection H as <-.
  pose proof (pr_inv _ _ _ _ _ P) as I0. pose proof (pr_wf _ _ _ _ _ P) as W0. pose proof (pr_h _ _ _ _ _ P) as H0.
  pose proof (expr_frame e st st1 We I0 W0 H1) as F1.
  pose proof (emit1_frame OPop st1 (fr_inv _ _ _ F1) (fr_wf _ _ _ F1)) as F2.
  destruct (use_ih e st _ m h LH st st1 h IH We H1 P I0 W0 eq_refl (fr_mono _ _ _ F2)) as [[C1 S1] _]; [lia|].
  pose proof (fr_len _ _ _ F1) as L1. pose proof (len_emit1 OPop st1) as L2.
  exists (C1 ++ [(code_len st1, 1, m, h + 1)]). split.
  - apply (seg_then_simple OPop 1 (-1) st st1 m LH h (h + 1) h);
      [exact S1|lia|exact (fr_inv _ _ _ F1)|exact (fr_wf _ _ _ F1)|reflexivity|lia|lia].
  - intros _ C0 x EC. apply app_inj_tail in EC. destruct EC as [<- <-]. rewrite L2.
    replace (code_len st1 + 1 - 1) with (code_len st1) by lia. split; [reflexivity|]. split.
    + eapply contig_nonempty; [exact (sg_contig _ _ _ _ _ _ _ S1)|lia].
    + split; [exact (sg_kfun _ _ _ _ _ _ _ S1)|].
      eapply tyE_frame; [exact (sg_typed _ _ _ _ _ _ _ S1)|exact (sg_contig _ _ _ _ _ _ _ S1)
                        |apply code_len_nonneg|lia|exact F2].
  - intros X. discriminate X.
Qed.

Lemma case_slet : forall n e, Pe e -> Ps (SLet n e).
Proof.
  intros n e IH st st' m h LH We H P. cbn [wf_stmt] in We. rewrite cs_let in H.
  pose proof (pr_inv _ _ _ _ _ P) as I0. pose proof (pr_wf _ _ _ _ _ P) as W0. pose proof (pr_h _ _ _ _ _ P) as H0.
  destruct (define (c_symbols st) n) as [t sym] eqn:D. bok H st1 H1.
  destruct (define_spec _ _ _ _ W0 D) as (Wt & _ & _ & _ & _ & _ & _ & Lt & _).
  set (st0 := set_symbols st t) in *.
  assert (I00 : code_inv st0) by (eapply code_inv_same; [exact I0|reflexivity..]).
  pose proof (expr_frame e st0 st1 We I00 Wt H1) as F1.
  pose proof (emit_sym_frame _ _ _ _ H (fr_inv _ _ _ F1) (fr_wf _ _ _ F1)) as F2.
  assert (Em : mode_of st0 = mode_of st) by (unfold mode_of, in_global_context; cbn [st0 set_symbols c_symbols]; rewrite Lt; reflexivity).
  destruct (use_ih e st _ m h LH st0 st1 h IH We H1 P I00 Wt Em (fr_mono _ _ _ F2)) as [[C1 S1] _]; [lia|].
  pose proof (fr_len _ _ _ F1) as L1.
  destruct (emit_sym_app _ _ _ _ H) as (_ & _ & _ & _ & Last).
  exists (C1 ++ [(code_len st1, 3, m, h + 1)]).
  assert (S : seg st st' m LH h (ex m (code_len st') h) (C1 ++ [(code_len st1, 3, m, h + 1)])).
  { apply (seg_same_start st st0); [reflexivity|auto|].
    eapply seg_app1; [exact S1| |exact F2|lia|lia].
    replace h with (h + 1 - 1) at 2 by lia.
    apply (seg_set_sym sym); [exact H|exact (fr_inv _ _ _ F1)|lia|]. intros S.
    assert (X : Z.of_nat (s_index sym) < h); [|lia].
    eapply (define_bound _ _ _ _ st'); [exact W0|exact D| |exact (pr_lb _ _ _ _ _ P)|exact S].
    exact (mo_sym st0 st' (mono_trans _ _ _ (fr_mono _ _ _ F1) (fr_mono _ _ _ F2))). }
  apply (sspec_plain _ _ _ _ _ _ _ S Last); unfold scoped; destruct (s_scope sym); discriminate.
Qed.

Lemma seg_return_value : forall st h LH (E : cert -> Prop), code_inv st -> 1 <= h ->
  seg st (emit_opcode OReturnValue st) true LH h E [(code_len st, 1, true, h)].
Proof.
  intros st h LH E I Hh.
  apply (seg_emit st _ [byte_of_opcode OReturnValue]); [apply app_emit_opcode|apply ibytes_1; reflexivity|exact I|auto|].
  intros F K G HB LF KL HE LO. apply iok_return_value; assumption.
Qed.

Lemma seg_return : forall st h LH (E : cert -> Prop), code_inv st ->
  seg st (emit_opcode OReturn st) true LH h E [(code_len st, 1, true, h)].
Proof.
  intros st h LH E I.
  apply (seg_emit st _ [byte_of_opcode OReturn]); [apply app_emit_opcode|apply ibytes_1; reflexivity|exact I|auto|].
  intros F K G HB LF KL HE LO. apply iok_return; assumption.
Qed.

Lemma case_sreturn : forall e, Pe e -> Ps (SReturn e).
Proof.
  intros e IH st st' m h LH We H P. cbn [wf_stmt] in We. rewrite cs_return in H.
  destruct (in_global_context (c_symbols st)) eqn:EG; [discriminate H|]. bok H st1 H1. injection H as <-.
  pose proof (pr_inv _ _ _ _ _ P) as I0. pose proof (pr_wf _ _ _ _ _ P) as W0. pose proof (pr_h _ _ _ _ _ P) as H0.
  assert (Hm : m = true) by (rewrite (pr_mode _ _ _ _ _ P); unfold mode_of; rewrite EG; reflexivity). subst m.
  pose proof (expr_frame e st st1 We I0 W0 H1) as F1.
  pose proof (emit1_frame OReturnValue st1 (fr_inv _ _ _ F1) (fr_wf _ _ _ F1)) as F2.
  destruct (use_ih e st _ true h LH st st1 h IH We H1 P I0 W0 eq_refl (fr_mono _ _ _ F2)) as [[C1 S1] _]; [lia|].
  pose proof (fr_len _ _ _ F1) as L1.
  exists (C1 ++ [(code_len st1, 1, true, h + 1)]).
  assert (S : forall E : cert -> Prop, seg st (emit_opcode OReturnValue st1) true LH h E (C1 ++ [(code_len st1, 1, true, h + 1)])).
  { intros E. eapply seg_app1; [exact S1|apply seg_return_value; [exact (fr_inv _ _ _ F1)|lia]|exact F2|lia|lia]. }
  split.
  - apply S.
  - intros X. discriminate X.
  - intros _. exact (sg_typed _ _ _ _ _ _ _ (S noex)).
Qed.

Lemma case_sblock_nil : Ps (SBlock []).
Proof.
  intros st st' m h LH _ H P. rewrite cs_block in H. cbn [is_nil] in H. injection H as <-.
  pose proof (pr_inv _ _ _ _ _ P) as I0. pose proof (pr_wf _ _ _ _ _ P) as W0. pose proof (pr_h _ _ _ _ _ P) as H0.
  pose proof (emit1_frame ONull st I0 W0) as F1. set (st1 := emit_opcode ONull st) in *.
  pose proof (emit1_frame OPop st1 (fr_inv _ _ _ F1) (fr_wf _ _ _ F1)) as F2.
  assert (S1 : seg st st1 m LH h (ex m (code_len st1) (h + 1)) [(code_len st, 1, m, h)]).
  { apply (seg_simple ONull 0 1); [reflexivity|exact I0|lia|reflexivity]. }
  pose proof (len_emit1 ONull st) as L1. fold st1 in L1. pose proof (len_emit1 OPop st1) as L2.
  exists ([(code_len st, 1, m, h)] ++ [(code_len st1, 1, m, h + 1)]). split.
  - apply (seg_then_simple OPop 1 (-1) st st1 m LH h (h + 1) h);
      [exact S1|lia|exact (fr_inv _ _ _ F1)|exact (fr_wf _ _ _ F1)|reflexivity|lia|lia].
  - intros _ C0 x EC. apply app_inj_tail in EC. destruct EC as [<- <-]. rewrite L2.
    replace (code_len st1 + 1 - 1) with (code_len st1) by lia. split; [reflexivity|]. split; [discriminate|].
    split; [exact (sg_kfun _ _ _ _ _ _ _ S1)|].
    eapply tyE_frame; [exact (sg_typed _ _ _ _ _ _ _ S1)|exact (sg_contig _ _ _ _ _ _ _ S1)
                      |apply code_len_nonneg|lia|exact F2].
  - intros X. discriminate X.
Qed.

Lemma rev_map_starts : forall (l : list loopctx) ctx rest, rev l = ctx :: rest ->
  rev (map l_start l) = l_start ctx :: map l_start rest.
Proof. intros l ctx rest H. rewrite <- map_rev, H. reflexivity. Qed.

Lemma case_scontinue : Ps SContinue.
Proof.
  intros st st' m h LH _ H P. rewrite cs_continue in H.
  destruct (rev (c_loops st)) as [|ctx rest] eqn:ER; [discriminate H|]. bok H pos Hp. injection H as <-.
  apply operand_ok in Hp. destruct Hp as [-> Lp].
  pose proof (pr_inv _ _ _ _ _ P) as I0. pose proof (pr_wf _ _ _ _ _ P) as W0. pose proof (pr_h _ _ _ _ _ P) as H0.
  pose proof (pr_LH _ _ _ _ _ P) as HL.
  pose proof (emit1_frame ONull st I0 W0) as F1. set (st1 := emit_opcode ONull st) in *.
  pose proof (app_emit3 OJump (l_start ctx) st1) as A.
  pose proof (app_frame _ _ _ A ltac:(zl3) (fr_inv _ _ _ F1) (fr_wf _ _ _ F1) eq_refl eq_refl) as F2.
  assert (S1 : seg st st1 m LH h (ex m (code_len st1) (h + 1)) [(code_len st, 1, m, h)]).
  { apply (seg_simple ONull 0 1); [reflexivity|exact I0|lia|reflexivity]. }
  pose proof (len_emit1 ONull st) as L1. fold st1 in L1.
  exists ([(code_len st, 1, m, h)] ++ [(code_len st1, 3, m, h + 1)]).
  eapply sspec_plain with (op := OJump); [|reflexivity|discriminate|discriminate].
  eapply seg_app1; [exact S1| |exact F2|zl3|lia].
  apply (seg_emit st1 _ _ m LH (h + 1) _ A); [apply ibytes_3; reflexivity|exact (fr_inv _ _ _ F1)|auto|].
  intros F K G HB LF KL HE LO.
  assert (SO : succ_ok G m (l_start ctx) (LH + 1) = true).
  { apply (LO (l_start ctx) (map l_start rest)). apply rev_map_starts. exact ER. }
  eapply iok_jump; [exact HB|exact LF| |eapply succ_ok_weaken; [exact SO|lia]].
  split; [exact (succ_ok_nonneg _ _ _ _ SO)|exact Lp].
Qed.

Lemma case_sbreak : Ps SBreak.
Proof.
  intros st st' m h LH _ H P. rewrite cs_break in H. cbv zeta in H.
  destruct (rev (c_loops st)) as [|ctx rest] eqn:ER; [discriminate H|]. injection H as <-.
  pose proof (pr_inv _ _ _ _ _ P) as I0. pose proof (pr_wf _ _ _ _ _ P) as W0. pose proof (pr_h _ _ _ _ _ P) as H0.
  pose proof (pr_LH _ _ _ _ _ P) as HL.
  assert (EL : c_loops st = rev rest ++ [ctx]) by (rewrite <- (rev_involutive (c_loops st)), ER; reflexivity).
  set (st1 := emit_opcode ONull st) in *. set (st2 := jump_ph OJump st1) in *.
  set (pos := code_len st1) in *.
  pose proof (len_emit1 ONull st) as L1. fold st1 in L1. fold pos in L1.
  pose proof (len_emit3 OJump JUMP_PLACEHOLDER st1) as L2. fold (jump_ph OJump st1) in L2. fold st2 in L2. fold pos in L2.
  cbn [rev].
  set (loops' := rev rest ++ [mkLoop (l_start ctx) (l_breaks ctx ++ [pos])]).
  set (st' := set_loops st2 loops').
  assert (CL : code_len st' = pos + 3) by exact L2.
  pose proof (code_len_nonneg st) as N0.
  (* what is pending in st' *)
  assert (Bk : forall p, brk (c_loops st') p <-> brk (c_loops st) p \/ p = pos).
  { intros p. change (c_loops st') with loops'. unfold loops'. rewrite EL, !brk_snoc. cbn [l_breaks].
    rewrite in_app_iff. cbn [In]. intuition. }
  assert (Old : forall p, brk (c_loops st) p -> p + 2 < code_len st).
  { intros p Hp. destruct (bi_at _ _ I0 p Hp) as (_ & X & _). exact X. }
  assert (By : forall k, (k < 4)%nat ->
            byte_at st' (code_len st + Z.of_nat k) =
            nth_error [byte_of_opcode ONull; byte_of_opcode OJump; JUMP_PLACEHOLDER mod 256; (JUMP_PLACEHOLDER / 256) mod 256] k).
  { intros k Hk. change (byte_at st' (code_len st + Z.of_nat k)) with (byte_at st2 (code_len st + Z.of_nat k)).
    apply (app_of_bytes st st2 _ k); [|exact Hk].
    exact (app_of_trans _ _ _ _ _ (app_emit_opcode ONull st) (app_emit3 OJump JUMP_PLACEHOLDER st1)). }
  exists [(code_len st, 1, m, h); (pos, 3, m, h + 1)].
  eapply sspec_plain with (op := OJump); [|reflexivity|discriminate|discriminate].
  split.
  - rewrite CL. constructor; [lia|]. rewrite <- L1. constructor; [lia|]. constructor.
  - split; reflexivity.
  - apply kfun_new_same. auto.
  - intros p Hp Lp. apply Bk in Hp. destruct Hp as [Hp|Hp]; [specialize (Old p Hp); lia|].
    subst p. exists (h + 1). right. left. reflexivity.
  - intros F K G KL GL HE LO x [<-|[<-|[]]].
    + (* ONull *)
      apply (ent_ok_bytes F K G st' [byte_of_opcode ONull]).
      * intros k Hk. cbn [length] in Hk. assert (k = 0%nat) by lia. subst k. exact (By 0%nat ltac:(lia)).
      * intros X. apply Bk in X. destruct X as [X|X]; [specialize (Old _ X); lia|lia].
      * apply ibytes_1; reflexivity.
      * intros HB LF. eapply iok_simple with (op := ONull); [reflexivity|exact HB|exact LF|exact H0|].
        rewrite <- L1. exact (GL (pos, 3, m, h + 1) (or_intror (or_introl eq_refl))).
    + (* the jump, pending *)
      intros A1 A2 A3 A4. cbn [e_pc e_w e_m e_h fst snd] in *.
      destruct (A3 (proj2 (Bk pos) (or_intror eq_refl))) as (t & Ht & St).
      assert (BJ : fbyte F pos = Some (byte_of_opcode OJump)).
      { unfold agree in A1. rewrite A1. replace pos with (code_len st + Z.of_nat 1) by lia. exact (By 1%nat ltac:(lia)). }
      split; [eapply iok_jump_rd; [exact BJ|exact Ht|exact A4|eapply succ_ok_weaken; [exact St|lia]]|].
      unfold instr_width. rewrite BJ. reflexivity.
Qed.

(** * 3. Statement lists and blocks *)

Lemma stmts_len : forall b sa sb, forallb wfs b = true -> code_inv sa -> wf_tab (c_symbols sa) ->
  compile_statements b sa = Ok sb -> b <> [] -> code_len sa < code_len sb.
Proof.
  intros b sa sb Wb I W H N. pose proof (stmts_frame b sa sb Wb I W H) as F.
  destruct b; [contradiction|]. cbn [is_nil] in F. pose proof (fr_len _ _ _ F). lia.
Qed.

Lemma stmts_sspec : forall b, Forall Ps b -> forall sa sb m h LH, forallb wfs b = true ->
  compile_statements b sa = Ok sb -> pre sa sb m h LH -> exists C, sspec sa sb m h LH C.
Proof.
  induction 1 as [|s r Hs _ IH]; intros sa sb m h LH Wb H P.
  - cbn [compile_statements] in H. injection H as <-. exists []. split.
    + apply seg_nil. exact (pr_inv _ _ _ _ _ P).
    + intros _ C0 x X. destruct C0; discriminate X.
    + intros _ F K G _ _ _ _ x [].
  - cbn [forallb] in Wb. apply andb_prop in Wb. destruct Wb as [Ws Wr]. cbn [compile_statements] in H. bok H s1 H1.
    pose proof (pr_inv _ _ _ _ _ P) as I0. pose proof (pr_wf _ _ _ _ _ P) as W0.
    pose proof (stmt_frame s sa s1 Ws I0 W0 H1) as F1.
    pose proof (stmts_frame r s1 sb Wr (fr_inv _ _ _ F1) (fr_wf _ _ _ F1) H) as F2.
    assert (F2' : frame 0 s1 sb) by (eapply frame_weaken; [|exact F2]; destruct (is_nil r); lia).
    destruct (Hs sa s1 m h LH Ws H1) as [C1 Sp1].
    { eapply pre_sub; [exact P|exact I0|exact W0|reflexivity|exact (fr_mono _ _ _ F2)|lia]. }
    destruct (IH s1 sb m h LH Wr H) as [C2 Sp2].
    { eapply pre_sub; [exact P|exact (fr_inv _ _ _ F1)|exact (fr_wf _ _ _ F1)|exact (pre_frame_mode _ _ _ F1)
                      |apply mono_refl; exact (fr_wf _ _ _ F2)|lia]. }
    destruct r as [|s2 r2].
    + (* s is the last statement *)
      cbn [compile_statements] in H. injection H as <-.
      assert (C2 = []) as -> by (apply (contig_nil_inv (code_len s1)); exact (sg_contig _ _ _ _ _ _ _ (ss_seg _ _ _ _ _ _ Sp2))).
      exists C1. exact Sp1.
    + assert (L2 : code_len s1 < code_len sb).
      { apply (stmts_len (s2 :: r2) s1 sb Wr (fr_inv _ _ _ F1) (fr_wf _ _ _ F1) H). discriminate. }
      pose proof (fr_len _ _ _ F1) as L1.
      destruct Sp1 as [S1 _ _]. destruct Sp2 as [S2 Pop2 Ret2].
      pose proof (sg_contig _ _ _ _ _ _ _ S1) as Hc1. pose proof (sg_contig _ _ _ _ _ _ _ S2) as Hc2.
      assert (N2 : C2 <> []) by (eapply contig_nonempty; [exact Hc2|exact L2]).
      exists (C1 ++ C2). split.
      * eapply seg_app; [exact S1|exact S2|exact F2'| |intros X; lia].
        intros ->. inversion Hc1. lia.
      * intros Lp C0 x EC. destruct (exists_last N2) as (C2' & x' & ->). rewrite app_assoc in EC.
        apply app_inj_tail in EC. destruct EC as [<- <-].
        destruct (Pop2 Lp C2' x' eq_refl) as (Ex & N2' & K2 & T2).
        split; [exact Ex|]. split; [intros X; apply app_eq_nil in X; destruct X as [_ X]; exact (N2' X)|].
        split; [exact (kfun_new_app _ _ _ _ _ (sg_kfun _ _ _ _ _ _ _ S1) K2)|].
        destruct (contig_snoc_inv _ _ _ _ Hc2) as (Hc2' & _ & _).
        eapply tyE_app; [exact (sg_typed _ _ _ _ _ _ _ S1)|exact T2|exact Hc1|apply code_len_nonneg|exact Hc2'| |exact N2'|exact F2'].
        pose proof (sg_hd _ _ _ _ _ _ _ S2) as Hh. destruct C2' as [|y C2']; [contradiction|exact Hh].
      * intros Lr. eapply tyE_app; [exact (sg_typed _ _ _ _ _ _ _ S1)|exact (Ret2 Lr)|exact Hc1|apply code_len_nonneg
                                    |exact Hc2|exact (sg_hd _ _ _ _ _ _ _ S2)|exact N2|exact F2'].
Qed.

(* the table of a block: scope entered at the start, left at the end *)
Lemma scope_current : forall t, wf_tab t ->
  length (enter_scope t) = length t /\
  c_scope (current (leave_scope t)) = c_scope (current t) /\ c_max (current (leave_scope t)) = c_max (current t).
Proof.
  intros t W. destruct (wf_tab_shape _ W) as (tp & k & mx & sp & q & ->).
  rewrite enter_scope_snoc, leave_scope_snoc, !current_snoc, !app_length. cbn. auto.
Qed.

Lemma sspec_same : forall st0 st st1 st' m h LH C,
  c_code st0 = c_code st -> c_constants st0 = c_constants st ->
  c_code st' = c_code st1 -> c_constants st' = c_constants st1 -> c_loops st' = c_loops st1 -> c_last st' = c_last st1 ->
  sspec st st1 m h LH C -> sspec st0 st' m h LH C.
Proof.
  intros st0 st st1 st' m h LH C E1 E2 E3 E4 E5 E6 [S Pp Rt].
  assert (EL : code_len st' = code_len st1) by (unfold code_len; rewrite E3; reflexivity).
  split.
  - rewrite EL. apply (seg_same_start st0 st); [exact E1|rewrite E2; auto|].
    eapply seg_same_end; [exact E3|exact E4|exact E5|exact S].
  - rewrite E6, EL. intros Lp C0 x EC. destruct (Pp Lp C0 x EC) as (A & B & K0 & T). split; [exact A|]. split; [exact B|].
    split.
    + intros ip n X. rewrite E4 in X. rewrite E2. exact (K0 ip n X).
    + eapply tyE_same; eassumption.
  - rewrite E6. intros Lr. eapply tyE_same; [exact E3|exact E4|exact E5|exact (Rt Lr)].
Qed.

(* the statements of a non-empty block, between enter_scope and leave_scope *)
Lemma scoped_stmts_sspec : forall b, Forall Ps b -> forall st s1 m h LH, forallb wfs b = true ->
  compile_statements b (set_symbols st (enter_scope (c_symbols st))) = Ok s1 ->
  pre st (set_symbols s1 (leave_scope (c_symbols s1))) m h LH ->
  exists C, sspec st (set_symbols s1 (leave_scope (c_symbols s1))) m h LH C.
Proof.
  intros b Hb st s1 m h LH Wb H P.
  pose proof (pr_inv _ _ _ _ _ P) as I0. pose proof (pr_wf _ _ _ _ _ P) as W0.
  set (st0 := set_symbols st (enter_scope (c_symbols st))) in *.
  assert (I00 : code_inv st0) by (eapply code_inv_same; [exact I0|reflexivity..]).
  assert (W00 : wf_tab (c_symbols st0)) by (apply enter_scope_wf; exact W0).
  pose proof (stmts_frame b st0 s1 Wb I00 W00 H) as F1.
  destruct (scope_current _ (fr_wf _ _ _ F1)) as (_ & Sc & Mx).
  destruct (scope_current _ W0) as (Le & _ & _).
  destruct (stmts_sspec b Hb st0 s1 m h LH Wb H) as [C Sp].
  { split; [exact I00|exact W00| |exact (pr_h _ _ _ _ _ P)|exact (pr_LH _ _ _ _ _ P)|].
    - rewrite (pr_mode _ _ _ _ _ P). unfold mode_of, in_global_context. cbn [st0 set_symbols c_symbols]. rewrite Le. reflexivity.
    - pose proof (pr_lb _ _ _ _ _ P) as L. cbn [set_symbols c_symbols] in L. intros X. rewrite <- Sc in X.
      specialize (L X). rewrite Mx in L. exact L. }
  exists C. eapply sspec_same; [| | | | | |exact Sp]; reflexivity.
Qed.

Lemma case_sblock : forall b, Forall Ps b -> Ps (SBlock b).
Proof.
  intros b Hb st st' m h LH Wb H P. cbn [wf_stmt] in Wb. destruct b as [|s0 b0].
  - exact (case_sblock_nil st st' m h LH eq_refl H P).
  - rewrite cs_block in H. cbn [is_nil] in H. bok H s1 H1. injection H as <-.
    exact (scoped_stmts_sspec (s0 :: b0) Hb st s1 m h LH Wb H1 P).
Qed.

Lemma contig_pos : forall a C b, contig a C b -> C <> [] -> a < b.
Proof.
  intros a C b H N. inversion H as [|a' w m h C' b' Hw Hc]; subst; [contradiction|].
  pose proof (contig_le _ _ _ Hc). lia.
Qed.

(* a block used as a value: nets + 1 *)
Lemma bv_seg : forall b, Forall Ps b -> forall st st' m h LH, forallb wfs b = true ->
  block_value b st = Ok st' -> pre st st' m h LH ->
  (exists C, seg st st' m LH h (ex m (code_len st') (h + 1)) C) /\ code_len st < code_len st'.
Proof.
  intros b Hb st st' m h LH Wb H P.
  pose proof (pr_inv _ _ _ _ _ P) as I0. pose proof (pr_wf _ _ _ _ _ P) as W0. pose proof (pr_h _ _ _ _ _ P) as H0.
  unfold block_value in H. bok H st1 H1. unfold block_statement in H1. destruct (is_nil b) eqn:EN.
  - injection H1 as <-. injection H as <-. split; [|rewrite len_emit1; lia].
    eexists. apply (seg_simple ONull 0 1); [reflexivity|exact I0|lia|reflexivity].
  - bok H1 s1 Hs. injection H1 as <-.
    set (st1 := set_symbols s1 (leave_scope (c_symbols s1))) in *.
    assert (Nb : b <> []) by (intros ->; discriminate EN).
    assert (F1 : frame 1 st st1).
    { apply (block_statement_frame b st st1 Wb I0 W0). unfold block_statement. rewrite EN.
      fold (compile_statements b). rewrite Hs. reflexivity. }
    assert (Sy : c_symbols st' = c_symbols st1).
    { destruct (last_instruction_is OPop st1); injection H as <-; reflexivity. }
    destruct (scoped_stmts_sspec b Hb st s1 m h LH Wb Hs) as [C Sp].
    { destruct P as [P1 P2 P3 P4 P5 P6]. split; try assumption. fold st1. rewrite <- Sy. exact P6. }
    fold st1 in Sp. destruct Sp as [S Pp _].
    pose proof (sg_contig _ _ _ _ _ _ _ S) as Hc. pose proof (fr_len _ _ _ F1) as L1.
    destruct (last_instruction_is OPop st1) eqn:EP; injection H as <-.
    + apply last_is_pop in EP.
      assert (NC : C <> []) by (eapply contig_nonempty; [exact Hc|lia]).
      destruct (exists_last NC) as (C0 & x & ->).
      destruct (Pp EP C0 x eq_refl) as (-> & N0 & K0 & T0).
      destruct (contig_snoc_inv _ _ _ _ Hc) as (Hc0 & _ & _). cbn [e_pc fst] in Hc0.
      pose proof (code_len_nonneg st) as P0.
      assert (Lr : code_len (remove_last_instruction st1) = code_len st1 - 1) by (apply remove_last_len; lia).
      split; [|rewrite Lr; exact (contig_pos _ _ _ Hc0 N0)].
      exists C0. split.
      * rewrite Lr. exact Hc0.
      * pose proof (sg_hd _ _ _ _ _ _ _ S) as Hh. destruct C0 as [|y C0]; [contradiction|exact Hh].
      * exact K0.
      * intros p Hp Lp. destruct (sg_brk _ _ _ _ _ _ _ S p Hp Lp) as [hp X]. exists hp.
        apply in_app_or in X. destruct X as [X|[X|[]]]; [exact X|]. injection X as _ X _. lia.
      * rewrite Lr. eapply tyE_pwin; [exact T0|exact Hc0| |cbn; lia|reflexivity].
        split; [|intros p _; tauto]. intros i Hi. apply remove_last_byte. lia.
    + split; [|rewrite len_emit1; lia]. eexists.
      apply (seg_then_simple ONull 0 1 st st1 m LH h h (h + 1));
        [exact S|lia|exact (fr_inv _ _ _ F1)|exact (fr_wf _ _ _ F1)|reflexivity|lia|reflexivity].
Qed.

Print Assumptions stmts_sspec.
Print Assumptions bv_seg.
