(* CompileCorrectI.v - compiler correctness for the fragment F3 (FUNCTIONS), part I:
   the main theorem compile_correct_F3 and the call facts of properties C10 / C12.

   Parts: E (machine steps, the intermediate evaluator), F (the machine simulates the evaluator),
   G (Sem.v agrees with the evaluator), H (the literals of a program have pairwise different entry
   points).  The fragment and the excluded run-time events are defined in spec/Fragment3.v. *)
From Coq Require Import ZArith Lia Bool List String.
From NL.Model Require Import VM.
From NL.Spec Require Import Sem Fragment Fragment2 Fragment3 ArithSpec.
From NL.Spec Require ScopeSpec.
From NL.Proofs Require VMStepProofs CompilerNames SymbolsProofs PoolProofs.
From NL.Proofs Require Import WordProofs OpsProofs AstInduction ControlProofs
  CompileCorrectA CompileCorrectB CompileCorrectC CompileCorrectD CompileCorrectE CompileCorrectF CompileCorrectG
  CompileCorrectH.
Open Scope Z_scope.

(** * The static pass accepts what the compiler accepts *)

Lemma size3_bsize : forall l, size3_b l = CompilerNames.bsize l.
Proof. induction l as [|s r IH]; [reflexivity|]. cbn [size3_b CompilerNames.bsize]. rewrite IH. reflexivity. Qed.

Lemma f3_fn_ok :
  (forall e lp fa fn, f3s lp fa fn (SExpr e) = true ->
     CompilerNames.fn_ok true e = true /\ (f3e lp fa fn e = true -> CompilerNames.fn_ok false e = true)) /\
  (forall s lp fa fn, f3s lp fa fn s = true -> CompilerNames.fn_ok_stmt s = true).
Proof.
  assert (forall (Q : stmt -> Prop) l, Forall Q l ->
            (forall s, Q s -> forall lp fa fn, f3s lp fa fn s = true -> CompilerNames.fn_ok_stmt s = true) ->
            forall lp fa fn, f3b lp fa fn l = true -> forallb CompilerNames.fn_ok_stmt l = true) as Hall.
  { intros Q l H HQ. induction H as [|s r Hs Hr IH]; intros lp fa fn HF; [reflexivity|].
    rewrite f3b_cons in HF. apply andb_prop in HF. destruct HF as [A B]. cbn [forallb].
    rewrite (HQ s Hs lp fa fn A), (IH lp fa fn B). reflexivity. }
  apply (expr_stmt_ind
    (fun e => forall lp fa fn, f3s lp fa fn (SExpr e) = true ->
       CompilerNames.fn_ok true e = true /\ (f3e lp fa fn e = true -> CompilerNames.fn_ok false e = true))
    (fun s => forall lp fa fn, f3s lp fa fn s = true -> CompilerNames.fn_ok_stmt s = true)).
  - intros l o r IHl IHr lp fa fn HF. rewrite f3s_expr_other in HF by (intros; discriminate).
    assert (CompilerNames.fn_ok false (EInfix l o r) = true) as R.
    { rewrite f3e_infix in HF. apply andb_prop in HF. destruct HF as [HF Hr]. apply andb_prop in HF. destruct HF as [_ Hl].
      cbn [CompilerNames.fn_ok]. rewrite (proj2 (IHl false fa fn (f3e_f3s _ _ _ _ Hl)) Hl), (proj2 (IHr false fa fn (f3e_f3s _ _ _ _ Hr)) Hr).
      reflexivity. }
    split; [exact R|intros _; exact R].
  - intros o r IHr lp fa fn HF. rewrite f3s_expr_other in HF by (intros; discriminate).
    assert (CompilerNames.fn_ok false (EPrefix o r) = true) as R.
    { rewrite f3e_prefix in HF. apply andb_prop in HF. destruct HF as [_ Hr].
      cbn [CompilerNames.fn_ok]. exact (proj2 (IHr false fa fn (f3e_f3s _ _ _ _ Hr)) Hr). }
    split; [exact R|intros _; exact R].
  - intros; split; reflexivity.
  - intros; split; reflexivity.
  - intros; split; reflexivity.
  - intros c t alt IHc IHt IHa lp fa fn HF. rewrite f3s_expr_other in HF by (intros; discriminate).
    assert (CompilerNames.fn_ok false (EIf c t alt) = true) as R.
    { rewrite f3e_if in HF. apply andb_prop in HF. destruct HF as [HF Hfa]. apply andb_prop in HF. destruct HF as [Hfc Hft].
      cbn [CompilerNames.fn_ok]. rewrite (proj2 (IHc false fa fn (f3e_f3s _ _ _ _ Hfc)) Hfc).
      rewrite (Hall _ t IHt (fun s H => H) lp fn fn Hft). cbn [andb].
      destruct alt as [bl|]; [|reflexivity]. exact (Hall _ bl IHa (fun s H => H) lp fn fn Hfa). }
    split; [exact R|intros _; exact R].
  - intros; split; reflexivity.
  - intros n ps body IHb lp fa fn HF.
    assert (f3b false true true body = true) as HFb.
    { destruct n as [|c0 nm].
      - rewrite f3s_expr_other in HF by (intros; discriminate). rewrite f3e_function in HF.
        apply andb_prop in HF. exact (proj2 HF).
      - rewrite f3s_expr_named in HF. apply andb_prop in HF. exact (proj2 HF). }
    pose proof (Hall _ body IHb (fun s H => H) false true true HFb) as Rb.
    split.
    + cbn [CompilerNames.fn_ok orb andb]. exact Rb.
    + intros HFe. rewrite f3e_function in HFe. apply andb_prop in HFe. destruct HFe as [HFe _].
      apply andb_prop in HFe. destruct HFe as [_ Hn]. cbn [CompilerNames.fn_ok]. rewrite Hn, Rb. reflexivity.
  - intros h args IHh IHa lp fa fn HF. rewrite f3s_expr_other in HF by (intros; discriminate).
    assert (CompilerNames.fn_ok false (ECall h args) = true) as R.
    { rewrite f3e_call in HF. apply andb_prop in HF. destruct HF as [HF HFf]. apply andb_prop in HF. destruct HF as [_ HFa].
      cbn [CompilerNames.fn_ok]. rewrite (proj2 (IHh false fa fn (f3e_f3s _ _ _ _ HFf)) HFf), andb_true_r.
      clear IHh HFf. induction IHa as [|x r Hx Hr IH]; [reflexivity|].
      rewrite f3es_cons in HFa. apply andb_prop in HFa. destruct HFa as [A B]. cbn [forallb].
      rewrite (proj2 (Hx false fa fn (f3e_f3s _ _ _ _ A)) A), (IH B). reflexivity. }
    split; [exact R|intros _; exact R].
  - intros l r IHl IHr lp fa fn HF. rewrite f3s_expr_other in HF by (intros; discriminate).
    assert (CompilerNames.fn_ok false (EAssign l r) = true) as R.
    { destruct l; try discriminate HF. rewrite f3e_assign in HF. cbn [CompilerNames.fn_ok].
      exact (proj2 (IHr false fa fn (f3e_f3s _ _ _ _ HF)) HF). }
    split; [exact R|intros _; exact R].
  - intros s lp fa fn HF. discriminate HF.
  - intros vs _ lp fa fn HF. discriminate HF.
  - intros b i _ _ lp fa fn HF. discriminate HF.
  - intros c b IHc IHb lp fa fn HF. rewrite f3s_expr_other in HF by (intros; discriminate).
    assert (CompilerNames.fn_ok false (EWhile c b) = true) as R.
    { rewrite f3e_while in HF. apply andb_prop in HF. destruct HF as [Hfc Hfb].
      cbn [CompilerNames.fn_ok]. rewrite (proj2 (IHc false fa fn (f3e_f3s _ _ _ _ Hfc)) Hfc).
      exact (Hall _ b IHb (fun s H => H) true fn fn Hfb). }
    split; [exact R|intros _; exact R].
  - intros n e IHe lp fa fn HF. rewrite f3s_let in HF. apply andb_prop in HF. destruct HF as [HF _].
    cbn [CompilerNames.fn_ok_stmt]. exact (proj2 (IHe false fa fn (f3e_f3s _ _ _ _ HF)) HF).
  - intros e IHe lp fa fn HF. rewrite f3s_return in HF.
    cbn [CompilerNames.fn_ok_stmt]. exact (proj2 (IHe false fa fn (f3e_f3s _ _ _ _ HF)) HF).
  - intros e IHe lp fa fn HF. cbn [CompilerNames.fn_ok_stmt]. exact (proj1 (IHe lp fa fn HF)).
  - intros b IHb lp fa fn HF. rewrite f3s_block in HF. cbn [CompilerNames.fn_ok_stmt].
    exact (Hall _ b IHb (fun s H => H) lp fn fn HF).
  - reflexivity.
  - reflexivity.
Qed.

Lemma f3b_fn_ok : forall p lp fa fn, f3b lp fa fn p = true -> forallb CompilerNames.fn_ok_stmt p = true.
Proof.
  induction p as [|s r IH]; intros lp fa fn HF; [reflexivity|].
  rewrite f3b_cons in HF. apply andb_prop in HF. destruct HF as [A B]. cbn [forallb].
  rewrite (proj2 f3_fn_ok s lp fa fn A), (IH lp fa fn B). reflexivity.
Qed.

Lemma in_F3_fn_ok : forall p, in_F3 p = true -> CompilerNames.fn_ok_block p = true.
Proof. intros p H. exact (f3b_fn_ok p false true false H). Qed.

Theorem static_accepts_F3 : forall p bc fuel, in_F3 p = true -> compile p = Ok bc ->
  (size3_b p <= fuel)%nat -> static_check fuel p = None.
Proof.
  intros p bc fuel HF Hc Hsz. apply (CompilerNames.accepted_scoped p bc fuel (in_F3_fn_ok p HF)); [|exact Hc].
  rewrite <- size3_bsize. exact Hsz.
Qed.

(** * Compiler correctness for F3 *)

Definition E_top : cenv := mkCE MTop [] [] O O [] [] O.

Lemma Rel3_init : forall Sall, Rel3 Sall E_top [] sem_init y_init.
Proof.
  intros Sall. constructor; cbn [E_top ce_mode ce_ds ce_dl ce_nf ce_L ce_gh ce_lh ce_N app map].
  - reflexivity.
  - reflexivity.
  - apply Nat.le_refl.
  - constructor.
  - intros i x c H. destruct i; discriminate H.
  - intros i x c H. destruct i; discriminate H.
  - intros c [].
  - intros c _. apply PM.gempty.
  - reflexivity.
  - intros id fe H. destruct id; discriminate H.
  - intros fe [].
  - intros h [].
  - intros h [].
  - reflexivity.
Qed.

Lemma ctx_ok_init : ctx_ok compiler_new (mkD [[]] None) E_top.
Proof.
  unfold ctx_ok. cbn [E_top ce_mode ce_ds ce_dl d_global d_local concat app rev map].
  split; [reflexivity|]. split; [reflexivity|]. split; [reflexivity|]. exists O, [], [].
  split; [reflexivity|]. split; [reflexivity|]. apply Nat.le_refl.
Qed.

(* Sem against the evaluator, for a whole program *)
Lemma sem_program_yeval : forall orc p st1, in_F3 p = true -> compile_statements p compiler_new = Ok st1 ->
  forall fuel, exists E',
    corr (lits p) E_top E' [] sem_init (exec_block orc fuel (mkD [[]] None) p VNull sem_init)
         (ystmts orc fuel compiler_new p VNull y_init).
Proof.
  intros orc p st1 HF Hc fuel.
  destruct (sem_yeval orc (lits p) (lits_uniq p st1 HF Hc) (lits_closed p) fuel) as [_ [Hl _]].
  destruct (Hl false true false p (mkD [[]] None) compiler_new st1 E_top [] sem_init y_init VNull VNull HF Hc
              ctx_ok_init) as [E' [_ [_ H]]].
  - split; [reflexivity|]. intros _. reflexivity.
  - apply Rel3_init.
  - intros N. discriminate N.
  - split; intros h y c [].
  - intros fe H. exact H.
  - apply vrel_null.
  - exists E'. exact H.
Qed.

(* Main theorem.  Hypotheses beyond membership in the fragment:
   - the fuel is enough for the static pass (Sem.static_check reports its own fuel exhaustion as
     a SyntaxError), and the dynamic pass of Sem does not run out of fuel;
   - Sem does not report an ArgumentError: in F3 that is a call with more arguments than parameters,
     DESIGN 4.3 item 4.
   Conclusion: the run of the bytecode is observationally equal to the result of Sem (function
   values are compared by kind, obs_eq3), or the run passes through one of the excluded states of
   Fragment3.v (a Call beyond the machine's limits; == / != on two function values). *)
Theorem compile_correct_F3 : forall orc p, in_F3 p = true -> ends_expr p = true ->
  forall bc, compile p = Ok bc ->
  forall fuel, (size3_b p <= fuel)%nat -> sem_program orc fuel p <> SemFuel ->
  (forall out, sem_program orc fuel p <> SemError EArgumentError out) ->
  (exists budget, obs_eq3 (run_program orc bc budget) (sem_program orc fuel p)) \/ hits_excluded orc bc.
Proof.
  intros orc p HF HE bc Hc fuel Hsz Hnf Hna. unfold sem_program in *.
  rewrite (static_accepts_F3 p bc fuel HF Hc Hsz) in *.
  destruct p as [|s0 r].
  - (* the empty program *)
    left. vm_compute in Hc. inversion Hc; subst bc. cbn [size3_b] in Hsz. destruct fuel as [|f]; [lia|].
    rewrite eb_nil. exists 1%nat. cbn [obs_eq3 sem_init st_heap st_out]. exists VNull. vm_compute. auto.
  - assert (ends_pop (s0 :: r) = true) as Hpop by (apply ends_expr_pop; [discriminate|exact HE]).
    pose proof (compile_run_F3 orc (s0 :: r) bc HF Hpop Hc fuel) as Hrun.
    destruct (compile_inv _ _ Hc) as [st1 [Hc1 _]].
    destruct (sem_program_yeval orc (s0 :: r) st1 HF Hc1 fuel) as [E' Hsem].
    pose proof (proj2 (proj2 (yeval_nosig orc fuel)) (s0 :: r) true false compiler_new VNull y_init HF) as Hns.
    destruct (ystmts orc fuel compiler_new (s0 :: r) VNull y_init) as [v' y'|y'|y'|v' y'|k'|f'| |];
      destruct (exec_block orc fuel (mkD [[]] None) (s0 :: r) VNull sem_init) as [v s2|[| |rv] s2|k s2|f s2|];
      cbn [corr nosig] in Hsem, Hns; try contradiction; try (exfalso; apply Hnf; reflexivity);
      try (right; exact Hrun; fail);
      try (destruct k; try contradiction; try (exfalso; apply (Hna (st_out s2)); reflexivity); try (right; exact Hrun; fail)).
    all: try (destruct Hsem as [N _]; discriminate N).
    1: { (* a value *)
      destruct Hsem as [X [V [_ [Ho _]]]]. destruct (vrel_obs _ _ _ V) as [Vo Vl].
      destruct (Hrun Vl) as [[budget [R1 R2]]|Hx]; [left|right; exact Hx].
      exists budget. cbn [obs_eq3]. exists v'. rewrite Ho. cbn [sem_init st_out]. auto. }
    (* an error or a fault *)
    all: destruct Hsem as [-> Ho]; (destruct Hrun as [[budget [R1 R2]]|Hx]; [left|right; exact Hx]);
      exists budget; cbn [obs_eq3]; rewrite Ho; cbn [sem_init st_out]; auto.
Qed.

(** * C10: the fused instructions are unobservable *)

(* The method executed by a fused instruction on (value of the local variable, literal) computes
   exactly what the generic instruction's method computes on the two operands in SOURCE order
   (for `5 - x` the compiler selects the mirrored fused operator).  a is any value of the fragment:
   a scalar or a function value.  Together with compile_correct_F3 (Sem.v knows no fusion, the
   compiler fuses whenever it can): fusion cannot be observed. *)
Corollary fused_unobservable : forall orc l r o name v o' h a m m' mf,
  fused_candidate l r o = Some (name, v, o') -> lit_ok v = true -> Sem.method_of o = Some m ->
  assoc operator_eqb o' fused_table = Some m' -> assoc opcode_eqb m' fused_dispatch = Some mf ->
  (scalar a = true \/ exists ip n, a = VFun ip n) ->
  binop orc mf h a (VInt v) =
  (let (x, y) := match l with EIdent _ => (a, VInt v) | _ => (VInt v, a) end in binop orc m h x y).
Proof.
  intros orc l r o name v o' h a m m' mf Hf Hlit Hm Hft Hmf Ha.
  assert (exists F a0, vrel F a0 a) as [F [a0 Va]].
  { destruct Ha as [Hs|[ip [n ->]]].
    - exists [], a. destruct a; try discriminate Hs; cbn [vrel]; auto.
    - exists [mkFE ip n [] [] compiler_new], (VFun 0 0). cbn [vrel]. split; [lia|]. eexists. split; reflexivity. }
  assert (vrel F (VInt v) (VInt v)) as Vv by (cbn [vrel]; split; [reflexivity|apply scalar_lit; exact Hlit]).
  pose proof (fused_agree orc F l r o name v o' h a0 a m m' Hf Hlit Hm Hft mf Hmf Va) as H1.
  destruct (PoolProofs.fused_selection_sound _ _ _ _ _ _ Hf) as [(-> & _ & _)|(-> & _ & _)].
  - destruct H1 as [H1 _]. rewrite H1. symmetry.
    apply (binop_agree orc F o m h a0 (VInt v) a (VInt v) Hm Va Vv). cbn [is_fun]. rewrite andb_false_r. reflexivity.
  - destruct H1 as [H1 _]. rewrite H1. symmetry.
    apply (binop_agree orc F o m h (VInt v) a0 (VInt v) a Hm Vv Va). reflexivity.
Qed.

(** * C12: calls *)

(* Sem.v and the evaluator simulated by the machine evaluate the arguments from left to right,
   then the callee, then call; the machine simulates exactly this evaluator (esim, part F). *)
Corollary args_left_to_right : forall orc f c st fn args sst y, is_builtin_callee fn = false ->
  eval_expr orc (S f) c (ECall fn args) sst =
    rbind (sem_list orc f c args sst) (fun vs s1 =>
      rbind (eval_expr orc f c fn s1) (fun fv s2 => sem_call orc f fv vs s2)) /\
  (forall x r s, sem_list orc f c (x :: r) s =
     rbind (eval_expr orc f c x s) (fun v s1 => rbind (sem_list orc f c r s1) (fun vs s2 => ROk (v :: vs) s2))) /\
  yeval orc (S f) st (ECall fn args) y =
    ybind (yargs orc f st args y) (fun vs y1 =>
      match CompilerNames.compile_exprs args st with
      | Ok st1 => ybind (yeval orc f st1 fn y1) (fun fv y2 => ycall orc f fv vs y2)
      | _ => YFault FUnwrap
      end) /\
  (forall x r st0 y0, yargs orc f st0 (x :: r) y0 =
     ybind (yeval orc f st0 x y0) (fun v y1 =>
       match compile_expression x st0 with
       | Ok st1 => ybind (yargs orc f st1 r y1) (fun vs y2 => YOk (v :: vs) y2)
       | _ => YFault FUnwrap
       end)) /\
  esim orc (ECall fn args).
Proof.
  intros orc f c st fn args sst y Hb. split; [exact (ee_call orc f c fn args sst Hb)|].
  split; [intros; apply sl_cons|]. split; [apply ye_call|]. split; [intros; apply ya_cons|apply esim_all].
Qed.

(* A call starts a fresh activation: Sem binds the parameters to NEW cells (missing arguments are
   null), the machine's activation has exactly the argument values followed by nulls as its slots,
   and the two are related in the callee's environment, whose only local declarations are the
   parameters; nothing visible to the caller has changed. *)
Corollary activation_fresh : forall Sall E F sst y ps vs vs' n nf sst1,
  Rel3 Sall E F sst y -> Forall2 (vrel F) vs vs' -> (length vs <= length ps)%nat -> (Z.of_nat (length ps) <= n) ->
  snd (sem_bind ps vs [] sst) = sst1 ->
  let dl := combine ps (cells_from (st_next sst) (length ps)) in
  let y0 := mkY (y_m y) (vs' ++ repeat_val VNull (Z.to_nat (n - zlength vs'))) (y_funs y) in
  fst (sem_bind ps vs [] sst) = rev dl /\
  Rel3 Sall (callee_env E nf dl (Z.to_nat n)) F sst1 y0 /\
  st_out sst1 = st_out sst /\ (st_next sst <= st_next sst1)%positive /\
  (forall c, (c < st_next sst)%positive -> PM.find c (st_cells sst1) = PM.find c (st_cells sst)) /\
  (forall c, In c (map snd dl) -> (st_next sst <= c)%positive).
Proof. exact call_enter. Qed.

Lemma ycall_loc : forall orc f fv vs y v y', ycall orc f fv vs y = YOk v y' -> y_loc y' = y_loc y.
Proof.
  intros orc f fv vs y v y' H. unfold ycall, ycall_g in H. destruct fv; try discriminate H.
  destruct (n <? zlength vs); [discriminate H|]. destruct (find_fun ip (y_funs y)) as [fe|]; [|discriminate H].
  destruct (negb (fe_n fe =? n)); [discriminate H|].
  destruct (yblock_g _ _ _ _) as [v3 y3|y3|y3|v3 y3|e|x| |]; try discriminate H.
  - destruct (gc_clean y3); inversion H; reflexivity.
  - inversion H; reflexivity.
Qed.

(* After a call that returns, the caller continues intact: the slots of its activation are the same
   list as before the call (the machine: part F), every cell of Sem that is not a declaration visible
   to the callee is unchanged (frame), and the caller's state relation holds again. *)
Corollary caller_intact : forall orc p st1, in_F3 p = true -> compile_statements p compiler_new = Ok st1 ->
  forall f E F sst y fv fv' vs vs' v sst',
  Rel3 (lits p) E F sst y -> vrel F fv fv' -> Forall2 (vrel F) vs vs' ->
  sem_call orc f fv vs sst = ROk v sst' ->
  match ycall orc f fv' vs' y with
  | YOk v' y' => y_loc y' = y_loc y /\ exists X, vrel (F ++ X) v v' /\ Rel3 (lits p) E (F ++ X) sst' y' /\ frame E sst sst'
  | YExcl => True
  | _ => False
  end.
Proof.
  intros orc p st1 HF Hc f E F sst y fv fv' vs vs' v sst' HR Vf Vv Hs.
  destruct (sem_yeval orc (lits p) (lits_uniq p st1 HF Hc) (lits_closed p) f) as [_ [Hl _]].
  pose proof (call_corr orc (lits p) (lits_uniq p st1 HF Hc) (lits_closed p) f Hl E F sst y fv fv' vs vs' HR Vf Vv) as H.
  rewrite Hs in H. destruct (ycall orc f fv' vs' y) as [v' y'|y'|y'|v' y'|k'|f'| |] eqn:Ey; cbn [corr] in H; try contradiction; try exact I.
  split; [exact (ycall_loc orc f fv' vs' y v' y' Ey)|exact H].
Qed.

(** * Examples: the statements are not vacuous *)

Definition ex3_fac : text := [102%N; 97%N; 99%N].
Definition ex3_n : text := [110%N].
Definition ex3_x : text := [120%N].
Definition ex3_f : text := [102%N].
Definition ex3_a : text := [97%N].
Definition ex3_b : text := [98%N].
Definition ex3_mk : text := [109%N; 107%N].

(* functie fac(n) { als n < 2 { antwoord 1 }  n * fac(n - 1) }   fac(5) *)
Definition ex_fac : block :=
  [ SExpr (EFunction ex3_fac [ex3_n]
      [ SExpr (EIf (EInfix (EIdent ex3_n) OpLt (EInt 2)) [SReturn (EInt 1)] None);
        SExpr (EInfix (EIdent ex3_n) OpMultiply (ECall (EIdent ex3_fac) [EInfix (EIdent ex3_n) OpSubtract (EInt 1)])) ]);
    SExpr (ECall (EIdent ex3_fac) [EInt 5]) ].

Example ex_fac_in_F3 : in_F3 ex_fac = true /\ ends_expr ex_fac = true.
Proof. split; vm_compute; reflexivity. Qed.

(* recursion through a global name, a fused instruction (n < 2, n - 1 on a local), antwoord from
   inside als *)
Example ex_fac_runs :
  match compile ex_fac with
  | Ok bc => o_result (run_program ex_orc bc 2000) = Ok (VInt 120)
             /\ obs_eq3 (run_program ex_orc bc 2000) (sem_program ex_orc 100 ex_fac)
  | _ => False
  end.
Proof. vm_compute. split; [reflexivity|]. eexists. split; [reflexivity|]. split; reflexivity. Qed.

Example ex_fac_by_theorem : forall bc, compile ex_fac = Ok bc ->
  (exists budget, obs_eq3 (run_program ex_orc bc budget) (sem_program ex_orc 100 ex_fac)) \/ hits_excluded ex_orc bc.
Proof.
  intros bc H.
  apply (compile_correct_F3 ex_orc ex_fac (proj1 ex_fac_in_F3) (proj2 ex_fac_in_F3) bc H 100).
  - vm_compute. lia.
  - vm_compute. discriminate.
  - intros out. vm_compute. discriminate.
Qed.

(* stel x = 0   functie f(a, b) { a * 10 + b }   f(x = 1, x = x + 1):
   arguments from left to right: a = 1, b = 2 *)
Definition ex_args : block :=
  [ SLet ex3_x (EInt 0);
    SExpr (EFunction ex3_f [ex3_a; ex3_b]
      [ SExpr (EInfix (EInfix (EIdent ex3_a) OpMultiply (EInt 10)) OpAdd (EIdent ex3_b)) ]);
    SExpr (ECall (EIdent ex3_f) [EAssign (EIdent ex3_x) (EInt 1);
                                 EAssign (EIdent ex3_x) (EInfix (EIdent ex3_x) OpAdd (EInt 1))]) ].

Example ex_args_order :
  in_F3 ex_args = true /\
  match compile ex_args with
  | Ok bc => o_result (run_program ex_orc bc 1000) = Ok (VInt 12)
             /\ obs_eq3 (run_program ex_orc bc 1000) (sem_program ex_orc 100 ex_args)
  | _ => False
  end.
Proof. vm_compute. split; [reflexivity|]. split; [reflexivity|]. eexists. split; [reflexivity|]. split; reflexivity. Qed.

(* functie mk() { antwoord functie() { 1 } }   mk() == mk():
   the discrepancy behind the excluded event at_funeq.  The machine compares (entry point, number
   of locals) and says true; Sem.v compares closure identities and says false. *)
Definition ex_funeq : block :=
  [ SExpr (EFunction ex3_mk [] [SReturn (EFunction [] [] [SExpr (EInt 1)])]);
    SExpr (EInfix (ECall (EIdent ex3_mk) []) OpEq (ECall (EIdent ex3_mk) [])) ].

Example ex_funeq_differs :
  in_F3 ex_funeq = true /\ ends_expr ex_funeq = true /\
  match compile ex_funeq with
  | Ok bc => o_result (run_program ex_orc bc 1000) = Ok (VBool true)
  | _ => False
  end /\
  exists h, sem_program ex_orc 100 ex_funeq = SemValue (VBool false) h [].
Proof.
  vm_compute. split; [reflexivity|]. split; [reflexivity|]. split; [reflexivity|]. eexists. reflexivity.
Qed.

(* a first-class function: stel f = functie(a) { a + 1 }   stel g = f   g(41) *)
Definition ex3_g : text := [103%N].
Definition ex_first_class : block :=
  [ SLet ex3_f (EFunction [] [ex3_a] [SExpr (EInfix (EIdent ex3_a) OpAdd (EInt 1))]);
    SLet ex3_g (EIdent ex3_f);
    SExpr (ECall (EIdent ex3_g) [EInt 41]) ].

Example ex_first_class_runs :
  in_F3 ex_first_class = true /\
  match compile ex_first_class with
  | Ok bc => o_result (run_program ex_orc bc 1000) = Ok (VInt 42)
             /\ obs_eq3 (run_program ex_orc bc 1000) (sem_program ex_orc 100 ex_first_class)
  | _ => False
  end.
Proof. vm_compute. split; [reflexivity|]. split; [reflexivity|]. eexists. split; [reflexivity|]. split; reflexivity. Qed.

Print Assumptions compile_correct_F3.
Print Assumptions static_accepts_F3.
Print Assumptions fused_unobservable.
Print Assumptions args_left_to_right.
Print Assumptions activation_fresh.
Print Assumptions caller_intact.

(* the same with the excluded events as a hypothesis on the run of the machine *)
Corollary compile_correct_F3_hyp : forall orc p, in_F3 p = true -> ends_expr p = true ->
  forall bc, compile p = Ok bc ->
  forall fuel, (size3_b p <= fuel)%nat -> sem_program orc fuel p <> SemFuel ->
  (forall out, sem_program orc fuel p <> SemError EArgumentError out) ->
  ~ hits_excluded orc bc ->
  exists budget, obs_eq3 (run_program orc bc budget) (sem_program orc fuel p).
Proof.
  intros orc p HF HE bc Hc fuel Hsz Hnf Hna Hnx.
  destruct (compile_correct_F3 orc p HF HE bc Hc fuel Hsz Hnf Hna) as [H|H]; [exact H|contradiction].
Qed.

Print Assumptions compile_correct_F3_hyp.
