(* WordProofs.v - proofs about the tagged-word encoding (property C15).
   Plan: (1) constants of the regenerated tables by computation, (2) the bit operations of
   Word.v characterised in pure arithmetic form, (3) round trips, (4) encode/decode, equality. *)
From Coq Require Import ZArith Lia Bool List.
From NL.Model Require Import Ops.
From NL.Spec Require Import EqSpec.
Open Scope Z_scope.

(** * 1. Constants, by computation on the regenerated tables *)

Lemma WORD_val : WORD = 18446744073709551616.
Proof. reflexivity. Qed.
Lemma HALF_val : HALF = 9223372036854775808.
Proof. reflexivity. Qed.
Lemma mask_ones : TAG_MASK = Z.ones 3.
Proof. reflexivity. Qed.
Lemma shift_val : VALUE_SHIFT_BITS = 3.
Proof. reflexivity. Qed.
Lemma fshift_val : FUNCTION_IP_SHIFT = 16.
Proof. reflexivity. Qed.
Lemma MAX_INT_val : MAX_INT = 1152921504606846975.
Proof. reflexivity. Qed.
Lemma MIN_INT_val : MIN_INT = -1152921504606846976.
Proof. reflexivity. Qed.
Lemma ptr_mask_val : WORD - 1 - TAG_MASK = Z.ones 61 * 2 ^ 3.
Proof. reflexivity. Qed.

Lemma int_limits : MAX_INT = 2 ^ 60 - 1 /\ MIN_INT = - 2 ^ 60.
Proof. split; reflexivity. Qed.

Lemma tag_index_range : forall t, 0 <= tag_index t < 8.
Proof. intros t. destruct t; vm_compute; split; congruence. Qed.

Lemma tag_of_index_index : forall t, tag_of_index (tag_index t) = Some t.
Proof. intros t. destruct t; reflexivity. Qed.

Lemma tag_index_inj : forall t u, tag_index t = tag_index u -> t = u.
Proof.
  intros t u H. assert (Some t = Some u) as E.
  { rewrite <- !tag_of_index_index. rewrite H. reflexivity. }
  inversion E. reflexivity.
Qed.

Lemma in_int_range_iff : forall z, in_int_range z = true <-> MIN_INT <= z <= MAX_INT.
Proof. intros z. unfold in_int_range. rewrite andb_true_iff, !Z.leb_le. tauto. Qed.

Lemma fits_isize_iff : forall z, fits_isize z = true <-> - HALF <= z < HALF.
Proof. intros z. unfold fits_isize. rewrite andb_true_iff, Z.leb_le, Z.ltb_lt. tauto. Qed.

(** * 2. Bit operations in arithmetic form *)

Lemma testbit_small : forall t n m, 0 <= m <= n -> 0 <= t < 2 ^ m -> Z.testbit t n = false.
Proof.
  intros t n m Hn Ht. apply Z.testbit_false; [lia|].
  rewrite Z.div_small; [reflexivity|]. split; [lia|].
  apply Z.lt_le_trans with (2 ^ m); [lia|]. apply Z.pow_le_mono_r; lia.
Qed.

Lemma land_mul_pow2_small : forall k m t, 0 <= m -> 0 <= t < 2 ^ m -> Z.land (k * 2 ^ m) t = 0.
Proof.
  intros k m t Hm Ht. apply Z.bits_inj'. intros n Hn.
  rewrite Z.land_spec, Z.bits_0.
  destruct (Z.lt_ge_cases n m) as [Hlt|Hge].
  - rewrite Z.mul_pow2_bits_low by lia. reflexivity.
  - rewrite (testbit_small t n m) by lia. apply andb_false_r.
Qed.

Lemma lor_mul_pow2_add : forall k m t, 0 <= m -> 0 <= t < 2 ^ m ->
  Z.lor (k * 2 ^ m) t = k * 2 ^ m + t.
Proof.
  intros k m t Hm Ht. pose proof (land_mul_pow2_small k m t Hm Ht) as H0.
  rewrite <- Z.lxor_lor by exact H0. symmetry. apply Z.add_nocarry_lxor. exact H0.
Qed.

Lemma lor_low3 : forall k t, 0 <= t < 8 -> Z.lor (8 * k) t = 8 * k + t.
Proof.
  intros k t Ht. rewrite (Z.mul_comm 8 k). change 8 with (2 ^ 3).
  apply lor_mul_pow2_add; [lia|]. change (2 ^ 3) with 8. lia.
Qed.

Lemma lor_low16 : forall k t, 0 <= t < 65536 -> Z.lor (k * 65536) t = k * 65536 + t.
Proof.
  intros k t Ht. change 65536 with (2 ^ 16).
  apply lor_mul_pow2_add; [lia|]. change (2 ^ 16) with 65536. lia.
Qed.

Lemma land_7 : forall w, Z.land w 7 = w mod 8.
Proof. intros w. change 7 with (Z.ones 3). rewrite Z.land_ones by lia. reflexivity. Qed.

Lemma land_65535 : forall w, Z.land w 65535 = w mod 65536.
Proof. intros w. change 65535 with (Z.ones 16). rewrite Z.land_ones by lia. reflexivity. Qed.

Lemma land_ptr_mask : forall w, 0 <= w < 18446744073709551616 ->
  Z.land w (Z.ones 61 * 2 ^ 3) = 8 * (w / 8).
Proof.
  intros w Hw. rewrite (Z.mul_comm 8). change 8 with (2 ^ 3).
  apply Z.bits_inj'. intros n Hn. rewrite Z.land_spec.
  destruct (Z.lt_ge_cases n 3) as [Hlt|Hge].
  - rewrite !Z.mul_pow2_bits_low by lia. apply andb_false_r.
  - rewrite !Z.mul_pow2_bits by lia.
    rewrite <- Z.shiftr_div_pow2 by lia. rewrite Z.shiftr_spec by lia.
    replace (n - 3 + 3) with n by lia.
    destruct (Z.lt_ge_cases (n - 3) 61) as [Hl|Hh].
    + rewrite Z.ones_spec_low by lia. apply andb_true_r.
    + rewrite Z.ones_spec_high by lia. rewrite andb_false_r.
      symmetry. apply (testbit_small w n 64); [lia|].
      change (2 ^ 64) with 18446744073709551616. exact Hw.
Qed.

Lemma shiftl3 : forall z, Z.shiftl z VALUE_SHIFT_BITS = 8 * z.
Proof. intros z. rewrite shift_val, Z.shiftl_mul_pow2 by lia. change (2 ^ 3) with 8. lia. Qed.

Lemma shiftr3 : forall z, Z.shiftr z VALUE_SHIFT_BITS = z / 8.
Proof. intros z. rewrite shift_val, Z.shiftr_div_pow2 by lia. reflexivity. Qed.

Lemma tag_bits_mod : forall w, tag_bits w = w mod 8.
Proof. intros w. unfold tag_bits. change TAG_MASK with 7. apply land_7. Qed.

Lemma with_type_add : forall raw t, raw mod 8 = 0 -> with_type raw t = raw + tag_index t.
Proof.
  intros raw t Hr. unfold with_type.
  assert (raw = 8 * (raw / 8)) as E by (Z.div_mod_to_equations; lia).
  rewrite E at 1. rewrite lor_low3 by apply tag_index_range. lia.
Qed.

Lemma w_tag_of_mod : forall w t, w mod 8 = tag_index t -> w_tag w = Some t.
Proof.
  intros w t H. unfold w_tag. rewrite tag_bits_mod, H. apply tag_of_index_index.
Qed.

Lemma w_tag_with_type : forall raw t, raw mod 8 = 0 -> w_tag (with_type raw t) = Some t.
Proof.
  intros raw t Hr. apply w_tag_of_mod. rewrite with_type_add by exact Hr.
  pose proof (tag_index_range t) as Ht. Z.div_mod_to_equations. lia.
Qed.

Lemma wrap_range : forall z, 0 <= wrap z < 18446744073709551616.
Proof. intros z. unfold wrap. rewrite WORD_val. Z.div_mod_to_equations. lia. Qed.

Lemma wrap8_mod : forall z, wrap (8 * z) mod 8 = 0.
Proof. intros z. unfold wrap. rewrite WORD_val. Z.div_mod_to_equations. lia. Qed.

Lemma is_word_iff : forall w, is_word w <-> 0 <= w < 18446744073709551616.
Proof. intros w. unfold is_word. rewrite WORD_val. tauto. Qed.

(* a small-integer payload with a tag: the word and its signed reading *)
Lemma tagged_word : forall v t, with_type (wrap (8 * v)) t = wrap (8 * v) + tag_index t.
Proof. intros v t. apply with_type_add. apply wrap8_mod. Qed.

Lemma tagged_is_word : forall v t, is_word (with_type (wrap (8 * v)) t).
Proof.
  intros v t. rewrite tagged_word. unfold is_word. rewrite WORD_val.
  pose proof (tag_index_range t) as Ht. pose proof (wrap8_mod v) as Hm.
  pose proof (wrap_range (8 * v)) as Hr. Z.div_mod_to_equations. lia.
Qed.

Lemma tagged_signed : forall v t, -1152921504606846976 <= v <= 1152921504606846975 ->
  signed (with_type (wrap (8 * v)) t) = 8 * v + tag_index t.
Proof.
  intros v t Hv. rewrite tagged_word. pose proof (tag_index_range t) as Ht.
  unfold signed, wrap. rewrite WORD_val, HALF_val.
  destruct (Z.ltb_spec ((8 * v) mod 18446744073709551616 + tag_index t) 9223372036854775808) as [Hlt|Hge];
    Z.div_mod_to_equations; lia.
Qed.

Lemma tagged_payload : forall v t, -1152921504606846976 <= v <= 1152921504606846975 ->
  Z.shiftr (signed (with_type (wrap (8 * v)) t)) VALUE_SHIFT_BITS = v.
Proof.
  intros v t Hv. rewrite tagged_signed by exact Hv. rewrite shiftr3.
  pose proof (tag_index_range t) as Ht. Z.div_mod_to_equations. lia.
Qed.

(** * 3. Round trips *)

Lemma w_int_eq : forall z, w_int z = with_type (wrap (8 * z)) TInt.
Proof. intros z. unfold w_int. rewrite shiftl3. reflexivity. Qed.

Lemma w_int_signed : forall z, MIN_INT <= z <= MAX_INT -> signed (w_int z) = 8 * z + 1.
Proof.
  intros z Hz. rewrite MIN_INT_val, MAX_INT_val in Hz. rewrite w_int_eq, tagged_signed by exact Hz.
  reflexivity.
Qed.

Lemma w_as_int_w_int : forall z, MIN_INT <= z <= MAX_INT -> w_as_int (w_int z) = z.
Proof.
  intros z Hz. rewrite MIN_INT_val, MAX_INT_val in Hz. unfold w_as_int. rewrite w_int_eq.
  apply tagged_payload. exact Hz.
Qed.

Lemma w_tag_w_int : forall z, w_tag (w_int z) = Some TInt.
Proof. intros z. rewrite w_int_eq. apply w_tag_with_type. apply wrap8_mod. Qed.

Lemma w_int_is_word : forall z, is_word (w_int z).
Proof. intros z. rewrite w_int_eq. apply tagged_is_word. Qed.

Lemma int_roundtrip : forall z, MIN_INT <= z <= MAX_INT ->
  w_as_int (w_int z) = z /\ w_tag (w_int z) = Some TInt /\ is_word (w_int z).
Proof.
  intros z Hz. split; [apply w_as_int_w_int; exact Hz|].
  split; [apply w_tag_w_int | apply w_int_is_word].
Qed.

Lemma w_as_int_range : forall w, is_word w -> MIN_INT <= w_as_int w <= MAX_INT.
Proof.
  intros w Hw. unfold is_word in Hw. rewrite WORD_val in Hw. rewrite MIN_INT_val, MAX_INT_val.
  unfold w_as_int. rewrite shiftr3. unfold signed. rewrite WORD_val, HALF_val.
  destruct (Z.ltb_spec w 9223372036854775808) as [Hlt|Hge]; Z.div_mod_to_equations; lia.
Qed.

Lemma int_range_tight : forall z, is_isize z -> w_as_int (w_int z) = z -> MIN_INT <= z <= MAX_INT.
Proof.
  intros z _ Hrt. rewrite <- Hrt. apply w_as_int_range. apply w_int_is_word.
Qed.

Lemma bool_roundtrip : forall b, w_as_bool (w_bool b) = b /\ w_tag (w_bool b) = Some TBool.
Proof. intros b. destruct b; vm_compute; split; reflexivity. Qed.

Lemma null_tag : w_tag w_null = Some TNull.
Proof. reflexivity. Qed.

Lemma w_function_eq : forall ip n, 0 <= n < 65536 ->
  w_function ip n = with_type (wrap (8 * (ip * 65536 + n))) TFunction.
Proof.
  intros ip n Hn. unfold w_function. rewrite shiftl3. rewrite fshift_val.
  rewrite Z.shiftl_mul_pow2 by lia. change (2 ^ 16) with 65536.
  rewrite lor_low16 by exact Hn. reflexivity.
Qed.

Lemma function_roundtrip : forall ip n, 0 <= ip < 2 ^ 32 -> 0 <= n < 2 ^ 16 ->
  w_as_function (w_function ip n) = (ip, n) /\ w_tag (w_function ip n) = Some TFunction
  /\ is_word (w_function ip n).
Proof.
  intros ip n Hip Hn. change (2 ^ 32) with 4294967296 in Hip. change (2 ^ 16) with 65536 in Hn.
  rewrite w_function_eq by exact Hn. split; [|split].
  - unfold w_as_function. rewrite tagged_payload by lia.
    rewrite fshift_val, Z.shiftr_div_pow2 by lia. rewrite land_65535.
    change (2 ^ 16) with 65536. change (2 ^ 32) with 4294967296.
    f_equal; Z.div_mod_to_equations; lia.
  - apply w_tag_with_type. apply wrap8_mod.
  - apply tagged_is_word.
Qed.

Lemma heap_tag_cases : forall t, is_heap_tag t = true -> t = TFloat \/ t = TString \/ t = TArray.
Proof. intros t H. destruct t; try (vm_compute in H; discriminate H); auto. Qed.

Lemma heap_tag_index : forall t, is_heap_tag t = true <-> 4 <= tag_index t.
Proof.
  intros t. unfold is_heap_tag. rewrite Z.leb_le. change (tag_index first_heap_tag) with 4. tauto.
Qed.

Lemma w_heap_add : forall a t, a mod 8 = 0 -> w_heap a t = a + tag_index t.
Proof. intros a t Ha. unfold w_heap. apply with_type_add. exact Ha. Qed.

Lemma ptr_roundtrip : forall a t, aligned_addr a -> is_heap_tag t = true ->
  w_as_ptr (w_heap a t) = a /\ w_tag (w_heap a t) = Some t /\ w_is_heap (w_heap a t) = true.
Proof.
  intros a t [Ha Hal] Ht. rewrite WORD_val in Ha. pose proof (tag_index_range t) as Hti.
  assert ((a + tag_index t) mod 8 = tag_index t) as Hmod by (Z.div_mod_to_equations; lia).
  split; [|split].
  - unfold w_as_ptr. rewrite ptr_mask_val. rewrite w_heap_add by exact Hal.
    rewrite land_ptr_mask by (Z.div_mod_to_equations; lia).
    Z.div_mod_to_equations. lia.
  - unfold w_heap. apply w_tag_with_type. exact Hal.
  - unfold w_is_heap. rewrite tag_bits_mod. rewrite w_heap_add by exact Hal. rewrite Hmod.
    exact Ht.
Qed.

(** * 4. encode / decode *)

Lemma wf_int : forall z, wf_val (VInt z) = true -> MIN_INT <= z <= MAX_INT.
Proof. intros z H. apply in_int_range_iff. exact H. Qed.

Lemma wf_fun : forall ip n, wf_val (VFun ip n) = true -> 0 <= ip < 2 ^ 32 /\ 0 <= n < 2 ^ 16.
Proof.
  intros ip n H. unfold wf_val in H. rewrite !andb_true_iff in H.
  rewrite !Z.leb_le, !Z.ltb_lt in H. tauto.
Qed.

Lemma aligned_loc : forall l, Zpos l <? 2 ^ 60 = true -> aligned_addr (addr_of_loc l).
Proof.
  intros l H. apply Z.ltb_lt in H. change (2 ^ 60) with 1152921504606846976 in H.
  unfold aligned_addr, addr_of_loc. rewrite WORD_val. split; [lia|].
  Z.div_mod_to_equations. lia.
Qed.

Lemma loc_of_addr_of_loc : forall l, loc_of_addr (addr_of_loc l) = Some l.
Proof.
  intros l. unfold loc_of_addr, addr_of_loc. rewrite Z.mul_comm, Z.div_mul by lia. reflexivity.
Qed.

Lemma tag_valid : forall v, wf_val v = true -> w_tag (encode v) = Some (val_tag v).
Proof.
  intros v Hwf. destruct v as [|b|z|ip n|l|l|l].
  - reflexivity.
  - apply bool_roundtrip.
  - apply w_tag_w_int.
  - apply wf_fun in Hwf. destruct Hwf as [Hip Hn]. apply function_roundtrip; assumption.
  - apply ptr_roundtrip; [apply aligned_loc; exact Hwf | reflexivity].
  - apply ptr_roundtrip; [apply aligned_loc; exact Hwf | reflexivity].
  - apply ptr_roundtrip; [apply aligned_loc; exact Hwf | reflexivity].
Qed.

Lemma is_heap_of_tag : forall w t, w_tag w = Some t -> w_is_heap w = is_heap_tag t.
Proof.
  intros w t H. unfold w_tag in H. unfold w_is_heap, is_heap_tag.
  assert (tag_bits w = tag_index t) as E.
  { pose proof (tag_bits_mod w) as Hm.
    assert (0 <= tag_bits w < 8) as Hr by (rewrite Hm; Z.div_mod_to_equations; lia).
    clear Hm. revert H.
    assert (tag_bits w = 0 \/ tag_bits w = 1 \/ tag_bits w = 2 \/ tag_bits w = 3 \/ tag_bits w = 4
            \/ tag_bits w = 5 \/ tag_bits w = 6 \/ tag_bits w = 7) as Hc by lia.
    destruct Hc as [E|[E|[E|[E|[E|[E|[E|E]]]]]]]; rewrite E; vm_compute; intros H;
      inversion H; reflexivity. }
  rewrite E. reflexivity.
Qed.

Lemma is_heap_iff : forall v, wf_val v = true -> w_is_heap (encode v) = is_heap_val v.
Proof.
  intros v Hwf. rewrite (is_heap_of_tag _ _ (tag_valid v Hwf)). destruct v; reflexivity.
Qed.

Lemma as_ptr_encode : forall l t, Zpos l <? 2 ^ 60 = true -> is_heap_tag t = true ->
  loc_of_addr (w_as_ptr (w_heap (addr_of_loc l) t)) = Some l.
Proof.
  intros l t Hl Ht. destruct (ptr_roundtrip _ t (aligned_loc l Hl) Ht) as [E _].
  rewrite E. apply loc_of_addr_of_loc.
Qed.

Lemma decode_encode : forall v, wf_val v = true -> decode (encode v) = Some v.
Proof.
  intros v Hwf. unfold decode. rewrite (tag_valid v Hwf).
  destruct v as [|b|z|ip n|l|l|l]; simpl val_tag; cbv iota beta.
  - reflexivity.
  - unfold encode. destruct (bool_roundtrip b) as [E _]. rewrite E. reflexivity.
  - unfold encode. rewrite w_as_int_w_int by (apply wf_int; exact Hwf). reflexivity.
  - unfold encode. apply wf_fun in Hwf. destruct Hwf as [Hip Hn].
    destruct (function_roundtrip ip n Hip Hn) as [E _]. rewrite E. reflexivity.
  - unfold encode. rewrite as_ptr_encode by (exact Hwf || reflexivity). reflexivity.
  - unfold encode. rewrite as_ptr_encode by (exact Hwf || reflexivity). reflexivity.
  - unfold encode. rewrite as_ptr_encode by (exact Hwf || reflexivity). reflexivity.
Qed.

Lemma encode_injective : forall v1 v2, wf_val v1 = true -> wf_val v2 = true ->
  encode v1 = encode v2 -> v1 = v2.
Proof.
  intros v1 v2 H1 H2 E. assert (Some v1 = Some v2) as S.
  { rewrite <- (decode_encode v1 H1), <- (decode_encode v2 H2), E. reflexivity. }
  inversion S. reflexivity.
Qed.

Lemma encode_is_word : forall v, wf_val v = true -> is_word (encode v).
Proof.
  intros v Hwf. destruct v as [|b|z|ip n|l|l|l].
  - vm_compute. split; congruence.
  - destruct b; vm_compute; split; congruence.
  - apply w_int_is_word.
  - apply wf_fun in Hwf. destruct Hwf as [Hip Hn]. apply function_roundtrip; assumption.
  - pose proof (aligned_loc l Hwf) as [Ha Hal]. unfold encode. rewrite w_heap_add by exact Hal.
    unfold is_word. rewrite WORD_val in *. change (tag_index TFloat) with 4. Z.div_mod_to_equations. lia.
  - pose proof (aligned_loc l Hwf) as [Ha Hal]. unfold encode. rewrite w_heap_add by exact Hal.
    unfold is_word. rewrite WORD_val in *. change (tag_index TString) with 5. Z.div_mod_to_equations. lia.
  - pose proof (aligned_loc l Hwf) as [Ha Hal]. unfold encode. rewrite w_heap_add by exact Hal.
    unfold is_word. rewrite WORD_val in *. change (tag_index TArray) with 6. Z.div_mod_to_equations. lia.
Qed.

(* word equality is value identity *)
Lemma encode_eqb : forall a b, wf_val a = true -> wf_val b = true ->
  (encode a =? encode b) = true <-> a = b.
Proof.
  intros a b Ha Hb. rewrite Z.eqb_eq. split.
  - apply encode_injective; assumption.
  - intros E. rewrite E. reflexivity.
Qed.

(** * 5. Equality *)

Lemma text_eqb_iff : forall a b : text, text_eqb a b = true <-> a = b.
Proof.
  intros a. induction a as [|x a IH]; intros b; destruct b as [|y b]; simpl.
  - tauto.
  - split; discriminate.
  - split; discriminate.
  - rewrite andb_true_iff, N.eqb_eq, IH. split.
    + intros [E1 E2]. rewrite E1, E2. reflexivity.
    + intros E. inversion E. split; reflexivity.
Qed.

(* what the machine reads through a heap word *)
Lemma deref_heap_encode : forall h v l, wf_val v = true -> val_loc v = Some l ->
  deref_heap h (encode v) = match h_get h l with Ok o => Some o | _ => None end.
Proof.
  intros h v l Hwf Hl. unfold deref_heap.
  destruct v as [|b|z|ip n|k|k|k]; simpl in Hl; try discriminate Hl; inversion Hl; subst k;
    unfold encode; rewrite as_ptr_encode by (exact Hwf || reflexivity); reflexivity.
Qed.

Lemma eqb_of_iff : forall (x y : Z) (c : bool), ((x =? y) = true <-> c = true) -> (x =? y) = c.
Proof. intros x y c H. destruct (x =? y); destruct c; intuition congruence. Qed.

Lemma eq_agrees : forall h a b, wf_val a = true -> wf_val b = true ->
  val_tag a = val_tag b -> val_tag a <> TArray ->
  w_eq (deref_heap h) (val_tag a) (encode a) (encode b) = content_eq h a b.
Proof.
  intros h a b Ha Hb Ht Hna.
  destruct a as [|x|x|i n|l|l|l]; destruct b as [|y|y|j m|k|k|k]; simpl in Ht; try discriminate Ht;
    simpl val_tag in *; try (exfalso; apply Hna; reflexivity); clear Ht Hna.
  - reflexivity.
  - destruct x; destruct y; reflexivity.
  - unfold w_eq, content_eq. f_equal. apply eqb_of_iff.
    rewrite (encode_eqb (VInt x) (VInt y) Ha Hb). rewrite Z.eqb_eq.
    split; intros E; [inversion E | rewrite E]; reflexivity.
  - unfold w_eq, content_eq. f_equal. apply eqb_of_iff.
    rewrite (encode_eqb (VFun i n) (VFun j m) Ha Hb). rewrite andb_true_iff, !Z.eqb_eq.
    split; intros E; [inversion E; split | destruct E as [E1 E2]; rewrite E1, E2]; reflexivity.
  - unfold w_eq, content_eq.
    rewrite (deref_heap_encode h (VFloat l) l Ha eq_refl), (deref_heap_encode h (VFloat k) k Hb eq_refl).
    destruct (h_get h l) as [[x|x|x]| | |]; destruct (h_get h k) as [[y|y|y]| | |]; reflexivity.
  - unfold w_eq, content_eq.
    rewrite (deref_heap_encode h (VStr l) l Ha eq_refl), (deref_heap_encode h (VStr k) k Hb eq_refl).
    destruct (h_get h l) as [[x|x|x]| | |]; destruct (h_get h k) as [[y|y|y]| | |]; reflexivity.
Qed.

Lemma tag_eqb_iff : forall t u, tag_eqb t u = true <-> t = u.
Proof. intros t u. destruct t; destruct u; simpl; split; intros H; (reflexivity || discriminate H). Qed.

Lemma tag_eqb_refl : forall t, tag_eqb t t = true.
Proof. intros t. apply tag_eqb_iff. reflexivity. Qed.

Lemma tag_eqb_neq : forall t u, t <> u -> tag_eqb t u = false.
Proof.
  intros t u H. destruct (tag_eqb t u) eqn:E; [|reflexivity].
  apply tag_eqb_iff in E. contradiction.
Qed.

Lemma different_types_rejected : forall h sym ordering a b,
  wf_val a = true -> wf_val b = true -> val_tag a <> val_tag b ->
  w_cmp (deref_heap h) sym ordering (encode a) (encode b) = WErr ETypeError
  /\ encode a <> encode b.
Proof.
  intros h sym ordering a b Ha Hb Hne. split.
  - unfold w_cmp. rewrite (tag_valid a Ha), (tag_valid b Hb).
    rewrite (tag_eqb_neq _ _ Hne). reflexivity.
  - intros E. apply Hne. rewrite (encode_injective a b Ha Hb E). reflexivity.
Qed.
